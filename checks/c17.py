"""C17 - VRF import/export and RT Constraint distribute exactly the matching routes.

design   : MCVrfRtc.tla - the code-shaped mechanism (VrfRtcMech) implements the property layer
           (VrfRtc) in every interleaving of <= N events; with each known defect switched on TLC
           must find the counterexample.
behaviours: VrfRtcGen.tla - TLC -simulate walks after forced warm-up prefixes, plus the exhaustive
           enumeration (TLC breadth-first) of every sequence of k free events over a small alphabet.
execution: harness/c17 - the real BgpServer in a synctest bubble with three scripted neighbours.
verdict  : TLC validating the recorded traces against spec/trace/VrfRtcTrace.tla (C17_* invariants).
"""
import json
import vpcore as v

GEN_CFG = """SPECIFICATION GSpec
CONSTANTS
  MaxSteps = %(steps)d
  Exh = %(exh)s
  WarmName = "%(warm)s"
  Alpha = "%(alpha)s"
  Defer = %(defer)d
  AddPath = %(addpath)s
  Only = %(only)s
INVARIANTS
  Emit
"""

MC_CFG = """SPECIFICATION Spec
CONSTANTS
  Defects = %(defects)s
  MaxEvents = %(n)d
  Defer = %(defer)d
  Pool = "%(pool)s"
INVARIANTS
  D_RtcExact
  D_AllExact
  D_CeExact
  D_TypeOK
CHECK_DEADLOCK FALSE
"""

TRACE_CFG = """SPECIFICATION TraceSpec
CONSTANTS
  Defects = %(defects)s
CONSTRAINT %(constraint)s
POSTCONDITION %(post)s
CHECK_DEADLOCK FALSE
INVARIANTS
  Gap_Sessions
  Gap_Clock
%(invs)s
"""

GAPS = ["Gap_Junk", "Gap_GlobalVpn"]
STRICT = ["C17_ListVrf", "C17_VrfVisible", "C17_VrfExport", "C17_CeExport", "C17_CeComplete", "C17_RtcExact", "C17_OwnMemberships"]

# the known (unrepaired) findings of C17 and the mechanism switches that reproduce them
KF_DEFECTS = {"KF-C17-rtc-withdraw": ["D1", "D2"], "KF-C17-ce-stale": ["D3"], "KF-C17-ce-prefix-collision": ["D4"]}
KF_KIND = {"KF-C17-rtc-withdraw": "rtc", "KF-C17-ce-stale": "ce", "KF-C17-ce-prefix-collision": "cemiss"}
KF_WEAK = {"rtc": ("C17_RtcExact", "C17_RtcExact_KF"), "ce": ("C17_CeExport", "C17_CeExport_KF"),
           "cemiss": ("C17_CeComplete", "C17_CeComplete_KF")}
KINDS = ("rtc", "ce", "cemiss")
WEAK_OF = {strict: kind for kind, (strict, _) in KF_WEAK.items()}


def tla_set(xs):
    return "{" + ", ".join('"%s"' % x for x in sorted(xs)) + "}"


def dedupe(printed):
    seen, out = set(), []
    for s in printed:
        if s not in seen:
            seen.add(s)
            out.append(s)
    return out


def gen(run, tag, warm, alpha, steps, defer, addpath, exh, num=0, seed=1, timeout=900, only=()):
    cfg = "VrfRtcGen_%s.cfg" % tag
    v.write_cfg(run.sc, cfg, GEN_CFG % {"steps": steps, "exh": "TRUE" if exh else "FALSE", "warm": warm,
                                        "alpha": alpha, "defer": defer, "addpath": "TRUE" if addpath else "FALSE",
                                        "only": tla_set(only)})
    if exh:
        res = v.tlc(run.sc, "VrfRtcGen", cfg, workers=1, deadlock=False, timeout=timeout)
    else:
        res = v.tlc(run.sc, "VrfRtcGen", cfg, mode="simulate", simulate="num=%d" % num, depth=steps + 1,
                    seed=seed, workers=1, deadlock=False, timeout=timeout)
    v.require_design_ok(res, "VrfRtcGen " + tag)
    if res.violated:
        raise v.MachineryError("VrfRtcGen %s: unexpected violation\n%s" % (tag, res.out[-2000:]))
    if not res.printed:
        raise v.MachineryError("VrfRtcGen %s printed no behaviours:\n%s" % (tag, res.out[-2000:]))
    if exh:
        run.states += res.distinct
        run.transitions += res.generated
    return dedupe(res.printed)


def design(run, thorough):
    """mechanism => property, exhaustively; and each known defect is a design-level counterexample"""
    sizes = [("a", 5, 13 if thorough else 9), ("a", 0, 12 if thorough else 8), ("b", 5, 10 if thorough else 7),
             ("c", 0, 13 if thorough else 9), ("d", 0, 10 if thorough else 8)]
    for pool, defer, n in sizes:
        cfg = "MCVrfRtc_%s_%d_%d.cfg" % (pool, defer, n)
        v.write_cfg(run.sc, cfg, MC_CFG % {"defects": "{}", "n": n, "defer": defer, "pool": pool})
        res = v.tlc(run.sc, "MCVrfRtc", cfg, timeout=2400, coverage=thorough, workers=4 if not thorough else 8)
        run.design(res, "MCVrfRtc pool=%s defer=%d <=%d events" % (pool, defer, n))
    found = {}
    for d, inv, pool in (("D1", "D_RtcExact", "a"), ("D2", "D_RtcExact", "a"), ("D3", "D_CeExact", "a"), ("D4", "D_CeExact", "c")):
        cfg = "MCVrfRtc_%s.cfg" % d
        v.write_cfg(run.sc, cfg, MC_CFG % {"defects": tla_set([d]), "n": 6, "defer": 5, "pool": pool})
        res = v.tlc(run.sc, "MCVrfRtc", cfg, timeout=600, workers=2)
        v.require_design_ok(res, "MCVrfRtc " + d)
        names = [x["name"] for x in res.violated]
        if inv not in names:
            raise v.MachineryError("design level: defect switch %s does not violate %s (got %s)" % (d, inv, names))
        found[d] = inv
    run.extra["design_defect_counterexamples"] = found


def write_trace_cfg(run, name, defects, invs, scan=False):
    v.write_cfg(run.sc, name, TRACE_CFG % {
        "defects": tla_set(defects), "constraint": "ScanConstraint" if scan else "TraceConstraint",
        "post": "ScanAccepted" if scan else "TraceAccepted", "invs": "\n".join("  " + i for i in invs)})


def scan(run, traces, defects, batch=1500):
    """TLC runs over all traces with the mechanism model only: which traces does the mechanism
    WITH the known defects take out of the property layer (and through which defect family)?
    Model-level bookkeeping, no verdict."""
    out = {k: set() for k in KINDS}
    if not defects:
        return out
    write_trace_cfg(run, "VrfRtcScan_run.cfg", defects, [], scan=True)
    for b0 in range(0, len(traces), batch):
        rows = []
        for i in range(b0, min(len(traces), b0 + batch)):
            t = [dict(r) for r in traces[i]]
            t[0]["tid"] = i + 1
            rows.extend(t)
        v.write_ndjson(run.sc.path("spec", "trace.ndjson"), rows)
        res = v.tlc(run.sc, "VrfRtcTrace", "VrfRtcScan_run.cfg", workers=1, timeout=1200, deadlock=False)
        if not res.ok:
            return None     # gap / sanity failure: let the ordinary validation report it
        got = False
        for ln in res.printed:
            try:
                o = json.loads(ln)
            except Exception:
                continue
            if isinstance(o, dict) and "tainted" in o:
                for k in KINDS:
                    out[k] |= set(int(x) - 1 for x in o["tainted"][k])
                got = True
        if not got:
            return None
    return out


def execute_sharded(run, behs, tag, shards, timeout=2400):
    """the harness is single-threaded per process (one synctest bubble at a time): run several
    processes side by side, each on a contiguous slice of the behaviours"""
    if shards <= 1 or len(behs) < 200:
        return run.execute("c17", "pkg/server", "^TestVerifC17$", behs, tag=tag, timeout=timeout)
    from concurrent.futures import ThreadPoolExecutor
    run.overlay("c17", "pkg/server")        # build the overlay once, before the threads start
    n = (len(behs) + shards - 1) // shards
    parts = [behs[i:i + n] for i in range(0, len(behs), n)]
    with ThreadPoolExecutor(max_workers=len(parts)) as ex:
        futs = [ex.submit(run.execute, "c17", "pkg/server", "^TestVerifC17$", p, tag="%s-%d" % (tag, i), timeout=timeout)
                for i, p in enumerate(parts)]
        res = [f.result() for f in futs]
    return [t for r in res for t in r]


def chunks_validate(run, cfg, traces, behs, group, known_cfg=None, sizes=(6, 40, None)):
    """validate in chunks of growing size; stop at the first chunk with a violation (the driver
    isolates failing traces one TLC run at a time)"""
    start = 0
    for size in sizes:
        chunk = traces[start:start + size] if size else traces[start:]
        if not chunk:
            break
        run.validate("VrfRtcTrace", cfg, chunk, behs[start:start + len(chunk)], known_cfg=known_cfg, group=group)
        start += len(chunk)
        if run.violations:
            v.log("violation found: skipping the remaining %d trace(s) of group %s" % (max(0, len(traces) - start), group))
            return False
    return True


def validate_group(run, traces, behs, group):
    known = [k for k in run.known if k["property"] == "C17" and k["id"] in KF_DEFECTS]
    defects = sorted(d for k in known for d in KF_DEFECTS[k["id"]])
    kinds = {KF_KIND[k["id"]]: k["id"] for k in known}
    strict = "VrfRtcTrace_run.cfg"
    write_trace_cfg(run, strict, defects, GAPS + STRICT)
    kf = None
    if known:
        kf = "VrfRtcKF_run.cfg"
        invs = []
        for i in STRICT:
            kind = WEAK_OF.get(i)
            invs.append(KF_WEAK[kind][1] if kind in kinds else i)
        write_trace_cfg(run, kf, defects, GAPS + invs)
    taint = scan(run, traces, defects)
    if taint is None:
        chunks_validate(run, strict, traces, behs, group, known_cfg=kf)
        return
    tainted = set().union(*[taint[k] for k in KINDS])
    clean = [i for i in range(len(traces)) if i not in tainted]
    run.extra["traces_touching_known_defects"] = run.extra.get("traces_touching_known_defects", 0) + len(tainted)
    # 1 traces the known defects cannot touch: strict, in batches
    if not chunks_validate(run, strict, [traces[i] for i in clean], [behs[i] for i in clean], group, known_cfg=kf):
        return
    if not tainted:
        return
    # 2 a sample of the touched traces goes the ordinary way (strict; on failure the KF cfg): this is
    #   what shows that the known findings are still there
    order = sorted(tainted)
    sample = []
    nk = {i: sum(1 for k in KINDS if i in taint[k]) for i in order}
    for kind in KINDS:      # prefer traces that only this defect family touches
        sample += sorted([i for i in order if i in taint[kind] and i not in sample], key=lambda i: (nk[i], i))[:2]
    before = dict(run.known_hits)
    run.validate("VrfRtcTrace", strict, [traces[i] for i in sample], [behs[i] for i in sample], known_cfg=kf, group=group)
    if run.violations:
        return
    live = set(k for k in kinds if run.known_hits.get(kinds[k], 0) > before.get(kinds[k], 0))
    rest = [i for i in order if i not in sample]
    if not rest:
        return
    if not live:
        # the code no longer shows the defects in the sample (repaired tree): everything strict
        chunks_validate(run, strict, [traces[i] for i in rest], [behs[i] for i in rest], group, known_cfg=kf)
        return
    # 3 the remaining touched traces: must behave EXACTLY as the mechanism with the known defects
    #   (C17_*_KF) and satisfy every other C17 invariant; a failure here is a violation the known
    #   findings do not explain
    n0 = len(run.violations)
    if chunks_validate(run, kf, [traces[i] for i in rest], [behs[i] for i in rest], group):
        for kind in live:
            n = len([i for i in rest if i in taint[kind]])
            if n:
                run.known_hits[kinds[kind]] = run.known_hits.get(kinds[kind], 0) + n
    assert len(run.violations) >= n0


def groups(thorough, seed):
    """(name, generator arguments)"""
    s = seed * 100
    g = []
    sims = [("vrf", "full", 5, False), ("rtc", "full", 0, False), ("all", "full", 5, False),
            ("none", "full", 5, False), ("sess", "full", 0, False), ("all", "full", 0, True), ("life", "full", 0, False)]
    for i, (warm, alpha, defer, ap) in enumerate(sims):
        warmlen = {"none": 0, "sess": 2, "vrf": 4, "rtc": 7, "all": 8, "life": 9}[warm]
        g.append(("sim-%s-%d%s" % (warm, defer, "-ap" if ap else ""),
                  dict(warm=warm, alpha=alpha, steps=warmlen + (10 if thorough else 8), defer=defer, addpath=ap,
                       exh=False, num=(40 if thorough else 6), seed=s + i)))
    # exhaustive: every sequence of k free events after a warm-up, small alphabet
    g.append(("exh-all", dict(warm="all", alpha="small", steps=8 + (3 if thorough else 2), defer=5, addpath=False, exh=True)))
    g.append(("exh-rtc", dict(warm="rtc", alpha="small", steps=7 + 2, defer=0, addpath=False, exh=True)))
    g.append(("exh-vrf", dict(warm="vrf", alpha="small", steps=4 + 2, defer=5, addpath=False, exh=True)))
    g.append(("exh-cold", dict(warm="none", alpha="small", steps=4 if thorough else 3, defer=5, addpath=False, exh=True)))
    # two VPN routes (different RD) with one IP prefix, both / one / none imported by the CE's VRF
    g.append(("exh-coll", dict(warm="vrf", alpha="coll", steps=4 + (4 if thorough else 3), defer=0, addpath=False, exh=True,
                               only=("VAnn", "VWd", "CeUp", "CeDown"))))
    # VRF lifecycle (delete / re-add with the same and with another RD, inject / delete routes) while the
    # VPN NLRI the VRF originates is also learned from an eBGP PE and from an iBGP PE with LOCAL_PREF 200 / 50
    # several memberships for one target (two origin AS) and the default, announced / withdrawn in every order
    g.append(("exh-mem", dict(warm="mem", alpha="mem", steps=4 + (4 if thorough else 3), defer=0, addpath=False, exh=True,
                              only=("MAnn", "MWd"))))
    # a VPN route announced, re-announced unchanged, withdrawn; memberships before / after (the RT index)
    g.append(("exh-idx", dict(warm="idx", alpha="idx", steps=3 + (5 if thorough else 4), defer=0, addpath=False, exh=True,
                              only=("VAnn", "VWd", "MAnn", "MWd"))))
    life = ("AddVrf", "DelVrf", "ApiAdd", "ApiDel", "VAnn", "VWd")
    g.append(("exh-life", dict(warm="life", alpha="life", steps=9 + (3 if thorough else 2), defer=0, addpath=False, exh=True, only=life)))
    # two VRFs configured with ONE route distinguisher and overlapping import targets, deleted / re-added in every order
    g.append(("exh-twin", dict(warm="twin", alpha="twin", steps=6 + (4 if thorough else 3), defer=0, addpath=False, exh=True,
                               only=("AddVrf", "DelVrf", "VAnn", "VWd"))))
    g.append(("exh-life2", dict(warm="life2", alpha="life", steps=10 + 2, defer=0, addpath=False, exh=True, only=life)))
    return g


def main(run):
    thorough = run.tier == "thorough"
    if not run.replay:
        design(run, thorough)
    # two batches (one harness run + one validation pipeline each): the random walks and the
    # exhaustive enumerations; every behaviour carries its own configuration
    for batch in ("sim", "exh"):
        if run.replay:
            behs = run.replay_behaviours(batch)
        else:
            behs = []
            for name, args in groups(thorough, run.seed):
                if name.startswith(batch):
                    b = gen(run, name, timeout=1800, **args)
                    v.log("generator %s: %d behaviours" % (name, len(b)))
                    behs += b
            behs = dedupe(behs)
        if not behs:
            continue
        # go1.25.0's synctest occasionally spins for ever inside the runtime (sync.WaitGroup.Add ->
        # synctest.associate -> specialFindSplicePoint; seen twice in ~10 runs, on the unchanged tree too):
        # a short go test timeout dumps the goroutines and the framework runs the shard once more
        traces = execute_sharded(run, behs, "c17-" + batch, 6 if thorough else 4, timeout=1500 if thorough else 100)
        validate_group(run, traces, behs, batch)
        if run.violations:
            break


RULE = ("schedules = TLC -simulate walks of VrfRtcGen.tla after forced warm-up prefixes (sessions; VRF + CE; routes + "
        "memberships + End-of-RIB; all of them) over the full alphabet (VPN route announce/withdraw for three VPN NLRIs - "
        "two of them with the same IP prefix under different RDs - with any subset of {rt1,rt2,rt3,nt1(non-transitive)}, "
        "membership announce/withdraw for rt1..rt3 and the default 0:0:0/0 with two origin AS (and ADD-PATH ids in one "
        "group), RTC End-of-RIB, VRF add/delete in two configurations each, CE up/down/announce/withdraw, AddPath/"
        "DeletePath with VRF id, session down/up, Tick), plus the EXHAUSTIVE enumeration by TLC (breadth-first) of every "
        "sequence of 2-3 free events over a small alphabet after each warm-up, of every cold sequence of 3-4 events and "
        "of every sequence of 3-4 announce/withdraw/CE-restart events on the two colliding VPN NLRIs; executed on the "
        "real BgpServer in virtual time with four scripted neighbours (incl. an iBGP PE announcing, with LOCAL_PREF 200 / 50, the "
        "VPN NLRI a local VRF originates: exhaustive VRF delete / re-add / inject sequences around it); after every step at exact quiescence ListVrf, "
        "ListPath(VRF), the global VPNv4 table and the decoded wire views of the RTC, VPN and CE neighbours are compared "
        "by TLC with the property layer. non-trivial = distinct (VPN routes, memberships, VRFs, sessions, waiting) states "
        "with a VPN route and (a membership at the RTC neighbour or a VRF)")
LEVEL = "model_checking"
ASSUMPTIONS = [
    "the property layer of VrfRtc.tla (Imports, VrfVisible, CeExport/CeOk, VrfOriginatedExport, RtcExport) is my "
    "transcription of the property text / RFC 4364 4.3 / RFC 4684 6",
    "VPNv4 (l3vpn-ipv4-unicast) only: EVPN, VPNv6, flowspec-VPN and MUP are not exercised",
    "at most three paths per VPN NLRI (originated in a VRF, eBGP PE, iBGP PE with LOCAL_PREF 200 / 50): best-path "
    "selection is modelled by LOCAL_PREF then local origin only; when two imported VPN routes share an IP prefix the CE "
    "must hold one of them, which one is free; a non-best imported path is not required at the CE",
    "no import/export policy ('accepted' membership = received membership); no graceful restart on the sessions",
    "while the RTC End-of-RIB wait lasts only 'nothing unrequested is sent' is required (the property text is silent)",
    "the MPLS label of a VRF is set white box (it is allocated through zebra in production)",
    "traces the registered known findings can touch (decided by a model-only TLC scan) must equal, step by step, the "
    "mechanism model with exactly those defects switched on (C17_*_KF); all other traces are validated strictly",
    "harness projection harness/c17 (NLRI / extended communities <-> abstract records) is trusted",
]
