"""C03 - best path follows the documented decision process, whatever the arrival order."""
import json
import os
import vpcore as v
from vprun import Run

OPTS_QUICK = ["000", "100", "001", "010"]
OPTS_ALL = ["000", "100", "010", "001", "110", "101", "011", "111"]


def gen_behaviours(run, opt, num, seed, steps):
    cfg = "BestPathGen_%s_%d.cfg" % (opt, seed)
    v.write_cfg(run.sc, cfg, """SPECIFICATION GenSpec
CONSTANTS
  Sources <- AllSources
  SrcInfo <- SrcTable
  Opt <- Opt%s
  MaxSteps = %d
INVARIANTS
  Emit
""" % (opt, steps))
    res = v.tlc(run.sc, "BestPathGen", cfg, mode="simulate", simulate="num=%d" % num,
                depth=steps + 1, seed=seed, workers=1, deadlock=False, timeout=600)
    v.require_design_ok(res, "BestPathGen " + opt)
    if not res.printed:
        raise v.MachineryError("generator printed no behaviours:\n" + res.out[-2000:])
    return res.printed


def main(run: Run):
    thorough = run.tier == "thorough"
    opts = OPTS_ALL if thorough else OPTS_QUICK
    # 1. design level: exhaustive pools, mechanism => property layer
    # sized from measured state counts (DESIGN.md 0.6): quick about 40 s, thorough about 10 min idle
    pools = [("med", o) for o in (["000", "100", "001"] if thorough else ["000"])] + \
            [("attr", o) for o in (["000", "010"] if thorough else ["000"])] + \
            [("tie", o) for o in (["000", "001", "100"] if thorough else ["000"])]
    for pool, o in pools:
        cfg = "MCBestPath_%s_%s.cfg" % (pool, o)
        medvals = "MedValsFull" if thorough and pool == "med" and o == "000" else "MedValsTwo"
        v.write_cfg(run.sc, cfg, """SPECIFICATION Spec
CONSTANTS
  Sources <- AllSources
  SrcInfo <- SrcTable
  Opt <- Opt%s
  Pool = "%s"
  MedVals <- %s
  TsVals = {1, 2}
  StaleVals = %s
INVARIANTS
  OneRoutePerSource
  D_C03_BestUntainted
  D_C03_TopTie
""" % (o, pool, medvals, "{TRUE, FALSE}" if (thorough and pool == "attr" and o == "010") else "{FALSE}"))
        res = v.tlc(run.sc, "MCBestPath", cfg, timeout=3600, coverage=False)
        run.design(res, "MCBestPath %s opt=%s" % (pool, o))

    # 2. behaviours -> real code -> traces, one batch per option setting
    num = 120 if not thorough else 600
    for i, o in enumerate(opts):
        behs = run.replay_behaviours(o) if run.replay else \
            gen_behaviours(run, o, num, run.seed * 100 + i, 10 if thorough else 8)
        if not behs:
            continue
        traces = run.execute("c03", "internal/pkg/table", "^TestVerifC03$", behs, tag="c03-" + o)
        run.validate("BestPathTrace", "BestPathTrace_%s.cfg" % o, traces, behs,
                     known_cfg="BestPathKF_%s.cfg" % o, group=o,
                     conf_cfg="BestPathConf_%s.cfg" % o)


RULE = ("behaviours = TLC -simulate histories of Add/Withdraw over 8 sources (local, 3 eBGP, 2 iBGP, "
        "2 confederation) with pinned leading criteria; executed on the real TableManager; each "
        "recorded step is judged by BestPathTrace.tla. non-trivial = a recorded step whose present "
        "set has >= 2 candidates tied on every criterion before MED (counted by distinct step content)")
