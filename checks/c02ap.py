"""C02, ADD-PATH receive part (group "aprx"): neighbours A and B send several paths per prefix under
path identifiers, C sends plain NLRI, the API injects local routes.  Schedules from AdjInApGen.tla are
executed on the real BgpServer in a synctest bubble (harness/c02ap, compiled together with harness/c01)
and every step's observation is validated against the property layer of AdjInAp.tla by
spec/trace/AdjInApTrace.tla.  Called from checks/c02.py:  run_ap(run)."""
import vpcore as v

GROUPS = ["ebgp3", "mixed"]      # PI_<group> of SpeakerDom.tla: all eBGP / B internal (LOCAL_PREF counts)
PREFIX = "aprx"

GEN_CFG = """SPECIFICATION GSpec
CONSTANTS
  Peers <- P3
  PInfo <- PI_%(g)s
  Prefixes <- Pfx2
  LocalAS = 65000
  ApPeers = {"A", "B"}
  ApIds = {1, 2, 3}
  Codes = {0, 1, 2, 3, 4, 5}
  LocalCodes = {0, 1}
  MaxSteps = %(steps)d
  FloodEnds = %(ends)s
  FloodOdds = %(odds)d
INVARIANTS
  Emit
"""

HARNESS = ["c02ap", "c01"]       # c02ap reuses spWorld / project() / spCollide of harness/c01
ENDS_BULK = '{"Down"}'
ENDS_FD = '{"Down", "DelPeer"}'
STAGE = 8                        # size of the first chunk that is judged on its own
ENOUGH = 4                       # violations after which the group stops judging


def gen(run, g, num, seed, steps, ends=ENDS_BULK):
    cfg = "AdjInApGen_%s_%d.cfg" % (g, seed)
    v.write_cfg(run.sc, cfg, GEN_CFG % {"g": g, "steps": steps, "ends": ends, "odds": 3 if ends == ENDS_BULK else 1})
    res = v.tlc(run.sc, "AdjInApGen", cfg, mode="simulate", simulate="num=%d" % num, depth=steps + 5,
                seed=seed, workers=1, deadlock=False, timeout=900)
    v.require_design_ok(res, "AdjInApGen " + g)
    if len(res.printed) < num:
        raise v.MachineryError("AdjInApGen printed %d of %d behaviours:\n%s" % (len(res.printed), num, res.out[-2000:]))
    return res.printed[:num]


def design(run, thorough):
    """Design level: exhaustive exploration of the property layer over a small pool (quick: 3 neighbours,
    one of them with ADD-PATH, x 1 prefix x 2 identifiers, bursts of two keys; thorough adds the pool with
    two ADD-PATH neighbours and 2 neighbours x 2 prefixes x 2 identifiers). No mechanism layer: the
    invariants are the property layer's own sanity (see MCAdjInAp)."""
    for name in (["quick", "mid", "thorough"] if thorough else ["quick"]):
        res = v.tlc(run.sc, "MCAdjInAp", "MCAdjInAp_%s.cfg" % name, workers=min(8, v.NCPU), timeout=2400)
        run.design(res, "AdjInAp %s" % name)


def run_ap(run):
    thorough = run.tier == "thorough"
    rg = run.replay.get("group") if run.replay else None
    if run.replay and not (rg or "").startswith(PREFIX + "-"):
        return                    # a replay of another group of C02
    if not run.replay:
        design(run, thorough)
    num = 40 if not thorough else 300
    steps = 20 if not thorough else 24
    # (group, neighbour set, how a flood may end, number of schedules, also in collide mode)
    # "fd": floods cut off by the REMOVAL of the neighbour - the input shape of the known finding
    # KF-C02-update-after-delete - are kept out of the bulk and judged as a small batch of their own
    plan = [(PREFIX + "-" + g, g, ENDS_BULK, num, True) for g in GROUPS]
    plan.append((PREFIX + "-fd-ebgp3", "ebgp3", ENDS_FD, 6 if not thorough else 30, False))
    sets = []
    for i, (name, g, ends, n, coll) in enumerate(plan):
        if run.replay:
            behs = [run.replay["behaviour"]] if rg in (name, name + "-collide") else []
        else:
            behs = gen(run, g, n, run.seed * 100 + 50 + i, steps, ends)
        sets.append(behs)
    for mode in ("", "-collide"):
        if run.replay and rg.endswith("-collide") != (mode == "-collide"):
            continue
        part = [(p, b) for p, b in zip(plan, sets) if b and (p[4] or not mode)]
        if not part:
            continue
        # one execution for all neighbour sets; "-collide": every prefix of a table in ONE hash bucket
        # (hook VerifKeyHook of internal/pkg/table), so the collision chains are walked by every step
        allb = [x for _, b in part for x in b]
        traces = run.execute(HARNESS, "pkg/server", "^TestVerifC02Ap$", allb, tag=PREFIX + mode,
                             env={"VERIF_COLLIDE": 1} if mode else None)
        k = 0
        v0 = len(run.violations)
        for j, ((name, g, ends, n, coll), behs) in enumerate(part):
            tr = traces[k:k + len(behs)]
            k += len(behs)
            # every rejected trace costs two more TLC runs: the first neighbour set of a mode is judged on a
            # small first chunk, and judging stops once a handful of violations is on record
            chunks = [(0, STAGE), (STAGE, len(tr))] if j == 0 and len(tr) > STAGE else [(0, len(tr))]
            for a, b in chunks:
                run.validate("AdjInApTrace", "AdjInApTrace_%s.cfg" % g, tr[a:b], behs[a:b],
                             known_cfg="AdjInApKF_%s.cfg" % g, group=name + mode)
                if len(run.violations) - v0 >= ENOUGH:
                    v.log("aprx: %d violations on record, the remaining traces are not judged" % (len(run.violations) - v0))
                    return
        key = "aprx_collide_traces" if mode else "aprx_traces"
        run.extra[key] = run.extra.get(key, 0) + len(traces)


RULE = ("ADD-PATH receive (group aprx): TLC -simulate histories of AdjInApGen.tla (announce / implicit replace / "
        "same route under a second identifier / withdraw, duplicate withdraw, withdraw of an unknown identifier / "
        "several keys packed in one UPDATE / back-to-back UPDATEs cut off by session loss or peer removal / "
        "peer-down, re-establish, delete-peer, add-peer / API add and delete / soft reset in) over 2 prefixes x "
        "path identifiers 1..3 from two ADD-PATH neighbours, one plain neighbour and the API; every step is "
        "executed on the real BgpServer, also with all prefixes in one hash bucket, and judged by "
        "AdjInApTrace.tla. non-trivial = distinct states in which ONE neighbour holds >= 2 paths for one prefix")
ASSUMPTIONS = ["the speaker only RECEIVES add-paths in this group (what it sends to ADD-PATH receivers is C01's group addpath)",
               "among candidates that tie on every documented decision step (paths of one neighbour with equal "
               "LOCAL_PREF, AS_PATH length and MED) any may be listed first: the oracle is a sandwich",
               "an UPDATE never names the same (prefix, path identifier) in both the withdrawn and the announced field",
               "a flood with hold=true is steered through the build-tag hook verifYield(recv) (the last UPDATE is read, "
               "its handler runs after the session end / removal); a flood without hold runs as the scheduler gives: "
               "its outcome, and a replay of it, may differ from run to run (only the outcome 'nothing stays' is accepted)"]


def main(run):                   # stand-alone use while developing (the check itself is C02)
    run_ap(run)
