"""C13 - compiled community matchers decide exactly what their regular expressions decide
(partial claim: recognised pattern shapes with a set-theoretic denotation + a near-miss grammar
whose only oracle is Go's regexp; edit sequences append / remove / replace)."""
import json
import vpcore as v
from vprun import Run

MOD = "PolicyMatchTrace"
STRICT, KF, XCFG, CONF = "PolicyMatchTrace.cfg", "PolicyMatchKF.cfg", "PolicyMatchX.cfg", "PolicyMatchConf.cfg"
KINDS = ["std", "ext", "large"]


def gen_behaviours(run, kind, gen, num, seed, steps):
    cfg = "PolicyMatchGen_%s_%s_%d.cfg" % (kind, gen, seed)
    v.write_cfg(run.sc, cfg, """SPECIFICATION GenSpec
CONSTANTS
  RemoveIgnoresSubtype = FALSE
  Kind = "%s"
  Gen = "%s"
  NPats = 6
  NVals = 10
  NRoutes = 6
  MaxSteps = %d
INVARIANTS
  Emit
""" % (kind, gen, steps))
    res = v.tlc(run.sc, "PolicyMatchGen", cfg, mode="simulate", simulate="num=%d" % num,
                depth=steps + 2, seed=seed, workers=1, deadlock=False, timeout=600)
    v.require_design_ok(res, "PolicyMatchGen %s %s" % (kind, gen))
    if not res.printed:
        raise v.MachineryError("generator printed no behaviours:\n" + res.out[-2000:])
    return res.printed


def suspect(beh, trace):
    """Routing only (never a verdict): traces that can hit one of the proposed known findings are
    validated in small batches so that the strict-then-KF protocol stays cheap; every trace is
    still judged by TLC.  (a) some one-pattern verdict differs from the logged regexp verdict;
    (b) ext sets: a Remove whose argument has the regular expression of a list entry with
    another sub-type (Remove by expression only)."""
    b = json.loads(beh)
    rs = trace[0]
    for i, p in enumerate(rs["pats"]):
        for j, val in enumerate(rs["vals"]):
            stok = p["st"] in ("std", "large") or p["st"] == val["st"]
            if rs["single"][i][j] != (rs["re"][i][j] and stok):
                return True
    if b.get("kind") == "ext":
        prev = []
        for ev in trace[1:]:
            if ev.get("op") == "Remove":
                args = {rs["pats"][i - 1]["key"] for i in ev["args"]}
                exprs = {k.split(":", 1)[1] for k in args}
                if any(k not in args and k.split(":", 1)[1] in exprs for k in prev):
                    return True
            prev = ev["obs"]["list"]
    return False


def strict_passes(run, traces):
    rows = [r for t in traces for r in t]
    v.write_ndjson(run.sc.path("spec", "trace.ndjson"), rows)
    res = v.tlc(run.sc, MOD, STRICT, workers=1, timeout=900, deadlock=False)
    return res.ok


def cross_check(run, traces):
    """X_SpecVsRegexp: the spec's denotation against Go's regexp on the text the harness rendered.
    A disagreement means MY denotation or renderer is wrong: machinery error, never a verdict."""
    val = v.validate_traces(run.sc, MOD, XCFG, traces)
    run.states += val.states
    run.transitions += val.generated
    if val.gaps:
        raise v.MachineryError("conformance gap in cross-check: %s" % json.dumps(val.gaps[0])[:1500])
    if val.failures:
        ti, inv, off = val.failures[0]
        raise v.MachineryError(
            "X_SpecVsRegexp: Den(pattern) disagrees with Go regexp on the rendered text in %d trace(s) "
            "(spec denotation or harness renderer wrong - not a verdict about gobgp); first: %s"
            % (len(val.failures), json.dumps(traces[ti][0])[:3000]))
    run.extra["spec_vs_regexp_pairs_agree"] = run.extra.get("spec_vs_regexp_pairs_agree", 0) + sum(
        len(t[0]["pats"]) * len(t[0]["vals"]) for t in traces)


def main(run: Run):
    thorough = run.tier == "thorough"
    # 1. design level: every edit sequence over the shape pools, compiled matcher = denotation
    for kind in KINDS:
        cfg = "MCPolicyMatch_%s.cfg" % kind
        v.write_cfg(run.sc, cfg, """SPECIFICATION Spec
CONSTANTS
  RemoveIgnoresSubtype = FALSE
  Pool = "%s"
  MaxLen = %d
INVARIANTS
  D_C13_Equiv
  D_C13_CompiledIsCurrent
""" % (kind, 4 if thorough else 3))
        res = v.tlc(run.sc, "MCPolicyMatch", cfg, timeout=900, coverage=thorough,
                    workers=8 if thorough else 4)
        run.design(res, "MCPolicyMatch %s" % kind)

    # 2. behaviours -> real code -> traces; one group per generator, all three kinds mixed
    num = 400 if thorough else 70
    steps = 5 if thorough else 4
    cap = 20 if thorough else 3
    for gi, gen in enumerate(["shape", "near"]):
        if run.replay:
            behs = run.replay_behaviours(gen)
        else:
            behs = []
            for ki, kind in enumerate(KINDS):
                n = num if kind != "large" else num // 2
                behs += gen_behaviours(run, kind, gen, n, run.seed * 100 + gi * 10 + ki, steps)
        if not behs:
            continue
        traces = run.execute("c13", "internal/pkg/table", "^TestVerifC13$", behs, tag="c13-" + gen)
        if gen == "shape":
            cross_check(run, traces)
        sus = [i for i, b in enumerate(behs) if suspect(b, traces[i])]
        clean = [i for i in range(len(behs)) if i not in set(sus)]
        # interleave the three kinds so that an early chunk already holds all of them
        order = {}
        for i, b in enumerate(behs):
            k = json.loads(b)["kind"]
            order[i] = (sum(1 for j in order if order[j][1] == k), k)
        clean.sort(key=lambda i: order[i])
        sus.sort(key=lambda i: order[i])
        sel = lambda ix: ([traces[i] for i in ix], [behs[i] for i in ix])
        # A reproduced counterexample settles the verdict: the remaining traces are not needed
        # (a broken matcher fails hundreds of traces and each costs two TLC runs to classify).
        settled = lambda: len(run.violations) > 0
        if clean:
            t, b = sel(clean)
            for lo, hi in ((0, 21), (21, 63), (63, len(t))):
                if t[lo:hi] and not settled():
                    run.validate(MOD, STRICT, t[lo:hi], b[lo:hi], known_cfg=KF, group=gen,
                                 conf_cfg=CONF if gen == "shape" else None)
        if sus and not settled():
            t, b = sel(sus)
            if strict_passes(run, t):
                run.validate(MOD, STRICT, t, b, known_cfg=KF, group=gen)
            else:
                # the tree has (at least) one of the known findings: the first `cap` suspects go
                # through the strict-then-KF protocol one by one; the others are validated against
                # the KF-weakened invariants only (anything they reject is then re-judged strictly)
                ht, hb = sel(sus[:cap])
                run.validate(MOD, STRICT, ht, hb, known_cfg=KF, group=gen, batch=4)
                if sus[cap:] and not settled():
                    rt, rb = sel(sus[cap:])
                    kv = v.validate_traces(run.sc, MOD, KF, rt)
                    bad = sorted({ti for ti, _, _ in kv.failures} | {ti for ti, _, _ in kv.gaps})
                    good = [i for i in range(len(rt)) if i not in set(bad)]
                    run.traces_validated += len(good)
                    run.events_validated += sum(len(rt[i]) for i in good)
                    run.states += kv.states
                    run.transitions += kv.generated
                    run.extra["traces_validated_against_KF_cfg_only"] = \
                        run.extra.get("traces_validated_against_KF_cfg_only", 0) + len(good)
                    if bad:
                        run.validate(MOD, STRICT, [rt[i] for i in bad[:8]], [rb[i] for i in bad[:8]],
                                     known_cfg=KF, group=gen, batch=4)
        if settled():
            break


RULE = ("behaviours = TLC -simulate runs of PolicyMatchGen (system-spec actions Define/Append/Remove/Replace): "
        "6 patterns, 10 community values drawn around the patterns' numbers (0, 65535, 65536, 4294967295, "
        "4294967296 among the focus numbers; 4-octet-AS and IPv4 specific extended values included), 6 probe "
        "routes with 0..3 communities, 4-5 edits; executed on the real CommunitySet/ExtCommunitySet/"
        "LargeCommunitySet and the three Conditions bound to them; every step judged by PolicyMatchTrace.tla. "
        "shape group: code verdict = set-theoretic denotation AND = Go regexp; near-miss group: = Go regexp only. "
        "non-trivial = distinct (kind, pattern list, route) with non-empty route and list and at least one "
        "pattern promoted to a compiled non-regexp matcher (large communities have no compiler: any non-empty pair)")
LEVEL = "model_checking"
ASSUMPTIONS = [
    "Go's regexp package is the reference semantics of a configured regular expression (as the property text says)",
    "the configuration front end (ParseCommunityRegexp / ParseExtCommunityRegexp / ParseLargeCommunityRegexp: "
    "anchoring of bare A:L, sub-type prefix) is taken as given: the reference regexp is an independent compile "
    "of the normalised expression the set reports",
    "the spec's denotation of the recognised shapes is cross-checked against Go regexp on every generated "
    "(pattern, value) pair (X_SpecVsRegexp; disagreement = machinery error)",
    "non-transitive extended communities (skipped by the code on purpose) and match option 'all' on an empty set "
    "are not determined by the property text and are not judged",
]
