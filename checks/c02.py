"""C02 - RIBs hold exactly the latest un-withdrawn route per source and path-id."""
from speaker_common import run_speaker


def main(run):
    run_speaker(run, ["C02_AdjInExact", "C02_LocRibExact", "C02_Counters", "C02_BestStream", "C02_Lookups"], collide=True)


RULE = ("same schedules and executions as C01 (SpeakerGen.tla on the real BgpServer); after every step TLC "
        "compares the white-box Adj-RIB-In of every neighbour (with rejected flags), the global table listing "
        "(best first) and the ListPeer received/accepted counters with AdjInExpected / LocRibExpected. "
        "non-trivial = distinct states with an established neighbour and a prefix with >= 2 candidates")
ASSUMPTIONS = ["hash-colliding destinations are provoked through the build-tag hook VerifKeyHook (key = hash mod 1), not with real colliding prefixes", "ADD-PATH receive is not covered by this check yet"]
