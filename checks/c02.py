"""C02 - RIBs hold exactly the latest un-withdrawn route per source and path-id."""
from speaker_common import run_speaker
from c02ap import run_ap, RULE as AP_RULE, ASSUMPTIONS as AP_ASSUMPTIONS


def main(run):
    run_speaker(run, ["C02_AdjInExact", "C02_LocRibExact", "C02_Counters", "C02_BestStream", "C02_Lookups"], collide=True)
    run_ap(run)        # groups "aprx-*": ADD-PATH receive (AdjInAp.tla)


RULE = ("same schedules and executions as C01 (SpeakerGen.tla on the real BgpServer); after every step TLC "
        "compares the white-box Adj-RIB-In of every neighbour (with rejected flags), the global table listing "
        "(best first) and the ListPeer received/accepted counters with AdjInExpected / LocRibExpected. "
        "non-trivial = distinct states with an established neighbour and a prefix with >= 2 candidates | " + AP_RULE)
ASSUMPTIONS = ["hash-colliding destinations are provoked through the build-tag hook VerifKeyHook (key = hash mod 1), "
               "not with real colliding prefixes"] + AP_ASSUMPTIONS
