"""C07 - peering sessions follow the RFC 4271 state machine, timers included.

1. design level: TLC checks exhaustively (small scope) that the mechanism model FsmMech.tla (shaped
   like pkg/server/fsm.go) satisfies the RFC property layer FsmRfc.tla except in its named deviations;
2. behaviours: TLC -simulate walks of the environment over Fsm.tla (passive and active peers); a
   transition-cover suite is selected from a larger pool by the abstract transitions each walk
   takes, the rest of the budget is filled with further random walks;
3. the Go harness (harness/c07, synctest bubble + simnet + VerifDialHook) executes every schedule on
   the real BgpServer and records one observation per step;
4. TLC validates every recorded step against FsmRfc.tla (spec/trace/FsmTrace.tla): C07_* invariants
   = verdict, Conf_* = informational agreement with the mechanism model.
Walks that the mechanism model predicts to run into a recorded known finding are validated with the
*_KF configuration (FsmKF.cfg); a sample of them additionally goes through the strict
configuration so that the framework itself reports `KNOWN-FINDING:` (strict fails, KF passes)."""
import json
import random
import vpcore as v
from vprun import Run

DESIGN_INVS = """D_TypeOK D_HistoryAgrees D_C07_Transitions D_C07_EstablishedOnlyAfterOpenKeepalive D_C07_Notification
D_C07_Notif_OpenConfirmUnexpected D_C07_Notif_EstablishedOpen D_C07_Notif_UnsupportedOptParam
D_C07_Notif_KeepaliveLength D_C07_Notif_ManualStopEarly D_C07_Notif_OpenWhileIdle D_C07_Notif_NoSpurious
D_C07_TimerInstant D_C07_Timer_OpenConfirm D_C07_NoRibEffectBeforeEstablished D_C07_ReportedMatchesReal""".split()

FINDING_LABELS = {"TimerOC", "ManualStopEarly", "IdleOpen",
                  "Collision", "Reported"}
CHUNK = 150
PROBE = 20


def chunks(idx, size=CHUNK):
    """a small probe first: a regression that breaks most walks is reported after a few TLC runs"""
    out = [idx[:PROBE]] if idx else []
    out += [idx[k:k + size] for k in range(PROBE, len(idx), size)]
    return [c for c in out if c]

GROUPS = {"passive": "CfgsPassive", "active": "CfgsActive"}
HOLDS = "{0, 3, 6, 9}"
GEN_TICKS = "{1, 2, 3, 5, 9, 30, 240}"


def design(run, name, cfgs, holds, ticks, steps, timeout=900):
    cfg = "MCFsm_%s.cfg" % name
    v.write_cfg(run.sc, cfg, "SPECIFICATION Spec\nCONSTANTS\n  LargeHold = 240\n  Cfgs <- %s\n  PeerHolds = %s\n"
                "  Ticks = %s\n  MaxSteps = %d\nCHECK_DEADLOCK FALSE\nINVARIANTS\n%s\n"
                % (cfgs, holds, ticks, steps, "\n".join("  " + i for i in DESIGN_INVS)))
    res = v.tlc(run.sc, "MCFsm", cfg, timeout=timeout, deadlock=False, coverage=False)
    run.design(res, "MCFsm %s (%s, holds %s, ticks %s, <= %d events)" % (name, cfgs, holds, ticks, steps))


def gen_pool(run, group, num, steps, seed):
    cfg = "FsmGen_%s_%d.cfg" % (group, seed)
    v.write_cfg(run.sc, cfg, "SPECIFICATION GenSpec\nCONSTANTS\n  LargeHold = 240\n  Cfgs <- %s\n  PeerHolds = %s\n"
                "  Ticks = %s\n  MaxSteps = %d\nINVARIANTS\n  EmitWalk\n" % (GROUPS[group], HOLDS, GEN_TICKS, steps))
    res = v.tlc(run.sc, "MCFsmGen", cfg, mode="simulate", simulate="num=%d" % num, depth=steps + 1, seed=seed,
                workers=1, deadlock=False, timeout=900)
    v.require_design_ok(res, "FsmGen " + group)
    if not res.printed:
        raise v.MachineryError("generator printed no behaviours:\n" + res.out[-2000:])
    return [json.loads(x) for x in res.printed]


def select(pool, want, rng):
    """transition cover first (greedy set cover over the walks' abstract transitions), then random fill"""
    allkeys = set()
    ks = []
    for b in pool:
        s = set(json.dumps(k, sort_keys=True) for k in b["keys"])
        ks.append(s)
        allkeys |= s
    chosen, covered = [], set()
    rest = set(range(len(pool)))
    while covered != allkeys:
        best = max(rest, key=lambda i: len(ks[i] - covered))
        if not ks[best] - covered:
            break
        chosen.append(best)
        covered |= ks[best]
        rest.discard(best)
    ncover = len(chosen)
    fill = sorted(rest)
    rng.shuffle(fill)
    chosen += fill[:max(0, want - ncover)]
    return [pool[i] for i in chosen], ncover, len(allkeys)


def strip(b):
    return json.dumps({"cfg": b["cfg"], "steps": b["steps"]}, sort_keys=True)


def execute(run, behs, tag):
    last = None
    for attempt in range(3):
        try:
            return run.execute("c07", "pkg/server", "^TestVerifC07$", behs, tag="%s-%d" % (tag, attempt), timeout=1500)
        except v.MachineryError as ex:
            # a rare goroutine leak of the server at shutdown (not a C07 matter) makes the bubble panic
            if "blocked goroutines remain" not in str(ex):
                raise
            last = ex
            v.log("harness: bubble leak panic, retrying (%d)" % (attempt + 1))
    raise last


def reproduce(run, group, before):
    """DESIGN 2.6 step 5: a candidate violation counts only if the same schedule fails again"""
    new = run.violations[before:before + 3]     # the same cause usually breaks many walks: three are enough
    del run.violations[before + 3:]
    for viol in new:
        beh = viol["payload"]["behaviour"]
        tr = execute(run, [beh], "c07-repro")
        val = v.validate_traces(run.sc, "FsmTrace", viol["payload"]["cfg"], tr)
        if not val.failures or val.failures[0][1] != viol["inv"]:
            raise v.MachineryError("unreproduced rejection (%s) of a %s walk; artefacts: %s"
                                   % (viol["inv"], group, json.dumps(viol["payload"])[:1500]))


def main(run: Run):
    thorough = run.tier == "thorough"
    rng = random.Random(run.seed)
    if not run.replay:
        # 1. design level
        if thorough:
            design(run, "passive", "CfgsPassive", "{0, 3, 6, 9}", "{1, 3, 5}", 6)
            design(run, "active-lo", "CfgsActiveLo", "{9}", "{2, 5}", 8, timeout=1500)
            design(run, "active-hi", "CfgsActiveHi", "{9}", "{2, 5}", 7, timeout=1500)
            design(run, "active-eq", "CfgsActiveEq", "{3}", "{2, 240}", 6)
        else:
            design(run, "passive", "CfgsPassive", "{3, 9}", "{1, 3, 5}", 5)
            design(run, "active-lo", "CfgsActiveLo", "{9}", "{2, 5}", 5)
    sizes = {"passive": (2000, 350, 12), "active": (2000, 500, 12)} if not thorough else \
            {"passive": (5000, 1500, 14), "active": (8000, 2500, 14)}
    csize = 400 if thorough else CHUNK
    cover = {}
    seen_labels, seen_samples = set(), []
    for gi, group in enumerate(["passive", "active"]):
        if run.replay:
            rb = run.replay_behaviours(group)
            if not rb:
                continue
            behs = [json.loads(x) if isinstance(x, str) else x for x in rb]
            for b in behs:
                b.setdefault("dev", ["replay"])
                b.setdefault("keys", [])
        else:
            pool_n, want, steps = sizes[group]
            pool = gen_pool(run, group, pool_n, steps, run.seed * 100 + gi)
            behs, ncover, nkeys = select(pool, want, rng)
            cover[group] = {"pool": len(pool), "abstract_transitions_in_pool": nkeys, "cover_suite": ncover,
                            "executed": len(behs)}
        sched = [strip(b) for b in behs]
        traces = execute(run, sched, "c07-" + group)
        clean = [i for i, b in enumerate(behs) if not b["dev"]]
        devi = [i for i, b in enumerate(behs) if b["dev"]]
        before = len(run.violations)
        # in chunks: a regression that breaks many walks must not cost one TLC run per broken walk
        stop = False
        for part in chunks(clean, csize):
            run.validate("FsmTrace", "FsmTrace.cfg", [traces[i] for i in part], [sched[i] for i in part],
                         known_cfg="FsmKF.cfg", group=group, conf_cfg="FsmConf.cfg")
            if len(run.violations) > before or run.gaps:
                stop = True
                break
        # walks that meet a named deviation: one sample per deviation label through strict + KF, the
        # others through the KF configuration (strict is KF plus exactly the recorded tolerances)
        sample = []
        for i in devi:
            lab = set(behs[i]["dev"]) & FINDING_LABELS
            if lab - seen_labels and len(seen_samples) < (30 if thorough else 9):
                seen_labels.update(lab)
                seen_samples.append(i)
                sample.append(i)
        if run.replay:
            sample = devi
        rest = [i for i in devi if i not in set(sample)]
        if sample and not stop:
            run.validate("FsmTrace", "FsmTrace.cfg", [traces[i] for i in sample], [sched[i] for i in sample],
                         known_cfg="FsmKF.cfg", group=group, batch=1)
        for part in chunks(rest, csize):
            if stop or len(run.violations) > before or run.gaps:
                break
            run.validate("FsmTrace", "FsmKF.cfg", [traces[i] for i in part], [sched[i] for i in part],
                         group=group, conf_cfg="FsmConf.cfg")
        run.extra.setdefault("walks_meeting_known_deviation", {})[group] = len(devi)
        reproduce(run, group, before)
        if len(run.violations) > before:
            break          # a reproduced violation: report it, do not spend the budget on the other group
    if cover:
        run.extra["generation"] = cover


RULE = ("behaviours = TLC -simulate walks of the environment over Fsm.tla: one step = one event of the alphabet "
        "{inbound connect, outbound connect completes/fails, OPEN valid or one of 8 invalid kinds, KEEPALIVE, UPDATE "
        "(within / over the prefix limit), ROUTE-REFRESH, NOTIFICATION, garbage header of 5 kinds, remote close, "
        "Tick(d), enable, disable, shutdown, reset (with communication), delete} that can be carried out in the "
        "current state, for passive and active peers, 4 identifier/AS relations, hold times {0,3,9}; a transition-"
        "cover suite over the model's abstract transitions is selected from the pool, then random walks; each walk is "
        "executed on the real BgpServer in virtual time and every recorded step is judged by FsmTrace.tla. "
        "non-trivial = distinct (configuration, reported state, connection state, event, clause family) steps judged")
LEVEL = "model_checking"
ASSUMPTIONS = [
    "the RFC transcription in spec/FsmRfc.tla (tables of NOTIFICATION code/subcode per cause and state, timers, "
    "collision rule) is mine; RFC 4486 Cease subcodes (SHOULD) are treated as prescribed",
    "keepalive-interval is configured as hold-time/3, so the RFC's 'one third of the Hold Time' and gobgp's "
    "configured interval coincide; the 240 s OpenSent hold time is the RFC's suggested large value",
    "reported state of the outgoing connection's own OpenSent phase is not required (gobgp runs it in the "
    "outgoing connection manager and keeps reporting Active/Idle); Active -> OpenConfirm is therefore a permitted edge",
    "a KEEPALIVE due at the very instant of a hold-timer expiry may or may not precede the NOTIFICATION",
    "connect-retry jitter (0.75..1.0 x interval) is only observed at whole seconds (retry 3 s: pending at +3)",
    "graceful restart / N bit (RFC 8538) sessions are not generated; only 'no Hard Reset without N bit' is checked",
]
