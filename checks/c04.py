"""C04 - BGP wire codec: encode and decode are mutually inverse and agree on framing (partial)."""
import vpcore as v
from vprun import Run
import framing_common as fc

SWEEPS = ["attr", "ext", "nlri", "cap", "open", "openinner", "ex"]


def main(run: Run):
    thorough = run.tier == "thorough"
    if not run.replay:
        fc.design(run, ["attr", "ext", "nlri", "other"])
    for sw in SWEEPS + ["random"]:
        if run.replay:
            behs = run.replay_behaviours(sw)
        elif sw == "random":
            behs = fc.gen_shapes(run, sw, num=(12000 if thorough else 400), seed=run.seed)
        else:
            behs = fc.gen_shapes(run, sw, seed=run.seed)
        if not behs:
            continue
        traces = run.execute("c04", "pkg/packet/bgp", "^TestVerifC04$", behs, tag="c04-" + sw)
        fc.validate(run, "FramingTraceKF_C04.cfg", "FramingTraceKFCount_C04.cfg", traces, behs, group=sw)


LEVEL = "exploration"
RULE = ("behaviours = abstract message shapes x session options enumerated by TLC from spec/FramingGen.tla "
        "(sweeps: one attribute at a time with value length around 0/1/255/256/4095; every core family x "
        "prefix-length / label-stack classes x ADD-PATH; totals at cap-1/cap/cap+1 with and without RFC 8654; "
        "capability multisets; the example catalogue of the non-core families and attribute types; random "
        "combinations). Each is concretised with the library's constructors, serialised, re-parsed and "
        "re-serialised; the recorded octets are read by the independent TLA+ reader (Framing.tla) and judged "
        "by FramingTrace.tla. non-trivial = a distinct (shape, options) whose octets were actually emitted "
        "and read back")
ASSUMPTIONS = [
    "domain = structurally valid messages: zero-length COMMUNITIES / CLUSTER_LIST / EXTENDED COMMUNITIES / "
    "LARGE_COMMUNITY attributes (malformed per RFC 7606 7.8/7.10/7.14) are not generated; they are C05 mutation inputs",
    "trusted: my transcription of the RFC framing rules in spec/Framing.tla and of the expected wire image in "
    "spec/FramingDom.tla (cross-checked against each other exhaustively in small scope by MCFraming)",
    "value-level equality is the harness-computed boolean `equal` (reflect.DeepEqual modulo nil/empty slices and "
    "modulo the pure wire-length caches PathAttribute.Length / extended-length bit, OpaqueNLRI.Length, "
    "TunnelEncapTLV.Length - their agreement with the octets is C04_LenAgrees) on the generated examples only",
    "NOT covered: 'for all byte strings the parser accepts' (fuzzing territory); MRT marshalling option; "
    "NLRI/attribute sub-TLV values beyond their outer length fields",
]
