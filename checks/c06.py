"""C06 - malformed UPDATEs are contained: never installed, answered per RFC 7606 / RFC 4271."""
import json
import random
import threading
import vpcore as v
from vprun import Run

MODULE = "UpdateErrorTrace"
STRICT = "UpdateErrorTrace.cfg"
KF = "UpdateErrorKF.cfg"
TRIAGE = "UpdateErrorTriage.cfg"
D_INVS = ["D_C06_NeverWeaker_Fixed", "D_C06_NeverWeaker_KF", "D_C06_MaskedIsTheOnlyGap",
          "D_C06_ResetOnlyIfCalledFor", "D_C06_WellFormedNotPenalised"]


def gen_cases(run, name, sample_k, sample_r, with_pos, design):
    """TLC enumerates the cases of spec/UpdateErrorGen.tla as initial states and prints one schedule
    per case; with design=True the D_C06_* invariants (mechanism layer against property layer of
    UpdateError.tla) are checked on every case in the same run."""
    cfg = "UpdateErrorGen_%s.cfg" % name
    inv = ["Emit"] + (D_INVS if design else [])
    v.write_cfg(run.sc, cfg, "SPECIFICATION Spec\nCONSTANTS\n  SampleK = %d\n  SampleR = %d\n  WithPos = %s\n"
                "INVARIANTS\n%s\n" % (sample_k, sample_r, "TRUE" if with_pos else "FALSE",
                                      "\n".join("  " + i for i in inv)))
    res = v.tlc(run.sc, "UpdateErrorGen", cfg, workers=4, timeout=900)
    if design:
        run.design(res, "UpdateErrorGen %s: cases = initial states, D_C06_* on each" % name)
    else:
        v.require_design_ok(res, "UpdateErrorGen " + name)
    if not res.printed:
        raise v.MachineryError("generator printed no case:\n" + res.out[-2000:])
    return set(res.printed)


def with_ids(cases, first):
    out = []
    for i, c in enumerate(sorted(cases)):
        o = json.loads(c)
        o["id"] = first + i
        out.append(json.dumps(o, sort_keys=True))
    return out


def execute_parallel(run, rx, behs, tag, parts):
    """the replayers are single-threaded: run `parts` go test processes side by side"""
    if parts <= 1 or len(behs) < 4 * parts:
        return run.execute("c06", "pkg/server", rx, behs, tag=tag, timeout=1500)
    run.overlay("c06", "pkg/server")          # build the overlay file once, before the threads
    n = (len(behs) + parts - 1) // parts
    chunks = [behs[i:i + n] for i in range(0, len(behs), n)]
    res = [None] * len(chunks)
    err = []

    def work(i):
        try:
            res[i] = run.execute("c06", "pkg/server", rx, chunks[i], tag="%s-%d" % (tag, i), timeout=1500)
        except Exception as ex:     # noqa
            err.append(ex)
    ths = [threading.Thread(target=work, args=(i,)) for i in range(len(chunks))]
    for t in ths:
        t.start()
    for t in ths:
        t.join()
    if err:
        raise err[0]
    return [t for r in res for t in r]


def tolerated(run, behs, traces, key):
    """evidence only: discard-class messages the speaker answered with treat-as-withdraw (the
    over-reaction the one-sided oracle tolerates on purpose)"""
    n = 0
    for b, t in zip(behs, traces):
        o = json.loads(b)
        if o.get("lo") != 1 or o.get("rj") or o.get("kf"):
            continue
        upd = t[-1]
        if upd.get("ev") != "Upd" or upd["obs"]["sess"] != "up":
            continue
        views = [x for vs in upd["obs"]["views"].values() for x in vs]
        if not any(x["st"] == "new" for x in views):
            n += 1
    run.extra[key] = run.extra.get(key, 0) + n


def triage(run, traces):
    """One TLC pass with the always-true invariant Triage of the trace spec: which recorded messages
    fail which strict / KF-weakened invariant, and which known-finding predicates their inputs fall
    under.  Only a router: every verdict is made afterwards by run.validate."""
    rows = [r for t in traces for r in t]
    v.write_ndjson(run.sc.path("spec", "trace.ndjson"), rows)
    res = v.tlc(run.sc, MODULE, TRIAGE, workers=1, timeout=900, deadlock=False)
    if res.errors or res.violated or res.post_failed:
        return None         # let the strict validation report the gap / error
    out = {}
    conf = set()
    for ln in res.printed:
        try:
            o = json.loads(ln)
        except Exception:
            continue
        if isinstance(o, dict) and "triage" in o:
            out[o["triage"]["id"]] = o["triage"]
        elif isinstance(o, dict) and "conf" in o:
            conf.add(o["conf"]["id"])
    # informational: recorded handling class differs from the mechanism layer's prediction (wb)
    run.conf_mismatch += len(conf)
    return out


def judge(run, group, behs, traces, batch):
    """Route every recorded trace to the validation that makes its verdict:
       passes the strict invariants (the bulk)            -> strict cfg, one batch;
       fails one exactly as a REGISTERED known finding     -> KF cfg (weakened invariants), counted
                                                              as KNOWN-FINDING hits;
       anything else                                       -> the framework's one-by-one path
                                                              (strict, then KF + known_findings),
                                                              i.e. a VIOLATION unless known.
    The routing itself comes from one TLC pass (triage) and decides nothing."""
    registered = {k["id"] for k in run.known if k["property"] == run.prop}
    sel = lambda idx: ([traces[i] for i in idx], [behs[i] for i in idx])   # noqa
    tri = triage(run, traces)
    if tri is None:
        v.log("C06 %s: triage pass not accepted, validating everything on the one-by-one path" % group)
        run.validate(MODULE, STRICT, traces, behs, known_cfg=KF, group=group, batch=batch)
        return
    passing, known, other = [], [], []
    for i, b in enumerate(behs):
        x = tri.get(json.loads(b)["id"])
        if x is None:
            passing.append(i)
        elif not x["kf"] and set(x["tags"]) & registered:
            known.append((i, x))
        else:
            other.append(i)
    v.log("C06 %s: %d traces: %d pass strict, %d fail as registered known findings, %d other"
          % (group, len(behs), len(passing), len(known), len(other)))
    if passing:
        t, b = sel(passing)
        run.validate(MODULE, STRICT, t, b, known_cfg=KF, group=group, batch=batch)
    if known:
        t, b = sel([i for i, _ in known])
        val = run.validate(MODULE, KF, t, b, group=group, batch=batch)
        if not val.failures and not val.gaps:
            for _, x in known:
                for tag in x["tags"]:
                    if tag in registered:
                        run.known_hits[tag] = run.known_hits.get(tag, 0) + 1
    if other:
        # one replay file per distinct failure is enough to fail the check; the one-by-one path costs
        # a TLC run per trace, so it is bounded
        run.extra["unexpected_failing_traces_" + group] = len(other)
        seen, pick = set(), []
        for i in other:
            x = tri[json.loads(behs[i])["id"]]
            key = (tuple(sorted(x["strict"])), tuple(sorted(x["kf"])))
            if key not in seen and len(pick) < 6:
                seen.add(key)
                pick.append(i)
        t, b = sel(pick)
        run.validate(MODULE, STRICT, t, b, known_cfg=KF, group=group, batch=batch)


def main(run: Run):
    thorough = run.tier == "thorough"
    rnd = random.Random(run.seed)
    if run.replay:
        for group, rx in (("e2e", "^TestVerifC06E2E$"), ("wb", "^TestVerifC06WB$")):
            behs = run.replay_behaviours(group)
            if behs:
                traces = run.execute("c06", "pkg/server", rx, behs, tag="c06-" + group)
                run.validate(MODULE, STRICT, traces, behs, known_cfg=KF, group=group)
        return
    # 1+2. design level and enumeration in one TLC run per cfg: every case is an initial state
    if thorough:
        # every single fault at every position, every pair of faults (attributes where the valid
        # message has them), and a seeded 1/11 sample of the position variants of the pairs
        cases = gen_cases(run, "allpairs", 1, 0, False, True)
        cases |= gen_cases(run, "positions", 11, run.seed, True, True)
    else:
        cases = gen_cases(run, "quick", 23, run.seed, True, True)
    cases = with_ids(cases, 1)
    nf = lambda c: len(json.loads(c)["faults"])     # noqa
    singles = [c for c in cases if nf(c) <= 1]
    pairs = [c for c in cases if nf(c) == 2]
    run.extra["cases_enumerated"] = len(cases)
    run.extra["cases_single_fault"] = len(singles)
    run.extra["cases_two_faults"] = len(pairs)
    run.extra["cases_in_known_finding_predicates"] = sum(1 for c in cases if json.loads(c).get("kf"))
    # 3. white box: everything that was enumerated
    traces = execute_parallel(run, "^TestVerifC06WB$", cases, "c06-wb", 4 if thorough else 2)
    tolerated(run, cases, traces, "tolerated_discard_answered_by_withdraw_wb")
    judge(run, "wb", cases, traces, batch=6000)
    # 4. end to end: the single faults (quick: as-is position only) + sampled pairs
    if thorough:
        e2e = singles + rnd.sample(pairs, min(len(pairs), 3000))
    else:
        s0 = [c for c in singles if all(f["pos"] == "orig" for f in json.loads(c)["faults"])]
        e2e = s0 + rnd.sample(pairs, min(len(pairs), 400))
    run.extra["cases_end_to_end"] = len(e2e)
    traces = execute_parallel(run, "^TestVerifC06E2E$", e2e, "c06-e2e", 4 if thorough else 3)
    tolerated(run, e2e, traces, "tolerated_discard_answered_by_withdraw_e2e")
    judge(run, "e2e", e2e, traces, batch=3000)


RULE = ("cases = TLC enumeration (UpdateErrorGen.tla, initial states) of peer type {eBGP, iBGP, confederation} x "
        "treat-as-withdraw on/off x base UPDATE {v4 NLRI, MP_REACH v6, withdraw-only, mixed} x {no fault, one "
        "fault, two faults of the RFC 7606/4271 catalogue} x position of the faulted attribute; the harness "
        "builds the bytes; routes for every prefix are installed by the same peer beforehand; every recorded "
        "message is judged by UpdateErrorTrace.tla. non-trivial = a recorded message with at least one real "
        "fault, counted by distinct (replayer, peer type, switch, base, fault set)")
LEVEL = "model_checking"
ASSUMPTIONS = [
    "the fault catalogue of spec/UpdateError.tla is my transcription of RFC 7606 3-7, RFC 4271 6.3, RFC 6793 6, "
    "RFC 8092 5, RFC 5065 5; where the RFCs leave latitude the row is a sandwich (lo/hi) and only lo is demanded",
    "one session (4-octet AS, IPv4+IPv6 unicast, no ADD-PATH, no extended messages); one message under test "
    "per session; at most two faults per message",
    "treat-as-withdraw OFF is reached by flipping the flag in the peer's configuration copy before the "
    "session is established (the public API forces it on)",
    "white-box replayer: real recvMessageloop + real handleUpdate without the server around them; the "
    "session teardown after a reset is only observed end to end",
    "messages whose inputs satisfy a known-finding predicate of UpdateError.tla and that fail a strict "
    "invariant are validated against the KF-weakened invariants (UpdateErrorKF.cfg) only",
]
