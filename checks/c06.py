"""C06 - malformed UPDATEs are contained: never installed, answered per RFC 7606 / RFC 4271."""
import json
import random
import vpcore as v
from vprun import Run


def gen_cases(run, name, sample_k, sample_r, with_pos, design):
    """TLC enumerates the cases of spec/UpdateErrorGen.tla as initial states; with design=True the
    D_* invariants (mechanism layer vs property layer) are checked on every case."""
    cfg = "UpdateErrorGen_%s.cfg" % name
    inv = ["Emit"]
    if design:
        inv += ["D_C06_NeverWeaker_Fixed", "D_C06_NeverWeaker_KF", "D_C06_MaskedIsTheOnlyGap",
                "D_C06_ResetOnlyIfCalledFor", "D_C06_WellFormedNotPenalised"]
    v.write_cfg(run.sc, cfg, "SPECIFICATION Spec\nCONSTANTS\n  SampleK = %d\n  SampleR = %d\n  WithPos = %s\n"
                "INVARIANTS\n%s\n" % (sample_k, sample_r, "TRUE" if with_pos else "FALSE",
                                      "\n".join("  " + i for i in inv)))
    res = v.tlc(run.sc, "UpdateErrorGen", cfg, workers=4, timeout=900)
    if design:
        run.design(res, "UpdateErrorGen %s (cases as initial states; D_C06_* on each)" % name)
    else:
        v.require_design_ok(res, "UpdateErrorGen " + name)
    if not res.printed:
        raise v.MachineryError("generator printed no case:\n" + res.out[-2000:])
    cases = sorted(set(res.printed))
    return cases


def with_ids(cases):
    out = []
    for i, c in enumerate(cases):
        o = json.loads(c)
        o["id"] = i + 1
        out.append(json.dumps(o, sort_keys=True))
    return out


def tolerated(run, behs, traces, key):
    """evidence only: discard-class messages that the speaker treated as withdraw (an over-reaction
    the one-sided oracle tolerates on purpose)"""
    n = 0
    for b, t in zip(behs, traces):
        o = json.loads(b)
        if o.get("lo") != 1 or o.get("rj"):
            continue
        upd = t[-1]
        if upd.get("ev") != "Upd" or upd["obs"]["sess"] != "up":
            continue
        views = [x for vs in upd["obs"]["views"].values() for x in vs]
        if not any(x["st"] == "new" for x in views):
            n += 1
    run.extra[key] = run.extra.get(key, 0) + n


def main(run: Run):
    thorough = run.tier == "thorough"
    rnd = random.Random(run.seed)
    if run.replay:
        for group, h, rx in (("e2e", "c06", "^TestVerifC06E2E$"), ("wb", "c06", "^TestVerifC06WB$")):
            behs = run.replay_behaviours(group)
            if behs:
                traces = run.execute(h, "pkg/server", rx, behs, tag="c06-" + group)
                run.validate("UpdateErrorTrace", "UpdateErrorTrace.cfg", traces, behs,
                             known_cfg="UpdateErrorKF.cfg", group=group, conf_cfg="UpdateErrorConf.cfg")
        return
    # 1+2. design level and enumeration in one TLC run: every case is an initial state
    if thorough:
        cases = gen_cases(run, "full", 1, 0, True, True)
    else:
        cases = gen_cases(run, "quick", 23, run.seed, True, True)
    cases = with_ids(cases)
    singles = [c for c in cases if len(json.loads(c)["faults"]) <= 1]
    pairs = [c for c in cases if len(json.loads(c)["faults"]) == 2]
    run.extra["cases_enumerated"] = len(cases)
    run.extra["cases_single_fault"] = len(singles)
    run.extra["cases_two_faults"] = len(pairs)
    # 3. white box: everything that was enumerated
    wb = cases
    traces = run.execute("c06", "pkg/server", "^TestVerifC06WB$", wb, tag="c06-wb", timeout=1500)
    tolerated(run, wb, traces, "tolerated_discard_treated_as_withdraw_wb")
    run.validate("UpdateErrorTrace", "UpdateErrorTrace.cfg", traces, wb, known_cfg="UpdateErrorKF.cfg",
                 group="wb", conf_cfg="UpdateErrorConf.cfg", batch=6000)
    # 4. end to end: singles (quick: as-is position only) + sampled pairs
    if thorough:
        e2e = singles + rnd.sample(pairs, min(len(pairs), 3000))
    else:
        s0 = [c for c in singles if all(f["pos"] == "orig" for f in json.loads(c)["faults"])]
        e2e = s0 + rnd.sample(pairs, min(len(pairs), 500))
    traces = run.execute("c06", "pkg/server", "^TestVerifC06E2E$", e2e, tag="c06-e2e", timeout=1500)
    tolerated(run, e2e, traces, "tolerated_discard_treated_as_withdraw_e2e")
    run.validate("UpdateErrorTrace", "UpdateErrorTrace.cfg", traces, e2e, known_cfg="UpdateErrorKF.cfg",
                 group="e2e", batch=3000)


RULE = ("cases = TLC enumeration (UpdateErrorGen.tla, initial states) of peer type {eBGP, iBGP, confederation} x "
        "treat-as-withdraw on/off x base UPDATE {v4 NLRI, MP_REACH v6, withdraw-only, mixed} x {no fault, one "
        "fault, two faults of the RFC 7606/4271 catalogue} x position of the faulted attribute; the harness "
        "builds the bytes, routes for every named prefix are installed beforehand; every recorded message is "
        "judged by UpdateErrorTrace.tla. non-trivial = a recorded message with at least one real fault, "
        "counted by distinct (replayer, peer type, switch, base, fault set)")
LEVEL = "model_checking"
ASSUMPTIONS = [
    "the fault catalogue of spec/UpdateError.tla is my transcription of RFC 7606 3-7, RFC 4271 6.3, RFC 6793 6, "
    "RFC 8092 5, RFC 5065 5; where the RFCs leave latitude the row is a sandwich (lo/hi) and only lo is demanded",
    "one session (4-octet AS, IPv4+IPv6 unicast, no ADD-PATH, no extended messages); one message under test "
    "per session; at most two faults per message",
    "treat-as-withdraw OFF is reached by flipping the flag in the peer's configuration copy before the "
    "session is established (the public API forces it on)",
    "white-box replayer: real recvMessageloop + real handleUpdate without the server around them; the "
    "session teardown after a reset is only observed end to end",
]
