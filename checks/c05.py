"""C05 - no byte string can crash, hang or over-read the BGP message parser (partial: structure-aware
mutation space with a framing oracle; arbitrary byte strings are NOT claimed)."""
import json
import random
import vpcore as v
from vprun import Run
import framing_common as fc

SHAPE_SWEEPS = ["attr", "ext", "nlri", "open", "ex", "cap"]


def gen_mutations(run, msgs):
    """TLC reads the real octets with the independent reader and enumerates (length field x mutation)."""
    v.write_ndjson(run.sc.path("spec", "msgs.ndjson"), msgs)
    cfg = "FramingMutGen_%s.cfg" % run.tier
    v.write_cfg(run.sc, cfg, "SPECIFICATION GenSpec\nCONSTANTS\n  Tier = \"%s\"\nCHECK_DEADLOCK FALSE\n"
                "INVARIANTS\n  Emit\n" % run.tier)
    res = v.tlc(run.sc, "FramingMutGen", cfg, workers=1, deadlock=False, timeout=900)
    v.require_design_ok(res, "FramingMutGen")
    run.states += res.distinct
    run.transitions += res.generated
    out = []
    for ln in res.printed:
        o = json.loads(ln)
        m = msgs[o["i"] - 1]
        out.append({"orig": m["bytes"], "opts": m["opts"], "mut": o["mut"], "subs": o["subs"]})
    if not out:
        raise v.MachineryError("FramingMutGen printed no mutation:\n" + res.out[-2000:])
    return out


def main(run: Run):
    thorough = run.tier == "thorough"
    rng = random.Random(run.seed)
    if run.replay:
        behs = run.replay_behaviours("mut")
    else:
        fc.design(run, ["attr", "ext", "nlri", "other"] if thorough else ["nlri", "other"])
        # 1. TLC-enumerated shapes -> real octets (the C04 replayer records them)
        shapes, sweep_of = [], []
        for sw in SHAPE_SWEEPS + ["openinner"]:
            g = fc.gen_shapes(run, sw, seed=run.seed)
            shapes += g
            sweep_of += [sw] * len(g)
        g = fc.gen_shapes(run, "random", num=(400 if thorough else 80), seed=run.seed)
        shapes += g
        sweep_of += ["random"] * len(g)
        tr = run.execute("c04", "pkg/packet/bgp", "^TestVerifC04$", shapes, tag="c05-shapes")
        maxlen = 800 if thorough else 400
        small, big, always, seen = [], [], [], set()
        for ti, t in enumerate(tr):
            for row in t:
                if row.get("ev") != "Msg" or row["sererr"] or row["panic"]:
                    continue
                key = (tuple(row["bytes"]), json.dumps(row["opts"], sort_keys=True))
                if key in seen:
                    continue
                seen.add(key)
                o = row["opts"]
                m = {"bytes": row["bytes"], "opts": {k: o[k] for k in ("ext", "as2", "ap4", "apmp")}}
                if sweep_of[ti] == "openinner":
                    # capabilities with inner length fields, last / followed by a capability / by a parameter
                    always.append(m)
                elif (row["shape"]["k"] == "ex" and len(row["bytes"]) <= 1200
                        and not o["as2"] and (thorough or not (o["ap4"] or o["apmp"]))):
                    # the example catalogue (every attribute type, all 26 families) is mutated in every
                    # run, whatever the seed; the value-length-class shapes are sampled
                    always.append(m)
                else:
                    (small if len(row["bytes"]) <= maxlen else big).append(m)
        rng.shuffle(small)
        rng.shuffle(big)
        big = [m for m in big if len(m["bytes"]) <= 4096]
        msgs = always + small[:(170 if thorough else 70)] + big[:(3 if thorough else 1)]
        # 2. TLC enumerates (length field x mutation) over the real octets
        muts = gen_mutations(run, msgs)
        # sample per message, so that a message with a thousand NLRI does not crowd out the others
        per = {}
        for m in muts:
            per.setdefault((tuple(m["orig"]), json.dumps(m["opts"], sort_keys=True)), []).append(m)
        behs = []
        for key, lst in per.items():
            none = [m for m in lst if m["mut"]["m"] == "none"]
            rest = [m for m in lst if m["mut"]["m"] != "none"]
            rng.shuffle(rest)
            cap = (110 if thorough else 60) if len(key[0]) <= max(maxlen, 1200) else 25
            behs += [json.dumps(m) for m in none + rest[:cap]]
        run.extra["mutations_enumerated"] = len(muts)
        run.extra["mutations_executed"] = len(behs)
        run.extra["messages_mutated"] = len(msgs)
        # 3. extra: seeded pseudo-random octet strings with the same logged oracles (not claimed)
        nrand = 1500 if thorough else 400
        sizes = [19, 20, 23, 27, 40, 64, 100, 200, 400]
        for i in range(nrand):
            behs.append(json.dumps({"random": {"i": i, "n": sizes[i % len(sizes)],
                                               "mode": ["full", "body", "attrs"][i % 3]},
                                    "opts": {"ext": False, "as2": False, "ap4": False, "apmp": False}}))
        run.extra["random_strings"] = nrand
    if not behs:
        return
    traces = run.execute("c04", "pkg/packet/bgp", "^TestVerifC05$", behs, tag="c05-mut", timeout=1500)
    fc.validate(run, "FramingTraceKF_C05.cfg", "FramingTraceKFCount_C05.cfg", traces, behs, group="mut", batch=2500)


LEVEL = "exploration"
RULE = ("TLC enumerates abstract message shapes (spec/FramingGen.tla); the library serialises them; TLC then reads "
        "the REAL octets with the independent reader (spec/Framing.tla), enumerates every length field x "
        "{-1, +1, 0, max, listed boundary values, flip extended-length bit, truncate-here} (spec/FramingMutGen.tla) "
        "and the harness applies each mutation to the real octets and parses the result through ParseBGPMessage, "
        "ParseBGPBody, GetPathAttribute+DecodeFromBytes, NLRIFromSlice and DecodeCapability under all 32 "
        "marshalling-option combinations with recover() and a deadline, rendering (String/JSON/Len/Serialize) "
        "whatever comes back. FramingTrace.tla judges each recorded case against the framing oracle. "
        "non-trivial = a distinct mutated octet string for which the reader finds a declared extent passing the "
        "end of its container. Seeded random octet strings are an extra, not part of the claim")
ASSUMPTIONS = [
    "arbitrary byte strings are NOT claimed: the space is structure-aware mutations of length fields of "
    "library-emitted messages, sampled by VERIF_SEED within a budget, plus a few hundred seeded random strings",
    "trusted: the framing rules transcribed in spec/Framing.tla; the over-read oracle is one-sided (only a "
    "declared extent passing the end of its container obliges the parser to report an error)",
    "timeouts are real-time deadlines (10 s per parse) in the harness; allocation is read from runtime/metrics",
    "with the MRT option the framing oracle is not applied (panic/termination/buffer/render oracles are)",
]
