"""C09 - per-peer-type export rewriting and loop prevention."""
import json
import vpcore as v
from vprun import Run

EXPORT_POOLS = ["path", "attr", "horizon", "twice", "history"]

CFG = """SPECIFICATION Spec
CONSTANTS
  Pool = "%s"
  Slice = "%s"
INVARIANTS
  D_C09_MayAdvertise
  D_C09_Attrs
  D_C09_Advertise
  D_C09_Withdraw_KF
  D_C09_Canonical
  D_C09_Inbound
  Emit
"""


def enumerate_pool(run, pool, slice_):
    """TLC enumerates every case of the pool (one initial state each), checks mechanism => property
    on it (design level) and prints it as a schedule."""
    cfg = "MCExport_%s_%s.cfg" % (pool, slice_)
    v.write_cfg(run.sc, cfg, CFG % (pool, slice_))
    res = v.tlc(run.sc, "MCExport", cfg, workers=1, timeout=900, coverage=(run.tier == "thorough"))
    run.design(res, "MCExport pool=%s slice=%s" % (pool, slice_))
    if not res.printed:
        raise v.MachineryError("enumerator printed no cases for pool %s:\n%s" % (pool, res.out[-2000:]))
    if len(res.printed) != res.distinct:
        raise v.MachineryError("enumerator: %d cases printed but %d states" % (len(res.printed), res.distinct))
    return sorted(set(res.printed))


def bundle_known(behs):
    """Cases that the enumerator marks as meeting a listed known finding are bundled into one trace
    per (local speaker, peer): inbound histories get a prefix each, export cases are listed under
    "cases".  All other cases stay one per trace (minimal replays).  The verdict is still made by
    the trace spec."""
    plain, groups = [], {}
    for b in behs:
        o = json.loads(b)
        if o.get("kf"):
            k = json.dumps([o["mode"], o["local"], o["peer"]], sort_keys=True)
            groups.setdefault(k, []).append(o)
        else:
            plain.append(b)
    for k in sorted(groups):
        hs = groups[k]
        head = {"mode": hs[0]["mode"], "local": hs[0]["local"], "peer": hs[0]["peer"], "kf": True, "bundle": len(hs)}
        if hs[0]["mode"] == "inbound":
            head["steps"] = [{"pfx": i + 1, "route": s["route"]} for i, h in enumerate(hs) for s in h["steps"]]
        else:
            head["cases"] = [{"route": h["route"], "olds": h.get("olds", []), "wd": h.get("wd", False)} for h in hs]
        plain.append(json.dumps(head))
    return plain


def check_shape(behs, traces):
    """machinery check (not a verdict): every schedule produced its Reset line plus one line per step"""
    for b, t in zip(behs, traces):
        o = json.loads(b)
        want = 1 + 2 * max(1, len(o.get("cases", []))) if o["mode"] == "export" else 1 + len(o["steps"])
        if len(t) != want:
            raise v.MachineryError("harness recorded %d lines for a schedule with %d steps" % (len(t), want - 1))


REPORT_LIMIT = 5     # violations reported individually per group (each gets its replay file)


def scan(run, traces, batch=2000):
    """One TLC pass per batch with ExportScan.cfg: indices of the traces that have a step on which
    some C09_* invariant is false (the trace spec collects their tids)."""
    failing = set()
    for lo in range(0, len(traces), batch):
        part = traces[lo:lo + batch]
        rows = [r for t in part for r in t]
        v.write_ndjson(run.sc.path("spec", "trace.ndjson"), rows)
        res = v.tlc(run.sc, "ExportTrace", "ExportScan.cfg", workers=1, timeout=900, deadlock=False)
        run.states += res.distinct
        run.transitions += res.generated
        if res.errors or res.violated:
            raise v.MachineryError("scan pass: TLC error %s\n%s" % (res.errors[:3], res.out[-3000:]))
        if res.post_failed:
            # a line no action consumes: let the framework's validation locate and report the gap
            return None
        got, confmis = None, []
        for ln in res.printed:
            o = json.loads(ln)
            if isinstance(o, dict) and "failing" in o:
                got, confmis = o["failing"], o.get("confmis", [])
        if got is None:
            raise v.MachineryError("scan pass printed no result\n" + res.out[-2000:])
        tids = {t[0]["tid"]: lo + i for i, t in enumerate(part)}
        for tid in got:
            failing.add(tids[tid])
        run.conf_mismatch += len(confmis)
    return failing


def validate_group(run, traces, behs, group):
    failing = scan(run, traces)
    if failing is None:
        failing = set()
    ok = [i for i in range(len(traces)) if i not in failing]
    run.validate("ExportTrace", "ExportTrace.cfg", [traces[i] for i in ok], [behs[i] for i in ok],
                 known_cfg="ExportKF.cfg", group=group)
    reported = 0
    rest = sorted(failing)
    while rest and reported < REPORT_LIMIT:
        i = rest.pop(0)
        before = len(run.violations)
        run.validate("ExportTrace", "ExportTrace.cfg", [traces[i]], [behs[i]],
                     known_cfg="ExportKF.cfg", group=group)
        if len(run.violations) > before:
            reported += 1
    if rest:
        run.extra["failing_traces_beyond_report_limit"] = \
            run.extra.get("failing_traces_beyond_report_limit", 0) + len(rest)
        v.log("group %s: %d more failing trace(s) not reported individually" % (group, len(rest)))


def main(run: Run):
    thorough = run.tier == "thorough"
    slice_ = "all" if thorough else "quick"
    for pool in EXPORT_POOLS:
        behs = run.replay_behaviours(pool) if run.replay else bundle_known(enumerate_pool(run, pool, slice_))
        if not behs:
            continue
        traces = run.execute("c09", "pkg/server", "^TestVerifC09$", behs, tag="c09-" + pool)
        check_shape(behs, traces)
        validate_group(run, traces, behs, pool)
    behs = run.replay_behaviours("inbound") if run.replay else \
        bundle_known(enumerate_pool(run, "inbound", slice_))
    if behs:
        traces = run.execute("c09", "pkg/server", "^TestVerifC09$", behs, tag="c09-inbound")
        check_shape(behs, traces)
        validate_group(run, traces, behs, "inbound")
    run.extra["enumeration"] = ("every case of the MCExport pools (path, attr%s, horizon, twice, history, inbound) - exhaustive "
                                "over the abstract domains of spec/ExportDom.tla"
                                % ("" if thorough else " [quick slice: 2 of 4 unknown-attribute sets]"))


RULE = ("cases = every (local speaker, peer with options [, second peer], route) / (peer, announcement history) of the "
        "MCExport pools, enumerated by TLC as one-step behaviours; each is executed on the real "
        "(*BgpServer).processOutgoingPaths (the SAME stored path twice: to the peer, then to the second peer or to the "
        "same peer again) / handleFSMMessage with peers built as the server builds them; "
        "every recorded step is judged by ExportTrace.tla. non-trivial = a case in which a copy was "
        "really produced (attribute rules apply), or whose route must not be sent to the target, or "
        "(inbound) whose route must be rejected; counted by the trace spec per distinct case")
LEVEL = "model_checking"
ASSUMPTIONS = [
    "Export.tla property layer is my transcription of the property text, RFC 4271 5, RFC 4456 8, RFC 5065 4-5, "
    "RFC 7947 2 and the OpenConfig remove-private-as descriptions",
    "harness/c09 projection (attributes <-> abstract route) is trusted; the trace spec asserts that every built "
    "path projects back to the abstract route it was built from",
    "peers are put into the Established state white-box (PeerInfo built with the statement the server uses), "
    "no session is run; export policy is the empty default policy",
]
