"""C15 - soft reset and route refresh equal a fresh evaluation under the current policy."""
from speaker_common import run_speaker


def main(run):
    run_speaker(run, ["C15_ExportAsIfFresh", "C15_AddPathAsIfFresh", "C15_LocRibAsIfFresh", "C02_AdjInExact"], policy=True, design=None,
                pairs=({"rr": '{"dir", "refresh"}', "addpath": '{"dir", "refresh"}'} if run.tier != "thorough" else
                       {g: '{"dir", "both", "refresh"}' for g in ("ebgp3", "mixed", "rr", "addpath")}))


RULE = ("schedules = SpeakerGen.tla with WithPolicy: route events interleaved with SetImp/SetExp over the closed "
        "policy family {acc, reject x1, set MED 77 on x1, prepend twice on x1, reject x1 by AS_PATH, add community tag 1 / 2 on x1}, "
        "soft resets in/out/both towards one "
        "neighbour or all, and ROUTE-REFRESH from a neighbour; executed on the real BgpServer; TLC requires, whenever "
        "every stored route / neighbour has been (re)evaluated under the CURRENT policy, that the Loc-RIB listing and "
        "each neighbour's decoded view equal the fresh evaluation. non-trivial = distinct clean states with a non-accept "
        "policy in force and an established neighbour. In addition SpeakerPairs.tla enumerates EVERY ordered pair (old policy, "
        "new policy) x direction (x reset flavour in the thorough tier) on one skeleton: old in force, route changes, new + reset, "
        "reset again, more changes")
ASSUMPTIONS = ["policy family is closed and small (conditions on one prefix); the general policy language is C10",
               "locally injected routes are kept off the prefix the policies act on"]
