"""C14 - the 2-octet/4-octet AS transition (RFC 6793) loses nothing."""
import json
import time
import vpcore as v
from vprun import Run

STRICT = ["C14_DownWellFormed", "C14_DownAggregator", "C14_RoundTrip", "C14_RoundTripConfed",
          "C14_RoundTripAggregator", "C14_NoEmptyOrOverlong", "C14_NoLengthening",
          "C14_NoLengtheningConfed", "C14_IgnoreLongerAs4", "C14_IgnoreLongerAs4Confed",
          "C14_GroupInputIntact", "C14_SharedListUnchanged"]
HAS_KF_FORM = {"C14_RoundTrip", "C14_RoundTripConfed", "C14_NoEmptyOrOverlong", "C14_NoLengthening",
               "C14_NoLengtheningConfed", "C14_IgnoreLongerAs4Confed"}

ALLT = ["SEQ", "SET", "CSEQ", "CSET"]

TRACE_CFG = """SPECIFICATION TraceSpec
CONSTANTS
  MaxSeg = 255
CONSTRAINT TraceConstraint
POSTCONDITION TraceAccepted
CHECK_DEADLOCK FALSE
INVARIANTS
%s
"""


def effective_cfg(run):
    """Strict invariants, except that an invariant listed by a KNOWN (not fixed) finding of C14 in
    known_findings.jsonl is replaced by its weakened form <name>_KF (spec/trace/As4Trace.tla).
    Everything is validated against this cfg; whatever fails it is a violation."""
    weak = set()
    for k in run.known:
        if k["property"] == run.prop:
            weak.update(i for i in k.get("invariants", []) if i in HAS_KF_FORM)
    invs = [(i + "_KF") if i in weak else i for i in STRICT]
    name = "As4Eff.cfg"
    v.write_cfg(run.sc, name, TRACE_CFG % "\n".join("  " + i for i in invs))
    return name, weak


def design(run, mode, segs2, segs4, coverage):
    cfg = "MCAs4_%s_%d_%d.cfg" % (mode, segs2, segs4)
    if mode == "rt":
        invs = ["T_DownWellFormed", "T_RoundTrip", "T_RtMech"]
    else:
        invs = ["T_UpSegsOK", "T_UpSameCount", "T_UpIgnoreLonger", "T_UpKeepsConfed", "T_MechTotal",
                "T_MechOK", "T_KF_A_Tight", "T_KF_B_Tight", "T_KF_Disjoint", "T_MechFixedOK"]
    v.write_cfg(run.sc, cfg, """SPECIFICATION Spec
CONSTANTS
  MaxSeg = 3
  Mode = "%s"
  MaxSegs2 = %d
  MaxSegs4 = %d
  Lens = {1, 2, 3}
INVARIANTS
%s
""" % (mode, segs2, segs4, "\n".join("  " + i for i in invs)))
    res = v.tlc(run.sc, "MCAs4", cfg, timeout=1500, deadlock=False, coverage=coverage)
    run.design(res, "MCAs4 %s: AS_PATH <= %d segments%s, lengths 1..3, MaxSeg 3"
               % (mode, segs2, (" x AS4_PATH <= %d segments" % segs4) if mode == "pair" else ""))


def tla_set(xs):
    return "{" + ", ".join(('"%s"' % x) if isinstance(x, str) else str(x) for x in xs) + "}"


def gen(run, fam):
    """TLC enumerates the family's shape descriptors (exhaustive; residue class = seed)."""
    cfg = "As4Gen_%s.cfg" % fam["name"]
    mod = fam["mod"]
    v.write_cfg(run.sc, cfg, """SPECIFICATION Spec
CONSTANTS
  Mode = "%s"
  MaxSegs2 = %d
  MaxSegs4 = %d
  Types2 = %s
  Types4 = %s
  Lens2 = %s
  Lens4 = %s
  Pats2 = %s
  Pats4 = %s
  NeedLong = %s
  Modulus = %d
  Residue = %d
INVARIANTS
  Emit
""" % (fam["mode"], fam["segs2"], fam.get("segs4", 0), tla_set(fam.get("types2", ALLT)),
       tla_set(fam.get("types4", ALLT)), tla_set(fam["lens2"]), tla_set(fam.get("lens4", [1])),
       tla_set(fam["pats2"]), tla_set(fam.get("pats4", ["all"])), "TRUE" if fam.get("long") else "FALSE",
       mod, run.seed % mod))
    res = v.tlc(run.sc, "As4Gen", cfg, workers=1, deadlock=False, timeout=900)
    v.require_design_ok(res, "As4Gen " + fam["name"])
    if res.violated:
        raise v.MachineryError("As4Gen %s: %s" % (fam["name"], res.violated[0]["name"]))
    behs = sorted(set(res.printed))
    if not behs:
        raise v.MachineryError("generator printed no schedule for family %s:\n%s" % (fam["name"], res.out[-2000:]))
    run.extra.setdefault("families", []).append(
        {"family": fam["name"], "enumerated_by_tlc": res.distinct, "selected": len(behs),
         "modulus": mod, "residue": run.seed % mod})
    return behs


def staged_validate(run, eff, traces, behs, g, chunk):
    """run.validate costs several TLC runs per failing trace, so a change that breaks a large part of
    the family must not be validated in one go: first a canary of 16 schedules spread over the
    family, then chunks; stop at the first chunk with a violation or gap (the verdict is then
    settled, with replay files).  The informational mechanism-conformance pass is dropped once it
    has reported a mismatch."""
    n = len(traces)
    k = min(n, 16)
    canary = sorted(set(int(i * n / k) for i in range(k)))
    cs = set(canary)
    rest = [i for i in range(n) if i not in cs]
    for ch in [canary] + [rest[i:i + chunk] for i in range(0, len(rest), chunk)]:
        if not ch:
            continue
        run.validate("As4Trace", eff, [traces[i] for i in ch], [behs[i] for i in ch], group=g,
                     conf_cfg=None if run.conf_mismatch else "As4Conf.cfg", batch=chunk)
        if run.violations or run.gaps:
            return False
    return True


def kf_class(beh):
    """Only used to pick a few schedules for the KNOWN-FINDING demonstration (no verdict)."""
    b = json.loads(beh)
    if b["kind"] == "grp":
        return None
    if b["kind"] == "rt":
        p = b["p"]
        wide = any(d["w"] != "none" for d in p if d["t"] in ("SEQ", "SET"))
        if p and wide and p[0]["t"] in ("CSEQ", "CSET"):
            return "A"
        if p and wide and p[0]["t"] == "SET":
            return "B"
    else:
        a2, a4 = b["a2"], [d for d in b["a4"] if d["t"] in ("SEQ", "SET")]
        cnt = lambda p: sum(d["n"] if d["t"] == "SEQ" else 1 for d in p if d["t"] in ("SEQ", "SET"))
        if b["has4"] and a2 and a4:
            if a2[0]["t"] in ("CSEQ", "CSET") and cnt(a4) <= cnt(a2):
                return "A"
            if a2[0]["t"] == "SET" and cnt(a4) == cnt(a2):
                return "B"
    return None


MERGE = dict(name="pair-merge", mode="pair", segs2=2, segs4=2, types2=["SEQ"], types4=["SEQ"],
             lens2=[1, 2, 254, 255], lens4=[1, 2, 253, 254, 255], pats2=["last"], pats4=["all"], mod=1)


def families(thorough):
    P4 = ["none", "first", "last", "all"]
    if not thorough:
        return [
            dict(name="rt-small", mode="rt", segs2=3, lens2=[1, 2], pats2=P4, mod=3),
            dict(name="rt-long", mode="rt", segs2=2, lens2=[1, 2, 254, 255], pats2=P4, long=True, mod=2),
            dict(name="pair-small", mode="pair", segs2=3, segs4=2, lens2=[1, 2], lens4=[1, 2],
                 pats2=["last"], pats4=["all"], mod=6),
            dict(name="pair-long", mode="pair", segs2=2, segs4=2, lens2=[1, 2, 254, 255],
                 lens4=[1, 2, 254, 255], pats2=["last"], pats4=["all"], long=True, mod=32),
            MERGE,
            dict(name="grp-small", mode="grp", segs2=2, lens2=[1, 2], pats2=["none", "last", "all"], mod=3),
        ]
    return [
        dict(name="rt-small", mode="rt", segs2=3, lens2=[1, 2], pats2=P4, mod=1),
        dict(name="rt-long", mode="rt", segs2=2, lens2=[1, 2, 254, 255], pats2=P4, long=True, mod=1),
        dict(name="rt-long3", mode="rt", segs2=3, lens2=[1, 254, 255], pats2=["none", "last", "all"],
             long=True, mod=6),
        dict(name="pair-small", mode="pair", segs2=3, segs4=3, lens2=[1, 2], lens4=[1, 2],
             pats2=["last"], pats4=["all"], mod=20),
        dict(name="pair-long", mode="pair", segs2=2, segs4=2, lens2=[1, 2, 254, 255],
             lens4=[1, 2, 254, 255], pats2=["last"], pats4=["all"], long=True, mod=10),
        dict(name="pair-long3", mode="pair", segs2=3, segs4=2, lens2=[1, 255], lens4=[2, 254, 255],
             pats2=["none"], pats4=["last"], long=True, mod=12),
        MERGE,
        dict(name="grp-small", mode="grp", segs2=2, lens2=[1, 2], pats2=["none", "last", "all"], mod=1),
        dict(name="grp-long", mode="grp", segs2=2, lens2=[1, 255], pats2=["none", "all"], long=True, mod=4),
    ]


def main(run: Run):
    thorough = run.tier == "thorough"
    # 1. design level: RFC-level Down/Up satisfy the C14 statements on every small case; the
    #    gobgp-shaped mechanism equals the RFC outside the (tight) known-finding predicates
    design(run, "rt", 3, 0, thorough)
    design(run, "pair", 3, 2, thorough)
    if thorough:
        design(run, "pair", 3, 3, False)      # 1.86 M pairs; action coverage is taken from the run above

    eff, weak = effective_cfg(run)
    fams = families(thorough)
    for g in ("rt", "pair", "grp"):
        t0 = time.time()
        if run.replay:
            behs = run.replay_behaviours(g)
        else:
            behs = []
            for fam in fams:
                if fam["mode"] == g:
                    behs += gen(run, fam)
        if not behs:
            continue
        # 2./3. execute on the real conversion code
        traces = run.execute("c14", "internal/pkg/table", "^TestVerifC14$", behs, tag="c14-" + g)
        # 4. validate everything against the effective cfg: any failure is a violation
        t1 = time.time()
        ok = staged_validate(run, eff, traces, behs, g, 2500)
        v.log("group %s: %d schedules; generate+execute %.1fs, validate %.1fs"
              % (g, len(behs), t1 - t0, time.time() - t1))
        if not ok:
            v.log("violations found in group %s: nothing further is run" % g)
            return
        # known findings: show, on one schedule of each class, that the STRICT invariant fails
        # and only the finding's weakened form holds (prints KNOWN-FINDING, suppresses nothing else)
        if weak and not run.replay:
            pick, seen = [], set()
            for i, b in enumerate(behs):
                c = kf_class(b)
                if c and c not in seen:
                    seen.add(c)
                    pick.append(i)
            if pick:
                run.validate("As4Trace", "As4Trace.cfg", [traces[i] for i in pick],
                             [behs[i] for i in pick], known_cfg=eff, group=g)


LEVEL = "model_checking"
RULE = ("schedules = shape descriptors enumerated exhaustively by TLC (As4Gen.tla; residue class of the "
        "family chosen by VERIF_SEED): (rt) every valid AS_PATH of <= 3 segments x member counts "
        "{1,2} (all wide/narrow patterns) and {1,2,254,255} (none/first/last/all wide), with "
        "AGGREGATOR none/2-octet/4-octet/65536/>=2^31; (pair) independent (2-octet AS_PATH, AS4_PATH) "
        "pairs, AS4_PATH absent/shorter/equal/longer, confederation segments on both sides, unrelated "
        "segment boundaries and kinds; (grp) k = 2..3 UPDATE messages of one attribute group sharing one "
        "attribute list (a shared slice, or cut by CreateUpdateMsgFromPaths from ~1700 NLRIs), path shapes "
        "with/without 4-octet ASNs crossed with every AGGREGATOR choice, converted one after the other: "
        "round trip of every message and the shared list unchanged. The Go harness concretises them, runs UpdatePathAttrs2ByteAs/"
        "UpdatePathAggregator2ByteAs, real 2-octet serialisation and re-parse, UpdatePathAttrs4ByteAs/"
        "UpdatePathAggregator4ByteAs; every recorded step is judged by As4Trace.tla. non-trivial = a "
        "reconstruction whose AS4_PATH is present and has a countable segment, counted by distinct "
        "(segment kinds, member counts, wide counts) of both attributes")
ASSUMPTIONS = [
    "As4.tla's property layer is my transcription of RFC 6793 4.2.2/4.2.3/6 and RFC 5065 5.3 (AS counting)",
    "paths are compared as AS path information (Units): regrouping of sequence members into segments, "
    "member order inside a set and a needless AS4_PATH are not distinguished",
    "the harness replays the call sequences of pkg/server/fsm.go send()/recvMessageloop inside package table; "
    "the fsm goroutines themselves are not run",
    "ASNs >= 2^31 are logged as 32-bit two's complement because TLC integers are 32 bit",
    "AS_PATH inputs are RFC 5065-valid (confederation segments only as the leading run); segments have 1..255 members",
]
