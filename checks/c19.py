"""C19 - MRT, BMP, RTR, Zebra and BFD codecs decode safely and round-trip (PARTIAL claim).

(A) the BMP and MRT records the DAEMON emits, read back with the packages' own splitters and parsers and
    folded by the observer model spec/Monitor.tla, equal the tables of the speaker model at every quiescent
    point (harness/c19 in pkg/server, spec/trace/MonitorTrace.tla);
(B) framing / safety of the stream splitters and decoders on a TLC-enumerated space of abstract cases
    (catalogue message x truncation / length-field / type mutation; declared-vs-available classes and every
    chunking for the splitters), judged against the length-prefixed-record model spec/StreamFraming.tla
    (harness/c19codec in pkg/zebra, spec/trace/StreamFramingTrace.tla).
Arbitrary byte strings are NOT claimed."""
import json
import os
import vpcore as v
from vprun import Run
import framing_common as fc

GROUPS = ["ebgp3", "mixed", "rr"]
START_POLS = ["pre", "all", "local", "post", "none"]

MON_INVS_KF = ["Gap_Sessions", "Gap_AdjIn", "Gap_Dump",
               "C19_BmpParses", "C19_BmpSession", "C19_BmpReconnect", "C19_BmpBracket", "C19_BmpLocRibBracket", "C19_BmpPeerHeader",
               "C19_BmpPeerUpLocalAddress_KF", "C19_BmpAdjInExact_KF", "C19_BmpPostPolicy_KF", "C19_BmpLocRibExact_KF",
               "C19_MrtParses_KF", "C19_MrtPeerIndex_KF", "C19_MrtTableExact",
               "C19_MrtUpdParses", "C19_MrtUpdHeader", "C19_MrtUpdReplay"]
SF_INVS_KF = ["Gap_Trunc", "Gap_Cut", "Gap_Bound", "C19_SplitNoPanic", "C19_SplitBounded", "C19_SplitExact_KF", "C19_SplitNeedMore_KF",
              "C19_SplitComplete_KF", "C19_SplitProgress_KF", "C19_SplitNoOverRead_KF", "C19_ScanTokens",
              "C19_DecNoPanic", "C19_DecTerminates", "C19_DecBufferUntouched", "C19_DecValueOrError",
              "C19_DecNoOverRead_KF", "C19_DecTruncRejected", "C19_RoundTrip_KF", "C19_EncodedLength_KF",
              "C19_RoundTripRoutes_KF", "C19_RoundTripEqual_KF"]

MON_CONSTS = """CONSTANTS
  Peers <- P3
  PInfo <- PI_%(g)s
  Prefixes <- Pfx2
  LocalAS = 65000
"""


def trace_cfg(consts, invs):
    return ("SPECIFICATION TraceSpec\n" + consts + "CONSTRAINT TraceConstraint\nPOSTCONDITION TraceAccepted\n"
            "CHECK_DEADLOCK FALSE\nINVARIANTS\n" + "\n".join("  " + i for i in invs) + "\n")


def count_cfg(consts):
    return ("SPECIFICATION TraceSpec\n" + consts + "CONSTRAINT KfConstraint\nPOSTCONDITION KfReport\n"
            "CHECK_DEADLOCK FALSE\n")


def _violation(run, module, group, inv, off, traces, behaviours, ti, cfg, finding=None):
    payload = {"property": run.prop, "group": group, "invariant": inv, "line": off,
               "behaviour": behaviours[ti] if behaviours else None,
               "trace": traces[ti], "seed": run.seed, "module": module, "cfg": cfg}
    if finding:
        payload["unlisted_finding"] = finding
    run.violations.append({"inv": inv, "payload": payload, "group": group})


def validate(run, module, kf_cfg, cnt_cfg, traces, behaviours, group, batch=3000):
    """pass 1: every trace against the cfg whose invariants tolerate exactly the recorded known findings
    (a failing C19_* invariant is a violation, an unconsumable line / Gap_* a conformance gap);
    pass 2: the accepted traces are walked once more with the hit-recording cfg: wherever a STRICT invariant
    fails on a state the weakened one accepts, the trace spec records <<finding id, strict invariant, line>>.
    A finding id listed in known_findings.jsonl becomes a KNOWN-FINDING line; any other id is reported as a
    violation of the strict invariant (an empty known_findings.jsonl means: everything is reported)."""
    val = fc.validate_traces_capped(run.sc, module, kf_cfg, traces, batch=batch)
    run.extra["traces_skipped_after_violation_cap"] = run.extra.get("traces_skipped_after_violation_cap", 0) + val.skipped
    run.traces_validated += val.traces - val.skipped
    run.events_validated += val.events
    run.evaluations += val.events
    run.extra["nontrivial_counted"] = run.extra.get("nontrivial_counted", 0) + sum(val.nontrivial.values())
    run.states += val.states
    run.transitions += val.generated
    if traces and len(run.samples) < 3:
        smp = []
        for row in traces[0][:3]:
            row = dict(row)
            for k in ("bytes", "reenc", "bmp", "upd", "dumps"):
                if k in row and isinstance(row[k], list) and len(row[k]) > 24:
                    row[k] = row[k][:24] + ["..."]
            smp.append(row)
        run.samples.append({"group": group, "trace": smp})
    for ti, off, line in val.gaps:
        run.gaps.append({"group": group, "trace_index": ti, "line": off,
                         "event": (json.dumps(line)[:600] if line is not None else None)})
    bad = set(ti for ti, _, _ in val.gaps)
    failed = {}
    for ti, inv, off in val.failures:
        failed.setdefault(ti, (inv, off))
    for ti, (inv, off) in failed.items():
        bad.add(ti)
        if not inv.startswith("C"):
            run.gaps.append({"group": group, "trace_index": ti, "line": off, "invariant": inv,
                             "event": json.dumps(traces[ti][off])[:600] if off < len(traces[ti]) else None})
            continue
        _violation(run, module, group, inv, off, traces, behaviours, ti, kf_cfg)
    known_ids = set(k["id"] for k in run.known if k["property"] == run.prop)
    idx = [i for i in range(len(traces)) if i not in bad] if not val.skipped else []
    reported = set()
    for b0 in range(0, len(idx), batch):
        b = idx[b0:b0 + batch]
        rows, starts = [], []
        for ti in b:
            starts.append(len(rows) + 1)
            rows.extend(traces[ti])
        v.write_ndjson(run.sc.path("spec", "trace.ndjson"), rows)
        res = v.tlc(run.sc, module, cnt_cfg, workers=1, timeout=900, deadlock=False)
        if res.errors or res.violated or res.post_failed:
            raise v.MachineryError("known-finding pass failed: %s\n%s" % (res.errors[:2], res.out[-2000:]))
        run.states += res.distinct
        for ln in res.printed:
            try:
                o = json.loads(ln)
            except Exception:
                continue
            if not isinstance(o, dict) or "kf" not in o:
                continue
            for kid, inv, line in o["kf"]:
                # line = value of l after the offending row was consumed
                ti, off = fc._locate(starts, b, max(1, int(line) - 1))
                if kid in known_ids:
                    if (kid, ti) not in reported:
                        reported.add((kid, ti))
                        run.known_hits[kid] = run.known_hits.get(kid, 0) + 1
                elif (ti, inv) not in reported and len(run.violations) < 40:
                    reported.add((ti, inv))
                    _violation(run, module, group, inv, off, traces, behaviours, ti, kf_cfg, finding=kid)
    return val


# ---------------------------------------------------------------------------------------
# (B) stream framing / decoder safety

def gen_cases(run, part):
    cfg = "StreamFramingGen_%s.cfg" % part
    v.write_cfg(run.sc, cfg, "SPECIFICATION GenSpec\nCONSTANTS\n  Tier = \"%s\"\n  Part = \"%s\"\n"
                "CHECK_DEADLOCK FALSE\nINVARIANTS\n  Emit\n" % (run.tier, part))
    res = v.tlc(run.sc, "StreamFramingGen", cfg, workers=1, deadlock=False, timeout=900)
    v.require_design_ok(res, "StreamFramingGen " + part)
    run.states += res.distinct
    run.transitions += res.generated
    if not res.printed:
        raise v.MachineryError("StreamFramingGen %s printed no case:\n%s" % (part, res.out[-2000:]))
    return sorted(set(res.printed))


def codec(run):
    if not run.replay and not os.environ.get("VERIF_SKIP_DESIGN"):
        res = v.tlc(run.sc, "MCStreamFraming", "MCStreamFraming.cfg", timeout=600, workers=4)
        run.design(res, "MCStreamFraming (consumer loop around the specified splitter, every chunking)")
    v.write_cfg(run.sc, "SFTraceKF.cfg", trace_cfg("", SF_INVS_KF))
    v.write_cfg(run.sc, "SFTraceCount.cfg", count_cfg(""))
    for part in ("split", "scan", "dec"):
        group = "codec-" + part
        behs = run.replay_behaviours(group) if run.replay else gen_cases(run, part)
        if not behs:
            continue
        run.extra["cases_" + part] = len(behs)
        traces = run.execute("c19codec", "pkg/zebra", "^TestVerifC19Codec$", behs, tag="c19-" + part, timeout=1500)
        validate(run, "StreamFramingTrace", "SFTraceKF.cfg", "SFTraceCount.cfg", traces, behs, group, batch=40000)


# ---------------------------------------------------------------------------------------
# (A) daemon-emitted records versus the speaker model

GEN_CFG = """SPECIFICATION GSpec
CONSTANTS
  Peers <- P3
  PInfo <- PI_%(g)s
  Prefixes <- Pfx2
  LocalAS = 65000
  MaxSteps = %(steps)d
  StartPol = "%(pol)s"
  Warm = %(warm)s
INVARIANTS
  Emit
"""

MC_CFG = """SPECIFICATION MSpec
CONSTANTS
  Peers <- MC_Peers
  PInfo <- MC_PInfo
  Prefixes <- MC_Prefixes
  LocalAS = 65000
  MaxEvents = %(n)d
  Pol = "%(pol)s"
INVARIANTS
  D_NoNote
  D_Brackets
  D_Reconnect
  D_AdjIn
  D_Post
  D_LocRib
CHECK_DEADLOCK FALSE
"""


def gen_schedules(run, g, pol, num, seed, steps, warm):
    cfg = "MonitorGen_%s_%s_%s.cfg" % (g, pol, warm)
    v.write_cfg(run.sc, cfg, GEN_CFG % {"g": g, "pol": pol, "steps": steps + (4 if warm else 0),
                                        "warm": "TRUE" if warm else "FALSE"})
    res = v.tlc(run.sc, "MonitorGen", cfg, mode="simulate", simulate="num=%d" % num, depth=steps + 8,
                seed=seed, workers=1, deadlock=False, timeout=900)
    v.require_design_ok(res, "MonitorGen %s %s" % (g, pol))
    if not res.printed:
        raise v.MachineryError("MonitorGen printed no behaviour:\n" + res.out[-2000:])
    return res.printed


def hook_applied():
    try:
        src = open(os.path.join(v.REPO, "pkg/server/bmp.go")).read()
    except OSError:
        return False
    return "verifDial(" in src


def monitor(run):
    thorough = run.tier == "thorough"
    if not hook_applied():
        raise v.MachineryError("the BMP client of %s dials with net.Dial only: hook hooks_proposed/C19-bmp-dial.patch "
                               "(verifDial at bmpClient.tryConnect) is not applied" % v.REPO)
    if not run.replay and not os.environ.get("VERIF_SKIP_DESIGN"):
        for pol in (["all", "pre", "post", "local"] if thorough else ["all"]):
            cfg = "MCMonitor_%s.cfg" % pol
            v.write_cfg(run.sc, cfg, MC_CFG % {"pol": pol, "n": 14 if thorough else 8})
            res = v.tlc(run.sc, "MCMonitor", cfg, timeout=1200, workers=4)
            run.design(res, "MCMonitor policy=%s (documented emitter => station tables = speaker tables)" % pol)
    num = 20 if not thorough else 90
    steps = 14 if not thorough else 18
    for gi, g in enumerate(GROUPS):
        group = "mon-" + g
        if run.replay:
            behs = run.replay_behaviours(group)
        else:
            behs = []
            for pi, pol in enumerate(START_POLS):
                # half of the schedules start with every neighbour established (more routes per prefix)
                behs += gen_schedules(run, g, pol, num - num // 2, run.seed * 1000 + gi * 20 + pi, steps, False)
                behs += gen_schedules(run, g, pol, num // 2, run.seed * 1000 + gi * 20 + 10 + pi, steps, True)
        if not behs:
            continue
        run.extra["schedules_" + g] = len(behs)
        traces = run.execute("c19", "pkg/server", "^TestVerifC19Mon$", behs, tag="c19-" + group, timeout=1500)
        consts = MON_CONSTS % {"g": g}
        kcfg, ccfg = "MonitorTraceKF_%s.cfg" % g, "MonitorTraceCount_%s.cfg" % g
        v.write_cfg(run.sc, kcfg, trace_cfg(consts, MON_INVS_KF))
        v.write_cfg(run.sc, ccfg, count_cfg(consts))
        validate(run, "MonitorTrace", kcfg, ccfg, traces, behs, group, batch=400)


def main(run: Run):
    only = os.environ.get("VERIF_C19_ONLY", "")      # development aid: "A" or "B"
    rg = run.replay.get("group", "") if run.replay else ""
    if only != "A" and not rg.startswith("mon-"):
        codec(run)
    if only != "B" and not rg.startswith("codec-"):
        monitor(run)
    v.log("C19 totals: %d traces / %d recorded rows validated, %d states (design + generation + validation), "
          "%d distinct non-trivial cases, extra=%s"
          % (run.traces_validated, run.events_validated, run.states,
             run.extra.get("nontrivial_counted", 0), {k: x for k, x in run.extra.items() if k != "nontrivial_counted"}))


LEVEL = "exploration"
RULE = ("(A) schedules = TLC -simulate walks of spec/MonitorGen.tla (sessions, announcements, withdrawals, API routes, "
        "peer removal / re-addition over 3 neighbours x 2 prefixes x 6 route variants, BMP station on/off/connection lost with policy "
        "pre/post/local/all, MRT table-dump ticks) for the neighbour sets ebgp3, mixed, rr; executed on the real "
        "BgpServer in virtual time with a BMP station behind the BMP client's connection and both MRT dumpers writing "
        "files; every record is split and parsed back with the packages' own code and folded by the observer model. "
        "non-trivial = distinct (policy, sessions, adj-in, local routes) states with the station on and a route present, "
        "distinct table states dumped, distinct adj-in states replayed. "
        "(B) cases = TLC enumeration of spec/StreamFramingGen.tla (catalogue message x {pristine, truncate at position "
        "classes, length field classes incl. wrap-around values, unknown type codes}; splitters: declared-length class x "
        "available class x atEOF; every single chunk cut and a grid of double cuts of a three-record stream); "
        "non-trivial = distinct (format, message, mutation, octets fed) actually run through the real code")
ASSUMPTIONS = [
    "ARBITRARY BYTE STRINGS ARE NOT CLAIMED: (B) explores structure-aware mutations of messages built by the packages' "
    "own constructors; over-reads are visible as a result that depends on the octets beyond len(data) (two fill patterns "
    "in the spare capacity) or, for ZAPI, as octets taken from a counting connection",
    "round trip = decode(encode(m)) succeeds, re-encodes to the same octets, the header length equals the record length, "
    "the routes of a carried UPDATE are the routes put in, and the decoded value equals the constructed one under a "
    "structural equality computed by the harness (nil = empty container; the attribute-length cache and the raw copy of "
    "a carried BGP message are left out)",
    "ZAPI: bodies whose two directions are different messages by design (hello, redistribute, label manager, route "
    "messages, nexthop update) are exercised for safety only; ReceiveSingleMsg's documented (nil, nil) = 'message "
    "skipped' outcome counts as an error",
    "(A) IPv4 unicast, no import/export policy, no ADD-PATH neighbours, no route-server clients; BMP statistics reports "
    "and route mirroring are not enabled; the updates dumper writes no state changes, so its replay is judged per "
    "session; LOCAL_PREF received from an external neighbour is not compared",
    "trusted: the observer folds of spec/Monitor.tla (my reading of RFC 7854 / 9069 / 7911 / 6396 / 8050), the harness "
    "projection (attributes <-> abstract record) and the BMP dial hook",
]
