"""C12 - graceful-restart and LLGR stale routes live exactly as long as the RFCs allow.

spec/GrLlgr.tla (property layer: life-cycle of the restarting neighbour's routes as a function of the timed
input history), spec/GrLlgrMech.tla (design level: code-shaped mechanism => property, exhaustive over a
discretised clock), spec/GrLlgrScen.tla (exhaustive scenario enumeration), spec/GrLlgrGen.tla (random walks),
harness/c12 (real BgpServer in a synctest bubble, virtual time), spec/trace/GrLlgrTrace.tla (verdicts)."""
import json
import random
import vpcore as v

PFX = '{"x1", "x2", "y1", "y2"}'

GEN_CFG = """SPECIFICATION GSpec
CONSTANTS
  Prefixes = %(pfx)s
  MaxSteps = %(steps)d
  Mode = "%(mode)s"
INVARIANTS
  Emit
"""

SCEN_CFG = "INIT Init\nNEXT Next\nINVARIANTS\n  Emit\n"

STRICT, KFCFG, TRIAGE = "GrLlgrTrace.cfg", "GrLlgrKF.cfg", "GrLlgrTriage.cfg"
SAMPLES_PER_CLAUSE = 2


def design(run, thorough):
    """Design level: the code-shaped mechanism of GrLlgrMech.tla (repaired design, Bugs = {}) refines the
    property layer in every interleaving of inputs, clock ticks and timer expiries within the bounds; each
    modelled code defect (Bugs # {}) must be found by TLC (self-test of the model: not vacuous)."""
    for cfg, what in (("MCGrLlgr_gr.cfg", "GR (restart timer, family split, EOR purge)"),
                      ("MCGrLlgr_llgr.cfg", "LLGR (LLGR_STALE, NO_LLGR, per-family long-lived timers)")):
        if thorough:
            txt = open(run.sc.path("spec", cfg)).read().replace("MaxEvents = 7", "MaxEvents = 8")
            v.write_cfg(run.sc, cfg, txt)
        res = v.tlc(run.sc, "MCGrLlgr", cfg, workers=4 if not thorough else min(8, v.NCPU), timeout=1500,
                    coverage=thorough)
        run.design(res, "GrLlgrMech " + what)
    found = {}
    for bug, cfg in (("pfx", "MCGrLlgr_gr.cfg"), ("stuck", "MCGrLlgr_gr.cfg"), ("failconn", "MCGrLlgr_gr.cfg"),
                     ("lldrop", "MCGrLlgr_llgr.cfg"), ("llstuck", "MCGrLlgr_llgr.cfg")):
        name = "MCGrLlgr_bug_%s.cfg" % bug
        txt = open(run.sc.path("spec", cfg)).read().replace("Bugs = {}", 'Bugs = {"%s"}' % bug)
        v.write_cfg(run.sc, name, txt)
        res = v.tlc(run.sc, "MCGrLlgr", name, workers=4, timeout=900)
        v.require_design_ok(res, "GrLlgrMech bug " + bug)
        found[bug] = bool(res.violated) and res.violated[0]["name"] == "D_Refines"
        run.states += res.distinct
        run.transitions += res.generated
    run.extra["design_selftest_modelled_defect_found"] = found
    if not all(found.values()):
        raise v.MachineryError("design self-test: a modelled code defect is not found by TLC: %s" % found)


def dedupe(behs):
    """TLC -simulate prints one schedule per successor of the last step: keep one per walk."""
    seen, out = set(), []
    for b in behs:
        o = json.loads(b)
        key = json.dumps([o["cfg"], o["steps"][:-1]], sort_keys=True)
        if key not in seen:
            seen.add(key)
            out.append(b)
    return out


def gen_walks(run, mode, num, steps, seed):
    cfg = "GrLlgrGen_%s.cfg" % mode
    v.write_cfg(run.sc, cfg, GEN_CFG % {"pfx": PFX, "steps": steps, "mode": mode})
    res = v.tlc(run.sc, "GrLlgrGen", cfg, mode="simulate", simulate="num=%d" % num, depth=steps + 1, seed=seed,
                workers=1, deadlock=False, timeout=900)
    v.require_design_ok(res, "GrLlgrGen " + mode)
    if not res.printed:
        raise v.MachineryError("GrLlgrGen printed no behaviours:\n" + res.out[-2000:])
    return dedupe(res.printed)


def gen_scenarios(run, count, seed):
    v.write_cfg(run.sc, "GrLlgrScen.cfg", SCEN_CFG)
    res = v.tlc(run.sc, "GrLlgrScen", "GrLlgrScen.cfg", workers=1, deadlock=False, timeout=900)
    v.require_design_ok(res, "GrLlgrScen")
    allb = sorted(res.printed)
    if not allb:
        raise v.MachineryError("GrLlgrScen printed no scenarios:\n" + res.out[-2000:])
    run.extra["scenarios_enumerated"] = len(allb)
    run.states += res.distinct
    if count >= len(allb):
        return allb
    return random.Random(seed).sample(allb, count)


def judge(run, traces, behs, group):
    """Verdicts.  One TLC triage run (no verdict: it only sorts the batch, see GrLlgrTrace.TriStep) tells which
    traces will fail the strict cfg, so that
      * the traces expected to pass are validated against the strict cfg in one batch,
      * of the others, a few per failing clause go through the regular strict-then-KF path one by one, the
        rest are validated in one batch against the KF cfg (every *_KF invariant must hold on every one of them:
        a trace that fails there is then reported through the regular path as a VIOLATION)."""
    if not traces:
        return
    if len(traces) <= 3:
        run.validate("GrLlgrTrace", STRICT, traces, behs, known_cfg=KFCFG, group=group)
        return
    rows = [r for t in traces for r in t]
    v.write_ndjson(run.sc.path("spec", "trace.ndjson"), rows)
    res = v.tlc(run.sc, "GrLlgrTrace", TRIAGE, workers=1, deadlock=False, timeout=1800)
    if res.errors:
        raise v.MachineryError("triage TLC error: %s\n%s" % (res.errors[:3], res.out[-3000:]))
    if res.post_failed or res.violated:
        # a conformance gap or a Gap_* failure: let the regular path locate and report it
        run.validate("GrLlgrTrace", STRICT, traces, behs, known_cfg=KFCFG, group=group, batch=50)
        return
    bad = {}
    for ln in res.printed:
        try:
            o = json.loads(ln)
        except Exception:
            continue
        if isinstance(o, dict) and "inv" in o:
            bad[int(o["tid"]) - 1] = o["inv"]
    ok_idx = [i for i in range(len(traces)) if i not in bad]
    run.validate("GrLlgrTrace", STRICT, [traces[i] for i in ok_idx], [behs[i] for i in ok_idx],
                 known_cfg=KFCFG, group=group)
    per = {}
    single, rest = [], []
    for i in sorted(bad):
        inv = bad[i]
        per[inv] = per.get(inv, 0) + 1
        if per[inv] <= SAMPLES_PER_CLAUSE or run.match_known_inv(inv) is None:
            single.append(i)
        else:
            rest.append(i)
    single = single[:40] + []          # anything beyond is a flood of genuine violations: 40 replays are enough
    for i in single:
        run.validate("GrLlgrTrace", STRICT, [traces[i]], [behs[i]], known_cfg=KFCFG, group=group)
    if rest:
        kv = v.validate_traces(run.sc, "GrLlgrTrace", KFCFG, [traces[i] for i in rest])
        failed = set(j for j, _, _ in kv.failures) | set(j for j, _, _ in kv.gaps)
        run.states += kv.states
        run.transitions += kv.generated
        for j, i in enumerate(rest):
            if j in failed:
                run.validate("GrLlgrTrace", STRICT, [traces[i]], [behs[i]], known_cfg=KFCFG, group=group)
                continue
            kf = run.match_known_inv(bad[i])
            run.known_hits[kf["id"]] = run.known_hits.get(kf["id"], 0) + 1
            run.traces_validated += 1
            run.events_validated += len(traces[i])
            run.evaluations += len(traces[i])
        run.extra["nontrivial_counted"] = run.extra.get("nontrivial_counted", 0) + sum(kv.nontrivial.values())
    run.extra.setdefault("strict_failing_traces_by_clause", {})
    for inv, n in per.items():
        d = run.extra["strict_failing_traces_by_clause"]
        d[inv] = d.get(inv, 0) + n


def main(run):
    thorough = run.tier == "thorough"
    if not run.replay:
        design(run, thorough)
    plan = [("scen", None), ("walk", "helper"), ("restart", "restart")]
    for gi, (group, mode) in enumerate(plan):
        if run.replay:
            behs = run.replay_behaviours(group)
        elif group == "scen":
            behs = gen_scenarios(run, 1500 if thorough else 160, run.seed)
        else:
            num = {"walk": (600, 110), "restart": (250, 60)}[group][0 if thorough else 1]
            steps = {"walk": (30, 26), "restart": (24, 22)}[group][0 if thorough else 1]
            behs = gen_walks(run, mode, num, steps, run.seed * 100 + gi)
        if not behs:
            continue
        traces = run.execute("c12", "pkg/server", "^TestVerifC12$", behs, tag="c12-" + group, timeout=2400)
        judge(run, traces, behs, group)


RULE = ("three families of schedules, all executed on the real BgpServer in a synctest bubble (virtual time) with 4 scripted "
        "neighbours (R restarts, O1 LLGR-capable observer, O2 observer without GR, S second source), IPv4+IPv6 unicast: "
        "(scen) TLC enumerates every combination of local configuration x capabilities of R's OPEN x loss kind (transport "
        "close, hold-timer expiry, NOTIFICATION, hard reset, local shutdown/reset/disable, prefix-limit) x continuation "
        "(ticks to 1 s before / at / 1 s after the restart and each long-lived deadline; reconnection early / 1 s before the "
        "deadline / inside the long-lived period with same / no / fewer capabilities x re-announced subset x End-of-RIB "
        "order; second loss; failed connection attempt) - a seeded sample per run; (walk) TLC -simulate walks over the "
        "same input alphabet; (restart) the speaker itself restarting, neighbours coming up in any order, End-of-RIB per "
        "family, ticks around the deferral time. After every step, at exact quiescence, global table (presence, stale, "
        "LLGR_STALE, order), R's Adj-RIB-In and every neighbour's decoded wire view are compared by TLC with the property "
        "layer at the recorded virtual instant. non-trivial = distinct (configuration, capabilities, life-cycle state of "
        "R's routes, pending deadlines, competing routes) states judged while R is restarting or has just been lost "
        "non-gracefully, plus distinct withheld states of the restarting speaker")
LEVEL = "model_checking"
ASSUMPTIONS = [
    "the property layer of GrLlgr.tla is my transcription of the property text with RFC 4724 4.1/4.2, RFC 8538 and RFC 9494; "
    "where the texts leave two outcomes open both are accepted (per-family vs global End-of-RIB purge, routes already stale "
    "at a second loss, families no longer listed after re-establishment, observation at the exact instant of a deadline)",
    "not judged: inputs racing with a deadline at the same virtual instant; a locally sent administrative reset when the N bit "
    "is negotiated; a second loss while long-lived stale timers are still running; the forwarding-state (F) bit (always set "
    "by R); restart time 0; route-server / VRF / ADD-PATH neighbours; iBGP LLGR rules (LOCAL_PREF 0)",
    "local configuration enables GR for both families whenever it enables GR; LocalRestarting is set on every neighbour through "
    "the public API (the configuration-file path flags only GR-enabled neighbours)",
    "harness projection (communities <-> source/variant, LLGR_STALE / NO_LLGR) of harness/c12 is trusted",
]
