"""C18 - API and native representations convert losslessly in both directions (partial)."""
import json
import os
import re
import vpcore as v
from vprun import Run

MODULE = "ApiConvTrace"
KF_CFG = "ApiConvTraceKF.cfg"
COUNT_CFG = "ApiConvTraceKFCount.cfg"
SWEEPS = ["attr", "nlri", "cap", "ex", "path", "dset", "stmt", "peer"]
DESIGN_INVS = ["D_WellTyped", "D_FamilyMatches", "D_HintSound", "D_EveryKind", "D_Injective", "D_Coverage"]
RUNRE = "^TestVerifC18$"
MAX_FAILURES = 10


def design(run, workers=4):
    """design level: the vocabulary, the generator and the property layer are consistent with each other"""
    if os.environ.get("VERIF_SKIP_DESIGN"):     # development aid (mutant runs): traces only
        return
    cfg = "MCApiConv_%s.cfg" % run.tier
    v.write_cfg(run.sc, cfg, "SPECIFICATION Spec\nCONSTANTS\n  Sweep = \"all\"\n  Tier = \"%s\"\nCHECK_DEADLOCK FALSE\n"
                "INVARIANTS\n%s\n" % (run.tier, "\n".join("  " + i for i in DESIGN_INVS)))
    res = v.tlc(run.sc, "MCApiConv", cfg, timeout=600, workers=workers)
    run.design(res, "MCApiConv tier=%s" % run.tier)


def gen(run, sweep, num=0):
    cfg = "ApiConvGen_%s_%d.cfg" % (sweep, run.seed)
    v.write_cfg(run.sc, cfg, "SPECIFICATION GenSpec\nCONSTANTS\n  Sweep = \"%s\"\n  Tier = \"%s\"\n"
                "CHECK_DEADLOCK FALSE\nINVARIANTS\n  Emit\n" % (sweep, run.tier))
    if sweep == "random":
        res = v.tlc(run.sc, "ApiConvGen", cfg, mode="simulate", simulate="num=%d" % max(1, num // 4),
                    depth=4, seed=run.seed, workers=1, deadlock=False, timeout=600)
    else:
        res = v.tlc(run.sc, "ApiConvGen", cfg, workers=1, deadlock=False, timeout=600)
        run.states += res.distinct
        run.transitions += res.generated
    v.require_design_ok(res, "ApiConvGen " + sweep)
    if not res.printed:
        raise v.MachineryError("ApiConvGen %s printed no behaviours:\n%s" % (sweep, res.out[-2000:]))
    out, seen = [], set()
    for ln in res.printed:
        if ln not in seen:
            seen.add(ln)
            out.append(ln)
    return out


def _locate(starts, idx, line):
    k = 0
    for j, st in enumerate(starts):
        if st <= line:
            k = j
    return idx[k], line - starts[k]


def _violation(run, group, inv, off, traces, behaviours, ti, finding=None):
    payload = {"property": run.prop, "group": group, "invariant": inv, "line": off,
               "behaviour": behaviours[ti] if behaviours else None,
               "trace": traces[ti], "seed": run.seed, "module": MODULE, "cfg": KF_CFG}
    if finding:
        payload["unlisted_finding"] = finding
    run.violations.append({"inv": inv, "payload": payload, "group": group})


def validate_capped(sc, cfg, traces, batch):
    """vpcore.validate_traces, except that the search for further failing traces stops after
    MAX_FAILURES rejected traces (every further failing trace costs one more TLC run)."""
    val = v.Validation()
    val.skipped = 0
    val.traces = len(traces)
    val.events = sum(len(t) for t in traces)
    idx = list(range(len(traces)))
    pending = [idx[i:i + batch] for i in range(0, len(idx), batch)]
    while pending:
        b = pending.pop(0)
        if not b:
            continue
        if len(val.failures) + len(val.gaps) >= MAX_FAILURES:
            val.skipped += len(b)
            continue
        rows, starts = [], []
        for ti in b:
            starts.append(len(rows) + 1)
            rows.extend(traces[ti])
        v.write_ndjson(sc.path("spec", "trace.ndjson"), rows)
        res = v.tlc(sc, MODULE, cfg, workers=1, timeout=900, deadlock=False)
        val.states += res.distinct
        val.generated += res.generated
        if res.ok:
            for ln in res.printed:
                try:
                    o = json.loads(ln)
                    if isinstance(o, dict) and "nontrivial" in o:
                        for k, n in o["nontrivial"].items():
                            val.nontrivial[k] = val.nontrivial.get(k, 0) + int(n)
                except Exception:
                    pass
            continue
        if res.violated:
            viol = res.violated[0]
            line = v.violation_line(viol)
            if line is None:
                raise v.MachineryError("cannot locate violation in TLC output:\n" + res.out[-3000:])
            ti, off = _locate(starts, b, max(1, line - 1))
            val.failures.append((ti, viol["name"], off))
            pending.insert(0, [x for x in b if x != ti])
            continue
        if res.errors:
            raise v.MachineryError("trace validation TLC error (%s): %s\n%s" % (MODULE, res.errors[:3], res.out[-4000:]))
        if res.post_failed:
            m = re.search(r"VPHWM (\d+)", res.out)
            hw = int(m.group(1)) if m else 0
            ti, off = _locate(starts, b, max(1, hw))
            val.gaps.append((ti, off, traces[ti][off] if off < len(traces[ti]) else None))
            pending.insert(0, [x for x in b if x != ti])
    return val


def validate(run, traces, behaviours, group, batch=500):
    """pass 1: every trace against the cfg whose invariants tolerate exactly the recorded known
            findings (a failing C18_* invariant is a violation, an unconsumable line or a Gap_* invariant
            a conformance gap);
    pass 2: the traces that passed are walked once more with the hit-recording cfg: wherever a STRICT
            invariant fails on a line covered by a known-finding predicate the trace spec records
            <<finding id, strict invariant, line>>.  A finding id listed in known_findings.jsonl becomes a
            KNOWN-FINDING line; any other id is a violation of the strict invariant (so an empty
            known_findings.jsonl means: everything is reported)."""
    val = validate_capped(run.sc, KF_CFG, traces, batch)
    run.extra["traces_skipped_after_violation_cap"] = run.extra.get("traces_skipped_after_violation_cap", 0) + val.skipped
    run.traces_validated += val.traces - val.skipped
    run.events_validated += val.events
    run.evaluations += val.events
    run.extra["nontrivial_counted"] = run.extra.get("nontrivial_counted", 0) + sum(val.nontrivial.values())
    run.states += val.states
    run.transitions += val.generated
    if traces and len(run.samples) < 3:
        smp = []
        for row in traces[0][:2]:
            smp.append(_short(row))
        run.samples.append({"group": group, "trace": smp})
    for ti, off, line in val.gaps:
        run.gaps.append({"group": group, "trace_index": ti, "line": off,
                         "event": (json.dumps(line)[:800] if line is not None else None)})
    bad = set(ti for ti, _, _ in val.gaps)
    failed = {}
    for ti, inv, off in val.failures:
        failed.setdefault(ti, (inv, off))
    for ti, (inv, off) in failed.items():
        bad.add(ti)
        if not inv.startswith("C"):
            run.gaps.append({"group": group, "trace_index": ti, "line": off, "invariant": inv,
                             "event": json.dumps(traces[ti][off])[:800] if off < len(traces[ti]) else None})
            continue
        _violation(run, group, inv.replace("_KF", ""), off, traces, behaviours, ti)
    known_ids = set(k["id"] for k in run.known if k["property"] == run.prop)
    idx = [i for i in range(len(traces)) if i not in bad] if not val.skipped else []
    reported = set()
    for b0 in range(0, len(idx), batch):
        b = idx[b0:b0 + batch]
        rows, starts = [], []
        for ti in b:
            starts.append(len(rows) + 1)
            rows.extend(traces[ti])
        v.write_ndjson(run.sc.path("spec", "trace.ndjson"), rows)
        res = v.tlc(run.sc, MODULE, COUNT_CFG, workers=1, timeout=900, deadlock=False)
        if res.errors or res.violated or res.post_failed:
            raise v.MachineryError("known-finding pass failed: %s\n%s" % (res.errors[:2], res.out[-2000:]))
        run.states += res.distinct
        for ln in res.printed:
            try:
                o = json.loads(ln)
            except Exception:
                continue
            if not isinstance(o, dict) or "kf" not in o:
                continue
            for kid, inv, line in o["kf"]:
                ti, off = _locate(starts, b, int(line))
                if kid in known_ids:
                    if (kid, ti) not in reported:
                        reported.add((kid, ti))
                        run.known_hits[kid] = run.known_hits.get(kid, 0) + 1
                elif (ti, inv) not in reported:
                    reported.add((ti, inv))
                    _violation(run, group, inv, off, traces, behaviours, ti, finding=kid)
    return val


def _short(row):
    def cut(x):
        if isinstance(x, str):
            return x if len(x) <= 160 else x[:160] + "..."
        if isinstance(x, dict):
            return {k: cut(e) for k, e in x.items() if k not in ("full1", "full3", "native")}
        if isinstance(x, list):
            return [cut(e) for e in x[:6]]
        return x
    return cut(row)


def main(run: Run):
    thorough = run.tier == "thorough"
    if not run.replay:
        design(run)
    for sw in SWEEPS + ["random"]:
        if run.replay:
            behs = run.replay_behaviours(sw)
        elif sw == "random":
            behs = gen(run, sw, num=(40000 if thorough else 800))
        else:
            behs = gen(run, sw)
        if not behs:
            continue
        traces = run.execute("c18", "pkg/server", RUNRE, behs, tag="c18-" + sw, timeout=1500)
        validate(run, traces, behs, group=sw)


LEVEL = "exploration"
RULE = ("behaviours = abstract values enumerated by TLC from spec/ApiConvGen.tla: API-shaped records (path "
        "attributes of every type of pkg/apiutil/attribute.go, NLRI of every family, capabilities, API paths, defined "
        "sets, statements with each condition / action, neighbour configurations), one field at a time around absent / "
        "zero / max of a base value, list orders, 2-/4-octet AS kinds and next-hop forms as native-only hints, FlowSpec operand "
        "lengths (1/2/4/8 octets for values that fit in fewer) x and / end / comparison / bitmask bits, prefixes with host bits, plus "
        "random combinations (-simulate) and an example catalogue (BGP-LS, SR policy sub-TLVs, values as re-parsed by "
        "the codec). Each is concretised twice without the converters (protobuf library for the API value, the "
        "library's constructors for the native value), run through the REAL converters in both directions and the "
        "serialisers, or through AddPath/ListPath/DeletePath, AddDefinedSet/ListDefinedSet, AddStatement/ListStatement "
        "of a real BgpServer; renderings and octets are judged by ApiConvTrace.tla. non-trivial = a distinct value whose "
        "round trip actually completed (accepted and converted back)")
ASSUMPTIONS = [
    "value identity of a native value = its reflective rendering with nil and empty slices identified and pure "
    "wire-length caches (Length / Len / CapLen fields, the extended-length flag, a capability's raw CapValue copy) "
    "left out; their agreement with the octets is covered by C18_WireEqual; the two Go holders of an SRv6 service "
    "TLV (SRv6ServiceTLV / SRv6L3ServiceAttribute) are identified",
    "value identity of an API value = its deterministic protobuf octets and its protobuf-JSON record",
    "the vocabulary is written in the canonical form of the API (what the listing calls return); accepted "
    "non-canonical spellings ('_' in AS-path expressions, community names, un-anchored community values) are only "
    "required to be accepted and to reach a fixpoint",
    "neighbour configuration goes through newNeighborFromAPIStruct -> SetDefaultNeighborConfigValues -> "
    "NewPeerFromConfigStruct (what AddPeer / ListPeer do) and is compared on the fields the value sets; values that the "
    "default-setting step overwrites (0 timers, 0 restart time, local_asn 0, afi-safi enabled=false, cluster-id of a "
    "non-client) are not generated",
    "NOT covered: peer groups, global configuration, policies as lists of statements and policy assignments, VRF and "
    "RPKI / BMP / MRT API objects, the binary (nlri_binary / pattrs_binary) forms, BGP-LS beyond ten catalogue entries, "
    "API values outside the image of the converters (non-canonical oneof combinations, out-of-range integers), Adj-RIB "
    "listing of paths learned from peers, WatchEvent streams",
]
