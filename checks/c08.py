"""C08 - session parameters are negotiated as the intersection of both OPEN messages."""
import concurrent.futures
import itertools
import json
import random
import vpcore as v
from vprun import Run

# factor sizes, in the order of spec/NegotiateDom.tla (kept in step by check_dom below)
SIZES = [2, 3, 5, 5, 5, 6, 6, 4, 5, 9, 9, 9, 9, 4, 3, 3, 3, 2, 2, 2]
NAMES = ["las", "peer", "lv4", "lv6", "lvpn4", "lhold", "lka", "lgr", "ras", "rhold", "rv4", "rv6", "rvpn4",
         "rother", "rext", "rgr", "layout", "order", "bulk", "asform"]
PEER, LHOLD, LKA, RHOLD = 1, 5, 6, 9
ACCEPT = {PEER: [1, 2], RHOLD: [1, 4, 5, 6, 7, 8, 9]}          # configurations x OPENs that must come up
CHUNK = 250
BASE = [1, 1, 2, 1, 1, 1, 1, 1, 1, 6, 2, 1, 1, 1, 1, 1, 1, 1, 2, 1]


def domain(restrict=None):
    d = [list(range(1, n + 1)) for n in SIZES]
    for k, vals in (restrict or {}).items():
        d[k] = list(vals)
    return d


def pairwise(dom, rng, free=None):
    """Greedy pairwise (2-way) covering array over the factors in `free` (default all); the other
    factors keep their BASE value. Returns a list of picks (1-based value indices)."""
    free = list(range(len(dom))) if free is None else list(free)
    uncovered = set()
    for a, b in itertools.combinations(free, 2):
        for x in dom[a]:
            for y in dom[b]:
                uncovered.add((a, x, b, y))
    rows = []
    while uncovered:
        best, bestcov = None, -1
        for _ in range(12):
            a, x, b, y = rng.choice(sorted(uncovered)) if len(uncovered) < 400 else next(iter(uncovered))
            row = {a: x, b: y}
            order = [f for f in free if f not in row]
            rng.shuffle(order)
            for f in order:
                cand = []
                for val in dom[f]:
                    c = 0
                    for g, gv in row.items():
                        k = (g, gv, f, val) if g < f else (f, val, g, gv)
                        if k in uncovered:
                            c += 1
                    cand.append((c, rng.random(), val))
                row[f] = max(cand)[2]
            cov = sum(1 for g, h in itertools.combinations(sorted(row), 2) if (g, row[g], h, row[h]) in uncovered)
            if cov > bestcov:
                best, bestcov = row, cov
        for g, h in itertools.combinations(sorted(best), 2):
            uncovered.discard((g, best[g], h, best[h]))
        rows.append([best.get(i, BASE[i]) for i in range(len(dom))])
    return rows


def product(dom, idx, rng, others):
    """Full product of the factors idx; every other factor random from `others`."""
    out = []
    for vals in itertools.product(*[dom[i] for i in idx]):
        row = [rng.choice(others[i]) for i in range(len(dom))]
        for i, val in zip(idx, vals):
            row[i] = val
        out.append(row)
    return out


def suites(tier, seed):
    rng = random.Random(seed)
    acc = domain(ACCEPT)
    full = domain()
    s = {}
    s["pairwise"] = pairwise(acc, rng)
    # refused OPENs: hold time 1/2 and a wrong AS, pairwise with what could influence the answer
    ref = domain({RHOLD: [2, 3, 4, 7]})
    s["refuse"] = [r for r in pairwise(ref, rng, free=[0, 1, 5, 7, 8, 9, 16, 17, 19])]
    # keepalive boundary: configured hold time (90 default, 3, 9, 30, 0) x configured keepalive
    # (none, 1, 2, 5, 20, 45: shorter / longer than a third, and not below the hold time) x
    # peer hold time (0, 3, 9, 10, 30, 90, 65535): equal, smaller and larger than the local one
    kb = domain()
    kb[LHOLD], kb[RHOLD] = [1, 2, 3, 4, 6], [1, 4, 8, 5, 6, 9, 7]
    s["keepalive"] = [list(BASE[:LHOLD]) + [a, b] + list(BASE[LKA + 1:RHOLD]) + [c] + list(BASE[RHOLD + 1:])
                      for a in kb[LHOLD] for b in kb[LKA] for c in kb[RHOLD]]
    if tier == "thorough":
        for k in range(2):
            s["pairwise"] += pairwise(acc, rng)
        s["timers"] = product(acc, [PEER, LHOLD, LKA, RHOLD], rng, acc)
        for name, li, ri in (("famv4", 2, 10), ("famv6", 3, 11), ("famvpn4", 4, 12)):
            s[name] = product(acc, [li, ri, 16, 17], rng, acc)
        s["as"] = product(full, [0, 1, 8, 16, 19], rng, acc)
        s["extgr"] = product(acc, [14, 7, 15, 8], rng, acc)
        nomp = domain(ACCEPT)
        for i in (10, 11, 12):
            nomp[i] = [1, 8]                      # no Multiprotocol capability for the family
        nomp[2], nomp[3], nomp[4] = [1, 2, 5], [1, 2], [1, 2]
        s["absentmp"] = product(nomp, [2, 3, 4, 10, 11, 12, 13], rng, acc)
    demote(s)
    # no duplicates inside a suite
    for k in s:
        seen, rows = set(), []
        for r in s[k]:
            if tuple(r) not in seen:
                seen.add(tuple(r))
                rows.append(r)
        s[k] = rows
    return s


KEEP_KNOWN = 2


def demote(s):
    """Two confirmed defects (known_findings.jsonl) are triggered by whole classes of inputs. Every
    rejected trace costs two extra TLC runs, so only the first KEEP_KNOWN triggering picks of a run
    stay as they are (the findings remain visible in every run); in the others the triggering
    factor is moved to a neighbouring value. The triggers are predicates over the INPUTS only:
      KF-C08-gr-time-overflow: hold time 65535 configured and graceful restart enabled;
      KF-C08-as2-overflow: bulk export towards a neighbour without 4-octet AS and Extended Message."""
    kept = {"gr": 0, "as2": 0}
    for name in sorted(s):
        for r in s[name]:
            if r[LHOLD] == 5 and r[7] != 1:
                kept["gr"] += 1
                if kept["gr"] > KEEP_KNOWN:
                    r[7] = 1
            if r[18] == 1 and r[8] in (2, 5) and r[14] == 1:
                kept["as2"] += 1
                if kept["as2"] > KEEP_KNOWN:
                    r[18] = 2


def expand(run, name, picks):
    """TLC turns picks into behaviours (configuration + OPEN as JSON)."""
    body = ",\n  ".join("<<%s>>" % ",".join(str(x) for x in p) for p in picks)
    v.write_cfg(run.sc, "NegotiatePicks.tla",
                "---- MODULE NegotiatePicks ----\nPicks == {\n  %s }\n====\n" % body)
    res = v.tlc(run.sc, "NegotiateGen", "NegotiateGen.cfg", workers=1, deadlock=False, timeout=600)
    v.require_design_ok(res, "NegotiateGen " + name)
    if res.violated or len(res.printed) < len(picks):
        raise v.MachineryError("generator %s: %d picks but %d behaviours\n%s"
                               % (name, len(picks), len(res.printed), res.out[-2000:]))
    behs = sorted(set(res.printed))
    return behs


def check_dom(run):
    v.write_cfg(run.sc, "NegotiateSizes.tla", "---- MODULE NegotiateSizes ----\nEXTENDS NegotiateDom, TLC\n"
                "ASSUME PrintT(<<\"SIZES\", FactorSizes>>)\nVARIABLE x\nSpec == x = 0 /\\ [][UNCHANGED x]_x\n====\n")
    v.write_cfg(run.sc, "NegotiateSizes.cfg", "SPECIFICATION Spec\n")
    res = v.tlc(run.sc, "NegotiateSizes", "NegotiateSizes.cfg", workers=1, timeout=120)
    want = "<<\"SIZES\", <<%s>>>>" % ", ".join(str(n) for n in SIZES)
    if want not in res.out:
        raise v.MachineryError("checks/c08.py SIZES differ from NegotiateDom!FactorSizes:\n" + res.out[-1500:])


def main(run: Run):
    thorough = run.tier == "thorough"
    # 1. design level: mechanism layer inside the property layer, exhaustively per facet
    check_dom(run)
    pools = ["timers", "as", "fam46"] + (["fam4v", "fam6v"] if thorough else [])
    for pool in pools:
        cfg = "MCNegotiate_%s_%s.cfg" % (pool, run.tier)
        text = open(run.sc.path("spec", "MCNegotiate_%s.cfg" % pool)).read()
        v.write_cfg(run.sc, cfg, text.replace("Small = FALSE", "Small = %s" % ("FALSE" if thorough else "TRUE")))
        res = v.tlc(run.sc, "MCNegotiate", cfg, timeout=1200, coverage=thorough,
                    workers=min(v.NCPU, 8))
        run.design(res, "MCNegotiate " + pool)

    # 2./3./4. behaviours -> real sessions -> traces -> TLC
    if run.replay:
        groups = [(run.replay.get("group"), None)]
    else:
        groups = sorted(suites(run.tier, run.seed).items())
    total = 0
    jobs = []
    for name, picks in groups:
        behs = run.replay_behaviours(name) if run.replay else expand(run, name, picks)
        if not behs:
            continue
        total += len(behs)
        jobs += [(name, i, behs[i:i + CHUNK]) for i in range(0, len(behs), CHUNK)]
    if not jobs:
        return
    # the first harness run builds the test binary; the others run a few at a time (every behaviour
    # is a handful of fresh in-memory servers, the chunks are independent processes)
    run.overlay("c08", "pkg/server")

    def ex(job):
        name, i, chunk = job
        return run.execute("c08", "pkg/server", "^TestVerifC08$", chunk, tag="c08-%s-%d" % (name, i),
                           env={"GOGC": "400"}, timeout=1500)
    results = [ex(jobs[0])]
    with concurrent.futures.ThreadPoolExecutor(max_workers=3 if thorough else 2) as pool:
        results += list(pool.map(ex, jobs[1:]))
    # validation in small batches: the framework re-runs TLC once per rejected trace, so once a few
    # violations are on record (the run exits 1 anyway) the remaining batches are not validated
    vb = 120 if thorough else 45
    for (name, i, chunk), traces in zip(jobs, results):
        for k in range(0, len(chunk), vb):
            if len(run.violations) >= 3:
                run.extra["validation_cut_short_after_violations"] = True
                break
            run.validate("NegotiateTrace", "NegotiateTrace.cfg", traces[k:k + vb], chunk[k:k + vb],
                         known_cfg="NegotiateKF.cfg", group=name)
    run.extra["behaviours"] = total


RULE = ("behaviours = one-step cases (local neighbour configuration, received OPEN) expanded by TLC from "
        "index vectors over 18 factors (NegotiateDom.tla): a pairwise-covering suite over all factors "
        "(quick) plus the full products of the timer, per-family ADD-PATH, AS/peer-type, "
        "extended-message/GR and absent-Multiprotocol facets with the remaining factors drawn at random "
        "(thorough); each is executed as real sessions of a fresh BgpServer in virtual time and judged "
        "line by line by NegotiateTrace.tla. non-trivial = a distinct (configuration, OPEN) pair whose "
        "session came up and was probed (plus the distinct pairs in which the speaker really sent an "
        "UPDATE above 4096 octets)")
LEVEL = "model_checking"
ASSUMPTIONS = [
    "neighbour address is IPv4 and passive; one neighbour per speaker; speaker AS = neighbour local-as",
    "hold time 0 on the local side is set white-box (the API maps 0 to the default 90 s)",
    "OPENs whose 4-octet-AS capabilities disagree with each other are not generated",
    "ADD-PATH tuples that disagree for one family: both readings accepted (sandwich)",
    "large OPEN (RFC 9072) not generated: an OPEN cannot exceed 4096 octets with 1-octet parameter lengths",
]
