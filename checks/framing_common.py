"""Shared by checks/c04.py and checks/c05.py: design-level runs of MCFraming and TLC-enumerated
abstract message shapes (spec/FramingGen.tla)."""
import json
import vpcore as v

DESIGN_INVS = ["D_WriterWellFormed", "D_RoundTrip", "D_FieldsComplete", "D_MutSensitive",
               "D_TruncOverruns", "D_NoSpuriousOverrun"]


def design(run, pools, workers=6):
    """reader o writer = identity, every length field found, every +-1 mutation framing-visible"""
    for pool in pools:
        cfg = "MCFraming_%s.cfg" % pool
        v.write_cfg(run.sc, cfg, "SPECIFICATION Spec\nCONSTANTS\n  Pool = \"%s\"\nCHECK_DEADLOCK FALSE\n"
                    "INVARIANTS\n%s\n" % (pool, "\n".join("  " + i for i in DESIGN_INVS)))
        res = v.tlc(run.sc, "MCFraming", cfg, timeout=900, workers=workers,
                    coverage=(run.tier == "thorough"))
        run.design(res, "MCFraming pool=%s" % pool)


def gen_shapes(run, sweep, num=0, seed=1):
    """TLC enumerates the behaviours of one sweep (exhaustively, or num random combinations)."""
    cfg = "FramingGen_%s_%d.cfg" % (sweep, seed)
    v.write_cfg(run.sc, cfg, "SPECIFICATION GenSpec\nCONSTANTS\n  Sweep = \"%s\"\n  Tier = \"%s\"\n"
                "CHECK_DEADLOCK FALSE\nINVARIANTS\n  Emit\n" % (sweep, run.tier))
    if sweep == "random":
        res = v.tlc(run.sc, "FramingGen", cfg, mode="simulate", simulate="num=%d" % max(1, num // 4),
                    depth=4, seed=seed, workers=1, deadlock=False, timeout=600)
    else:
        res = v.tlc(run.sc, "FramingGen", cfg, workers=1, deadlock=False, timeout=600)
        run.states += res.distinct
        run.transitions += res.generated
    v.require_design_ok(res, "FramingGen " + sweep)
    if not res.printed:
        raise v.MachineryError("FramingGen %s printed no behaviours:\n%s" % (sweep, res.out[-2000:]))
    out, seen = [], set()
    for ln in res.printed:
        if ln not in seen:
            seen.add(ln)
            out.append(ln)
    return out
