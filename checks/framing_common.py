"""Shared by checks/c04.py and checks/c05.py: design-level runs of MCFraming and TLC-enumerated
abstract message shapes (spec/FramingGen.tla)."""
import json
import os
import vpcore as v

DESIGN_INVS = ["D_WriterWellFormed", "D_RoundTrip", "D_FieldsComplete", "D_MutSensitive",
               "D_TruncOverruns", "D_NoSpuriousOverrun", "D_NextHop", "D_ExtFlag"]


def design(run, pools, workers=6):
    """reader o writer = identity, every length field found, every +-1 mutation framing-visible"""
    if os.environ.get("VERIF_SKIP_DESIGN"):     # development aid (mutant runs): traces only
        return
    for pool in pools:
        cfg = "MCFraming_%s.cfg" % pool
        v.write_cfg(run.sc, cfg, "SPECIFICATION Spec\nCONSTANTS\n  Pool = \"%s\"\nCHECK_DEADLOCK FALSE\n"
                    "INVARIANTS\n%s\n" % (pool, "\n".join("  " + i for i in DESIGN_INVS)))
        # no -coverage: the spec has a single Next action, and TLC's coverage instrumentation of the
        # recursive reader over byte sequences exhausts the heap
        res = v.tlc(run.sc, "MCFraming", cfg, timeout=900, workers=workers)
        run.design(res, "MCFraming pool=%s" % pool)


def gen_shapes(run, sweep, num=0, seed=1):
    """TLC enumerates the behaviours of one sweep (exhaustively, or num random combinations)."""
    cfg = "FramingGen_%s_%d.cfg" % (sweep, seed)
    v.write_cfg(run.sc, cfg, "SPECIFICATION GenSpec\nCONSTANTS\n  Sweep = \"%s\"\n  Tier = \"%s\"\n"
                "CHECK_DEADLOCK FALSE\nINVARIANTS\n  Emit\n" % (sweep, run.tier))
    if sweep == "random":
        res = v.tlc(run.sc, "FramingGen", cfg, mode="simulate", simulate="num=%d" % max(1, num // 4),
                    depth=4, seed=seed, workers=1, deadlock=False, timeout=600)
    else:
        res = v.tlc(run.sc, "FramingGen", cfg, workers=1, deadlock=False, timeout=600)
        run.states += res.distinct
        run.transitions += res.generated
    v.require_design_ok(res, "FramingGen " + sweep)
    if not res.printed:
        raise v.MachineryError("FramingGen %s printed no behaviours:\n%s" % (sweep, res.out[-2000:]))
    out, seen = [], set()
    for ln in res.printed:
        if ln not in seen:
            seen.add(ln)
            out.append(ln)
    return out


def _locate(starts, idx, line):
    k = 0
    for j, st in enumerate(starts):
        if st <= line:
            k = j
    return idx[k], line - starts[k]


def validate(run, kf_cfg, count_cfg, traces, behaviours, group, batch=400):
    """Trace validation for C04/C05.
    pass 1: every trace against the cfg whose invariants tolerate exactly the recorded known
            findings (v.validate_traces: a failing Cxx_* invariant is a violation, an unconsumable
            line a conformance gap);
    pass 2: the traces that passed are walked once more with the hit-recording cfg: wherever a
            STRICT invariant fails on a line covered by a known-finding predicate the trace spec
            records <<finding id, strict invariant, line>>.  A finding id that is listed in
            known_findings.jsonl becomes a KNOWN-FINDING line; any other id is a violation of the
            strict invariant (so an empty known_findings.jsonl means: everything is reported)."""
    val = validate_traces_capped(run.sc, "FramingTrace", kf_cfg, traces, batch=batch)
    run.extra["traces_skipped_after_violation_cap"] = (run.extra.get("traces_skipped_after_violation_cap", 0)
                                                      + val.skipped)
    run.traces_validated += val.traces - val.skipped
    run.events_validated += val.events
    run.evaluations += val.events
    run.extra["nontrivial_counted"] = run.extra.get("nontrivial_counted", 0) + sum(val.nontrivial.values())
    run.states += val.states
    run.transitions += val.generated
    if traces and len(run.samples) < 3:
        smp = []
        for row in traces[0][:3]:
            row = dict(row)
            for k in ("bytes", "orig"):
                if k in row and len(row[k]) > 64:
                    row[k] = row[k][:64] + ["..."]
            smp.append(row)
        run.samples.append({"group": group, "trace": smp})
    for ti, off, line in val.gaps:
        run.gaps.append({"group": group, "trace_index": ti, "line": off,
                         "event": (json.dumps(line)[:600] if line is not None else None)})
    bad = set(ti for ti, _, _ in val.gaps)
    failed = {}
    for ti, inv, off in val.failures:
        failed.setdefault(ti, (inv, off))
    for ti, (inv, off) in failed.items():
        bad.add(ti)
        _violation(run, group, inv, off, traces, behaviours, ti, kf_cfg)
    known_ids = set(k["id"] for k in run.known if k["property"] == run.prop)
    idx = [i for i in range(len(traces)) if i not in bad] if not val.skipped else []
    reported = set()
    for b0 in range(0, len(idx), batch):
        b = idx[b0:b0 + batch]
        rows, starts = [], []
        for ti in b:
            starts.append(len(rows) + 1)
            rows.extend(traces[ti])
        v.write_ndjson(run.sc.path("spec", "trace.ndjson"), rows)
        res = v.tlc(run.sc, "FramingTrace", count_cfg, workers=1, timeout=900, deadlock=False)
        if res.errors or res.violated or res.post_failed:
            raise v.MachineryError("known-finding pass failed: %s\n%s" % (res.errors[:2], res.out[-2000:]))
        run.states += res.distinct
        for ln in res.printed:
            try:
                o = json.loads(ln)
            except Exception:
                continue
            if not isinstance(o, dict) or "kf" not in o:
                continue
            for kid, inv, line in o["kf"]:
                ti, off = _locate(starts, b, int(line))
                if kid in known_ids:
                    if (kid, ti) not in reported:
                        reported.add((kid, ti))
                        run.known_hits[kid] = run.known_hits.get(kid, 0) + 1
                elif (ti, inv) not in reported:
                    reported.add((ti, inv))
                    _violation(run, group, inv, off, traces, behaviours, ti, kf_cfg, finding=kid)
    return val


MAX_FAILURES = 10


def validate_traces_capped(sc, module, cfg, traces, batch=400, timeout=900):
    """vpcore.validate_traces, except that the search for further failing traces stops after
    MAX_FAILURES rejected traces (TLC stops at the first rejected line of a batch, so every further
    failing trace costs one more TLC run; once the verdict is VIOLATION anyway the remaining
    traces of that batch are left unvalidated and counted in `skipped`)."""
    val = v.Validation()
    val.skipped = 0
    val.traces = len(traces)
    val.events = sum(len(t) for t in traces)
    idx = list(range(len(traces)))
    pending = [idx[i:i + batch] for i in range(0, len(idx), batch)]
    while pending:
        b = pending.pop(0)
        if not b:
            continue
        if len(val.failures) + len(val.gaps) >= MAX_FAILURES:
            val.skipped += len(b)
            continue
        rows, starts = [], []
        for ti in b:
            starts.append(len(rows) + 1)
            rows.extend(traces[ti])
        v.write_ndjson(sc.path("spec", "trace.ndjson"), rows)
        res = v.tlc(sc, module, cfg, workers=1, timeout=timeout, deadlock=False)
        val.states += res.distinct
        val.generated += res.generated
        if res.ok:
            for ln in res.printed:
                try:
                    o = json.loads(ln)
                    if isinstance(o, dict) and "nontrivial" in o:
                        for k, n in o["nontrivial"].items():
                            val.nontrivial[k] = val.nontrivial.get(k, 0) + int(n)
                except Exception:
                    pass
            continue
        if res.violated:
            viol = res.violated[0]
            line = v.violation_line(viol)
            if line is None:
                raise v.MachineryError("cannot locate violation in TLC output:\n" + res.out[-3000:])
            ti, off = _locate(starts, b, max(1, line - 1))
            val.failures.append((ti, viol["name"], off))
            pending.insert(0, [x for x in b if x != ti])
            continue
        if res.errors:
            raise v.MachineryError("trace validation TLC error (%s): %s\n%s"
                                   % (module, res.errors[:3], res.out[-4000:]))
        if res.post_failed:
            import re
            m = re.search(r"VPHWM (\d+)", res.out)
            hw = int(m.group(1)) if m else 0
            ti, off = _locate(starts, b, max(1, hw))
            val.gaps.append((ti, off, traces[ti][off] if off < len(traces[ti]) else None))
            pending.insert(0, [x for x in b if x != ti])
    return val


def _violation(run, group, inv, off, traces, behaviours, ti, cfg, finding=None):
    payload = {"property": run.prop, "group": group, "invariant": inv, "line": off,
               "behaviour": behaviours[ti] if behaviours else None,
               "trace": traces[ti], "seed": run.seed, "module": "FramingTrace", "cfg": cfg}
    if finding:
        payload["unlisted_finding"] = finding
    run.violations.append({"inv": inv, "payload": payload, "group": group})
