"""C01 - each peer has been told exactly the current export of the Loc-RIB."""
from speaker_common import run_speaker


def main(run):
    run_speaker(run, ["C01_ExportExact", "C01_AddPathExact", "C01_StableIds"], quota=True)


RULE = ("schedules = TLC -simulate walks of SpeakerGen.tla (Up/UpHold/Release/Down/Ann/Wd/ApiAdd/ApiDel/"
        "Stall/Resume over 3 neighbours x 2 prefixes x 6 route variants) for the neighbour sets ebgp3, mixed "
        "(eBGP+iBGP) and rr (RR client, non-client, eBGP); executed on the real BgpServer in virtual time; "
        "after every step at exact quiescence the decoded per-neighbour wire view is compared by TLC with "
        "ExportView. non-trivial = distinct (sessions, adj-in, local routes, stalled, held) states with an "
        "established neighbour and a prefix with >= 2 candidate routes")
ASSUMPTIONS = ["the property layer of Speaker.tla (ExportView, MayAdvertise, Exp) is my transcription of the "
               "property text / RFC 4271 9.1-9.2 / RFC 4456", "IPv4 unicast only; no policy; no ADD-PATH in this check",
               "harness projection harness/c01 (attribute <-> abstract record) is trusted"]
