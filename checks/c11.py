"""C11 - UPDATE packing preserves the route changes and respects the message size limit."""
import vpcore as v
from vprun import Run

HARNESS = "c11"
PKG = "internal/pkg/table"
TEST = "^TestVerifC11$"
TRACE = ("PackingTrace", "PackingTrace.cfg", "PackingKF.cfg")


def mc(run, pool, ap, limit, maxlen, emit, invs, what, timeout=900):
    """One exhaustive TLC run over a pool of MCPacking: design-level invariants and, with
    emit, every list of the pool printed as a behaviour for the real code."""
    cfg = "MCPacking_%s_%s_%d%s.cfg" % (pool, ap, maxlen, "_e" if emit else "")
    v.write_cfg(run.sc, cfg, """SPECIFICATION Spec
CONSTANTS
  Ap <- %s
  Limit = %d
  MaxLen = %d
  Pool = "%s"
  Emit = %s
INVARIANTS
%s
""" % (ap, limit, maxlen, pool, "TRUE" if emit else "FALSE",
       "\n".join("  " + i for i in invs + (["EmitAll"] if emit else []))))
    res = v.tlc(run.sc, "MCPacking", cfg, timeout=timeout, deadlock=False,
                workers=min(v.NCPU, 8), coverage=False)
    run.design(res, what)
    return res.printed


DESIGN_INVS = ["D_FoldIsDecl", "D_Repaired", "D_CodeExceptKF", "D_KFExact", "D_OldDedupExact"]


def gen(run, scenario, num, steps, big, seed):
    cfg = "PackingGen_%s_%d.cfg" % (scenario, seed)
    v.write_cfg(run.sc, cfg, """SPECIFICATION GenSpec
CONSTANTS
  Scenario = "%s"
  MaxSteps = %d
  Big = %d
INVARIANTS
  Emit
""" % (scenario, steps, big))
    res = v.tlc(run.sc, "PackingGen", cfg, mode="simulate", simulate="num=%d" % num,
                depth=steps + 3, seed=seed, workers=1, deadlock=False, timeout=600)
    v.require_design_ok(res, "PackingGen " + scenario)
    if not res.printed:
        raise v.MachineryError("generator printed no behaviours:\n" + res.out[-2000:])
    return res.printed


MAX_VIOL = 3      # a failing run stops validating once this many violations are in hand


def exec_validate(run, group, behs, batch=2000):
    """Execute the behaviours on the real code and validate the traces.  Validation goes in
    growing chunks (30, 300, rest): the framework re-validates a batch once per failing trace,
    so a regression that breaks many traces is pinned down on a small chunk and the run stops
    instead of re-validating thousands of traces hundreds of times."""
    if not behs:
        return
    if len(run.violations) >= MAX_VIOL:
        v.log("group %s skipped: %d violations already found" % (group, len(run.violations)))
        return
    traces = run.execute(HARNESS, PKG, TEST, behs, tag="c11-" + group)
    cuts = [0, len(traces)] if len(traces) <= 100 else [0, 30, min(330, len(traces)), len(traces)]
    for a, b in zip(cuts, cuts[1:]):
        if a >= b:
            continue
        run.validate(TRACE[0], TRACE[1], traces[a:b], behs[a:b], known_cfg=TRACE[2], group=group,
                     batch=min(batch, b - a))
        if len(run.violations) >= MAX_VIOL:
            v.log("group %s: stopping after %d violations" % (group, len(run.violations)))
            return


def main(run: Run):
    thorough = run.tier == "thorough"
    seed = run.seed

    # 1. design level: the mechanism layer of Packing.tla against its property layer, exhaustively
    #    over small pools (code shape holds everywhere; without the 9eb707a clamp it fails exactly in
    #    the no-room shape; the pre-f403483 de-duplication fails exactly in LocalIdShape)
    if not run.replay:
        mc(run, "keys", "ApNone", 4096, 3, False, DESIGN_INVS, "MCPacking keys ap=none len<=3")
        mc(run, "sizes", "ApNone", 100, 3, False, DESIGN_INVS, "MCPacking sizes ap=none limit=100 len<=3")
        if thorough:
            mc(run, "keys", "ApAll", 4096, 3, False, DESIGN_INVS, "MCPacking keys ap=all len<=3")
            mc(run, "keys", "ApV4", 4096, 3, False, DESIGN_INVS, "MCPacking keys ap=v4 len<=3")
            mc(run, "sizes", "ApV4", 100, 3, False, DESIGN_INVS, "MCPacking sizes ap=v4 limit=100 len<=3")
            mc(run, "sizes", "ApNone", 100, 4, False, ["D_Repaired", "D_CodeExceptKF", "D_KFExact"],
               "MCPacking sizes ap=none limit=100 len<=4", timeout=1500)

    # 2. exhaustive small scope ON THE REAL CODE: every list over a one-prefix pool
    #    (two local ids x two attribute sets x announce/withdraw, a second prefix, End-of-RIB)
    if run.replay:
        behs = run.replay_behaviours("exh")
    else:
        behs = []
        for pool, ap, ml in ([("keys1", "ApNone", 3), ("keys1", "ApAll", 3), ("keys6", "ApNone", 2), ("keys6", "ApAll", 2),
                              ("keysm", "ApNone", 3)]
                             if not thorough else
                             [("keys1", "ApNone", 4), ("keys1", "ApAll", 4), ("keys6", "ApNone", 3), ("keys6", "ApAll", 3),
                              ("keysm", "ApNone", 4), ("keysm", "ApAll", 3)]):
            behs += mc(run, pool, ap, 4096, ml, True, ["D_FoldIsDecl", "D_Repaired"],
                       "MCPacking %s %s len<=%d (emitted)" % (pool, ap, ml))
    exec_validate(run, "exh", behs)

    # 3. simulated behaviours: repeated keys / local ids / families / next hops / ADD-PATH /
    #    extended message / 2-octet-AS peer / forced hash collisions; boundary sizes; exact fills
    if run.replay:
        behs = run.replay_behaviours("sim")
    else:
        behs = []
        for i, (scn, num, steps) in enumerate([("small", 300 if not thorough else 3000, 10 if not thorough else 12),
                                               ("bound", 300 if not thorough else 3000, 10 if not thorough else 12),
                                               ("fill", 60 if not thorough else 400, 2),
                                               ("noroom", 40 if not thorough else 300, 8)]):
            behs += gen(run, scn, num, steps, 100, seed * 100 + i)
    exec_validate(run, "sim", behs)

    #    the zone of the open known finding (as2-growth), validated apart (every trace there fails the strict cfg
    #    while the finding is open, and the framework re-validates once per failing trace)
    for i, (scn, num, steps) in enumerate([("as2fill", 4 if not thorough else 12, 2)]):
        behs = run.replay_behaviours(scn) if run.replay else gen(run, scn, num, steps, 100, seed * 100 + 10 + i)
        exec_validate(run, scn, behs, batch=max(1, len(behs or [])))

    # 4. large instances: 10^4 prefixes (+10% re-announcements / withdrawals, End-of-RIB)
    if run.replay:
        if str(run.replay.get("group", "")).startswith("large"):
            exec_validate(run, run.replay["group"], [run.replay["behaviour"]], batch=1)
        return
    sizes = [10000] if not thorough else [10000, 10000, 20000]
    for i, n in enumerate(sizes):
        exec_validate(run, "large-%d-%d" % (n, i), gen(run, "large", 1, 2, n, seed * 100 + 50 + i)[:1], batch=1)


RULE = ("behaviours = (a) EVERY list up to length 3/4 over a one-prefix pool (2 local ids x 2 attribute sets x "
        "announce/withdraw, second prefix, End-of-RIB; v4 and v6; ADD-PATH off/on) enumerated by TLC, (b) TLC "
        "-simulate lists over 3 families x 2-3 prefixes x 3 local ids x 3 attribute sets x the family's next hops "
        "(v4 with NEXT_HOP / with an IPv4 next hop carried only in MP_REACH_NLRI / v6 / v6+link-local next hop, v6, vpnv4) x ADD-PATH subsets x extended message x forced hash "
        "collision, (c) boundary lists whose big attribute block leaves -8..40 octets of NLRI room under 4096 / "
        "65535, and lists of 33..63 same-length prefixes whose NLRI fill that room exactly / to one octet short "
        "of one more NLRI, (d) 10^4..2*10^4-prefix instances; each executed on the real table.CreateUpdateMsgFromPaths, "
        "serialised and re-parsed. non-trivial = a validated pass with a repeated wire key, a message within two "
        "worst-case NLRI of the limit (or refused), or a route that does not fit / fits by < 9 octets "
        "(counted by distinct session + list content)")
LEVEL = "model_checking"
ASSUMPTIONS = [
    "harness/c11 builds paths white-box (NewPath + localID) instead of taking them from a Loc-RIB; attribute "
    "blocks are ORIGIN, AS_PATH, [NEXT_HOP], MED and unknown optional-transitive padding attributes",
    "the independent receiver is bgp.ParseBGPMessage of the same code base (framing cross-checked against the "
    "RFC size formulas of PackingDom.tla for every input route; C04 covers the codec itself)",
    "'reported' = BGPMessage.Serialize refuses the message (what fsm.go send() logs and drops); the log line of "
    "fsm.go itself is not observed at table level",
    "the steps of fsm.go send() between packing and the socket (2-octet-AS rewriting, Serialize with the "
    "session's options, drop on error) are re-enacted by the harness with the same functions; send() itself, "
    "its counters and the session staying up are observed by the server-level checks (C01/C08), not here",
    "message order among different attribute groups is Go map order: the receiver model is order-insensitive "
    "for distinct keys and nothing more is demanded",
]
