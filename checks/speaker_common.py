"""Shared by C01 and C02 (and C15): schedules from SpeakerGen.tla executed on the real BgpServer in a
synctest bubble (harness/c01), traces validated against the property layer of Speaker.tla."""
import vpcore as v

GROUPS = ["ebgp3", "mixed", "rr", "addpath", "rs"]
# route-server clients live in their own table: the global-table oracles do not apply to that group
RS_SKIP = {"C02_LocRibExact", "C02_BestStream", "C02_Lookups", "C15_LocRibAsIfFresh"}

TRACE_CFG = """SPECIFICATION TraceSpec
CONSTANTS
  Peers <- P3
  PInfo <- PI_%(g)s
  Prefixes <- Pfx2
  LocalAS = 65000
CONSTRAINT TraceConstraint
POSTCONDITION TraceAccepted
CHECK_DEADLOCK FALSE
INVARIANTS
  Gap_Sessions
%(invs)s
"""

GEN_CFG = """SPECIFICATION GSpec
CONSTANTS
  Peers <- P3
  PInfo <- PI_%(g)s
  Prefixes <- Pfx2
  LocalAS = 65000
  MaxSteps = %(steps)d
  WithPolicy = %(pol)s
  Warm = %(pol)s
  Chaos = FALSE
INVARIANTS
  Emit
"""


def gen(run, g, num, seed, steps, policy=False):
    cfg = "SpeakerGen_%s_%d.cfg" % (g, seed)
    v.write_cfg(run.sc, cfg, GEN_CFG % {"g": g, "steps": steps, "pol": "TRUE" if policy else "FALSE"})
    res = v.tlc(run.sc, "SpeakerGen", cfg, mode="simulate", simulate="num=%d" % num, depth=steps + 1,
                seed=seed, workers=1, deadlock=False, timeout=900)
    v.require_design_ok(res, "SpeakerGen " + g)
    if not res.printed:
        raise v.MachineryError("SpeakerGen printed no behaviours:\n" + res.out[-2000:])
    return thin(res.printed, seed, 24 if run.tier == "thorough" else 6)


def tmo(behs):
    """go test timeout of a directed run: measured 0.05 s per schedule; a run that needs ten times that is hung"""
    return int(420 + 0.5 * len(behs))


def thin(behs, seed, per_prefix):
    """TLC prints one behaviour per successor of the last step of every walk (dozens that differ in the last
    step only). The quick tier keeps at most per_prefix of each such family, chosen by a seeded hash."""
    if not per_prefix:
        return behs
    import hashlib
    import json
    fam = {}
    for b in behs:
        st = json.loads(b)["steps"]
        fam.setdefault(json.dumps(st[:-1], sort_keys=True), []).append(b)
    out = []
    for k in sorted(fam):
        lst = sorted(fam[k], key=lambda b: hashlib.sha1((str(seed) + b).encode()).hexdigest())
        out.extend(lst[:per_prefix])
    return out


PAIRS_CFG = """SPECIFICATION QSpec
CONSTANTS
  Peers <- P3
  PInfo <- PI_%(g)s
  Prefixes <- Pfx2
  LocalAS = 65000
  Resets = %(resets)s
INVARIANTS
  Emit
CHECK_DEADLOCK FALSE
"""


def gen_pairs(run, g, resets):
    """every ordered pair of the closed policy family x direction (x reset flavour): exhaustive TLC run of
    SpeakerPairs.tla, one schedule per pair"""
    cfg = "SpeakerPairs_%s.cfg" % g
    v.write_cfg(run.sc, cfg, PAIRS_CFG % {"g": g, "resets": resets})
    res = v.tlc(run.sc, "SpeakerPairs", cfg, workers=1, deadlock=False, timeout=900, seed=run.seed)
    v.require_design_ok(res, "SpeakerPairs " + g)
    if not res.printed:
        raise v.MachineryError("SpeakerPairs printed no schedule:\n" + res.out[-2000:])
    return sorted(set(res.printed))


QUOTA_CFG = """SPECIFICATION QSpec
CONSTANTS
  Peers <- P3
  PInfo <- PI_addpath
  Prefixes <- Pfx2
  LocalAS = 65000
INVARIANTS
  Emit
CHECK_DEADLOCK FALSE
"""


def gen_quota(run):
    """the ADD-PATH send-max quota: every announce order of three eligible sources x withdrawn source x second
    withdrawn source (SpeakerQuota.tla, exhaustive TLC run, one schedule each)"""
    v.write_cfg(run.sc, "SpeakerQuota.cfg", QUOTA_CFG)
    res = v.tlc(run.sc, "SpeakerQuota", "SpeakerQuota.cfg", workers=1, deadlock=False, timeout=900, seed=run.seed)
    v.require_design_ok(res, "SpeakerQuota")
    if not res.printed:
        raise v.MachineryError("SpeakerQuota printed no schedule:\n" + res.out[-2000:])
    return sorted(set(res.printed))


MECH_CFG = """SPECIFICATION MSpec
CONSTANTS
  Peers <- P3
  PInfo <- PI_%(g)s
  Prefixes = %(pfx)s
  LocalAS = 65000
  MaxEvents = %(n)d
  Codes = {0, 1, 3}
  LocalCodes = {0}
INVARIANTS
  D_C01_ExportExact
  D_C01_NothingStale
  D_TypeOK
CHECK_DEADLOCK FALSE
"""


def design_mech(run, thorough):
    """Design level: the mechanism model (queues, coalescing sender, deliveries, stalls, session
    up/down) satisfies the property layer in every interleaving, exhaustively for small bounds."""
    if run.replay:
        return
    for g in GROUPS:
        if g in ("addpath", "rs"):
            continue        # the mechanism model has no ADD-PATH bookkeeping / route-server tables
        cfg = "MCSpeakerMech_%s_run.cfg" % g
        v.write_cfg(run.sc, cfg, MECH_CFG % {"g": g, "pfx": '{"x1"}', "n": 6 if thorough else 5})
        res = v.tlc(run.sc, "SpeakerMech", cfg, timeout=2400, coverage=thorough)
        run.design(res, "SpeakerMech %s" % g)


def run_speaker(run, invs, kf_invs=None, design=design_mech, policy=False, collide=False, pairs=None, quota=False):
    thorough = run.tier == "thorough"
    if design:
        design(run, thorough)
    num = 50 if not thorough else 200      # walks; the quick tier keeps <= 6 last-step variants of each (thin)
    steps = 14 if not thorough else 18
    for i, g in enumerate(GROUPS):
        if policy and g == "rs":
            continue        # the closed policy family is assigned to the global table
        gnum = num * 3 if (policy and g == "addpath") else num     # the per-path policy cases are rarer
        rg = run.replay.get("group") if run.replay else None
        if run.replay:
            behs = [run.replay["behaviour"]] if rg in (g, g + "-collide", g + "-pairs", g + "-quota") else []
        else:
            behs = gen(run, g, gnum, run.seed * 100 + i, steps, policy)
        if not behs:
            continue
        cfg = "SpeakerTrace_%s_%s.cfg" % (run.prop, g)
        ginvs = [x for x in invs if not (g == "rs" and x in RS_SKIP)]
        v.write_cfg(run.sc, cfg, TRACE_CFG % {"g": g, "invs": "\n".join("  " + x for x in ginvs)})
        kcfg = None
        if kf_invs:
            kcfg = "SpeakerKF_%s_%s.cfg" % (run.prop, g)
            v.write_cfg(run.sc, kcfg, TRACE_CFG % {"g": g, "invs": "\n".join("  " + x for x in kf_invs)})
        if rg in (None, g):
            traces = run.execute("c01", "pkg/server", "^TestVerifC01$", behs, tag="speaker-" + g, timeout=tmo(behs))
            run.validate("SpeakerTrace", cfg, traces, behs, known_cfg=kcfg, group=g)
        if pairs and g in pairs and rg in (None, g + "-pairs"):
            pb = [run.replay["behaviour"]] if run.replay else gen_pairs(run, g, pairs[g])
            traces = run.execute("c01", "pkg/server", "^TestVerifC01$", pb, tag="speaker-%s-pairs" % g, timeout=tmo(pb))
            run.validate("SpeakerTrace", cfg, traces, pb, known_cfg=kcfg, group=g + "-pairs")
            run.extra["policy_pair_schedules"] = run.extra.get("policy_pair_schedules", 0) + len(pb)
        if quota and g == "addpath" and rg in (None, g + "-quota"):
            qb = [run.replay["behaviour"]] if run.replay else gen_quota(run)
            traces = run.execute("c01", "pkg/server", "^TestVerifC01$", qb, tag="speaker-addpath-quota", timeout=tmo(qb))
            run.validate("SpeakerTrace", cfg, traces, qb, known_cfg=kcfg, group=g + "-quota")
            run.extra["quota_schedules"] = run.extra.get("quota_schedules", 0) + len(qb)
        if collide and rg in (None, g + "-collide"):
            # the same schedules with every prefix of a table in ONE hash bucket (hook VerifKeyHook of
            # internal/pkg/table): the collision chains are walked by every insert, delete and lookup
            traces = run.execute("c01", "pkg/server", "^TestVerifC01$", behs, tag="speaker-%s-collide" % g,
                                 env={"VERIF_COLLIDE": 1}, timeout=tmo(behs))
            run.validate("SpeakerTrace", cfg, traces, behs, known_cfg=kcfg, group=g + "-collide")
            run.extra["collide_traces"] = run.extra.get("collide_traces", 0) + len(traces)
