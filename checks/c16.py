"""C16 - RPKI origin validation implements RFC 6811 over a correctly maintained ROA table."""
import json
import vpcore as v
from vprun import Run

BASE = """CONSTANTS
  Caches <- CacheNames
  PfxInfo <- PfxTable
"""


def _dedupe(printed, key):
    """TLC -simulate evaluates the Emit invariant on every successor of the last step: keep one
    behaviour per simulated history (same steps but the last)."""
    seen, out = set(), []
    for s in printed:
        o = json.loads(s)
        k = json.dumps(o[key][:-1], sort_keys=True)
        if k in seen:
            continue
        seen.add(k)
        out.append(s)
    return out


def gen_tbl_sets(run, fam, k):
    cfg = "RpkiTblGen_sets_%s_%d.cfg" % (fam, k)
    v.write_cfg(run.sc, cfg, "SPECIFICATION GenSpec\n" + BASE + """  Fix <- NoFix
  Mode = "sets"
  Fam = "%s"
  K = %d
  MaxSteps = 0
INVARIANTS
  EmitSets
""" % (fam, k))
    res = v.tlc(run.sc, "RpkiTblGen", cfg, workers=1, deadlock=False, timeout=900)
    v.require_design_ok(res, "RpkiTblGen sets " + fam)
    if not res.printed:
        raise v.MachineryError("RpkiTblGen printed no ROA sets:\n" + res.out[-2000:])
    return res.printed


def gen_tbl_walks(run, num, steps, seed):
    cfg = "RpkiTblGen_walk_%d.cfg" % seed
    v.write_cfg(run.sc, cfg, "SPECIFICATION GenSpec\n" + BASE + """  Fix <- NoFix
  Mode = "walk"
  Fam = "v4"
  K = 0
  MaxSteps = %d
INVARIANTS
  EmitWalk
""" % steps)
    res = v.tlc(run.sc, "RpkiTblGen", cfg, mode="simulate", simulate="num=%d" % num, depth=steps + 1,
                seed=seed, workers=1, deadlock=False, timeout=600)
    v.require_design_ok(res, "RpkiTblGen walk")
    if not res.printed:
        raise v.MachineryError("RpkiTblGen printed no walks:\n" + res.out[-2000:])
    return _dedupe(res.printed, "ops")


def gen_tbl_dup(run, steps):
    cfg = "RpkiTblGen_dup_%d.cfg" % steps
    v.write_cfg(run.sc, cfg, "SPECIFICATION GenSpec\n" + BASE + """  Fix <- NoFix
  Mode = "dup"
  Fam = "v4"
  K = 0
  MaxSteps = %d
INVARIANTS
  EmitDup
""" % steps)
    res = v.tlc(run.sc, "RpkiTblGen", cfg, workers=1, deadlock=False, timeout=900)
    v.require_design_ok(res, "RpkiTblGen dup")
    if not res.printed:
        raise v.MachineryError("RpkiTblGen printed no duplicate-announcement sequences:\n" + res.out[-2000:])
    return res.printed


def gen_e2e(run, clean, num, steps, seed, focus="wide"):
    cfg = "RpkiGen_%s_%s_%d.cfg" % ("clean" if clean else "free", focus, seed)
    v.write_cfg(run.sc, cfg, "SPECIFICATION GenSpec\n" + BASE + """  Fix <- NoFix
  MaxSteps = %d
  Clean = %s
  Focus = "%s"
INVARIANTS
  Emit
""" % (steps, "TRUE" if clean else "FALSE", focus))
    res = v.tlc(run.sc, "RpkiGen", cfg, mode="simulate", simulate="num=%d" % num, depth=steps + 1,
                seed=seed, workers=1, deadlock=False, timeout=600)
    v.require_design_ok(res, "RpkiGen")
    if not res.printed:
        raise v.MachineryError("RpkiGen printed no behaviours:\n" + res.out[-2000:])
    return _dedupe(res.printed, "steps")[:num]


def staged_validate(run, module, cfg, traces, behs, **kw):
    """Validate in chunks of growing size and stop at the first chunk with a violation: the driver
    finds failing traces one TLC run at a time, so when (nearly) every trace fails - a broken tree -
    validating everything would take hours and add nothing to the verdict."""
    start = 0
    for size in (6, 40, len(traces)):
        chunk = traces[start:start + size]
        if not chunk:
            break
        kw2 = dict(kw)
        if start != 6:
            # the informational conformance run (code == mechanism model) is made on one chunk only:
            # it finds mismatching traces one TLC run at a time
            kw2.pop("conf_cfg", None)
        run.validate(module, cfg, chunk, behs[start:start + size], **kw2)
        start += size
        if run.violations:
            v.log("violation found: skipping the remaining %d trace(s) of this group" % max(0, len(traces) - start))
            return False
    return True


def design(run, thorough):
    # RTR client + table: mechanism => property layer, without the repairs (every stale record
    # carries the signature of a known finding) and with them (strict)
    runs = [("NoFix", "two", '{"c1"}', ["D_C16_Lower", "D_C16_UpperKF", "D_Sandwich", "D_Unconfigured"]),
            ("AllFix", "two", '{"c1"}', ["D_C16_Lower", "D_C16_Upper", "D_Sandwich", "D_Unconfigured"])]
    if thorough:
        runs += [("FixA", "two", '{"c1"}', ["D_C16_Lower", "D_C16_UpperKF"]),
                 ("FixC", "two", '{"c1"}', ["D_C16_Lower", "D_C16_UpperKF"]),
                 ("NoFix", "three", '{"c1"}', ["D_C16_Lower", "D_C16_UpperKF", "D_Sandwich"]),
                 ("AllFix", "three", '{"c1"}', ["D_C16_Lower", "D_C16_Upper", "D_Sandwich"])]
    for fix, recs, caches, invs in runs:
        cfg = "MCRpki_%s_%s.cfg" % (fix, recs)
        v.write_cfg(run.sc, cfg, """SPECIFICATION Spec
CONSTANTS
  Caches = %s
  PfxInfo <- PfxTable
  Fix <- %s
  Recs = "%s"
  Sids = {1, 2}
  Serials = {1, 2}
  MaxQ = 2
INVARIANTS
%s
""" % (caches, fix, recs, "\n".join("  " + i for i in invs)))
        res = v.tlc(run.sc, "MCRpki", cfg, timeout=1500, coverage=thorough, workers=8)
        run.design(res, "MCRpki fix=%s recs=%s" % (fix, recs))
    # validation function: classification walk of the code == RFC 6811 definition
    for fam in ("v4", "v6"):
        k = 3 if thorough and fam == "v6" else 2
        cfg = "MCRpkiVal_%s.cfg" % fam
        v.write_cfg(run.sc, cfg, "SPECIFICATION ValSpec\n" + BASE + """  Fix <- NoFix
  Fam = "%s"
  K = %d
INVARIANTS
  D_C16_ValidateMech
  D_C16_ValidateShape
""" % (fam, k))
        res = v.tlc(run.sc, "MCRpkiVal", cfg, timeout=1500, workers=8, deadlock=False)
        run.design(res, "MCRpkiVal %s sets<=%d" % (fam, k))


def main(run: Run):
    thorough = run.tier == "thorough"
    if not run.replay:
        design(run, thorough)

    # ---- white box: ROATable operations, Validate, policy condition ----
    groups = []
    if run.replay:
        for g in ("tbl-dup", "tbl-sets-v4", "tbl-sets-v6", "tbl-walk"):
            groups.append((g, run.replay_behaviours(g)))
    else:
        k = 3 if thorough else 2
        groups.append(("tbl-dup", gen_tbl_dup(run, 5 if thorough else 4)))
        groups.append(("tbl-sets-v4", gen_tbl_sets(run, "v4", k)))
        groups.append(("tbl-sets-v6", gen_tbl_sets(run, "v6", k)))
        groups.append(("tbl-walk", gen_tbl_walks(run, 400 if thorough else 80, 10 if thorough else 8, run.seed)))
    for g, behs in groups:
        if not behs:
            continue
        traces = run.execute("c16", "internal/pkg/table", "^TestVerifC16$", behs, tag="c16-" + g)
        if not staged_validate(run, "RpkiTblTrace", "RpkiTblTrace.cfg", traces, behs, group=g, batch=1500):
            return

    # ---- end to end: real BgpServer + RTR client against loopback caches ----
    e2e = []
    if run.replay:
        for g in ("e2e-creset", "e2e-twin", "e2e-clean", "e2e-free"):
            e2e.append((g, run.replay_behaviours(g)))
    else:
        e2e.append(("e2e-creset", gen_e2e(run, False, 500 if thorough else 120, 36, run.seed * 10 + 4, focus="creset")))
        e2e.append(("e2e-twin", gen_e2e(run, False, 600 if thorough else 150, 36, run.seed * 10 + 3, focus="twin")))
        e2e.append(("e2e-clean", gen_e2e(run, True, 600 if thorough else 120, 30, run.seed * 10 + 1)))
        e2e.append(("e2e-free", gen_e2e(run, False, 400 if thorough else 100, 30, run.seed * 10 + 2)))
    left = 0
    for g, behs in e2e:
        if not behs:
            continue
        traces = run.execute("c16srv", "pkg/server", "^TestVerifC16Srv$", behs, tag="c16-" + g)
        for t in traces:
            for row in t:
                if row.get("ev") in ("ResetRpki", "DisableRpki") and row.get("ok") and \
                        any(x["c"] == row["c"] for x in row["obs"]["table"]):
                    left += 1
        if not staged_validate(run, "RpkiTrace", "RpkiTrace.cfg", traces, behs, known_cfg="RpkiKF.cfg", group=g,
                               conf_cfg="RpkiConf.cfg", batch=400):
            break
    # informational, not a verdict: the property text does not say that a reset must drop the records
    run.extra["resetrpki_calls_that_left_records_of_the_cache"] = left


RULE = ("(1) white box: every ROA set of <=2 (quick) / <=3 (thorough) records per family over nested v4/v6 "
        "prefixes x 3 max-lengths x AS {0, local, neighbour}, enumerated by TLC, plus TLC -simulate walks of "
        "Add/Delete/DeleteAll from two sources, applied to the real ROATable; verdicts of ROATable.Validate "
        "and of a real policy with rpki-validation-result conditions for a route grid (prefix x origin class: "
        "SEQ, SET, CONFED, empty, AS 0) judged by RpkiTblTrace.tla; non-trivial = distinct table content with "
        "a covering record for some route. (2) end to end: TLC -simulate histories of AddRpki/DeleteRpki/"
        "EnableRpki/DisableRpki/ResetRpki(soft), RTR PDUs of two protocol-abiding loopback caches (cache "
        "response, v4/v6 announce/withdraw incl. duplicates and unknown records, end of data with same/new "
        "session id, serial notify, cache reset, error report), connection loss and route injection, in three "
        "groups (creset: a Serial Query is answered with Cache Reset at any point of a serial-notify history "
        "over three records, the reload keeps or changes the session id, increments go on after it; twin: both "
        "caches serve the same <=2 records of one bucket, re-announce and withdraw them in full and "
        "incremental responses with serial/session resets in between; clean; free), executed "
        "on a real BgpServer; ListRpkiTable/ListPath/policy marks judged by RpkiTrace.tla; non-trivial = "
        "distinct exact table states that are not empty, distinct (route, covering set) verdicts, distinct "
        "policy marks other than not-found")
LEVEL = "model_checking"
ASSUMPTIONS = [
    "caches are protocol-abiding (answer queries in order, prefix PDUs only inside a response, an "
    "incremental response keeps the session id); the content demanded of the table is exact after every "
    "completed response and a sandwich inside a response / while a Reset Query is unanswered",
    "ResetRpki/DisableRpki: the text does not say whether the records are dropped at once; both accepted "
    "until the reload completes (the pinned code keeps them; counted in the evidence, not a verdict)",
    "ROA lifetime expiry (real-time timer, default 3600 s) and caches that refuse connections (30 s retry "
    "sleep) are not exercised",
    "routes are injected through AddPath (no BGP session); validation of routes from real peers shares "
    "ROATable.Validate, exercised white box with explicit local AS",
]
