"""C20 - no data race, deadlock or goroutine leak in any interleaving; clean shutdown."""
import os
import vpcore as v
import speaker_common as sc

CFG = """SPECIFICATION TraceSpec
CONSTANTS
  Peers <- P3
  PInfo <- PI_%(g)s
  Prefixes <- Pfx2
  LocalAS = 65000
CONSTRAINT TraceConstraint
POSTCONDITION TraceAccepted
CHECK_DEADLOCK FALSE
INVARIANTS
%(invs)s
"""

GEN = """SPECIFICATION GSpec
CONSTANTS
  Peers <- P3
  PInfo <- PI_%(g)s
  Prefixes <- Pfx2
  LocalAS = 65000
  MaxSteps = %(steps)d
  WithPolicy = TRUE
  Warm = FALSE
  Chaos = %(chaos)s
INVARIANTS
  Emit
"""

BFD_GEN = """SPECIFICATION GenSpec
CONSTANTS
  Nbrs = {%(nbrs)s}
  Mults = {3, 5}
  Asns = {65001, 65002}
  MaxSteps = %(steps)d
  Mode = "%(mode)s"
INVARIANTS
  Emit
"""

BFD_INVS = ["Gap_OpSucceeded", "C20_BfdHelperSet", "C20_BfdHelperParams", "C20_BfdNoGoroutineLeak"]


def bfd_group(run):
    """BFD session helpers (goroutine + UDP socket per neighbour with BFD enabled): helper lifecycle under
    management histories. Real sockets, so outside the bubble; schedules from BfdRegGen.tla."""
    thorough = run.tier == "thorough"
    if not run.replay:
        res = v.tlc(run.sc, "BfdReg", "MCBfdReg.cfg", timeout=600, coverage=thorough, deadlock=False)
        run.design(res, "BfdReg (BFD helper registry: call-site rules imply the property, 3 neighbours)")
    plans = [("bfd-exh", "check", '"n1"', 4 if not thorough else 5, None, "plain", "{3, 5}"),
             # the peer group: neighbours configured only through it, every history of 3 (4) operations after
             # StartBgp and AddPeerGroup over two members
             ("bfd-grp", "check", '"n1", "n2"', 5 if not thorough else 6, None, "group", "{3}"),
             ("bfd-walk", "simulate", '"n1", "n2", "n3"', 10 if not thorough else 14, 150 if not thorough else 1500, "all", "{3, 5}")]
    for grp, mode, nbrs, steps, num, gmode, mults in plans:
        if run.replay:
            behs = run.replay_behaviours(grp)
        else:
            cfg = "BfdRegGen_%s.cfg" % grp
            v.write_cfg(run.sc, cfg, (BFD_GEN % {"nbrs": nbrs, "steps": steps, "mode": gmode}).replace("Mults = {3, 5}", "Mults = " + mults))
            if mode == "check":
                res = v.tlc(run.sc, "BfdRegGen", cfg, workers=1, deadlock=False, timeout=900)
            else:
                res = v.tlc(run.sc, "BfdRegGen", cfg, mode="simulate", simulate="num=%d" % num, depth=steps + 2,
                            seed=run.seed * 100 + 77, workers=1, deadlock=False, timeout=900)
            v.require_design_ok(res, "BfdRegGen " + grp)
            behs = sorted(set(res.printed)) if mode == "check" else res.printed
        if not behs:
            continue
        traces = run.execute("c20bfd", "pkg/server", "^TestVerifC20Bfd$", behs, tag="c20-" + grp, race=True, timeout=1500)
        run.validate("BfdRegTrace", "BfdRegTrace.cfg", traces, behs, group=grp)


HEALTH = ["C20_NoDataRace", "C20_NoGoroutineLeak", "C20_NoDeadlock", "C20_CallsReturn"]


def gen(run, g, num, seed, steps, chaos):
    cfg = "SpeakerGenC20_%s_%d.cfg" % (g, seed)
    v.write_cfg(run.sc, cfg, GEN % {"g": g, "steps": steps, "chaos": "TRUE" if chaos else "FALSE"})
    res = v.tlc(run.sc, "SpeakerGen", cfg, mode="simulate", simulate="num=%d" % num, depth=steps + 2, seed=seed,
                workers=1, deadlock=False, timeout=900)
    v.require_design_ok(res, "SpeakerGen(C20) " + g)
    return res.printed


def main(run):
    thorough = run.tier == "thorough"
    # design level: the lock protocol model is deadlock free and keeps its lock order
    if not run.replay:
        res = v.tlc(run.sc, "Concurrency", "Concurrency.cfg", timeout=1200, coverage=thorough)
        run.design(res, "Concurrency (lock protocol)")
    bfd_group(run)
    if os.environ.get("VERIF_C20_ONLY") == "bfd":   # development aid: the BFD group alone
        return
    groups = ["rr", "addpath"] if not thorough else ["ebgp3", "mixed", "rr", "addpath"]
    num = 6 if not thorough else 12
    for gi, g in enumerate(groups):
        for chaos in (False, True):
            grp = "%s-%s" % (g, "chaos" if chaos else "plain")
            behs = run.replay_behaviours(grp) if run.replay else gen(run, g, num, run.seed * 100 + gi * 2 + int(chaos), 22, chaos)
            if not behs:
                continue
            for cpu in ([16] if not thorough else [1, 2, 16]):
                racelog = run.sc.path("race-%s-%d" % (grp, cpu))
                traces = run.execute("c01", "pkg/server", "^TestVerifFree$", behs, tag="c20-%s-%d" % (grp, cpu),
                                     race=True, allow_fail=True, allow_short=True, timeout=1500,
                                     env={"GORACE": "log_path=%s halt_on_error=0" % racelog, "VERIF_RACELOG": racelog,
                                          "GOMAXPROCS": cpu})
                invs = HEALTH + ([] if chaos else ["C01_ExportExact", "C01_AddPathExact", "C02_AdjInExact", "C02_LocRibExact"])
                cfg = "SpeakerTraceC20_%s.cfg" % grp
                v.write_cfg(run.sc, cfg, CFG % {"g": g, "invs": "\n".join("  " + x for x in invs)})
                run.validate("SpeakerTrace", cfg, traces, behs[:len(traces)], group=grp)
                # keep the race reports with the evidence of a failing run
                reports = []
                for f in sorted(os.listdir(run.sc.dir)):
                    if f.startswith("race-%s-%d" % (grp, cpu)):
                        reports.append(open(run.sc.path(f)).read()[:20000])
                if reports:
                    run.extra.setdefault("race_reports", []).extend(reports[:2])
                    keep = os.path.join(v.ROOT, "replays", "C20-race-%s-%d.txt" % (grp, cpu))
                    os.makedirs(os.path.dirname(keep), exist_ok=True)
                    open(keep, "w").write("\n".join(reports))


LEVEL = "exploration"
RULE = ("schedules = SpeakerGen.tla walks (sessions, routes, policies, soft resets; 'chaos' variant adds ListPath/ListPeer/"
        "watchers/enable/disable/delete/add peer) split per actor and executed CONCURRENTLY (every neighbour and two API "
        "clients in their own goroutines, injected yields, GOMAXPROCS 1/2/16) on the real BgpServer under the race detector "
        "inside a synctest bubble; per run a Health record (race reports attributed through GORACE log_path, bubble deadlock, "
        "goroutines left after Stop, API calls not returned after 600 virtual seconds) is judged by the C20_* invariants, and "
        "for the non-chaos runs the final settled state by C01/C02. non-trivial = runs whose schedule has >= 3 concurrent actors")
ASSUMPTIONS = ["data races are decided by the Go race detector, not by TLA+; Concurrency.tla contributes the lock-protocol model "
               "(deadlock freedom, lock order) at design level only",
               "a lock deadlock stops the bubble without a panic; it is judged by a wall-clock watchdog from a goroutine dump "
               "(idle process, >= 2 speaker goroutines waiting >= 1 minute for sync locks at >= 2 call sites, no speaker goroutine "
               "in a time/IO dependent wait); a hang that does not meet these conditions ends as a test timeout (exit 2), not as a verdict"]
