"""C10 - policy evaluation equals the documented model and never mutates shared routes."""
import json
import time
import vpcore as v
from vprun import Run

WB = ("c10", "internal/pkg/table", "^TestVerifC10$")
API = ("c10srv", "pkg/server", "^TestVerifC10Srv$")
STRICT, CONF = "PolicyTrace.cfg", "PolicyTraceConf.cfg"
KF = None      # no recorded finding is open: nothing is weakened


def tiny(run, pool, workers):
    """exhaustive pool of tiny programs: design-level check + one schedule per program"""
    cfg = "PolicyMC_%s.cfg" % pool
    v.write_cfg(run.sc, cfg, """SPECIFICATION MCSpec
CONSTANTS
  Pool = "%s"
INVARIANTS
  D_C10_MechWithinDoc
  EmitTiny
""" % pool)
    res = v.tlc(run.sc, "PolicyMC", cfg, workers=workers, timeout=1500)
    run.design(res, "PolicyMC pool=%s (all tiny programs x 6 routes x import/export: code-shaped "
                    "evaluation within the documented readings)" % pool)
    if not res.printed:
        raise v.MachineryError("PolicyMC printed no schedules:\n" + res.out[-2000:])
    return res.printed


def simulate(run, tag, num, steps, evalw, rbevery, avoid, seed, workers=1):
    cfg = "PolicyGen_%s.cfg" % tag
    v.write_cfg(run.sc, cfg, """SPECIFICATION GenSpec
CONSTANTS
  MaxSteps = %d
  EvalWeight = %d
  RbEvery = %s
  Avoid <- %s
INVARIANTS
  Emit
""" % (steps, evalw, "TRUE" if rbevery else "FALSE", avoid))
    # -simulate num=N is per worker
    res = v.tlc(run.sc, "PolicyGen", cfg, mode="simulate", simulate="num=%d" % -(-num // workers), depth=steps + 2,
                seed=seed, workers=workers, deadlock=False, timeout=1500)
    v.require_design_ok(res, "PolicyGen " + tag)
    if res.violated or not res.printed:
        raise v.MachineryError("generator %s failed:\n%s" % (tag, res.out[-2000:]))
    return res.printed


def seeds(run):
    v.write_cfg(run.sc, "PolicySeeds.cfg", "SPECIFICATION SeedSpec\nINVARIANTS\n  EmitSeed\n")
    res = v.tlc(run.sc, "PolicySeeds", "PolicySeeds.cfg", workers=1, timeout=300)
    v.require_design_ok(res, "PolicySeeds")
    if res.violated or not res.printed:
        raise v.MachineryError("PolicySeeds printed nothing:\n" + res.out[-2000:])
    return res.printed


ENOUGH = 3      # violations after which the rest of the run adds nothing (exit 1 either way)


def judge(run, harness, behs, group, cfg=STRICT, known=KF, conf=None, batch=None):
    """execute the schedules on the real code and let TLC judge the traces.  Judged in growing
    chunks and stopped once ENOUGH violations are in hand: every rejected trace costs extra TLC
    runs, so a change that breaks most evaluations must not be judged trace by trace to the end."""
    if not behs or len(run.violations) >= ENOUGH:
        return
    if batch is None:       # few TLC runs when nothing is rejected, cheap re-runs when something is
        batch = max(400, len(behs) // 6)
    t0 = time.time()
    traces = run.execute(harness[0], harness[1], harness[2], behs, tag="c10-" + group)
    t1 = time.time()
    rejected, done, a = 0, 0, 0
    for size in (40, len(traces)):
        b = min(len(traces), a + size)
        if a >= b or len(run.violations) >= ENOUGH:
            break
        val = run.validate("PolicyTrace", cfg, traces[a:b], behs[a:b], known_cfg=known, group=group,
                           conf_cfg=conf, batch=batch)
        rejected += len(val.failures)
        done = b
        a = b
    v.log("%s: %d traces executed in %.1fs, %d judged in %.1fs (%d rejected under %s)"
          % (group, len(traces), t1 - t0, done, time.time() - t1, rejected, cfg))


def main(run: Run):
    thorough = run.tier == "thorough"
    if run.replay:
        g = run.replay.get("group") or ""
        behs = run.replay_behaviours(g)
        harness = API if g.startswith("api") else WB
        judge(run, harness, behs, g, cfg=run.replay.get("cfg") or STRICT, batch=1)
        return
    w = v.NCPU if thorough else 4
    s = run.seed * 1000

    # 1. exhaustive tiny programs: design level + every program executed on the real code
    for pool in ["alias", "a1", "seq", "c2"] + (["c2x"] if thorough else []):
        behs = tiny(run, pool, w)
        judge(run, WB, behs, "tiny-" + pool, conf=CONF if thorough and pool != "c2x" else None)

    # 2. programs built by behaviours (config actions interleaved with Evaluate), white box.
    #    All nine findings recorded while this check was built are repaired in /repo: nothing is
    #    excluded from the generation any more (Avoid <- NoAvoid) and everything is judged strictly.
    behs = simulate(run, "wb", 3000 if thorough else 400, 40 if thorough else 30, 8, False,
                    "NoAvoid", s + 1, workers=w if thorough else 1)
    judge(run, WB, behs, "wb")

    # 3. config actions through the public API of a running server, read back after every step
    behs = simulate(run, "api", 1000 if thorough else 150, 20 if thorough else 16, 0, True,
                    "NoAvoid", s + 2, workers=w if thorough else 1)
    judge(run, API, behs, "api")

    # 4. regression seeds: one directed schedule per repaired finding (spec/PolicySeeds.tla), on
    #    both harnesses, strict invariants
    sd = seeds(run)
    judge(run, WB, sd, "seeds-wb")
    judge(run, API, sd, "seeds-api")


RULE = ("(1) exhaustive: every tiny program of a pool (<= 2 statements, <= 2 conditions each, <= 1 modification, "
        "either default) is built through the config API and evaluated on 6 routes for import and export; "
        "(2) TLC -simulate behaviours build programs by random valid config actions (add/remove/replace set "
        "members, add/merge/cut/delete statements, add/delete policies, set/add/delete assignments) interleaved "
        "with Evaluate events on random routes; every Evaluate builds one stored path with spare slice capacity "
        "and applies the policy for two (direction, peer) pairs from it; (3) the same config behaviours through "
        "the public API of a running BgpServer with a full List* read-back after every step. Every recorded "
        "step is judged by PolicyTrace.tla. non-trivial = an Evaluate in which at least one statement applied "
        "to the route (counted by distinct (route, peers, statement lists))")
LEVEL = "model_checking"
ASSUMPTIONS = [
    "the transcription of docs/sources/policy.md in Policy.tla (Eval) and the Go projections in harness/c10*",
    "where the document is silent both readings are accepted (AmbSpace) or the evaluation is not judged (und)",
    "AS_PATH conditions only in the shapes ^AS_ _AS$ _AS_ ^AS$; community conditions by exact value; no free-form regular expressions",
    "the nine findings recorded while the check was built are repaired in /repo (known_findings.jsonl: fixed); "
    "nothing is weakened or excluded any more, their directed seeds run as strict regression seeds",
]
