#!/usr/bin/env python3
"""tools/confirmseed.py <id> <pkgdir> <run-regex>: confirm a seeded change independently of its author in a scratch
worktree of /repo's HEAD: patch applies, tree builds, demonstration FAILS with the change and PASSES without it, the
pinned tests of the touched packages (+ pkg/server in a private network namespace) stay green with the change.
Result is recorded in seeded/<id>/meta.json under "confirmed"."""
import json, os, re, subprocess, sys, tempfile, time
sid, pkg, runre = sys.argv[1:4]
seed = "/verif/seeded/" + sid
env = dict(os.environ, GOFLAGS="-mod=mod", GOPROXY="off")
env.pop("GOSUMDB", None)
wt = tempfile.mkdtemp(prefix="confirm-%s-" % sid, dir="/tmp"); os.rmdir(wt)
def sh(cmd, **kw):
    p = subprocess.run(cmd, shell=True, cwd=wt, env=env, stdout=subprocess.PIPE, stderr=subprocess.STDOUT, **kw)
    return p.returncode, p.stdout.decode("utf-8", "replace")
subprocess.check_call(["git", "-C", "/repo", "worktree", "add", "-q", wt, "HEAD"])
res = {"at": time.strftime("%Y-%m-%dT%H:%M:%SZ", time.gmtime()), "repo_head": subprocess.check_output(["git", "-C", "/repo", "rev-parse", "--short", "HEAD"]).decode().strip()}
try:
    rc, out = sh("git apply %s/patch.diff" % seed); res["applies"] = rc == 0
    rc, out = sh("go build ./... && go vet ./%s/" % pkg); res["builds"] = rc == 0
    txt = open(seed + "/demo_test.go.txt").read()
    parts = re.split(r"^// ===== FILE.*$", txt, flags=re.M)
    body = parts[-1] if len(parts) > 1 else txt          # several files: the last one (no build tag) is used
    if "package " not in body.split("import")[0]:
        body = "package %s\n" % os.path.basename(pkg) + body
    demo = os.path.join(wt, pkg, "zz_seed_demo_test.go")
    open(demo, "w").write(body)
    ns = 'unshare -n sh -c "ip link set lo up && %s"'
    cmd = "go test -count=1 -vet=off -run '%s' ./%s/" % (runre, pkg)
    rc1, out1 = sh(ns % cmd, timeout=900); res["demo_with_change"] = "FAIL" if rc1 != 0 else "ok"
    sh("git apply -R %s/patch.diff" % seed)
    rc2, out2 = sh(ns % cmd, timeout=900); res["demo_without_change"] = "FAIL" if rc2 != 0 else "ok"
    sh("git apply %s/patch.diff" % seed); os.remove(demo)
    touched = sorted({os.path.dirname(m) for m in re.findall(r"^\+\+\+ b/(\S+)", open(seed + "/patch.diff").read(), re.M)})
    pk = sorted(set(touched + ["internal/pkg/table", "pkg/packet/bgp", "pkg/server"]))
    rc3, out3 = sh(ns % ("go test -count=1 -vet=off " + " ".join("./%s/" % p for p in pk)), timeout=1800)
    res["pinned_tests_with_change"] = {"packages": pk, "result": "ok" if rc3 == 0 else "FAIL"}
    res["confirmed"] = bool(res["applies"] and res["builds"] and rc1 != 0 and rc2 == 0 and rc3 == 0)
    if not res["confirmed"]:
        res["detail"] = (out1[-600:] if rc1 == 0 else "") + (out2[-1500:] if rc2 != 0 else "") + (out3[-1500:] if rc3 != 0 else "")
finally:
    subprocess.call(["git", "-C", "/repo", "worktree", "remove", "--force", wt])
m = json.load(open(seed + "/meta.json")); m["confirmed"] = res
json.dump(m, open(seed + "/meta.json", "w"), indent=1)
print(sid, json.dumps(res)[:600])
