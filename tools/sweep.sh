#!/bin/sh
# tools/sweep.sh <seed> [tier] [ids...]: run the checks one after the other on /repo, print exit status and wall time
cd /verif
seed=${1:-1}; tier=${2:-quick}; shift 2 2>/dev/null
ids="$@"; [ -z "$ids" ] && ids=$(python3 -c "import json; print(' '.join(c['property_id'] for c in json.load(open('MANIFEST.json'))['checks']))")
mkdir -p /tmp/t1/sweep
for c in $ids; do
  t0=$(date +%s)
  VERIF_SEED=$seed ./check $c --tier $tier > /tmp/t1/sweep/$c-$seed-$tier.log 2>&1; rc=$?
  t1=$(date +%s)
  echo "$c seed=$seed tier=$tier rc=$rc wall=$((t1-t0))s $(grep -c KNOWN-FINDING /tmp/t1/sweep/$c-$seed-$tier.log) kf $(grep -c '^VIOLATION' /tmp/t1/sweep/$c-$seed-$tier.log) viol"
done
