#!/bin/sh
# tools/seedtest.sh <seed-dir containing patch.diff> <check id>...
# Applies a seeded change to a scratch worktree of /repo's HEAD and runs the given checks against
# it (VERIF_REPO), then removes the worktree. /repo itself is not touched (other work uses it).
set -e
seed="$(cd "$1" && pwd)"; shift
wt=$(mktemp -d /tmp/seedwt-XXXXXX); rmdir "$wt"
git -C /repo worktree add -q "$wt" HEAD
if ! git -C "$wt" apply "$seed/patch.diff"; then echo "PATCH DOES NOT APPLY"; git -C /repo worktree remove --force "$wt"; exit 3; fi
(cd "$wt" && GOFLAGS=-mod=mod GOPROXY=off go build ./... ) || { echo "DOES NOT BUILD"; git -C /repo worktree remove --force "$wt"; exit 3; }
for c in "$@"; do
  set +e
  VERIF_MAX_REJECTED="${VERIF_MAX_REJECTED:-40}" VERIF_REPO="$wt" /verif/check "$c" > "$wt.out" 2>&1; rc=$?
  set -e
  grep "VIOLATION\|KNOWN-FINDING\|MACHINERY" "$wt.out" | cut -c1-160 | head -4
  echo "seedtest $(basename $seed) check $c rc=$rc"
  rm -f "$wt.out"
done
git -C /repo worktree remove --force "$wt"
