#!/usr/bin/env python3
"""Rebuild MANIFEST.json from tools/manifest_base.json + manifest_entries/*.json.
Every property without an entry is listed under not_applicable with the reason in
tools/not_applicable.json (or 'not yet claimed')."""
import json, os, glob
ROOT = os.path.dirname(os.path.dirname(os.path.abspath(__file__)))
base = json.load(open(os.path.join(ROOT, "tools", "manifest_base.json")))
props = [json.loads(l)["id"] for l in open(os.path.join(ROOT, "properties.jsonl"))]
na = json.load(open(os.path.join(ROOT, "tools", "not_applicable.json")))
checks = {}
for f in sorted(glob.glob(os.path.join(ROOT, "manifest_entries", "*.json"))):
    e = json.load(open(f))
    checks[e["property_id"]] = e
base["checks"] = [checks[p] for p in props if p in checks]
base["not_applicable"] = [{"property_id": p, "reason": na.get(p, "check under construction in this commit - not claimed yet (DESIGN.md section 8 gives the order of work)")}
                          for p in props if p not in checks]
for e in base.get("engines", []):
    e["serves_properties"] = [p for p in props if p in checks]
json.dump(base, open(os.path.join(ROOT, "MANIFEST.json"), "w"), indent=1)
print("claimed:", [p for p in props if p in checks])
