#!/bin/sh
# tools/seedsweep.sh [ids...]: run every seeded change (or the named ones) against its property's check
# on a scratch worktree of /repo's HEAD; writes seeded/RESULTS.md (one line per seed: exit status, invariants)
cd /verif
ids="$@"; [ -z "$ids" ] && ids=$(ls seeded | grep -E '^C[0-9]+[a-z]$')
out=seeded/RESULTS.md.new
echo "# seeded changes vs checks: /repo $(git -C /repo rev-parse --short HEAD), /verif $(git rev-parse --short HEAD), $(date -u +%FT%TZ)" > $out
echo "" >> $out
echo "| seed | check | exit | invariants reported |" >> $out
echo "|---|---|---|---|" >> $out
for id in $ids; do
  c=$(echo $id | cut -c1-3)
  # changes that the check of ANOTHER property rejects (seeded/<id>/meta.json, field verif.check)
  case $id in C10d) c=C13;; C02d) c=C12;; C01e) c=C03;; esac
  log=$(mktemp)
  tools/seedtest.sh seeded/$id $c > $log 2>&1
  rc=$(grep -o "rc=[0-9]*" $log | tail -1)
  invs=$(grep -o "invariant=[A-Za-z0-9_]*" $log | sort | uniq -c | awk '{printf "%s x%s ", $2, $1}' | sed 's/invariant=//g')
  mach=$(grep -c MACHINERY $log)
  [ "$mach" != "0" ] && invs="$invs (machinery error)"
  echo "| $id | $c | $rc | $invs |" >> $out
  rm -f $log
done
mv $out seeded/RESULTS.md
cat seeded/RESULTS.md
