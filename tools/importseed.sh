#!/bin/sh
# tools/importseed.sh <id> <worktree>: keep a seeding agent's deliverables under seeded/<id>/ and remove its worktree
set -e
id=$1; wt=$2
mkdir -p /verif/seeded/$id
cp $wt/SEED/patch.diff /verif/seeded/$id/patch.diff
cp $wt/SEED/meta.json /verif/seeded/$id/meta.json
cp $wt/SEED/demo_test.go.txt /verif/seeded/$id/ 2>/dev/null || cp $wt/SEED/demo* /verif/seeded/$id/
git -C /repo worktree remove --force $wt
echo imported $id
