#!/usr/bin/env python3
"""tools/explain.py <replay.json>: re-validate the recorded trace of a replay file with an ALIAS
that shows expected vs observed values at the failing step (debugging aid, not a check)."""
import json, os, re, sys
sys.path.insert(0, os.path.join(os.path.dirname(os.path.abspath(__file__)), "..", "lib"))
import vpcore as v

r = json.load(open(sys.argv[1]))
sc = v.Scratch("explain")
try:
    v.prepare_specs(sc)
    cfg = open(sc.path("spec", r["cfg"])).read() if os.path.exists(sc.path("spec", r["cfg"])) else None
    if cfg is None:
        # cfgs written at run time: rebuild from the generic one of the group
        import glob
        cands = glob.glob(sc.path("spec", r["module"] + "_*" + str(r.get("group") or "") + "*.cfg"))
        cfg = open(cands[0]).read()
    cfg += "\nALIAS Explain\n"
    v.write_cfg(sc, "explain.cfg", cfg)
    v.write_ndjson(sc.path("spec", "trace.ndjson"), r["trace"])
    res = v.tlc(sc, r["module"], "explain.cfg", workers=1, deadlock=False)
    for row in r["trace"][1:]:
        print("  ", row["ev"], row.get("p", ""), row.get("x", ""), json.dumps(row.get("r", "")) if row.get("r") else "")
    for viol in res.violated[:1]:
        print("VIOLATED", viol["name"])
        print(viol["states"][-1])
    if not res.violated:
        print(res.out[-3000:])
finally:
    sc.cleanup()
