#!/bin/sh
# Build the framework from files on disk only (offline): parse every spec, byte-compile the
# driver, warm the Go build cache for the packages the harnesses are compiled into.
set -e
cd "$(dirname "$0")"
python3 -m compileall -q lib checks check >/dev/null 2>&1 || true
python3 lib/setup.py
