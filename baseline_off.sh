#!/bin/sh
# The repository's own test suite with the `verif` build tag OFF (hooks compiled out).
cd /repo || exit 2
export GOFLAGS=-mod=mod GOPROXY=off
GO=/root/go/pkg/mod/golang.org/toolchain@v0.0.1-go1.25.0.linux-amd64/bin/go
if [ -x "$GO" ]; then export GOTOOLCHAIN=local; else GO=go; fi
exec "$GO" test -json -vet=off -count=1 -timeout 25m ./...
