import os, subprocess, sys, glob, shutil
sys.path.insert(0, os.path.dirname(os.path.abspath(__file__)))
import vpcore as v

def main():
    sc = v.Scratch("setup")
    try:
        d = v.prepare_specs(sc)
        bad = 0
        warn = 0
        mods = sorted(f[:-4] for f in os.listdir(d) if f.endswith(".tla"))
        for m in mods:
            p = subprocess.run(["java", "-cp", v.JAR + ":" + v.CMJAR, "tla2sany.SANY", m + ".tla"],
                               cwd=d, stdout=subprocess.PIPE, stderr=subprocess.STDOUT)
            out = p.stdout.decode("utf-8", "replace")
            if p.returncode != 0 or "*** Errors" in out or "Fatal errors" in out:
                print("SANY FAILED (warning, module may be under construction):", m, out[-600:])
                warn += 1
        print("sany: %d modules parsed, %d failed" % (len(mods), warn))
        # warm go build cache (harness packages, with the verif tag and the overlay)
        groups = {}
        for h in sorted(os.listdir(v.HARNESS)):
            pf = os.path.join(v.HARNESS, h, "PACKAGE")
            if os.path.exists(pf):
                groups.setdefault(open(pf).read().strip(), {})[h] = open(pf).read().strip()
        for pkg, m in groups.items():
            ov = v.overlay_for(sc, m)
            rc, out = v.go_test(sc, pkg, ov, "^$", timeout=1500)
            if rc != 0:
                print("go build of harness for %s failed:\n%s" % (pkg, out[-3000:]))
                bad += 1
        sys.exit(1 if bad else 0)
    finally:
        sc.cleanup()

main()
