"""Per-run state shared by the property checks: scratch, tiers, design results, executing
behaviours on the real code, validating traces, violations / known findings, evidence."""
import hashlib
import json
import os
import time
import vpcore as v


class Run:
    def __init__(self, prop, tier, seed, replay=None):
        self.prop = prop
        self.tier = tier
        self.seed = seed
        self.replay = replay          # dict loaded from a replay file, or None
        self.sc = v.Scratch(prop)
        v.prepare_specs(self.sc)
        self.t0 = time.time()
        self.states = 0
        self.transitions = 0
        self.design_runs = []
        self.traces_validated = 0
        self.events_validated = 0
        self.samples = []
        self.violations = []          # dict(inv, replay, group)
        self.known_hits = {}          # finding id -> count
        self.gaps = []
        self.conf_mismatch = 0
        self.nontrivial = set()
        self.evaluations = 0
        self.extra = {}
        self.known, self.fixed = v.load_known()
        self.overlay_cache = {}

    # ---- design level -------------------------------------------------------------
    def design(self, res, what, expect_violation=None):
        v.require_design_ok(res, what)
        if res.violated:
            names = [x["name"] for x in res.violated]
            raise v.MachineryError(
                "design-level counterexample in %s: %s (a model result, not a verdict about the "
                "code; the model must be corrected or the counterexample replayed)\n%s"
                % (what, names, res.out[-3000:]))
        self.states += res.distinct
        self.transitions += res.generated
        self.design_runs.append({"what": what, "distinct": res.distinct, "generated": res.generated,
                                 "depth": res.depth, "wall_s": round(res.wall, 1),
                                 "zero_coverage_actions": sorted(k for k, c in res.coverage.items() if c[1] == 0)})
        v.log("design %s: %d distinct / %d generated in %.1fs" % (what, res.distinct, res.generated, res.wall))

    # ---- execution on the real code -----------------------------------------------
    COMMON = {"internal/pkg/table": "tablecommon", "pkg/server": "servercommon",
              "pkg/packet/bgp": "bgpcommon"}

    def overlay(self, hname, pkgdir):
        """hname: harness subdir (or list of subdirs) compiled into pkgdir, together with the
        shared helper dir of that package when it exists."""
        names = [hname] if isinstance(hname, str) else list(hname)
        c = self.COMMON.get(pkgdir)
        if c and c not in names and os.path.isdir(os.path.join(v.HARNESS, c)):
            names.append(c)
        k = (tuple(names), pkgdir)
        if k not in self.overlay_cache:
            self.overlay_cache[k] = v.overlay_for(self.sc, {n: pkgdir for n in names})
        return self.overlay_cache[k]

    def execute(self, hname, pkgdir, runre, behaviours, tag, env=None, race=False, timeout=1200, allow_fail=False,
                allow_short=False):
        """behaviours: list of JSON strings (one schedule each). Returns list of traces
        (each a list of rows), in the same order as the behaviours."""
        inp = self.sc.path("%s-in.ndjson" % tag)
        outp = self.sc.path("%s-out.ndjson" % tag)
        with open(inp, "w") as f:
            for b in behaviours:
                f.write(b if isinstance(b, str) else json.dumps(b))
                f.write("\n")
        if os.path.exists(outp):
            os.remove(outp)
        e = {"VERIF_IN": inp, "VERIF_OUT": outp, "VERIF_SEED": self.seed}
        if env:
            e.update(env)
        rc, out = v.go_test(self.sc, pkgdir, self.overlay(hname, pkgdir), runre, e, race=race,
                            timeout=timeout)
        if rc != 0 and ("panic: test timed out" in out or "SIGQUIT: quit" in out) and not allow_fail:
            # a deterministic (directed) harness that ran into its timeout is run once more: twice a run of a
            # server harness was seen stuck for minutes in "GC assist wait" inside a bubble (not reproducible
            # with the same input; no verdict is ever derived from a run that did not finish)
            keep = os.path.join(v.ROOT, "replays", "%s-harness-%s-timeout.log" % (self.prop, tag))
            os.makedirs(os.path.dirname(keep), exist_ok=True)
            with open(keep, "w") as f:
                f.write(out)
            v.log("harness timed out (output kept in %s); running it once more" % keep)
            if os.path.exists(outp):
                os.remove(outp)
            rc, out = v.go_test(self.sc, pkgdir, self.overlay(hname, pkgdir), runre, e, race=race,
                                timeout=timeout)
        self.last_go_output = out
        if (rc != 0 and not allow_fail) or not os.path.exists(outp):
            # keep the whole output of a failed harness run (goroutine dumps are long)
            keep = os.path.join(v.ROOT, "replays", "%s-harness-%s.log" % (self.prop, tag))
            os.makedirs(os.path.dirname(keep), exist_ok=True)
            with open(keep, "w") as f:
                f.write(out)
            v.log("harness failed: full output in " + keep)
            raise v.MachineryError("harness failed (rc=%s) %s %s:\n%s\n[...]\n%s" % (rc, pkgdir, runre, out[:3000], out[-3000:]))
        if "no tests to run" in out:
            raise v.MachineryError("harness test %s not found in %s" % (runre, pkgdir))
        traces = v.split_traces(v.read_ndjson(outp))
        if allow_short and 0 < len(traces) <= len(behaviours) and traces[-1] and traces[-1][-1].get("ev") != "Health":
            # the process died in the middle of a behaviour whose rows are already on disk. The only death
            # that is taken as an observation is the Go runtime's own race verdict; it is recorded by the
            # driver because the harness cannot record its own death. Anything else stays a dead driver.
            if "fatal error: concurrent map" in out:
                msg = [ln for ln in out.splitlines() if "fatal error: concurrent map" in ln][0]
                traces[-1].append({"ev": "Health", "races": 1, "leak": False, "deadlock": False, "stuck": 0,
                                   "panic": msg.strip()})
                v.log("harness process ended by the runtime (%s) in behaviour %d of %d" % (msg.strip(), len(traces), len(behaviours)))
                return traces
        if allow_short and 0 < len(traces) < len(behaviours):
            # the harness may end the process on purpose after a behaviour that dead-locks (it cannot be
            # abandoned inside the process); it says so in the Health record that ends the last trace
            lastrow = traces[-1][-1] if traces[-1] else {}
            if lastrow.get("ev") == "Health" and lastrow.get("deadlock") is True:
                v.log("harness stopped after behaviour %d of %d (deadlock verdict)" % (len(traces), len(behaviours)))
                return traces
        if len(traces) != len(behaviours):
            raise v.MachineryError("dead driver: %d behaviours but %d traces\n%s\n[...]\n%s"
                                   % (len(behaviours), len(traces), out[:2500], out[-2500:]))
        return traces

    def replay_behaviours(self, group):
        if not self.replay:
            return None
        if self.replay.get("group") != group:
            return []
        return [self.replay["behaviour"]]

    # ---- validation ---------------------------------------------------------------
    def validate(self, module, cfg, traces, behaviours, known_cfg=None, group=None, conf_cfg=None,
                 reexec=None, nontrivial_fn=None, deque=False, batch=2000):
        val = v.validate_traces(self.sc, module, cfg, traces, deque=deque, batch=batch)
        self.traces_validated += val.traces
        self.events_validated += val.events
        self.evaluations += val.events
        self.extra["nontrivial_counted"] = self.extra.get("nontrivial_counted", 0) + sum(val.nontrivial.values())
        self.states += val.states
        self.transitions += val.generated
        if traces and len(self.samples) < 3:
            self.samples.append({"group": group, "trace": traces[0][:6]})
        for ti, off, line in val.gaps:
            self.gaps.append({"group": group, "trace_index": ti, "line": off, "event": line})
        failed = {}
        for ti, inv, off in val.failures:
            if not inv.startswith("C"):
                # Gap_* / Conf_* invariants are harness-sanity checks, not property verdicts
                self.gaps.append({"group": group, "trace_index": ti, "line": off, "invariant": inv,
                                  "event": traces[ti][off] if off < len(traces[ti]) else None})
                continue
            failed.setdefault(ti, []).append((inv, off))
        for ti, lst in failed.items():
            inv, off = lst[0]
            kf = None
            if known_cfg and os.path.exists(self.sc.path("spec", known_cfg)):
                kv = v.validate_traces(self.sc, module, known_cfg, [traces[ti]])
                if not kv.failures and not kv.gaps:
                    kf = self.match_known_inv(inv)
            if kf:
                self.known_hits[kf["id"]] = self.known_hits.get(kf["id"], 0) + 1
                continue
            payload = {"property": self.prop, "group": group, "invariant": inv, "line": off,
                       "behaviour": behaviours[ti] if behaviours else None,
                       "trace": traces[ti], "seed": self.seed, "module": module, "cfg": cfg}
            self.violations.append({"inv": inv, "payload": payload, "group": group})
        if conf_cfg and os.path.exists(self.sc.path("spec", conf_cfg)):
            ok = [t for i, t in enumerate(traces) if i not in failed]
            cv = v.validate_traces(self.sc, module, conf_cfg, ok)
            self.conf_mismatch += len(cv.failures)
            self.states += cv.states
        return val

    def match_known_inv(self, inv):
        for k in self.known:
            if k["property"] == self.prop and inv in k.get("invariants", []):
                return k
        return None

    def count_nontrivial(self, keys):
        for k in keys:
            self.nontrivial.add(k)

    # ---- finishing ----------------------------------------------------------------
    def finish(self, mod):
        wall = time.time() - self.t0
        if self.gaps:
            g = self.gaps[0]
            raise v.MachineryError("conformance gap (no spec action matches) in %d trace(s); first: %s"
                                   % (len(self.gaps), json.dumps(g)[:1500]))
        # known findings
        for k in self.known:
            if k["property"] == self.prop and self.known_hits.get(k["id"]):
                print("KNOWN-FINDING: property=%s %s [%s; %d trace(s) this run]"
                      % (self.prop, k["what"], k["id"], self.known_hits[k["id"]]))
        out = []
        seen = set()
        for viol in self.violations:
            p = v.save_replay(self.prop, viol["payload"])
            if p in seen:
                continue
            seen.add(p)
            out.append((viol["inv"], p))
        level = getattr(mod, "LEVEL", "model_checking")
        cov = {
            "states": int(self.states), "transitions": int(self.transitions),
            "traces_validated_against_impl": int(self.traces_validated),
            "samples": self.samples[:3] or [{"note": "no trace"}],
            "evaluations": int(self.evaluations),
            "distinct_nontrivial": int(len(self.nontrivial) + self.extra.get("nontrivial_counted", 0)),
            "rule": getattr(mod, "RULE", ""),
            "design_runs": self.design_runs,
            "events_validated": int(self.events_validated),
            "conformance_mismatches_informational": int(self.conf_mismatch),
            "known_finding_hits": self.known_hits,
            "exhaustive": False,
        }
        cov.update({k: val for k, val in self.extra.items() if k != "nontrivial_counted"})
        if self.traces_validated == 0:
            raise v.MachineryError("no trace of the implementation was validated")
        # a replay run re-checks one schedule, a run against another tree (VERIF_REPO: seeded change, repair under
        # test) does not describe /repo: neither rewrites the evidence file
        if not self.replay and os.path.realpath(v.REPO) == "/repo":
            v.write_evidence(self.prop, self.tier, self.seed, level, cov, wall, len(out),
                             getattr(mod, "ASSUMPTIONS", []))
        for inv, p in out[:20]:
            print("VIOLATION property=%s replay=%s invariant=%s" % (self.prop, p, inv))
        return 1 if out else 0
