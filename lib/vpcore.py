"""Core of the /verif check driver: TLC runs, behaviour generation, Go harness runs through
`go test -overlay`, TLC trace validation, known findings, evidence.

Verdict rules (DESIGN.md 2.6/2.7):
  * a property verdict is ONLY made by TLC validating a trace recorded from the real code
    against spec/trace/*Trace.tla (a named invariant Cxx_* fails => candidate violation);
  * "no action matches" / postcondition TraceAccepted false => conformance gap => exit 2;
  * build failure, timeout, dead driver => exit 2 (MachineryError), never a VIOLATION line.
"""
import hashlib
import json
import os
import re
import shutil
import subprocess
import sys
import tempfile
import time

ROOT = os.path.dirname(os.path.dirname(os.path.abspath(__file__)))
REPO = os.environ.get("VERIF_REPO", "/repo")
SPEC = os.path.join(ROOT, "spec")
HARNESS = os.path.join(ROOT, "harness")
JAR = "/opt/veriftools/tla/tla2tools.jar"
CMJAR = "/opt/veriftools/tla/CommunityModules-deps.jar"
GO125 = "/root/go/pkg/mod/golang.org/toolchain@v0.0.1-go1.25.0.linux-amd64/bin/go"
NCPU = os.cpu_count() or 4


class MachineryError(Exception):
    """Anything that is not a verdict: exit 2."""


def log(*a):
    print("[verif]", *a, file=sys.stderr, flush=True)


# ---------------------------------------------------------------------------------------
# environment

def go_env():
    e = dict(os.environ)
    e["GOFLAGS"] = "-mod=mod"
    e["GOPROXY"] = "off"
    e.pop("GOSUMDB", None)
    e.pop("GONOSUMDB", None)
    if os.path.exists(GO125):
        e["GOTOOLCHAIN"] = "local"
        e["PATH"] = os.path.dirname(GO125) + os.pathsep + e.get("PATH", "")
    else:
        e["GOTOOLCHAIN"] = "auto"
    e.setdefault("GOCACHE", "/root/.cache/go-build")
    return e


def go_bin():
    return GO125 if os.path.exists(GO125) else "go"


class Scratch:
    """Scratch directory outside /repo and /verif, removed on exit."""

    def __init__(self, tag):
        base = os.environ.get("VERIF_SCRATCH", tempfile.gettempdir())
        self.dir = tempfile.mkdtemp(prefix="verif-%s-" % tag, dir=base)

    def path(self, *p):
        return os.path.join(self.dir, *p)

    def cleanup(self):
        if os.environ.get("VERIF_KEEP"):
            log("keeping scratch", self.dir)
            return
        shutil.rmtree(self.dir, ignore_errors=True)


# ---------------------------------------------------------------------------------------
# TLC

class TlcResult:
    def __init__(self):
        self.out = ""
        self.rc = None
        self.generated = 0
        self.distinct = 0
        self.depth = 0
        self.violated = []      # list of dict(kind, name, state=text of last state, trace=[...])
        self.post_failed = False
        self.errors = []        # TLC errors that are not invariant violations
        self.coverage = {}      # action -> (distinct, total) when -coverage was given
        self.wall = 0.0
        self.printed = []       # PrintT payload lines (JSON strings)

    @property
    def ok(self):
        return not self.violated and not self.errors and not self.post_failed


_state_hdr = re.compile(r"^State (\d+): ")


def _parse_tlc(out, res):
    m = None
    for m in re.finditer(r"^(\d+) states generated, (\d+) distinct states found", out, re.M):
        pass
    if m:
        res.generated, res.distinct = int(m.group(1)), int(m.group(2))
    m = re.search(r"The depth of the complete state graph search is (\d+)", out)
    if m:
        res.depth = int(m.group(1))
    # split error blocks
    lines = out.split("\n")
    i = 0
    cur = None
    while i < len(lines):
        ln = lines[i]
        mi = re.match(r"^Error: Invariant (\S+) is violated", ln)
        ma = re.match(r"^Error: Action property (\S+) is violated", ln)
        mt = re.match(r"^Error: Temporal properties were violated", ln)
        if mi or ma or mt:
            cur = {"kind": "invariant" if mi else ("action" if ma else "temporal"),
                   "name": (mi or ma).group(1) if (mi or ma) else "temporal",
                   "states": []}
            res.violated.append(cur)
        elif ln.startswith("Error: ") and "The behavior up to this point" not in ln \
                and "The following behavior constitutes" not in ln:
            if "Postcondition" in ln or "POSTCONDITION" in ln or "postcondition" in ln:
                res.post_failed = True
            elif re.match(r"^Error: (Deadlock reached|TLC threw|Evaluating|The |In evaluation|"
                          r"Attempted|Parsing|Unknown|Semantic|The invariant|Assumption|"
                          r"Found|java|Couldn't|Invariant .* is not|Action property .* is not)", ln):
                res.errors.append(ln)
                cur = None
            else:
                res.errors.append(ln)
                cur = None
        elif _state_hdr.match(ln) and cur is not None:
            st = []
            i += 1
            while i < len(lines) and lines[i].strip() != "":
                st.append(lines[i])
                i += 1
            cur["states"].append("\n".join(st))
            continue
        i += 1
    for ln in lines:
        if ln.startswith('"VPOUT '):
            # PrintT of a string: "VPOUT {...}" with TLA escaping
            try:
                s = json.loads(ln)      # TLA string escapes are JSON-compatible for our payloads
                res.printed.append(s[len("VPOUT "):])
            except Exception:
                pass
        elif ln.startswith("VPOUT "):
            res.printed.append(ln[len("VPOUT "):])


def tlc(sc, module, cfg, mode="check", workers=None, timeout=600, simulate=None, depth=None,
        seed=None, coverage=False, deque=False, cont=False, extra=None, xmx="12g", deadlock=True,
        subdir="spec"):
    """Run TLC on <scratch>/<subdir>/<module>.tla with config cfg (file name in the same dir).
    deadlock=False disables deadlock checking (-deadlock flag)."""
    d = sc.path(subdir)
    meta = tempfile.mkdtemp(prefix="meta-", dir=sc.dir)
    # java.io.tmpdir inside the scratch dir: TLC leaves an empty tlc-<n> directory there per run
    props = ["-Xss512m", "-Xmx" + xmx, "-XX:+UseParallelGC", "-Djava.io.tmpdir=" + meta]
    if deque:
        props.append("-Dtlc2.tool.queue.IStateQueue=StateDeque")
    cmd = ["java"] + props + ["-cp", JAR + ":" + CMJAR, "tlc2.TLC", "-metadir", meta,
                                "-config", cfg]
    if workers is None:
        workers = NCPU
    cmd += ["-workers", str(workers)]
    if not deadlock:
        cmd.append("-deadlock")
    if mode == "simulate":
        s = "-simulate"
        cmd.append(s)
        if simulate:
            cmd.append(simulate)
        if depth:
            cmd += ["-depth", str(depth)]
    if seed is not None:
        cmd += ["-seed", str(seed)]
    if coverage:
        cmd += ["-coverage", "1"]
    if cont:
        cmd.append("-continue")
    if extra:
        cmd += list(extra)
    cmd.append(module)
    res = TlcResult()
    t0 = time.time()
    env = dict(os.environ)
    env.pop("JAVA_TOOL_OPTIONS", None)
    try:
        p = subprocess.run(cmd, cwd=d, stdout=subprocess.PIPE, stderr=subprocess.STDOUT,
                           timeout=timeout, env=env)
    except subprocess.TimeoutExpired as ex:
        shutil.rmtree(meta, ignore_errors=True)
        raise MachineryError("TLC timeout after %ss: %s %s" % (timeout, module, cfg))
    res.wall = time.time() - t0
    res.rc = p.returncode
    res.out = p.stdout.decode("utf-8", "replace")
    shutil.rmtree(meta, ignore_errors=True)
    _parse_tlc(res.out, res)
    if coverage:
        for m in re.finditer(r"^<(\w+) line .*?>: (\d+):(\d+)", res.out, re.M):
            res.coverage[m.group(1)] = (int(m.group(2)), int(m.group(3)))
    if res.rc not in (0, 12, 13, 10, 11) and not res.violated and not res.errors and not res.post_failed:
        res.errors.append("TLC exit code %s" % res.rc)
    return res


def prepare_specs(sc):
    """Copy spec/ (incl. trace/) flat into <scratch>/spec so that EXTENDS resolves."""
    d = sc.path("spec")
    os.makedirs(d, exist_ok=True)
    for root, _, files in os.walk(SPEC):
        for f in files:
            if f.endswith((".tla", ".cfg")):
                shutil.copy(os.path.join(root, f), os.path.join(d, f))
    return d


def write_cfg(sc, name, text, subdir="spec"):
    with open(sc.path(subdir, name), "w") as f:
        f.write(text)


def require_design_ok(res, what):
    """Exhaustive/simulation run of a system spec: anything but success is a machinery error
    (a design-level counterexample is not a verdict about the code)."""
    if res.errors:
        raise MachineryError("%s: TLC error: %s\n%s" % (what, res.errors[:3], res.out[-3000:]))


# ---------------------------------------------------------------------------------------
# Go harness

def overlay_for(sc, pkgs, mutant_overlay=None):
    """Build an -overlay json that maps /verif/harness/<name>/*.go into a /repo package dir.
    pkgs: dict harness-subdir -> repo-relative package dir (several subdirs may map to the same
    package: a shared helper dir plus the property's own dir)."""
    repl = {}
    for h, pkgdir in pkgs.items():
        hd = os.path.join(HARNESS, h)
        for f in sorted(os.listdir(hd)):
            if f.endswith(".go"):
                repl[os.path.join(REPO, pkgdir, "zz_verif_%s_%s" % (h, f))] = os.path.join(hd, f)
    if mutant_overlay:
        repl.update(mutant_overlay)
    p = sc.path("overlay-%s.json" % hashlib.sha1(json.dumps(sorted(repl.items())).encode()).hexdigest()[:8])
    with open(p, "w") as f:
        json.dump({"Replace": repl}, f)
    return p


def go_test(sc, pkgdir, overlay, run, env_extra=None, timeout=1200, race=False, tags="verif",
            count=1, extra=None, cpu=None):
    """Run `go test` in /repo/<pkgdir> with the overlay; returns (rc, output)."""
    cmd = [go_bin(), "test", "-overlay", overlay, "-count=%d" % count, "-vet=off",
           "-run", run, "-timeout", "%ds" % timeout]
    if tags:
        cmd += ["-tags", tags]
    if race:
        cmd.append("-race")
    if cpu:
        cmd += ["-cpu", str(cpu)]
    if extra:
        cmd += extra
    cmd.append(".")
    e = go_env()
    if env_extra:
        e.update({k: str(v) for k, v in env_extra.items()})
    t0 = time.time()
    try:
        p = subprocess.run(cmd, cwd=os.path.join(REPO, pkgdir), stdout=subprocess.PIPE,
                           stderr=subprocess.STDOUT, env=e, timeout=timeout + 120)
    except subprocess.TimeoutExpired:
        raise MachineryError("go test timeout in %s (-run %s)" % (pkgdir, run))
    out = p.stdout.decode("utf-8", "replace")
    log("go test %s -run %s: rc=%d %.1fs" % (pkgdir, run, p.returncode, time.time() - t0))
    return p.returncode, out


# ---------------------------------------------------------------------------------------
# traces

def read_ndjson(path):
    out = []
    with open(path) as f:
        for ln in f:
            ln = ln.strip()
            if ln:
                out.append(json.loads(ln))
    return out


def write_ndjson(path, rows):
    with open(path, "w") as f:
        for r in rows:
            f.write(json.dumps(r, separators=(",", ":"), sort_keys=True))
            f.write("\n")


def split_traces(rows):
    """A trace file is a concatenation of traces; each starts with an {"ev":"Reset",...} line."""
    traces = []
    for r in rows:
        if r.get("ev") == "Reset":
            traces.append([r])
        else:
            if not traces:
                raise MachineryError("trace file does not start with Reset")
            traces[-1].append(r)
    return traces


_l_re = re.compile(r"^/\\ l = (\d+)\s*$", re.M)
_l_re2 = re.compile(r"^l = (\d+)\s*$", re.M)


def violation_line(v):
    """Index (1-based line number in the concatenated trace file) at which an invariant failed:
    value of the trace spec's variable l in the last state of the counterexample."""
    if not v["states"]:
        return None
    st = v["states"][-1]
    m = _l_re.search(st) or _l_re2.search(st)
    return int(m.group(1)) if m else None


class Validation:
    def __init__(self):
        self.traces = 0
        self.events = 0
        self.failures = []   # (trace_index, invariant_name, line_in_trace)
        self.gaps = []       # (trace_index, line_in_trace, line)
        self.states = 0
        self.generated = 0
        self.wall = 0.0
        self.nontrivial = {}


def validate_traces(sc, module, cfg, traces, batch=2000, timeout=900, deque=False, hwm_var=True,
                    workers=1):
    """Validate traces (list of list of rows) against trace spec `module` in batches.
    Returns Validation. Every failing trace is removed and the batch re-validated so that all
    failing traces are found (TLC stops at the first)."""
    val = Validation()
    val.traces = len(traces)
    val.events = sum(len(t) for t in traces)
    t0 = time.time()
    idx = list(range(len(traces)))
    pending = [idx[i:i + batch] for i in range(0, len(idx), batch)]
    # VERIF_MAX_REJECTED=n (seed sweeps only): stop looking after n rejected traces of one call. Not set in a
    # normal run: traces rejected for a known finding must not hide a different violation behind them.
    cap = int(os.environ.get("VERIF_MAX_REJECTED", "0")) or 10 ** 9
    while pending:
        b = pending.pop(0)
        if not b:
            continue
        if len(val.failures) + len(val.gaps) >= cap:
            # enough rejected traces to report; the traces after them in this call are not examined
            val.unexamined = getattr(val, "unexamined", 0) + len(b)
            continue
        rows = []
        starts = []
        for ti in b:
            starts.append(len(rows) + 1)
            rows.extend(traces[ti])
        write_ndjson(sc.path("spec", "trace.ndjson"), rows)
        res = tlc(sc, module, cfg, workers=workers, timeout=timeout, deque=deque, deadlock=False)
        val.states += res.distinct
        val.generated += res.generated
        if res.ok:
            # counts of distinct non-trivial cases, printed by the POSTCONDITION of an accepted run
            for ln in res.printed:
                try:
                    o = json.loads(ln)
                    if isinstance(o, dict) and "nontrivial" in o:
                        for k, v in o["nontrivial"].items():
                            val.nontrivial[k] = val.nontrivial.get(k, 0) + int(v)
                except Exception:
                    pass

        def locate(line):
            # line = value of l at failure = index of the next line to consume; the offending
            # event is line-1 (already consumed) for invariants
            k = 0
            for j, s in enumerate(starts):
                if s <= line:
                    k = j
            return b[k], line - starts[k]

        if res.violated:
            v = res.violated[0]
            line = violation_line(v)
            if line is None:
                raise MachineryError("cannot locate violation in TLC output:\n" + res.out[-3000:])
            ti, off = locate(max(1, line - 1))
            val.failures.append((ti, v["name"], off))
            # the batch is ONE linear behaviour: everything before the failing trace has passed
            # every invariant, so only the traces after it need another run
            rest = b[b.index(ti) + 1:]
            pending.insert(0, rest)
            continue
        if res.errors:
            raise MachineryError("trace validation TLC error (%s): %s\n%s"
                                 % (module, res.errors[:3], res.out[-4000:]))
        if res.post_failed:
            # conformance gap: find the high-water mark printed by the postcondition
            m = re.search(r"VPHWM (\d+)", res.out)
            hw = int(m.group(1)) if m else 0
            ti, off = locate(max(1, hw))
            val.gaps.append((ti, off, traces[ti][off] if off < len(traces[ti]) else None))
            rest = b[b.index(ti) + 1:]
            pending.insert(0, rest)
            continue
    val.wall = time.time() - t0
    return val


# ---------------------------------------------------------------------------------------
# known findings

def load_known():
    known, fixed = [], []
    paths = [os.environ.get("VERIF_KNOWN_FILE") or os.path.join(ROOT, "known_findings.jsonl")]
    if os.environ.get("VERIF_KNOWN"):      # development only: extra proposed entries
        paths.append(os.environ["VERIF_KNOWN"])
    for p in paths:
        if not os.path.exists(p):
            continue
        for ln in open(p):
            ln = ln.strip()
            if not ln or ln.startswith("#"):
                continue
            o = json.loads(ln)
            (fixed if o.get("status") == "fixed" else known).append(o)
    return known, fixed


def match_known(prop, sig, known):
    """sig: dict of signature fields computed from the failing trace. A known finding matches if
    property equals and every field of its 'signature' equals the corresponding sig field."""
    for k in known:
        if k["property"] != prop:
            continue
        if all(sig.get(f) == v for f, v in k["signature"].items()):
            return k
    return None


# ---------------------------------------------------------------------------------------
# evidence

def write_evidence(prop, tier, seed, level, coverage, wall, violations, assumptions):
    os.makedirs(os.path.join(ROOT, "evidence"), exist_ok=True)
    ev = {
        "property_id": prop, "tier": tier, "seed": int(seed), "level": level,
        "coverage": coverage, "assumptions": assumptions, "wall_s": round(wall, 2),
        "violations": int(violations),
    }
    p = os.path.join(ROOT, "evidence", prop + ".json")
    with open(p + ".tmp", "w") as f:
        json.dump(ev, f, indent=1, sort_keys=True)
    os.replace(p + ".tmp", p)
    return p


def save_replay(prop, payload):
    d = os.path.join(ROOT, "replays")
    os.makedirs(d, exist_ok=True)
    blob = json.dumps(payload, sort_keys=True)
    h = hashlib.sha1(blob.encode()).hexdigest()[:12]
    p = os.path.join(d, "%s-%s.json" % (prop, h))
    with open(p, "w") as f:
        f.write(blob)
    return p
