package server

// C07 replayer: executes schedules over the FSM event alphabet (spec/FsmGen.tla or a replay file)
// on the REAL BgpServer inside a synctest bubble (virtual time) with in-memory connections.
// One step = one environment event, then synctest.Wait() (exact quiescence), then one observation:
//   - every message the speaker sent on each connection (type, code/subcode, data, virtual second),
//   - whether the speaker closed the connection,
//   - ListPeer session/admin state, the new WatchEvent(peer) events, a RIB digest,
//   - whether an outgoing dial is pending in VerifDialHook.
// No property is asserted here: the trace is judged by TLC (spec/trace/FsmTrace.tla).

import (
	"context"
	"encoding/binary"
	"encoding/hex"
	"encoding/json"
	"net"
	"net/netip"
	"sort"
	"sync"
	"testing"
	"testing/synctest"
	"time"

	api "github.com/osrg/gobgp/v4/api"
	"github.com/osrg/gobgp/v4/pkg/apiutil"
	"github.com/osrg/gobgp/v4/pkg/packet/bgp"
)

type c07Cfg struct {
	Passive bool   `json:"passive"`
	Hold    int    `json:"hold"`   // configured hold time of the speaker; keepalive-interval = hold/3
	Peer    string `json:"peer"`   // lo | hi | eqlo | eqhi : BGP identifier / AS relation for collisions
	MaxPfx  int    `json:"maxpfx"` // prefix limit for ipv4-unicast (0 = none)
	NBit    bool   `json:"nbit"`   // graceful restart with the RFC 8538 N bit on both sides
	Retry   int    `json:"retry"`  // connect-retry seconds
}

type c07Step struct {
	Ev   string `json:"ev"`
	C    string `json:"c"`
	Kind string `json:"kind"`
	Hold int    `json:"hold"`
	D    int    `json:"d"`
	N    int    `json:"n"`
	Code int    `json:"code"`
	Sub  int    `json:"sub"`
	Comm string `json:"comm"`
}

type c07Beh struct {
	Cfg   c07Cfg    `json:"cfg"`
	Steps []c07Step `json:"steps"`
}

type c07Msg struct {
	T    int    `json:"t"`
	Ms   int    `json:"ms"`
	Ty   string `json:"ty"`
	Code int    `json:"code"`
	Sub  int    `json:"sub"`
	Data string `json:"data"`
	Hold int    `json:"hold"`
}

type c07ConnObs struct {
	Known  bool     `json:"known"`  // a connection object exists in this slot
	Closed bool     `json:"closed"` // the speaker closed it (EOF seen by the neighbour)
	Pend   int      `json:"pend"`   // neighbour messages written but not yet read by the speaker
	Msgs   []c07Msg `json:"msgs"`
}

type c07Wev struct {
	St    string `json:"st"`
	Admin string `json:"admin"`
	Why   string `json:"why"`
}

type c07Obs struct {
	T     int        `json:"t"`
	Ms    int        `json:"ms"`
	St    string     `json:"st"`
	Admin string     `json:"admin"`
	Wev   []c07Wev   `json:"wev"`
	Dial  bool       `json:"dial"`
	Ci    c07ConnObs `json:"ci"`
	Co    c07ConnObs `json:"co"`
	Cx    c07ConnObs `json:"cx"` // transient extra inbound connection of this step
	RibG  []string   `json:"ribg"`
	RibA  []string   `json:"riba"`
	AdmF  bool       `json:"admflag"` // white box: neighbor State.AdminDown (informational)
	Done  bool       `json:"done"`    // the step could be carried out (e.g. a dial was pending)
}

// one transport connection as seen by the neighbour, with an asynchronous writer so that the test
// goroutine never blocks on a connection nobody reads
type c07Conn struct {
	p      *simPeer
	wq     chan []byte
	mu     sync.Mutex
	queued int
	done   int
	wdone  chan struct{}
}

func newC07Conn(p *simPeer) *c07Conn {
	c := &c07Conn{p: p, wq: make(chan []byte, 64), wdone: make(chan struct{})}
	go func() {
		defer close(c.wdone)
		for b := range c.wq {
			_ = c.p.sendRaw(b) // an error (closed pipe) still counts as "no longer pending"
			c.mu.Lock()
			c.done++
			c.mu.Unlock()
		}
	}()
	return c
}

func (c *c07Conn) write(b []byte) {
	c.mu.Lock()
	c.queued++
	c.mu.Unlock()
	c.wq <- b
}

func (c *c07Conn) pending() int {
	c.mu.Lock()
	defer c.mu.Unlock()
	return c.queued - c.done
}

func (c *c07Conn) shut() {
	c.p.closeConn()
	close(c.wq)
	<-c.wdone
}

type c07Dialer struct {
	mu      sync.Mutex
	pending bool
	ch      chan net.Conn // nil value = "connection failed"
}

func (d *c07Dialer) set(v bool) {
	d.mu.Lock()
	d.pending = v
	d.mu.Unlock()
}

func (d *c07Dialer) isPending() bool {
	d.mu.Lock()
	defer d.mu.Unlock()
	return d.pending
}

func c07PeerIdent(kind string) (uint32, string) {
	switch kind {
	case "hi":
		return 65001, "10.0.0.200"
	case "eqlo":
		return 64999, "10.0.0.100"
	case "eqhi":
		return 65001, "10.0.0.100"
	default:
		return 65001, "1.1.1.1"
	}
}

func c07StateName(s api.PeerState_SessionState) string {
	switch s {
	case api.PeerState_SESSION_STATE_IDLE:
		return "Idle"
	case api.PeerState_SESSION_STATE_CONNECT:
		return "Connect"
	case api.PeerState_SESSION_STATE_ACTIVE:
		return "Active"
	case api.PeerState_SESSION_STATE_OPENSENT:
		return "OpenSent"
	case api.PeerState_SESSION_STATE_OPENCONFIRM:
		return "OpenConfirm"
	case api.PeerState_SESSION_STATE_ESTABLISHED:
		return "Established"
	}
	return "None"
}

func c07FsmName(s bgp.FSMState) string {
	switch s {
	case bgp.BGP_FSM_IDLE:
		return "Idle"
	case bgp.BGP_FSM_CONNECT:
		return "Connect"
	case bgp.BGP_FSM_ACTIVE:
		return "Active"
	case bgp.BGP_FSM_OPENSENT:
		return "OpenSent"
	case bgp.BGP_FSM_OPENCONFIRM:
		return "OpenConfirm"
	case bgp.BGP_FSM_ESTABLISHED:
		return "Established"
	}
	return "None"
}

func c07AdminName(a api.PeerState_AdminState) string {
	switch a {
	case api.PeerState_ADMIN_STATE_UP:
		return "Up"
	case api.PeerState_ADMIN_STATE_DOWN:
		return "Down"
	case api.PeerState_ADMIN_STATE_PFX_CT:
		return "PfxCt"
	}
	return "None"
}

const c07PeerAddr = "10.0.0.1"

type c07Run struct {
	t     *testing.T
	cfg   c07Cfg
	ss    *simServer
	as    uint32
	rid   string
	ci    *c07Conn
	co    *c07Conn
	cx    *c07Conn
	all   []*c07Conn
	nconn int
	dial  *c07Dialer
	wmu   sync.Mutex
	wev   []c07Wev
}

func (r *c07Run) newPeer() *simPeer {
	r.nconn++
	return newSimPeer(r.ss, "N", c07PeerAddr, r.as, r.rid)
}

func (r *c07Run) caps() []bgp.ParameterCapabilityInterface {
	caps := []bgp.ParameterCapabilityInterface{bgp.NewCapRouteRefresh(), bgp.NewCapFourOctetASNumber(r.as),
		bgp.NewCapMultiProtocol(bgp.RF_IPv4_UC)}
	if r.cfg.NBit {
		caps = append(caps, bgp.NewCapGracefulRestart(false, true, 120,
			[]*bgp.CapGracefulRestartTuple{bgp.NewCapGracefulRestartTuple(bgp.RF_IPv4_UC, true)}))
	}
	return caps
}

// openBytes builds the neighbour's OPEN of the given kind.
func (r *c07Run) openBytes(kind string, hold int) []byte {
	as := r.as
	rid := netip.MustParseAddr(r.rid)
	ver := uint8(4)
	h := uint16(hold)
	switch kind {
	case "badver":
		ver = 3
	case "badas":
		as = 65009
	case "badid":
		rid = netip.MustParseAddr("0.0.0.0")
	case "hold1":
		h = 1
	case "hold2":
		h = 2
	}
	caps := r.caps()
	caps[1] = bgp.NewCapFourOctetASNumber(as)
	params := []bgp.OptionParameterInterface{bgp.NewOptionParameterCapability(caps)}
	if kind == "unsupopt" {
		// optional parameter type 1 (the deprecated Authentication Information): not recognised
		params = append(params, &bgp.OptionParameterUnknown{ParamType: 1, Value: []byte{0, 0}})
	}
	m, err := bgp.NewBGPOpenMessage(uint16(as), h, rid, params)
	vpMust(err)
	m.Body.(*bgp.BGPOpen).Version = ver
	b, err := m.Serialize()
	vpMust(err)
	switch kind {
	case "malopt":
		// a recognised optional parameter (type 2, Capabilities) that is malformed: the capability
		// inside claims 6 octets of value but the parameter ends after 2
		extra := []byte{2, 4, 1, 6, 0, 1}
		b = append(b, extra...)
		b[28] += uint8(len(extra))
		binary.BigEndian.PutUint16(b[16:18], uint16(len(b)))
	case "short":
		// OPEN whose header Length (28) is below the minimum OPEN length (29)
		b = b[:28]
		binary.BigEndian.PutUint16(b[16:18], 28)
	}
	return b
}

func c07Garbage(kind string) []byte {
	b, _ := bgp.NewBGPKeepAliveMessage().Serialize()
	switch kind {
	case "marker":
		b[0] = 0
	case "lenshort":
		binary.BigEndian.PutUint16(b[16:18], 18)
	case "lenlong":
		binary.BigEndian.PutUint16(b[16:18], 4097)
	case "type":
		b[18] = 9
	case "kalen":
		// KEEPALIVE whose Length is 20 (RFC 4271 6.1: must be exactly 19)
		b = append(b, 0)
		binary.BigEndian.PutUint16(b[16:18], 20)
	}
	return b
}

func c07Update(n int) []byte {
	nh, _ := bgp.NewPathAttributeNextHop(netip.MustParseAddr(c07PeerAddr))
	attrs := []bgp.PathAttributeInterface{bgp.NewPathAttributeOrigin(0),
		bgp.NewPathAttributeAsPath([]bgp.AsPathParamInterface{bgp.NewAs4PathParam(2, []uint32{65001})}), nh}
	var nlris []bgp.PathNLRI
	for _, p := range []string{"10.1.0.0/24", "10.2.0.0/24", "10.3.0.0/24"}[:n] {
		x, _ := bgp.NewIPAddrPrefix(netip.MustParsePrefix(p))
		nlris = append(nlris, bgp.PathNLRI{NLRI: x})
	}
	b, err := bgp.NewBGPUpdateMessage(nil, attrs, nlris).Serialize()
	vpMust(err)
	return b
}

func (r *c07Run) connObs(c *c07Conn) c07ConnObs {
	o := c07ConnObs{Msgs: []c07Msg{}}
	if c == nil {
		return o
	}
	o.Known = true
	o.Closed = c.p.isEOF()
	o.Pend = c.pending()
	for _, m := range c.p.take() {
		sec := int(m.T)
		cm := c07Msg{T: sec, Ms: int((m.T-float64(sec))*1000 + 0.5), Ty: "OTHER"}
		switch m.Type {
		case bgp.BGP_MSG_OPEN:
			cm.Ty = "OPEN"
			if m.Msg != nil {
				cm.Hold = int(m.Msg.Body.(*bgp.BGPOpen).HoldTime)
			}
		case bgp.BGP_MSG_KEEPALIVE:
			cm.Ty = "KEEPALIVE"
		case bgp.BGP_MSG_UPDATE:
			cm.Ty = "UPDATE"
		case bgp.BGP_MSG_ROUTE_REFRESH:
			cm.Ty = "REFRESH"
		case bgp.BGP_MSG_NOTIFICATION:
			cm.Ty = "NOTIFICATION"
			if m.Msg != nil {
				n := m.Msg.Body.(*bgp.BGPNotification)
				cm.Code, cm.Sub, cm.Data = int(n.ErrorCode), int(n.ErrorSubcode), hex.EncodeToString(n.Data)
			}
		}
		o.Msgs = append(o.Msgs, cm)
	}
	return o
}

func (r *c07Run) observe(done bool) c07Obs {
	synctest.Wait()
	now := r.ss.now()
	sec := int(now)
	o := c07Obs{T: sec, Ms: int((now-float64(sec))*1000 + 0.5), Done: done, Wev: []c07Wev{}, RibG: []string{}, RibA: []string{}}
	st, ad, p := r.ss.peerState(c07PeerAddr)
	if p == nil {
		o.St, o.Admin = "None", "None"
	} else {
		o.St, o.Admin = c07StateName(st), c07AdminName(ad)
		if pr, ok := r.ss.s.neighborMap[netip.MustParseAddr(c07PeerAddr)]; ok {
			o.AdmF = pr.fsm.pConf.ReadOnly().State.AdminDown
		}
	}
	synctest.Wait()
	r.wmu.Lock()
	o.Wev = append(o.Wev, r.wev...)
	r.wev = nil
	r.wmu.Unlock()
	o.Dial = r.dial.isPending()
	o.Ci, o.Co, o.Cx = r.connObs(r.ci), r.connObs(r.co), r.connObs(r.cx)
	_ = r.ss.s.ListPath(apiutil.ListPathRequest{TableType: api.TableType_TABLE_TYPE_GLOBAL, Family: bgp.RF_IPv4_UC},
		func(prefix bgp.NLRI, paths []*apiutil.Path) {
			if len(paths) > 0 {
				o.RibG = append(o.RibG, prefix.String())
			}
		})
	if p != nil {
		_ = r.ss.s.ListPath(apiutil.ListPathRequest{TableType: api.TableType_TABLE_TYPE_ADJ_IN, Name: c07PeerAddr, Family: bgp.RF_IPv4_UC},
			func(prefix bgp.NLRI, paths []*apiutil.Path) {
				if len(paths) > 0 {
					o.RibA = append(o.RibA, prefix.String())
				}
			})
	}
	sort.Strings(o.RibG)
	sort.Strings(o.RibA)
	synctest.Wait()
	return o
}

func (r *c07Run) conn(name string) *c07Conn {
	if name == "out" {
		return r.co
	}
	return r.ci
}

func (r *c07Run) step(st c07Step) bool {
	ctx := context.Background()
	switch st.Ev {
	case "Tick":
		time.Sleep(time.Duration(st.D) * time.Second)
	case "InConnect":
		p := r.newPeer()
		c := newC07Conn(p)
		r.all = append(r.all, c)
		srv, peer := vpPipe(r.ss.addr, p.addr, 179, 40000+r.nconn)
		p.attach(peer)
		if r.ci != nil && !r.ci.p.isEOF() {
			r.cx = c // a tracked inbound connection is still open: this one is an extra
		} else {
			r.ci = c
		}
		r.ss.accept <- srv
	case "OutConnect":
		if !r.dial.isPending() {
			return false
		}
		p := r.newPeer()
		c := newC07Conn(p)
		r.all = append(r.all, c)
		srv, peer := vpPipe(r.ss.addr, p.addr, 50000+r.nconn, 179)
		p.attach(peer)
		r.co = c
		r.dial.ch <- srv
	case "OutFail":
		if !r.dial.isPending() {
			return false
		}
		r.dial.ch <- nil
	case "Open":
		c := r.conn(st.C)
		if c == nil {
			return false
		}
		c.write(r.openBytes(st.Kind, st.Hold))
	case "OpenBoth":
		// the neighbour's OPEN arrives on both connections at the same instant (connection collision)
		if r.ci == nil || r.co == nil {
			return false
		}
		r.ci.write(r.openBytes(st.Kind, st.Hold))
		r.co.write(r.openBytes(st.Kind, st.Hold))
	case "Keepalive":
		c := r.conn(st.C)
		if c == nil {
			return false
		}
		b, _ := bgp.NewBGPKeepAliveMessage().Serialize()
		c.write(b)
	case "Update":
		c := r.conn(st.C)
		if c == nil {
			return false
		}
		c.write(c07Update(st.N))
	case "Refresh":
		c := r.conn(st.C)
		if c == nil {
			return false
		}
		b, _ := bgp.NewBGPRouteRefreshMessage(1, 0, 1).Serialize()
		c.write(b)
	case "Notif":
		c := r.conn(st.C)
		if c == nil {
			return false
		}
		b, _ := bgp.NewBGPNotificationMessage(uint8(st.Code), uint8(st.Sub), nil).Serialize()
		c.write(b)
	case "Garbage":
		c := r.conn(st.C)
		if c == nil {
			return false
		}
		c.write(c07Garbage(st.Kind))
	case "Close":
		c := r.conn(st.C)
		if c == nil {
			return false
		}
		c.p.closeConn()
	case "Enable":
		return r.ss.s.EnablePeer(ctx, &api.EnablePeerRequest{Address: c07PeerAddr}) == nil
	case "Disable":
		return r.ss.s.DisablePeer(ctx, &api.DisablePeerRequest{Address: c07PeerAddr, Communication: st.Comm}) == nil
	case "Shutdown":
		return r.ss.s.ShutdownPeer(ctx, &api.ShutdownPeerRequest{Address: c07PeerAddr, Communication: st.Comm}) == nil
	case "ResetPeer":
		return r.ss.s.ResetPeer(ctx, &api.ResetPeerRequest{Address: c07PeerAddr, Communication: st.Comm}) == nil
	case "Delete":
		return r.ss.s.DeletePeer(ctx, &api.DeletePeerRequest{Address: c07PeerAddr}) == nil
	default:
		r.t.Fatalf("unknown step %q", st.Ev)
	}
	return true
}

func c07RunOne(t *testing.T, tr *vpTrace, tid int, b *c07Beh) {
	synctest.Test(t, func(t *testing.T) {
		r := &c07Run{t: t, cfg: b.Cfg, dial: &c07Dialer{ch: make(chan net.Conn)}}
		r.as, r.rid = c07PeerIdent(b.Cfg.Peer)
		VerifDialHook = func(ctx context.Context, addr string, port int) (net.Conn, bool) {
			r.dial.set(true)
			defer r.dial.set(false)
			select {
			case c := <-r.dial.ch:
				return c, true
			case <-ctx.Done():
				return nil, true
			}
		}
		defer func() { VerifDialHook = nil }()
		r.ss = newSimServer(t, nil)
		wctx, wcancel := context.WithCancel(context.Background())
		vpMust(r.ss.s.WatchEvent(wctx, WatchEventMessageCallbacks{
			OnPeerUpdate: func(ev *apiutil.WatchEventMessage_PeerEvent, _ time.Time) {
				if ev.Type != apiutil.PEER_EVENT_STATE {
					return
				}
				r.wmu.Lock()
				r.wev = append(r.wev, c07Wev{St: c07FsmName(ev.Peer.State.SessionState),
					Admin: c07AdminName(ev.Peer.State.AdminState), Why: ev.Peer.State.DisconnectMessage})
				r.wmu.Unlock()
			}}, WatchPeer()))
		hold := b.Cfg.Hold
		retry := b.Cfg.Retry
		if retry == 0 {
			retry = 4
		}
		peer := &api.Peer{
			Conf:      &api.PeerConf{NeighborAddress: c07PeerAddr, PeerAsn: r.as},
			Transport: &api.Transport{PassiveMode: b.Cfg.Passive},
			Timers: &api.Timers{Config: &api.TimersConfig{HoldTime: uint64(hold), KeepaliveInterval: uint64(hold / 3),
				ConnectRetry: uint64(retry)}},
			AfiSafis: []*api.AfiSafi{{
				Config: &api.AfiSafiConfig{Family: &api.Family{Afi: api.Family_AFI_IP, Safi: api.Family_SAFI_UNICAST}, Enabled: true},
			}},
		}
		if b.Cfg.MaxPfx > 0 {
			peer.AfiSafis[0].PrefixLimits = &api.PrefixLimit{
				Family:      &api.Family{Afi: api.Family_AFI_IP, Safi: api.Family_SAFI_UNICAST},
				MaxPrefixes: uint32(b.Cfg.MaxPfx)}
		}
		if b.Cfg.NBit {
			peer.GracefulRestart = &api.GracefulRestart{Enabled: true, RestartTime: 120, NotificationEnabled: true}
			peer.AfiSafis[0].MpGracefulRestart = &api.MpGracefulRestart{Config: &api.MpGracefulRestartConfig{Enabled: true}}
		}
		if err := r.ss.s.AddPeer(context.Background(), &api.AddPeerRequest{Peer: peer}); err != nil {
			t.Fatalf("AddPeer: %v", err)
		}
		tr.Emit(map[string]any{"ev": "Reset", "tid": tid, "cfg": b.Cfg, "obs": r.observe(true)})
		for _, st := range b.Steps {
			r.cx = nil
			done := r.step(st)
			o := r.observe(done)
			line := map[string]any{"ev": st.Ev, "c": st.C, "kind": st.Kind, "hold": st.Hold, "d": st.D, "n": st.N,
				"code": st.Code, "sub": st.Sub, "comm": st.Comm, "obs": o}
			tr.Emit(line)
		}
		// tear down: neighbour side first so that nothing the speaker is blocked on survives
		wcancel()
		for _, c := range r.all {
			c.shut()
		}
		if r.dial.isPending() {
			select {
			case r.dial.ch <- nil:
			default:
			}
		}
		synctest.Wait()
		r.ss.stop()
		synctest.Wait()
	})
}

func TestVerifC07(t *testing.T) {
	tr := vpOpenTrace(t)
	defer tr.Close()
	tid := 0
	vpReadLines(t, "VERIF_IN", func(line []byte) {
		var b c07Beh
		if err := json.Unmarshal(line, &b); err != nil {
			t.Fatalf("bad behaviour: %v", err)
		}
		tid++
		c07RunOne(t, tr, tid, &b)
	})
}
