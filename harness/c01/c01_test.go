package server

// Replays TLC-generated schedules of spec/SpeakerGen.tla on the REAL BgpServer inside a
// synctest bubble and records, after every step (at exact quiescence), what every neighbour has
// been told (decoded from the bytes written to its connection), the RIB contents and counters.
// No property is asserted here: traces are judged by TLC (spec/trace/SpeakerTrace.tla).

import (
	"context"
	"encoding/json"
	"fmt"
	"net/netip"
	"os"
	"path/filepath"
	"regexp"
	"runtime"
	"sort"
	"strconv"
	"strings"
	"sync"
	"sync/atomic"
	"syscall"
	"testing"
	"testing/synctest"
	"time"

	api "github.com/osrg/gobgp/v4/api"
	"github.com/osrg/gobgp/v4/internal/pkg/table"
	"github.com/osrg/gobgp/v4/pkg/apiutil"
	"github.com/osrg/gobgp/v4/pkg/packet/bgp"
)

type spPeerInfo struct {
	Kind    string `json:"kind"`
	AS      uint32 `json:"as"`
	Idx     int    `json:"idx"`
	SendMax int    `json:"sendmax"`
}

type spRoute struct {
	Src  string `json:"src"`
	V    int    `json:"v"`
	Len  int    `json:"len"`
	Lp   int64  `json:"lp"`
	Med  int64  `json:"med"`
	Loop bool   `json:"loop"`
	Via  uint32 `json:"via"`
	Pp   int    `json:"pp"`
	Cm   int    `json:"cm"`
}

type spStep struct {
	K   string  `json:"k,omitempty"`
	Ev  string  `json:"ev"`
	Pol string  `json:"pol,omitempty"`
	P   string  `json:"p,omitempty"`
	X   string  `json:"x,omitempty"`
	R   spRoute `json:"r,omitempty"`
	D   int     `json:"d,omitempty"`
}

type spBehaviour struct {
	Peers   map[string]spPeerInfo `json:"peers"`
	LocalAS uint32                `json:"localas"`
	Steps   []spStep              `json:"steps"`
}

var spPrefixes = map[string]string{"x1": "10.1.0.0/24", "x2": "10.1.0.128/25"}

type spView map[string]any // prefix name -> projected route

type spWorld struct {
	t           *testing.T
	ss          *simServer
	b           *spBehaviour
	peers       map[string]*simPeer
	pinfo       map[string]spPeerInfo
	views       map[string]map[string]map[string]any // peer -> "prefix#id" -> attrs
	byAddr      map[string]string
	byRid       map[string]string
	gateMu      sync.Mutex
	gates       map[string]chan struct{} // neighbour address -> gate (closed = open)
	watchCancel context.CancelFunc
	bestMu      sync.Mutex
	bestEvents  []map[string]any
	bestTable   map[string]any
	bestCancel  context.CancelFunc
	srvPeers    map[string]*peer
}

func spAddr(idx int) string { return fmt.Sprintf("10.0.0.%d", idx+1) }
func spRid(idx int) string  { return fmt.Sprintf("%d.%d.%d.%d", idx+1, idx+1, idx+1, idx+1) }

func (w *spWorld) asPath(r spRoute) []uint32 {
	if r.Src == "local" {
		return nil
	}
	pi := w.pinfo[r.Src]
	first := pi.AS
	if pi.Kind == "ibgp" || pi.Kind == "rrc" {
		first = uint32(64700 + pi.Idx)
	}
	extras := 0
	if r.Via != 0 {
		extras++
	}
	if r.Loop {
		extras++
	}
	p := []uint32{first}
	for i := 1; i <= r.Len-1-extras; i++ {
		p = append(p, uint32(64800+10*pi.Idx+i))
	}
	if r.Via != 0 {
		p = append(p, r.Via)
	}
	if r.Loop {
		p = append(p, w.b.LocalAS)
	}
	return p
}

func (w *spWorld) attrs(r spRoute, nh string) []bgp.PathAttributeInterface {
	a := []bgp.PathAttributeInterface{bgp.NewPathAttributeOrigin(0)}
	if r.Src == "local" {
		a = append(a, bgp.NewPathAttributeAsPath(nil))
	} else {
		a = append(a, bgp.NewPathAttributeAsPath([]bgp.AsPathParamInterface{bgp.NewAs4PathParam(bgp.BGP_ASPATH_ATTR_TYPE_SEQ, w.asPath(r))}))
	}
	n, _ := bgp.NewPathAttributeNextHop(netip.MustParseAddr(nh))
	a = append(a, n)
	if r.Med >= 0 {
		a = append(a, bgp.NewPathAttributeMultiExitDisc(uint32(r.Med)))
	}
	if r.Lp >= 0 {
		a = append(a, bgp.NewPathAttributeLocalPref(uint32(r.Lp)))
	}
	// three communities: the variant tag and two fillers (a list the decoder grows to capacity 4 has room
	// for one more: in-place appends by a policy action would show)
	a = append(a, bgp.NewPathAttributeCommunities([]uint32{uint32(65000<<16 | r.V), 65008<<16 | 1, 65008<<16 | 2}))
	return a
}

func spNLRI(x string) bgp.NLRI {
	n, err := bgp.NewIPAddrPrefix(netip.MustParsePrefix(spPrefixes[x]))
	vpMust(err)
	return n
}

func spPrefixName(s string) string {
	for k, v := range spPrefixes {
		if v == s {
			return k
		}
	}
	return "other:" + s
}

// project turns concrete attributes into the abstract record of Speaker.tla's Exp().
func (w *spWorld) project(attrs []bgp.PathAttributeInterface) map[string]any {
	o := map[string]any{"v": 0, "src": "unknown", "aspath": []uint32{}, "nh": "none", "med": int64(-1), "lp": int64(-1), "origid": "none", "clist": 0, "cm": 0}
	for _, a := range attrs {
		switch t := a.(type) {
		case *bgp.PathAttributeAsPath:
			l := []uint32{}
			for _, seg := range t.Value {
				if seg.GetType() != bgp.BGP_ASPATH_ATTR_TYPE_SEQ {
					l = append(l, 0) // never generated: shows up as a mismatch
				}
				l = append(l, seg.GetAS()...)
			}
			o["aspath"] = l
		case *bgp.PathAttributeNextHop:
			o["nh"] = w.addrName(t.Value.String())
		case *bgp.PathAttributeMultiExitDisc:
			o["med"] = int64(t.Value)
		case *bgp.PathAttributeLocalPref:
			o["lp"] = int64(t.Value)
		case *bgp.PathAttributeOriginatorId:
			s := t.Value.String()
			if s == "10.0.0.100" {
				o["origid"] = "self"
			} else if n, ok := w.byRid[s]; ok {
				o["origid"] = n
			} else {
				o["origid"] = "other:" + s
			}
		case *bgp.PathAttributeClusterList:
			o["clist"] = len(t.Value)
		case *bgp.PathAttributeCommunities:
			for _, c := range t.Value {
				if c>>16 == 65000 {
					v := int(c & 0xffff)
					o["v"] = v
					o["src"] = w.srcOfTag(v)
				}
				if c>>16 == 65009 { // tags added by the policies cm1x1 / cm2x1
					o["cm"] = o["cm"].(int) | int(c&3)
				}
			}
		}
	}
	return o
}

func (w *spWorld) srcOfTag(v int) string {
	if v < 16 {
		return "local"
	}
	idx := v/16 - 1
	for n, pi := range w.pinfo {
		if pi.Idx == idx {
			return n
		}
	}
	return "unknown"
}

func (w *spWorld) addrName(s string) string {
	if s == "10.0.0.100" {
		return "self"
	}
	if n, ok := w.byAddr[s]; ok {
		return n
	}
	return "other:" + s
}

// fold applies the UPDATEs a neighbour received, in order, to its view.
func (w *spWorld) fold(name string) {
	p := w.peers[name]
	view := w.views[name]
	cur := p.curSession()
	for _, m := range p.take() {
		if m.Msg == nil || m.Msg.Header.Type != bgp.BGP_MSG_UPDATE || m.Sess != cur {
			continue
		}
		u := m.Msg.Body.(*bgp.BGPUpdate)
		for _, wd := range u.WithdrawnRoutes {
			delete(view, fmt.Sprintf("%s#%d", spPrefixName(wd.NLRI.String()), wd.ID))
		}
		if len(u.NLRI) > 0 {
			pr := w.project(u.PathAttributes)
			for _, n := range u.NLRI {
				c := map[string]any{"id": int(n.ID), "x": spPrefixName(n.NLRI.String())}
				for k, v := range pr {
					c[k] = v
				}
				view[fmt.Sprintf("%s#%d", spPrefixName(n.NLRI.String()), n.ID)] = c
			}
		}
	}
}

func (w *spWorld) observe() map[string]any {
	obs := map[string]any{}
	sess := map[string]string{}
	views := map[string]any{}
	mviews := map[string]any{}
	adjin := map[string]any{}
	ctr := map[string]any{}
	for name, sp := range w.peers {
		st, _, pr := w.ss.peerState(sp.addr.String())
		if st == api.PeerState_SESSION_STATE_ESTABLISHED {
			sess[name] = "up"
		} else {
			sess[name] = "down"
		}
		w.fold(name)
		v := map[string]any{}
		mv := map[string]any{}
		for x := range spPrefixes {
			v[x] = map[string]any{"src": "none"}
			mv[x] = []any{}
		}
		w.gateMu.Lock()
		keys := vpSortedKeys(w.views[name])
		for _, k := range keys {
			r := w.views[name][k]
			x := r["x"].(string)
			if _, ok := spPrefixes[x]; !ok {
				v[x] = r // unknown prefix: shows up as a mismatch
				continue
			}
			mv[x] = append(mv[x].([]any), r)
			if r["id"].(int) == 0 {
				c := map[string]any{}
				for kk, vv := range r {
					if kk != "id" && kk != "x" {
						c[kk] = vv
					}
				}
				v[x] = c
			}
		}
		w.gateMu.Unlock()
		mviews[name] = mv
		views[name] = v
		// adj-in, white box
		ai := map[string]any{}
		for x := range spPrefixes {
			ai[x] = map[string]any{"src": "none"}
		}
		if sp2 := w.srvPeers[name]; sp2 != nil {
			for _, path := range sp2.adjRibIn.PathList([]bgp.Family{bgp.RF_IPv4_UC}, false) {
				pr := w.project(path.GetPathAttrs())
				ai[spPrefixName(path.GetNlri().String())] = map[string]any{"src": pr["src"], "v": pr["v"], "rej": path.IsRejected()}
			}
		}
		adjin[name] = ai
		c := map[string]int{"received": -1, "accepted": -1, "advertised": -1}
		if pr != nil {
			for _, af := range pr.AfiSafis {
				if af.State != nil && af.State.Family != nil && af.State.Family.Afi == api.Family_AFI_IP && af.State.Family.Safi == api.Family_SAFI_UNICAST {
					c["received"] = int(af.State.Received)
					c["accepted"] = int(af.State.Accepted)
					c["advertised"] = int(af.State.Advertised)
				}
			}
		}
		ctr[name] = c
	}
	rib := map[string]any{}
	for x := range spPrefixes {
		rib[x] = []any{}
	}
	_ = w.ss.s.ListPath(apiutil.ListPathRequest{TableType: api.TableType_TABLE_TYPE_GLOBAL, Family: bgp.RF_IPv4_UC}, func(prefix bgp.NLRI, paths []*apiutil.Path) {
		l := []any{}
		for _, p := range paths {
			pr := w.project(p.Attrs)
			l = append(l, map[string]any{"src": pr["src"], "v": pr["v"], "best": p.Best})
		}
		rib[spPrefixName(prefix.String())] = l
	})
	// best-path notification stream, folded in order (the table FIB/BMP/MRT consumers build)
	w.bestMu.Lock()
	for _, e := range w.bestEvents {
		x := e["x"].(string)
		if e["wd"].(bool) {
			delete(w.bestTable, x)
		} else {
			w.bestTable[x] = map[string]any{"src": e["src"], "v": e["v"]}
		}
	}
	w.bestEvents = nil
	bs := map[string]any{}
	for x := range spPrefixes {
		if r, ok := w.bestTable[x]; ok {
			bs[x] = r
		} else {
			bs[x] = map[string]any{"src": "none"}
		}
	}
	w.bestMu.Unlock()
	obs["beststream"] = bs
	// lookups over the nested prefix pool
	lookup := func(pfx string, opt apiutil.LookupOption) []string {
		res := []string{}
		_ = w.ss.s.ListPath(apiutil.ListPathRequest{TableType: api.TableType_TABLE_TYPE_GLOBAL, Family: bgp.RF_IPv4_UC,
			Prefixes: []*apiutil.LookupPrefix{{Prefix: pfx, LookupOption: opt}}}, func(prefix bgp.NLRI, paths []*apiutil.Path) {
			res = append(res, spPrefixName(prefix.String()))
		})
		sort.Strings(res)
		return res
	}
	obs["lookup"] = map[string]any{
		"exactx1":  lookup(spPrefixes["x1"], apiutil.LOOKUP_EXACT),
		"longerx1": lookup(spPrefixes["x1"], apiutil.LOOKUP_LONGER),
		"longer16": lookup("10.1.0.0/16", apiutil.LOOKUP_LONGER),
		"shortx2":  lookup(spPrefixes["x2"], apiutil.LOOKUP_SHORTER),
		// a bare host address inside x2 (and so inside x1): longest match over what the table holds
		"host": lookup("10.1.0.200", apiutil.LOOKUP_EXACT),
	}
	obs["sess"] = sess
	obs["views"] = views
	obs["mviews"] = mviews
	obs["adjin"] = adjin
	obs["ctr"] = ctr
	obs["rib"] = rib
	obs["t"] = int64(w.ss.now() * 1000)
	return obs
}

func (w *spWorld) addPeer(name string) {
	pi := w.pinfo[name]
	p := &api.Peer{
		Conf:      &api.PeerConf{NeighborAddress: spAddr(pi.Idx), PeerAsn: pi.AS},
		Transport: &api.Transport{PassiveMode: true},
		Timers:    &api.Timers{Config: &api.TimersConfig{HoldTime: 90, KeepaliveInterval: 30}},
	}
	if pi.Kind == "rrc" {
		p.RouteReflector = &api.RouteReflector{RouteReflectorClient: true, RouteReflectorClusterId: "10.0.0.100"}
	}
	if pi.Kind == "rs" {
		p.RouteServer = &api.RouteServer{RouteServerClient: true}
	}
	if pi.SendMax > 0 {
		p.AfiSafis = []*api.AfiSafi{{
			Config:   &api.AfiSafiConfig{Family: &api.Family{Afi: api.Family_AFI_IP, Safi: api.Family_SAFI_UNICAST}, Enabled: true},
			AddPaths: &api.AddPaths{Config: &api.AddPathsConfig{SendMax: uint32(pi.SendMax)}},
		}}
	}
	vpMust(w.ss.s.AddPeer(context.Background(), &api.AddPeerRequest{Peer: p}))
	vpMust(w.ss.s.mgmtOperation(func() error {
		w.gateMu.Lock()
		w.srvPeers[name] = w.ss.s.neighborMap[netip.MustParseAddr(spAddr(pi.Idx))]
		w.gateMu.Unlock()
		return nil
	}, false))
	w.peers[name] = newSimPeer(w.ss, name, spAddr(pi.Idx), pi.AS, spRid(pi.Idx))
	w.views[name] = map[string]map[string]any{}
}

func (w *spWorld) openFor(name string) *bgp.BGPMessage {
	sp := w.peers[name]
	caps := []bgp.ParameterCapabilityInterface{bgp.NewCapRouteRefresh(), bgp.NewCapFourOctetASNumber(sp.as), bgp.NewCapMultiProtocol(bgp.RF_IPv4_UC)}
	if w.pinfo[name].SendMax > 0 {
		caps = append(caps, bgp.NewCapAddPath([]*bgp.CapAddPathTuple{bgp.NewCapAddPathTuple(bgp.RF_IPv4_UC, bgp.BGP_ADD_PATH_RECEIVE)}))
	}
	return sp.openWith(0, caps)
}

func (w *spWorld) recvOptions(name string) *bgp.MarshallingOption {
	if w.pinfo[name].SendMax > 0 {
		return &bgp.MarshallingOption{AddPath: map[bgp.Family]bgp.BGPAddPathMode{bgp.RF_IPv4_UC: bgp.BGP_ADD_PATH_RECEIVE}}
	}
	return &bgp.MarshallingOption{}
}

// sessionUp brings neighbour name to Established (hold time 0: no keepalive traffic).
func (w *spWorld) sessionUp(name string) bool {
	sp := w.peers[name]
	for i := 0; i < 40; i++ {
		st, _, _ := w.ss.peerState(sp.addr.String())
		if st == api.PeerState_SESSION_STATE_ACTIVE {
			break
		}
		time.Sleep(time.Second)
		synctest.Wait()
	}
	w.views[name] = map[string]map[string]any{}
	sp.take()
	sp.connect()
	synctest.Wait()
	vpMust(sp.send(w.openFor(name)))
	synctest.Wait()
	sp.setOptions(w.recvOptions(name), &bgp.MarshallingOption{})
	vpMust(sp.send(bgp.NewBGPKeepAliveMessage()))
	synctest.Wait()
	return true
}

func (w *spWorld) step(st spStep) {
	w.stepNoWait(st)
	synctest.Wait()
}

func (w *spWorld) stepNoWait(st spStep) {
	switch st.Ev {
	case "Up":
		w.sessionUp(st.P)
	case "UpHold":
		w.gateMu.Lock()
		w.gates[w.peers[st.P].addr.String()] = make(chan struct{})
		w.gateMu.Unlock()
		w.sessionUp(st.P)
	case "Release":
		w.release(st.P)
	case "Down":
		w.peers[st.P].closeConn()
	case "Ann":
		sp := w.peers[st.P]
		m := bgp.NewBGPUpdateMessage(nil, w.attrs(st.R, sp.addr.String()), []bgp.PathNLRI{{NLRI: spNLRI(st.X)}})
		_ = sp.send(m)
	case "Wd":
		sp := w.peers[st.P]
		m := bgp.NewBGPUpdateMessage([]bgp.PathNLRI{{NLRI: spNLRI(st.X)}}, nil, nil)
		_ = sp.send(m)
	case "ApiAdd":
		_, err := w.ss.s.AddPath(apiutil.AddPathRequest{Paths: []*apiutil.Path{{
			Family: bgp.RF_IPv4_UC, Nlri: spNLRI(st.X), Attrs: w.attrs(st.R, "0.0.0.0"),
		}}})
		vpMust(err)
	case "ApiDel":
		_ = w.ss.s.DeletePath(apiutil.DeletePathRequest{Paths: []*apiutil.Path{{
			Family: bgp.RF_IPv4_UC, Nlri: spNLRI(st.X), Attrs: w.attrs(spRoute{Src: "local", V: 1, Med: -1, Lp: -1}, "0.0.0.0"),
		}}})
	case "Stall":
		w.peers[st.P].stall()
	case "Resume":
		w.peers[st.P].resume()
	case "Tick":
		time.Sleep(time.Duration(st.D) * time.Second)
	case "DelPeer":
		_ = w.ss.s.DeletePeer(context.Background(), &api.DeletePeerRequest{Address: w.peers[st.P].addr.String()})
		w.gateMu.Lock()
		delete(w.srvPeers, st.P)
		w.gateMu.Unlock()
	case "AddPeer":
		old := w.peers[st.P]
		w.addPeer(st.P)
		// keep the neighbour object (its connection counter) so that views stay per session
		old.closeConn()
	case "SetImp":
		w.setPolicy(api.PolicyDirection_POLICY_DIRECTION_IMPORT, st.Pol)
	case "SetExp":
		w.setPolicy(api.PolicyDirection_POLICY_DIRECTION_EXPORT, st.Pol)
	case "ResetIn":
		w.softReset(st.P, api.ResetPeerRequest_DIRECTION_IN)
	case "ResetOut":
		w.softReset(st.P, api.ResetPeerRequest_DIRECTION_OUT)
	case "ResetBoth":
		w.softReset(st.P, api.ResetPeerRequest_DIRECTION_BOTH)
	case "Refresh":
		_ = w.peers[st.P].send(bgp.NewBGPRouteRefreshMessage(bgp.AFI_IP, 0, bgp.SAFI_UNICAST))
	default:
		w.t.Fatalf("unknown step %q", st.Ev)
	}
}

// policies of the closed family of Speaker.tla (all conditions on prefix x1)
func (w *spWorld) definePolicies() {
	ctx := context.Background()
	vpMust(w.ss.s.AddDefinedSet(ctx, &api.AddDefinedSetRequest{DefinedSet: &api.DefinedSet{
		DefinedType: api.DefinedType_DEFINED_TYPE_PREFIX, Name: "ps-x1",
		Prefixes: []*api.Prefix{{IpPrefix: spPrefixes["x1"], MaskLengthMin: 24, MaskLengthMax: 24}},
	}}))
	vpMust(w.ss.s.AddDefinedSet(ctx, &api.AddDefinedSetRequest{DefinedSet: &api.DefinedSet{
		DefinedType: api.DefinedType_DEFINED_TYPE_AS_PATH, Name: "as-a", List: []string{"_65001_"},
	}}))
	vpMust(w.ss.s.AddPolicy(ctx, &api.AddPolicyRequest{Policy: &api.Policy{
		Name: "rejA",
		Statements: []*api.Statement{{Name: "st-rejA", Conditions: &api.Conditions{
			PrefixSet: &api.MatchSet{Type: api.MatchSet_TYPE_ANY, Name: "ps-x1"},
			AsPathSet: &api.MatchSet{Type: api.MatchSet_TYPE_ANY, Name: "as-a"},
		}, Actions: &api.Actions{RouteAction: api.RouteAction_ROUTE_ACTION_REJECT}}},
	}}))
	cond := &api.Conditions{PrefixSet: &api.MatchSet{Type: api.MatchSet_TYPE_ANY, Name: "ps-x1"}}
	pols := map[string]*api.Actions{
		"rejx1": {RouteAction: api.RouteAction_ROUTE_ACTION_REJECT},
		"medx1": {RouteAction: api.RouteAction_ROUTE_ACTION_ACCEPT, Med: &api.MedAction{Type: api.MedAction_TYPE_REPLACE, Value: 77}},
		"ppx1":  {RouteAction: api.RouteAction_ROUTE_ACTION_ACCEPT, AsPrepend: &api.AsPrependAction{Asn: 65099, Repeat: 2}},
		"cm1x1": {RouteAction: api.RouteAction_ROUTE_ACTION_ACCEPT, Community: &api.CommunityAction{Type: api.CommunityAction_TYPE_ADD, Communities: []string{"65009:1"}}},
		"cm2x1": {RouteAction: api.RouteAction_ROUTE_ACTION_ACCEPT, Community: &api.CommunityAction{Type: api.CommunityAction_TYPE_ADD, Communities: []string{"65009:2"}}},
	}
	for name, act := range pols {
		vpMust(w.ss.s.AddPolicy(ctx, &api.AddPolicyRequest{Policy: &api.Policy{
			Name:       name,
			Statements: []*api.Statement{{Name: "st-" + name, Conditions: cond, Actions: act}},
		}}))
	}
}

func (w *spWorld) setPolicy(dir api.PolicyDirection, pol string) {
	var pl []*api.Policy
	if pol != "acc" {
		pl = []*api.Policy{{Name: pol}}
	}
	vpMust(w.ss.s.SetPolicyAssignment(context.Background(), &api.SetPolicyAssignmentRequest{Assignment: &api.PolicyAssignment{
		Name: "global", Direction: dir, Policies: pl, DefaultAction: api.RouteAction_ROUTE_ACTION_ACCEPT,
	}}))
}

func (w *spWorld) softReset(target string, dir api.ResetPeerRequest_Direction) {
	addr := "all"
	if target != "all" {
		addr = w.peers[target].addr.String()
	}
	_ = w.ss.s.ResetPeer(context.Background(), &api.ResetPeerRequest{Address: addr, Soft: true, Direction: dir})
}

func (w *spWorld) startBestWatcher() {
	ctx, cancel := context.WithCancel(context.Background())
	w.bestCancel = cancel
	w.bestTable = map[string]any{}
	vpMust(w.ss.s.WatchEvent(ctx, WatchEventMessageCallbacks{
		OnBestPath: func(paths []*apiutil.Path, _ time.Time) {
			w.bestMu.Lock()
			for _, p := range paths {
				pr := w.project(p.Attrs)
				w.bestEvents = append(w.bestEvents, map[string]any{"x": spPrefixName(p.Nlri.String()), "wd": p.Withdrawal, "src": pr["src"], "v": pr["v"]})
			}
			w.bestMu.Unlock()
		},
	}, WatchBestPath(true)))
}

func (w *spWorld) release(name string) {
	a := w.peers[name].addr.String()
	w.gateMu.Lock()
	ch := w.gates[a]
	delete(w.gates, a)
	w.gateMu.Unlock()
	if ch != nil {
		close(ch)
	}
}

func (w *spWorld) yieldHook(site string, peerAddr string) {
	if site != "publish" {
		return
	}
	w.gateMu.Lock()
	ch := w.gates[peerAddr]
	sp := w.srvPeers[w.byAddr[peerAddr]]
	w.gateMu.Unlock()
	if ch == nil || sp == nil {
		return
	}
	// only hold the transition INTO Established (the callback has already recorded it)
	if sp.fsm.pConf.ReadOnly().State.SessionState != "established" {
		return
	}
	<-ch
}

func spRun(t *testing.T, tr *vpTrace, tid int, b *spBehaviour) {
	synctest.Test(t, func(t *testing.T) {
		w := &spWorld{t: t, b: b, peers: map[string]*simPeer{}, pinfo: b.Peers, views: map[string]map[string]map[string]any{},
			byAddr: map[string]string{}, byRid: map[string]string{}, gates: map[string]chan struct{}{}, srvPeers: map[string]*peer{}}
		VerifYieldHook = w.yieldHook
		defer func() { VerifYieldHook = nil }()
		w.ss = newSimServer(t, &api.Global{Asn: b.LocalAS})
		names := make([]string, 0, len(b.Peers))
		for n, pi := range b.Peers {
			names = append(names, n)
			w.byAddr[spAddr(pi.Idx)] = n
			w.byRid[spRid(pi.Idx)] = n
		}
		sort.Strings(names)
		for _, n := range names {
			w.addPeer(n)
		}
		w.definePolicies()
		w.startBestWatcher()
		synctest.Wait()
		tr.Emit(map[string]any{"ev": "Reset", "tid": tid, "peers": b.Peers})
		for _, st := range b.Steps {
			if os.Getenv("VERIF_DEBUG") != "" {
				fmt.Fprintf(os.Stderr, "DBG tid=%d step %+v\n", tid, st)
			}
			w.step(st)
			row := map[string]any{"ev": st.Ev, "obs": w.observe()}
			if st.P != "" {
				row["p"] = st.P
			}
			if st.X != "" {
				row["x"] = st.X
			}
			if st.Ev == "Ann" || st.Ev == "ApiAdd" {
				row["r"] = st.R
			}
			if st.Pol != "" {
				row["pol"] = st.Pol
			}
			tr.Emit(row)
		}
		// settle: open every gate, resume every neighbour, let everything drain
		for _, n := range names {
			w.release(n)
			w.peers[n].resume()
		}
		synctest.Wait()
		tr.Emit(map[string]any{"ev": "Settle", "obs": w.observe()})
		if w.bestCancel != nil {
			w.bestCancel()
		}
		w.ss.stop()
		for _, n := range names {
			w.peers[n].closeConn()
		}
		synctest.Wait()
		if os.Getenv("VERIF_DEBUG") != "" {
			for _, n := range names {
				fmt.Fprintf(os.Stderr, "DBG peer %s outgoing len=%d state=%v\n", n, w.srvPeers[n].fsm.outgoingCh.Len(), w.srvPeers[n].fsm.state.Load())
			}
		}
	})
}

// spCollide: with VERIF_COLLIDE=n the destination maps are keyed by hash mod n (n = 1: every prefix of a
// table shares one bucket), so that the collision chains of the table are walked by every step
func spCollide() {
	if n, _ := strconv.ParseUint(os.Getenv("VERIF_COLLIDE"), 10, 64); n > 0 {
		table.VerifKeyHook = func(h uint64) uint64 { return h % n }
	}
}

func TestVerifC01(t *testing.T) {
	tr := vpOpenTrace(t)
	defer tr.Close()
	spCollide()
	tid := 0
	vpReadLines(t, "VERIF_IN", func(line []byte) {
		var b spBehaviour
		if err := json.Unmarshal(line, &b); err != nil {
			t.Fatalf("bad behaviour: %v", err)
		}
		tid++
		spRun(t, tr, tid, &b)
	})
}

var _ = table.GLOBAL_RIB_NAME

// ---------------------------------------------------------------------------------------
// free-running mode: every neighbour and the API client execute their own part of the schedule
// CONCURRENTLY (no global quiescence between steps). Only the final, settled state is observed;
// it is a function of the per-source histories alone, so the trace lists the events actor by
// actor (each actor's own order preserved) followed by the final observation.

func (w *spWorld) waitUntil(cond func() bool, maxMs int) bool {
	for i := 0; i < maxMs; i++ {
		if cond() {
			return true
		}
		time.Sleep(time.Millisecond)
	}
	return cond()
}

func (w *spWorld) freeSessionUp(name string) {
	sp := w.peers[name]
	w.waitUntil(func() bool {
		st, _, _ := w.ss.peerState(sp.addr.String())
		return st == api.PeerState_SESSION_STATE_ACTIVE
	}, 40000)
	w.gateMu.Lock()
	w.views[name] = map[string]map[string]any{}
	w.gateMu.Unlock()
	sp.take()
	sp.connect()
	_ = sp.send(w.openFor(name))
	sp.setOptions(w.recvOptions(name), &bgp.MarshallingOption{})
	_ = sp.send(bgp.NewBGPKeepAliveMessage())
	w.waitUntil(func() bool {
		st, _, _ := w.ss.peerState(sp.addr.String())
		return st == api.PeerState_SESSION_STATE_ESTABLISHED
	}, 5000)
}

func (w *spWorld) chaosOp(st spStep) {
	ctx := context.Background()
	addr := ""
	if sp, ok := w.peers[st.P]; ok {
		addr = sp.addr.String()
	}
	switch st.K {
	case "ListPath":
		_ = w.ss.s.ListPath(apiutil.ListPathRequest{TableType: api.TableType_TABLE_TYPE_GLOBAL, Family: bgp.RF_IPv4_UC}, func(bgp.NLRI, []*apiutil.Path) {})
		_ = w.ss.s.ListPath(apiutil.ListPathRequest{TableType: api.TableType_TABLE_TYPE_ADJ_OUT, Name: addr, Family: bgp.RF_IPv4_UC}, func(bgp.NLRI, []*apiutil.Path) {})
	case "ListPeer":
		_ = w.ss.s.ListPeer(ctx, &api.ListPeerRequest{EnableAdvertised: true}, func(*api.Peer) {})
	case "WatchStart":
		w.gateMu.Lock()
		if w.watchCancel == nil {
			c, cancel := context.WithCancel(ctx)
			w.watchCancel = cancel
			w.gateMu.Unlock()
			_ = w.ss.s.WatchEvent(c, WatchEventMessageCallbacks{
				OnBestPath:   func([]*apiutil.Path, time.Time) {},
				OnPathUpdate: func([]*apiutil.Path, time.Time) {},
				OnPeerUpdate: func(*apiutil.WatchEventMessage_PeerEvent, time.Time) {},
			}, WatchBestPath(true), WatchUpdate(true, "", ""), WatchPeer())
		} else {
			w.gateMu.Unlock()
		}
	case "WatchStop":
		w.gateMu.Lock()
		c := w.watchCancel
		w.watchCancel = nil
		w.gateMu.Unlock()
		if c != nil {
			c()
		}
	case "Disable":
		_ = w.ss.s.DisablePeer(ctx, &api.DisablePeerRequest{Address: addr, Communication: "verif"})
	case "Enable":
		_ = w.ss.s.EnablePeer(ctx, &api.EnablePeerRequest{Address: addr})
	case "DelPeer":
		_ = w.ss.s.DeletePeer(ctx, &api.DeletePeerRequest{Address: addr})
	case "ResetBurst":
		// the named neighbour if its session is up, else any neighbour whose session is up (the chaos
		// operations are not part of the modelled state, so the choice is free)
		target := addr
		if st, _, _ := w.ss.peerState(addr); st != api.PeerState_SESSION_STATE_ESTABLISHED {
			for _, sp := range w.peers {
				if st, _, _ := w.ss.peerState(sp.addr.String()); st == api.PeerState_SESSION_STATE_ESTABLISHED {
					target = sp.addr.String()
					break
				}
			}
		}
		for i := 0; i < 5; i++ {
			_ = w.ss.s.ResetPeer(ctx, &api.ResetPeerRequest{Address: target, Communication: "verif"})
		}
	case "AddPeer":
		pi := w.pinfo[st.P]
		_ = w.ss.s.AddPeer(ctx, &api.AddPeerRequest{Peer: &api.Peer{
			Conf:      &api.PeerConf{NeighborAddress: addr, PeerAsn: pi.AS},
			Transport: &api.Transport{PassiveMode: true},
		}})
	}
}

func (w *spWorld) freeStep(st spStep) {
	spWD.progress.Add(1)
	switch st.Ev {
	case "Op":
		w.chaosOp(st)
	case "Up":
		w.freeSessionUp(st.P)
	case "Down":
		w.peers[st.P].closeConn()
		sp := w.peers[st.P]
		w.waitUntil(func() bool {
			s, _, _ := w.ss.peerState(sp.addr.String())
			return s != api.PeerState_SESSION_STATE_ESTABLISHED
		}, 5000)
	default:
		w.stepNoWait(st)
	}
}

func spRaceReports() int {
	prefix := os.Getenv("VERIF_RACELOG")
	if prefix == "" {
		return 0
	}
	n := 0
	files, _ := filepath.Glob(prefix + "*")
	for _, f := range files {
		b, err := os.ReadFile(f)
		if err == nil {
			n += strings.Count(string(b), "WARNING: DATA RACE")
		}
	}
	return n
}

func spRunFree(t *testing.T, tr *vpTrace, tid int, b *spBehaviour, seed int64) {
	health := map[string]any{"ev": "Health", "races": 0, "leak": false, "deadlock": false, "stuck": 0, "panic": ""}
	racesBefore := spRaceReports()
	plan := spFreePlan(b, tid)
	rows := plan.rows
	var final map[string]any
	// the rows that describe the schedule are on disk before it runs: a behaviour that kills the process
	// (fatal error: concurrent map writes) or never ends (watchdog) leaves a trace without Health record
	for _, r := range rows {
		tr.Emit(r)
	}
	tr.Flush()
	spWD.begin(tid)
	defer spWD.end()
	// written even when the testing package ends this (sub)test with FailNow/Goexit
	defer func() {
		health["races"] = spRaceReports() - racesBefore
		if final != nil {
			tr.Emit(final)
		}
		tr.Emit(health)
		tr.Flush()
	}()
	func() {
		defer func() {
			if r := recover(); r != nil {
				msg := fmt.Sprint(r)
				switch {
				case strings.Contains(msg, "blocked goroutines remain"):
					health["leak"] = true
				case strings.Contains(msg, "all goroutines in bubble are blocked"):
					health["deadlock"] = true
				default:
					panic(r)
				}
				health["panic"] = msg
			}
		}()
		synctest.Test(t, func(t *testing.T) {
			w := &spWorld{t: t, b: b, peers: map[string]*simPeer{}, pinfo: b.Peers, views: map[string]map[string]map[string]any{},
				byAddr: map[string]string{}, byRid: map[string]string{}, gates: map[string]chan struct{}{}, srvPeers: map[string]*peer{}}
			rng := newSplitMix(uint64(seed)*7919 + uint64(tid))
			var rmu sync.Mutex
			VerifYieldHook = func(site, peer string) {
				spWD.progress.Add(1)
				rmu.Lock()
				r := rng.next() % 4
				rmu.Unlock()
				if r == 0 {
					runtime.Gosched()
				}
			}
			defer func() { VerifYieldHook = nil }()
			w.ss = newSimServer(t, &api.Global{Asn: b.LocalAS})
			names := make([]string, 0, len(b.Peers))
			for n, pi := range b.Peers {
				names = append(names, n)
				w.byAddr[spAddr(pi.Idx)] = n
				w.byRid[spRid(pi.Idx)] = n
			}
			sort.Strings(names)
			for _, n := range names {
				w.addPeer(n)
			}
			w.definePolicies()
			synctest.Wait()
			actors, order, policy, chaos := plan.actors, plan.order, plan.policy, plan.chaos
			var running atomic.Int32
			done := make(chan struct{})
			var wg sync.WaitGroup
			for _, a := range order {
				steps := actors[a]
				wg.Add(1)
				running.Add(1)
				go func() {
					defer wg.Done()
					defer running.Add(-1)
					for _, st := range steps {
						w.freeStep(st)
					}
				}()
			}
			go func() { wg.Wait(); close(done) }()
			select {
			case <-done:
			case <-time.After(600 * time.Second): // virtual: every timer-driven retry has had its chance
				health["stuck"] = int(running.Load())
			}
			w.gateMu.Lock()
			if w.watchCancel != nil {
				w.watchCancel()
				w.watchCancel = nil
			}
			w.gateMu.Unlock()
			for _, n := range names {
				w.peers[n].resume()
			}
			synctest.Wait()
			if policy && !chaos {
				w.softReset("all", api.ResetPeerRequest_DIRECTION_BOTH)
				synctest.Wait()
				tr.Emit(map[string]any{"ev": "ResetBoth", "p": "all"})
			}
			if !chaos {
				final = map[string]any{"ev": "Settle", "obs": w.observe()}
			}
			w.ss.stop()
			for _, n := range names {
				w.peers[n].closeConn()
			}
			synctest.Wait()
		})
	}()
}

// spFreePlan splits a schedule per actor (every neighbour, the API client, the operator) and gives the
// trace rows that describe it; it depends on the schedule only, so that the watchdog can write the rows
// of a behaviour that never finishes.
type spFreePlanT struct {
	actors map[string][]spStep
	order  []string
	policy bool
	chaos  bool
	rows   []map[string]any
}

func spFreePlan(b *spBehaviour, tid int) *spFreePlanT {
	names := make([]string, 0, len(b.Peers))
	for n := range b.Peers {
		names = append(names, n)
	}
	sort.Strings(names)
	var rows []map[string]any
	// split the schedule per actor
	actors := map[string][]spStep{}
	order := append([]string{}, names...)
	order = append(order, "api", "ops")
	policy := false
	chaos := false
	for _, st := range b.Steps {
		a := st.P
		switch st.Ev {
		case "ApiAdd", "ApiDel", "SetImp", "SetExp", "ResetIn", "ResetOut", "ResetBoth":
			a = "api"
		case "UpHold", "Release", "Tick":
			continue
		case "Op":
			a = "ops"
			chaos = true
		}
		if st.Ev == "SetImp" || st.Ev == "SetExp" {
			policy = true
		}
		actors[a] = append(actors[a], st)
	}
	rows = append(rows, map[string]any{"ev": "Reset", "tid": tid, "peers": b.Peers, "mode": "free"})
	for _, a := range order {
		for _, st := range actors[a] {
			row := map[string]any{"ev": st.Ev}
			if st.P != "" {
				row["p"] = st.P
			}
			if st.X != "" {
				row["x"] = st.X
			}
			if st.Ev == "Ann" || st.Ev == "ApiAdd" {
				row["r"] = st.R
			}
			if st.Pol != "" {
				row["pol"] = st.Pol
			}
			if st.K != "" {
				row["k"] = st.K
			}
			rows = append(rows, row)
		}
	}
	return &spFreePlanT{actors: actors, order: order, policy: policy, chaos: chaos, rows: rows}
}

type splitMix struct{ s uint64 }

func newSplitMix(seed uint64) *splitMix { return &splitMix{s: seed} }
func (r *splitMix) next() uint64 {
	r.s += 0x9e3779b97f4a7c15
	z := r.s
	z = (z ^ (z >> 30)) * 0xbf58476d1ce4e5b9
	z = (z ^ (z >> 27)) * 0x94d049bb133111eb
	return z ^ (z >> 31)
}

// ---------------------------------------------------------------------------------------
// real-time watchdog for lock deadlocks.
//
// Inside the bubble a goroutine blocked on a sync.Mutex / sync.RWMutex is not "durably" blocked: when
// the speaker's goroutines dead-lock on locks, the bubble neither panics nor advances its clock, the
// behaviour simply never ends. The watchdog runs outside the bubble on the wall clock. It gives the
// verdict deadlock=true only when all of the following hold, and otherwise leaves the hang to the
// test timeout (an inconclusive run, not a verdict):
//   - the behaviour made no progress (no hook call, no harness step) and the process used next to no
//     CPU for spWDQuiet of wall time: the process is idle, not slow;
//   - the goroutine dump shows at least two goroutines of the speaker (non-test gobgp frames) that have
//     been waiting for a sync lock for a minute or more, at two or more different lock call sites;
//   - no speaker goroutine sits in a time- or I/O-dependent wait in the middle of an operation
//     (chan send, sleep, IO wait): such a goroutine may be the lock holder
//     and would move on when time passes, which the stopped bubble clock cannot show.
// On a verdict the rows of the behaviour and its Health record are written and the process exits;
// the behaviours after it are not run (the check accepts the short output only with this record).

const spWDQuiet = 75 * time.Second

type spWatchdog struct {
	progress atomic.Uint64
	mu       sync.Mutex
	active   bool
	tid      int
	tr       *vpTrace
}

var spWD spWatchdog

func (wd *spWatchdog) begin(tid int) {
	wd.mu.Lock()
	wd.active, wd.tid = true, tid
	wd.mu.Unlock()
	wd.progress.Add(1)
}

func (wd *spWatchdog) end() {
	wd.mu.Lock()
	wd.active = false
	wd.mu.Unlock()
	wd.progress.Add(1)
}

func spCPU() time.Duration {
	var ru syscall.Rusage
	if err := syscall.Getrusage(syscall.RUSAGE_SELF, &ru); err != nil {
		return 0
	}
	return time.Duration(ru.Utime.Nano() + ru.Stime.Nano())
}

var spLockWait = regexp.MustCompile(`^goroutine \d+ [^\[]*\[sync\.(Mutex|RWMutex)\.(Lock|RLock)(?:, (\d+) minutes)?`)
var spBusyWait = regexp.MustCompile(`^goroutine \d+ [^\[]*\[(chan send|sleep|IO wait)`)

// spJudgeDump reads a full goroutine dump; see the conditions above.
func spJudgeDump(dump string) (deadlock bool, why string, sites []string) {
	siteSet := map[string]bool{}
	waiters := 0
	for _, g := range strings.Split(dump, "\n\n") {
		lines := strings.Split(g, "\n")
		if len(lines) < 2 {
			continue
		}
		// the first frame of the speaker itself (function line followed by its file line)
		site := ""
		for i := 1; i+1 < len(lines); i += 2 {
			if strings.HasPrefix(lines[i], "created by") {
				break
			}
			if strings.Contains(lines[i], "github.com/osrg/gobgp/") && !strings.Contains(lines[i+1], "_test.go") {
				site = strings.TrimSpace(lines[i+1])
				if k := strings.Index(site, " +0x"); k > 0 {
					site = site[:k]
				}
				break
			}
			if strings.Contains(lines[i+1], "_test.go") {
				break // reached harness code before any speaker code
			}
		}
		if site == "" {
			continue
		}
		if m := spLockWait.FindStringSubmatch(lines[0]); m != nil {
			if mins, _ := strconv.Atoi(m[3]); mins >= 1 {
				waiters++
				siteSet[site] = true
			}
			continue
		}
		if spBusyWait.MatchString(lines[0]) {
			return false, "a speaker goroutine is in a time/IO dependent wait: " + lines[0] + " at " + site, nil
		}
	}
	for k := range siteSet {
		sites = append(sites, k)
	}
	sort.Strings(sites)
	if waiters < 2 || len(sites) < 2 {
		return false, fmt.Sprintf("%d lock waiters at %d sites", waiters, len(sites)), sites
	}
	return true, "", sites
}

func (wd *spWatchdog) run(stop <-chan struct{}) {
	last := wd.progress.Load()
	lastCPU := spCPU()
	since := time.Now()
	collected := false
	for {
		select {
		case <-stop:
			return
		case <-time.After(5 * time.Second):
		}
		now, cpu := wd.progress.Load(), spCPU()
		if now != last || cpu-lastCPU > 300*time.Millisecond {
			last, lastCPU, since, collected = now, cpu, time.Now(), false
			continue
		}
		wd.mu.Lock()
		active := wd.active
		wd.mu.Unlock()
		if !active {
			continue
		}
		if !collected && time.Since(since) >= 10*time.Second {
			// the wait times shown in a goroutine dump are counted from a garbage collection
			runtime.GC()
			collected, lastCPU = true, spCPU()
			continue
		}
		if time.Since(since) < spWDQuiet+10*time.Second {
			continue
		}
		buf := make([]byte, 64<<20)
		buf = buf[:runtime.Stack(buf, true)]
		dead, why, sites := spJudgeDump(string(buf))
		if p := os.Getenv("VERIF_RACELOG"); p != "" {
			os.WriteFile(p+".hang-dump.txt", buf, 0o644)
		}
		if !dead {
			fmt.Fprintf(os.Stderr, "verif watchdog: behaviour hangs, not judged a lock deadlock (%s)\n", why)
			since, collected = time.Now(), false // look again later
			continue
		}
		wd.mu.Lock()
		wd.tr.Emit(map[string]any{"ev": "Health", "races": 0, "leak": false, "deadlock": true, "stuck": 0,
			"panic": "lock deadlock (wall-clock watchdog): speaker goroutines wait for locks at " + strings.Join(sites, "; ")})
		wd.tr.Close()
		fmt.Fprintf(os.Stderr, "verif watchdog: lock deadlock in behaviour %d: %v\n", wd.tid, sites)
		os.Exit(3)
	}
}

func TestVerifFree(t *testing.T) {
	tr := vpOpenTrace(t)
	defer tr.Close()
	spWD.tr = tr
	spCollide()
	stopWD := make(chan struct{})
	defer close(stopWD)
	go spWD.run(stopWD)
	seed, _ := strconv.ParseInt(os.Getenv("VERIF_SEED"), 10, 64)
	tid := 0
	vpReadLines(t, "VERIF_IN", func(line []byte) {
		var b spBehaviour
		if err := json.Unmarshal(line, &b); err != nil {
			t.Fatalf("bad behaviour: %v", err)
		}
		tid++
		// one subtest per behaviour: a failed bubble (e.g. "race detected during execution of test")
		// ends only that subtest, the Health line is still written and the next behaviour still runs
		id := tid
		t.Run(fmt.Sprintf("b%d", id), func(t *testing.T) {
			spRunFree(t, tr, id, &b, seed)
		})
	})
}
