package zebra

// C19 (B): framing / safety of the stream splitters and decoders of the MRT, BMP, RTR, ZAPI and BFD
// packages.  TLC (spec/StreamFramingGen.tla) enumerates abstract cases; this harness concretises each
// with the packages' own constructors plus structure-aware truncation / length-field mutation, runs the
// REAL splitter / decoder under recover() with a watchdog, and RECORDS what happened (octets fed, token
// length, advance, error, panic, outcome under different octets beyond len(data), octets consumed from a
// counting connection, re-encoded octets).  Nothing is asserted here: spec/trace/StreamFramingTrace.tla
// reads the recorded octets itself and judges every case.
//
// Compiled into pkg/zebra (white-box access to the ZAPI body codecs); the other four packages are used
// through their exported entry points.

import (
	"bufio"
	"bytes"
	"encoding/binary"
	"encoding/json"
	"errors"
	"fmt"
	"io"
	"log/slog"
	"net"
	"net/netip"
	"os"
	"reflect"
	"sort"
	"sync"
	"syscall"
	"testing"
	"time"

	"github.com/osrg/gobgp/v4/pkg/packet/bfd"
	"github.com/osrg/gobgp/v4/pkg/packet/bgp"
	"github.com/osrg/gobgp/v4/pkg/packet/bmp"
	"github.com/osrg/gobgp/v4/pkg/packet/mrt"
	"github.com/osrg/gobgp/v4/pkg/packet/rtr"
)

// ---------------------------------------------------------------------------------------
// plumbing (this package has no shared helper dir)

func cdReadLines(t *testing.T, name string, f func(line []byte)) {
	p := os.Getenv(name)
	if p == "" {
		t.Skipf("%s not set", name)
	}
	fh, err := os.Open(p)
	if err != nil {
		t.Fatal(err)
	}
	defer fh.Close()
	sc := bufio.NewScanner(fh)
	sc.Buffer(make([]byte, 1<<20), 1<<28)
	for sc.Scan() {
		b := sc.Bytes()
		if len(b) == 0 {
			continue
		}
		c := make([]byte, len(b))
		copy(c, b)
		f(c)
	}
	if err := sc.Err(); err != nil {
		t.Fatal(err)
	}
}

type cdTrace struct {
	mu sync.Mutex
	w  *bufio.Writer
	f  *os.File
}

func cdOpenTrace(t *testing.T) *cdTrace {
	p := os.Getenv("VERIF_OUT")
	if p == "" {
		t.Skip("VERIF_OUT not set")
	}
	f, err := os.Create(p)
	if err != nil {
		t.Fatal(err)
	}
	return &cdTrace{w: bufio.NewWriterSize(f, 1<<20), f: f}
}

func (tr *cdTrace) Emit(v any) {
	b, err := json.Marshal(v)
	if err != nil {
		panic(err)
	}
	tr.mu.Lock()
	tr.w.Write(b)
	tr.w.WriteByte('\n')
	tr.mu.Unlock()
}

func (tr *cdTrace) Close() {
	tr.w.Flush()
	tr.f.Close()
}

func cdInts(b []byte) []int {
	o := make([]int, len(b))
	for i, x := range b {
		o[i] = int(x)
	}
	return o
}

// ---------------------------------------------------------------------------------------
// the abstract case (one per behaviour), as printed by StreamFramingGen.tla

type cdCase struct {
	K     string `json:"k"`     // "dec" | "split" | "scan"
	Proto string `json:"proto"` // mrt bmp rtr bfd zapi
	Msg   string `json:"msg"`   // catalogue name
	Ver   int    `json:"ver"`   // zapi version (0 otherwise)
	Sw    string `json:"sw"`    // zapi software flavour ("-" otherwise)
	M     string `json:"m"`     // dec: none|trunc|len|type ; split: declared-length class ; scan: "cut"
	At    string `json:"at"`    // dec/trunc: position class, dec/len: value class ; split: available class
	N     int    `json:"n"`     // dec/trunc "abs": absolute offset ; split: atEOF (0/1) ; scan: cut1*1000+cut2
}

// where the length field of each format lives
type cdFmt struct {
	off, w int // offset and width of the length field
	hdr    int // octets needed before the record can be framed
	add    int // what the field does not count (MRT: the 12-octet common header)
}

func cdFormat(proto string, ver int) cdFmt {
	switch proto {
	case "mrt":
		return cdFmt{8, 4, 12, 12}
	case "bmp":
		return cdFmt{1, 4, 6, 0}
	case "rtr":
		return cdFmt{4, 4, 8, 0}
	case "bfd":
		return cdFmt{3, 1, 4, 0}
	case "zapi":
		return cdFmt{0, 2, int(HeaderSize(uint8(ver))), 0}
	}
	panic("harness: unknown proto " + proto)
}

func cdSetLen(f cdFmt, data []byte, v uint64) {
	if len(data) < f.off+f.w {
		return
	}
	switch f.w {
	case 1:
		data[f.off] = byte(v)
	case 2:
		binary.BigEndian.PutUint16(data[f.off:], uint16(v))
	case 4:
		binary.BigEndian.PutUint32(data[f.off:], uint32(v))
	}
}

// ---------------------------------------------------------------------------------------
// catalogue: every message is built with the package's own constructors

type cdEntry struct {
	bytes  []byte                                       // serialised by the package
	sererr string                                       // "" or the serialisation error
	orig   any                                          // the constructed value
	decode func(data []byte) (val any, reenc []byte, reerr string, err error) // the real decoder (+ re-encoder)
	noRT   bool                                         // no inverse pair exists for this entry (see ZAPI request/response bodies)
}

func cdMust[T any](v T, err error) T {
	if err != nil {
		panic(fmt.Sprintf("harness: %v", err))
	}
	return v
}

func cdAddr(s string) netip.Addr { return netip.MustParseAddr(s) }

func cdAttrs4() []bgp.PathAttributeInterface {
	return []bgp.PathAttributeInterface{
		bgp.NewPathAttributeOrigin(0),
		bgp.NewPathAttributeAsPath([]bgp.AsPathParamInterface{bgp.NewAs4PathParam(bgp.BGP_ASPATH_ATTR_TYPE_SEQ, []uint32{65001, 4200000001})}),
		cdMust(bgp.NewPathAttributeNextHop(cdAddr("192.0.2.1"))),
		bgp.NewPathAttributeMultiExitDisc(50),
		bgp.NewPathAttributeCommunities([]uint32{65000<<16 | 7}),
	}
}

func cdNlri4() bgp.NLRI { return cdMust(bgp.NewIPAddrPrefix(netip.MustParsePrefix("10.1.0.0/24"))) }
func cdNlri6() bgp.NLRI { return cdMust(bgp.NewIPAddrPrefix(netip.MustParsePrefix("2001:db8:1::/48"))) }

func cdUpdate() *bgp.BGPMessage {
	return bgp.NewBGPUpdateMessage([]bgp.PathNLRI{{NLRI: cdMust(bgp.NewIPAddrPrefix(netip.MustParsePrefix("10.9.0.0/16")))}}, cdAttrs4(),
		[]bgp.PathNLRI{{NLRI: cdNlri4()}})
}

func cdUpdateAddPath() (*bgp.BGPMessage, []byte) {
	m := bgp.NewBGPUpdateMessage(nil, cdAttrs4(), []bgp.PathNLRI{{NLRI: cdNlri4(), ID: 7}})
	b := cdMust(m.Serialize(&bgp.MarshallingOption{AddPath: map[bgp.Family]bgp.BGPAddPathMode{bgp.RF_IPv4_UC: bgp.BGP_ADD_PATH_BOTH}}))
	return m, b
}

func cdOpen(as uint16, id string) *bgp.BGPMessage {
	return cdMust(bgp.NewBGPOpenMessage(as, 90, cdAddr(id), []bgp.OptionParameterInterface{
		bgp.NewOptionParameterCapability([]bgp.ParameterCapabilityInterface{bgp.NewCapFourOctetASNumber(uint32(as)), bgp.NewCapMultiProtocol(bgp.RF_IPv4_UC)})}))
}

// ---- MRT

func cdMrtDecode(data []byte) (any, []byte, string, error) {
	h, err := mrt.ParseHeader(data)
	if err != nil {
		return nil, nil, "", err
	}
	hl := mrt.MRT_COMMON_HEADER_LEN
	if h.Type.HasExtendedTimestamp() {
		hl += 4
	}
	if len(data) < hl {
		return nil, nil, "", errors.New("harness: short extended header")
	}
	m, err := mrt.ParseBody(data[hl:], h)
	if err != nil || m == nil || !cdReenc {
		return cdNilIface(m), nil, "", err
	}
	b, e := m.Serialize()
	if e != nil {
		return m, nil, e.Error(), nil
	}
	return m, b, "", nil
}

func cdNilIface[T any](p *T) any {
	if p == nil {
		return nil
	}
	return p
}

func cdMrtEntry(t mrt.MRTType, st mrt.MRTSubTyper, body mrt.Body, err error) *cdEntry {
	if err != nil {
		panic(fmt.Sprintf("harness: mrt body: %v", err))
	}
	ts := time.Unix(1700000000, 123456000)
	m := cdMust(mrt.NewMRTMessage(ts, t, st, body))
	e := &cdEntry{orig: m, decode: cdMrtDecode}
	b, serr := m.Serialize()
	if serr != nil {
		e.sererr = serr.Error()
	}
	e.bytes = b
	return e
}

func cdMrtCatalogue() map[string]*cdEntry {
	c := map[string]*cdEntry{}
	peers := []*mrt.Peer{
		mrt.NewPeer(cdAddr("1.1.1.1"), cdAddr("10.0.0.1"), 65001, true),
		mrt.NewPeer(cdAddr("2.2.2.2"), cdAddr("2001:db8::2"), 65002, false),
		mrt.NewPeer(cdAddr("3.3.3.3"), cdAddr("2001:db8::3"), 4200000003, true),
		mrt.NewPeer(cdAddr("4.4.4.4"), cdAddr("10.0.0.4"), 64, false),
	}
	c["pit"] = cdMrtEntry(mrt.TABLE_DUMPv2, mrt.PEER_INDEX_TABLE, mrt.NewPeerIndexTable(cdAddr("10.0.0.100"), "view", peers), nil)
	c["pit_empty"] = cdMrtEntry(mrt.TABLE_DUMPv2, mrt.PEER_INDEX_TABLE, mrt.NewPeerIndexTable(cdAddr("10.0.0.100"), "", nil), nil)
	gp := cdMust(mrt.NewGeoPeer(cdAddr("1.1.1.1"), 35.5, 139.5))
	gt, gerr := mrt.NewGeoPeerTable(cdAddr("10.0.0.100"), 10.25, -20.5, []*mrt.GeoPeer{gp})
	c["geo"] = cdMrtEntry(mrt.TABLE_DUMPv2, mrt.GEO_PEER_TABLE, gt, gerr)

	// RFC 6396 4.3.4: the MP_REACH_NLRI of a RIB entry stands for the entry's own prefix (and path identifier)
	attrs6 := func(n bgp.NLRI, fam bgp.Family) func(id uint32) []bgp.PathAttributeInterface {
		return func(id uint32) []bgp.PathAttributeInterface {
			return []bgp.PathAttributeInterface{
				bgp.NewPathAttributeOrigin(0),
				bgp.NewPathAttributeAsPath([]bgp.AsPathParamInterface{bgp.NewAs4PathParam(bgp.BGP_ASPATH_ATTR_TYPE_SEQ, []uint32{65001})}),
				cdMust(bgp.NewPathAttributeMpReachNLRI(fam, []bgp.PathNLRI{{NLRI: n, ID: id}}, cdAddr("2001:db8::1"))),
			}
		}
	}
	same := func(a []bgp.PathAttributeInterface) func(uint32) []bgp.PathAttributeInterface {
		return func(uint32) []bgp.PathAttributeInterface { return a }
	}
	vpn := cdMust(bgp.NewLabeledVPNIPAddrPrefix(netip.MustParsePrefix("10.2.0.0/24"), *bgp.NewMPLSLabelStack(100), bgp.NewRouteDistinguisherTwoOctetAS(65000, 1)))
	attrsVpn := func(id uint32) []bgp.PathAttributeInterface {
		return []bgp.PathAttributeInterface{
			bgp.NewPathAttributeOrigin(0),
			bgp.NewPathAttributeAsPath([]bgp.AsPathParamInterface{bgp.NewAs4PathParam(bgp.BGP_ASPATH_ATTR_TYPE_SEQ, []uint32{65001})}),
			cdMust(bgp.NewPathAttributeMpReachNLRI(bgp.RF_IPv4_VPN, []bgp.PathNLRI{{NLRI: vpn, ID: id}}, cdAddr("192.0.2.1"))),
		}
	}
	for _, ap := range []bool{false, true} {
		sfx, shift, pid := "", mrt.MRTSubTypeTableDumpv2(0), uint32(0)
		if ap {
			sfx, shift, pid = "_ap", 6, 9
		}
		ent := func(a func(uint32) []bgp.PathAttributeInterface) []*mrt.RibEntry {
			pid2 := uint32(0) // a path identifier only exists in the ADD-PATH subtypes
			if ap {
				pid2 = pid + 1
			}
			return []*mrt.RibEntry{mrt.NewRibEntry(0, 1700000000, pid, a(pid), ap), mrt.NewRibEntry(3, 1700000001, pid2, a(pid2), ap)}
		}
		c["rib_v4uc"+sfx] = cdMrtEntry(mrt.TABLE_DUMPv2, mrt.RIB_IPV4_UNICAST+shift, mrt.NewRib(1, bgp.RF_IPv4_UC, cdNlri4(), ent(same(cdAttrs4()))), nil)
		c["rib_v4mc"+sfx] = cdMrtEntry(mrt.TABLE_DUMPv2, mrt.RIB_IPV4_MULTICAST+shift, mrt.NewRib(2, bgp.RF_IPv4_MC, cdNlri4(), ent(same(cdAttrs4()))), nil)
		c["rib_v6uc"+sfx] = cdMrtEntry(mrt.TABLE_DUMPv2, mrt.RIB_IPV6_UNICAST+shift, mrt.NewRib(3, bgp.RF_IPv6_UC, cdNlri6(), ent(attrs6(cdNlri6(), bgp.RF_IPv6_UC))), nil)
		c["rib_v6mc"+sfx] = cdMrtEntry(mrt.TABLE_DUMPv2, mrt.RIB_IPV6_MULTICAST+shift, mrt.NewRib(4, bgp.RF_IPv6_MC, cdNlri6(), ent(attrs6(cdNlri6(), bgp.RF_IPv6_MC))), nil)
		c["rib_generic"+sfx] = cdMrtEntry(mrt.TABLE_DUMPv2, mrt.RIB_GENERIC+shift, mrt.NewRib(5, bgp.RF_IPv4_VPN, vpn, ent(attrsVpn)), nil)
	}
	a4, l4 := cdAddr("10.0.0.1"), cdAddr("10.0.0.100")
	a6, l6 := cdAddr("2001:db8::1"), cdAddr("2001:db8::100")
	sc := func(as4 bool) (mrt.Body, error) {
		return mrt.NewBGP4MPStateChange(65001, 65000, 3, a4, l4, as4, mrt.OPENCONFIRM, mrt.ESTABLISHED)
	}
	b, err := sc(false)
	c["bgp4mp_state"] = cdMrtEntry(mrt.BGP4MP, mrt.STATE_CHANGE, b, err)
	b, err = sc(true)
	c["bgp4mp_state_as4"] = cdMrtEntry(mrt.BGP4MP, mrt.STATE_CHANGE_AS4, b, err)
	b, err = mrt.NewBGP4MPStateChange(4200000001, 65000, 0, a6, l6, true, mrt.ACTIVE, mrt.IDLE)
	c["bgp4mp_state_as4_v6"] = cdMrtEntry(mrt.BGP4MP, mrt.STATE_CHANGE_AS4, b, err)
	type mk func(peeras, localas uint32, intfindex uint16, peerip, localip netip.Addr, isAS4 bool, msg *bgp.BGPMessage) (*mrt.BGP4MPMessage, error)
	for _, x := range []struct {
		name   string
		st     mrt.MRTSubTypeBGP4MP
		f      mk
		as4    bool
		addp   bool
		v6, et bool
	}{
		{"bgp4mp_msg", mrt.MESSAGE, mrt.NewBGP4MPMessage, false, false, false, false},
		{"bgp4mp_msg_as4", mrt.MESSAGE_AS4, mrt.NewBGP4MPMessage, true, false, false, false},
		{"bgp4mp_msg_as4_v6", mrt.MESSAGE_AS4, mrt.NewBGP4MPMessage, true, false, true, false},
		{"bgp4mp_msg_local", mrt.MESSAGE_LOCAL, mrt.NewBGP4MPMessageLocal, false, false, false, false},
		{"bgp4mp_msg_as4_local", mrt.MESSAGE_AS4_LOCAL, mrt.NewBGP4MPMessageLocal, true, false, false, false},
		{"bgp4mp_msg_ap", mrt.MESSAGE_ADDPATH, mrt.NewBGP4MPMessageAddPath, false, true, false, false},
		{"bgp4mp_msg_as4_ap", mrt.MESSAGE_AS4_ADDPATH, mrt.NewBGP4MPMessageAddPath, true, true, false, false},
		{"bgp4mp_msg_local_ap", mrt.MESSAGE_LOCAL_ADDPATH, mrt.NewBGP4MPMessageLocalAddPath, false, true, false, false},
		{"bgp4mp_msg_as4_local_ap", mrt.MESSAGE_AS4_LOCAL_ADDPATH, mrt.NewBGP4MPMessageLocalAddPath, true, true, false, false},
		{"bgp4mp_msg_as4_et", mrt.MESSAGE_AS4, mrt.NewBGP4MPMessage, true, false, false, true},
	} {
		pa, la := a4, l4
		if x.v6 {
			pa, la = a6, l6
		}
		var body *mrt.BGP4MPMessage
		var err error
		if x.addp {
			// the UPDATE of an ADD-PATH session: its NLRI carry path identifiers (RFC 8050)
			m, payload := cdUpdateAddPath()
			body, err = x.f(65001, 65000, 1, pa, la, x.as4, m)
			if body != nil {
				body.BGPMessagePayload = payload
			}
		} else {
			body, err = x.f(65001, 65000, 1, pa, la, x.as4, cdUpdate())
		}
		t := mrt.BGP4MP
		if x.et {
			t = mrt.BGP4MP_ET
		}
		c[x.name] = cdMrtEntry(t, x.st, body, err)
	}
	return c
}

// ---- BMP

func cdBmpDecode(data []byte) (any, []byte, string, error) {
	m, err := bmp.ParseBMPMessage(data)
	if m == nil {
		return nil, nil, "", err
	}
	if err != nil || !cdReenc {
		return m, nil, "", err
	}
	m.Header.Length = 0 // Serialize recomputes the length only when it is zero
	b, e := m.Serialize()
	if e != nil {
		return m, nil, e.Error(), nil
	}
	return m, b, "", nil
}

func cdBmpEntry(m *bmp.BMPMessage) *cdEntry {
	e := &cdEntry{orig: m, decode: cdBmpDecode}
	b, err := m.Serialize()
	if err != nil {
		e.sererr = err.Error()
	}
	e.bytes = b
	return e
}

func cdBmpCatalogue() map[string]*cdEntry {
	c := map[string]*cdEntry{}
	ph := func(t, flags uint8, addr string, stamp float64) bmp.BMPPeerHeader {
		a := cdAddr(addr)
		if t == bmp.BMP_PEER_TYPE_LOCAL_RIB {
			a = netip.Addr{} // RFC 9069 5.1: a Loc-RIB instance peer has no address
		}
		return *bmp.NewBMPPeerHeader(t, flags, 1000, a, 65001, cdAddr("1.1.1.1"), stamp)
	}
	c["init"] = cdBmpEntry(bmp.NewBMPInitiation([]bmp.BMPInfoTLVInterface{
		bmp.NewBMPInfoTLVString(bmp.BMP_INIT_TLV_TYPE_SYS_NAME, "name"), bmp.NewBMPInfoTLVString(bmp.BMP_INIT_TLV_TYPE_SYS_DESCR, "descr")}))
	c["init_unknown"] = cdBmpEntry(bmp.NewBMPInitiation([]bmp.BMPInfoTLVInterface{bmp.NewBMPInfoTLVUnknown(99, []byte{1, 2, 3})}))
	c["init_empty"] = cdBmpEntry(bmp.NewBMPInitiation(nil))
	c["term"] = cdBmpEntry(bmp.NewBMPTermination([]bmp.BMPTermTLVInterface{
		bmp.NewBMPTermTLV16(bmp.BMP_TERM_TLV_TYPE_REASON, bmp.BMP_TERM_REASON_PERMANENTLY_ADMIN), bmp.NewBMPTermTLVString(bmp.BMP_TERM_TLV_TYPE_STRING, "bye")}))
	c["term_unknown"] = cdBmpEntry(bmp.NewBMPTermination([]bmp.BMPTermTLVInterface{bmp.NewBMPTermTLVUnknown(77, []byte{9})}))
	// route monitoring: every peer type x peer-header flag set (V, L, A, O and all of them)
	for _, t := range []uint8{0, 1, 2, 3} {
		for _, fl := range []uint8{0x00, 0x80, 0x40, 0x20, 0x10, 0xf0} {
			addr := "10.0.0.1"
			if fl&0x80 != 0 && t != bmp.BMP_PEER_TYPE_LOCAL_RIB {
				addr = "2001:db8::1"
			}
			c[fmt.Sprintf("rm_t%d_f%02x", t, fl)] = cdBmpEntry(bmp.NewBMPRouteMonitoring(ph(t, fl, addr, 1700000000), cdUpdate()))
		}
	}
	c["rm_frac"] = cdBmpEntry(bmp.NewBMPRouteMonitoring(ph(0, 0, "10.0.0.1", 1700000000.3), cdUpdate()))
	c["stats"] = cdBmpEntry(bmp.NewBMPStatisticsReport(ph(0, 0, "10.0.0.1", 1700000000), []bmp.BMPStatsTLVInterface{
		bmp.NewBMPStatsTLV32(bmp.BMP_STAT_TYPE_REJECTED, 3), bmp.NewBMPStatsTLV64(bmp.BMP_STAT_TYPE_ADJ_RIB_IN, 1<<40),
		bmp.NewBMPStatsTLVPerAfiSafi64(bmp.BMP_STAT_TYPE_PER_AFI_SAFI_ADJ_RIB_IN, bgp.AFI_IP, bgp.SAFI_UNICAST, 5)}))
	c["stats_empty"] = cdBmpEntry(bmp.NewBMPStatisticsReport(ph(0, 0x80, "2001:db8::1", 1700000000), nil))
	notif := bgp.NewBGPNotificationMessage(bgp.BGP_ERROR_CEASE, bgp.BGP_ERROR_SUB_PEER_DECONFIGURED, []byte{1, 2})
	c["down_r1"] = cdBmpEntry(bmp.NewBMPPeerDownNotification(ph(0, 0, "10.0.0.1", 1700000000), bmp.BMP_PEER_DOWN_REASON_LOCAL_BGP_NOTIFICATION, notif, nil))
	c["down_r2"] = cdBmpEntry(bmp.NewBMPPeerDownNotification(ph(0, 0, "10.0.0.1", 1700000000), bmp.BMP_PEER_DOWN_REASON_LOCAL_NO_NOTIFICATION, nil, []byte{0, 9}))
	c["down_r3"] = cdBmpEntry(bmp.NewBMPPeerDownNotification(ph(0, 0x80, "2001:db8::1", 1700000000), bmp.BMP_PEER_DOWN_REASON_REMOTE_BGP_NOTIFICATION, notif, nil))
	c["down_r4"] = cdBmpEntry(bmp.NewBMPPeerDownNotification(ph(0, 0, "10.0.0.1", 1700000000), bmp.BMP_PEER_DOWN_REASON_REMOTE_NO_NOTIFICATION, nil, nil))
	c["down_r5"] = cdBmpEntry(bmp.NewBMPPeerDownNotification(ph(0, 0, "10.0.0.1", 1700000000), bmp.BMP_PEER_DOWN_REASON_PEER_DE_CONFIGURED, nil, nil))
	c["down_r6"] = cdBmpEntry(bmp.NewBMPPeerDownNotification(ph(3, 0, "0.0.0.0", 1700000000), bmp.BMP_PEER_DOWN_REASON_TLV_FOLLOWS, nil, nil,
		bmp.NewBMPInfoTLVString(bmp.BMP_INIT_TLV_TYPE_VRF_TABLE_NAME, "global")))
	c["up_v4"] = cdBmpEntry(bmp.NewBMPPeerUpNotification(ph(0, 0, "10.0.0.1", 1700000000), cdAddr("10.0.0.100"), 179, 40000, cdOpen(65000, "10.0.0.100"), cdOpen(65001, "1.1.1.1")))
	c["up_v6"] = cdBmpEntry(bmp.NewBMPPeerUpNotification(ph(0, 0x80, "2001:db8::1", 1700000000), cdAddr("2001:db8::100"), 179, 40000, cdOpen(65000, "10.0.0.100"), cdOpen(65001, "1.1.1.1")))
	c["up_locrib"] = cdBmpEntry(bmp.NewBMPPeerUpNotification(ph(3, 0, "0.0.0.0", 1700000000), cdAddr("0.0.0.0"), 0, 0, cdOpen(65000, "10.0.0.100"), cdOpen(65000, "10.0.0.100"),
		bmp.NewBMPInfoTLVString(bmp.BMP_INIT_TLV_TYPE_VRF_TABLE_NAME, "global")))
	c["mirror"] = cdBmpEntry(bmp.NewBMPRouteMirroring(ph(0, 0, "10.0.0.1", 1700000000), []bmp.BMPRouteMirrTLVInterface{
		bmp.NewBMPRouteMirrTLV16(bmp.BMP_ROUTE_MIRRORING_TLV_TYPE_INFO, bmp.BMP_ROUTE_MIRRORING_INFO_MSG_LOST),
		bmp.NewBMPRouteMirrTLVBGPMsg(bmp.BMP_ROUTE_MIRRORING_TLV_TYPE_BGP_MSG, cdUpdate())}))
	c["mirror_unknown"] = cdBmpEntry(bmp.NewBMPRouteMirroring(ph(0, 0, "10.0.0.1", 1700000000), []bmp.BMPRouteMirrTLVInterface{
		bmp.NewBMPRouteMirrTLVUnknown(55, []byte{1, 2, 3, 4})}))
	return c
}

// ---- RTR

func cdRtrDecode(data []byte) (any, []byte, string, error) {
	m, err := rtr.ParseRTR(data)
	if err != nil || m == nil || reflect.ValueOf(m).IsNil() {
		if m != nil && reflect.ValueOf(m).IsNil() {
			m = nil
		}
		if m == nil {
			return nil, nil, "", err
		}
		return m, nil, "", err
	}
	if !cdReenc {
		return m, nil, "", nil
	}
	b, e := cdSafeSer(func() ([]byte, error) { return m.Serialize() })
	if e != "" {
		return m, nil, e, nil
	}
	return m, b, "", nil
}

// re-encoding a decoded value is itself run under recover (an RTR value whose length field was
// mutated re-serialises with make([]byte, Len))
func cdSafeSer(f func() ([]byte, error)) (b []byte, e string) {
	defer func() {
		if r := recover(); r != nil {
			b, e = nil, fmt.Sprintf("panic: %v", r)
		}
	}()
	b, err := f()
	if err != nil {
		return nil, err.Error()
	}
	return b, ""
}

func cdRtrCatalogue() map[string]*cdEntry {
	c := map[string]*cdEntry{}
	add := func(name string, m rtr.RTRMessage) {
		e := &cdEntry{orig: m, decode: cdRtrDecode}
		b, err := m.Serialize()
		if err != nil {
			e.sererr = err.Error()
		}
		e.bytes = b
		c[name] = e
	}
	add("serial_notify", rtr.NewRTRSerialNotify(7, 100))
	add("serial_query", rtr.NewRTRSerialQuery(7, 100))
	add("reset_query", rtr.NewRTRResetQuery())
	add("cache_response", rtr.NewRTRCacheResponse(7))
	add("ipv4_prefix", rtr.NewRTRIPPrefix(cdAddr("10.1.0.0"), 16, 24, 65001, 1))
	add("ipv6_prefix", rtr.NewRTRIPPrefix(cdAddr("2001:db8::"), 32, 48, 4200000001, 0))
	add("end_of_data", rtr.NewRTREndOfData(7, 100))
	add("cache_reset", rtr.NewRTRCacheReset())
	add("error_report", rtr.NewRTRErrorReport(rtr.CORRUPT_DATA, cdMust(rtr.NewRTRResetQuery().Serialize()), []byte("bad")))
	add("error_report_empty", rtr.NewRTRErrorReport(rtr.INTERNAL_ERROR, nil, nil))
	return c
}

// ---- BFD

func cdBfdDecode(data []byte) (any, []byte, string, error) {
	h := &bfd.BFDHeader{}
	if err := h.UnmarshalBinary(data); err != nil {
		return nil, nil, "", err
	}
	if !cdReenc {
		return h, nil, "", nil
	}
	b, err := h.MarshalBinary()
	if err != nil {
		return h, nil, err.Error(), nil
	}
	return h, b, "", nil
}

func cdBfdCatalogue() map[string]*cdEntry {
	c := map[string]*cdEntry{}
	add := func(name string, h *bfd.BFDHeader) {
		e := &cdEntry{orig: h, decode: cdBfdDecode}
		b, err := h.MarshalBinary()
		if err != nil {
			e.sererr = err.Error()
		}
		e.bytes = b
		c[name] = e
	}
	add("down", &bfd.BFDHeader{Version: 1, State: bfd.StateDown, DetectTimeMultiplier: 3, MyDiscriminator: 1, DesiredMinTxInterval: 1000000, RequiredMinRxInterval: 1000000})
	add("init", &bfd.BFDHeader{Version: 1, State: bfd.StateInit, DetectTimeMultiplier: 3, MyDiscriminator: 1, YourDiscriminator: 2, DesiredMinTxInterval: 300000, RequiredMinRxInterval: 300000})
	add("up_poll", &bfd.BFDHeader{Version: 1, State: bfd.StateUp, Poll: true, DetectTimeMultiplier: 5, MyDiscriminator: 0xffffffff, YourDiscriminator: 2, DesiredMinTxInterval: 1, RequiredMinRxInterval: 0xffffffff})
	add("up_final", &bfd.BFDHeader{Version: 1, State: bfd.StateUp, Final: true, DetectTimeMultiplier: 255, MyDiscriminator: 9, YourDiscriminator: 8})
	add("admindown_diag", &bfd.BFDHeader{Version: 1, Diagnostic: bfd.DiagnosticAdministrativelyDown, State: bfd.StateAdminDown, DetectTimeMultiplier: 3, MyDiscriminator: 1})
	return c
}

// ---- ZAPI: messages go through the real ReceiveSingleMsg over a counting connection; bodies that
// have both directions are additionally round-tripped through their own decodeFromBytes/serialize

type cdConn struct {
	r        *bytes.Reader
	consumed int
}

func (c *cdConn) Read(b []byte) (int, error) {
	n, err := c.r.Read(b)
	c.consumed += n
	return n, err
}
func (c *cdConn) Write(b []byte) (int, error)        { return len(b), nil }
func (c *cdConn) Close() error                       { return nil }
func (c *cdConn) LocalAddr() net.Addr                { return &net.UnixAddr{Name: "l", Net: "unix"} }
func (c *cdConn) RemoteAddr() net.Addr               { return &net.UnixAddr{Name: "r", Net: "unix"} }
func (c *cdConn) SetDeadline(t time.Time) error      { return nil }
func (c *cdConn) SetReadDeadline(t time.Time) error  { return nil }
func (c *cdConn) SetWriteDeadline(t time.Time) error { return nil }

var cdLogger = slog.New(slog.NewTextHandler(io.Discard, nil))

type cdZapiVal struct {
	msg      *Message
	consumed int
	skipped  bool // ReceiveSingleMsg's documented third outcome: (nil, nil) = body not decodable, message skipped
}

func cdZapiDecoder(ver uint8, sw Software) func([]byte) (any, []byte, string, error) {
	return func(data []byte) (any, []byte, string, error) {
		conn := &cdConn{r: bytes.NewReader(data)}
		m, err := ReceiveSingleMsg(cdLogger, conn, ver, sw, "verif")
		v := &cdZapiVal{msg: m, consumed: conn.consumed, skipped: m == nil && err == nil}
		if err != nil || m == nil || !cdReenc {
			return v, nil, "", err
		}
		b, e := cdSafeSer(func() ([]byte, error) { return m.Serialize(sw) })
		if e != "" {
			return v, nil, e, nil
		}
		return v, b, "", nil
	}
}

var cdZapiFlavours = map[int][]string{
	2: {"quagga"}, 3: {"quagga"}, 4: {"frr3", "cumulus"}, 5: {"frr4", "frr5", "cumulus"},
	6: {"frr6", "frr7", "frr7.2", "frr7.3", "frr7.5", "frr8", "frr8.1", "frr8.2"},
}

// cdZapiEntry builds message msg for (version, flavour); nil when that command does not exist there
func cdZapiEntry(msg string, ver uint8, swName string) *cdEntry {
	sw := NewSoftware(ver, swName)
	e := &cdEntry{decode: cdZapiDecoder(ver, sw)}
	var body Body
	var cmd APIType
	pfx4 := netip.MustParseAddr("192.168.100.0")
	nh4 := netip.MustParseAddr("10.0.0.1")
	switch msg {
	case "hello":
		cmd, body, e.noRT = Hello, &HelloBody{redistDefault: RouteBGP, instance: 0}, true
	case "router_id_add":
		cmd, body, e.noRT = routerIDAdd, nil, true
	case "interface_add":
		cmd, body, e.noRT = interfaceAdd, nil, true
	case "redistribute_add":
		cmd, body, e.noRT = redistributeAdd, &redistributeBody{afi: afiIP, redist: RouteStatic, instance: 0}, true
	case "route_add", "route_delete", "redistribute_route_add":
		cmd = RouteAdd
		if msg == "route_delete" {
			cmd = RouteDelete
		}
		if msg == "redistribute_route_add" {
			if ver < 5 && !(ver == 4) {
				return nil
			}
			cmd = RedistributeRouteAdd
		}
		flag := FlagSelected.ToEach(ver, sw)
		b := &IPRouteBody{
			Type: RouteBGP, Flags: flag, Message: MessageNexthop | MessageMetric.ToEach(ver, sw) | MessageDistance.ToEach(ver, sw),
			Safi: SafiUnicast, Prefix: Prefix{Family: syscall.AF_INET, PrefixLen: 24, Prefix: pfx4},
			Nexthops: []Nexthop{{Gate: nh4}}, Distance: 20, Metric: 100,
		}
		body, e.noRT = b, true // route messages to zebra and from zebra are encoded differently in the older versions
	case "route_add_v6":
		cmd = RouteAdd
		if ver < 5 {
			cmd = BackwardIPv6RouteAdd
		}
		e.noRT = true
		body = &IPRouteBody{
			Type: RouteBGP, Flags: FlagSelected.ToEach(ver, sw), Message: MessageNexthop | MessageMetric.ToEach(ver, sw),
			Safi: SafiUnicast, Prefix: Prefix{Family: syscall.AF_INET6, PrefixLen: 64, Prefix: netip.MustParseAddr("2001:db8:1::")},
			Nexthops: []Nexthop{{Gate: netip.MustParseAddr("2001:db8::1")}}, Metric: 100,
		}
	case "nexthop_register":
		cmd, e.noRT = nexthopRegister, true // a request: parseMessage has no decoder for it
		body = &NexthopRegisterBody{api: nexthopRegister, Nexthops: []*RegisteredNexthop{
			{connected: 1, Family: syscall.AF_INET, Prefix: netip.MustParseAddr("192.168.1.1")},
			{connected: 0, Family: syscall.AF_INET6, Prefix: netip.MustParseAddr("2001:db8:1:1::1")}}}
	case "nexthop_update":
		cmd, e.noRT = nexthopUpdate, true
		body = &NexthopUpdateBody{
			Prefix:   Prefix{Family: syscall.AF_INET, PrefixLen: 32, Prefix: netip.MustParseAddr("192.168.1.1")},
			Metric:   1,
			Nexthops: []Nexthop{{Type: nexthopTypeIPv4IFIndex.toEach(ver), Gate: nh4, Ifindex: 2}},
		}
	case "label_manager_connect":
		if ver < 4 {
			return nil
		}
		cmd, body, e.noRT = labelManagerConnect, &labelManagerConnectBody{redistDefault: RouteBGP, instance: 0}, true
	case "get_label_chunk":
		if ver < 4 {
			return nil
		}
		cmd, body, e.noRT = getLabelChunk, &GetLabelChunkBody{ChunkSize: 10}, true // request and response bodies differ by design
	case "vrf_label":
		if ver < 5 {
			return nil
		}
		cmd, body, e.noRT = vrfLabel, &vrfLabelBody{label: 80, afi: afiIP, labelType: lspBGP}, true // a request as well
	case "unknown_command":
		cmd, body = APIType(9999), &unknownBody{Data: []byte{1, 2, 3, 4, 5}}
	default:
		panic("harness: unknown zapi message " + msg)
	}
	m := &Message{Header: Header{Len: HeaderSize(ver), Marker: HeaderMarker(ver), Version: ver, VrfID: 0, Command: cmd.ToEach(ver, sw)}, Body: body}
	e.orig = m
	b, s := cdSafeSer(func() ([]byte, error) { return m.Serialize(sw) })
	e.bytes, e.sererr = b, s
	return e
}

var cdZapiMsgs = []string{"hello", "router_id_add", "interface_add", "redistribute_add", "route_add", "route_delete", "redistribute_route_add",
	"route_add_v6", "nexthop_register", "nexthop_update", "label_manager_connect", "get_label_chunk", "vrf_label", "unknown_command"}

// ---------------------------------------------------------------------------------------

var cdCatalogues = map[string]map[string]*cdEntry{}

func cdLookup(c *cdCase) *cdEntry {
	if c.Proto == "zapi" {
		return cdZapiEntry(c.Msg, uint8(c.Ver), c.Sw)
	}
	cat, ok := cdCatalogues[c.Proto]
	if !ok {
		switch c.Proto {
		case "mrt":
			cat = cdMrtCatalogue()
		case "bmp":
			cat = cdBmpCatalogue()
		case "rtr":
			cat = cdRtrCatalogue()
		case "bfd":
			cat = cdBfdCatalogue()
		default:
			panic("harness: unknown proto " + c.Proto)
		}
		cdCatalogues[c.Proto] = cat
	}
	e, ok := cat[c.Msg]
	if !ok {
		panic(fmt.Sprintf("harness: %s has no catalogue entry %q", c.Proto, c.Msg))
	}
	return e
}

// cdReenc: re-encode what was decoded (pristine octets only: a value decoded from mutated octets is
// not re-serialised - an RTR value re-serialises with make([]byte, Len))
var cdReenc bool

// run f under recover with a real-time watchdog
type cdOutcome struct {
	val      any
	reenc    []byte
	reerr    string
	err      error
	panicked string
	timeout  bool
}

func cdRun(f func(data []byte) (any, []byte, string, error), data []byte) cdOutcome {
	ch := make(chan cdOutcome, 1)
	go func() {
		var o cdOutcome
		defer func() {
			if r := recover(); r != nil {
				o.panicked = fmt.Sprint(r)
			}
			ch <- o
		}()
		o.val, o.reenc, o.reerr, o.err = f(data)
	}()
	select {
	case o := <-ch:
		return o
	case <-time.After(10 * time.Second):
		return cdOutcome{timeout: true}
	}
}

func (o cdOutcome) sig() string {
	e := ""
	if o.err != nil {
		e = o.err.Error()
	}
	extra := ""
	if z, ok := o.val.(*cdZapiVal); ok {
		extra = fmt.Sprintf("c%d s%v", z.consumed, z.skipped)
	}
	return fmt.Sprintf("p=%q t=%v e=%q v=%v r=%x re=%q %s", o.panicked, o.timeout, e, o.val != nil, o.reenc, o.reerr, extra)
}

// three views of the same octets: no spare capacity, and spare capacity filled with two different
// patterns.  A decoder that only reads data[:len] cannot tell them apart.
func cdViews(data []byte) [3][]byte {
	n := len(data)
	tight := make([]byte, n, n)
	copy(tight, data)
	mk := func(p []byte) []byte {
		big := make([]byte, n+64)
		copy(big, data)
		for i := n; i < len(big); i++ {
			big[i] = p[(i-n)%len(p)]
		}
		return big[:n]
	}
	// pattern A makes every 2-octet window a plausible MRT extended-timestamp type (0x0011) / small lengths;
	// pattern B is all ones
	return [3][]byte{tight, mk([]byte{0x00, 0x11}), mk([]byte{0xff})}
}

func cdPos(at string, abs, n, hdr int) (int, bool) {
	var k int
	switch at {
	case "0":
		k = 0
	case "1":
		k = 1
	case "h-1":
		k = hdr - 1
	case "h":
		k = hdr
	case "h+1":
		k = hdr + 1
	case "h+2":
		k = hdr + 2
	case "q1":
		k = n / 4
	case "mid":
		k = n / 2
	case "q3":
		k = 3 * n / 4
	case "n-2":
		k = n - 2
	case "n-1":
		k = n - 1
	case "abs":
		k = abs
	default:
		panic("harness: unknown position class " + at)
	}
	return k, k >= 0 && k < n
}

func cdLenValue(at string, f cdFmt, n int) (uint64, bool) {
	max := uint64(1)<<(8*uint(f.w)) - 1
	tot := func(t int) (uint64, bool) { // field value for a declared TOTAL of t octets
		if t-f.add < 0 {
			return 0, false
		}
		return uint64(t - f.add), uint64(t-f.add) <= max
	}
	switch at {
	case "zero":
		return 0, true
	case "one":
		return 1, true
	case "h-1":
		return tot(f.hdr - 1)
	case "h":
		return tot(f.hdr)
	case "n-1":
		return tot(n - 1)
	case "n":
		return tot(n)
	case "n+1":
		return tot(n + 1)
	case "n+100":
		return tot(n + 100)
	case "max":
		return max, true
	case "max-1":
		return max - 1, true
	case "wrap0": // the field value for which (field + add) wraps to 0 in the field's width
		if f.add == 0 {
			return 0, false
		}
		return max - uint64(f.add) + 1, true
	case "wrap-h": // ... wraps to the header size
		if f.add == 0 {
			return 0, false
		}
		return max - uint64(f.add) + 1 + uint64(f.hdr), true
	}
	panic("harness: unknown length class " + at)
}

func cdDec(tr *cdTrace, c *cdCase) {
	e := cdLookup(c)
	row := map[string]any{"ev": "Dec", "proto": c.Proto, "msg": c.Msg, "ver": c.Ver, "sw": c.Sw, "m": c.M, "at": c.At, "skip": false}
	if e == nil {
		row["skip"], row["why"] = true, "no such command in this version"
		tr.Emit(row)
		return
	}
	if e.sererr != "" {
		row["skip"], row["why"], row["sererr"] = true, "constructor output does not serialise", e.sererr
		tr.Emit(row)
		return
	}
	f := cdFormat(c.Proto, c.Ver)
	full := len(e.bytes)
	data := append([]byte{}, e.bytes...)
	switch c.M {
	case "none":
	case "trunc":
		k, ok := cdPos(c.At, c.N, full, f.hdr)
		if !ok {
			row["skip"], row["why"] = true, "position outside the message"
			tr.Emit(row)
			return
		}
		data = data[:k]
	case "cut":
		// cut after k octets AND make the header's length field say so: the outer framing is
		// consistent, the nested elements (RIB entries, the carried BGP message, per-peer header,
		// TLVs) are what is cut short, at whatever octet k falls on
		k, ok := cdPos(c.At, c.N, full, f.hdr)
		if !ok || k < f.hdr || k < f.add {
			row["skip"], row["why"] = true, "position outside the message or inside its header"
			tr.Emit(row)
			return
		}
		data = data[:k]
		cdSetLen(f, data, uint64(k-f.add))
	case "len":
		v, ok := cdLenValue(c.At, f, full)
		if !ok {
			row["skip"], row["why"] = true, "length class not representable"
			tr.Emit(row)
			return
		}
		cdSetLen(f, data, v)
	case "type":
		// an unknown type / subtype code in the header's type field
		switch c.Proto {
		case "mrt":
			if c.At == "type" {
				binary.BigEndian.PutUint16(data[4:], 999)
			} else {
				binary.BigEndian.PutUint16(data[6:], 999)
			}
		case "bmp":
			data[5] = 99
			if c.At == "version" {
				data[5], data[0] = e.bytes[5], 9
			}
		case "rtr":
			data[1] = 99
		case "bfd":
			data[0] = 0xff // version 7, diagnostic 31
		case "zapi":
			if c.At == "version" {
				data[3] = 9
			} else if c.At == "marker" {
				data[2] = 0x55
			} else {
				binary.BigEndian.PutUint16(data[f.hdr-2:], 9999)
			}
		}
	default:
		panic("harness: unknown mutation " + c.M)
	}
	if c.Proto == "zapi" && c.M != "trunc" {
		// the connection carries the next message too: an over-read is possible and is counted
		// (a truncated message is the end of the connection)
		data = append(data, bytes.Repeat([]byte{0xee}, 40)...)
		row["trail"] = 40
	} else {
		row["trail"] = 0
	}
	views := cdViews(data)
	outs := [3]cdOutcome{}
	cdReenc = c.M == "none"
	for i, v := range views {
		outs[i] = cdRun(e.decode, v)
	}
	o := outs[0]
	row["full"] = full
	row["n"] = len(data)
	row["hdr"] = f.hdr
	if c.M == "none" {
		row["bytes"] = cdInts(data)
	} else {
		// only the head (which holds every format's length field) is needed to judge a mutated input
		row["bytes"] = cdInts(data[:min(len(data), 16)])
	}
	row["err"] = o.err != nil
	row["errs"] = ""
	if o.err != nil {
		row["errs"] = o.err.Error()
	}
	row["val"] = o.val != nil
	row["panic"] = o.panicked != ""
	row["panics"] = o.panicked
	row["timeout"] = o.timeout
	row["det"] = outs[0].sig() == outs[1].sig() && outs[0].sig() == outs[2].sig()
	row["untouched"] = bytes.Equal(views[0], data)
	row["consumed"], row["skipped"] = -1, false
	if z, ok := o.val.(*cdZapiVal); ok {
		row["consumed"], row["skipped"] = z.consumed, z.skipped
		row["val"] = z.msg != nil
	}
	row["reencok"] = o.reenc != nil && o.reerr == ""
	row["reerr"] = o.reerr
	row["reenc"] = cdInts(o.reenc)
	row["nort"] = e.noRT
	// the routes of a carried BGP UPDATE, as constructed and as decoded (octet equality alone cannot see
	// an UPDATE that is re-framed differently but re-serialises to the same octets)
	row["nlriin"], row["nlriout"] = cdNlris(e.orig), []string{}
	if c.M == "none" && o.val != nil {
		row["nlriout"] = cdNlris(o.val)
	}
	row["equal"], row["diff"] = false, ""
	if c.M == "none" && o.val != nil {
		v := o.val
		if z, ok := v.(*cdZapiVal); ok {
			v = z.msg
		}
		row["diff"] = cdDiff(e.orig, v)
		row["equal"] = row["diff"] == ""
	}
	tr.Emit(row)
}

func cdNlris(v any) []string {
	out := []string{}
	var m *bgp.BGPMessage
	switch t := v.(type) {
	case *mrt.MRTMessage:
		if b, ok := t.Body.(*mrt.BGP4MPMessage); ok {
			m = b.BGPMessage
		}
	case *bmp.BMPMessage:
		if b, ok := t.Body.(*bmp.BMPRouteMonitoring); ok {
			m = b.BGPUpdate
		}
	}
	if m == nil || m.Header.Type != bgp.BGP_MSG_UPDATE {
		return out
	}
	u := m.Body.(*bgp.BGPUpdate)
	for _, n := range u.WithdrawnRoutes {
		out = append(out, fmt.Sprintf("wd %s#%d", n.NLRI.String(), n.ID))
	}
	for _, n := range u.NLRI {
		out = append(out, fmt.Sprintf("ann %s#%d", n.NLRI.String(), n.ID))
	}
	return out
}

// value equality of the constructed and the decoded message: reflect.DeepEqual, except that a nil and an
// empty slice / map are the same value (decoders allocate, constructors often do not).  The first
// difference is reported as a path for the trace.
func cdEqual(a, b any) bool { return cdDiff(a, b) == "" }

func cdDiff(a, b any) string {
	return cdDiffV(reflect.ValueOf(a), reflect.ValueOf(b), "", 0)
}

func cdDiffV(a, b reflect.Value, path string, depth int) string {
	if depth > 40 {
		return ""
	}
	if !a.IsValid() || !b.IsValid() {
		if a.IsValid() == b.IsValid() {
			return ""
		}
		return path + ": one side is absent"
	}
	if a.Type() != b.Type() {
		return fmt.Sprintf("%s: type %s vs %s", path, a.Type(), b.Type())
	}
	switch a.Kind() {
	case reflect.Bool:
		if a.Bool() != b.Bool() {
			return fmt.Sprintf("%s: %v vs %v", path, a.Bool(), b.Bool())
		}
	case reflect.Int, reflect.Int8, reflect.Int16, reflect.Int32, reflect.Int64:
		if a.Int() != b.Int() {
			return fmt.Sprintf("%s: %d vs %d", path, a.Int(), b.Int())
		}
	case reflect.Uint, reflect.Uint8, reflect.Uint16, reflect.Uint32, reflect.Uint64, reflect.Uintptr:
		if a.Uint() != b.Uint() {
			return fmt.Sprintf("%s: %d vs %d", path, a.Uint(), b.Uint())
		}
	case reflect.Float32, reflect.Float64:
		if a.Float() != b.Float() {
			return fmt.Sprintf("%s: %v vs %v", path, a.Float(), b.Float())
		}
	case reflect.String:
		if a.String() != b.String() {
			return fmt.Sprintf("%s: %q vs %q", path, a.String(), b.String())
		}
	case reflect.Slice, reflect.Array:
		if a.Len() != b.Len() {
			return fmt.Sprintf("%s: length %d vs %d", path, a.Len(), b.Len())
		}
		for i := 0; i < a.Len(); i++ {
			if d := cdDiffV(a.Index(i), b.Index(i), fmt.Sprintf("%s[%d]", path, i), depth+1); d != "" {
				return d
			}
		}
	case reflect.Map:
		if a.Len() != b.Len() {
			return fmt.Sprintf("%s: map size %d vs %d", path, a.Len(), b.Len())
		}
		for _, k := range a.MapKeys() {
			bv := b.MapIndex(k)
			if !bv.IsValid() {
				return fmt.Sprintf("%s: key %v missing", path, k)
			}
			if d := cdDiffV(a.MapIndex(k), bv, fmt.Sprintf("%s[%v]", path, k), depth+1); d != "" {
				return d
			}
		}
	case reflect.Struct:
		for i := 0; i < a.NumField(); i++ {
			name := a.Type().Field(i).Name
			// pure wire caches, whose agreement with the octets is judged through the octets:
			// the attribute length cache (the MRT encoding of MP_REACH_NLRI is shorter) and
			// the raw copy of a carried BGP message
			if (name == "Length" && a.Type().Name() == "PathAttribute") || name == "BGPMessagePayload" || name == "BGPUpdatePayload" {
				continue
			}
			if d := cdDiffV(a.Field(i), b.Field(i), path+"."+a.Type().Field(i).Name, depth+1); d != "" {
				return d
			}
		}
	case reflect.Pointer, reflect.Interface:
		if a.IsNil() || b.IsNil() {
			if a.IsNil() == b.IsNil() {
				return ""
			}
			return path + ": nil vs non-nil"
		}
		if a.Kind() == reflect.Pointer && a.Pointer() == b.Pointer() {
			return ""
		}
		return cdDiffV(a.Elem(), b.Elem(), path, depth+1)
	case reflect.Func, reflect.Chan, reflect.UnsafePointer:
		if a.Pointer() != b.Pointer() {
			return path + ": different pointers"
		}
	}
	return ""
}

// ---- splitters

type cdSplitFn func(data []byte, atEOF bool) (int, []byte, error)

func cdSplitter(proto string) cdSplitFn {
	switch proto {
	case "mrt":
		return mrt.SplitMrt
	case "bmp":
		return bmp.SplitBMP
	}
	panic("harness: no splitter for " + proto)
}

type cdSplitOut struct {
	adv, toklen int
	hastok      bool
	prefix      bool
	err         bool
	panicked    bool
}

func cdCallSplit(f cdSplitFn, data []byte, atEOF bool) (o cdSplitOut) {
	defer func() {
		if r := recover(); r != nil {
			o = cdSplitOut{panicked: true}
		}
	}()
	adv, tok, err := f(data, atEOF)
	o.adv, o.err = adv, err != nil
	if tok != nil {
		o.hastok, o.toklen = true, len(tok)
		o.prefix = len(tok) <= len(data) && (len(tok) == 0 || &tok[0] == &data[0]) && bytes.Equal(tok, data[:len(tok)])
	}
	return o
}

func cdSplit(tr *cdTrace, c *cdCase) {
	e := cdLookup(c)
	row := map[string]any{"ev": "Split", "proto": c.Proto, "msg": c.Msg, "m": c.M, "at": c.At, "eof": c.N == 1, "skip": false}
	f := cdFormat(c.Proto, c.Ver)
	rec := append([]byte{}, e.bytes...)
	two := append(append([]byte{}, rec...), rec...)
	var n int
	switch c.At {
	case "0":
		n = 0
	case "1":
		n = 1
	case "h-1":
		n = f.hdr - 1
	case "h":
		n = f.hdr
	case "h+1":
		n = f.hdr + 1
	case "rec-1":
		n = len(rec) - 1
	case "rec":
		n = len(rec)
	case "rec+1":
		n = len(rec) + 1
	case "rec+rec":
		n = len(two)
	default:
		panic("harness: unknown available class " + c.At)
	}
	data := append([]byte{}, two[:n]...)
	if c.M != "asis" {
		v, ok := cdLenValue(c.M, f, n)
		if !ok || n < f.off+f.w {
			row["skip"], row["why"] = true, "length class not representable / field not present"
			tr.Emit(row)
			return
		}
		cdSetLen(f, data, v)
	}
	fn := cdSplitter(c.Proto)
	views := cdViews(data)
	outs := [3]cdSplitOut{}
	for i, v := range views {
		outs[i] = cdCallSplit(fn, v, c.N == 1)
	}
	o := outs[0]
	row["n"], row["hdr"] = n, f.hdr
	row["bytes"] = cdInts(data)
	row["adv"], row["toklen"], row["hastok"], row["prefix"], row["err"], row["panic"] = o.adv, o.toklen, o.hastok, o.prefix, o.err, o.panicked
	row["det"] = outs[0] == outs[1] && outs[0] == outs[2]
	row["poison"] = []any{map[string]any{"adv": outs[1].adv, "hastok": outs[1].hastok, "err": outs[1].err},
		map[string]any{"adv": outs[2].adv, "hastok": outs[2].hastok, "err": outs[2].err}}
	tr.Emit(row)
}

// chunked reader: delivers the stream in pieces cut at the given offsets
type cdChunkReader struct {
	data []byte
	cuts []int
	pos  int
}

func (r *cdChunkReader) Read(b []byte) (int, error) {
	if r.pos >= len(r.data) {
		return 0, io.EOF
	}
	end := len(r.data)
	for _, c := range r.cuts {
		if c > r.pos && c < end {
			end = c
		}
	}
	n := copy(b, r.data[r.pos:end])
	r.pos += n
	return n, nil
}

// scan: a stream of three catalogue records goes through bufio.Scanner with the real splitter,
// delivered in chunks cut at two offsets
func cdScan(tr *cdTrace, c *cdCase) {
	row := map[string]any{"ev": "Scan", "proto": c.Proto, "skip": false}
	var names []string
	switch c.Proto {
	case "mrt":
		names = []string{"pit_empty", "rib_v4uc", "bgp4mp_msg_as4"}
	case "bmp":
		names = []string{"init_empty", "up_v4", "term"}
	default:
		panic("harness: no splitter for " + c.Proto)
	}
	var stream []byte
	lens := []int{}
	for _, nme := range names {
		e := cdLookup(&cdCase{Proto: c.Proto, Msg: nme})
		stream = append(stream, e.bytes...)
		lens = append(lens, len(e.bytes))
	}
	c1, c2 := c.N/1000, c.N%1000
	if c1 >= len(stream) || c2 >= len(stream) {
		row["skip"], row["why"] = true, "cut outside the stream"
		tr.Emit(row)
		return
	}
	toks, same := []int{}, true
	var scanErr, panicked string
	func() {
		defer func() {
			if r := recover(); r != nil {
				panicked = fmt.Sprint(r)
			}
		}()
		sc := bufio.NewScanner(&cdChunkReader{data: stream, cuts: []int{c1, c2}})
		sc.Buffer(make([]byte, 0, 16), 1<<20) // a small initial buffer: the scanner has to grow and shift it
		sc.Split(bufio.SplitFunc(cdSplitter(c.Proto)))
		off := 0
		for sc.Scan() && len(toks) < 16 {
			t := sc.Bytes()
			toks = append(toks, len(t))
			if off+len(t) > len(stream) || !bytes.Equal(t, stream[off:off+len(t)]) {
				same = false
			}
			off += len(t)
		}
		if err := sc.Err(); err != nil {
			scanErr = err.Error()
		}
	}()
	row["lens"], row["total"], row["cuts"] = lens, len(stream), []int{c1, c2}
	row["toks"], row["same"], row["err"], row["panic"] = toks, same, scanErr, panicked != ""
	tr.Emit(row)
}

func TestVerifC19Codec(t *testing.T) {
	tr := cdOpenTrace(t)
	defer tr.Close()
	tid := 0
	cdReadLines(t, "VERIF_IN", func(line []byte) {
		var c cdCase
		if err := json.Unmarshal(line, &c); err != nil {
			t.Fatalf("bad case: %v", err)
		}
		tid++
		tr.Emit(map[string]any{"ev": "Reset", "tid": tid})
		switch c.K {
		case "dec":
			cdDec(tr, &c)
		case "split":
			cdSplit(tr, &c)
		case "scan":
			cdScan(tr, &c)
		default:
			t.Fatalf("unknown case kind %q", c.K)
		}
	})
}

// TestVerifC19Catalogue prints the catalogue names (development aid: keeps spec/StreamFramingDom.tla in step)
func TestVerifC19Catalogue(t *testing.T) {
	if os.Getenv("VERIF_CATALOGUE") == "" {
		t.Skip()
	}
	for _, p := range []string{"mrt", "bmp", "rtr", "bfd"} {
		cdLookup(&cdCase{Proto: p, Msg: map[string]string{"mrt": "pit", "bmp": "init", "rtr": "serial_notify", "bfd": "down"}[p]})
		names := []string{}
		for n := range cdCatalogues[p] {
			names = append(names, n)
		}
		sort.Strings(names)
		fmt.Printf("CATALOGUE %s %q\n", p, names)
	}
}
