package server

// C02, ADD-PATH receive: replays TLC-generated schedules of spec/AdjInApGen.tla on the REAL BgpServer
// inside a synctest bubble. Neighbours listed in "appeers" negotiate ADD-PATH (the speaker receives,
// they send path identifiers); the others send plain NLRI. After every step (at exact quiescence) the
// harness records the white-box Adj-RIB-In of every neighbour with the REMOTE path identifiers and
// rejected flags, the global table listing (identifier, local identifier, source neighbour, best
// flag), the ListPeer counters, the folded best-path watcher stream and what every neighbour has been
// sent. No property is asserted here: traces are judged by TLC (spec/trace/AdjInApTrace.tla).
//
// Compiled together with harness/c01 (spWorld and its helpers) and harness/servercommon.

import (
	"context"
	"encoding/json"
	"fmt"
	"net/netip"
	"os"
	"sort"
	"sync"
	"testing"
	"testing/synctest"
	"time"

	api "github.com/osrg/gobgp/v4/api"
	"github.com/osrg/gobgp/v4/pkg/apiutil"
	"github.com/osrg/gobgp/v4/pkg/packet/bgp"
)

type apKey struct {
	X  string `json:"x"`
	ID uint32 `json:"id"`
}

type apMsg struct {
	Wd  []apKey `json:"wd"`
	Ann []apKey `json:"ann"`
	R   spRoute `json:"r"`
}

type apStep struct {
	Ev   string  `json:"ev"`
	P    string  `json:"p,omitempty"`
	X    string  `json:"x,omitempty"`
	R    spRoute `json:"r"`
	Wd   []apKey `json:"wd"`
	Ann  []apKey `json:"ann"`
	Msgs []apMsg `json:"msgs"`
	End  string  `json:"end,omitempty"`
	Hold bool    `json:"hold,omitempty"`
}

type apBehaviour struct {
	Peers   map[string]spPeerInfo `json:"peers"`
	LocalAS uint32                `json:"localas"`
	ApPeers []string              `json:"appeers"`
	Steps   []apStep              `json:"steps"`
}

type apWorld struct {
	*spWorld
	ap       map[string]bool
	holdMu   sync.Mutex
	holdAddr string        // neighbour whose next received message is held in front of its handler
	holdCh   chan struct{} // closed to let it go
}

// apYield: hook at the lock-free point between reading a message from a neighbour and handing it to the
// server's handler ("recv"). A flood with hold=true parks the LAST of its UPDATEs there until the session
// has been closed / the neighbour removed: "already read, not yet handled" made exact.
func (w *apWorld) apYield(site string, peerAddr string) {
	if site != "recv" {
		return
	}
	w.holdMu.Lock()
	var ch chan struct{}
	if w.holdAddr == peerAddr {
		ch = w.holdCh
		w.holdAddr = ""
	}
	w.holdMu.Unlock()
	if ch != nil {
		<-ch
	}
}

func apKeys(l []apKey) []apKey {
	if l == nil {
		return []apKey{}
	}
	return l
}

// apAddPeer configures a neighbour; with ADD-PATH receive for the neighbours of "appeers".
func (w *apWorld) apAddPeer(name string) {
	if !w.ap[name] {
		w.addPeer(name)
		return
	}
	pi := w.pinfo[name]
	p := &api.Peer{
		Conf:      &api.PeerConf{NeighborAddress: spAddr(pi.Idx), PeerAsn: pi.AS},
		Transport: &api.Transport{PassiveMode: true},
		Timers:    &api.Timers{Config: &api.TimersConfig{HoldTime: 90, KeepaliveInterval: 30}},
		AfiSafis: []*api.AfiSafi{{
			Config:   &api.AfiSafiConfig{Family: &api.Family{Afi: api.Family_AFI_IP, Safi: api.Family_SAFI_UNICAST}, Enabled: true},
			AddPaths: &api.AddPaths{Config: &api.AddPathsConfig{Receive: true}},
		}},
	}
	if pi.Kind == "rrc" {
		p.RouteReflector = &api.RouteReflector{RouteReflectorClient: true, RouteReflectorClusterId: "10.0.0.100"}
	}
	vpMust(w.ss.s.AddPeer(context.Background(), &api.AddPeerRequest{Peer: p}))
	vpMust(w.ss.s.mgmtOperation(func() error {
		w.gateMu.Lock()
		w.srvPeers[name] = w.ss.s.neighborMap[netip.MustParseAddr(spAddr(pi.Idx))]
		w.gateMu.Unlock()
		return nil
	}, false))
	w.peers[name] = newSimPeer(w.ss, name, spAddr(pi.Idx), pi.AS, spRid(pi.Idx))
	w.views[name] = map[string]map[string]any{}
}

// apSessionUp brings a neighbour to Established (hold time 0). An ADD-PATH neighbour announces the
// capability "send" for IPv4 unicast and from then on encodes a path identifier in front of every NLRI;
// the speaker does not send path identifiers to it.
func (w *apWorld) apSessionUp(name string) {
	if !w.ap[name] {
		w.sessionUp(name)
		return
	}
	sp := w.peers[name]
	for i := 0; i < 40; i++ {
		st, _, _ := w.ss.peerState(sp.addr.String())
		if st == api.PeerState_SESSION_STATE_ACTIVE {
			break
		}
		time.Sleep(time.Second)
		synctest.Wait()
	}
	w.views[name] = map[string]map[string]any{}
	sp.take()
	sp.connect()
	synctest.Wait()
	caps := []bgp.ParameterCapabilityInterface{bgp.NewCapRouteRefresh(), bgp.NewCapFourOctetASNumber(sp.as), bgp.NewCapMultiProtocol(bgp.RF_IPv4_UC),
		bgp.NewCapAddPath([]*bgp.CapAddPathTuple{bgp.NewCapAddPathTuple(bgp.RF_IPv4_UC, bgp.BGP_ADD_PATH_SEND)})}
	vpMust(sp.send(sp.openWith(0, caps)))
	synctest.Wait()
	sp.setOptions(&bgp.MarshallingOption{}, &bgp.MarshallingOption{AddPath: map[bgp.Family]bgp.BGPAddPathMode{bgp.RF_IPv4_UC: bgp.BGP_ADD_PATH_SEND}})
	vpMust(sp.send(bgp.NewBGPKeepAliveMessage()))
	synctest.Wait()
}

// apUpdate builds ONE UPDATE: withdrawn routes and announced routes (all with the attributes of r).
func (w *apWorld) apUpdate(name string, wd, ann []apKey, r spRoute) *bgp.BGPMessage {
	sp := w.peers[name]
	var wl, al []bgp.PathNLRI
	for _, k := range wd {
		wl = append(wl, bgp.PathNLRI{NLRI: spNLRI(k.X), ID: k.ID})
	}
	for _, k := range ann {
		al = append(al, bgp.PathNLRI{NLRI: spNLRI(k.X), ID: k.ID})
	}
	var attrs []bgp.PathAttributeInterface
	if len(al) > 0 {
		attrs = w.attrs(r, sp.addr.String())
	}
	return bgp.NewBGPUpdateMessage(wl, attrs, al)
}

func (w *apWorld) apDelPeer(name string) {
	_ = w.ss.s.DeletePeer(context.Background(), &api.DeletePeerRequest{Address: w.peers[name].addr.String()})
	w.gateMu.Lock()
	delete(w.srvPeers, name)
	w.gateMu.Unlock()
}

func (w *apWorld) apStep(st apStep) {
	switch st.Ev {
	case "Up":
		w.apSessionUp(st.P)
	case "Msg":
		_ = w.peers[st.P].send(w.apUpdate(st.P, st.Wd, st.Ann, st.R))
	case "Flood":
		// no quiescence between the messages and the end of the session
		var held chan struct{}
		for i, m := range st.Msgs {
			if st.Hold && i == len(st.Msgs)-1 {
				synctest.Wait() // the earlier UPDATEs are through: the gate catches exactly the last one
				held = make(chan struct{})
				w.holdMu.Lock()
				w.holdAddr, w.holdCh = w.peers[st.P].addr.String(), held
				w.holdMu.Unlock()
			}
			_ = w.peers[st.P].send(w.apUpdate(st.P, m.Wd, m.Ann, m.R))
		}
		if held != nil {
			synctest.Wait() // the last UPDATE has been read and waits in front of its handler
		}
		if st.End == "DelPeer" {
			w.apDelPeer(st.P)
		} else {
			w.peers[st.P].closeConn()
		}
		if held != nil {
			synctest.Wait()
			w.holdMu.Lock()
			w.holdAddr = ""
			w.holdMu.Unlock()
			close(held)
		}
	case "DelPeer":
		w.apDelPeer(st.P)
	case "AddPeer":
		old := w.peers[st.P]
		w.apAddPeer(st.P)
		old.closeConn()
	case "ResetIn":
		w.softReset(st.P, api.ResetPeerRequest_DIRECTION_IN)
	case "Down", "ApiAdd", "ApiDel":
		w.stepNoWait(spStep{Ev: st.Ev, P: st.P, X: st.X, R: st.R})
	default:
		w.t.Fatalf("unknown step %q", st.Ev)
	}
	synctest.Wait()
}

func (w *apWorld) apObserve() map[string]any {
	base := w.observe() // sessions, per-neighbour views, counters, folded best-path stream
	obs := map[string]any{"sess": base["sess"], "views": base["views"], "ctr": base["ctr"], "beststream": base["beststream"], "t": base["t"]}
	// Adj-RIB-In, white box, with the remote path identifiers
	adjin := map[string]any{}
	for name := range w.peers {
		l := []map[string]any{}
		w.gateMu.Lock()
		sp := w.srvPeers[name]
		w.gateMu.Unlock()
		if sp != nil {
			for _, path := range sp.adjRibIn.PathList([]bgp.Family{bgp.RF_IPv4_UC}, false) {
				pr := w.project(path.GetPathAttrs())
				l = append(l, map[string]any{"x": spPrefixName(path.GetNlri().String()), "id": int(path.RemoteID()),
					"src": pr["src"], "v": pr["v"], "rej": path.IsRejected()})
			}
		}
		sort.Slice(l, func(i, j int) bool {
			if l[i]["x"].(string) != l[j]["x"].(string) {
				return l[i]["x"].(string) < l[j]["x"].(string)
			}
			return l[i]["id"].(int) < l[j]["id"].(int)
		})
		adjin[name] = l
	}
	obs["adjin"] = adjin
	// the global table, in listing order
	rib := map[string]any{}
	for x := range spPrefixes {
		rib[x] = []any{}
	}
	_ = w.ss.s.ListPath(apiutil.ListPathRequest{TableType: api.TableType_TABLE_TYPE_GLOBAL, Family: bgp.RF_IPv4_UC}, func(prefix bgp.NLRI, paths []*apiutil.Path) {
		l := []any{}
		for _, p := range paths {
			pr := w.project(p.Attrs)
			nbr := "local"
			if p.PeerAddress.IsValid() && !p.PeerAddress.IsUnspecified() {
				nbr = w.addrName(p.PeerAddress.String())
			}
			l = append(l, map[string]any{"src": pr["src"], "v": pr["v"], "nbr": nbr, "id": int(p.RemoteID), "lid": int(p.LocalID), "best": p.Best})
		}
		rib[spPrefixName(prefix.String())] = l
	})
	obs["rib"] = rib
	return obs
}

func apRun(t *testing.T, tr *vpTrace, tid int, b *apBehaviour) {
	synctest.Test(t, func(t *testing.T) {
		sb := &spBehaviour{Peers: b.Peers, LocalAS: b.LocalAS}
		w := &apWorld{spWorld: &spWorld{t: t, b: sb, peers: map[string]*simPeer{}, pinfo: b.Peers, views: map[string]map[string]map[string]any{},
			byAddr: map[string]string{}, byRid: map[string]string{}, gates: map[string]chan struct{}{}, srvPeers: map[string]*peer{}},
			ap: map[string]bool{}}
		for _, n := range b.ApPeers {
			w.ap[n] = true
		}
		VerifYieldHook = w.apYield
		defer func() { VerifYieldHook = nil }()
		w.ss = newSimServer(t, &api.Global{Asn: b.LocalAS})
		names := make([]string, 0, len(b.Peers))
		for n, pi := range b.Peers {
			names = append(names, n)
			w.byAddr[spAddr(pi.Idx)] = n
			w.byRid[spRid(pi.Idx)] = n
		}
		sort.Strings(names)
		for _, n := range names {
			w.apAddPeer(n)
		}
		w.startBestWatcher()
		synctest.Wait()
		tr.Emit(map[string]any{"ev": "Reset", "tid": tid, "peers": b.Peers, "appeers": b.ApPeers})
		for _, st := range b.Steps {
			if os.Getenv("VERIF_DEBUG") != "" {
				fmt.Fprintf(os.Stderr, "DBG tid=%d step %+v\n", tid, st)
			}
			w.apStep(st)
			row := map[string]any{"ev": st.Ev, "obs": w.apObserve()}
			if st.P != "" {
				row["p"] = st.P
			}
			if st.X != "" {
				row["x"] = st.X
			}
			switch st.Ev {
			case "Msg":
				row["wd"], row["ann"], row["r"] = apKeys(st.Wd), apKeys(st.Ann), st.R
			case "ApiAdd":
				row["r"] = st.R
			case "Flood":
				row["end"] = st.End
				row["hold"] = st.Hold
				ms := []map[string]any{}
				for _, m := range st.Msgs {
					ms = append(ms, map[string]any{"wd": apKeys(m.Wd), "ann": apKeys(m.Ann), "r": m.R})
				}
				row["msgs"] = ms
			}
			tr.Emit(row)
		}
		if w.bestCancel != nil {
			w.bestCancel()
		}
		w.ss.stop()
		for _, n := range names {
			w.peers[n].closeConn()
		}
		synctest.Wait()
	})
}

func TestVerifC02Ap(t *testing.T) {
	tr := vpOpenTrace(t)
	defer tr.Close()
	spCollide()
	tid := 0
	vpReadLines(t, "VERIF_IN", func(line []byte) {
		var b apBehaviour
		if err := json.Unmarshal(line, &b); err != nil {
			t.Fatalf("bad behaviour: %v", err)
		}
		tid++
		apRun(t, tr, tid, &b)
	})
}
