package server

// C10 replayer (public API): executes the configuration steps of TLC-generated schedules on a
// running BgpServer through AddDefinedSet / DeleteDefinedSet / AddStatement / DeleteStatement /
// AddPolicy / DeletePolicy / Set|Add|DeletePolicyAssignment and reads everything back after every
// step with ListDefinedSet / ListStatement / ListPolicy / ListPolicyAssignment.
// No property is asserted here: the trace is judged by TLC (spec/trace/PolicyTrace.tla,
// invariant C10_ReadBack).  Evaluate steps of a schedule are skipped (harness/c10 executes them).

import (
	"bufio"
	"context"
	"encoding/json"
	"fmt"
	"net/netip"
	"os"
	"regexp"
	"sort"
	"strconv"
	"strings"
	"testing"

	"github.com/osrg/gobgp/v4/api"
)

type c10sEntry struct {
	S   string `json:"s"`
	Fam string `json:"fam"`
	G   []int  `json:"g"`
	Len int    `json:"len"`
	Min int    `json:"min"`
	Max int    `json:"max"`
}

type c10sAsMember struct {
	Shape string `json:"shape"`
	Asn   uint32 `json:"asn"`
}

type c10sCond struct {
	K    string   `json:"k"`
	Set  string   `json:"set"`
	Opt  string   `json:"opt"`
	Op   string   `json:"op"`
	N    int64    `json:"n"`
	List []string `json:"list"`
}

type c10sAct struct {
	K    string   `json:"k"`
	Mode string   `json:"mode"`
	N    int64    `json:"n"`
	Rep  int      `json:"rep"`
	Vals []string `json:"vals"`
	S    string   `json:"s"`
}

type c10sStmt struct {
	Name  string     `json:"name"`
	Conds []c10sCond `json:"conds"`
	Acts  []c10sAct  `json:"acts"`
	Disp  string     `json:"disp"`
}

type c10sOp struct {
	Op       string            `json:"op"`
	Kind     string            `json:"kind"`
	Name     string            `json:"name"`
	Members  []json.RawMessage `json:"members"`
	Replace  bool              `json:"replace"`
	All      bool              `json:"all"`
	Stmt     *c10sStmt         `json:"stmt"`
	Stmts    []c10sStmt        `json:"stmts"`
	Refer    bool              `json:"refer"`
	Preserve bool              `json:"preserve"`
	Dir      string            `json:"dir"`
	Pols     []string          `json:"pols"`
	Def      string            `json:"def"`
}

type c10sBehaviour struct {
	Kind  string            `json:"kind"`
	Steps []json.RawMessage `json:"steps"`
}

type c10sRbSet struct {
	Kind    string `json:"kind"`
	Name    string `json:"name"`
	Members []any  `json:"members"`
}

type c10sRbPol struct {
	Name  string     `json:"name"`
	Stmts []c10sStmt `json:"stmts"`
}

type c10sRbAsg struct {
	Dir  string   `json:"dir"`
	Pols []string `json:"pols"`
	Def  string   `json:"def"`
}

type c10sRb struct {
	Sets  []c10sRbSet `json:"sets"`
	Stmts []c10sStmt  `json:"stmts"`
	Pols  []c10sRbPol `json:"pols"`
	Asg   []c10sRbAsg `json:"asg"`
}

// ---- abstract -> api ----

var c10sKinds = map[string]api.DefinedType{
	"prefix": api.DefinedType_DEFINED_TYPE_PREFIX, "neighbor": api.DefinedType_DEFINED_TYPE_NEIGHBOR,
	"aspath": api.DefinedType_DEFINED_TYPE_AS_PATH, "comm": api.DefinedType_DEFINED_TYPE_COMMUNITY,
	"ext": api.DefinedType_DEFINED_TYPE_EXT_COMMUNITY, "large": api.DefinedType_DEFINED_TYPE_LARGE_COMMUNITY,
}
var c10sKindOrder = []string{"prefix", "neighbor", "aspath", "comm", "ext", "large"}

func c10sAsString(m c10sAsMember) string {
	switch m.Shape {
	case "left":
		return fmt.Sprintf("^%d_", m.Asn)
	case "origin":
		return fmt.Sprintf("_%d$", m.Asn)
	case "include":
		return fmt.Sprintf("_%d_", m.Asn)
	case "only":
		return fmt.Sprintf("^%d$", m.Asn)
	}
	panic("as shape " + m.Shape)
}

func c10sDefinedSet(t *testing.T, o *c10sOp) *api.DefinedSet {
	ds := &api.DefinedSet{DefinedType: c10sKinds[o.Kind], Name: o.Name}
	for _, raw := range o.Members {
		switch o.Kind {
		case "prefix":
			var e c10sEntry
			if err := json.Unmarshal(raw, &e); err != nil {
				t.Fatal(err)
			}
			ds.Prefixes = append(ds.Prefixes, &api.Prefix{IpPrefix: e.S, MaskLengthMin: uint32(e.Min), MaskLengthMax: uint32(e.Max)})
		case "aspath":
			var m c10sAsMember
			if err := json.Unmarshal(raw, &m); err != nil {
				t.Fatal(err)
			}
			ds.List = append(ds.List, c10sAsString(m))
		default:
			var s string
			if err := json.Unmarshal(raw, &s); err != nil {
				t.Fatal(err)
			}
			ds.List = append(ds.List, s)
		}
	}
	return ds
}

func c10sMatchType(o string) api.MatchSet_Type {
	switch o {
	case "any":
		return api.MatchSet_TYPE_ANY
	case "all":
		return api.MatchSet_TYPE_ALL
	case "invert":
		return api.MatchSet_TYPE_INVERT
	}
	panic("match option " + o)
}

func c10sCmp(o string) api.Comparison {
	switch o {
	case "eq":
		return api.Comparison_COMPARISON_EQ
	case "ge":
		return api.Comparison_COMPARISON_GE
	case "le":
		return api.Comparison_COMPARISON_LE
	}
	panic("comparison " + o)
}

func c10sCommType(m string) api.CommunityAction_Type {
	switch m {
	case "add":
		return api.CommunityAction_TYPE_ADD
	case "remove":
		return api.CommunityAction_TYPE_REMOVE
	case "replace":
		return api.CommunityAction_TYPE_REPLACE
	}
	panic("community action " + m)
}

var c10sFamilies = map[string]*api.Family{
	"ipv4-unicast":       {Afi: api.Family_AFI_IP, Safi: api.Family_SAFI_UNICAST},
	"ipv6-unicast":       {Afi: api.Family_AFI_IP6, Safi: api.Family_SAFI_UNICAST},
	"l3vpn-ipv4-unicast": {Afi: api.Family_AFI_IP, Safi: api.Family_SAFI_MPLS_VPN},
}

func c10sApiStatement(s c10sStmt) *api.Statement {
	st := &api.Statement{Name: s.Name, Conditions: &api.Conditions{}, Actions: &api.Actions{}}
	c := st.Conditions
	for _, x := range s.Conds {
		switch x.K {
		case "prefix":
			c.PrefixSet = &api.MatchSet{Type: c10sMatchType(x.Opt), Name: x.Set}
		case "neighbor":
			c.NeighborSet = &api.MatchSet{Type: c10sMatchType(x.Opt), Name: x.Set}
		case "aspath":
			c.AsPathSet = &api.MatchSet{Type: c10sMatchType(x.Opt), Name: x.Set}
		case "comm":
			c.CommunitySet = &api.MatchSet{Type: c10sMatchType(x.Opt), Name: x.Set}
		case "ext":
			c.ExtCommunitySet = &api.MatchSet{Type: c10sMatchType(x.Opt), Name: x.Set}
		case "large":
			c.LargeCommunitySet = &api.MatchSet{Type: c10sMatchType(x.Opt), Name: x.Set}
		case "aslen":
			c.AsPathLength = &api.AsPathLength{Type: c10sCmp(x.Op), Length: uint32(x.N)}
		case "commcount":
			c.CommunityCount = &api.CommunityCount{Type: c10sCmp(x.Op), Count: uint32(x.N)}
		case "origin":
			c.Origin = api.OriginType(x.N + 1)
		case "rtype":
			c.RouteType = map[string]api.Conditions_RouteType{"internal": api.Conditions_ROUTE_TYPE_INTERNAL,
				"external": api.Conditions_ROUTE_TYPE_EXTERNAL, "local": api.Conditions_ROUTE_TYPE_LOCAL}[x.Opt]
		case "rpki":
			c.RpkiResult = map[string]api.ValidationState{"valid": api.ValidationState_VALIDATION_STATE_VALID,
				"not-found": api.ValidationState_VALIDATION_STATE_NOT_FOUND, "invalid": api.ValidationState_VALIDATION_STATE_INVALID}[x.Opt]
		case "afisafi":
			for _, f := range x.List {
				c.AfiSafiIn = append(c.AfiSafiIn, c10sFamilies[f])
			}
		case "nh":
			c.NextHopInList = append([]string{}, x.List...)
		default:
			panic("cond kind " + x.K)
		}
	}
	a := st.Actions
	for _, x := range s.Acts {
		switch x.K {
		case "med":
			switch x.Mode {
			case "set":
				a.Med = &api.MedAction{Type: api.MedAction_TYPE_REPLACE, Value: x.N}
			case "add":
				a.Med = &api.MedAction{Type: api.MedAction_TYPE_MOD, Value: x.N}
			case "sub":
				a.Med = &api.MedAction{Type: api.MedAction_TYPE_MOD, Value: -x.N}
			}
		case "lp":
			a.LocalPref = &api.LocalPrefAction{Value: uint32(x.N)}
		case "prepend":
			a.AsPrepend = &api.AsPrependAction{Asn: uint32(x.N), Repeat: uint32(x.Rep), UseLeftMost: x.Mode == "last-as"}
		case "comm":
			a.Community = &api.CommunityAction{Type: c10sCommType(x.Mode), Communities: append([]string{}, x.Vals...)}
		case "ext":
			a.ExtCommunity = &api.CommunityAction{Type: c10sCommType(x.Mode), Communities: append([]string{}, x.Vals...)}
		case "large":
			a.LargeCommunity = &api.CommunityAction{Type: c10sCommType(x.Mode), Communities: append([]string{}, x.Vals...)}
		case "nh":
			switch x.Mode {
			case "self":
				a.Nexthop = &api.NexthopAction{Self: true}
			case "unchanged":
				a.Nexthop = &api.NexthopAction{Unchanged: true}
			default:
				a.Nexthop = &api.NexthopAction{Address: x.S}
			}
		case "origin":
			a.OriginAction = &api.OriginAction{Origin: api.OriginType(x.N + 1)}
		default:
			panic("action kind " + x.K)
		}
	}
	switch s.Disp {
	case "accept":
		a.RouteAction = api.RouteAction_ROUTE_ACTION_ACCEPT
	case "reject":
		a.RouteAction = api.RouteAction_ROUTE_ACTION_REJECT
	}
	return st
}

// ---- api -> abstract (read-back projection) ----

var (
	c10sReAnch  = regexp.MustCompile(`^\^(.*)\$$`)
	c10sReComm  = regexp.MustCompile(`^\d+:\d+$`)
	c10sReLarge = regexp.MustCompile(`^\d+:\d+:\d+$`)
	c10sReAs    = []struct {
		shape string
		re    *regexp.Regexp
	}{
		{"left", regexp.MustCompile(`^\^(\d+)_$`)}, {"origin", regexp.MustCompile(`^_(\d+)\$$`)},
		{"include", regexp.MustCompile(`^_(\d+)_$`)}, {"only", regexp.MustCompile(`^\^(\d+)\$$`)},
	}
)

// an exact value is stored as the anchored regular expression ^value$: same denotation
func c10sUnanchor(s string, shape *regexp.Regexp) string {
	v := s
	if m := c10sReAnch.FindStringSubmatch(s); m != nil {
		v = m[1]
	}
	if shape.MatchString(v) {
		return v
	}
	return "other:" + s
}

func c10sExtValue(x string) string {
	i := strings.Index(x, ":")
	if i < 0 {
		return "other:" + x
	}
	v := c10sUnanchor(x[i+1:], c10sReComm)
	if strings.HasPrefix(v, "other:") {
		return "other:" + x
	}
	return strings.ToLower(x[:i]) + ":" + v
}

func c10sGroups(p netip.Prefix) ([]int, int, string) {
	a := p.Addr()
	if a.Is4() {
		b := a.As4()
		return []int{int(b[0]), int(b[1]), int(b[2]), int(b[3])}, p.Bits(), "v4"
	}
	b := a.As16()
	g := make([]int, 8)
	for i := range 8 {
		g[i] = int(b[2*i])<<8 | int(b[2*i+1])
	}
	return g, p.Bits(), "v6"
}

func c10sProjSet(kind string, d *api.DefinedSet) c10sRbSet {
	ms := []any{}
	switch kind {
	case "prefix":
		for _, p := range d.Prefixes {
			pp, err := netip.ParsePrefix(p.IpPrefix)
			if err != nil {
				ms = append(ms, c10sEntry{S: "other:" + p.IpPrefix + p.RtcPrefix, G: []int{}})
				continue
			}
			g, l, fam := c10sGroups(pp)
			ms = append(ms, c10sEntry{S: pp.String(), Fam: fam, G: g, Len: l, Min: int(p.MaskLengthMin), Max: int(p.MaskLengthMax)})
		}
	case "aspath":
		for _, x := range d.List {
			m := c10sAsMember{Shape: "other:" + x}
			for _, sh := range c10sReAs {
				if mm := sh.re.FindStringSubmatch(x); mm != nil {
					n, _ := strconv.ParseUint(mm[1], 10, 32)
					m = c10sAsMember{Shape: sh.shape, Asn: uint32(n)}
					break
				}
			}
			ms = append(ms, m)
		}
	case "comm":
		for _, x := range d.List {
			ms = append(ms, c10sUnanchor(x, c10sReComm))
		}
	case "ext":
		for _, x := range d.List {
			ms = append(ms, c10sExtValue(x))
		}
	case "large":
		for _, x := range d.List {
			ms = append(ms, c10sUnanchor(x, c10sReLarge))
		}
	default:
		for _, x := range d.List {
			ms = append(ms, x)
		}
	}
	return c10sRbSet{Kind: kind, Name: d.Name, Members: ms}
}

func c10sMatchName(t api.MatchSet_Type) string {
	switch t {
	case api.MatchSet_TYPE_ANY:
		return "any"
	case api.MatchSet_TYPE_ALL:
		return "all"
	case api.MatchSet_TYPE_INVERT:
		return "invert"
	}
	return "other:" + t.String()
}

func c10sCmpName(t api.Comparison) string {
	switch t {
	case api.Comparison_COMPARISON_EQ:
		return "eq"
	case api.Comparison_COMPARISON_GE:
		return "ge"
	case api.Comparison_COMPARISON_LE:
		return "le"
	}
	return "other:" + t.String()
}

func c10sCommName(t api.CommunityAction_Type) string {
	switch t {
	case api.CommunityAction_TYPE_ADD:
		return "add"
	case api.CommunityAction_TYPE_REMOVE:
		return "remove"
	case api.CommunityAction_TYPE_REPLACE:
		return "replace"
	}
	return "other:" + t.String()
}

func c10sStrip(l []string, kind string) []string {
	out := []string{}
	for _, x := range l {
		switch kind {
		case "comm":
			out = append(out, c10sUnanchor(x, c10sReComm))
		case "ext":
			out = append(out, c10sExtValue(x))
		case "large":
			out = append(out, c10sUnanchor(x, c10sReLarge))
		}
	}
	sort.Strings(out)
	return out
}

func c10sProjStatement(s *api.Statement) c10sStmt {
	out := c10sStmt{Name: s.Name, Conds: []c10sCond{}, Acts: []c10sAct{}, Disp: "none"}
	cond := func(k, set, opt, op string, n int64, list []string) {
		if list == nil {
			list = []string{}
		}
		out.Conds = append(out.Conds, c10sCond{K: k, Set: set, Opt: opt, Op: op, N: n, List: list})
	}
	act := func(k, mode string, n int64, rep int, vals []string, str string) {
		if vals == nil {
			vals = []string{}
		}
		out.Acts = append(out.Acts, c10sAct{K: k, Mode: mode, N: n, Rep: rep, Vals: vals, S: str})
	}
	if c := s.Conditions; c != nil {
		ms := func(k string, m *api.MatchSet) {
			if m != nil {
				cond(k, m.Name, c10sMatchName(m.Type), "", 0, nil)
			}
		}
		ms("prefix", c.PrefixSet)
		ms("neighbor", c.NeighborSet)
		ms("aspath", c.AsPathSet)
		ms("comm", c.CommunitySet)
		ms("ext", c.ExtCommunitySet)
		ms("large", c.LargeCommunitySet)
		if c.AsPathLength != nil {
			cond("aslen", "", "", c10sCmpName(c.AsPathLength.Type), int64(c.AsPathLength.Length), nil)
		}
		if c.CommunityCount != nil {
			cond("commcount", "", "", c10sCmpName(c.CommunityCount.Type), int64(c.CommunityCount.Count), nil)
		}
		if c.Origin != api.OriginType_ORIGIN_TYPE_UNSPECIFIED {
			cond("origin", "", "", "", int64(c.Origin)-1, nil)
		}
		switch c.RouteType {
		case api.Conditions_ROUTE_TYPE_UNSPECIFIED:
		case api.Conditions_ROUTE_TYPE_INTERNAL:
			cond("rtype", "", "internal", "", 0, nil)
		case api.Conditions_ROUTE_TYPE_EXTERNAL:
			cond("rtype", "", "external", "", 0, nil)
		case api.Conditions_ROUTE_TYPE_LOCAL:
			cond("rtype", "", "local", "", 0, nil)
		default:
			cond("rtype", "", "other:"+c.RouteType.String(), "", 0, nil)
		}
		switch c.RpkiResult {
		case api.ValidationState_VALIDATION_STATE_UNSPECIFIED, api.ValidationState_VALIDATION_STATE_NONE:
		case api.ValidationState_VALIDATION_STATE_VALID:
			cond("rpki", "", "valid", "", 0, nil)
		case api.ValidationState_VALIDATION_STATE_NOT_FOUND:
			cond("rpki", "", "not-found", "", 0, nil)
		case api.ValidationState_VALIDATION_STATE_INVALID:
			cond("rpki", "", "invalid", "", 0, nil)
		}
		if c.AfiSafiIn != nil {
			l := []string{}
			for _, f := range c.AfiSafiIn {
				name := fmt.Sprintf("other:%d/%d", f.Afi, f.Safi)
				for n, ff := range c10sFamilies {
					if ff.Afi == f.Afi && ff.Safi == f.Safi {
						name = n
					}
				}
				l = append(l, name)
			}
			sort.Strings(l)
			cond("afisafi", "", "", "", 0, l)
		}
		if len(c.NextHopInList) > 0 {
			l := append([]string{}, c.NextHopInList...)
			sort.Strings(l)
			cond("nh", "", "", "", 0, l)
		}
		if c.LocalPrefEq != nil {
			cond("other:local-pref-eq", "", "", "", int64(c.LocalPrefEq.Value), nil)
		}
		if c.MedEq != nil {
			cond("other:med-eq", "", "", "", int64(c.MedEq.Value), nil)
		}
	}
	if a := s.Actions; a != nil {
		if a.Med != nil {
			switch {
			case a.Med.Type == api.MedAction_TYPE_REPLACE:
				act("med", "set", a.Med.Value, 0, nil, "")
			case a.Med.Type == api.MedAction_TYPE_MOD && a.Med.Value >= 0:
				act("med", "add", a.Med.Value, 0, nil, "")
			case a.Med.Type == api.MedAction_TYPE_MOD:
				act("med", "sub", -a.Med.Value, 0, nil, "")
			default:
				act("med", "other:"+a.Med.Type.String(), a.Med.Value, 0, nil, "")
			}
		}
		if a.LocalPref != nil {
			act("lp", "", int64(a.LocalPref.Value), 0, nil, "")
		}
		if a.AsPrepend != nil {
			if a.AsPrepend.UseLeftMost {
				act("prepend", "last-as", 0, int(a.AsPrepend.Repeat), nil, "")
			} else {
				act("prepend", "as", int64(a.AsPrepend.Asn), int(a.AsPrepend.Repeat), nil, "")
			}
		}
		if a.Community != nil {
			act("comm", c10sCommName(a.Community.Type), 0, 0, c10sStrip(a.Community.Communities, "comm"), "")
		}
		if a.ExtCommunity != nil {
			act("ext", c10sCommName(a.ExtCommunity.Type), 0, 0, c10sStrip(a.ExtCommunity.Communities, "ext"), "")
		}
		if a.LargeCommunity != nil {
			act("large", c10sCommName(a.LargeCommunity.Type), 0, 0, c10sStrip(a.LargeCommunity.Communities, "large"), "")
		}
		if a.Nexthop != nil {
			switch {
			case a.Nexthop.Self:
				act("nh", "self", 0, 0, nil, "")
			case a.Nexthop.Unchanged:
				act("nh", "unchanged", 0, 0, nil, "")
			case a.Nexthop.PeerAddress:
				act("nh", "other:peer-address", 0, 0, nil, "")
			default:
				act("nh", "addr", 0, 0, nil, a.Nexthop.Address)
			}
		}
		if a.OriginAction != nil {
			act("origin", "", int64(a.OriginAction.Origin)-1, 0, nil, "")
		}
		switch a.RouteAction {
		case api.RouteAction_ROUTE_ACTION_ACCEPT:
			out.Disp = "accept"
		case api.RouteAction_ROUTE_ACTION_REJECT:
			out.Disp = "reject"
		}
	}
	return out
}

func c10sReadBack(t *testing.T, s *BgpServer) c10sRb {
	ctx := context.Background()
	rb := c10sRb{Sets: []c10sRbSet{}, Stmts: []c10sStmt{}, Pols: []c10sRbPol{}, Asg: []c10sRbAsg{}}
	for _, kind := range c10sKindOrder {
		err := s.ListDefinedSet(ctx, &api.ListDefinedSetRequest{DefinedType: c10sKinds[kind]}, func(d *api.DefinedSet) {
			rb.Sets = append(rb.Sets, c10sProjSet(kind, d))
		})
		if err != nil {
			t.Fatalf("ListDefinedSet: %v", err)
		}
	}
	if err := s.ListStatement(ctx, &api.ListStatementRequest{}, func(st *api.Statement) {
		rb.Stmts = append(rb.Stmts, c10sProjStatement(st))
	}); err != nil {
		t.Fatalf("ListStatement: %v", err)
	}
	sort.Slice(rb.Stmts, func(i, j int) bool { return rb.Stmts[i].Name < rb.Stmts[j].Name })
	if err := s.ListPolicy(ctx, &api.ListPolicyRequest{}, func(p *api.Policy) {
		pol := c10sRbPol{Name: p.Name, Stmts: []c10sStmt{}}
		for _, st := range p.Statements {
			pol.Stmts = append(pol.Stmts, c10sProjStatement(st))
		}
		rb.Pols = append(rb.Pols, pol)
	}); err != nil {
		t.Fatalf("ListPolicy: %v", err)
	}
	for _, d := range []struct {
		n string
		d api.PolicyDirection
	}{{"import", api.PolicyDirection_POLICY_DIRECTION_IMPORT}, {"export", api.PolicyDirection_POLICY_DIRECTION_EXPORT}} {
		if err := s.ListPolicyAssignment(ctx, &api.ListPolicyAssignmentRequest{Name: "global", Direction: d.d}, func(a *api.PolicyAssignment) {
			x := c10sRbAsg{Dir: d.n, Pols: []string{}, Def: "none"}
			switch a.DefaultAction {
			case api.RouteAction_ROUTE_ACTION_ACCEPT:
				x.Def = "accept"
			case api.RouteAction_ROUTE_ACTION_REJECT:
				x.Def = "reject"
			}
			for _, p := range a.Policies {
				x.Pols = append(x.Pols, p.Name)
			}
			rb.Asg = append(rb.Asg, x)
		}); err != nil {
			t.Fatalf("ListPolicyAssignment: %v", err)
		}
	}
	return rb
}

// ---- config operations through the public API ----

func c10sRouteAction(d string) api.RouteAction {
	switch d {
	case "accept":
		return api.RouteAction_ROUTE_ACTION_ACCEPT
	case "reject":
		return api.RouteAction_ROUTE_ACTION_REJECT
	}
	return api.RouteAction_ROUTE_ACTION_UNSPECIFIED
}

func c10sAssignment(o *c10sOp) *api.PolicyAssignment {
	a := &api.PolicyAssignment{Name: "global", DefaultAction: c10sRouteAction(o.Def)}
	if o.Dir == "import" {
		a.Direction = api.PolicyDirection_POLICY_DIRECTION_IMPORT
	} else {
		a.Direction = api.PolicyDirection_POLICY_DIRECTION_EXPORT
	}
	for _, n := range o.Pols {
		a.Policies = append(a.Policies, &api.Policy{Name: n})
	}
	return a
}

func c10sConfig(t *testing.T, s *BgpServer, o *c10sOp) string {
	ctx := context.Background()
	var err error
	switch o.Op {
	case "AddSet":
		err = s.AddDefinedSet(ctx, &api.AddDefinedSetRequest{DefinedSet: c10sDefinedSet(t, o), Replace: o.Replace})
	case "DelSet":
		err = s.DeleteDefinedSet(ctx, &api.DeleteDefinedSetRequest{DefinedSet: c10sDefinedSet(t, o), All: o.All})
	case "AddStmt":
		err = s.AddStatement(ctx, &api.AddStatementRequest{Statement: c10sApiStatement(*o.Stmt)})
	case "DelStmt":
		err = s.DeleteStatement(ctx, &api.DeleteStatementRequest{Statement: c10sApiStatement(*o.Stmt), All: o.All})
	case "AddPol", "DelPol":
		p := &api.Policy{Name: o.Name}
		for _, st := range o.Stmts {
			p.Statements = append(p.Statements, c10sApiStatement(st))
		}
		if o.Op == "AddPol" {
			err = s.AddPolicy(ctx, &api.AddPolicyRequest{Policy: p, ReferExistingStatements: o.Refer})
		} else {
			err = s.DeletePolicy(ctx, &api.DeletePolicyRequest{Policy: p, All: o.All, PreserveStatements: o.Preserve})
		}
	case "SetAsg":
		err = s.SetPolicyAssignment(ctx, &api.SetPolicyAssignmentRequest{Assignment: c10sAssignment(o)})
	case "AddAsg":
		err = s.AddPolicyAssignment(ctx, &api.AddPolicyAssignmentRequest{Assignment: c10sAssignment(o)})
	case "DelAsg":
		err = s.DeletePolicyAssignment(ctx, &api.DeletePolicyAssignmentRequest{Assignment: c10sAssignment(o), All: o.All})
	default:
		t.Fatalf("unknown op %q", o.Op)
	}
	if err != nil {
		return "err: " + err.Error()
	}
	return "ok"
}

func TestVerifC10Srv(t *testing.T) {
	in, outp := os.Getenv("VERIF_IN"), os.Getenv("VERIF_OUT")
	if in == "" || outp == "" {
		t.Skip("VERIF_IN / VERIF_OUT not set")
	}
	fin, err := os.Open(in)
	if err != nil {
		t.Fatal(err)
	}
	defer fin.Close()
	fout, err := os.Create(outp)
	if err != nil {
		t.Fatal(err)
	}
	defer fout.Close()
	w := bufio.NewWriterSize(fout, 1<<20)
	defer w.Flush()
	emit := func(v any) {
		b, err := json.Marshal(v)
		if err != nil {
			t.Fatal(err)
		}
		w.Write(b)
		w.WriteByte('\n')
	}
	sc := bufio.NewScanner(fin)
	sc.Buffer(make([]byte, 1<<20), 1<<28)
	tid := 0
	for sc.Scan() {
		if len(sc.Bytes()) == 0 {
			continue
		}
		var b c10sBehaviour
		if err := json.Unmarshal(sc.Bytes(), &b); err != nil {
			t.Fatalf("bad behaviour: %v", err)
		}
		tid++
		s := NewBgpServer()
		go s.Serve()
		if err := s.StartBgp(context.Background(), &api.StartBgpRequest{Global: &api.Global{Asn: 65000, RouterId: "10.255.255.1", ListenPort: -1}}); err != nil {
			t.Fatalf("StartBgp: %v", err)
		}
		emit(map[string]any{"ev": "Reset", "tid": tid, "kind": b.Kind, "via": "api"})
		for _, raw := range b.Steps {
			var o c10sOp
			if err := json.Unmarshal(raw, &o); err != nil {
				t.Fatalf("bad step: %v", err)
			}
			if o.Op == "Eval" {
				continue
			}
			res := c10sConfig(t, s, &o)
			emit(map[string]any{"ev": "Cfg", "op": raw, "res": res, "rb": c10sReadBack(t, s)})
		}
		emit(map[string]any{"ev": "Dump", "rb": c10sReadBack(t, s)})
		s.Stop()
	}
	if err := sc.Err(); err != nil {
		t.Fatal(err)
	}
}
