package server

// C16, end-to-end replayer: a real BgpServer (NewBgpServer + Serve + StartBgp) is configured through
// AddRpki / DeleteRpki / EnableRpki / DisableRpki / ResetRpki against in-process loopback RTR caches
// (TCP listeners inside this test that speak pkg/packet/rtr PDUs).  The schedule comes from TLC
// (spec/RpkiGen.tla).  After every step the harness waits until the RTR client has consumed every
// PDU the cache sent (the client's received-PDU counters, read through ListRpki) and until the cache
// has read every query the client sent (the client's sent-query counters), then records what
// ListRpkiTable / ListRpki / ListPath report.  Nothing is asserted here: the trace is judged by TLC
// (spec/trace/RpkiTrace.tla).

import (
	"bufio"
	"context"
	"encoding/binary"
	"encoding/json"
	"fmt"
	"io"
	"log/slog"
	"net"
	"net/netip"
	"os"
	"sort"
	"strconv"
	"strings"
	"sync"
	"sync/atomic"
	"testing"
	"time"

	"github.com/osrg/gobgp/v4/api"
	"github.com/osrg/gobgp/v4/pkg/apiutil"
	"github.com/osrg/gobgp/v4/pkg/packet/bgp"
	"github.com/osrg/gobgp/v4/pkg/packet/rtr"
)

const (
	c16LocalAS     = 65000
	c16StepTimeout = 5 * time.Second
)

type c16Rec struct {
	P string `json:"p"`
	M uint8  `json:"m"`
	A uint32 `json:"a"`
}

type c16Seg struct {
	T  string   `json:"t"`
	AS []uint32 `json:"as"`
}

type c16Route struct {
	Pfx  string   `json:"pfx"`
	Path []c16Seg `json:"path"`
	Las  uint32   `json:"las"`
}

type c16Step struct {
	Ev   string `json:"ev"`
	C    string `json:"c"`
	Sid  uint16 `json:"sid"`
	Sn   uint32 `json:"sn"`
	Ann  bool   `json:"ann"`
	R    c16Rec `json:"r"`
	Rt   string `json:"rt"`
	Form string `json:"form"`
}

type c16Beh struct {
	Clean  bool                `json:"clean"`
	Routes map[string]c16Route `json:"routes"`
	Steps  []c16Step           `json:"steps"`
}

// ---- log handler: counts the message HandleROAEvent prints for an event of a deleted client ----

type c16LogHandler struct{ stale *atomic.Int64 }

func (h c16LogHandler) Enabled(context.Context, slog.Level) bool { return true }
func (h c16LogHandler) Handle(_ context.Context, r slog.Record) error {
	if strings.HasPrefix(r.Message, "Can't find ROA server configuration") {
		h.stale.Add(1)
	}
	return nil
}
func (h c16LogHandler) WithAttrs([]slog.Attr) slog.Handler { return h }
func (h c16LogHandler) WithGroup(string) slog.Handler      { return h }

// ---- loopback RTR cache ----

type c16Cache struct {
	name string
	addr string // ip
	port int
	ln   *net.TCPListener

	mu      sync.Mutex
	conn    net.Conn
	gen     int      // connections accepted so far
	eof     bool     // the reader of the current connection ended
	fifo    []string // queries read on the current connection and not answered yet
	nread   int      // queries read on the current connection
	fresh   []string // queries read since the last drain
	sent    uint32   // PDUs written on the current connection
	cfg     bool     // configured in the server (harness view)
}

func c16NewCache(t *testing.T, name, ip string) *c16Cache {
	ln, err := net.ListenTCP("tcp", &net.TCPAddr{IP: net.ParseIP(ip), Port: 0})
	if err != nil {
		t.Fatalf("listen %s: %v", ip, err)
	}
	c := &c16Cache{name: name, addr: ip, port: ln.Addr().(*net.TCPAddr).Port, ln: ln}
	go c.acceptLoop()
	return c
}

func (c *c16Cache) hostport() string { return net.JoinHostPort(c.addr, strconv.Itoa(c.port)) }

func (c *c16Cache) acceptLoop() {
	for {
		conn, err := c.ln.Accept()
		if err != nil {
			return
		}
		c.mu.Lock()
		if c.conn != nil {
			c.conn.Close()
		}
		c.conn = conn
		c.gen++
		gen := c.gen
		c.eof = false
		c.fifo = nil
		c.nread = 0
		c.sent = 0
		c.mu.Unlock()
		go c.readLoop(conn, gen)
	}
}

func (c *c16Cache) readLoop(conn net.Conn, gen int) {
	defer func() {
		c.mu.Lock()
		if c.gen == gen {
			c.eof = true
		}
		c.mu.Unlock()
	}()
	for {
		hdr := make([]byte, rtr.RTR_MIN_LEN)
		if _, err := io.ReadFull(conn, hdr); err != nil {
			return
		}
		n := binary.BigEndian.Uint32(hdr[4:8])
		if n < rtr.RTR_MIN_LEN || n > 4096 {
			return
		}
		body := make([]byte, n-rtr.RTR_MIN_LEN)
		if _, err := io.ReadFull(conn, body); err != nil {
			return
		}
		kind := ""
		switch hdr[1] {
		case rtr.RTR_RESET_QUERY:
			kind = "reset"
		case rtr.RTR_SERIAL_QUERY:
			kind = "serial"
		default:
			kind = fmt.Sprintf("other:%d", hdr[1])
		}
		c.mu.Lock()
		if c.gen == gen {
			c.fifo = append(c.fifo, kind)
			c.fresh = append(c.fresh, kind)
			c.nread++
		}
		c.mu.Unlock()
	}
}

func (c *c16Cache) send(m rtr.RTRMessage) error {
	b, err := m.Serialize()
	if err != nil {
		return err
	}
	c.mu.Lock()
	conn := c.conn
	c.sent++
	c.mu.Unlock()
	if conn == nil {
		return fmt.Errorf("no connection")
	}
	_, err = conn.Write(b)
	return err
}

func (c *c16Cache) snapshot() (gen int, eof bool, nread int, sent uint32) {
	c.mu.Lock()
	defer c.mu.Unlock()
	return c.gen, c.eof, c.nread, c.sent
}

// ---- one history ----

type c16Run struct {
	t      *testing.T
	s      *BgpServer
	caches map[string]*c16Cache
	names  []string
	byHost map[string]string
	stale  *atomic.Int64
	routes map[string]c16Route
	inj    map[string]bool
	fail   string

	staleExpected int64
}

type c16Srv struct {
	Up     bool   `json:"up"`
	Serial uint32 `json:"serial"`
	Rx     uint32 `json:"rx"`
	Tx     uint32 `json:"tx"`
	Rec4   uint32 `json:"rec4"`
	Rec6   uint32 `json:"rec6"`
}

type c16Row struct {
	C string `json:"c"`
	P string `json:"p"`
	M uint32 `json:"m"`
	A uint32 `json:"a"`
}

type c16Obs struct {
	Table []c16Row          `json:"table"`
	Val   map[string]string `json:"val"`
	Srv   map[string]c16Srv `json:"srv"`
}

func (r *c16Run) listRpki() map[string]c16Srv {
	out := map[string]c16Srv{}
	err := r.s.ListRpki(context.Background(), &api.ListRpkiRequest{}, func(x *api.Rpki) {
		hp := net.JoinHostPort(x.Conf.Address, strconv.Itoa(int(x.Conf.RemotePort)))
		name, ok := r.byHost[hp]
		if !ok {
			name = "other:" + hp
		}
		st := x.State
		out[name] = c16Srv{
			Up:     st.Up,
			Serial: st.Serial,
			Rx:     uint32(st.ReceivedIpv4 + st.ReceivedIpv6 + st.SerialNotify + st.CacheReset + st.CacheResponse + st.EndOfData + st.Error),
			Tx:     uint32(st.SerialQuery + st.ResetQuery),
			Rec4:   st.RecordIpv4,
			Rec6:   st.RecordIpv6,
		}
	})
	if err != nil {
		r.fail = "ListRpki: " + err.Error()
	}
	return out
}

// waitFor polls cond (no fixed sleeps: a yield between polls) until it holds or the step times out.
func (r *c16Run) waitFor(what string, cond func() bool) bool {
	deadline := time.Now().Add(c16StepTimeout)
	for i := 0; ; i++ {
		if cond() {
			return true
		}
		if time.Now().After(deadline) {
			r.fail = "timeout waiting for " + what
			return false
		}
		if i < 200 {
			time.Sleep(20 * time.Microsecond)
		} else {
			time.Sleep(500 * time.Microsecond)
		}
	}
}

// waitConn: the cache has accepted connection number gen and read its first query.
func (r *c16Run) waitConn(c *c16Cache, gen int) bool {
	return r.waitFor(fmt.Sprintf("%s connection %d", c.name, gen), func() bool {
		g, _, n, _ := c.snapshot()
		return g >= gen && n >= 1
	})
}

// quiesce: every configured cache is connected, the client consumed all PDUs, the cache read all queries.
func (r *c16Run) quiesce() bool {
	return r.waitFor("quiescence", func() bool {
		srv := r.listRpki()
		for _, n := range r.names {
			c := r.caches[n]
			if !c.cfg {
				continue
			}
			_, eof, nread, sent := c.snapshot()
			st, ok := srv[n]
			if !ok || eof || !st.Up || st.Rx != sent || st.Tx != uint32(nread) {
				return false
			}
		}
		return true
	})
}

func (r *c16Run) drainFresh() [][2]string {
	qs := [][2]string{}
	for _, n := range r.names {
		c := r.caches[n]
		c.mu.Lock()
		for _, k := range c.fresh {
			qs = append(qs, [2]string{n, k})
		}
		c.fresh = nil
		c.mu.Unlock()
	}
	return qs
}

func c16ValState(v *api.Validation) string {
	if v == nil {
		return "none"
	}
	switch v.State {
	case api.ValidationState_VALIDATION_STATE_VALID:
		return "valid"
	case api.ValidationState_VALIDATION_STATE_INVALID:
		return "invalid"
	case api.ValidationState_VALIDATION_STATE_NOT_FOUND:
		return "notfound"
	case api.ValidationState_VALIDATION_STATE_NONE:
		return "none"
	}
	return fmt.Sprintf("other:%d", v.State)
}

// every injected route has its own pseudo peer address 192.0.2.<index>, except the routes with an
// empty AS_PATH, which are plain local routes (no source)
func c16RouteIndex(name string) int {
	n, _ := strconv.Atoi(strings.TrimPrefix(name, "r"))
	return n
}

func c16MarkOf(attrs []bgp.PathAttributeInterface) string {
	marks := []string{}
	for _, a := range attrs {
		if c, ok := a.(*bgp.PathAttributeCommunities); ok {
			for _, v := range c.Value {
				switch v {
				case c16LocalAS<<16 | 1:
					marks = append(marks, "valid")
				case c16LocalAS<<16 | 2:
					marks = append(marks, "invalid")
				case c16LocalAS<<16 | 3:
					marks = append(marks, "notfound")
				default:
					marks = append(marks, fmt.Sprintf("other:%d", v))
				}
			}
		}
	}
	if len(marks) == 0 {
		return "nomatch"
	}
	sort.Strings(marks)
	return strings.Join(marks, "+")
}

// listPaths returns, per injected route name, the validation state ListPath reports and the mark
// the import policy left on the path.
func (r *c16Run) listPaths() (map[string]string, map[string]string) {
	val := map[string]string{}
	mark := map[string]string{}
	key := func(pfx string, addr netip.Addr) string { return pfx + "|" + addr.String() }
	want := map[string]string{}
	for name := range r.inj {
		rt := r.routes[name]
		addr := netip.Addr{}
		if len(rt.Path) != 0 {
			addr = netip.AddrFrom4([4]byte{192, 0, 2, byte(c16RouteIndex(name))})
		}
		want[key(rt.Pfx, addr)] = name
	}
	for _, fam := range []bgp.Family{bgp.RF_IPv4_UC, bgp.RF_IPv6_UC} {
		err := r.s.ListPath(apiutil.ListPathRequest{TableType: api.TableType_TABLE_TYPE_GLOBAL, Family: fam},
			func(prefix bgp.NLRI, paths []*apiutil.Path) {
				for _, p := range paths {
					k := key(prefix.String(), p.PeerAddress)
					name, ok := want[k]
					if !ok {
						name = "other:" + k
					}
					val[name] = c16ValState(p.Validation)
					mark[name] = c16MarkOf(p.Attrs)
				}
			})
		if err != nil {
			r.fail = "ListPath: " + err.Error()
		}
	}
	return val, mark
}

func (r *c16Run) observe() (c16Obs, map[string]string) {
	obs := c16Obs{Table: []c16Row{}, Val: map[string]string{}, Srv: r.listRpki()}
	err := r.s.ListRpkiTable(context.Background(), &api.ListRpkiTableRequest{}, func(x *api.Roa) {
		hp := net.JoinHostPort(x.Conf.Address, strconv.Itoa(int(x.Conf.RemotePort)))
		name, ok := r.byHost[hp]
		if !ok {
			name = "other:" + hp
		}
		obs.Table = append(obs.Table, c16Row{C: name, P: fmt.Sprintf("%s/%d", x.Prefix, x.Prefixlen), M: x.Maxlen, A: x.Asn})
	})
	if err != nil {
		r.fail = "ListRpkiTable: " + err.Error()
	}
	val, mark := r.listPaths()
	obs.Val = val
	return obs, mark
}

func c16SegType(t string) uint8 {
	switch t {
	case "SEQ":
		return bgp.BGP_ASPATH_ATTR_TYPE_SEQ
	case "SET":
		return bgp.BGP_ASPATH_ATTR_TYPE_SET
	case "CSEQ":
		return bgp.BGP_ASPATH_ATTR_TYPE_CONFED_SEQ
	case "CSET":
		return bgp.BGP_ASPATH_ATTR_TYPE_CONFED_SET
	}
	panic("segment type " + t)
}

func (r *c16Run) inject(name string) error {
	rt, ok := r.routes[name]
	if !ok {
		return fmt.Errorf("unknown route %s", name)
	}
	pfx := netip.MustParsePrefix(rt.Pfx)
	nlri, err := bgp.NewIPAddrPrefix(pfx)
	if err != nil {
		return err
	}
	params := make([]bgp.AsPathParamInterface, 0, len(rt.Path))
	for _, s := range rt.Path {
		params = append(params, bgp.NewAs4PathParam(c16SegType(s.T), append([]uint32{}, s.AS...)))
	}
	attrs := []bgp.PathAttributeInterface{bgp.NewPathAttributeOrigin(0), bgp.NewPathAttributeAsPath(params)}
	fam := bgp.RF_IPv4_UC
	if pfx.Addr().Is4() {
		nh, _ := bgp.NewPathAttributeNextHop(netip.MustParseAddr("192.0.2.254"))
		attrs = append(attrs, nh)
	} else {
		fam = bgp.RF_IPv6_UC
		mp, _ := bgp.NewPathAttributeMpReachNLRI(fam, []bgp.PathNLRI{{NLRI: nlri}}, netip.MustParseAddr("2001:db8:ffff::1"))
		attrs = append(attrs, mp)
	}
	p := &apiutil.Path{Family: fam, Nlri: nlri, Attrs: attrs, Age: 1000}
	if len(rt.Path) != 0 {
		i := c16RouteIndex(name)
		p.PeerASN = 65100 + uint32(i)
		p.PeerID = netip.AddrFrom4([4]byte{192, 0, 2, byte(i)})
		p.PeerAddress = netip.AddrFrom4([4]byte{192, 0, 2, byte(i)})
	}
	_, err = r.s.AddPath(apiutil.AddPathRequest{Paths: []*apiutil.Path{p}})
	if err == nil {
		r.inj[name] = true
	}
	return err
}

func (r *c16Run) setupPolicy() error {
	st := func(name string, res api.ValidationState, comm string) *api.Statement {
		return &api.Statement{
			Name:       name,
			Conditions: &api.Conditions{RpkiResult: res},
			Actions: &api.Actions{
				Community: &api.CommunityAction{Type: api.CommunityAction_TYPE_ADD, Communities: []string{comm}},
			},
		}
	}
	pol := &api.Policy{Name: "c16pol", Statements: []*api.Statement{
		st("c16-valid", api.ValidationState_VALIDATION_STATE_VALID, "65000:1"),
		st("c16-invalid", api.ValidationState_VALIDATION_STATE_INVALID, "65000:2"),
		st("c16-notfound", api.ValidationState_VALIDATION_STATE_NOT_FOUND, "65000:3"),
	}}
	if err := r.s.AddPolicy(context.Background(), &api.AddPolicyRequest{Policy: pol}); err != nil {
		return err
	}
	return r.s.AddPolicyAssignment(context.Background(), &api.AddPolicyAssignmentRequest{
		Assignment: &api.PolicyAssignment{
			Name:          "global",
			Direction:     api.PolicyDirection_POLICY_DIRECTION_IMPORT,
			Policies:      []*api.Policy{{Name: "c16pol"}},
			DefaultAction: api.RouteAction_ROUTE_ACTION_ACCEPT,
		},
	})
}

func c16PrefixPDU(rec c16Rec, flags uint8) rtr.RTRMessage {
	pfx := netip.MustParsePrefix(rec.P)
	return rtr.NewRTRIPPrefix(pfx.Addr(), uint8(pfx.Bits()), rec.M, rec.A, flags)
}

// step executes one schedule step and returns the extra fields of its trace row.
func (r *c16Run) step(st c16Step) map[string]any {
	row := map[string]any{"ev": st.Ev}
	ctx := context.Background()
	var c *c16Cache
	if st.C != "" {
		c = r.caches[st.C]
		row["c"] = st.C
		if c == nil {
			r.fail = "unknown cache " + st.C
			return row
		}
	}
	gen0 := 0
	if c != nil {
		gen0, _, _, _ = c.snapshot()
	}
	popQuery := func(onlySerial bool) string {
		c.mu.Lock()
		defer c.mu.Unlock()
		if len(c.fifo) == 0 || (onlySerial && c.fifo[0] != "serial") {
			return "none"
		}
		q := c.fifo[0]
		c.fifo = c.fifo[1:]
		return q
	}
	sendPDU := func(m rtr.RTRMessage) {
		if err := c.send(m); err != nil {
			r.fail = "cache send: " + err.Error()
		}
	}
	switch st.Ev {
	case "AddRpki":
		err := r.s.AddRpki(ctx, &api.AddRpkiRequest{Address: c.addr, Port: uint32(c.port), Lifetime: 86400})
		row["ok"] = err == nil
		if err == nil {
			c.cfg = true
			r.waitConn(c, gen0+1)
		}
	case "DeleteRpki":
		row["form"] = st.Form
		var err error
		if st.Form == "addr" {
			// as `gobgp rpki server <addr> delete` issues it
			err = r.s.DeleteRpki(ctx, &api.DeleteRpkiRequest{Address: c.addr, Port: uint32(c.port)})
		} else {
			err = r.s.DeleteRpki(ctx, &api.DeleteRpkiRequest{Address: c.hostport()})
		}
		row["ok"] = err == nil
		if err == nil {
			wasCfg := c.cfg
			c.cfg = false
			if wasCfg {
				// the reader goroutine of the deleted client still reports its disconnection; wait
				// until the server has consumed that event so that a later AddRpki is not hit by it
				r.staleExpected++
				want := r.staleExpected
				r.waitFor("stale disconnect event of "+c.name, func() bool {
					_, eof, _, _ := c.snapshot()
					return eof && r.stale.Load() >= want
				})
			}
		}
	case "Bounce":
		c.mu.Lock()
		conn := c.conn
		c.mu.Unlock()
		if conn != nil {
			conn.Close()
		}
		r.waitConn(c, gen0+1)
	case "ResetRpki", "DisableRpki", "SoftResetRpki", "EnableRpki":
		var err error
		switch st.Ev {
		case "ResetRpki":
			err = r.s.ResetRpki(ctx, &api.ResetRpkiRequest{Address: c.addr})
		case "SoftResetRpki":
			err = r.s.ResetRpki(ctx, &api.ResetRpkiRequest{Address: c.addr, Soft: true})
		case "DisableRpki":
			err = r.s.DisableRpki(ctx, &api.DisableRpkiRequest{Address: c.addr})
		case "EnableRpki":
			err = r.s.EnableRpki(ctx, &api.EnableRpkiRequest{Address: c.addr})
		}
		row["ok"] = err == nil
		if err == nil && (st.Ev == "ResetRpki" || st.Ev == "DisableRpki") {
			r.waitConn(c, gen0+1)
		}
	case "Resp":
		row["sid"] = st.Sid
		row["q"] = popQuery(false)
		sendPDU(rtr.NewRTRCacheResponse(st.Sid))
	case "Pfx":
		row["ann"] = st.Ann
		row["r"] = st.R
		flags := uint8(0)
		if st.Ann {
			flags = 1
		}
		sendPDU(c16PrefixPDU(st.R, flags))
	case "Eod":
		row["sid"] = st.Sid
		row["sn"] = st.Sn
		sendPDU(rtr.NewRTREndOfData(st.Sid, st.Sn))
	case "Notify":
		row["sid"] = st.Sid
		row["sn"] = st.Sn
		sendPDU(rtr.NewRTRSerialNotify(st.Sid, st.Sn))
	case "CacheReset":
		row["q"] = popQuery(true)
		sendPDU(rtr.NewRTRCacheReset())
	case "ErrorReport":
		sendPDU(rtr.NewRTRErrorReport(rtr.NO_DATA_AVAILABLE, nil, []byte("c16")))
	case "Inject":
		row["rt"] = st.Rt
		err := r.inject(st.Rt)
		row["ok"] = err == nil
	default:
		r.fail = "unknown step " + st.Ev
	}
	return row
}


func (r *c16Run) close() {
	for _, n := range r.names {
		c := r.caches[n]
		if c.cfg {
			_ = r.s.DeleteRpki(context.Background(), &api.DeleteRpkiRequest{Address: c.hostport()})
		}
		c.ln.Close()
		c.mu.Lock()
		if c.conn != nil {
			c.conn.Close()
		}
		c.mu.Unlock()
	}
	_ = r.s.StopBgp(context.Background(), &api.StopBgpRequest{})
	r.s.Stop()
}

func c16ReadLines(t *testing.T, name string, f func(line []byte)) {
	p := os.Getenv(name)
	if p == "" {
		t.Skipf("%s not set", name)
	}
	fh, err := os.Open(p)
	if err != nil {
		t.Fatal(err)
	}
	defer fh.Close()
	sc := bufio.NewScanner(fh)
	sc.Buffer(make([]byte, 1<<20), 1<<28)
	for sc.Scan() {
		b := sc.Bytes()
		if len(b) == 0 {
			continue
		}
		c := make([]byte, len(b))
		copy(c, b)
		f(c)
	}
	if err := sc.Err(); err != nil {
		t.Fatal(err)
	}
}

func TestVerifC16Srv(t *testing.T) {
	outp := os.Getenv("VERIF_OUT")
	if outp == "" {
		t.Skip("VERIF_OUT not set")
	}
	of, err := os.Create(outp)
	if err != nil {
		t.Fatal(err)
	}
	defer of.Close()
	w := bufio.NewWriterSize(of, 1<<20)
	defer w.Flush()
	emit := func(v any) {
		b, err := json.Marshal(v)
		if err != nil {
			t.Fatal(err)
		}
		w.Write(b)
		w.WriteByte('\n')
	}
	tid := 0
	c16ReadLines(t, "VERIF_IN", func(line []byte) {
		var b c16Beh
		if err := json.Unmarshal(line, &b); err != nil {
			t.Fatalf("bad behaviour: %v", err)
		}
		tid++
		stale := &atomic.Int64{}
		s := NewBgpServer(LoggerOption(slog.New(c16LogHandler{stale: stale}), nil))
		go s.Serve()
		if err := s.StartBgp(context.Background(), &api.StartBgpRequest{
			Global: &api.Global{Asn: c16LocalAS, RouterId: "10.255.0.1", ListenPort: -1},
		}); err != nil {
			t.Fatal(err)
		}
		r := &c16Run{t: t, s: s, caches: map[string]*c16Cache{}, byHost: map[string]string{}, stale: stale,
			routes: b.Routes, inj: map[string]bool{}}
		for i, n := range []string{"c1", "c2"} {
			c := c16NewCache(t, n, fmt.Sprintf("127.0.0.%d", i+1))
			r.caches[n] = c
			r.names = append(r.names, n)
			r.byHost[c.hostport()] = n
		}
		if err := r.setupPolicy(); err != nil {
			t.Fatalf("policy: %v", err)
		}
		hosts := map[string]string{}
		for n, c := range r.caches {
			hosts[n] = c.hostport()
		}
		emit(map[string]any{"ev": "Reset", "tid": tid, "clean": b.Clean, "routes": b.Routes, "caches": hosts,
			"localas": c16LocalAS})
		for _, st := range b.Steps {
			row := r.step(st)
			if r.fail == "" {
				r.quiesce()
			}
			if r.fail != "" {
				// machinery trouble (never a verdict): the unconsumable line makes the driver exit 2
				emit(map[string]any{"ev": "HarnessFailure", "why": r.fail, "step": st})
				break
			}
			row["qs"] = r.drainFresh()
			obs, mark := r.observe()
			row["obs"] = obs
			if st.Ev == "Inject" {
				if m, ok := mark[st.Rt]; ok {
					row["mark"] = m
				} else {
					row["mark"] = "absent"
				}
			}
			emit(row)
		}
		r.close()
	})
}
