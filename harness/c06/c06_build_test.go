package server

// C06 harness, part 1: from the ABSTRACT description of a (possibly malformed) UPDATE, as TLC
// enumerated it from spec/UpdateErrorGen.tla, to BYTES.  The builder starts from a valid
// serialised UPDATE (a list of attribute TLVs + withdrawn routes + NLRI) and applies each fault at
// byte level.  Nothing here decides what the speaker should do with the message.

import (
	"encoding/binary"
	"encoding/hex"
	"fmt"
	"net/netip"
)

type c06Fault struct {
	A   string `json:"a"`   // attribute / field name (ORIGIN ... UNKNOWN, ATTR, TOTLEN, WDLEN, WDPFX, NLRI)
	K   string `json:"k"`   // kind of fault
	Pos string `json:"pos"` // "orig" | "first" | "last": where the faulted TLV (dup: the extra copy) goes
}

type c06Sched struct {
	ID     int        `json:"id"`
	Pt     string     `json:"pt"`   // "ebgp" | "ibgp" | "confed"
	Taw    bool       `json:"taw"`  // revised error handling (treat-as-withdraw) enabled on the peer
	Base   string     `json:"base"` // "v4" | "v6" | "wd" | "mix"
	Faults []c06Fault `json:"faults"`
}

var c06AttrType = map[string]byte{
	"ORIGIN": 1, "AS_PATH": 2, "NEXT_HOP": 3, "MED": 4, "LOCAL_PREF": 5, "ATOMIC_AGGREGATE": 6,
	"AGGREGATOR": 7, "COMMUNITIES": 8, "ORIGINATOR_ID": 9, "CLUSTER_LIST": 10, "MP_REACH": 14,
	"MP_UNREACH": 15, "EXT_COMMUNITIES": 16, "AS4_PATH": 17, "AS4_AGGREGATOR": 18,
	"LARGE_COMMUNITIES": 32, "UNKNOWN": 99,
}

const (
	c06UnkOpt  = 99 // unknown optional transitive attribute
	c06UnkWk   = 98 // unknown attribute sent with well-known flags
	c06UnkTail = 97 // sacrificial attribute used by the overrun fault
)

// prefixes by abstract name
var c06Pfx = map[string]netip.Prefix{
	"P1": netip.MustParsePrefix("10.1.0.0/24"),
	"P2": netip.MustParsePrefix("10.2.0.0/24"),
	"P3": netip.MustParsePrefix("10.3.0.0/24"),
	"K4": netip.MustParsePrefix("10.9.0.0/24"),
	"Q1": netip.MustParsePrefix("2001:db8:1::/48"),
	"Q2": netip.MustParsePrefix("2001:db8:2::/48"),
	"Q3": netip.MustParsePrefix("2001:db8:3::/48"),
}

var c06PfxNames = []string{"P1", "P2", "P3", "K4", "Q1", "Q2", "Q3"}

func c06PfxName(p netip.Prefix) string {
	for n, q := range c06Pfx {
		if p == q {
			return n
		}
	}
	return "other:" + p.String()
}

func c06PeerAS(pt string) uint32 {
	switch pt {
	case "ibgp":
		return simLocalAS
	case "confed":
		return 65010
	}
	return 65001
}

const (
	c06OldAS = 100 // last AS of the AS_PATH of the routes installed BEFORE the message under test
	c06NewAS = 200 // last AS of the AS_PATH carried by the message under test
)

type c06TLV struct {
	flags byte
	typ   byte
	val   []byte
	bad   bool // some fault touched this instance
}

func c06u32(v uint32) []byte { b := make([]byte, 4); binary.BigEndian.PutUint32(b, v); return b }

func c06Seg(typ byte, as ...uint32) []byte {
	b := []byte{typ, byte(len(as))}
	for _, a := range as {
		b = append(b, c06u32(a)...)
	}
	return b
}

func c06AsPath(pt string, last uint32, extra ...uint32) []byte {
	var b []byte
	tail := append(append([]uint32{}, extra...), last)
	switch pt {
	case "ebgp":
		b = c06Seg(2, append([]uint32{c06PeerAS(pt)}, tail...)...)
	case "ibgp":
		b = c06Seg(2, tail...)
	case "confed":
		b = append(c06Seg(3, c06PeerAS(pt)), c06Seg(2, tail...)...)
	}
	return b
}

func c06PfxBytes(names ...string) []byte {
	var b []byte
	for _, n := range names {
		p := c06Pfx[n]
		bl := (p.Bits() + 7) / 8
		b = append(b, byte(p.Bits()))
		b = append(b, p.Addr().AsSlice()[:bl]...)
	}
	return b
}

var c06V6NH = netip.MustParseAddr("2001:db8::1")

func c06MpReach(names ...string) []byte {
	b := []byte{0, 2, 1, 16}
	b = append(b, c06V6NH.AsSlice()...)
	b = append(b, 0)
	return append(b, c06PfxBytes(names...)...)
}

func c06MpUnreach(names ...string) []byte {
	return append([]byte{0, 2, 1}, c06PfxBytes(names...)...)
}

// good (well-formed) instance of an attribute; alt=true gives a second, different well-formed value
func c06Good(name string, pt string, alt bool) c06TLV {
	pick := func(a, b []byte) []byte {
		if alt {
			return b
		}
		return a
	}
	switch name {
	case "ORIGIN":
		return c06TLV{0x40, 1, pick([]byte{0}, []byte{1}), false}
	case "AS_PATH":
		if alt {
			return c06TLV{0x40, 2, c06AsPath(pt, c06NewAS, 300), false}
		}
		return c06TLV{0x40, 2, c06AsPath(pt, c06NewAS), false}
	case "NEXT_HOP":
		return c06TLV{0x40, 3, pick([]byte{10, 0, 0, 1}, []byte{10, 0, 0, 9}), false}
	case "MED":
		return c06TLV{0x80, 4, pick(c06u32(5), c06u32(6)), false}
	case "LOCAL_PREF":
		return c06TLV{0x40, 5, pick(c06u32(100), c06u32(101)), false}
	case "ATOMIC_AGGREGATE":
		return c06TLV{0x40, 6, []byte{}, false}
	case "AGGREGATOR":
		return c06TLV{0xC0, 7, append(c06u32(65001), pick([]byte{10, 0, 0, 1}, []byte{10, 0, 0, 2})...), false}
	case "COMMUNITIES":
		return c06TLV{0xC0, 8, pick([]byte{0xfd, 0xe9, 0, 1}, []byte{0xfd, 0xe9, 0, 2}), false}
	case "ORIGINATOR_ID":
		return c06TLV{0x80, 9, pick([]byte{1, 2, 3, 4}, []byte{1, 2, 3, 5}), false}
	case "CLUSTER_LIST":
		return c06TLV{0x80, 10, pick([]byte{5, 6, 7, 8}, []byte{5, 6, 7, 9}), false}
	case "EXT_COMMUNITIES":
		return c06TLV{0xC0, 16, pick([]byte{0, 2, 0xfd, 0xe9, 0, 0, 0, 1}, []byte{0, 2, 0xfd, 0xe9, 0, 0, 0, 2}), false}
	case "AS4_PATH":
		if alt {
			return c06TLV{0xC0, 17, c06AsPath("ebgp", c06NewAS, 300), false}
		}
		return c06TLV{0xC0, 17, c06AsPath("ebgp", c06NewAS), false}
	case "AS4_AGGREGATOR":
		return c06TLV{0xC0, 18, append(c06u32(65001), pick([]byte{10, 0, 0, 1}, []byte{10, 0, 0, 2})...), false}
	case "LARGE_COMMUNITIES":
		return c06TLV{0xC0, 32, append(append(c06u32(65001), c06u32(1)...), pick(c06u32(1), c06u32(2))...), false}
	case "UNKNOWN":
		return c06TLV{0xC0, c06UnkOpt, pick([]byte{1, 2, 3}, []byte{1, 2, 4}), false}
	}
	panic("c06: no good value for " + name)
}

type c06Msg struct {
	withdrawn []byte
	attrs     []c06TLV
	nlri      []byte
	// framing faults applied at serialisation
	wdLenDelta   int  // added to the Withdrawn Routes Length field
	wdLenOver    bool // Withdrawn Routes Length beyond the end of the message
	totLenDelta  int
	totLenOver   bool
	tailOverrun  bool // last attribute's declared length runs over the Total Attribute Length
	tailShort    bool // 2 stray octets at the end of the attribute area
	nlriDropLast bool
}

func c06Find(attrs []c06TLV, typ byte) int {
	for i, a := range attrs {
		if a.typ == typ {
			return i
		}
	}
	return -1
}

func c06Move(attrs []c06TLV, i int, pos string) []c06TLV {
	switch pos {
	case "first":
		t := attrs[i]
		out := append([]c06TLV{t}, attrs[:i]...)
		return append(out, attrs[i+1:]...)
	case "last":
		t := attrs[i]
		out := append(append([]c06TLV{}, attrs[:i]...), attrs[i+1:]...)
		return append(out, t)
	}
	return attrs
}

// c06Base returns the valid message of a base shape for a peer type.
func c06Base(base, pt string) *c06Msg {
	m := &c06Msg{}
	std := func() {
		m.attrs = append(m.attrs, c06Good("ORIGIN", pt, false), c06Good("AS_PATH", pt, false))
	}
	rest := func() {
		m.attrs = append(m.attrs, c06Good("MED", pt, false))
		if pt != "ebgp" {
			m.attrs = append(m.attrs, c06Good("LOCAL_PREF", pt, false))
		}
	}
	switch base {
	case "v4":
		std()
		m.attrs = append(m.attrs, c06Good("NEXT_HOP", pt, false))
		rest()
		m.nlri = c06PfxBytes("P1", "P2")
	case "v6":
		std()
		rest()
		m.attrs = append(m.attrs, c06TLV{0x80, 14, c06MpReach("Q1", "Q2"), false})
	case "wd":
		m.withdrawn = c06PfxBytes("P3")
		m.attrs = append(m.attrs, c06TLV{0x80, 15, c06MpUnreach("Q3"), false})
	case "mix":
		std()
		m.attrs = append(m.attrs, c06Good("NEXT_HOP", pt, false))
		rest()
		m.attrs = append(m.attrs, c06TLV{0x80, 14, c06MpReach("Q1"), false}, c06TLV{0x80, 15, c06MpUnreach("Q3"), false})
		m.withdrawn = c06PfxBytes("P3")
		m.nlri = c06PfxBytes("P1")
	default:
		panic("c06: base " + base)
	}
	return m
}

// the routes installed before the message under test: P1 P2 P3 K4 (NLRI) and Q1 Q2 Q3 (MP_REACH)
func c06PreMsgs(pt string) [][]byte {
	attrs := func() []c06TLV {
		a := []c06TLV{c06Good("ORIGIN", pt, false), {0x40, 2, c06AsPath(pt, c06OldAS), false}}
		a = append(a, c06TLV{0x80, 4, c06u32(77), false})
		if pt != "ebgp" {
			a = append(a, c06Good("LOCAL_PREF", pt, false))
		}
		return a
	}
	m4 := &c06Msg{attrs: append(attrs(), c06Good("NEXT_HOP", pt, false)), nlri: c06PfxBytes("P1", "P2", "P3", "K4")}
	m6 := &c06Msg{attrs: append(attrs(), c06TLV{0x80, 14, c06MpReach("Q1", "Q2", "Q3"), false})}
	return [][]byte{m4.bytes(), m6.bytes()}
}

func c06ApplyFaults(m *c06Msg, pt string, faults []c06Fault) {
	for _, f := range faults {
		typ, isAttr := c06AttrType[f.A]
		switch {
		case f.A == "UNKNOWN":
			switch f.K {
			case "ok": // benign: unrecognised optional transitive attribute
				m.attrs = append(m.attrs, c06Good("UNKNOWN", pt, false))
				m.attrs = c06Move(m.attrs, len(m.attrs)-1, f.Pos)
			case "dup":
				if c06Find(m.attrs, c06UnkOpt) < 0 {
					m.attrs = append(m.attrs, c06Good("UNKNOWN", pt, false))
				}
				m.attrs = append(m.attrs, c06Good("UNKNOWN", pt, true))
				m.attrs = c06Move(m.attrs, len(m.attrs)-1, f.Pos)
			case "wk": // unrecognised attribute sent as well-known (optional bit clear, transitive set)
				m.attrs = append(m.attrs, c06TLV{0x40, c06UnkWk, []byte{1}, true})
				m.attrs = c06Move(m.attrs, len(m.attrs)-1, f.Pos)
			case "wk0": // unrecognised, optional and transitive bits both clear
				m.attrs = append(m.attrs, c06TLV{0x00, c06UnkWk, []byte{1}, true})
				m.attrs = c06Move(m.attrs, len(m.attrs)-1, f.Pos)
			default:
				panic("c06: fault " + f.A + "/" + f.K)
			}
		case isAttr:
			i := c06Find(m.attrs, typ)
			if f.K == "miss" {
				if i >= 0 {
					m.attrs = append(m.attrs[:i], m.attrs[i+1:]...)
				}
				continue
			}
			if i < 0 {
				if typ == 14 || typ == 15 {
					panic("c06: " + f.A + " fault on a base without it")
				}
				if typ == 18 && f.K != "alone" && c06Find(m.attrs, 7) < 0 {
					// AS4_AGGREGATOR normally travels with AGGREGATOR (RFC 6793 4.2.3)
					m.attrs = append(m.attrs, c06Good("AGGREGATOR", pt, false))
				}
				m.attrs = append(m.attrs, c06Good(f.A, pt, false))
				i = len(m.attrs) - 1
			}
			if f.K == "alone" {
				m.attrs = c06Move(m.attrs, i, f.Pos)
				continue
			}
			if f.K == "dup" {
				var t c06TLV
				switch typ {
				// the extra copy is a second, different, well-formed instance: which of the two is
				// "the first occurrence" is decided by the wire order (see good())
				case 14:
					t = c06TLV{0x80, 14, c06MpReach("Q2"), false}
				case 15:
					t = c06TLV{0x80, 15, c06MpUnreach("Q2"), false}
				default:
					t = c06Good(f.A, pt, true)
				}
				m.attrs = append(m.attrs, t)
				m.attrs = c06Move(m.attrs, len(m.attrs)-1, f.Pos)
				continue
			}
			t := &m.attrs[i]
			t.bad = true
			c06Mutate(t, f, pt)
			m.attrs = c06Move(m.attrs, i, f.Pos)
		case f.A == "ATTR" && f.K == "overrun":
			m.tailOverrun = true
		case f.A == "ATTR" && f.K == "short":
			m.tailShort = true
		case f.A == "TOTLEN" && f.K == "over":
			m.totLenOver = true
		case f.A == "TOTLEN" && f.K == "short":
			m.totLenDelta = -1
		case f.A == "WDLEN" && f.K == "over":
			m.wdLenOver = true
		case f.A == "WDLEN" && f.K == "cut":
			m.wdLenDelta = -1
		case f.A == "WDPFX" && f.K == "pfxlen":
			m.withdrawn[0] = 33
		case f.A == "NLRI" && f.K == "pfxlen":
			m.nlri[0] = 33
		case f.A == "NLRI" && f.K == "trunc":
			m.nlriDropLast = true
		default:
			panic("c06: fault " + f.A + "/" + f.K)
		}
	}
}

func c06Mutate(t *c06TLV, f c06Fault, pt string) {
	switch f.K {
	case "flags":
		switch {
		case t.flags&0x80 == 0: // well-known sent as optional
			t.flags |= 0x80
		case t.flags&0x40 != 0: // optional transitive sent as well-known
			t.flags &^= 0x80
		default: // optional non-transitive sent as transitive
			t.flags |= 0x40
		}
	case "zlen":
		t.val = []byte{}
	case "len":
		switch t.typ {
		case 1:
			t.val = []byte{0, 0}
		case 6:
			t.val = []byte{0}
		case 14, 15:
			t.val = t.val[:2]
		case 3, 9:
			t.val = t.val[:3]
		case 4:
			t.val = t.val[:3]
		default: // one octet more than a legal length: 5 (LOCAL_PREF, communities, cluster list), ...
			t.val = append(append([]byte{}, t.val...), 0)
			if t.typ == 7 || t.typ == 16 || t.typ == 18 || t.typ == 32 {
				t.val = t.val[:len(t.val)-2] // one octet less: 7, 7, 7, 11
			}
		}
	case "val":
		switch t.typ {
		case 1:
			t.val = []byte{3}
		case 3:
			t.val = []byte{0, 0, 0, 0}
		case 2:
			switch pt {
			case "ebgp": // confederation segment received from a peer outside the confederation
				t.val = append(c06Seg(3, 65010), t.val...)
			case "confed": // first segment is not AS_CONFED_SEQUENCE
				t.val = c06Seg(2, c06PeerAS(pt), c06NewAS)
			default:
				panic("c06: AS_PATH/val for " + pt)
			}
		default:
			panic("c06: val fault on type " + fmt.Sprint(t.typ))
		}
	case "valb": // AS_CONFED_SEQUENCE behind the ordinary segment (plain eBGP peer)
		t.val = append(append([]byte{}, t.val...), c06Seg(3, 65010)...)
	case "valbs": // AS_CONFED_SET behind the ordinary segment
		t.val = append(append([]byte{}, t.val...), c06Seg(4, 65010)...)
	case "valm": // multicast next hop
		t.val = []byte{224, 0, 0, 5}
	case "segtype":
		t.val = append([]byte{}, t.val...)
		t.val[0] = 5
	case "segzero": // a segment with zero ASes prepended
		t.val = append([]byte{2, 0}, t.val...)
	case "segover": // segment count larger than what the attribute holds
		t.val = append([]byte{}, t.val...)
		t.val[1] += 3
	case "nh": // MP_REACH next hop length 5
		v := append([]byte{}, t.val[:3]...)
		v = append(v, 5, 1, 2, 3, 4, 5)
		t.val = append(v, t.val[4+16:]...)
	case "pfxlen": // first prefix of MP_REACH / MP_UNREACH longer than 128 bits
		t.val = append([]byte{}, t.val...)
		if t.typ == 14 {
			t.val[4+16+1] = 129
		} else {
			t.val[3] = 129
		}
	case "ptrunc": // last prefix of MP_REACH / MP_UNREACH truncated (attribute length consistent)
		t.val = append([]byte{}, t.val[:len(t.val)-1]...)
	default:
		panic("c06: mutate " + f.A + "/" + f.K)
	}
}

func (t c06TLV) bytes() []byte {
	if len(t.val) > 255 {
		b := []byte{t.flags | 0x10, t.typ, byte(len(t.val) >> 8), byte(len(t.val))}
		return append(b, t.val...)
	}
	return append([]byte{t.flags, t.typ, byte(len(t.val))}, t.val...)
}

func (m *c06Msg) bytes() []byte {
	var ab []byte
	for _, a := range m.attrs {
		ab = append(ab, a.bytes()...)
	}
	if m.tailOverrun {
		// declared 10 octets, only 2 inside the attribute area
		ab = append(ab, 0xC0, c06UnkTail, 10, 1, 2)
	}
	if m.tailShort {
		ab = append(ab, 0xC0, c06UnkTail)
	}
	nl := m.nlri
	if m.nlriDropLast && len(nl) > 0 {
		nl = nl[:len(nl)-1]
	}
	wdl := len(m.withdrawn) + m.wdLenDelta
	if m.wdLenOver {
		wdl = len(m.withdrawn) + 2 + len(ab) + len(nl) + 1
	}
	tot := len(ab) + m.totLenDelta
	if m.totLenOver {
		tot = len(ab) + len(nl) + 1
	}
	body := []byte{byte(wdl >> 8), byte(wdl)}
	body = append(body, m.withdrawn...)
	body = append(body, byte(tot>>8), byte(tot))
	body = append(body, ab...)
	body = append(body, nl...)
	hdr := make([]byte, 19)
	for i := 0; i < 16; i++ {
		hdr[i] = 0xff
	}
	binary.BigEndian.PutUint16(hdr[16:], uint16(19+len(body)))
	hdr[18] = 2
	return append(hdr, body...)
}

// attribute value as it is compared between "what the valid part of the message said" and "what an
// installed route carries": <Optional/Transitive bits>:<value hex>; MP_REACH is compared by next hop.
func c06AttrKeyVal(flags, typ byte, val []byte) (string, string) {
	k := fmt.Sprintf("t%d", typ)
	if typ == 14 {
		if len(val) >= 4 && len(val) >= 4+int(val[3]) {
			val = val[4 : 4+int(val[3])]
		}
	}
	return k, fmt.Sprintf("%02x:%s", flags&0xC0, hex.EncodeToString(val))
}

// good = first occurrence of every attribute type in wire order, if no fault touched it
func (m *c06Msg) good() map[string]string {
	g := map[string]string{"_": ""}
	seen := map[byte]bool{}
	for _, a := range m.attrs {
		if seen[a.typ] {
			continue
		}
		seen[a.typ] = true
		if !a.bad {
			k, v := c06AttrKeyVal(a.flags, a.typ, a.val)
			g[k] = v
		}
	}
	return g
}

func (m *c06Msg) order() []int {
	o := []int{}
	for _, a := range m.attrs {
		o = append(o, int(a.typ))
	}
	return o
}
