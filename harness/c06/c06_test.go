package server

// C06 harness, part 2: the two replayers.  Both only RECORD: inputs (the abstract message, its
// bytes) and observations (NOTIFICATION, session state, Adj-RIB-In / global table / what a second
// neighbour was sent).  The verdict is made by TLC (spec/trace/UpdateErrorTrace.tla).
//
//   TestVerifC06E2E  a synctest bubble per schedule: the REAL BgpServer, neighbour X (the peer under
//                    test: eBGP / iBGP / confederation member) and an eBGP neighbour N2, both
//                    established; X first installs routes for P1 P2 P3 K4 Q1 Q2 Q3, then sends the
//                    bytes under test.
//   TestVerifC06WB   white-box, no server: the REAL fsmHandler.recvMessageloop reads the bytes from an
//                    in-memory connection (decode, ValidateUpdateMsg, handlingError), the REAL
//                    peer.handleUpdate (table.ProcessMessage + Adj-RIB-In) consumes what the loop
//                    hands over.  Cheap enough for the full product of fault pairs.

import (
	"context"
	"encoding/hex"
	"encoding/json"
	"io"
	"log/slog"
	"net/netip"
	"sync"
	"testing"
	"testing/synctest"
	"time"

	api "github.com/osrg/gobgp/v4/api"
	"github.com/osrg/gobgp/v4/internal/pkg/table"
	"github.com/osrg/gobgp/v4/pkg/apiutil"
	"github.com/osrg/gobgp/v4/pkg/config/oc"
	"github.com/osrg/gobgp/v4/pkg/packet/bgp"
)

const (
	c06XAddr  = "10.0.0.1"
	c06N2Addr = "10.0.0.2"
	c06N2AS   = 65009
)

var c06Families = []bgp.Family{bgp.RF_IPv4_UC, bgp.RF_IPv6_UC}

// ---------------------------------------------------------------------------------------
// projection of a route (list of attributes) to the recorded view

type c06View struct {
	V     string            // "adjin" | "glob" | "n2"
	St    string            // "gone" | "old" | "new"
	Attrs map[string]string // "t<type>" -> "<O/T bits>:<value hex>"
	Ndup  int               // attributes whose type occurs more than once in the route
}

// attributes are only recorded for routes that came from the message under test
func (v c06View) MarshalJSON() ([]byte, error) {
	if v.St != "new" {
		return json.Marshal(map[string]any{"v": v.V, "st": v.St})
	}
	return json.Marshal(map[string]any{"v": v.V, "st": v.St, "attrs": v.Attrs, "ndup": v.Ndup})
}

func c06PreObs(o c06Obs) map[string]any {
	nold, n := 0, 0
	for _, vs := range o.Views {
		for _, v := range vs {
			n++
			if v.St == "old" {
				nold++
			}
		}
	}
	return map[string]any{"sess": o.Sess, "nold": nold, "nviews": n}
}

func c06Gone(v string) c06View {
	return c06View{V: v, St: "gone", Attrs: map[string]string{"_": ""}}
}

func c06Project(v string, attrs []bgp.PathAttributeInterface) c06View {
	out := c06View{V: v, St: "new", Attrs: map[string]string{"_": ""}}
	for _, a := range attrs {
		b, err := a.Serialize()
		if err != nil || len(b) < 3 {
			out.Attrs["err"] = "serialize"
			continue
		}
		val := b[3:]
		if b[0]&0x10 != 0 {
			val = b[4:]
		}
		k, s := c06AttrKeyVal(b[0], b[1], val)
		if _, dup := out.Attrs[k]; dup {
			out.Ndup++
			continue
		}
		out.Attrs[k] = s
		if p, ok := a.(*bgp.PathAttributeAsPath); ok {
			var last uint32
			for _, seg := range p.Value {
				if as := seg.GetAS(); len(as) > 0 {
					last = as[len(as)-1]
				}
			}
			if last == c06OldAS {
				out.St = "old"
			}
		}
	}
	return out
}

type c06Obs struct {
	Sess  string               `json:"sess"`  // "up" | "down"
	State string               `json:"state"` // FSM state reported by the API (e2e)
	Code  int                  `json:"code"`  // NOTIFICATION sent by the speaker: code, or -1
	Sub   int                  `json:"sub"`
	Eof   bool                 `json:"eof"`
	Hand  string               `json:"hand"` // wb: handling class attached to the message by the receive loop
	Views map[string][]c06View `json:"views"`
}

func c06HandName(h bgp.ErrorHandling) string {
	switch h {
	case bgp.ERROR_HANDLING_NONE:
		return "none"
	case bgp.ERROR_HANDLING_ATTRIBUTE_DISCARD:
		return "discard"
	case bgp.ERROR_HANDLING_TREAT_AS_WITHDRAW:
		return "withdraw"
	case bgp.ERROR_HANDLING_SESSION_RESET:
		return "reset"
	}
	return "other"
}

func c06ReadSchedules(t *testing.T) []c06Sched {
	var out []c06Sched
	vpReadLines(t, "VERIF_IN", func(line []byte) {
		var s c06Sched
		if err := json.Unmarshal(line, &s); err != nil {
			t.Fatalf("bad schedule: %v", err)
		}
		out = append(out, s)
	})
	return out
}

func c06EmitReset(tr *vpTrace, mode string, sc c06Sched) {
	tr.Emit(map[string]any{"ev": "Reset", "mode": mode, "id": sc.ID, "pt": sc.Pt, "taw": sc.Taw, "base": sc.Base})
}

func c06EmitUpd(tr *vpTrace, sc c06Sched, m *c06Msg, raw []byte, obs c06Obs) {
	fs := sc.Faults
	if fs == nil {
		fs = []c06Fault{}
	}
	tr.Emit(map[string]any{"ev": "Upd", "faults": fs, "good": m.good(), "order": m.order(),
		"hex": hex.EncodeToString(raw[19:]), "obs": obs})
}

// ---------------------------------------------------------------------------------------
// end to end

type c06N2View struct {
	mu sync.Mutex
	m  map[string]c06View
}

func (v *c06N2View) fold(msgs []simMsg) {
	v.mu.Lock()
	defer v.mu.Unlock()
	for _, sm := range msgs {
		if sm.Msg == nil || sm.Msg.Header.Type != bgp.BGP_MSG_UPDATE {
			continue
		}
		u := sm.Msg.Body.(*bgp.BGPUpdate)
		var attrs []bgp.PathAttributeInterface
		var reach *bgp.PathAttributeMpReachNLRI
		for _, a := range u.PathAttributes {
			switch x := a.(type) {
			case *bgp.PathAttributeMpUnreachNLRI:
				for _, n := range x.Value {
					if p, ok := n.NLRI.(*bgp.IPAddrPrefix); ok {
						delete(v.m, c06PfxName(p.Prefix))
					}
				}
				continue
			case *bgp.PathAttributeMpReachNLRI:
				reach = x
			}
			attrs = append(attrs, a)
		}
		for _, n := range u.WithdrawnRoutes {
			if p, ok := n.NLRI.(*bgp.IPAddrPrefix); ok {
				delete(v.m, c06PfxName(p.Prefix))
			}
		}
		for _, n := range u.NLRI {
			if p, ok := n.NLRI.(*bgp.IPAddrPrefix); ok {
				v.m[c06PfxName(p.Prefix)] = c06Project("n2", attrs)
			}
		}
		if reach != nil {
			for _, n := range reach.Value {
				if p, ok := n.NLRI.(*bgp.IPAddrPrefix); ok {
					v.m[c06PfxName(p.Prefix)] = c06Project("n2", attrs)
				}
			}
		}
	}
}

func c06AddPeer(t *testing.T, ss *simServer, addr string, as uint32) {
	fams := []*api.AfiSafi{}
	for _, f := range []api.Family_Afi{api.Family_AFI_IP, api.Family_AFI_IP6} {
		fams = append(fams, &api.AfiSafi{Config: &api.AfiSafiConfig{Family: &api.Family{Afi: f, Safi: api.Family_SAFI_UNICAST}, Enabled: true}})
	}
	err := ss.s.AddPeer(context.Background(), &api.AddPeerRequest{Peer: &api.Peer{
		Conf:      &api.PeerConf{NeighborAddress: addr, PeerAsn: as},
		Transport: &api.Transport{PassiveMode: true},
		Timers:    &api.Timers{Config: &api.TimersConfig{HoldTime: 90, KeepaliveInterval: 30}},
		AfiSafis:  fams,
	}})
	if err != nil {
		t.Fatalf("AddPeer %s: %v", addr, err)
	}
}

func c06Establish(t *testing.T, ss *simServer, p *simPeer) {
	for i := 0; i < 40; i++ {
		if st, _, _ := ss.peerState(p.addr.String()); st == api.PeerState_SESSION_STATE_ACTIVE {
			break
		}
		time.Sleep(500 * time.Millisecond)
		synctest.Wait()
	}
	p.connect()
	synctest.Wait()
	vpMust(p.send(p.defaultOpen(90, c06Families)))
	synctest.Wait()
	vpMust(p.send(bgp.NewBGPKeepAliveMessage()))
	synctest.Wait()
	if st, _, _ := ss.peerState(p.addr.String()); st != api.PeerState_SESSION_STATE_ESTABLISHED {
		t.Fatalf("c06: session with %s not established: %v", p.name, st)
	}
	p.setOptions(&bgp.MarshallingOption{}, &bgp.MarshallingOption{})
}

func c06Observe(ss *simServer, x *simPeer, n2 *simPeer, n2v *c06N2View) c06Obs {
	obs := c06Obs{Sess: "down", Code: -1, Sub: -1, Hand: "na", Views: map[string][]c06View{}}
	for _, sm := range x.take() {
		if sm.Type == bgp.BGP_MSG_NOTIFICATION && sm.Msg != nil && obs.Code < 0 {
			b := sm.Msg.Body.(*bgp.BGPNotification)
			obs.Code, obs.Sub = int(b.ErrorCode), int(b.ErrorSubcode)
		}
	}
	obs.Eof = x.isEOF()
	st, _, _ := ss.peerState(c06XAddr)
	obs.State = st.String()
	if st == api.PeerState_SESSION_STATE_ESTABLISHED {
		obs.Sess = "up"
	}
	n2v.fold(n2.take())
	adjin := map[string]c06View{}
	glob := map[string]c06View{}
	for _, f := range c06Families {
		_ = ss.s.ListPath(apiutil.ListPathRequest{TableType: api.TableType_TABLE_TYPE_ADJ_IN, Name: c06XAddr, Family: f}, func(prefix bgp.NLRI, paths []*apiutil.Path) {
			for _, p := range paths {
				if ip, ok := p.Nlri.(*bgp.IPAddrPrefix); ok {
					adjin[c06PfxName(ip.Prefix)] = c06Project("adjin", p.Attrs)
				}
			}
		})
		_ = ss.s.ListPath(apiutil.ListPathRequest{TableType: api.TableType_TABLE_TYPE_GLOBAL, Family: f}, func(prefix bgp.NLRI, paths []*apiutil.Path) {
			for _, p := range paths {
				if p.PeerAddress.String() != c06XAddr {
					continue
				}
				if ip, ok := p.Nlri.(*bgp.IPAddrPrefix); ok {
					glob[c06PfxName(ip.Prefix)] = c06Project("glob", p.Attrs)
				}
			}
		})
	}
	n2v.mu.Lock()
	for _, n := range c06PfxNames {
		vs := []c06View{c06Gone("adjin"), c06Gone("glob"), c06Gone("n2")}
		if v, ok := adjin[n]; ok {
			vs[0] = v
		}
		if v, ok := glob[n]; ok {
			vs[1] = v
		}
		if v, ok := n2v.m[n]; ok {
			vs[2] = v
		}
		obs.Views[n] = vs
	}
	n2v.mu.Unlock()
	return obs
}

func TestVerifC06E2E(t *testing.T) {
	scheds := c06ReadSchedules(t)
	tr := vpOpenTrace(t)
	defer tr.Close()
	for _, sc := range scheds {
		sc := sc
		synctest.Test(t, func(t *testing.T) {
			g := &api.Global{}
			if sc.Pt == "confed" {
				g.Confederation = &api.Confederation{Enabled: true, Identifier: 65100, MemberAsList: []uint32{c06PeerAS("confed")}}
			}
			ss := newSimServer(t, g)
			c06AddPeer(t, ss, c06XAddr, c06PeerAS(sc.Pt))
			c06AddPeer(t, ss, c06N2Addr, c06N2AS)
			if !sc.Taw {
				// revised error handling cannot be switched off through the API: flip it in the peer's
				// configuration copy before the session is established (read at stateChange(ESTABLISHED))
				vpMust(ss.s.mgmtOperation(func() error {
					p := ss.s.neighborMap[netip.MustParseAddr(c06XAddr)]
					p.fsm.lock.Lock()
					conf := p.fsm.pConf.ReadCopy()
					conf.ErrorHandling.Config.TreatAsWithdraw = false
					p.fsm.pConf.Update(&conf)
					p.fsm.lock.Unlock()
					return nil
				}, false))
			}
			x := newSimPeer(ss, "X", c06XAddr, c06PeerAS(sc.Pt), "1.1.1.1")
			n2 := newSimPeer(ss, "N2", c06N2Addr, c06N2AS, "2.2.2.2")
			c06Establish(t, ss, n2)
			c06Establish(t, ss, x)
			n2v := &c06N2View{m: map[string]c06View{}}
			c06EmitReset(tr, "e2e", sc)
			for _, raw := range c06PreMsgs(sc.Pt) {
				vpMust(x.sendRaw(raw))
				synctest.Wait()
			}
			tr.Emit(map[string]any{"ev": "Pre", "obs": c06PreObs(c06Observe(ss, x, n2, n2v))})
			m := c06Base(sc.Base, sc.Pt)
			c06ApplyFaults(m, sc.Pt, sc.Faults)
			raw := m.bytes()
			go func() { _ = x.sendRaw(raw) }() // a reset may close the connection under the write
			synctest.Wait()
			time.Sleep(200 * time.Millisecond)
			synctest.Wait()
			c06EmitUpd(tr, sc, m, raw, c06Observe(ss, x, n2, n2v))
			ss.stop()
			x.closeConn()
			n2.closeConn()
			synctest.Wait()
		})
	}
}

// ---------------------------------------------------------------------------------------
// white box: real receive loop + real handleUpdate, no server

var c06Logger = slog.New(slog.NewTextHandler(io.Discard, nil))

type c06WB struct {
	peer   *peer
	h      *fsmHandler
	conn   *fakeConn // our end
	cb     chan *fsmMsg
	done   chan struct{}
	cancel context.CancelFunc
}

func c06NewWB(t *testing.T, sc c06Sched) *c06WB {
	gConf := &oc.Global{Config: oc.GlobalConfig{As: simLocalAS, RouterId: netip.MustParseAddr("10.0.0.100")}}
	if sc.Pt == "confed" {
		gConf.Confederation.Config = oc.ConfederationConfig{Enabled: true, Identifier: 65100, MemberAsList: []uint32{c06PeerAS("confed")}}
	}
	as := c06PeerAS(sc.Pt)
	addr := netip.MustParseAddr(c06XAddr)
	nConf := &oc.Neighbor{Config: oc.NeighborConfig{PeerAs: as, NeighborAddress: addr},
		AfiSafis: []oc.AfiSafi{
			{Config: oc.AfiSafiConfig{AfiSafiName: oc.AFI_SAFI_TYPE_IPV4_UNICAST, Enabled: true}},
			{Config: oc.AfiSafiConfig{AfiSafiName: oc.AFI_SAFI_TYPE_IPV6_UNICAST, Enabled: true}},
		}}
	if err := oc.SetDefaultNeighborConfigValues(nConf, nil, gConf); err != nil {
		t.Fatalf("c06: neighbour defaults: %v", err)
	}
	nConf.ErrorHandling.Config.TreatAsWithdraw = sc.Taw
	policy := table.NewRoutingPolicy(c06Logger)
	vpMust(policy.Reset(&oc.RoutingPolicy{}, nil))
	rib := table.NewTableManager(c06Logger, c06Families)
	p := newPeer(gConf, nConf, bgp.BGP_FSM_OPENCONFIRM, rib, policy, c06Logger)
	srv, our := vpPipe(netip.MustParseAddr("10.0.0.100"), addr, 179, 40000)
	// let the REAL stateChange(ESTABLISHED) derive the session parameters (peer type, families,
	// 4-octet AS, treat-as-withdraw switch) from the configuration and the neighbour's OPEN
	sp := &simPeer{as: as, rid: netip.MustParseAddr("1.1.1.1")}
	p.fsm.conn = srv
	p.fsm.recvOpen = sp.defaultOpen(90, c06Families)
	p.fsm.stateChange(bgp.BGP_FSM_ESTABLISHED, newfsmStateReason(fsmOpenMsgNegotiated, nil, nil))
	p.fsm.state.Store(bgp.BGP_FSM_ESTABLISHED)
	conf := p.fsm.pConf.ReadOnly()
	p.peerInfo.Store(table.NewPeerInfo(gConf, conf, conf.State.PeerAs, conf.Config.LocalAs, conf.State.RemoteRouterId,
		gConf.Config.RouterId, conf.Transport.State.RemoteAddress, conf.Transport.State.LocalAddress))
	w := &c06WB{peer: p, conn: our, cb: make(chan *fsmMsg, 4), done: make(chan struct{})}
	ctx, cancel := context.WithCancel(context.Background())
	w.cancel = cancel
	w.h = &fsmHandler{fsm: p.fsm, ctx: ctx, ctxCancel: cancel, callback: func(m *fsmMsg) { w.cb <- m }}
	p.fsm.h = w.h
	wg := &sync.WaitGroup{}
	wg.Add(1)
	hold := make(chan struct{}, 2)
	reason := make(chan fsmStateReason, 3)
	go func() {
		w.h.recvMessageloop(ctx, srv, hold, reason, wg)
		close(w.done)
	}()
	return w
}

// feed writes one message and returns what the loop handed to the callback (nil if the loop ended:
// session reset) together with the NOTIFICATION it queued, if any.
func (w *c06WB) feed(raw []byte) (*fsmMsg, *bgp.BGPMessage) {
	go func() { _, _ = w.conn.Write(raw) }()
	select {
	case m := <-w.cb:
		return m, nil
	case <-w.done:
		select {
		case n := <-w.peer.fsm.notification:
			return nil, n
		default:
			return nil, nil
		}
	}
}

func (w *c06WB) close() {
	w.cancel()
	w.conn.Close()
	<-w.done
}

func (w *c06WB) observe(alive bool, hand string, notif *bgp.BGPMessage) c06Obs {
	obs := c06Obs{Sess: "down", State: "wb", Code: -1, Sub: -1, Hand: hand, Views: map[string][]c06View{}}
	if alive {
		obs.Sess = "up"
	}
	if notif != nil {
		b := notif.Body.(*bgp.BGPNotification)
		obs.Code, obs.Sub = int(b.ErrorCode), int(b.ErrorSubcode)
	}
	adjin := map[string]c06View{}
	for _, p := range w.peer.adjRibIn.PathList(c06Families, false) {
		if ip, ok := p.GetNlri().(*bgp.IPAddrPrefix); ok {
			adjin[c06PfxName(ip.Prefix)] = c06Project("adjin", p.GetPathAttrs())
		}
	}
	for _, n := range c06PfxNames {
		v := c06Gone("adjin")
		if x, ok := adjin[n]; ok {
			v = x
		}
		obs.Views[n] = []c06View{v}
	}
	return obs
}

func TestVerifC06WB(t *testing.T) {
	scheds := c06ReadSchedules(t)
	tr := vpOpenTrace(t)
	defer tr.Close()
	for _, sc := range scheds {
		w := c06NewWB(t, sc)
		c06EmitReset(tr, "wb", sc)
		for _, raw := range c06PreMsgs(sc.Pt) {
			fm, _ := w.feed(raw)
			if fm == nil {
				t.Fatalf("c06: the valid preparation message was refused")
			}
			w.peer.handleUpdate(fm, nil)
		}
		tr.Emit(map[string]any{"ev": "Pre", "obs": c06PreObs(w.observe(true, "none", nil))})
		m := c06Base(sc.Base, sc.Pt)
		c06ApplyFaults(m, sc.Pt, sc.Faults)
		raw := m.bytes()
		fm, notif := w.feed(raw)
		hand := "reset"
		if fm != nil {
			hand = c06HandName(fm.handling)
			w.peer.handleUpdate(fm, nil)
		}
		c06EmitUpd(tr, sc, m, raw, w.observe(fm != nil, hand, notif))
		w.close()
	}
}
