package table

import (
	"encoding/json"
	"testing"

	"github.com/osrg/gobgp/v4/pkg/config/oc"
)

// Replays TLC-generated behaviours of spec/BestPathGen.tla (or a replay file) on the real
// TableManager / destination and records, after every step, what the code reports.
// No property is asserted here: the trace is judged by TLC (spec/trace/BestPathTrace.tla).

type c03Behaviour struct {
	Opt struct {
		Acm    bool `json:"acm"`
		IgnLen bool `json:"ignlen"`
		ExtCmp bool `json:"extcmp"`
	} `json:"opt"`
	Src   map[string]vpSrcInfo `json:"src"`
	Pin   int                  `json:"pin"`
	Steps []struct {
		Ev  string  `json:"ev"`
		R   vpRoute `json:"r"`
		Src string  `json:"src"`
	} `json:"steps"`
}

type c03Obs struct {
	List  []string `json:"list"`
	Best  string   `json:"best"`
	Multi []string `json:"multi"`
	// best-path change notification computed by Update.GetChanges for the global view
	ChgBest string `json:"chgbest"` // src of the notified best, "none", or "wd:<src>" for a withdrawal
	// the same notification in a form TLC can replay: kind "nochange" | "best" | "wd", and the source named
	ChgKind string `json:"chgkind"`
	ChgSrc  string `json:"chgsrc"`
}

func TestVerifC03(t *testing.T) {
	tr := vpOpenTrace(t)
	defer tr.Close()
	savedSel, savedMulti := SelectionOptions, UseMultiplePaths
	defer func() { SelectionOptions, UseMultiplePaths = savedSel, savedMulti }()
	const pfx = "10.10.0.0/24"
	tid := 0
	vpReadLines(t, "VERIF_IN", func(line []byte) {
		var b c03Behaviour
		if err := json.Unmarshal(line, &b); err != nil {
			t.Fatalf("bad behaviour: %v", err)
		}
		tid++
		SelectionOptions = oc.RouteSelectionOptionsConfig{
			AlwaysCompareMed:        b.Opt.Acm,
			IgnoreAsPathLength:      b.Opt.IgnLen,
			ExternalCompareRouterId: b.Opt.ExtCmp,
		}
		UseMultiplePaths = oc.UseMultiplePathsConfig{Enabled: true}
		peers := map[string]*PeerInfo{}
		byAddr := map[string]string{}
		for name, si := range b.Src {
			pi := vpPeerInfo(si)
			peers[name] = pi
			byAddr[pi.Address.String()+"/"+pi.ID.String()+"/"+pi.LocalID.String()] = name
		}
		nameOf := func(p *Path) string {
			pi := p.GetSource()
			if n, ok := byAddr[pi.Address.String()+"/"+pi.ID.String()+"/"+pi.LocalID.String()]; ok {
				return n
			}
			return "other:" + pi.String()
		}
		tm := NewTableManager(vpLogger, []bgp_Family{bgpRFv4})
		tr.Emit(map[string]any{"ev": "Reset", "tid": tid, "opt": b.Opt, "pin": b.Pin})
		for _, st := range b.Steps {
			var path *Path
			switch st.Ev {
			case "Add":
				path = vpBuildPath(st.R, peers[st.R.Src], pfx)
			case "Withdraw":
				path = vpWithdrawPath(peers[st.Src], pfx)
			default:
				t.Fatalf("unknown step %q", st.Ev)
			}
			ups := tm.Update(path)
			obs := c03Obs{List: []string{}, Multi: []string{}, Best: "none", ChgBest: "nochange", ChgKind: "nochange", ChgSrc: "none"}
			for _, p := range tm.GetPathList(GLOBAL_RIB_NAME, 0, []bgp_Family{bgpRFv4}) {
				obs.List = append(obs.List, nameOf(p))
			}
			if bl := tm.GetBestPathList(GLOBAL_RIB_NAME, 0, []bgp_Family{bgpRFv4}); len(bl) > 0 {
				obs.Best = nameOf(bl[0])
			}
			for _, l := range tm.GetBestMultiPathList(GLOBAL_RIB_NAME, []bgp_Family{bgpRFv4}) {
				for _, p := range l {
					obs.Multi = append(obs.Multi, nameOf(p))
				}
			}
			if len(ups) == 1 {
				if best, _, _ := ups[0].GetChanges(GLOBAL_RIB_NAME, 0, false); best != nil {
					obs.ChgSrc = nameOf(best)
					if best.IsWithdraw {
						obs.ChgBest = "wd:" + nameOf(best)
						obs.ChgKind = "wd"
					} else {
						obs.ChgBest = nameOf(best)
						obs.ChgKind = "best"
					}
				}
			}
			if st.Ev == "Add" {
				tr.Emit(map[string]any{"ev": "Add", "r": st.R, "obs": obs})
			} else {
				tr.Emit(map[string]any{"ev": "Withdraw", "src": st.Src, "obs": obs})
			}
		}
	})
}
