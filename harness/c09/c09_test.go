// Harness code compiled INTO package server of /repo through `go test -overlay`.
//
// C09 replayer: reads TLC-enumerated behaviours of spec/MCExport.tla (or a replay file), drives
// the REAL export pipeline ((*BgpServer).processOutgoingPaths -> filterpath -> prePolicyFilterpath
// [replace-peer-as, split horizon, AS loop] -> export policy (none) -> table.UpdatePathAttrs ->
// postFilterpath) and the REAL inbound pipeline ((*BgpServer).handleFSMMessage -> peer.handleUpdate
// -> propagateUpdate -> Loc-RIB) on peers built the way the server builds them, and records
// inputs and observations as ndjson.  No property is asserted here: the trace is judged by TLC
// (spec/trace/ExportTrace.tla).
package server

import (
	"bufio"
	"encoding/json"
	"fmt"
	"io"
	"log/slog"
	"net/netip"
	"os"
	"sort"
	"testing"
	"time"

	"github.com/osrg/gobgp/v4/internal/pkg/table"
	"github.com/osrg/gobgp/v4/pkg/config/oc"
	"github.com/osrg/gobgp/v4/pkg/packet/bgp"
)

// ---- abstract vocabulary (mirrors spec/ExportDom.tla) ----

type c09Local struct {
	Name    string   `json:"name"`
	AS      uint32   `json:"as"`
	Confed  bool     `json:"confed"`
	Cid     uint32   `json:"cid"`
	Members []uint32 `json:"members"`
	Rid     string   `json:"rid"`
	Cluster string   `json:"cluster"`
}

type c09Peer struct {
	ID      string `json:"id"`
	Kind    string `json:"kind"` // local | ebgp | ibgp | rrclient | rsclient | confed
	AS      uint32 `json:"as"`
	Rid     string `json:"rid"`
	Addr    string `json:"addr"`
	Laddr   string `json:"laddr"`
	L6      bool   `json:"l6"`
	Rpa     string `json:"rpa"` // none | all | replace
	Rpeer   bool   `json:"rpeer"`
	Allow   int    `json:"allow"`
	LocalAS uint32 `json:"localas"`
}

type c09Seg struct {
	T  string  `json:"t"`
	AS []int64 `json:"as"` // abstract AS numbers (see c09AbsToAS)
}

type c09Route struct {
	Src    c09Peer  `json:"src"`
	Fam    string   `json:"fam"` // v4 | v6
	Nha    string   `json:"nha"` // NEXT_HOP attribute value or "none"
	Nhm    string   `json:"nhm"` // MP_REACH_NLRI next hop or "none"
	Nhl    string   `json:"nhl"` // link-local address following it in a 32-octet next hop, or "none"
	Asattr bool     `json:"asattr"`
	Aspath []c09Seg `json:"aspath"`
	Origin int      `json:"origin"`
	Lp     int64    `json:"lp"`
	Med    int64    `json:"med"`
	Origid string   `json:"origid"`
	Clist  []string `json:"clist"`
	Unk    []string `json:"unk"`
	Comm   []int64  `json:"comm"`
}

// projection of a set of path attributes (what would be sent / what is stored)
type c09Attrs struct {
	Origin int      `json:"origin"`
	Asattr bool     `json:"asattr"`
	Aspath []c09Seg `json:"aspath"`
	Nha    string   `json:"nha"`
	Nhm    string   `json:"nhm"`
	Nhl    string   `json:"nhl"`
	Lp     int64    `json:"lp"`
	Med    int64    `json:"med"`
	Origid string   `json:"origid"`
	Clist  []string `json:"clist"`
	Unk    []string `json:"unk"`
	Comm   []int64  `json:"comm"`
	Other  []string `json:"other"`
}

type c09Stored struct {
	Attrs c09Attrs `json:"attrs"`
	Wd    bool     `json:"wd"`
	Rej   bool     `json:"rej"`
	Spare []string `json:"spare"` // contents of the spare capacity of every attribute slice
	SrcAS uint32   `json:"srcas"`
}

type c09Behaviour struct {
	Mode  string          `json:"mode"` // export | inbound
	Local c09Local        `json:"local"`
	Peer  c09Peer         `json:"peer"`  // export: the target; inbound: the peer the routes come from
	Peer2 *c09Peer        `json:"peer2"` // export: target of the second export of the SAME stored path (absent: peer again)
	Route json.RawMessage `json:"route"`
	// export: the previous best route(s) of the prefix (0 or 1), handed to the export code as `old`
	Olds []json.RawMessage `json:"olds"`
	// export: what is handed to the export code is the WITHDRAWAL of the stored route (the best path
	// went away: Update.GetChanges returns old.Clone(true) with old = the route itself)
	Wd bool `json:"wd"`
	// export: several (route, olds, wd) cases for the same target in one trace (bundles)
	Cases  []c09Case       `json:"cases"`
	Steps  []c09Step       `json:"steps"`
	RawLoc json.RawMessage `json:"-"`
}

type c09Case struct {
	Route json.RawMessage   `json:"route"`
	Olds  []json.RawMessage `json:"olds"`
	Wd    bool              `json:"wd"`
}

type c09Step struct {
	Pfx   int             `json:"pfx"`
	Route json.RawMessage `json:"route"`
}

// Abstract AS numbers are TLC integers (32-bit signed); the 4-octet private range is encoded with
// an offset: abstract a >= 1800000000 stands for a + 2300000000.
func c09AbsToAS(a int64) uint32 {
	if a >= 1800000000 {
		return uint32(a + 2300000000)
	}
	return uint32(a)
}

func c09ASToAbs(a uint32) int64 {
	if int64(a) >= 1800000000+2300000000 {
		return int64(a) - 2300000000
	}
	return int64(a)
}

const (
	c09UnkT = 200 // unassigned type code, sent with flags optional+transitive
	c09UnkN = 201 // unassigned type code, sent with flags optional (non-transitive)
)

// ---- io ----

func c09ReadLines(t *testing.T, name string, f func(line []byte)) {
	p := os.Getenv(name)
	if p == "" {
		t.Skipf("%s not set", name)
	}
	fh, err := os.Open(p)
	if err != nil {
		t.Fatal(err)
	}
	defer fh.Close()
	sc := bufio.NewScanner(fh)
	sc.Buffer(make([]byte, 1<<20), 1<<28)
	for sc.Scan() {
		b := sc.Bytes()
		if len(b) == 0 {
			continue
		}
		c := make([]byte, len(b))
		copy(c, b)
		f(c)
	}
	if err := sc.Err(); err != nil {
		t.Fatal(err)
	}
}

type c09Trace struct {
	w *bufio.Writer
	f *os.File
}

func c09OpenTrace(t *testing.T) *c09Trace {
	p := os.Getenv("VERIF_OUT")
	if p == "" {
		t.Skip("VERIF_OUT not set")
	}
	f, err := os.Create(p)
	if err != nil {
		t.Fatal(err)
	}
	return &c09Trace{w: bufio.NewWriterSize(f, 1<<20), f: f}
}

func (tr *c09Trace) Emit(v any) {
	b, err := json.Marshal(v)
	if err != nil {
		panic(err)
	}
	tr.w.Write(b)
	tr.w.WriteByte('\n')
}

func (tr *c09Trace) Close() {
	tr.w.Flush()
	tr.f.Close()
}

// ---- building the speaker and its peers the way the server does ----

var c09Logger = slog.New(slog.NewTextHandler(io.Discard, nil))

type c09World struct {
	s     *BgpServer
	peers map[string]*peer
	loc   c09Local
}

func c09Global(l c09Local) *oc.Global {
	g := &oc.Global{Config: oc.GlobalConfig{As: l.AS, RouterId: netip.MustParseAddr(l.Rid), Port: -1}}
	if l.Confed {
		g.Confederation.Config.Enabled = true
		g.Confederation.Config.Identifier = l.Cid
		g.Confederation.Config.MemberAsList = append([]uint32{}, l.Members...)
	}
	g.AfiSafis = []oc.AfiSafi{
		{Config: oc.AfiSafiConfig{AfiSafiName: oc.AFI_SAFI_TYPE_IPV4_UNICAST, Enabled: true},
			State: oc.AfiSafiState{AfiSafiName: oc.AFI_SAFI_TYPE_IPV4_UNICAST, Family: bgp.RF_IPv4_UC}},
		{Config: oc.AfiSafiConfig{AfiSafiName: oc.AFI_SAFI_TYPE_IPV6_UNICAST, Enabled: true},
			State: oc.AfiSafiState{AfiSafiName: oc.AFI_SAFI_TYPE_IPV6_UNICAST, Family: bgp.RF_IPv6_UC}},
	}
	return g
}

var c09Families = []bgp.Family{bgp.RF_IPv4_UC, bgp.RF_IPv6_UC}

func c09NewWorld(t *testing.T, l c09Local) *c09World {
	s := NewBgpServer(LoggerOption(c09Logger, nil))
	g := c09Global(l)
	if err := oc.SetDefaultGlobalConfigValues(g); err != nil {
		t.Fatalf("global defaults: %v", err)
	}
	// what StartBgp does, minus listeners and BFD
	s.globalRib = table.NewTableManager(s.logger, c09Families)
	s.rsRib = table.NewTableManager(s.logger, c09Families)
	if err := s.policy.Initialize(); err != nil {
		t.Fatal(err)
	}
	s.bgpConfig.Global = *g
	return &c09World{s: s, peers: map[string]*peer{}, loc: l}
}

func c09Key(p c09Peer) string {
	b, _ := json.Marshal(p)
	return string(b)
}

// c09AddPeer configures a neighbour exactly as (*BgpServer).addNeighbor does (defaults, newPeer,
// peer policy, neighborMap) and then puts it in the state the FSM leaves it in when the session
// reaches Established (negotiated families, transport addresses, remote router-id, PeerInfo) -
// without starting the FSM goroutines.
func (w *c09World) c09AddPeer(t *testing.T, p c09Peer, established bool) *peer {
	k := c09Key(p)
	if pe, ok := w.peers[k]; ok {
		return pe
	}
	s := w.s
	n := &oc.Neighbor{}
	n.Config.NeighborAddress = netip.MustParseAddr(p.Addr)
	n.Config.PeerAs = p.AS
	n.Config.LocalAs = p.LocalAS
	switch p.Rpa {
	case "all":
		n.Config.RemovePrivateAs = oc.REMOVE_PRIVATE_AS_OPTION_ALL
	case "replace":
		n.Config.RemovePrivateAs = oc.REMOVE_PRIVATE_AS_OPTION_REPLACE
	}
	n.AsPathOptions.Config.ReplacePeerAs = p.Rpeer
	n.AsPathOptions.Config.AllowOwnAs = uint8(p.Allow)
	n.Transport.Config.LocalAddress = netip.MustParseAddr(p.Laddr)
	switch p.Kind {
	case "rrclient":
		n.RouteReflector.Config.RouteReflectorClient = true
		if w.loc.Cluster != w.loc.Rid {
			n.RouteReflector.Config.RouteReflectorClusterId = netip.MustParseAddr(w.loc.Cluster)
		}
	case "rsclient":
		n.RouteServer.Config.RouteServerClient = true
	}
	n.AfiSafis = []oc.AfiSafi{
		{Config: oc.AfiSafiConfig{AfiSafiName: oc.AFI_SAFI_TYPE_IPV4_UNICAST, Enabled: true}},
		{Config: oc.AfiSafiConfig{AfiSafiName: oc.AFI_SAFI_TYPE_IPV6_UNICAST, Enabled: true}},
	}
	if err := oc.SetDefaultNeighborConfigValues(n, nil, &s.bgpConfig.Global); err != nil {
		t.Fatalf("neighbor defaults %s: %v", p.ID, err)
	}
	rib := s.globalRib
	if n.RouteServer.Config.RouteServerClient {
		rib = s.rsRib
	}
	// state as of Established
	n.State.RemoteRouterId = netip.MustParseAddr(p.Rid)
	n.Transport.State.LocalAddress = netip.MustParseAddr(p.Laddr)
	n.Transport.State.RemoteAddress = netip.MustParseAddr(p.Addr)
	st := bgp.BGP_FSM_IDLE
	if established {
		st = bgp.BGP_FSM_ESTABLISHED
	}
	pe := newPeer(&s.bgpConfig.Global, n, st, rib, s.policy, s.logger)
	if err := s.policy.SetPeerPolicy(pe.ID(), n.ApplyPolicy); err != nil {
		t.Fatalf("peer policy: %v", err)
	}
	s.neighborMap[n.State.NeighborAddress] = pe
	rfmap := make(map[bgp.Family]bgp.BGPAddPathMode)
	for _, f := range c09Families {
		rfmap[f] = bgp.BGP_ADD_PATH_NONE
	}
	pe.fsm.familyMap.Store(rfmap)
	// verbatim from handleFSMMessage (nextState == ESTABLISHED)
	conf := pe.fsm.pConf.ReadOnly()
	peerInfo := table.NewPeerInfo(pe.fsm.gConf, conf,
		conf.State.PeerAs, conf.Config.LocalAs,
		conf.State.RemoteRouterId,
		pe.fsm.gConf.Config.RouterId, conf.Transport.State.RemoteAddress, conf.Transport.State.LocalAddress)
	pe.peerInfo.Store(peerInfo)
	w.peers[k] = pe
	return pe
}

// ---- abstract route -> concrete attributes (every slice with spare capacity) ----

type c09Built struct {
	attrs  []bgp.PathAttributeInterface // len = number of attributes, cap = len + 2
	family bgp.Family
	nlri   bgp.NLRI
}

func c09SpareU32(v []uint32, base uint32) []uint32 {
	b := make([]uint32, len(v)+2)
	copy(b, v)
	b[len(v)] = base
	b[len(v)+1] = base + 1
	return b[:len(v)]
}

var c09SpareAddr = netip.MustParseAddr("203.0.113.77")

func c09Prefix(fam string, k int) (bgp.Family, bgp.NLRI) {
	if fam == "v6" {
		n, err := bgp.NewIPAddrPrefix(netip.MustParsePrefix(fmt.Sprintf("2001:db8:%x::/48", k)))
		if err != nil {
			panic(err)
		}
		return bgp.RF_IPv6_UC, n
	}
	n, err := bgp.NewIPAddrPrefix(netip.MustParsePrefix(fmt.Sprintf("10.%d.0.0/24", k)))
	if err != nil {
		panic(err)
	}
	return bgp.RF_IPv4_UC, n
}

func c09SegType(t string) uint8 {
	switch t {
	case "SEQ":
		return bgp.BGP_ASPATH_ATTR_TYPE_SEQ
	case "SET":
		return bgp.BGP_ASPATH_ATTR_TYPE_SET
	case "CSEQ":
		return bgp.BGP_ASPATH_ATTR_TYPE_CONFED_SEQ
	case "CSET":
		return bgp.BGP_ASPATH_ATTR_TYPE_CONFED_SET
	}
	panic("seg type " + t)
}

func c09SegName(t uint8) string {
	switch t {
	case bgp.BGP_ASPATH_ATTR_TYPE_SEQ:
		return "SEQ"
	case bgp.BGP_ASPATH_ATTR_TYPE_SET:
		return "SET"
	case bgp.BGP_ASPATH_ATTR_TYPE_CONFED_SEQ:
		return "CSEQ"
	case bgp.BGP_ASPATH_ATTR_TYPE_CONFED_SET:
		return "CSET"
	}
	return fmt.Sprintf("T%d", t)
}

func c09Build(r c09Route, pfx int) c09Built {
	fam, nlri := c09Prefix(r.Fam, pfx)
	attrs := make([]bgp.PathAttributeInterface, 0, 16)
	attrs = append(attrs, bgp.NewPathAttributeOrigin(uint8(r.Origin)))
	if r.Asattr {
		params := make([]bgp.AsPathParamInterface, 0, len(r.Aspath)+2)
		for i, sg := range r.Aspath {
			as := make([]uint32, len(sg.AS))
			for j, a := range sg.AS {
				as[j] = c09AbsToAS(a)
			}
			params = append(params, bgp.NewAs4PathParam(c09SegType(sg.T), c09SpareU32(as, 0xfffe0000+uint32(16*i))))
		}
		attrs = append(attrs, bgp.NewPathAttributeAsPath(params))
	}
	var nhAttr bgp.PathAttributeInterface
	if r.Nha != "none" {
		a, err := bgp.NewPathAttributeNextHop(netip.MustParseAddr(r.Nha))
		if err != nil {
			panic(err)
		}
		nhAttr = a
	}
	if r.Src.Kind != "local" && nhAttr != nil {
		attrs = append(attrs, nhAttr) // received routes: attributes in type-code order
	}
	if r.Med >= 0 {
		attrs = append(attrs, bgp.NewPathAttributeMultiExitDisc(uint32(r.Med)))
	}
	if r.Lp >= 0 {
		attrs = append(attrs, bgp.NewPathAttributeLocalPref(uint32(r.Lp)))
	}
	if len(r.Comm) > 0 {
		c := make([]uint32, len(r.Comm))
		for i, x := range r.Comm {
			c[i] = uint32(x)
		}
		attrs = append(attrs, bgp.NewPathAttributeCommunities(c09SpareU32(c, 0xfffd0000)))
	}
	if r.Origid != "none" {
		a, err := bgp.NewPathAttributeOriginatorId(netip.MustParseAddr(r.Origid))
		if err != nil {
			panic(err)
		}
		attrs = append(attrs, a)
	}
	if len(r.Clist) > 0 {
		v := make([]netip.Addr, len(r.Clist)+2)
		for i, x := range r.Clist {
			v[i] = netip.MustParseAddr(x)
		}
		v[len(r.Clist)] = c09SpareAddr
		v[len(r.Clist)+1] = c09SpareAddr
		a, err := bgp.NewPathAttributeClusterList(v[:len(r.Clist)])
		if err != nil {
			panic(err)
		}
		// the constructor copies into an exact-capacity slice; a list decoded from the wire is built
		// with append and has spare capacity (len 3 -> cap 4): hand over our own backing array
		a.Value = v[:len(r.Clist)]
		attrs = append(attrs, a)
	}
	if r.Nhm != "none" {
		nhs := []netip.Addr{netip.MustParseAddr(r.Nhm)}
		if r.Nhl != "" && r.Nhl != "none" {
			nhs = append(nhs, netip.MustParseAddr(r.Nhl))
		}
		a, err := bgp.NewPathAttributeMpReachNLRI(fam, []bgp.PathNLRI{{NLRI: nlri}}, nhs...)
		if err != nil {
			panic(err)
		}
		attrs = append(attrs, a)
	}
	for _, u := range r.Unk {
		switch u {
		case "T":
			attrs = append(attrs, bgp.NewPathAttributeUnknown(bgp.BGP_ATTR_FLAG_OPTIONAL|bgp.BGP_ATTR_FLAG_TRANSITIVE, c09UnkT, []byte{1, 2, 3}))
		case "N":
			attrs = append(attrs, bgp.NewPathAttributeUnknown(bgp.BGP_ATTR_FLAG_OPTIONAL, c09UnkN, []byte{4, 5}))
		default:
			panic("unk " + u)
		}
	}
	if r.Src.Kind == "local" && nhAttr != nil {
		attrs = append(attrs, nhAttr) // API routes: apiutil2Path appends the next hop last
	}
	// exact-length view over a backing array with two spare (nil) slots
	b := make([]bgp.PathAttributeInterface, len(attrs), len(attrs)+2)
	copy(b, attrs)
	return c09Built{attrs: b, family: fam, nlri: nlri}
}

// ---- concrete attributes -> abstract projection ----

func c09Project(list []bgp.PathAttributeInterface) c09Attrs {
	o := c09Attrs{Origin: -1, Aspath: []c09Seg{}, Nha: "none", Nhm: "none", Nhl: "none", Lp: -1, Med: -1, Origid: "none",
		Clist: []string{}, Unk: []string{}, Comm: []int64{}, Other: []string{}}
	seen := map[bgp.BGPAttrType]bool{}
	for _, a := range list {
		if a == nil {
			o.Other = append(o.Other, "nil")
			continue
		}
		typ := a.GetType()
		if seen[typ] {
			o.Other = append(o.Other, fmt.Sprintf("dup:%d", typ))
			continue
		}
		seen[typ] = true
		switch v := a.(type) {
		case *bgp.PathAttributeOrigin:
			o.Origin = int(v.Value)
		case *bgp.PathAttributeAsPath:
			o.Asattr = true
			for _, p := range v.Value {
				sg := c09Seg{T: c09SegName(p.GetType()), AS: []int64{}}
				for _, x := range p.GetAS() {
					sg.AS = append(sg.AS, c09ASToAbs(x))
				}
				o.Aspath = append(o.Aspath, sg)
			}
		case *bgp.PathAttributeNextHop:
			o.Nha = v.Value.String()
		case *bgp.PathAttributeMultiExitDisc:
			o.Med = int64(v.Value)
		case *bgp.PathAttributeLocalPref:
			o.Lp = int64(v.Value)
		case *bgp.PathAttributeCommunities:
			for _, x := range v.Value {
				o.Comm = append(o.Comm, int64(x))
			}
		case *bgp.PathAttributeOriginatorId:
			o.Origid = v.Value.String()
		case *bgp.PathAttributeClusterList:
			for _, x := range v.Value {
				o.Clist = append(o.Clist, x.String())
			}
		case *bgp.PathAttributeMpReachNLRI:
			// the WHOLE next-hop field as it goes on the wire: serialise the attribute and decode it
			// again (16 octets: global; 32 octets: global + link-local)
			nh, ll := v.Nexthop, v.LinkLocalNexthop
			if buf, err := v.Serialize(); err != nil {
				o.Other = append(o.Other, "mpreach-serialize:"+err.Error())
			} else {
				w := &bgp.PathAttributeMpReachNLRI{}
				if err := w.DecodeFromBytes(buf); err != nil {
					o.Other = append(o.Other, "mpreach-decode:"+err.Error())
				} else {
					// an IPv4 address travels IPv4-mapped in a 16-octet field: same address
					if w.Nexthop.Unmap() != nh.Unmap() || w.LinkLocalNexthop != ll {
						o.Other = append(o.Other, fmt.Sprintf("mpreach-wire:%v/%v", w.Nexthop, w.LinkLocalNexthop))
					}
					nh, ll = w.Nexthop.Unmap(), w.LinkLocalNexthop
				}
			}
			o.Nhm = nh.String()
			if ll.IsValid() {
				o.Nhl = ll.String()
			}
		case *bgp.PathAttributeUnknown:
			tr := v.GetFlags()&bgp.BGP_ATTR_FLAG_TRANSITIVE != 0
			switch {
			case typ == c09UnkT && tr:
				o.Unk = append(o.Unk, "T")
			case typ == c09UnkN && !tr:
				o.Unk = append(o.Unk, "N")
			default:
				o.Other = append(o.Other, fmt.Sprintf("unknown:%d:%x", typ, uint8(v.GetFlags())))
			}
		default:
			o.Other = append(o.Other, fmt.Sprintf("attr:%d", typ))
		}
	}
	sort.Strings(o.Unk)
	return o
}

// c09StoredView re-reads the stored path: its attributes through the public accessor, plus the
// contents of the spare capacity of every slice the harness handed over (an in-place append by the
// export code would show up there).
func c09StoredView(p *table.Path, b c09Built) c09Stored {
	st := c09Stored{Attrs: c09Project(p.GetPathAttrs()), Wd: p.IsWithdraw, Rej: p.IsRejected(), Spare: []string{},
		SrcAS: p.GetSource().AS}
	full := b.attrs[:cap(b.attrs)]
	for _, a := range full[len(b.attrs):] {
		st.Spare = append(st.Spare, fmt.Sprintf("attrs:%v", a))
	}
	for _, a := range b.attrs {
		switch v := a.(type) {
		case *bgp.PathAttributeAsPath:
			fp := v.Value[:cap(v.Value)]
			for _, x := range fp[len(v.Value):] {
				st.Spare = append(st.Spare, fmt.Sprintf("asparams:%v", x))
			}
			for _, p := range v.Value {
				as := p.GetAS()
				fa := as[:cap(as)]
				for _, x := range fa[len(as):] {
					st.Spare = append(st.Spare, fmt.Sprintf("as:%d", x))
				}
			}
		case *bgp.PathAttributeCommunities:
			fa := v.Value[:cap(v.Value)]
			for _, x := range fa[len(v.Value):] {
				st.Spare = append(st.Spare, fmt.Sprintf("comm:%d", x))
			}
		case *bgp.PathAttributeClusterList:
			fa := v.Value[:cap(v.Value)]
			for _, x := range fa[len(v.Value):] {
				st.Spare = append(st.Spare, "clist:"+x.String())
			}
		}
	}
	return st
}

// ---- the replayer ----

func TestVerifC09(t *testing.T) {
	tr := c09OpenTrace(t)
	defer tr.Close()
	worlds := map[string]*c09World{}
	world := func(l c09Local, fresh bool) *c09World {
		b, _ := json.Marshal(l)
		k := string(b)
		if fresh {
			return c09NewWorld(t, l)
		}
		if w, ok := worlds[k]; ok {
			return w
		}
		w := c09NewWorld(t, l)
		worlds[k] = w
		return w
	}
	now := time.Unix(1700000000, 0)
	tid := 0
	c09ReadLines(t, "VERIF_IN", func(line []byte) {
		var b c09Behaviour
		if err := json.Unmarshal(line, &b); err != nil {
			t.Fatalf("bad behaviour: %v", err)
		}
		var raw map[string]json.RawMessage
		_ = json.Unmarshal(line, &raw)
		tid++
		peer2 := raw["peer2"]
		if b.Peer2 == nil {
			peer2 = raw["peer"]
		}
		tr.Emit(map[string]any{"ev": "Reset", "tid": tid, "mode": b.Mode, "local": raw["local"], "peer": raw["peer"], "peer2": peer2})
		switch b.Mode {
		case "export":
			w := world(b.Local, false)
			cases := b.Cases
			if len(cases) == 0 {
				cases = []c09Case{{Route: b.Route, Olds: b.Olds, Wd: b.Wd}}
			}
			for _, cs := range cases {
				var r c09Route
				if err := json.Unmarshal(cs.Route, &r); err != nil {
					t.Fatalf("bad route: %v", err)
				}
				target := w.c09AddPeer(t, b.Peer, true)
				var src *table.PeerInfo // nil = locally originated (table.NewPath substitutes the local source)
				if r.Src.Kind != "local" {
					src = w.c09AddPeer(t, r.Src, true).peerInfo.Load()
				}
				built := c09Build(r, 1)
				stored := table.NewPath(built.family, src, bgp.PathNLRI{NLRI: built.nlri}, false, built.attrs, now, false)
				if r.Nhl != "" && r.Nhl != "none" {
					// a 32-octet next hop exists on the wire only: store what the receive path
					// (table.ProcessMessage, as called by peer.handleUpdate) makes of the UPDATE
					ps := table.ProcessMessage(bgp.NewBGPUpdateMessage(nil, built.attrs, nil), src, now, false)
					if len(ps) != 1 {
						t.Fatalf("ProcessMessage returned %d paths", len(ps))
					}
					stored = ps[0]
				}
				// the previous best of the same prefix, if the case has one (implicit replacement)
				var olds []*table.Path
				var oldBuilt []c09Built
				rawOlds := []json.RawMessage{}
				for _, ro := range cs.Olds {
					var o c09Route
					if err := json.Unmarshal(ro, &o); err != nil {
						t.Fatalf("bad old route: %v", err)
					}
					var osrc *table.PeerInfo
					if o.Src.Kind != "local" {
						osrc = w.c09AddPeer(t, o.Src, true).peerInfo.Load()
					}
					ob := c09Build(o, 1)
					olds = append(olds, table.NewPath(ob.family, osrc, bgp.PathNLRI{NLRI: ob.nlri}, false, ob.attrs, now.Add(-time.Minute), false))
					oldBuilt = append(oldBuilt, ob)
					rawOlds = append(rawOlds, ro)
				}
				oldViews := func() []c09Stored {
					v := []c09Stored{}
					for i, o := range olds {
						v = append(v, c09StoredView(o, oldBuilt[i]))
					}
					return v
				}
				// The same stored path is exported twice, as the server does for every further peer and
				// on every re-export: first to `peer`, then to `peer2` (or to `peer` again).
				targets := []*peer{target, target}
				if b.Peer2 != nil {
					targets[1] = w.c09AddPeer(t, *b.Peer2, true)
				}
				for k, tg := range targets {
					before := c09StoredView(stored, built)
					oldBefore := oldViews()
					// the server's fan-out step for one target peer
					in := stored
					if cs.Wd {
						in = stored.Clone(true)
					}
					outs := w.s.processOutgoingPaths(tg, []*table.Path{in}, olds)
					obs := map[string]any{"before": before, "oldbefore": oldBefore, "oldafter": oldViews()}
					switch {
					case len(outs) == 0:
						obs["adv"] = "no"
						obs["out"] = c09Project(nil)
					case len(outs) == 1 && outs[0].IsWithdraw:
						obs["adv"] = "withdraw"
						obs["out"] = c09Project(nil)
					case len(outs) == 1:
						obs["adv"] = "yes"
						obs["out"] = c09Project(outs[0].GetPathAttrs())
					default:
						obs["adv"] = fmt.Sprintf("other:%d", len(outs))
						obs["out"] = c09Project(nil)
					}
					obs["after"] = c09StoredView(stored, built)
					tr.Emit(map[string]any{"ev": "Export", "to": k + 1, "wd": cs.Wd, "route": cs.Route, "olds": rawOlds, "obs": obs})
				}
			}
		case "inbound":
			// a fresh speaker per history: the Loc-RIB is part of the observation
			w := world(b.Local, true)
			// the speaker is a route reflector with cluster-id local.cluster: it has a client
			w.c09AddPeer(t, c09Peer{ID: "RRC", Kind: "rrclient", AS: b.Local.AS, Rid: "10.255.0.99", Addr: "10.0.0.99",
				Laddr: "10.0.0.100", Rpa: "none"}, false)
			from := w.c09AddPeer(t, b.Peer, true)
			for _, st := range b.Steps {
				var r c09Route
				if err := json.Unmarshal(st.Route, &r); err != nil {
					t.Fatalf("bad route: %v", err)
				}
				built := c09Build(r, st.Pfx)
				if built.family != bgp.RF_IPv4_UC || r.Nha == "none" {
					t.Fatalf("inbound histories use IPv4 unicast with NEXT_HOP")
				}
				msg := bgp.NewBGPUpdateMessage(nil, built.attrs, []bgp.PathNLRI{{NLRI: built.nlri}})
				// the server's handler for a message delivered by the FSM of an established session
				w.s.handleFSMMessage(from, &fsmMsg{MsgType: fsmMsgBGPMessage, MsgData: msg, timestamp: now})
				obs := map[string]any{"rib": []int64{}, "adjin": []int64{}, "adjrej": []int64{}}
				rib := []int64{}
				for _, p := range w.s.globalRib.GetPathList(table.GLOBAL_RIB_NAME, 0, []bgp.Family{bgp.RF_IPv4_UC}) {
					if p.GetNlri().String() == built.nlri.String() {
						rib = append(rib, c09TagOf(p))
					}
				}
				adj, rej := []int64{}, []int64{}
				for _, p := range from.adjRibIn.PathList([]bgp.Family{bgp.RF_IPv4_UC}, false) {
					if p.GetNlri().String() == built.nlri.String() {
						adj = append(adj, c09TagOf(p))
						if p.IsRejected() {
							rej = append(rej, c09TagOf(p))
						}
					}
				}
				obs["rib"], obs["adjin"], obs["adjrej"] = rib, adj, rej
				tr.Emit(map[string]any{"ev": "Recv", "pfx": st.Pfx, "route": st.Route, "obs": obs})
			}
		default:
			t.Fatalf("unknown mode %q", b.Mode)
		}
	})
}

// the tag of a route is carried in its first community (0 = none)
func c09TagOf(p *table.Path) int64 {
	c := p.GetCommunities()
	if len(c) == 0 {
		return 0
	}
	return int64(c[0])
}
