package table

import (
	"encoding/binary"
	"encoding/json"
	"fmt"
	"net/netip"
	"regexp"
	"strconv"
	"strings"
	"testing"
	"time"

	"github.com/osrg/gobgp/v4/pkg/config/oc"
	"github.com/osrg/gobgp/v4/pkg/packet/bgp"
)

// Replays TLC-generated behaviours of spec/PolicyMatchGen.tla (or a replay file) on the real
// community / ext-community / large-community defined sets and their Conditions and records
// what the code answers.  No property is asserted here: the trace is judged by TLC
// (spec/trace/PolicyMatchTrace.tla).
//
// Abstract pattern -> configuration string is c13Render (shape patterns); near-miss patterns
// carry their text (composed by the spec's grammar).  The reference verdict named by the
// property text - regexp.MatchString on the canonical community text - is logged per
// (pattern, value) next to the code's verdict for the one-pattern set.

type c13Num [2]uint32 // <<h, l>> = h*65536 + l  (TLC integers are 32-bit)

func (n c13Num) u64() uint64 { return uint64(n[0])<<16 + uint64(n[1]) }

type c13Term struct {
	T   string   `json:"t"`
	V   c13Num   `json:"v"`
	Sty string   `json:"sty"`
	S   []c13Num `json:"s"`
	Pre int      `json:"pre"`
	Lo  int      `json:"lo"`
	Hi  int      `json:"hi"`
}

type c13Pattern struct {
	St    string    `json:"st"`
	Sty   string    `json:"sty"`   // shape: "anch" | "plain"
	F     []c13Term `json:"f"`     // shape: field terms
	StCfg string    `json:"stcfg"` // near-miss: spelling of the sub-type prefix
	Cfg   string    `json:"cfg"`   // near-miss: configured string (without sub-type prefix)
}

type c13Value struct {
	K  string   `json:"k"`
	St string   `json:"st"`
	N  []c13Num `json:"n"`
}

type c13Step struct {
	Op   string `json:"op"`
	Args []int  `json:"args"`
}

type c13Behaviour struct {
	Kind   string            `json:"kind"`
	Gen    string            `json:"gen"`
	Pats   []json.RawMessage `json:"pats"`
	Vals   []json.RawMessage `json:"vals"`
	Routes [][]int           `json:"routes"`
	Steps  []c13Step         `json:"steps"`
}

func c13RenderTerm(t c13Term) string {
	switch t.T {
	case "lit":
		return strconv.FormatUint(t.V.u64(), 10)
	case "any":
		switch t.Sty {
		case "d+":
			return `\d+`
		case "09+":
			return `[0-9]+`
		case "d*":
			return `\d*`
		case "09*":
			return `[0-9]*`
		case "dot*":
			return `.*`
		}
	case "alt":
		xs := make([]string, len(t.S))
		for i, n := range t.S {
			xs[i] = strconv.FormatUint(n.u64(), 10)
		}
		return "(" + strings.Join(xs, "|") + ")"
	case "cls":
		return fmt.Sprintf("%d[%d-%d]", t.Pre, t.Lo, t.Hi)
	}
	panic(fmt.Sprintf("c13: cannot render term %+v", t))
}

// c13Render gives the configuration string of a pattern WITHOUT the sub-type prefix.
func c13Render(p c13Pattern) string {
	if p.F == nil {
		return p.Cfg
	}
	xs := make([]string, len(p.F))
	for i, t := range p.F {
		xs[i] = c13RenderTerm(t)
	}
	body := strings.Join(xs, ":")
	if p.Sty == "plain" {
		return body
	}
	return "^" + body + "$"
}

func c13SubType(st string) bgp.ExtendedCommunityAttrSubType {
	switch st {
	case "rt":
		return bgp.EC_SUBTYPE_ROUTE_TARGET
	case "soo":
		return bgp.EC_SUBTYPE_ROUTE_ORIGIN
	}
	panic("c13: sub-type " + st)
}

func c13Fit(n c13Num, bits int) uint32 {
	v := n.u64()
	if v >= 1<<uint(bits) {
		panic(fmt.Sprintf("c13: value %d does not fit %d bits", v, bits))
	}
	return uint32(v)
}

// one concrete community of any of the three attributes, with its canonical text
type c13Comm struct {
	std   uint32
	ext   bgp.ExtendedCommunityInterface
	large *bgp.LargeCommunity
	text  string
}

func c13MakeValue(v c13Value) c13Comm {
	switch v.K {
	case "std":
		as, loc := c13Fit(v.N[0], 16), c13Fit(v.N[1], 16)
		return c13Comm{std: as<<16 | loc, text: fmt.Sprintf("%d:%d", as, loc)}
	case "two":
		e := bgp.NewTwoOctetAsSpecificExtended(c13SubType(v.St), uint16(c13Fit(v.N[0], 16)), c13Fit(v.N[1], 32), true)
		return c13Comm{ext: e, text: e.String()}
	case "four":
		e := bgp.NewFourOctetAsSpecificExtended(c13SubType(v.St), c13Fit(v.N[0], 32), uint16(c13Fit(v.N[1], 16)), true)
		return c13Comm{ext: e, text: e.String()}
	case "ip4":
		var b [4]byte
		binary.BigEndian.PutUint32(b[:], c13Fit(v.N[0], 32))
		e, err := bgp.NewIPv4AddressSpecificExtended(c13SubType(v.St), netip.AddrFrom4(b), uint16(c13Fit(v.N[1], 16)), true)
		if err != nil {
			panic(err)
		}
		return c13Comm{ext: e, text: e.String()}
	case "large":
		lc := bgp.NewLargeCommunity(c13Fit(v.N[0], 32), c13Fit(v.N[1], 32), c13Fit(v.N[2], 32))
		return c13Comm{large: lc, text: lc.String()}
	}
	panic("c13: value kind " + v.K)
}

func c13Path(kind string, cs []c13Comm) *Path {
	nlri, _ := bgp.NewIPAddrPrefix(netip.MustParsePrefix("10.13.0.0/24"))
	nh, _ := bgp.NewPathAttributeNextHop(netip.MustParseAddr("192.0.2.1"))
	attrs := []bgp.PathAttributeInterface{bgp.NewPathAttributeOrigin(0), nh}
	if len(cs) > 0 {
		switch kind {
		case "std":
			v := make([]uint32, len(cs))
			for i, c := range cs {
				v[i] = c.std
			}
			attrs = append(attrs, bgp.NewPathAttributeCommunities(v))
		case "ext":
			v := make([]bgp.ExtendedCommunityInterface, len(cs))
			for i, c := range cs {
				v[i] = c.ext
			}
			attrs = append(attrs, bgp.NewPathAttributeExtendedCommunities(v))
		case "large":
			v := make([]*bgp.LargeCommunity, len(cs))
			for i, c := range cs {
				v[i] = c.large
			}
			attrs = append(attrs, bgp.NewPathAttributeLargeCommunities(v))
		}
	}
	return NewPath(bgp.RF_IPv4_UC, nil, bgp.PathNLRI{NLRI: nlri}, false, attrs, time.Unix(1000, 0), false)
}

// c13Set wraps the defined set under test together with the three Conditions bound to it the
// way RoutingPolicy binds them (validateCondition: the Condition points at the set object that
// later edits mutate in place).
type c13Set struct {
	kind  string
	set   DefinedSet
	conds [3]Condition // any, all, invert
}

func c13NewDefined(kind, name string, cfgs []string) (DefinedSet, error) {
	if cfgs == nil {
		cfgs = []string{}
	}
	switch kind {
	case "std":
		return NewCommunitySet(oc.CommunitySet{CommunitySetName: name, CommunityList: cfgs})
	case "ext":
		return NewExtCommunitySet(oc.ExtCommunitySet{ExtCommunitySetName: name, ExtCommunityList: cfgs})
	case "large":
		return NewLargeCommunitySet(oc.LargeCommunitySet{LargeCommunitySetName: name, LargeCommunityList: cfgs})
	}
	return nil, fmt.Errorf("kind %s", kind)
}

func c13NewSet(t *testing.T, kind string, cfgs []string) *c13Set {
	ds, err := c13NewDefined(kind, "c13", cfgs)
	if err != nil {
		t.Fatalf("c13: cannot define %s set %q: %v", kind, cfgs, err)
	}
	r := NewRoutingPolicy(vpLogger)
	if err := r.Initialize(); err != nil {
		t.Fatal(err)
	}
	if err := r.AddDefinedSet(ds, false); err != nil {
		t.Fatal(err)
	}
	s := &c13Set{kind: kind, set: ds}
	for i, o := range []oc.MatchSetOptionsType{oc.MATCH_SET_OPTIONS_TYPE_ANY, oc.MATCH_SET_OPTIONS_TYPE_ALL, oc.MATCH_SET_OPTIONS_TYPE_INVERT} {
		var c Condition
		switch kind {
		case "std":
			c, err = NewCommunityCondition(oc.MatchCommunitySet{CommunitySet: "c13", MatchSetOptions: o})
		case "ext":
			c, err = NewExtCommunityCondition(oc.MatchExtCommunitySet{ExtCommunitySet: "c13", MatchSetOptions: o})
		case "large":
			c, err = NewLargeCommunityCondition(oc.MatchLargeCommunitySet{LargeCommunitySet: "c13", MatchSetOptions: o})
		}
		if err != nil {
			t.Fatal(err)
		}
		if err := r.validateCondition(c); err != nil {
			t.Fatal(err)
		}
		if c.Set() != ds {
			t.Fatalf("c13: condition not bound to the defined set")
		}
		s.conds[i] = c
	}
	return s
}

func (s *c13Set) list() []string {
	var l []string
	switch x := s.set.(type) {
	case *CommunitySet:
		l = x.List()
	case *ExtCommunitySet:
		l = x.List()
	case *LargeCommunitySet:
		l = x.List()
	}
	if l == nil {
		l = []string{}
	}
	return l
}

// white-box: promotion chosen for pattern i, and whether the any-match index is usable
func (s *c13Set) mode(i int) string {
	switch x := s.set.(type) {
	case *CommunitySet:
		return [...]string{"exact", "wildcard", "bitmap", "localindep", "regexp"}[x.matchers[i].mode]
	case *ExtCommunitySet:
		return [...]string{"exact", "asonly", "asbitmap", "localbitmap", "regexp"}[x.matchers[i].mode]
	}
	return "regexp"
}

func (s *c13Set) fast() bool {
	switch x := s.set.(type) {
	case *CommunitySet:
		return (len(x.anyIdx.perAS) > 0 || x.anyIdx.asnIndependent != nil) && !x.anyIdx.hasRegexp
	case *ExtCommunitySet:
		return !x.needSlowScan && len(x.anyIndex) > 0
	}
	return false
}

// configured regular expression after the front end's normalisation (what List() reports)
func (s *c13Set) norm(i int) string {
	switch x := s.set.(type) {
	case *CommunitySet:
		return x.list[i].String()
	case *ExtCommunitySet:
		return x.list[i].String()
	case *LargeCommunitySet:
		return x.list[i].String()
	}
	return ""
}

type c13Obs struct {
	List []string `json:"list"`
	Any  []bool   `json:"any"`
	All  []bool   `json:"all"`
	Inv  []bool   `json:"inv"`
	Fast []bool   `json:"fast"`
}

func (s *c13Set) observe(paths []*Path) c13Obs {
	o := c13Obs{List: s.list(), Any: []bool{}, All: []bool{}, Inv: []bool{}, Fast: []bool{s.fast()}}
	for _, p := range paths {
		o.Any = append(o.Any, s.conds[0].Evaluate(p, nil))
		o.All = append(o.All, s.conds[1].Evaluate(p, nil))
		o.Inv = append(o.Inv, s.conds[2].Evaluate(p, nil))
	}
	return o
}

func TestVerifC13(t *testing.T) {
	tr := vpOpenTrace(t)
	defer tr.Close()
	tid := 0
	vpReadLines(t, "VERIF_IN", func(line []byte) {
		var b c13Behaviour
		if err := json.Unmarshal(line, &b); err != nil {
			t.Fatalf("bad behaviour: %v", err)
		}
		tid++
		// --- pattern pool: configuration strings, one-pattern sets, reference regexps
		cfgs := make([]string, len(b.Pats))
		pats := make([]map[string]any, len(b.Pats))
		refs := make([]*regexp.Regexp, len(b.Pats))
		singles := make([]*c13Set, len(b.Pats))
		for i, raw := range b.Pats {
			var p c13Pattern
			if err := json.Unmarshal(raw, &p); err != nil {
				t.Fatalf("bad pattern: %v", err)
			}
			if err := json.Unmarshal(raw, &pats[i]); err != nil {
				t.Fatal(err)
			}
			cfg := c13Render(p)
			key := ""
			if b.Kind == "ext" {
				pre := p.StCfg
				if pre == "" {
					pre = p.St
				}
				cfg = pre + ":" + cfg
				key = p.St + ":"
			}
			cfgs[i] = cfg
			singles[i] = c13NewSet(t, b.Kind, []string{cfg})
			norm := singles[i].norm(0)
			// the reference: an independently compiled copy of the configured regular expression
			refs[i] = regexp.MustCompile(norm)
			pats[i]["cfgtext"] = cfg
			pats[i]["norm"] = norm
			pats[i]["key"] = key + norm
			pats[i]["mode"] = singles[i].mode(0)
		}
		// --- value pool
		comms := make([]c13Comm, len(b.Vals))
		vals := make([]map[string]any, len(b.Vals))
		for j, raw := range b.Vals {
			var v c13Value
			if err := json.Unmarshal(raw, &v); err != nil {
				t.Fatalf("bad value: %v", err)
			}
			if err := json.Unmarshal(raw, &vals[j]); err != nil {
				t.Fatal(err)
			}
			comms[j] = c13MakeValue(v)
			vals[j]["text"] = comms[j].text
		}
		// --- per (pattern, value): code verdict of the one-pattern set, and Go regexp
		re := make([][]bool, len(b.Pats))
		single := make([][]bool, len(b.Pats))
		for i := range b.Pats {
			re[i] = make([]bool, len(comms))
			single[i] = make([]bool, len(comms))
			for j, c := range comms {
				re[i][j] = refs[i].MatchString(c.text)
				single[i][j] = singles[i].conds[0].Evaluate(c13Path(b.Kind, []c13Comm{c}), nil)
			}
		}
		routes := b.Routes
		if routes == nil {
			routes = [][]int{}
		}
		paths := make([]*Path, len(routes))
		for r, ix := range routes {
			if ix == nil {
				routes[r] = []int{}
			}
			cs := make([]c13Comm, len(ix))
			for k, j := range ix {
				cs[k] = comms[j-1]
			}
			paths[r] = c13Path(b.Kind, cs)
		}
		tr.Emit(map[string]any{"ev": "Reset", "tid": tid, "kind": b.Kind, "gen": b.Gen, "pats": pats,
			"vals": vals, "routes": routes, "re": re, "single": single})
		// --- the defined set under edit
		pick := func(ix []int) []string {
			l := make([]string, len(ix))
			for k, i := range ix {
				l[k] = cfgs[i-1]
			}
			return l
		}
		var s *c13Set
		for n, st := range b.Steps {
			if st.Args == nil {
				st.Args = []int{}
			}
			if n == 0 {
				if st.Op != "Define" {
					t.Fatalf("c13: first step must be Define")
				}
				s = c13NewSet(t, b.Kind, pick(st.Args))
				tr.Emit(map[string]any{"ev": "Define", "args": st.Args, "obs": s.observe(paths)})
				continue
			}
			arg, err := c13NewDefined(b.Kind, "c13", pick(st.Args))
			if err != nil {
				t.Fatal(err)
			}
			switch st.Op {
			case "Append":
				err = s.set.Append(arg)
			case "Remove":
				err = s.set.Remove(arg)
			case "Replace":
				err = s.set.Replace(arg)
			default:
				t.Fatalf("c13: unknown op %q", st.Op)
			}
			if err != nil {
				t.Fatalf("c13: %s failed: %v", st.Op, err)
			}
			tr.Emit(map[string]any{"ev": "Edit", "op": st.Op, "args": st.Args, "obs": s.observe(paths)})
		}
	})
}
