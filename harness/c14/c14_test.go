package table

import (
	"encoding/json"
	"fmt"
	"net/netip"
	"reflect"
	"testing"
	"time"

	"github.com/osrg/gobgp/v4/pkg/packet/bgp"
)

// C14 replayer.  Reads shape descriptors enumerated by TLC (spec/As4Gen.tla), concretises them,
// drives the real RFC 6793 conversion code exactly as pkg/server/fsm.go does
//   send to a 2-octet peer : UpdatePathAttrs2ByteAs + UpdatePathAggregator2ByteAs, Serialize
//   receive from such peer : ParseBGPMessage(Use2ByteAS), UpdatePathAttrs4ByteAs + UpdatePathAggregator4ByteAs
// and records inputs and resulting attributes.  Nothing is asserted here; the trace is judged by
// TLC against spec/trace/As4Trace.tla.

type c14Desc struct {
	T string `json:"t"` // SEQ SET CSEQ CSET
	N int    `json:"n"` // members
	W string `json:"w"` // which members are wide (a2 of a pair: AS_TRANS): none first last all
}

type c14Sched struct {
	Kind string    `json:"kind"` // rt | pair
	P    []c14Desc `json:"p"`
	Agg  string    `json:"agg"` // rt: none narrow wide w65536 whigh
	A2   []c14Desc `json:"a2"`
	Has4 bool      `json:"has4"`
	A4   []c14Desc `json:"a4"`
	G2   string    `json:"g2"`  // pair: none narrow trans
	G4   string    `json:"g4"`  // pair: none wide
	K    int       `json:"k"`   // grp: messages sharing one attribute list
	Via  string    `json:"via"` // grp: slice | packer
}

type c14Seg struct {
	T  string  `json:"t"`
	AS []int64 `json:"as"`
}

type c14Opt struct {
	P    bool     `json:"p"`
	Segs []c14Seg `json:"segs"`
}

type c14Agg struct {
	P  bool  `json:"p"`
	AS int64 `json:"as"`
	Ad int   `json:"ad"`
}

// TLC integers are 32 bit: an ASN >= 2^31 is logged as its two's-complement value (injective).
func c14Num(as uint32) int64 { return int64(int32(as)) }

func c14IsWidePos(d c14Desc, j int) bool {
	switch d.W {
	case "none":
		return false
	case "all":
		return true
	case "first":
		return j == 1
	case "last":
		return j == d.N
	}
	panic("pattern " + d.W)
}

// member j (1-based) of segment i (1-based; AS4_PATH segments of a pair use i+3)
func c14Narrow(i, j int) uint32 { return uint32(1000*i + j) }
func c14Wide(i, j int) uint32 {
	switch i {
	case 1:
		return uint32(65535 + j) // first wide member of the first segment is 65536
	case 2:
		return uint32(4200000000) + uint32(j) // >= 2^31
	}
	return uint32(100000*i + j)
}

func c14Concrete(ds []c14Desc, off int, trans bool) [][]uint32 {
	out := make([][]uint32, 0, len(ds))
	for i, d := range ds {
		as := make([]uint32, d.N)
		for j := 1; j <= d.N; j++ {
			switch {
			case !c14IsWidePos(d, j):
				as[j-1] = c14Narrow(i+1+off, j)
			case trans:
				as[j-1] = bgp.AS_TRANS
			default:
				as[j-1] = c14Wide(i+1+off, j)
			}
		}
		out = append(out, as)
	}
	return out
}

func c14SegsOf(ds []c14Desc, as [][]uint32) []c14Seg {
	out := make([]c14Seg, 0, len(ds))
	for i, d := range ds {
		s := c14Seg{T: d.T, AS: make([]int64, len(as[i]))}
		for j, a := range as[i] {
			s.AS[j] = c14Num(a)
		}
		out = append(out, s)
	}
	return out
}

var c14Addrs = []netip.Addr{netip.MustParseAddr("192.0.2.1"), netip.MustParseAddr("192.0.2.2"), netip.MustParseAddr("192.0.2.3")}

func c14AddrID(a netip.Addr) int {
	for i, x := range c14Addrs {
		if x == a {
			return i + 1
		}
	}
	return 99
}

// what the message now carries (observation)
type c14View struct {
	AsPath   []c14Seg `json:"aspath"`
	NAsPath  int      `json:"naspath"` // number of AS_PATH attributes
	Enc      int      `json:"enc"`     // 2 / 4: octets per AS in AS_PATH params (0: no segment, 6: mixed)
	As4      c14Opt   `json:"as4"`
	Agg      c14Agg   `json:"agg"`
	AggOct   int      `json:"aggoct"` // 2 / 4 octet AGGREGATOR encoding, 0 absent
	Agg4     c14Agg   `json:"agg4"`
	Err      string   `json:"err"`
	Via      string   `json:"via"` // wire | direct
	WireLen  int      `json:"wirelen"`
	OtherAtt int      `json:"otheratt"` // attributes other than the five of interest + ORIGIN/NEXT_HOP
}

func c14Observe(u *bgp.BGPUpdate) c14View {
	v := c14View{AsPath: []c14Seg{}, As4: c14Opt{Segs: []c14Seg{}}}
	for _, a := range u.PathAttributes {
		switch x := a.(type) {
		case *bgp.PathAttributeAsPath:
			v.NAsPath++
			for _, p := range x.Value {
				s := c14Seg{T: vpSegName(p.GetType()), AS: []int64{}}
				for _, as := range p.GetAS() {
					s.AS = append(s.AS, c14Num(as))
				}
				v.AsPath = append(v.AsPath, s)
				e := 6
				switch p.(type) {
				case *bgp.AsPathParam:
					e = 2
				case *bgp.As4PathParam:
					e = 4
				}
				if v.Enc == 0 {
					v.Enc = e
				} else if v.Enc != e {
					v.Enc = 6
				}
			}
		case *bgp.PathAttributeAs4Path:
			v.As4.P = true
			for _, p := range x.Value {
				s := c14Seg{T: vpSegName(p.Type), AS: []int64{}}
				for _, as := range p.AS {
					s.AS = append(s.AS, c14Num(as))
				}
				v.As4.Segs = append(v.As4.Segs, s)
			}
		case *bgp.PathAttributeAggregator:
			v.Agg = c14Agg{P: true, AS: c14Num(x.Value.AS), Ad: c14AddrID(x.Value.Address)}
			if x.Value.Askind == reflect.Uint16 {
				v.AggOct = 2
			} else {
				v.AggOct = 4
			}
		case *bgp.PathAttributeAs4Aggregator:
			v.Agg4 = c14Agg{P: true, AS: c14Num(x.Value.AS), Ad: c14AddrID(x.Value.Address)}
		case *bgp.PathAttributeOrigin, *bgp.PathAttributeNextHop:
		default:
			v.OtherAtt++
		}
	}
	return v
}

func c14Base() []bgp.PathAttributeInterface {
	nh, _ := bgp.NewPathAttributeNextHop(netip.MustParseAddr("192.0.2.9"))
	return []bgp.PathAttributeInterface{bgp.NewPathAttributeOrigin(0), nh}
}

var c14WireOpt = &bgp.MarshallingOption{Use2ByteAS: true, ExtendedMessage: true}

// c14Wire serialises the UPDATE as sent to / by a 2-octet peer and parses it back the way
// recvMessageWithError does.  Returns the parsed body, or nil and the error text.
func c14Wire(u *bgp.BGPUpdate) (*bgp.BGPUpdate, int, string) {
	msg := &bgp.BGPMessage{Header: bgp.BGPHeader{Type: bgp.BGP_MSG_UPDATE}, Body: u}
	b, err := msg.Serialize(&bgp.MarshallingOption{ExtendedMessage: true})
	if err != nil {
		return nil, 0, "serialize: " + err.Error()
	}
	m, err := bgp.ParseBGPMessage(b, c14WireOpt)
	if err != nil {
		return nil, len(b), "parse: " + err.Error()
	}
	return m.Body.(*bgp.BGPUpdate), len(b), ""
}

func c14Up(u *bgp.BGPUpdate) string {
	UpdatePathAttrs4ByteAs(vpLogger, u)
	if err := UpdatePathAggregator4ByteAs(u); err != nil {
		return "aggregator: " + err.Error()
	}
	return ""
}

func c14Recover(f func()) (msg string) {
	defer func() {
		if r := recover(); r != nil {
			msg = fmt.Sprintf("panic: %v", r)
		}
	}()
	f()
	return ""
}

// c14DownUp does to one UPDATE what sendMessageloop's send() does for a 2-octet peer, puts it on
// the wire, parses it as received from a 2-octet peer and reconstructs (recvMessageloop).
func c14DownUp(tr *vpTrace, u *bgp.BGPUpdate, p []c14Seg, g c14Agg, i int) {
	pre := c14Observe(u)
	pre.Via = "wire"
	var down c14View
	var got *bgp.BGPUpdate
	perr := c14Recover(func() {
		UpdatePathAttrs2ByteAs(u)
		UpdatePathAggregator2ByteAs(u)
	})
	if perr == "" {
		var werr string
		var n int
		perr = c14Recover(func() { got, n, werr = c14Wire(u) })
		if got != nil {
			down = c14Observe(got)
			down.Via = "wire"
		} else {
			down = c14Observe(u)
			down.Via = "direct"
			down.Err = werr
			got = u
		}
		down.WireLen = n
	} else {
		down = c14Observe(u)
		down.Via = "direct"
		got = u
	}
	if perr != "" {
		down.Err = perr
	}
	tr.Emit(map[string]any{"ev": "Down", "i": i, "p": p, "agg": g, "pre": pre, "obs": down})
	var uerr string
	e := c14Recover(func() { uerr = c14Up(got) })
	up := c14Observe(got)
	up.Via = down.Via
	up.Err = uerr + e
	tr.Emit(map[string]any{"ev": "Up", "as2": down.AsPath, "as4": down.As4, "g2": down.Agg, "g4": down.Agg4, "obs": up})
}

func TestVerifC14(t *testing.T) {
	tr := vpOpenTrace(t)
	defer tr.Close()
	nlri := []bgp.PathNLRI{{NLRI: vpPrefix("10.14.0.0/24")}}
	tid := 0
	vpReadLines(t, "VERIF_IN", func(line []byte) {
		var s c14Sched
		if err := json.Unmarshal(line, &s); err != nil {
			t.Fatalf("bad schedule: %v", err)
		}
		tid++
		tr.Emit(map[string]any{"ev": "Reset", "tid": tid, "kind": s.Kind})
		switch s.Kind {
		case "rt", "grp":
			as := c14Concrete(s.P, 0, false)
			params := make([]bgp.AsPathParamInterface, 0, len(as))
			for i, d := range s.P {
				params = append(params, bgp.NewAs4PathParam(vpSegType(d.T), append([]uint32{}, as[i]...)))
			}
			attrs := append(c14Base(), bgp.NewPathAttributeAsPath(params))
			g := c14Agg{}
			if s.Agg != "none" {
				asn := map[string]uint32{"narrow": 64512, "wide": 4200000123, "w65536": 65536, "whigh": 2147483649}[s.Agg]
				ad := 1 + tid%3
				a, _ := bgp.NewPathAttributeAggregator(asn, c14Addrs[ad-1])
				attrs = append(attrs, a)
				g = c14Agg{P: true, AS: c14Num(asn), Ad: ad}
			}
			if s.Kind == "rt" {
				u := bgp.NewBGPUpdateMessage(nil, attrs, nlri).Body.(*bgp.BGPUpdate)
				c14DownUp(tr, u, c14SegsOf(s.P, as), g, 1)
				break
			}
			// --- "grp": the messages of one attribute group share the attribute list; all of them
			// exist before the first one is converted (as in sendMessageloop)
			var msgs []*bgp.BGPUpdate
			shared := attrs
			if s.Via == "packer" {
				// more NLRIs with identical attributes than one UPDATE holds: the packer cuts
				// several UPDATEs from one group and hands all of them the same list
				src := &PeerInfo{AS: 65001, LocalAS: vpLocalAS, ID: netip.MustParseAddr("10.0.0.1"), Address: netip.MustParseAddr("10.0.0.1")}
				paths := make([]*Path, 0, 1700)
				for i := 0; i < 1700; i++ {
					pfx := fmt.Sprintf("10.%d.%d.%d/32", 100+i>>16, i>>8&0xff, i&0xff)
					paths = append(paths, NewPath(bgp.RF_IPv4_UC, src, bgp.PathNLRI{NLRI: vpPrefix(pfx)}, false, attrs, time.Unix(1000, 0), false))
				}
				for _, m := range CreateUpdateMsgFromPaths(paths) {
					msgs = append(msgs, m.Body.(*bgp.BGPUpdate))
				}
				shared = paths[0].GetPathAttrs()
			} else {
				for i := 0; i < s.K; i++ {
					n2 := []bgp.PathNLRI{{NLRI: vpPrefix(fmt.Sprintf("10.14.%d.0/24", i))}}
					msgs = append(msgs, bgp.NewBGPUpdateMessage(nil, attrs, n2).Body.(*bgp.BGPUpdate))
				}
			}
			for i, m := range msgs {
				c14DownUp(tr, m, c14SegsOf(s.P, as), g, i+1)
			}
			tr.Emit(map[string]any{"ev": "Shared", "via": s.Via, "msgs": len(msgs),
				"obs": c14Observe(&bgp.BGPUpdate{PathAttributes: shared})})
		case "pair":
			as2 := c14Concrete(s.A2, 0, true)
			params := make([]bgp.AsPathParamInterface, 0, len(as2))
			for i, d := range s.A2 {
				a := make([]uint16, len(as2[i]))
				for j, x := range as2[i] {
					a[j] = uint16(x)
				}
				params = append(params, bgp.NewAsPathParam(vpSegType(d.T), a))
			}
			attrs := append(c14Base(), bgp.NewPathAttributeAsPath(params))
			if s.G2 != "none" {
				asn := map[string]uint16{"narrow": 64512, "trans": bgp.AS_TRANS}[s.G2]
				a, _ := bgp.NewPathAttributeAggregator(asn, c14Addrs[0])
				attrs = append(attrs, a)
			}
			if s.Has4 {
				as4 := c14Concrete(s.A4, 3, false)
				p4 := make([]*bgp.As4PathParam, 0, len(as4))
				for i, d := range s.A4 {
					p4 = append(p4, bgp.NewAs4PathParam(vpSegType(d.T), append([]uint32{}, as4[i]...)))
				}
				attrs = append(attrs, bgp.NewPathAttributeAs4Path(p4))
			}
			if s.G4 != "none" {
				a, _ := bgp.NewPathAttributeAs4Aggregator(4200000123, c14Addrs[1])
				attrs = append(attrs, a)
			}
			u := bgp.NewBGPUpdateMessage(nil, attrs, nlri).Body.(*bgp.BGPUpdate)
			var got *bgp.BGPUpdate
			var werr string
			var n int
			perr := c14Recover(func() { got, n, werr = c14Wire(u) })
			via := "wire"
			if got == nil {
				got, via = u, "direct"
			}
			in := c14Observe(got)
			var uerr string
			e := c14Recover(func() { uerr = c14Up(got) })
			up := c14Observe(got)
			up.Via, up.WireLen = via, n
			up.Err = werr + perr + uerr + e
			tr.Emit(map[string]any{"ev": "Up", "as2": in.AsPath, "as4": in.As4, "g2": in.Agg, "g4": in.Agg4, "obs": up})
		default:
			t.Fatalf("unknown schedule kind %q", s.Kind)
		}
	})
}
