package server

import (
	"context"
	"net/netip"
	"testing"
	"testing/synctest"
	"time"

	api "github.com/osrg/gobgp/v4/api"
	"github.com/osrg/gobgp/v4/pkg/apiutil"
	"github.com/osrg/gobgp/v4/pkg/packet/bgp"
)

func TestVerifSmoke(t *testing.T) {
	synctest.Test(t, func(t *testing.T) {
		ss := newSimServer(t, nil)
		err := ss.s.AddPeer(context.Background(), &api.AddPeerRequest{Peer: &api.Peer{
			Conf:      &api.PeerConf{NeighborAddress: "10.0.0.1", PeerAsn: 65001},
			Transport: &api.Transport{PassiveMode: true},
			Timers:    &api.Timers{Config: &api.TimersConfig{HoldTime: 9, KeepaliveInterval: 3}},
		}})
		if err != nil {
			t.Fatal(err)
		}
		p := newSimPeer(ss, "E1", "10.0.0.1", 65001, "1.1.1.1")
		synctest.Wait()
		st, _, _ := ss.peerState("10.0.0.1")
		t.Logf("t=%.1f state=%v", ss.now(), st)
		time.Sleep(time.Second)
		synctest.Wait()
		st, _, _ = ss.peerState("10.0.0.1")
		t.Logf("t=%.1f state=%v", ss.now(), st)
		p.connect()
		synctest.Wait()
		vpMust(p.send(p.defaultOpen(9, []bgp.Family{bgp.RF_IPv4_UC})))
		synctest.Wait()
		vpMust(p.send(bgp.NewBGPKeepAliveMessage()))
		synctest.Wait()
		st, _, _ = ss.peerState("10.0.0.1")
		t.Logf("t=%.1f state=%v msgs=%d", ss.now(), st, len(p.log))
		p.setOptions(&bgp.MarshallingOption{}, &bgp.MarshallingOption{})
		nlri, _ := bgp.NewIPAddrPrefix(netip.MustParsePrefix("10.1.0.0/24"))
		nh, _ := bgp.NewPathAttributeNextHop(netip.MustParseAddr("10.0.0.1"))
		attrs := []bgp.PathAttributeInterface{bgp.NewPathAttributeOrigin(0), bgp.NewPathAttributeAsPath([]bgp.AsPathParamInterface{bgp.NewAs4PathParam(2, []uint32{65001})}), nh}
		vpMust(p.send(bgp.NewBGPUpdateMessage(nil, attrs, []bgp.PathNLRI{{NLRI: nlri}})))
		synctest.Wait()
		n := 0
		ss.s.ListPath(apiutil.ListPathRequest{TableType: api.TableType_TABLE_TYPE_GLOBAL, Family: bgp.RF_IPv4_UC}, func(prefix bgp.NLRI, paths []*apiutil.Path) {
			n += len(paths)
			t.Logf("path %v best=%v", prefix, paths[0].Best)
		})
		t.Logf("global paths=%d", n)
		time.Sleep(20 * time.Second)
		synctest.Wait()
		st, _, _ = ss.peerState("10.0.0.1")
		for _, m := range p.take() {
			t.Logf("  recv t=%.1f type=%d", m.T, m.Type)
		}
		t.Logf("t=%.1f state=%v eof=%v", ss.now(), st, p.isEOF())
		ss.stop()
		synctest.Wait()
	})
}
