// Harness code compiled INTO package bgp of /repo through `go test -overlay` (properties C04, C05).
// Common helpers: schedule input, trace output, abstract message shape <-> *BGPMessage
// (builder and projection), marshalling options.  Nothing here asserts a property: the trace is
// judged by TLC (spec/trace/FramingTrace.tla).
package bgp

import (
	"bufio"
	"encoding/json"
	"fmt"
	"net/netip"
	"os"
	"reflect"
	"testing"
)

// ---- input / output -----------------------------------------------------------------------

func frReadLines(t *testing.T, name string, f func(line []byte)) {
	p := os.Getenv(name)
	if p == "" {
		t.Skipf("%s not set", name)
	}
	fh, err := os.Open(p)
	if err != nil {
		t.Fatal(err)
	}
	defer fh.Close()
	sc := bufio.NewScanner(fh)
	sc.Buffer(make([]byte, 1<<20), 1<<28)
	for sc.Scan() {
		b := sc.Bytes()
		if len(b) == 0 {
			continue
		}
		c := make([]byte, len(b))
		copy(c, b)
		f(c)
	}
	if err := sc.Err(); err != nil {
		t.Fatal(err)
	}
}

type frTrace struct {
	w *bufio.Writer
	f *os.File
}

func frOpenTrace(t *testing.T) *frTrace {
	p := os.Getenv("VERIF_OUT")
	if p == "" {
		t.Skip("VERIF_OUT not set")
	}
	f, err := os.Create(p)
	if err != nil {
		t.Fatal(err)
	}
	return &frTrace{w: bufio.NewWriterSize(f, 1<<20), f: f}
}

func (tr *frTrace) Emit(v any) {
	b, err := json.Marshal(v)
	if err != nil {
		panic(err)
	}
	tr.w.Write(b)
	tr.w.WriteByte('\n')
}

func (tr *frTrace) Close() {
	tr.w.Flush()
	tr.f.Close()
}

func frInts(b []byte) []int {
	r := make([]int, len(b))
	for i, x := range b {
		r[i] = int(x)
	}
	return r
}

func frBytes(a []int) []byte {
	r := make([]byte, len(a))
	for i, x := range a {
		r[i] = byte(x)
	}
	return r
}

// ---- session options (mirrors spec/FramingDom.tla Opts) -------------------------------------

type frOpts struct {
	Ext  bool `json:"ext"`  // RFC 8654 extended message negotiated
	As2  bool `json:"as2"`  // peer is a 2-octet AS speaker
	Ap4  bool `json:"ap4"`  // ADD-PATH for IPv4 unicast (the body NLRI fields)
	Apmp bool `json:"apmp"` // ADD-PATH for every other family (MP_REACH / MP_UNREACH)
	Mrt  bool `json:"mrt"`  // MRT serialisation (C05 parse-time combinations only)
}

func (o frOpts) options() []*MarshallingOption {
	ap := map[Family]BGPAddPathMode{}
	if o.Ap4 {
		ap[RF_IPv4_UC] = BGP_ADD_PATH_BOTH
	}
	if o.Apmp {
		for f := range AddressFamilyNameMap {
			if f != RF_IPv4_UC {
				ap[f] = BGP_ADD_PATH_BOTH
			}
		}
	}
	return []*MarshallingOption{{AddPath: ap, Use2ByteAS: o.As2, ExtendedMessage: o.Ext, MRT: o.Mrt}}
}

func frOptsFromID(id int) frOpts {
	return frOpts{Ext: id&1 != 0, As2: id&2 != 0, Ap4: id&4 != 0, Apmp: id&8 != 0, Mrt: id&16 != 0}
}

// ---- abstract shapes (mirrors spec/FramingDom.tla) ------------------------------------------

type frNl struct {
	P int `json:"p"` // prefix length in bits (address part only)
	L int `json:"l"` // number of MPLS labels (labelled / VPN families)
}

type frAttr struct {
	T    string `json:"t"`
	N    int    `json:"n"`
	Segs []int  `json:"segs"`
	Fam  string `json:"fam"`
	Nl   []frNl `json:"nl"`
	X    int    `json:"x"` // 1: Extended Length bit set although the value has at most 255 octets
}

type frCap struct {
	C string `json:"c"`
	N int    `json:"n"`
}

type frShape struct {
	K      string    `json:"k"` // update | open | notification | refresh | keepalive | ex
	Wd     []frNl    `json:"wd"`
	Attrs  []frAttr  `json:"attrs"`
	Nlri   []frNl    `json:"nlri"`
	Params [][]frCap `json:"params"`
	N      int       `json:"n"`
	Name   string    `json:"name"`
}

func (s *frShape) norm() {
	if s.Wd == nil {
		s.Wd = []frNl{}
	}
	if s.Nlri == nil {
		s.Nlri = []frNl{}
	}
	if s.Attrs == nil {
		s.Attrs = []frAttr{}
	}
	if s.Params == nil {
		s.Params = [][]frCap{}
	}
	for i := range s.Params {
		if s.Params[i] == nil {
			s.Params[i] = []frCap{}
		}
	}
	for i := range s.Attrs {
		if s.Attrs[i].Segs == nil {
			s.Attrs[i].Segs = []int{}
		}
		if s.Attrs[i].Nl == nil {
			s.Attrs[i].Nl = []frNl{}
		}
	}
}

// ---- builder: abstract shape -> library objects ----------------------------------------------

func frPrefix(v6 bool, bits int, idx int) netip.Prefix {
	var a [16]byte
	n := 4
	if v6 {
		n = 16
	}
	// distinct, non-zero address bits inside the first `bits` bits
	a[0] = 10
	a[1] = byte(idx >> 8)
	a[2] = byte(idx)
	a[3] = byte(idx*7 + 1)
	for i := 4; i < n; i++ {
		a[i] = byte(0x11*i + idx)
	}
	var addr netip.Addr
	if v6 {
		a[0] = 0x20
		addr = netip.AddrFrom16(a)
	} else {
		addr = netip.AddrFrom4([4]byte{a[0], a[1], a[2], a[3]})
	}
	return netip.PrefixFrom(addr, bits).Masked()
}

func frLabels(n int) MPLSLabelStack {
	ls := make([]uint32, n)
	for i := range ls {
		ls[i] = uint32(100 + i)
	}
	return *NewMPLSLabelStack(ls...)
}

func frFamilyClass(f Family) string {
	switch f {
	case RF_IPv4_UC, RF_IPv4_MC, RF_IPv6_UC, RF_IPv6_MC:
		return "ip"
	case RF_IPv4_MPLS, RF_IPv6_MPLS:
		return "mpls"
	case RF_IPv4_VPN, RF_IPv6_VPN, RF_IPv4_VPN_MC, RF_IPv6_VPN_MC:
		return "vpn"
	}
	return "other"
}

func frBuildNlri(f Family, e frNl, idx int) (NLRI, error) {
	v6 := f.Afi() == AFI_IP6
	p := frPrefix(v6, e.P, idx)
	switch frFamilyClass(f) {
	case "ip":
		return NewIPAddrPrefix(p)
	case "mpls":
		return NewLabeledIPAddrPrefix(p, frLabels(e.L))
	case "vpn":
		return NewLabeledVPNIPAddrPrefix(p, frLabels(e.L), NewRouteDistinguisherTwoOctetAS(100, uint32(1000+idx)))
	}
	return nil, fmt.Errorf("family %s has no abstract NLRI builder", f)
}

// frPathID: a path identifier only exists on the wire when ADD-PATH is on for the family
func frPathID(f Family, o frOpts, i int) uint32 {
	if (f == RF_IPv4_UC && o.Ap4) || (f != RF_IPv4_UC && o.Apmp) {
		return uint32(i + 1)
	}
	return 0
}

func frBuildNlris(f Family, l []frNl, o frOpts) ([]PathNLRI, error) {
	r := make([]PathNLRI, 0, len(l))
	for i, e := range l {
		n, err := frBuildNlri(f, e, i)
		if err != nil {
			return nil, err
		}
		r = append(r, PathNLRI{NLRI: n, ID: frPathID(f, o, i)})
	}
	return r, nil
}

const frUnknownAttrType = 200

// frBuildAttr builds the attribute with the library's constructor and, for x = 1, sets the Extended
// Length bit in its Flags (what a caller may do, and what a parsed attribute carries).
func frBuildAttr(a frAttr, o frOpts) (PathAttributeInterface, error) {
	p, err := frBuildAttr0(a, o)
	if err != nil || a.X == 0 {
		return p, err
	}
	f := reflect.ValueOf(p).Elem().FieldByName("PathAttribute").FieldByName("Flags")
	if !f.IsValid() || !f.CanSet() {
		return nil, fmt.Errorf("cannot set flags of %T", p)
	}
	f.SetUint(f.Uint() | uint64(BGP_ATTR_FLAG_EXTENDED_LENGTH))
	return p, nil
}

func frBuildAttr0(a frAttr, o frOpts) (PathAttributeInterface, error) {
	switch a.T {
	case "origin":
		return NewPathAttributeOrigin(0), nil
	case "aspath":
		segs := make([]AsPathParamInterface, 0, len(a.Segs))
		for si, n := range a.Segs {
			if o.As2 {
				as := make([]uint16, n)
				for i := range as {
					as[i] = uint16(64512 + (si*7+i)%1000)
				}
				segs = append(segs, NewAsPathParam(BGP_ASPATH_ATTR_TYPE_SEQ, as))
			} else {
				as := make([]uint32, n)
				for i := range as {
					as[i] = uint32(4200000000 + si*1000 + i)
				}
				segs = append(segs, NewAs4PathParam(BGP_ASPATH_ATTR_TYPE_SEQ, as))
			}
		}
		return NewPathAttributeAsPath(segs), nil
	case "nexthop":
		return NewPathAttributeNextHop(netip.MustParseAddr("10.0.0.1"))
	case "med":
		return NewPathAttributeMultiExitDisc(77), nil
	case "localpref":
		return NewPathAttributeLocalPref(100), nil
	case "atomic":
		return NewPathAttributeAtomicAggregate(), nil
	case "aggregator":
		if o.As2 {
			return NewPathAttributeAggregator(uint16(30002), netip.MustParseAddr("129.0.2.99"))
		}
		return NewPathAttributeAggregator(uint32(300020), netip.MustParseAddr("129.0.2.99"))
	case "communities":
		v := make([]uint32, a.N)
		for i := range v {
			v[i] = uint32(65000<<16 | i)
		}
		return NewPathAttributeCommunities(v), nil
	case "originator":
		return NewPathAttributeOriginatorId(netip.MustParseAddr("10.10.0.1"))
	case "clusterlist":
		v := make([]netip.Addr, a.N)
		for i := range v {
			v[i] = netip.AddrFrom4([4]byte{10, 20, byte(i >> 8), byte(i)})
		}
		return NewPathAttributeClusterList(v)
	case "extcomm":
		v := make([]ExtendedCommunityInterface, a.N)
		for i := range v {
			v[i] = NewTwoOctetAsSpecificExtended(EC_SUBTYPE_ROUTE_TARGET, 65001, uint32(i), true)
		}
		return NewPathAttributeExtendedCommunities(v), nil
	case "ip6extcomm":
		v := make([]ExtendedCommunityInterface, a.N)
		for i := range v {
			e, err := NewIPv6AddressSpecificExtended(EC_SUBTYPE_ROUTE_TARGET, netip.MustParseAddr("2001:db8::1"), uint16(i), true)
			if err != nil {
				return nil, err
			}
			v[i] = e
		}
		return NewPathAttributeIP6ExtendedCommunities(v), nil
	case "as4path":
		segs := make([]*As4PathParam, 0, len(a.Segs))
		for si, n := range a.Segs {
			as := make([]uint32, n)
			for i := range as {
				as[i] = uint32(4200000000 + si*1000 + i)
			}
			segs = append(segs, NewAs4PathParam(BGP_ASPATH_ATTR_TYPE_SEQ, as))
		}
		return NewPathAttributeAs4Path(segs), nil
	case "as4aggr":
		return NewPathAttributeAs4Aggregator(300020, netip.MustParseAddr("129.0.2.99"))
	case "large":
		v := make([]*LargeCommunity, a.N)
		for i := range v {
			v[i] = NewLargeCommunity(4200000001, uint32(i), 7)
		}
		return NewPathAttributeLargeCommunities(v), nil
	case "unknown":
		v := make([]byte, a.N)
		for i := range v {
			v[i] = byte(i*13 + 1)
		}
		return NewPathAttributeUnknown(BGP_ATTR_FLAG_OPTIONAL|BGP_ATTR_FLAG_TRANSITIVE, frUnknownAttrType, v), nil
	case "aigp":
		return NewPathAttributeAigp([]AigpTLVInterface{NewAigpTLVIgpMetric(1000)}), nil
	case "mpreach":
		f, err := GetFamily(a.Fam)
		if err != nil {
			return nil, err
		}
		nl, err := frBuildNlris(f, a.Nl, o)
		if err != nil {
			return nil, err
		}
		// a.N = next-hop kind: 0 one address of the family's AFI, 1 one IPv6 address (RFC 8950 for the
		// IPv4 families), 2 IPv6 global + link-local
		v6, ll := netip.MustParseAddr("2001:db8::1"), netip.MustParseAddr("fe80::1")
		switch {
		case a.N == 2:
			return NewPathAttributeMpReachNLRI(f, nl, v6, ll)
		case a.N == 1 || f.Afi() == AFI_IP6:
			return NewPathAttributeMpReachNLRI(f, nl, v6)
		}
		return NewPathAttributeMpReachNLRI(f, nl, netip.MustParseAddr("10.0.0.1"))
	case "mpunreach":
		f, err := GetFamily(a.Fam)
		if err != nil {
			return nil, err
		}
		nl, err := frBuildNlris(f, a.Nl, o)
		if err != nil {
			return nil, err
		}
		return NewPathAttributeMpUnreachNLRI(f, nl)
	}
	return nil, fmt.Errorf("unknown abstract attribute %q", a.T)
}

var frCapFamilies = []Family{RF_IPv4_UC, RF_IPv6_UC, RF_IPv4_VPN, RF_IPv6_VPN, RF_EVPN, RF_IPv4_MPLS, RF_IPv6_MPLS,
	RF_IPv4_MC, RF_IPv6_MC, RF_RTC_UC, RF_FS_IPv4_UC, RF_FS_IPv6_UC, RF_LS, RF_VPLS, RF_IPv4_ENCAP, RF_IPv6_ENCAP,
	RF_FS_IPv4_VPN, RF_FS_IPv6_VPN, RF_FS_L2_VPN, RF_OPAQUE, RF_SR_POLICY_IPv4, RF_SR_POLICY_IPv6, RF_MUP_IPv4,
	RF_MUP_IPv6, RF_IPv4_VPN_MC, RF_IPv6_VPN_MC}

func frFam(i int) Family { return frCapFamilies[i%len(frCapFamilies)] }

func frStr(n int) string {
	b := make([]byte, n)
	for i := range b {
		b[i] = byte('a' + i%26)
	}
	return string(b)
}

// frBuildCap builds one capability; N is the number of tuples / the value length in octets.
func frBuildCap(c frCap) (ParameterCapabilityInterface, error) {
	switch c.C {
	case "mp":
		return NewCapMultiProtocol(frFam(c.N)), nil
	case "rr":
		return NewCapRouteRefresh(), nil
	case "err":
		return NewCapEnhancedRouteRefresh(), nil
	case "rrcisco":
		return NewCapRouteRefreshCisco(), nil
	case "extmsg":
		return NewCapExtendedMessage(), nil
	case "label":
		return NewCapCarryingLabelInfo(), nil
	case "as4":
		return NewCapFourOctetASNumber(4200000001), nil
	case "extnh":
		t := make([]*CapExtendedNexthopTuple, c.N)
		for i := range t {
			t[i] = NewCapExtendedNexthopTuple(frFam(i), AFI_IP6)
		}
		return NewCapExtendedNexthop(t), nil
	case "gr":
		t := make([]*CapGracefulRestartTuple, c.N)
		for i := range t {
			t[i] = NewCapGracefulRestartTuple(frFam(i), i%2 == 0)
		}
		return NewCapGracefulRestart(false, true, 120, t), nil
	case "llgr":
		t := make([]*CapLongLivedGracefulRestartTuple, c.N)
		for i := range t {
			t[i] = NewCapLongLivedGracefulRestartTuple(frFam(i), i%2 == 0, 3600)
		}
		return NewCapLongLivedGracefulRestart(t), nil
	case "addpath":
		t := make([]*CapAddPathTuple, c.N)
		for i := range t {
			t[i] = NewCapAddPathTuple(frFam(i), BGP_ADD_PATH_BOTH)
		}
		return NewCapAddPath(t), nil
	case "fqdn":
		// value = 1 + host + 1 + domain ; N = total value length >= 2
		h := (c.N - 2) / 2
		return NewCapFQDN(frStr(h), frStr(c.N-2-h)), nil
	case "softver":
		return NewCapSoftwareVersion(frStr(c.N - 1)), nil
	case "unknown":
		v := make([]byte, c.N)
		for i := range v {
			v[i] = byte(i + 1)
		}
		return NewCapUnknown(BGPCapabilityCode(200), v), nil
	}
	return nil, fmt.Errorf("unknown abstract capability %q", c.C)
}

func frBuild(s *frShape, o frOpts) (*BGPMessage, error) {
	switch s.K {
	case "update":
		wd, err := frBuildNlris(RF_IPv4_UC, s.Wd, o)
		if err != nil {
			return nil, err
		}
		nl, err := frBuildNlris(RF_IPv4_UC, s.Nlri, o)
		if err != nil {
			return nil, err
		}
		attrs := make([]PathAttributeInterface, 0, len(s.Attrs))
		for _, a := range s.Attrs {
			p, err := frBuildAttr(a, o)
			if err != nil {
				return nil, err
			}
			attrs = append(attrs, p)
		}
		return NewBGPUpdateMessage(wd, attrs, nl), nil
	case "open":
		params := make([]OptionParameterInterface, 0, len(s.Params))
		for _, pl := range s.Params {
			caps := make([]ParameterCapabilityInterface, 0, len(pl))
			for _, c := range pl {
				x, err := frBuildCap(c)
				if err != nil {
					return nil, err
				}
				caps = append(caps, x)
			}
			params = append(params, NewOptionParameterCapability(caps))
		}
		return NewBGPOpenMessage(23456, 90, netip.MustParseAddr("192.0.2.1"), params)
	case "notification":
		d := make([]byte, s.N)
		for i := range d {
			d[i] = byte(i)
		}
		if s.N == 0 {
			d = nil
		}
		return NewBGPNotificationMessage(6, 2, d), nil
	case "refresh":
		return NewBGPRouteRefreshMessage(AFI_IP6, 0, SAFI_UNICAST), nil
	case "keepalive":
		return NewBGPKeepAliveMessage(), nil
	case "ex":
		ex, ok := frExamples()[s.Name]
		if !ok {
			return nil, fmt.Errorf("unknown example %q", s.Name)
		}
		return ex(o)
	}
	return nil, fmt.Errorf("unknown shape kind %q", s.K)
}

// ---- projection: library objects -> abstract shape ------------------------------------------

func frProjNlri(n NLRI) frNl {
	switch v := n.(type) {
	case *IPAddrPrefix:
		return frNl{P: v.Prefix.Bits(), L: 0}
	case *LabeledIPAddrPrefix:
		return frNl{P: v.Prefix.Bits(), L: len(v.Labels.Labels)}
	case *LabeledVPNIPAddrPrefix:
		return frNl{P: v.Prefix.Bits(), L: len(v.Labels.Labels)}
	}
	return frNl{P: -1, L: -1}
}

func frProjNlris(l []PathNLRI) []frNl {
	r := make([]frNl, 0, len(l))
	for _, n := range l {
		r = append(r, frProjNlri(n.NLRI))
	}
	return r
}

func frProjAttr(p PathAttributeInterface) frAttr {
	a := frAttr{T: fmt.Sprintf("other:%d", uint8(p.GetType())), Segs: []int{}, Nl: []frNl{}}
	switch v := p.(type) {
	case *PathAttributeOrigin:
		a.T = "origin"
	case *PathAttributeAsPath:
		a.T = "aspath"
		for _, s := range v.Value {
			a.Segs = append(a.Segs, len(s.GetAS()))
		}
	case *PathAttributeNextHop:
		a.T = "nexthop"
	case *PathAttributeMultiExitDisc:
		a.T = "med"
	case *PathAttributeLocalPref:
		a.T = "localpref"
	case *PathAttributeAtomicAggregate:
		a.T = "atomic"
	case *PathAttributeAggregator:
		a.T = "aggregator"
	case *PathAttributeCommunities:
		a.T, a.N = "communities", len(v.Value)
	case *PathAttributeOriginatorId:
		a.T = "originator"
	case *PathAttributeClusterList:
		a.T, a.N = "clusterlist", len(v.Value)
	case *PathAttributeExtendedCommunities:
		a.T, a.N = "extcomm", len(v.Value)
	case *PathAttributeIP6ExtendedCommunities:
		a.T, a.N = "ip6extcomm", len(v.Value)
	case *PathAttributeAs4Path:
		a.T = "as4path"
		for _, s := range v.Value {
			a.Segs = append(a.Segs, len(s.AS))
		}
	case *PathAttributeAs4Aggregator:
		a.T = "as4aggr"
	case *PathAttributeLargeCommunities:
		a.T, a.N = "large", len(v.Values)
	case *PathAttributeAigp:
		a.T = "aigp"
	case *PathAttributeUnknown:
		if uint8(v.Type) == frUnknownAttrType {
			a.T, a.N = "unknown", len(v.Value)
		}
	case *PathAttributeMpReachNLRI:
		a.T, a.Fam, a.Nl = "mpreach", NewFamily(v.AFI, v.SAFI).String(), frProjNlris(v.Value)
		switch {
		case v.LinkLocalNexthop.IsValid():
			a.N = 2
		case v.AFI == AFI_IP && v.Nexthop.Is6():
			a.N = 1
		}
	case *PathAttributeMpUnreachNLRI:
		a.T, a.Fam, a.Nl = "mpunreach", NewFamily(v.AFI, v.SAFI).String(), frProjNlris(v.Value)
	}
	// extended form with a short value: read from the object's own header fields
	h := reflect.Indirect(reflect.ValueOf(p)).FieldByName("PathAttribute")
	if h.IsValid() && p.GetFlags()&BGP_ATTR_FLAG_EXTENDED_LENGTH != 0 && h.FieldByName("Length").Uint() <= 255 {
		a.X = 1
	}
	return a
}

func frProjCap(c ParameterCapabilityInterface) frCap {
	switch v := c.(type) {
	case *CapMultiProtocol:
		for i, f := range frCapFamilies {
			if f == v.CapValue {
				return frCap{C: "mp", N: i}
			}
		}
		return frCap{C: "mp", N: -1}
	case *CapRouteRefresh:
		return frCap{C: "rr"}
	case *CapEnhancedRouteRefresh:
		return frCap{C: "err"}
	case *CapRouteRefreshCisco:
		return frCap{C: "rrcisco"}
	case *CapExtendedMessage:
		return frCap{C: "extmsg"}
	case *CapCarryingLabelInfo:
		return frCap{C: "label"}
	case *CapFourOctetASNumber:
		return frCap{C: "as4"}
	case *CapExtendedNexthop:
		return frCap{C: "extnh", N: len(v.Tuples)}
	case *CapGracefulRestart:
		return frCap{C: "gr", N: len(v.Tuples)}
	case *CapLongLivedGracefulRestart:
		return frCap{C: "llgr", N: len(v.Tuples)}
	case *CapAddPath:
		return frCap{C: "addpath", N: len(v.Tuples)}
	case *CapFQDN:
		return frCap{C: "fqdn", N: 2 + len(v.HostName) + len(v.DomainName)}
	case *CapSoftwareVersion:
		return frCap{C: "softver", N: 1 + len(v.SoftwareVersion)}
	case *CapUnknown:
		return frCap{C: "unknown", N: len(v.CapValue)}
	}
	return frCap{C: fmt.Sprintf("other:%d", c.Code()), N: -1}
}

// frProject re-derives the abstract shape from a message object (constructed or parsed).
func frProject(m *BGPMessage, name string) frShape {
	s := frShape{K: fmt.Sprintf("other:%d", m.Header.Type), Name: name}
	switch b := m.Body.(type) {
	case *BGPUpdate:
		s.K = "update"
		s.Wd = frProjNlris(b.WithdrawnRoutes)
		s.Nlri = frProjNlris(b.NLRI)
		for _, p := range b.PathAttributes {
			s.Attrs = append(s.Attrs, frProjAttr(p))
		}
	case *BGPOpen:
		s.K = "open"
		for _, p := range b.OptParams {
			l := []frCap{}
			if pc, ok := p.(*OptionParameterCapability); ok {
				for _, c := range pc.Capability {
					l = append(l, frProjCap(c))
				}
			} else {
				l = append(l, frCap{C: "otherparam", N: -1})
			}
			s.Params = append(s.Params, l)
		}
	case *BGPNotification:
		s.K, s.N = "notification", len(b.Data)
	case *BGPRouteRefresh:
		s.K = "refresh"
	case *BGPKeepAlive:
		s.K = "keepalive"
	}
	if name != "" {
		s.K = "ex"
	}
	s.norm()
	return s
}

// ---- Len() of every element -----------------------------------------------------------------

type frLens struct {
	Attrs []int   `json:"attrs"` // PathAttributeInterface.Len(opts) per attribute
	Wd    []int   `json:"wd"`    // NLRI.Len(opts) per withdrawn route (path id not included)
	Nlri  []int   `json:"nlri"`
	Mp    [][]int `json:"mp"`   // per attribute: NLRI.Len(opts) of every NLRI inside MP_(UN)REACH, else []
	Caps  [][]int `json:"caps"` // per optional parameter: capability Len()
}

func frNlriLens(l []PathNLRI, opts []*MarshallingOption) []int {
	r := make([]int, 0, len(l))
	for _, n := range l {
		r = append(r, n.NLRI.Len(opts...))
	}
	return r
}

func frLensOf(m *BGPMessage, opts []*MarshallingOption) frLens {
	l := frLens{Attrs: []int{}, Wd: []int{}, Nlri: []int{}, Mp: [][]int{}, Caps: [][]int{}}
	switch b := m.Body.(type) {
	case *BGPUpdate:
		l.Wd = frNlriLens(b.WithdrawnRoutes, opts)
		l.Nlri = frNlriLens(b.NLRI, opts)
		for _, p := range b.PathAttributes {
			l.Attrs = append(l.Attrs, p.Len(opts...))
			switch v := p.(type) {
			case *PathAttributeMpReachNLRI:
				l.Mp = append(l.Mp, frNlriLens(v.Value, opts))
			case *PathAttributeMpUnreachNLRI:
				l.Mp = append(l.Mp, frNlriLens(v.Value, opts))
			default:
				l.Mp = append(l.Mp, []int{})
			}
		}
	case *BGPOpen:
		for _, p := range b.OptParams {
			cl := []int{}
			if pc, ok := p.(*OptionParameterCapability); ok {
				for _, c := range pc.Capability {
					cl = append(cl, c.Len())
				}
			}
			l.Caps = append(l.Caps, cl)
		}
	}
	return l
}

// ---- equality modulo nil/empty slices and maps ------------------------------------------------

// frDeepEq is reflect.DeepEqual except that a nil slice/map equals an empty one (the decoder
// allocates empty lists where a constructor leaves nil); returns the path of the first difference.
func frDeepEq(a, b any) (bool, string) {
	return frEqV(reflect.ValueOf(a), reflect.ValueOf(b), "", 0, false)
}

// frDeepEqValue additionally ignores the fields that only CACHE a wire length (what Len() is
// computed from; their agreement with the octets is the subject of C04_LenAgrees, not of
// C04_Equal): PathAttribute.Length, the extended-length bit of PathAttribute.Flags,
// OpaqueNLRI.Length and TunnelEncapTLV.Length.
func frDeepEqValue(a, b any) (bool, string) {
	return frEqV(reflect.ValueOf(a), reflect.ValueOf(b), "", 0, true)
}

var (
	frTypPathAttribute = reflect.TypeOf(PathAttribute{})
	frTypOpaqueNLRI    = reflect.TypeOf(OpaqueNLRI{})
	frTypTunnelTLV     = reflect.TypeOf(TunnelEncapTLV{})
)

func frEqV(a, b reflect.Value, path string, depth int, loose bool) (bool, string) {
	if depth > 64 {
		return true, ""
	}
	if !a.IsValid() || !b.IsValid() {
		if a.IsValid() == b.IsValid() {
			return true, ""
		}
		return false, path + ":valid"
	}
	if a.Type() != b.Type() {
		return false, fmt.Sprintf("%s:type %s vs %s", path, a.Type(), b.Type())
	}
	switch a.Kind() {
	case reflect.Slice:
		if a.Len() != b.Len() {
			return false, fmt.Sprintf("%s:len %d vs %d", path, a.Len(), b.Len())
		}
		for i := 0; i < a.Len(); i++ {
			if ok, p := frEqV(a.Index(i), b.Index(i), fmt.Sprintf("%s[%d]", path, i), depth+1, loose); !ok {
				return false, p
			}
		}
		return true, ""
	case reflect.Array:
		for i := 0; i < a.Len(); i++ {
			if ok, p := frEqV(a.Index(i), b.Index(i), fmt.Sprintf("%s[%d]", path, i), depth+1, loose); !ok {
				return false, p
			}
		}
		return true, ""
	case reflect.Map:
		if a.Len() != b.Len() {
			return false, path + ":maplen"
		}
		for _, k := range a.MapKeys() {
			bv := b.MapIndex(k)
			if !bv.IsValid() {
				return false, path + ":mapkey"
			}
			if ok, p := frEqV(a.MapIndex(k), bv, path+"{}", depth+1, loose); !ok {
				return false, p
			}
		}
		return true, ""
	case reflect.Interface, reflect.Pointer:
		if a.IsNil() || b.IsNil() {
			if a.IsNil() == b.IsNil() {
				return true, ""
			}
			return false, path + ":nil"
		}
		if a.Kind() == reflect.Pointer && a.Pointer() == b.Pointer() {
			return true, ""
		}
		return frEqV(a.Elem(), b.Elem(), path, depth+1, loose)
	case reflect.Struct:
		if loose && a.Type() == frTypPathAttribute {
			fa, fb := a.FieldByName("Flags").Uint(), b.FieldByName("Flags").Uint()
			ext := uint64(BGP_ATTR_FLAG_EXTENDED_LENGTH)
			if fa&^ext != fb&^ext {
				return false, fmt.Sprintf("%s.Flags:%d vs %d", path, fa, fb)
			}
			if a.FieldByName("Type").Uint() != b.FieldByName("Type").Uint() {
				return false, path + ".Type"
			}
			return true, ""
		}
		for i := 0; i < a.NumField(); i++ {
			if loose && (a.Type() == frTypOpaqueNLRI || a.Type() == frTypTunnelTLV) && a.Type().Field(i).Name == "Length" {
				continue
			}
			if ok, p := frEqV(a.Field(i), b.Field(i), path+"."+a.Type().Field(i).Name, depth+1, loose); !ok {
				return false, p
			}
		}
		return true, ""
	case reflect.Bool:
		if a.Bool() != b.Bool() {
			return false, path
		}
	case reflect.Int, reflect.Int8, reflect.Int16, reflect.Int32, reflect.Int64:
		if a.Int() != b.Int() {
			return false, fmt.Sprintf("%s:%d vs %d", path, a.Int(), b.Int())
		}
	case reflect.Uint, reflect.Uint8, reflect.Uint16, reflect.Uint32, reflect.Uint64, reflect.Uintptr:
		if a.Uint() != b.Uint() {
			return false, fmt.Sprintf("%s:%d vs %d", path, a.Uint(), b.Uint())
		}
	case reflect.Float32, reflect.Float64:
		if a.Float() != b.Float() {
			return false, path
		}
	case reflect.String:
		if a.String() != b.String() {
			return false, path
		}
	case reflect.Func, reflect.Chan, reflect.UnsafePointer:
		if a.Pointer() != b.Pointer() {
			return false, path
		}
	}
	return true, ""
}
