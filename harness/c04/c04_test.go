package bgp

import (
	"bytes"
	"encoding/json"
	"fmt"
	"testing"
)

// C04 replayer.  Every behaviour is an abstract message shape plus session options, enumerated
// by TLC (spec/FramingGen.tla).  The shape is concretised with the library's constructors,
// serialised, re-parsed under the same options and re-serialised; bytes, every Len() and the
// re-projected shape are recorded.  No property is asserted here (spec/trace/FramingTrace.tla).

type c04Behaviour struct {
	Shape frShape `json:"shape"`
	Opts  frOpts  `json:"opts"`
	Raw   []int   `json:"raw"` // non-empty: "received octets" - parse these instead of building the shape
}

type c04Obs struct {
	Ev       string  `json:"ev"`
	Shape    frShape `json:"shape"`
	Opts     frOpts  `json:"opts"`
	Raw      bool    `json:"raw"`      // the message object was parsed from RawBytes, not constructed
	RawBytes []int   `json:"rawbytes"` // the octets handed to the parser (the writer model's image of the shape)
	RawErr   bool    `json:"rawerr"`   // ParseBGPMessage of RawBytes returned an error
	RawMsg   string  `json:"rawmsg"`
	BuildErr string  `json:"builderr"` // harness could not build the shape (machinery, not a verdict)
	SerErr   bool    `json:"sererr"`   // Serialize returned an error
	SerMsg   string  `json:"sermsg"`
	Bytes    []int   `json:"bytes"`
	Proj     frShape `json:"proj"`     // projection of the constructed message
	Lens     frLens  `json:"lens"`     // Len() of the constructed elements
	ParseErr bool    `json:"parseerr"` // ParseBGPMessage of the emitted bytes returned an error
	ParseMsg string  `json:"parsemsg"`
	Reshape  frShape `json:"reshape"` // projection of the re-parsed message
	Relens   frLens  `json:"relens"`  // Len() of the re-parsed elements
	ReserErr bool    `json:"resererr"`
	Fixpoint bool    `json:"fixpoint"` // bytes equal after parse + re-serialise
	Equal    bool    `json:"equal"`    // constructed == re-parsed, DeepEqual modulo nil/empty and cached wire lengths
	EqDiff   string  `json:"eqdiff"`
	EqualAll bool    `json:"equalall"` // the same including the cached wire-length fields (informational)
	EqAllDif string  `json:"eqalldiff"`
	Panic    string  `json:"panic"`
}

func c04Empty() (frShape, frLens) {
	s := frShape{K: "none"}
	s.norm()
	return s, frLens{Attrs: []int{}, Wd: []int{}, Nlri: []int{}, Mp: [][]int{}, Caps: [][]int{}}
}

func c04Run(b *c04Behaviour) (obs c04Obs) {
	b.Shape.norm()
	es, el := c04Empty()
	obs = c04Obs{Ev: "Msg", Shape: b.Shape, Opts: b.Opts, Bytes: []int{}, RawBytes: []int{}, Proj: es, Lens: el, Reshape: es, Relens: el}
	defer func() {
		if r := recover(); r != nil {
			obs.Panic = fmt.Sprintf("%v", r)
		}
	}()
	opts := b.Opts.options()
	name := ""
	if b.Shape.K == "ex" {
		name = b.Shape.Name
	}
	var m1 *BGPMessage
	var err error
	if len(b.Raw) > 0 {
		obs.Raw, obs.RawBytes = true, b.Raw
		rb := frBytes(b.Raw)
		m1, err = ParseBGPMessage(rb[:len(rb):len(rb)], opts...)
		if err != nil || m1 == nil {
			obs.RawErr = true
			if err != nil {
				obs.RawMsg = err.Error()
			}
			return
		}
		m1.Header.Len = 0 // serialised below like a constructed message
	} else {
		m1, err = frBuild(&b.Shape, b.Opts)
		if err != nil {
			obs.BuildErr = err.Error()
			return
		}
	}
	obs.Proj = frProject(m1, name)
	lens := frLensOf(m1, opts)
	b1, err := m1.Serialize(opts...)
	if err != nil {
		obs.SerErr, obs.SerMsg = true, err.Error()
		return
	}
	if _, ok := m1.Body.(*BGPOpen); ok {
		// capability Len() is a cache filled by Serialize; record it after serialisation
		lens.Caps = frLensOf(m1, opts).Caps
	}
	obs.Lens = lens
	obs.Bytes = frInts(b1)
	in := make([]byte, len(b1))
	copy(in, b1)
	m2, err := ParseBGPMessage(in[:len(in):len(in)], opts...)
	if err != nil {
		obs.ParseErr, obs.ParseMsg = true, err.Error()
	}
	if m2 == nil {
		return
	}
	obs.Reshape = frProject(m2, name)
	obs.Relens = frLensOf(m2, opts)
	m2.Header.Len = 0 // let Serialize recompute (and re-check) the length
	b2, err := m2.Serialize(opts...)
	if err != nil {
		obs.ReserErr = true
		return
	}
	obs.Fixpoint = bytes.Equal(b1, b2)
	// compare after both sides have been serialised once (Serialize fills cached length fields),
	// as the package's own Test_Message does
	obs.Equal, obs.EqDiff = frDeepEqValue(m1, m2)
	obs.EqualAll, obs.EqAllDif = frDeepEq(m1, m2)
	return
}

func TestVerifC04(t *testing.T) {
	tr := frOpenTrace(t)
	defer tr.Close()
	tid := 0
	frReadLines(t, "VERIF_IN", func(line []byte) {
		var b c04Behaviour
		if err := json.Unmarshal(line, &b); err != nil {
			t.Fatalf("bad behaviour: %v", err)
		}
		tid++
		tr.Emit(map[string]any{"ev": "Reset", "tid": tid, "kind": "c04"})
		tr.Emit(c04Run(&b))
	})
}
