package bgp

import (
	"bytes"
	"encoding/json"
	"fmt"
	"math/rand"
	"os"
	"runtime/metrics"
	"strconv"
	"testing"
	"time"
)

// C05 replayer.  A behaviour is either
//   {"orig":[octets], "opts":{..}, "mut":{"f","o","w","m","v"}, "subs":[{"e","from","to","afi","safi"}]}
//     one mutation of one length field of real octets, enumerated by TLC (spec/FramingMutGen.tla)
//     from the octets the C04 replayer recorded, or
//   {"random":{"i":k,"n":len,"mode":"full|body|attrs"}, "opts":{..}}
//     a seeded pseudo-random octet string (extra, same oracles).
// The mutation is applied to the real octets and the result is parsed through every entry point
// (message, body-with-header, per attribute, per NLRI family, capability) under all 32 option
// combinations with recover() and a deadline.  Only observations are recorded; the verdicts are
// made by TLC (spec/trace/FramingTrace.tla, C05_*).

type c05Mut struct {
	F string `json:"f"`
	O int    `json:"o"`
	W int    `json:"w"`
	M string `json:"m"`
	V int    `json:"v"`
}

type c05Sub struct {
	E    string `json:"e"`
	From int    `json:"from"`
	To   int    `json:"to"`
	Afi  int    `json:"afi"`
	Safi int    `json:"safi"`
}

type c05Random struct {
	I    int    `json:"i"`
	N    int    `json:"n"`
	Mode string `json:"mode"`
}

type c05Behaviour struct {
	Orig   []int      `json:"orig"`
	Opts   frOpts     `json:"opts"`
	Mut    c05Mut     `json:"mut"`
	Subs   []c05Sub   `json:"subs"`
	Random *c05Random `json:"random"`
}

type c05Case struct {
	E        string `json:"e"`
	From     int    `json:"from"`
	To       int    `json:"to"`
	Afi      int    `json:"afi"`
	Safi     int    `json:"safi"`
	Po       []int  `json:"po"` // option-combination ids with this outcome
	Panic    bool   `json:"panic"`
	PMsg     string `json:"pmsg"`
	Timeout  bool   `json:"timeout"`
	Modified bool   `json:"modified"` // input buffer differs from its copy after parse (+ render)
	Ret      string `json:"ret"`      // val | err | both | nil | na
	Cls      string `json:"cls"`      // error handling class of a *MessageError, "plain" otherwise
	RPanic   bool   `json:"rpanic"`   // String / MarshalJSON / Len / Serialize of the returned value panicked
	RMsg     string `json:"rmsg"`
	RAt      string `json:"rat"`   // element.method whose rendering panicked
	Alloc    int    `json:"alloc"` // KiB allocated by parse + render (max over the group)
}

var c05Deadline = 10 * time.Second

func c05Class(err error) string {
	if err == nil {
		return ""
	}
	if me, ok := err.(*MessageError); ok {
		switch me.ErrorHandling {
		case ERROR_HANDLING_NONE:
			return "none"
		case ERROR_HANDLING_ATTRIBUTE_DISCARD:
			return "discard"
		case ERROR_HANDLING_TREAT_AS_WITHDRAW:
			return "withdraw"
		case ERROR_HANDLING_AFISAFI_DISABLE:
			return "afisafi"
		case ERROR_HANDLING_SESSION_RESET:
			return "reset"
		}
		return "class" + strconv.Itoa(int(me.ErrorHandling))
	}
	return "plain"
}

// c05Where remembers which element / method is being rendered, so that a recovered panic can be
// attributed (recorded as an observation: "attr22.MarshalJSON", "nlri(l2vpn-vpls).Serialize", ...).
type c05Where struct{ at string }

func (w *c05Where) nlri(n NLRI, opts []*MarshallingOption) {
	if n == nil {
		return
	}
	tag := fmt.Sprintf("nlri(%T)", n)
	w.at = tag + ".String"
	_ = n.String()
	w.at = tag + ".MarshalJSON"
	_, _ = n.MarshalJSON()
	w.at = tag + ".Len"
	_ = n.Len(opts...)
	w.at = tag + ".Serialize"
	_, _ = n.Serialize(opts...)
	w.at = tag + ".Flat"
	_ = n.Flat()
}

func (w *c05Where) attr(p PathAttributeInterface, opts []*MarshallingOption) {
	if p == nil {
		return
	}
	tag := fmt.Sprintf("attr%d", uint8(p.GetType()))
	w.at = tag + ".String"
	_ = p.String()
	w.at = tag + ".MarshalJSON"
	_, _ = p.MarshalJSON()
	w.at = tag + ".Len"
	_ = p.Len(opts...)
	w.at = tag + ".Serialize"
	_, _ = p.Serialize(opts...)
	w.at = tag + ".Flat"
	_ = p.Flat()
	_ = p.GetFlags()
	switch v := p.(type) {
	case *PathAttributeMpReachNLRI:
		for _, n := range v.Value {
			w.at = tag + ".PathNLRI.String"
			_ = n.String()
			w.nlri(n.NLRI, opts)
		}
	case *PathAttributeMpUnreachNLRI:
		for _, n := range v.Value {
			w.at = tag + ".PathNLRI.String"
			_ = n.String()
			w.nlri(n.NLRI, opts)
		}
	}
}

func (w *c05Where) capability(c ParameterCapabilityInterface) {
	if c == nil {
		return
	}
	tag := fmt.Sprintf("cap%d", uint8(c.Code()))
	w.at = tag + ".Len"
	_ = c.Len()
	w.at = tag + ".Serialize"
	_, _ = c.Serialize()
	w.at = tag + ".MarshalJSON"
	_, _ = json.Marshal(c)
}

// render exercises everything the daemon does with a returned value.
func (w *c05Where) render(v any, opts []*MarshallingOption) {
	switch x := v.(type) {
	case *BGPMessage:
		if x == nil || x.Body == nil {
			return
		}
		switch b := x.Body.(type) {
		case *BGPUpdate:
			for _, n := range b.WithdrawnRoutes {
				w.at = "wd.PathNLRI.String"
				_ = n.String()
				w.nlri(n.NLRI, opts)
			}
			for _, n := range b.NLRI {
				w.at = "nlri.PathNLRI.String"
				_ = n.String()
				w.nlri(n.NLRI, opts)
			}
			for _, p := range b.PathAttributes {
				w.attr(p, opts)
			}
			w.at = "update.IsEndOfRib"
			_, _ = b.IsEndOfRib()
		case *BGPOpen:
			for _, p := range b.OptParams {
				if pc, ok := p.(*OptionParameterCapability); ok {
					for _, c := range pc.Capability {
						w.capability(c)
					}
				}
				w.at = "param.Serialize"
				_, _ = p.Serialize()
			}
		}
		w.at = "body.json"
		_, _ = json.Marshal(x.Body)
		w.at = "msg.Serialize"
		_, _ = x.Serialize(opts...)
		x.Header.Len = 0
		w.at = "msg.Serialize0"
		_, _ = x.Serialize(opts...)
	case PathAttributeInterface:
		w.attr(x, opts)
	case NLRI:
		w.nlri(x, opts)
	case ParameterCapabilityInterface:
		w.capability(x)
	}
}

type c05Outcome struct {
	panicked bool
	pmsg     string
	timeout  bool
	modified bool
	ret      string
	cls      string
	rpanic   bool
	rmsg     string
	rat      string
	alloc    int
}

var c05Sample = []metrics.Sample{{Name: "/gc/heap/allocs:bytes"}}

func c05AllocBytes() uint64 {
	metrics.Read(c05Sample)
	return c05Sample[0].Value.Uint64()
}

func c05Trim(s string) string {
	if len(s) > 160 {
		return s[:160]
	}
	return s
}

// c05Exec runs one parse (+ render of what came back) on a private copy of the input.
func c05Exec(input []byte, opts []*MarshallingOption, parse func(in []byte) (any, error)) c05Outcome {
	in := make([]byte, len(input))
	copy(in, input)
	in = in[:len(in):len(in)] // no spare capacity: re-slicing past the end panics instead of reading on
	done := make(chan c05Outcome, 1)
	go func() {
		var o c05Outcome
		a0 := c05AllocBytes()
		var val any
		var err error
		func() {
			defer func() {
				if r := recover(); r != nil {
					o.panicked, o.pmsg = true, c05Trim(fmt.Sprint(r))
				}
			}()
			val, err = parse(in)
		}()
		if !o.panicked {
			has := val != nil && !frIsNil(val)
			switch {
			case has && err == nil:
				o.ret = "val"
			case has && err != nil:
				o.ret = "both"
			case !has && err != nil:
				o.ret = "err"
			default:
				o.ret = "nil"
			}
			o.cls = c05Class(err)
			if has {
				w := &c05Where{}
				func() {
					defer func() {
						if r := recover(); r != nil {
							o.rpanic, o.rmsg, o.rat = true, c05Trim(fmt.Sprint(r)), w.at
						}
					}()
					w.render(val, opts)
				}()
			}
		}
		o.modified = !bytes.Equal(in, input)
		o.alloc = int((c05AllocBytes() - a0) / 1024)
		done <- o
	}()
	t := time.NewTimer(c05Deadline)
	defer t.Stop()
	select {
	case o := <-done:
		return o
	case <-t.C:
		return c05Outcome{timeout: true, ret: "na"}
	}
}

func frIsNil(v any) bool {
	switch x := v.(type) {
	case *BGPMessage:
		return x == nil
	case PathAttributeInterface:
		return x == nil
	case NLRI:
		return x == nil
	case ParameterCapabilityInterface:
		return x == nil
	}
	return v == nil
}

func c05Apply(orig []byte, m c05Mut) []byte {
	b := make([]byte, len(orig))
	copy(b, orig)
	put := func(buf []byte, o, w, v int) {
		if w == 1 {
			buf[o] = byte(v)
		} else {
			buf[o] = byte(v >> 8)
			buf[o+1] = byte(v)
		}
	}
	switch m.M {
	case "none":
	case "trunc":
		b = b[:m.O+m.W]
		put(b, 16, 2, len(b))
	default:
		put(b, m.O, m.W, m.V)
	}
	return b
}

func c05RandomBytes(seed int64, r *c05Random) []byte {
	rng := rand.New(rand.NewSource(seed*1000003 + int64(r.I)))
	b := make([]byte, r.N)
	rng.Read(b)
	switch r.Mode {
	case "body", "attrs":
		if r.N < 23 {
			return b
		}
		for i := 0; i < 16; i++ {
			b[i] = 0xff
		}
		b[16], b[17] = byte(r.N>>8), byte(r.N)
		b[18] = byte(1 + rng.Intn(5))
		if r.Mode == "attrs" {
			// a syntactically plausible UPDATE skeleton around random attribute octets
			b[18] = BGP_MSG_UPDATE
			b[19], b[20] = 0, 0
			al := r.N - 23
			if tail := rng.Intn(4); tail <= al {
				al -= tail
			}
			b[21], b[22] = byte(al>>8), byte(al)
		}
	}
	return b
}

func c05Run(b *c05Behaviour, seed int64) map[string]any {
	var orig, buf []byte
	if b.Random != nil {
		buf = c05RandomBytes(seed, b.Random)
		orig = buf
		b.Mut = c05Mut{F: "random", M: "random"}
	} else {
		orig = frBytes(b.Orig)
		buf = c05Apply(orig, b.Mut)
	}
	if b.Subs == nil {
		b.Subs = []c05Sub{}
	}
	type entry struct {
		sub   c05Sub
		parse func(po frOpts) func(in []byte) (any, error)
		input []byte
	}
	entries := []entry{}
	entries = append(entries, entry{c05Sub{E: "msg", To: len(buf)}, func(po frOpts) func(in []byte) (any, error) {
		opts := po.options()
		return func(in []byte) (any, error) { m, err := ParseBGPMessage(in, opts...); return m, err }
	}, buf})
	// the daemon's path: header first, then exactly hdr.Len-19 octets of body
	h := &BGPHeader{}
	if len(buf) >= BGP_HEADER_LENGTH && h.DecodeFromBytes(buf[:BGP_HEADER_LENGTH]) == nil && int(h.Len) <= len(buf) {
		hl := int(h.Len)
		entries = append(entries, entry{c05Sub{E: "body", From: BGP_HEADER_LENGTH, To: hl}, func(po frOpts) func(in []byte) (any, error) {
			opts := po.options()
			return func(in []byte) (any, error) {
				hh := &BGPHeader{}
				if err := hh.DecodeFromBytes(buf[:BGP_HEADER_LENGTH]); err != nil {
					return nil, err
				}
				m, err := ParseBGPBody(hh, in, opts...)
				return m, err
			}
		}, buf[BGP_HEADER_LENGTH:hl]})
	}
	if len(buf) >= BGP_HEADER_LENGTH && h.DecodeFromBytes(buf[:BGP_HEADER_LENGTH]) == nil {
		entries = append(entries, entry{c05Sub{E: "bodyraw", From: BGP_HEADER_LENGTH, To: len(buf)}, func(po frOpts) func(in []byte) (any, error) {
			opts := po.options()
			return func(in []byte) (any, error) {
				hh := &BGPHeader{}
				if err := hh.DecodeFromBytes(buf[:BGP_HEADER_LENGTH]); err != nil {
					return nil, err
				}
				m, err := ParseBGPBody(hh, in, opts...)
				return m, err
			}
		}, buf[BGP_HEADER_LENGTH:]})
	}
	for _, s := range b.Subs {
		s := s
		if s.From < 0 || s.To > len(buf) || s.From > s.To {
			continue
		}
		in := buf[s.From:s.To]
		switch s.E {
		case "attr":
			entries = append(entries, entry{s, func(po frOpts) func(in []byte) (any, error) {
				opts := po.options()
				return func(in []byte) (any, error) {
					p, err := GetPathAttribute(in)
					if err != nil {
						return nil, err
					}
					err = p.DecodeFromBytes(in, opts...)
					return p, err
				}
			}, in})
		case "nlri":
			f := NewFamily(uint16(s.Afi), uint8(s.Safi))
			entries = append(entries, entry{s, func(po frOpts) func(in []byte) (any, error) {
				opts := po.options()
				return func(in []byte) (any, error) { n, err := NLRIFromSlice(f, in, opts...); return n, err }
			}, in})
		case "cap":
			entries = append(entries, entry{s, func(po frOpts) func(in []byte) (any, error) {
				return func(in []byte) (any, error) { c, err := DecodeCapability(in); return c, err }
			}, in})
		}
	}
	cases := []c05Case{}
	for _, e := range entries {
		groups := map[string]*c05Case{}
		order := []string{}
		for id := 0; id < 32; id++ {
			po := frOptsFromID(id)
			o := c05Exec(e.input, po.options(), e.parse(po))
			key := fmt.Sprint(o.panicked, o.pmsg, o.timeout, o.modified, o.ret, o.cls, o.rpanic, o.rmsg, o.rat)
			g, ok := groups[key]
			if !ok {
				g = &c05Case{E: e.sub.E, From: e.sub.From, To: e.sub.To, Afi: e.sub.Afi, Safi: e.sub.Safi, Po: []int{},
					Panic: o.panicked, PMsg: o.pmsg, Timeout: o.timeout, Modified: o.modified, Ret: o.ret, Cls: o.cls,
					RPanic: o.rpanic, RMsg: o.rmsg, RAt: o.rat}
				groups[key] = g
				order = append(order, key)
			}
			g.Po = append(g.Po, id)
			if o.alloc > g.Alloc {
				g.Alloc = o.alloc
			}
		}
		for _, k := range order {
			cases = append(cases, *groups[k])
		}
	}
	return map[string]any{"ev": "Mut", "opts": b.Opts, "mut": b.Mut, "orig": frInts(orig), "bytes": frInts(buf), "cases": cases}
}

func TestVerifC05(t *testing.T) {
	tr := frOpenTrace(t)
	defer tr.Close()
	seed, _ := strconv.ParseInt(os.Getenv("VERIF_SEED"), 10, 64)
	tid := 0
	frReadLines(t, "VERIF_IN", func(line []byte) {
		var b c05Behaviour
		if err := json.Unmarshal(line, &b); err != nil {
			t.Fatalf("bad behaviour: %v", err)
		}
		tid++
		tr.Emit(map[string]any{"ev": "Reset", "tid": tid, "kind": "c05"})
		tr.Emit(c05Run(&b, seed))
	})
}
