// Example catalogue for C04/C05: one message per attribute type / NLRI family that the abstract
// shape vocabulary of spec/FramingDom.tla does not model value-by-value.  The values follow the
// package's own test examples (bgp_test.go, mup_test.go, prefix_sid_test.go, sr_policy_test.go,
// vpls_test.go, helper.go).  The names are listed in spec/FramingDom.tla (ExampleNames).
package bgp

import (
	"fmt"
	"net"
	"net/netip"
)

type frExample func(o frOpts) (*BGPMessage, error)

func frBaseAttrs(o frOpts) []PathAttributeInterface {
	ap, _ := frBuildAttr(frAttr{T: "aspath", Segs: []int{2}}, o)
	return []PathAttributeInterface{NewPathAttributeOrigin(0), ap}
}

func frExAttr(mk func(o frOpts) (PathAttributeInterface, error)) frExample {
	return func(o frOpts) (*BGPMessage, error) {
		a, err := mk(o)
		if err != nil {
			return nil, err
		}
		nh, _ := NewPathAttributeNextHop(netip.MustParseAddr("10.0.0.1"))
		n, _ := NewIPAddrPrefix(netip.MustParsePrefix("10.1.2.0/24"))
		attrs := append(frBaseAttrs(o), nh, a)
		return NewBGPUpdateMessage([]PathNLRI{}, attrs, []PathNLRI{{NLRI: n, ID: frPathID(RF_IPv4_UC, o, 0)}}), nil
	}
}

func frExNlri(f Family, mk func() ([]NLRI, error)) frExample {
	return func(o frOpts) (*BGPMessage, error) {
		l, err := mk()
		if err != nil {
			return nil, err
		}
		pl := make([]PathNLRI, 0, len(l))
		for i, n := range l {
			if n == nil || isNilNLRI(n) {
				return nil, fmt.Errorf("nil NLRI in example for %s", f)
			}
			pl = append(pl, PathNLRI{NLRI: n, ID: frPathID(f, o, i)})
		}
		nh := netip.MustParseAddr("10.0.0.1")
		if f.Afi() == AFI_IP6 {
			nh = netip.MustParseAddr("2001:db8::1")
		}
		var reach *PathAttributeMpReachNLRI
		var err2 error
		switch f.Safi() {
		case SAFI_FLOW_SPEC_UNICAST, SAFI_FLOW_SPEC_VPN:
			reach, err2 = NewPathAttributeMpReachNLRI(f, pl) // FlowSpec carries no next hop
		default:
			reach, err2 = NewPathAttributeMpReachNLRI(f, pl, nh)
		}
		err = err2
		if err != nil {
			return nil, err
		}
		unreach, err := NewPathAttributeMpUnreachNLRI(f, pl)
		if err != nil {
			return nil, err
		}
		attrs := append(frBaseAttrs(o), reach, unreach)
		return NewBGPUpdateMessage([]PathNLRI{}, attrs, []PathNLRI{}), nil
	}
}

func isNilNLRI(n NLRI) bool {
	switch v := n.(type) {
	case *EVPNNLRI:
		return v == nil
	case *FlowSpecNLRI:
		return v == nil
	case *SRPolicyNLRI:
		return v == nil
	case *EncapNLRI:
		return v == nil
	case *MUPNLRI:
		return v == nil
	}
	return false
}

// frCanonAttr / frCanonNlri: for examples assembled from struct literals (as the package's tests
// do) the cached length fields are placeholders; take the object the library itself decodes
// from its own serialisation as the constructed value.
func frCanonAttr(p PathAttributeInterface) (PathAttributeInterface, error) {
	b, err := p.Serialize()
	if err != nil {
		return nil, err
	}
	q, err := GetPathAttribute(b)
	if err != nil {
		return nil, err
	}
	if err := q.DecodeFromBytes(b); err != nil {
		return nil, err
	}
	return q, nil
}

func frCanonNlri(f Family, n NLRI) (NLRI, error) {
	b, err := n.Serialize()
	if err != nil {
		return nil, err
	}
	return NLRIFromSlice(f, b)
}

func frDecodeNlri(f Family, raw []byte) (NLRI, error) {
	b := make([]byte, len(raw))
	copy(b, raw)
	return NLRIFromSlice(f, b)
}

var frLsNode = []byte{
	0x00, 0x01, 0x00, 0x2f, 0x02, 0x00, 0x00, 0x00, 0x00, 0x00, 0x00, 0x00, 0x00,
	0x01, 0x00, 0x00, 0x22,
	0x02, 0x00, 0x00, 0x04, 0x07, 0x07, 0x07, 0x07,
	0x02, 0x01, 0x00, 0x04, 0x07, 0x07, 0x07, 0x07,
	0x02, 0x02, 0x00, 0x04, 0x07, 0x07, 0x07, 0x07,
	0x02, 0x03, 0x00, 0x06, 0x01, 0x02, 0x03, 0x04, 0x05, 0x06,
}

var frLsLink = []byte{
	0x00, 0x02, 0x00, 0x65, 0x02, 0x00, 0x00, 0x00, 0x00, 0x00, 0x00, 0x00, 0x00,
	0x01, 0x00, 0x00, 0x22,
	0x02, 0x00, 0x00, 0x04, 0x07, 0x07, 0x07, 0x07,
	0x02, 0x01, 0x00, 0x04, 0x07, 0x07, 0x07, 0x07,
	0x02, 0x02, 0x00, 0x04, 0x07, 0x07, 0x07, 0x07,
	0x02, 0x03, 0x00, 0x06, 0x01, 0x02, 0x03, 0x04, 0x05, 0x06,
	0x01, 0x01, 0x00, 0x22,
	0x02, 0x00, 0x00, 0x04, 0x07, 0x07, 0x07, 0x07,
	0x02, 0x01, 0x00, 0x04, 0x07, 0x07, 0x07, 0x07,
	0x02, 0x02, 0x00, 0x04, 0x07, 0x07, 0x07, 0x07,
	0x02, 0x03, 0x00, 0x06, 0x06, 0x05, 0x04, 0x03, 0x02, 0x01,
	0x01, 0x03, 0x00, 0x04, 0x01, 0x01, 0x01, 0x01,
	0x01, 0x04, 0x00, 0x04, 0x02, 0x02, 0x02, 0x02,
}

func frLsPrefix(t byte) []byte {
	return []byte{
		0x00, t, 0x00, 0x35, 0x02, 0x00, 0x00, 0x00, 0x00, 0x00, 0x00, 0x00, 0x00,
		0x01, 0x00, 0x00, 0x22,
		0x02, 0x00, 0x00, 0x04, 0x07, 0x07, 0x07, 0x07,
		0x02, 0x01, 0x00, 0x04, 0x07, 0x07, 0x07, 0x07,
		0x02, 0x02, 0x00, 0x04, 0x07, 0x07, 0x07, 0x07,
		0x02, 0x03, 0x00, 0x06, 0x01, 0x02, 0x03, 0x04, 0x05, 0x06,
		0x01, 0x09, 0x00, 0x02, 0x08, 0x0a,
	}
}

var frLsSrv6Sid = []byte{
	0x00, 0x06, 0x00, 0x31,
	0x02, 0x00, 0x00, 0x00, 0x00, 0x00, 0x00, 0x00, 0x00,
	0x01, 0x00, 0x00, 0x10,
	0x02, 0x00, 0x00, 0x04, 0x00, 0x00, 0xfd, 0xe8,
	0x02, 0x03, 0x00, 0x04, 0x0a, 0x00, 0x00, 0x01,
	0x02, 0x06, 0x00, 0x10,
	0xfd, 0x00, 0x00, 0x00, 0x00, 0x00, 0x00, 0x00, 0x00, 0x00, 0x00, 0x00, 0x00, 0x00, 0x00, 0x01,
}

var frLsAttrNode = []byte{
	0x80, 0x1d, 0x5d, // BGP-LS attribute, type 29 (RFC 7752 3.3)
	0x04, 0x00, 0x00, 0x01, 0xFF,
	0x04, 0x01, 0x00, 0x03, 0x01, 0x02, 0x03,
	0x04, 0x02, 0x00, 0x03, 0x72, 0x74, 0x72,
	0x04, 0x03, 0x00, 0x03, 0x72, 0x74, 0x72,
	0x04, 0x04, 0x00, 0x04, 0x01, 0x01, 0x01, 0x01,
	0x04, 0x05, 0x00, 0x10, 0x20, 0x01, 0x0d, 0xb8, 0x00, 0x00, 0x00, 0x00, 0x00, 0x00, 0x00, 0x00, 0x00, 0x00, 0xBE, 0xEF,
	0x04, 0x0a, 0x00, 0x0c, 0x00, 0x00, 0x00, 0x88, 0xb8, 0x04, 0x89, 0x00, 0x03, 0x01, 0x88, 0x94,
	0x04, 0x0b, 0x00, 0x03, 0x01, 0x02, 0x03,
	0x04, 0x0c, 0x00, 0x0c, 0x00, 0x00, 0x00, 0x88, 0xb8, 0x04, 0x89, 0x00, 0x03, 0x01, 0x88, 0x94,
}

func frFlowSpecV4Components() []FlowSpecComponentInterface {
	cmp := make([]FlowSpecComponentInterface, 0)
	dst, _ := NewIPAddrPrefix(netip.MustParsePrefix("10.0.0.0/24"))
	cmp = append(cmp, NewFlowSpecDestinationPrefix(dst))
	src, _ := NewIPAddrPrefix(netip.MustParsePrefix("10.0.0.0/24"))
	cmp = append(cmp, NewFlowSpecSourcePrefix(src))
	item1 := NewFlowSpecComponentItem(DEC_NUM_OP_EQ, TCP)
	cmp = append(cmp, NewFlowSpecComponent(FLOW_SPEC_TYPE_IP_PROTO, []*FlowSpecComponentItem{item1}))
	item2 := NewFlowSpecComponentItem(DEC_NUM_OP_GT_EQ, 20)
	item3 := NewFlowSpecComponentItem(DEC_NUM_OP_AND|DEC_NUM_OP_LT_EQ, 30)
	item4 := NewFlowSpecComponentItem(DEC_NUM_OP_GT_EQ, 10)
	for _, t := range []BGPFlowSpecType{FLOW_SPEC_TYPE_PORT, FLOW_SPEC_TYPE_DST_PORT, FLOW_SPEC_TYPE_SRC_PORT,
		FLOW_SPEC_TYPE_ICMP_TYPE, FLOW_SPEC_TYPE_ICMP_CODE} {
		cmp = append(cmp, NewFlowSpecComponent(t, []*FlowSpecComponentItem{item2, item3, item4}))
	}
	item7 := NewFlowSpecComponentItem(0, TCP_FLAG_ACK)
	item8 := NewFlowSpecComponentItem(BITMASK_FLAG_OP_AND|BITMASK_FLAG_OP_NOT, TCP_FLAG_URGENT)
	cmp = append(cmp, NewFlowSpecComponent(FLOW_SPEC_TYPE_TCP_FLAG, []*FlowSpecComponentItem{item7, item8}))
	for _, t := range []BGPFlowSpecType{FLOW_SPEC_TYPE_PKT_LEN, FLOW_SPEC_TYPE_DSCP} {
		cmp = append(cmp, NewFlowSpecComponent(t, []*FlowSpecComponentItem{item2, item3, item4}))
	}
	item5 := NewFlowSpecComponentItem(BITMASK_FLAG_OP_MATCH, 0x02)
	item6 := NewFlowSpecComponentItem(BITMASK_FLAG_OP_AND, 0x08)
	cmp = append(cmp, NewFlowSpecComponent(FLOW_SPEC_TYPE_FRAGMENT, []*FlowSpecComponentItem{item5, item6}))
	return cmp
}

// a flow specification whose components add up to >= 240 octets (2-octet length form, RFC 8955 4.1)
func frFlowSpecLongComponents() []FlowSpecComponentInterface {
	cmp := make([]FlowSpecComponentInterface, 0)
	dst, _ := NewIPAddrPrefix(netip.MustParsePrefix("10.0.0.0/24"))
	cmp = append(cmp, NewFlowSpecDestinationPrefix(dst))
	items := make([]*FlowSpecComponentItem, 0, 60)
	for i := range 60 {
		items = append(items, NewFlowSpecComponentItem(DEC_NUM_OP_EQ, uint64(1000+i)))
	}
	for _, t := range []BGPFlowSpecType{FLOW_SPEC_TYPE_PORT, FLOW_SPEC_TYPE_DST_PORT} {
		cmp = append(cmp, NewFlowSpecComponent(t, items))
	}
	return cmp
}

func frExamples() map[string]frExample {
	rd := NewRouteDistinguisherFourOctetAS(5, 6)
	rd2 := NewRouteDistinguisherTwoOctetAS(100, 100)
	esi := EthernetSegmentIdentifier{ESI_ARBITRARY, make([]byte, 9)}
	m := map[string]frExample{}

	// ---- whole messages from the package's own helper ----
	m["msg:helper-update"] = func(o frOpts) (*BGPMessage, error) { return NewTestBGPUpdateMessage(), nil }
	m["msg:helper-open"] = func(o frOpts) (*BGPMessage, error) { return NewTestBGPOpenMessage(), nil }
	m["msg:eor-ipv4"] = func(o frOpts) (*BGPMessage, error) { return NewEndOfRib(RF_IPv4_UC), nil }
	m["msg:eor-evpn"] = func(o frOpts) (*BGPMessage, error) { return NewEndOfRib(RF_EVPN), nil }

	// ---- attributes ----
	m["attr:tunnelencap"] = frExAttr(func(o frOpts) (PathAttributeInterface, error) {
		ep, err := NewTunnelEncapSubTLVEgressEndpoint(netip.MustParseAddr("192.0.2.7"))
		if err != nil {
			return nil, err
		}
		subs := []TunnelEncapSubTLVInterface{
			NewTunnelEncapSubTLVColor(10),
			NewTunnelEncapSubTLVEncapsulation(777, []byte{1, 2, 3, 4}),
			NewTunnelEncapSubTLVProtocol(0x0800),
			ep,
			NewTunnelEncapSubTLVUDPDestPort(4789),
			NewTunnelEncapSubTLVUnknown(EncapSubTLVType(99), []byte{9, 9, 9}),
			NewTunnelEncapSubTLVUnknown(EncapSubTLVType(200), make([]byte, 300)), // 2-octet sub-TLV length form
		}
		tlv := NewTunnelEncapTLV(TUNNEL_TYPE_VXLAN, subs)
		tlv2 := NewTunnelEncapTLV(TUNNEL_TYPE_GRE, []TunnelEncapSubTLVInterface{NewTunnelEncapSubTLVColor(20)})
		return NewPathAttributeTunnelEncap([]*TunnelEncapTLV{tlv, tlv2}), nil
	})
	m["attr:tunnelencap-srpolicy"] = frExAttr(func(o frOpts) (PathAttributeInterface, error) {
		bsid, err := NewBSID([]byte{0, 0, 0x5f, 0x01})
		if err != nil {
			return nil, err
		}
		subs := []TunnelEncapSubTLVInterface{
			NewTunnelEncapSubTLVSRPreference(0, 11),
			NewTunnelEncapSubTLVSRPriority(5),
			NewTunnelEncapSubTLVSRCandidatePathName("candidate-path-1"),
			NewTunnelEncapSubTLVSRENLP(0, ENLPType1),
			&TunnelEncapSubTLVSRBSID{
				TunnelEncapSubTLV: TunnelEncapSubTLV{Type: ENCAP_SUBTLV_TYPE_SRBINDING_SID, Length: 6},
				BSID:              bsid,
			},
			&TunnelEncapSubTLVSRSegmentList{
				TunnelEncapSubTLV: TunnelEncapSubTLV{Type: ENCAP_SUBTLV_TYPE_SRSEGMENT_LIST, Length: 6},
				Weight: &SegmentListWeight{
					TunnelEncapSubTLV: TunnelEncapSubTLV{Type: SegmentListSubTLVWeight, Length: 6},
					Weight:            100,
				},
				Segments: []TunnelEncapSubTLVInterface{
					&SegmentTypeA{TunnelEncapSubTLV: TunnelEncapSubTLV{Type: EncapSubTLVType(TypeA), Length: 6}, Label: 21431 << 12},
					&SegmentTypeA{TunnelEncapSubTLV: TunnelEncapSubTLV{Type: EncapSubTLVType(TypeA), Length: 6}, Label: 21432 << 12},
				},
			},
		}
		return frCanonAttr(NewPathAttributeTunnelEncap([]*TunnelEncapTLV{NewTunnelEncapTLV(TUNNEL_TYPE_SR_POLICY, subs)}))
	})
	m["attr:pmsi"] = frExAttr(func(o frOpts) (PathAttributeInterface, error) {
		id, err := NewIngressReplTunnelID(netip.MustParseAddr("192.0.2.9"))
		if err != nil {
			return nil, err
		}
		return NewPathAttributePmsiTunnel(PMSI_TUNNEL_TYPE_INGRESS_REPL, true, 1000, id), nil
	})
	m["attr:pmsi-default"] = frExAttr(func(o frOpts) (PathAttributeInterface, error) {
		return NewPathAttributePmsiTunnel(PMSI_TUNNEL_TYPE_RSVP_TE_P2MP, false, 20, NewDefaultPmsiTunnelID([]byte{1, 2, 3, 4, 5, 6, 7, 8, 9, 10, 11, 12})), nil
	})
	m["attr:aigp"] = frExAttr(func(o frOpts) (PathAttributeInterface, error) {
		return NewPathAttributeAigp([]AigpTLVInterface{NewAigpTLVIgpMetric(1000), NewAigpTLVDefault(AigpTLVType(9), []byte{1, 2, 3})}), nil
	})
	m["attr:ls-node"] = frExAttr(func(o frOpts) (PathAttributeInterface, error) {
		b := append([]byte(nil), frLsAttrNode...)
		p := &PathAttributeLs{}
		if err := p.DecodeFromBytes(b); err != nil {
			return nil, err
		}
		return p, nil
	})
	m["attr:prefixsid"] = frExAttr(func(o frOpts) (PathAttributeInterface, error) {
		prefix := netip.MustParsePrefix("2001:0:5:3::/64")
		return NewPathAttributePrefixSID(
			NewSRv6ServiceTLV(TLVTypeSRv6L3Service,
				NewSRv6InformationSubTLV(prefix.Addr(), END_DT4,
					NewSRv6SIDStructureSubSubTLV(uint8(prefix.Bits()), 24, 16, 0, 16, 64)))), nil
	})
	m["attr:extcomm-all"] = frExAttr(func(o frOpts) (PathAttributeInterface, error) {
		ex3, err := NewIPv4AddressSpecificExtended(EC_SUBTYPE_ROUTE_TARGET, netip.MustParseAddr("192.2.1.2"), 3000, true)
		if err != nil {
			return nil, err
		}
		r4, err := NewRedirectIPv4AddressSpecificExtended(netip.MustParseAddr("192.2.1.3"), 7)
		if err != nil {
			return nil, err
		}
		mup4, err := NewMUPIPv4AddressSpecificExtended(EC_SUBTYPE_MUP_DIRECT_SEG_IPV4, netip.MustParseAddr("10.0.0.1"), 100)
		if err != nil {
			return nil, err
		}
		l := []ExtendedCommunityInterface{
			NewTwoOctetAsSpecificExtended(EC_SUBTYPE_ROUTE_TARGET, 10003, 3<<20, true),
			NewTwoOctetAsSpecificExtended(EC_SUBTYPE_ROUTE_ORIGIN, 10003, 4, false),
			NewFourOctetAsSpecificExtended(EC_SUBTYPE_ROUTE_TARGET, 1<<20, 300, true),
			ex3,
			NewOpaqueExtended(false, []byte{1, 2, 3, 4, 5, 6, 7}),
			NewValidationExtended(VALIDATION_STATE_INVALID),
			NewLinkBandwidthExtended(65000, 125000.0),
			NewColorExtended(1000000),
			NewEncapExtended(TUNNEL_TYPE_VXLAN),
			NewDefaultGatewayExtended(),
			NewUnknownExtended(99, []byte{0, 1, 2, 3, 4, 5, 6, 7}),
			NewESILabelExtended(1000, true),
			NewESImportRouteTarget("11:22:33:44:55:66"),
			NewMacMobilityExtended(123, false),
			NewRoutersMacExtended("11:22:33:44:55:66"),
			NewETreeExtended(100, true),
			NewMulticastFlagsExtended(true, false),
			NewTrafficRateExtended(100, 9600.0),
			NewTrafficActionExtended(true, false),
			NewRedirectTwoOctetAsSpecificExtended(100, 200),
			r4,
			NewRedirectFourOctetAsSpecificExtended(1<<20, 5),
			NewTrafficRemarkExtended(10),
			NewMUPExtended(EC_SUBTYPE_MUP_DIRECT_SEG, 100, 10000),
			mup4,
			NewMUPFourOctetAsSpecificExtended(EC_SUBTYPE_MUP_DIRECT_SEG_4_OCTET_AS, 65550, 100),
			NewVPLSExtended(0, 1500),
		}
		return NewPathAttributeExtendedCommunities(l), nil
	})
	m["attr:ip6extcomm"] = frExAttr(func(o frOpts) (PathAttributeInterface, error) {
		e1, err := NewIPv6AddressSpecificExtended(EC_SUBTYPE_ROUTE_TARGET, netip.MustParseAddr("2001:db8::1"), 100, true)
		if err != nil {
			return nil, err
		}
		e2, err := NewRedirectIPv6AddressSpecificExtended(netip.MustParseAddr("2001:db8::2"), 200)
		if err != nil {
			return nil, err
		}
		return NewPathAttributeIP6ExtendedCommunities([]ExtendedCommunityInterface{e1, e2}), nil
	})
	m["attr:aggregator-mismatch"] = frExAttr(func(o frOpts) (PathAttributeInterface, error) {
		// a 4-octet aggregator regardless of the session AS size (what the table layer hands over
		// before down-conversion)
		return NewPathAttributeAggregator(uint32(30002), netip.MustParseAddr("129.0.2.99"))
	})

	// ---- NLRI families ----
	m["nlri:l2vpn-evpn"] = frExNlri(RF_EVPN, func() ([]NLRI, error) {
		r2, err := NewEVPNMacIPAdvertisementRoute(rd, esi, 3, "01:23:45:67:89:ab", netip.MustParseAddr("192.2.1.2"), []uint32{3, 4})
		if err != nil {
			return nil, err
		}
		r2b, err := NewEVPNMacIPAdvertisementRoute(rd, esi, 3, "01:23:45:67:89:ab", netip.MustParseAddr("2001:db8::5"), []uint32{3})
		if err != nil {
			return nil, err
		}
		r3, err := NewEVPNMulticastEthernetTagRoute(rd, 3, netip.MustParseAddr("192.2.1.2"))
		if err != nil {
			return nil, err
		}
		r4, err := NewEVPNEthernetSegmentRoute(rd, esi, netip.MustParseAddr("192.2.1.1"))
		if err != nil {
			return nil, err
		}
		r5, err := NewEVPNIPPrefixRoute(rd, esi, 5, 24, netip.MustParseAddr("192.2.1.0"), netip.MustParseAddr("192.3.1.1"), 5)
		if err != nil {
			return nil, err
		}
		r5b, err := NewEVPNIPPrefixRoute(rd, esi, 5, 64, netip.MustParseAddr("2001:db8::"), netip.MustParseAddr("2001:db8::1"), 5)
		if err != nil {
			return nil, err
		}
		return []NLRI{NewEVPNEthernetAutoDiscoveryRoute(rd, esi, 2, 2), r2, r2b, r3, r4, r5, r5b}, nil
	})
	m["nlri:l2vpn-evpn-ipmsi"] = frExNlri(RF_EVPN, func() ([]NLRI, error) {
		rt := NewTwoOctetAsSpecificExtended(EC_SUBTYPE_ROUTE_TARGET, 65000, 1, true)
		return []NLRI{NewEVPNIPMSIRoute(rd, 7, rt)}, nil
	})
	m["nlri:l2vpn-vpls"] = frExNlri(RF_VPLS, func() ([]NLRI, error) {
		return []NLRI{NewVPLSNLRI(rd, 101, 100, 10, 1000), NewVPLSNLRI(rd2, 102, 100, 10, 2000)}, nil
	})
	m["nlri:rtc"] = frExNlri(RF_RTC_UC, func() ([]NLRI, error) {
		rt := NewTwoOctetAsSpecificExtended(EC_SUBTYPE_ROUTE_TARGET, 65000, 100, true)
		part := NewRouteTargetMembershipNLRI(65001, rt)
		part.Length = 64 // origin AS + the first 32 bits of the route target
		partc, err := frCanonNlri(RF_RTC_UC, part)
		if err != nil {
			return nil, err
		}
		return []NLRI{NewRouteTargetMembershipNLRI(65001, rt), NewRouteTargetMembershipNLRI(65002, nil),
			partc, NewRouteTargetMembershipNLRI(0, nil)}, nil
	})
	m["nlri:ipv4-encap"] = frExNlri(RF_IPv4_ENCAP, func() ([]NLRI, error) {
		n1, err := NewEncapNLRI(netip.MustParseAddr("10.0.0.1"))
		if err != nil {
			return nil, err
		}
		return []NLRI{n1}, nil
	})
	m["nlri:ipv4-encap-two"] = frExNlri(RF_IPv4_ENCAP, func() ([]NLRI, error) {
		n1, _ := NewEncapNLRI(netip.MustParseAddr("10.0.0.1"))
		n2, _ := NewEncapNLRI(netip.MustParseAddr("10.0.0.2"))
		return []NLRI{n1, n2}, nil
	})
	m["nlri:ipv6-encap"] = frExNlri(RF_IPv6_ENCAP, func() ([]NLRI, error) {
		n1, err := NewEncapNLRI(netip.MustParseAddr("2001::1"))
		if err != nil {
			return nil, err
		}
		return []NLRI{n1}, nil
	})
	m["nlri:ipv4-flowspec"] = frExNlri(RF_FS_IPv4_UC, func() ([]NLRI, error) {
		n1, err := NewFlowSpecUnicast(RF_FS_IPv4_UC, frFlowSpecV4Components())
		if err != nil {
			return nil, err
		}
		item := NewFlowSpecComponentItem(DEC_NUM_OP_EQ, TCP)
		n2, err := NewFlowSpecUnicast(RF_FS_IPv4_UC, []FlowSpecComponentInterface{NewFlowSpecComponent(FLOW_SPEC_TYPE_IP_PROTO, []*FlowSpecComponentItem{item})})
		if err != nil {
			return nil, err
		}
		return []NLRI{n1, n2}, nil
	})
	m["nlri:ipv4-flowspec-long"] = frExNlri(RF_FS_IPv4_UC, func() ([]NLRI, error) {
		n1, err := NewFlowSpecUnicast(RF_FS_IPv4_UC, frFlowSpecLongComponents())
		if err != nil {
			return nil, err
		}
		return []NLRI{n1}, nil
	})
	m["nlri:ipv6-flowspec"] = frExNlri(RF_FS_IPv6_UC, func() ([]NLRI, error) {
		p, _ := NewIPAddrPrefix(netip.MustParsePrefix("2001::/64"))
		cmp := []FlowSpecComponentInterface{NewFlowSpecDestinationPrefix6(p, 12), NewFlowSpecSourcePrefix6(p, 12)}
		item1 := NewFlowSpecComponentItem(DEC_NUM_OP_EQ, TCP)
		cmp = append(cmp, NewFlowSpecComponent(FLOW_SPEC_TYPE_IP_PROTO, []*FlowSpecComponentItem{item1}))
		item2 := NewFlowSpecComponentItem(DEC_NUM_OP_GT_EQ, 20)
		item3 := NewFlowSpecComponentItem(DEC_NUM_OP_AND|DEC_NUM_OP_LT_EQ, 30)
		cmp = append(cmp, NewFlowSpecComponent(FLOW_SPEC_TYPE_LABEL, []*FlowSpecComponentItem{item2, item3}))
		n1, err := NewFlowSpecUnicast(RF_FS_IPv6_UC, cmp)
		if err != nil {
			return nil, err
		}
		return []NLRI{n1}, nil
	})
	m["nlri:l3vpn-ipv4-flowspec"] = frExNlri(RF_FS_IPv4_VPN, func() ([]NLRI, error) {
		dst, _ := NewIPAddrPrefix(netip.MustParsePrefix("10.0.0.0/24"))
		n1, err := NewFlowSpecVPN(RF_FS_IPv4_VPN, rd2, []FlowSpecComponentInterface{NewFlowSpecDestinationPrefix(dst), NewFlowSpecSourcePrefix(dst)})
		if err != nil {
			return nil, err
		}
		return []NLRI{n1}, nil
	})
	m["nlri:l3vpn-ipv6-flowspec"] = frExNlri(RF_FS_IPv6_VPN, func() ([]NLRI, error) {
		p, _ := NewIPAddrPrefix(netip.MustParsePrefix("2001::/64"))
		n1, err := NewFlowSpecVPN(RF_FS_IPv6_VPN, rd2, []FlowSpecComponentInterface{NewFlowSpecDestinationPrefix6(p, 0)})
		if err != nil {
			return nil, err
		}
		return []NLRI{n1}, nil
	})
	m["nlri:l2vpn-flowspec"] = frExNlri(RF_FS_L2_VPN, func() ([]NLRI, error) {
		mac, _ := net.ParseMAC("01:23:45:67:89:ab")
		item1 := NewFlowSpecComponentItem(DEC_NUM_OP_EQ, uint64(IPv4))
		cmp := []FlowSpecComponentInterface{NewFlowSpecDestinationMac(mac), NewFlowSpecSourceMac(mac),
			NewFlowSpecComponent(FLOW_SPEC_TYPE_ETHERNET_TYPE, []*FlowSpecComponentItem{item1})}
		n1, err := NewFlowSpecVPN(RF_FS_L2_VPN, rd2, cmp)
		if err != nil {
			return nil, err
		}
		return []NLRI{n1}, nil
	})
	m["nlri:opaque"] = frExNlri(RF_OPAQUE, func() ([]NLRI, error) {
		return []NLRI{NewOpaqueNLRI([]byte("key"), []byte("value"))}, nil
	})
	for name, raw := range map[string][]byte{"nlri:ls-node": frLsNode, "nlri:ls-link": frLsLink,
		"nlri:ls-prefix4": frLsPrefix(3), "nlri:ls-prefix6": frLsPrefix(4), "nlri:ls-srv6sid": frLsSrv6Sid} {
		raw := raw
		m[name] = frExNlri(RF_LS, func() ([]NLRI, error) {
			n1, err := frDecodeNlri(RF_LS, raw)
			if err != nil {
				return nil, err
			}
			n2, err := frDecodeNlri(RF_LS, frLsNode)
			if err != nil {
				return nil, err
			}
			return []NLRI{n1, n2}, nil
		})
	}
	m["nlri:ipv4-srpolicy"] = frExNlri(RF_SR_POLICY_IPv4, func() ([]NLRI, error) {
		n1, err := NewSRPolicy(RF_SR_POLICY_IPv4, SRPolicyIPv4NLRILen, 1, 100, []byte{10, 0, 0, 1})
		if err != nil {
			return nil, err
		}
		n2, _ := NewSRPolicy(RF_SR_POLICY_IPv4, SRPolicyIPv4NLRILen, 2, 200, []byte{10, 0, 0, 2})
		return []NLRI{n1, n2}, nil
	})
	m["nlri:ipv6-srpolicy"] = frExNlri(RF_SR_POLICY_IPv6, func() ([]NLRI, error) {
		ep := netip.MustParseAddr("2001:db8::1").As16()
		n1, err := NewSRPolicy(RF_SR_POLICY_IPv6, SRPolicyIPv6NLRILen, 1, 100, ep[:])
		if err != nil {
			return nil, err
		}
		return []NLRI{n1}, nil
	})
	m["nlri:ipv4-mup"] = frExNlri(RF_MUP_IPv4, func() ([]NLRI, error) {
		sa := netip.MustParseAddr("10.10.10.2")
		return []NLRI{
			NewMUPInterworkSegmentDiscoveryRoute(rd2, netip.MustParsePrefix("10.10.10.0/24")),
			NewMUPDirectSegmentDiscoveryRoute(rd2, netip.MustParseAddr("10.10.10.1")),
			NewMUPType1SessionTransformedRoute(rd2, netip.MustParsePrefix("192.100.0.0/24"), netip.MustParseAddr("0.0.0.100"), 9, netip.MustParseAddr("10.10.10.1"), &sa),
			NewMUPType1SessionTransformedRoute(rd2, netip.MustParsePrefix("192.100.0.0/24"), netip.MustParseAddr("0.0.0.100"), 9, netip.MustParseAddr("10.10.10.1"), nil,
				NewMUPSessionParametersTLV(netip.MustParseAddr("0.0.0.200"), 11), NewMUPUnknownTLV(99, []byte{1, 2, 3})),
			NewMUPType2SessionTransformedRoute(rd2, 64, netip.MustParseAddr("10.10.10.1"), netip.MustParseAddr("0.0.0.100")),
		}, nil
	})
	m["nlri:ipv6-mup"] = frExNlri(RF_MUP_IPv6, func() ([]NLRI, error) {
		return []NLRI{
			NewMUPInterworkSegmentDiscoveryRoute(rd2, netip.MustParsePrefix("2001::/64")),
			NewMUPDirectSegmentDiscoveryRoute(rd2, netip.MustParseAddr("2001::1")),
			NewMUPType1SessionTransformedRoute(rd2, netip.MustParsePrefix("2001:db8:1::/48"), netip.MustParseAddr("0.0.0.100"), 9, netip.MustParseAddr("2001::1"), nil),
			NewMUPType2SessionTransformedRoute(rd2, 160, netip.MustParseAddr("2001::1"), netip.MustParseAddr("0.0.0.100")),
		}, nil
	})
	return m
}
