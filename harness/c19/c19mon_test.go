package server

// C19 (A): daemon-emitted BMP and MRT records versus the speaker model.
//
// Replays TLC-generated schedules of spec/MonitorGen.tla on the REAL BgpServer inside a synctest
// bubble.  A BMP station (one end of an in-memory connection handed to the daemon's BMP client through
// the verifDial hook) collects every octet the daemon writes; the MRT dumpers write to files under the
// scratch directory.  After every step, at exact quiescence, the new octets are split with the packages'
// own stream splitters (bmp.SplitBMP / mrt.SplitMrt), parsed with the packages' own parsers
// (bmp.ParseBMPMessageWithOptions / mrt.ParseHeader + mrt.ParseBody) and PROJECTED to abstract records.
// Nothing is asserted here: folding the records and comparing them with the speaker model is done by
// TLC (spec/trace/MonitorTrace.tla).

import (
	"bufio"
	"bytes"
	"context"
	"encoding/json"
	"fmt"
	"net"
	"net/netip"
	"os"
	"path/filepath"
	"sort"
	"sync"
	"testing"
	"testing/synctest"
	"time"

	api "github.com/osrg/gobgp/v4/api"
	"github.com/osrg/gobgp/v4/pkg/apiutil"
	"github.com/osrg/gobgp/v4/pkg/config/oc"
	"github.com/osrg/gobgp/v4/pkg/packet/bgp"
	"github.com/osrg/gobgp/v4/pkg/packet/bmp"
	"github.com/osrg/gobgp/v4/pkg/packet/mrt"
)

type mnPeerInfo struct {
	Kind    string `json:"kind"`
	AS      uint32 `json:"as"`
	Idx     int    `json:"idx"`
	SendMax int    `json:"sendmax"`
}

type mnRoute struct {
	Src  string `json:"src"`
	V    int    `json:"v"`
	Len  int    `json:"len"`
	Lp   int64  `json:"lp"`
	Med  int64  `json:"med"`
	Loop bool   `json:"loop"`
	Via  uint32 `json:"via"`
	Pp   int    `json:"pp"`
}

type mnStep struct {
	Ev  string  `json:"ev"`
	P   string  `json:"p,omitempty"`
	X   string  `json:"x,omitempty"`
	R   mnRoute `json:"r,omitempty"`
	Pol string  `json:"pol,omitempty"` // BmpOn: route monitoring policy
}

type mnBehaviour struct {
	Peers   map[string]mnPeerInfo `json:"peers"`
	LocalAS uint32                `json:"localas"`
	Steps   []mnStep              `json:"steps"`
}

var mnPrefixes = map[string]string{"x1": "10.1.0.0/24", "x2": "10.1.0.128/25"}

const mnStation = "10.0.0.200"
const mnStationPort = 11019

type mnWorld struct {
	t        *testing.T
	ss       *simServer
	b        *mnBehaviour
	peers    map[string]*simPeer
	pinfo    map[string]mnPeerInfo
	byAddr   map[string]string
	byRid    map[string]string
	srvPeers map[string]*peer
	mu       sync.Mutex

	// BMP station
	bmpMu    sync.Mutex
	bmpBuf   []byte // octets received and not yet split
	bmpConns int
	bmpEOF   int
	bmpOn    bool
	bmpCur   *fakeConn // the station's end of the current connection
	bmpCaps  map[string]bool // "ptype/addr" -> ADD-PATH (both directions) for IPv4 unicast seen in the Peer Up OPENs

	// MRT
	dir     string
	tblFile string
	updFile string
	tblOff  int
	updOff  int
}

func mnAddr(idx int) string { return fmt.Sprintf("10.0.0.%d", idx+1) }
func mnRid(idx int) string  { return fmt.Sprintf("%d.%d.%d.%d", idx+1, idx+1, idx+1, idx+1) }

func (w *mnWorld) asPath(r mnRoute) []uint32 {
	if r.Src == "local" {
		return nil
	}
	pi := w.pinfo[r.Src]
	first := pi.AS
	if pi.Kind == "ibgp" || pi.Kind == "rrc" {
		first = uint32(64700 + pi.Idx)
	}
	extras := 0
	if r.Via != 0 {
		extras++
	}
	if r.Loop {
		extras++
	}
	p := []uint32{first}
	for i := 1; i <= r.Len-1-extras; i++ {
		p = append(p, uint32(64800+10*pi.Idx+i))
	}
	if r.Via != 0 {
		p = append(p, r.Via)
	}
	if r.Loop {
		p = append(p, w.b.LocalAS)
	}
	return p
}

func (w *mnWorld) attrs(r mnRoute, nh string) []bgp.PathAttributeInterface {
	a := []bgp.PathAttributeInterface{bgp.NewPathAttributeOrigin(0)}
	if r.Src == "local" {
		a = append(a, bgp.NewPathAttributeAsPath(nil))
	} else {
		a = append(a, bgp.NewPathAttributeAsPath([]bgp.AsPathParamInterface{bgp.NewAs4PathParam(bgp.BGP_ASPATH_ATTR_TYPE_SEQ, w.asPath(r))}))
	}
	n, _ := bgp.NewPathAttributeNextHop(netip.MustParseAddr(nh))
	a = append(a, n)
	if r.Med >= 0 {
		a = append(a, bgp.NewPathAttributeMultiExitDisc(uint32(r.Med)))
	}
	if r.Lp >= 0 {
		a = append(a, bgp.NewPathAttributeLocalPref(uint32(r.Lp)))
	}
	a = append(a, bgp.NewPathAttributeCommunities([]uint32{uint32(65000<<16 | r.V)}))
	return a
}

func mnNLRI(x string) bgp.NLRI {
	n, err := bgp.NewIPAddrPrefix(netip.MustParsePrefix(mnPrefixes[x]))
	vpMust(err)
	return n
}

func mnPrefixName(s string) string {
	for k, v := range mnPrefixes {
		if v == s {
			return k
		}
	}
	return "other:" + s
}

func (w *mnWorld) addrName(s string) string {
	switch s {
	case "10.0.0.100":
		return "self"
	case "0.0.0.0", "invalid IP", "":
		return "zero"
	}
	if n, ok := w.byAddr[s]; ok {
		return n
	}
	return "other:" + s
}

func (w *mnWorld) ridName(s string) string {
	switch s {
	case "10.0.0.100":
		return "self"
	case "0.0.0.0", "invalid IP", "":
		return "zero"
	}
	if n, ok := w.byRid[s]; ok {
		return n
	}
	return "other:" + s
}

func (w *mnWorld) srcOfTag(v int) string {
	if v < 16 {
		return "local"
	}
	idx := v/16 - 1
	for n, pi := range w.pinfo {
		if pi.Idx == idx {
			return n
		}
	}
	return "unknown"
}

// project: concrete attributes -> the abstract record compared by the trace spec.
func (w *mnWorld) project(attrs []bgp.PathAttributeInterface) map[string]any {
	o := map[string]any{"v": 0, "src": "unknown", "aspath": []uint32{}, "nh": "none", "med": int64(-1), "lp": int64(-1),
		"origid": "none", "clist": 0, "origin": -1, "extra": 0}
	for _, a := range attrs {
		switch t := a.(type) {
		case *bgp.PathAttributeOrigin:
			o["origin"] = int(t.Value)
		case *bgp.PathAttributeAsPath:
			l := []uint32{}
			for _, seg := range t.Value {
				if seg.GetType() != bgp.BGP_ASPATH_ATTR_TYPE_SEQ {
					l = append(l, 0) // never generated: shows up as a mismatch
				}
				l = append(l, seg.GetAS()...)
			}
			o["aspath"] = l
		case *bgp.PathAttributeNextHop:
			o["nh"] = w.addrName(t.Value.String())
		case *bgp.PathAttributeMpReachNLRI:
			// MRT TABLE_DUMPv2 (RFC 6396 4.3.4) carries the next hop of non-IPv4-unicast entries here
			o["nh"] = w.addrName(t.Nexthop.String())
		case *bgp.PathAttributeMultiExitDisc:
			o["med"] = int64(t.Value)
		case *bgp.PathAttributeLocalPref:
			o["lp"] = int64(t.Value)
		case *bgp.PathAttributeOriginatorId:
			o["origid"] = w.ridName(t.Value.String())
		case *bgp.PathAttributeClusterList:
			o["clist"] = len(t.Value)
		case *bgp.PathAttributeCommunities:
			for _, c := range t.Value {
				if c>>16 == 65000 {
					v := int(c & 0xffff)
					o["v"] = v
					o["src"] = w.srcOfTag(v)
				}
			}
		default:
			o["extra"] = o["extra"].(int) + 1 // an attribute the model does not know: shows up as a mismatch
		}
	}
	return o
}

// projectUpdate: one BGP UPDATE -> announcements / withdrawals over the prefix pool
func (w *mnWorld) projectUpdate(m *bgp.BGPMessage) (ann []any, wd []any, eor bool, ok bool) {
	ann, wd = []any{}, []any{}
	if m == nil || m.Header.Type != bgp.BGP_MSG_UPDATE {
		return ann, wd, false, false
	}
	u := m.Body.(*bgp.BGPUpdate)
	if y, _ := u.IsEndOfRib(); y {
		return ann, wd, true, true
	}
	for _, n := range u.WithdrawnRoutes {
		wd = append(wd, map[string]any{"x": mnPrefixName(n.NLRI.String()), "id": int(n.ID)})
	}
	var rest []bgp.PathAttributeInterface
	for _, a := range u.PathAttributes {
		switch t := a.(type) {
		case *bgp.PathAttributeMpUnreachNLRI:
			for _, n := range t.Value {
				wd = append(wd, map[string]any{"x": mnPrefixName(n.NLRI.String()), "id": int(n.ID)})
			}
		default:
			rest = append(rest, a)
		}
	}
	if len(u.NLRI) > 0 {
		pr := w.project(rest)
		for _, n := range u.NLRI {
			ann = append(ann, map[string]any{"x": mnPrefixName(n.NLRI.String()), "id": int(n.ID), "r": pr})
		}
	}
	return ann, wd, false, true
}

// ---------------------------------------------------------------------------------------
// BMP station

func (w *mnWorld) dialHook(ctx context.Context, addr string, port int) (net.Conn, bool) {
	if addr != mnStation {
		return nil, false
	}
	srv, st := vpPipe(w.ss.addr, netip.MustParseAddr(mnStation), 45000, port)
	w.bmpMu.Lock()
	w.bmpConns++
	w.bmpCur = st
	w.bmpMu.Unlock()
	go func() {
		buf := make([]byte, 65536)
		for {
			n, err := st.Read(buf)
			if n > 0 {
				w.bmpMu.Lock()
				w.bmpBuf = append(w.bmpBuf, buf[:n]...)
				w.bmpMu.Unlock()
			}
			if err != nil {
				w.bmpMu.Lock()
				w.bmpEOF++
				w.bmpMu.Unlock()
				st.Close()
				return
			}
		}
	}()
	return srv, true
}

func mnHasAddPath(m *bgp.BGPMessage) bool {
	if m == nil || m.Header.Type != bgp.BGP_MSG_OPEN {
		return false
	}
	for _, p := range m.Body.(*bgp.BGPOpen).OptParams {
		c, ok := p.(*bgp.OptionParameterCapability)
		if !ok {
			continue
		}
		for _, cc := range c.Capability {
			if ap, ok := cc.(*bgp.CapAddPath); ok {
				for _, t := range ap.Tuples {
					if t.Family == bgp.RF_IPv4_UC && t.Mode == bgp.BGP_ADD_PATH_BOTH {
						return true
					}
				}
			}
		}
	}
	return false
}

func (w *mnWorld) openInfo(m *bgp.BGPMessage) map[string]any {
	o := map[string]any{"as": 0, "id": "none", "as4": 0}
	if m == nil || m.Header.Type != bgp.BGP_MSG_OPEN {
		return o
	}
	op := m.Body.(*bgp.BGPOpen)
	o["as"] = int(op.MyAS)
	o["id"] = w.ridName(op.ID.String())
	for _, p := range op.OptParams {
		if c, ok := p.(*bgp.OptionParameterCapability); ok {
			for _, cc := range c.Capability {
				if a4, ok := cc.(*bgp.CapFourOctetASNumber); ok {
					o["as4"] = int(a4.CapValue)
				}
			}
		}
	}
	return o
}

// takeBmp splits and parses what the station has received since the last call.
func (w *mnWorld) takeBmp() []any {
	w.bmpMu.Lock()
	data := w.bmpBuf
	w.bmpBuf = nil
	w.bmpMu.Unlock()
	out := []any{}
	sc := bufio.NewScanner(bytes.NewReader(data))
	sc.Buffer(make([]byte, 0, 1<<20), 1<<24)
	sc.Split(bmp.SplitBMP)
	used := 0
	for sc.Scan() {
		tok := append([]byte{}, sc.Bytes()...)
		used += len(tok)
		out = append(out, w.projectBmp(tok))
		if len(tok) == 0 {
			break // a splitter that does not advance: recorded, not followed
		}
	}
	if used < len(data) {
		// an incomplete record stays buffered (cannot happen at quiescence; recorded if it does)
		w.bmpMu.Lock()
		w.bmpBuf = append(append([]byte{}, data[used:]...), w.bmpBuf...)
		w.bmpMu.Unlock()
		out = append(out, map[string]any{"t": "partial", "n": len(data) - used})
	}
	return out
}

func (w *mnWorld) projectBmp(tok []byte) map[string]any {
	o := map[string]any{"t": "other", "toklen": len(tok), "perr": "", "ptype": -1, "post": false, "peer": "none",
		"as": 0, "rid": "none", "flags": 0}
	msg, err := bmp.ParseBMPMessageWithOptions(tok, func(h bmp.BMPPeerHeader) []*bgp.MarshallingOption {
		if w.bmpCaps[fmt.Sprintf("%d/%s", h.PeerType, h.PeerAddress)] {
			return []*bgp.MarshallingOption{{AddPath: map[bgp.Family]bgp.BGPAddPathMode{bgp.RF_IPv4_UC: bgp.BGP_ADD_PATH_BOTH}}}
		}
		return nil
	})
	if err != nil {
		o["perr"] = err.Error()
	}
	if msg == nil {
		return o
	}
	o["declen"] = int(msg.Header.Length)
	ph := msg.PeerHeader
	hasPeer := msg.Header.Type != bmp.BMP_MSG_INITIATION && msg.Header.Type != bmp.BMP_MSG_TERMINATION
	if hasPeer {
		o["ptype"] = int(ph.PeerType)
		o["flags"] = int(ph.Flags)
		o["post"] = ph.IsPostPolicy()
		o["peer"] = w.addrName(ph.PeerAddress.String())
		o["as"] = int(ph.PeerAS)
		o["rid"] = w.ridName(ph.PeerBGPID.String())
	}
	switch b := msg.Body.(type) {
	case *bmp.BMPInitiation:
		o["t"] = "init"
		o["ntlv"] = len(b.Info)
	case *bmp.BMPTermination:
		o["t"] = "term"
	case *bmp.BMPPeerUpNotification:
		o["t"] = "up"
		o["laddr"] = w.addrName(b.LocalAddress.String())
		o["sent"] = w.openInfo(b.SentOpenMsg)
		o["recv"] = w.openInfo(b.ReceivedOpenMsg)
		o["ninfo"] = len(b.Info)
		w.bmpCaps[fmt.Sprintf("%d/%s", ph.PeerType, ph.PeerAddress)] = mnHasAddPath(b.SentOpenMsg) && mnHasAddPath(b.ReceivedOpenMsg)
	case *bmp.BMPPeerDownNotification:
		o["t"] = "down"
		o["reason"] = int(b.Reason)
		delete(w.bmpCaps, fmt.Sprintf("%d/%s", ph.PeerType, ph.PeerAddress))
	case *bmp.BMPRouteMonitoring:
		o["t"] = "rm"
		ann, wd, eor, ok := w.projectUpdate(b.BGPUpdate)
		o["ann"], o["wd"], o["eor"], o["isupd"] = ann, wd, eor, ok
	case *bmp.BMPStatisticsReport:
		o["t"] = "stats"
		st := map[string]any{}
		for _, s := range b.Stats {
			switch v := s.(type) {
			case *bmp.BMPStatsTLV64:
				st[fmt.Sprintf("s%d", v.Type)] = int(v.Value)
			case *bmp.BMPStatsTLV32:
				st[fmt.Sprintf("s%d", v.Type)] = int(v.Value)
			}
		}
		o["stats"] = st
	case *bmp.BMPRouteMirroring:
		o["t"] = "mirror"
	}
	return o
}

// ---------------------------------------------------------------------------------------
// MRT

func mnSplitMrt(data []byte) (recs [][]byte, rest int) {
	sc := bufio.NewScanner(bytes.NewReader(data))
	sc.Buffer(make([]byte, 0, 1<<20), 1<<24)
	sc.Split(mrt.SplitMrt)
	used := 0
	for sc.Scan() {
		tok := append([]byte{}, sc.Bytes()...)
		used += len(tok)
		recs = append(recs, tok)
		if len(tok) == 0 {
			break
		}
	}
	return recs, len(data) - used
}

func (w *mnWorld) readNew(file string, off *int) []byte {
	b, err := os.ReadFile(file)
	if err != nil || len(b) <= *off {
		return nil
	}
	n := b[*off:]
	*off = len(b)
	return n
}

// takeTableDumps: every TABLE_DUMPv2 group (PEER_INDEX_TABLE followed by RIB records) written since
// the last call.
func (w *mnWorld) takeTableDumps() []any {
	out := []any{}
	recs, rest := mnSplitMrt(w.readNew(w.tblFile, &w.tblOff))
	var cur map[string]any
	for _, tok := range recs {
		rec := map[string]any{"toklen": len(tok), "perr": ""}
		h, err := mrt.ParseHeader(tok)
		if err != nil {
			rec["perr"] = "header: " + err.Error()
			out = append(out, map[string]any{"bad": rec})
			continue
		}
		rec["declen"] = int(h.Len) + mrt.MRT_COMMON_HEADER_LEN
		rec["type"] = int(h.Type)
		rec["sub"] = int(h.SubType)
		m, err := mrt.ParseBody(tok[mrt.MRT_COMMON_HEADER_LEN:], h)
		if err != nil {
			rec["perr"] = err.Error()
			if h.Type == mrt.TABLE_DUMPv2 && mrt.MRTSubTypeTableDumpv2(h.SubType) == mrt.PEER_INDEX_TABLE {
				// a peer index table that does not parse back still opens a group: the RIB records that
				// follow it are judged on their own
				cur = map[string]any{"collector": "none", "peers": []any{}, "ribs": []any{}, "bad": []any{}, "piterr": err.Error(),
					"hlenok": rec["declen"] == rec["toklen"]}
				out = append(out, cur)
			} else if cur != nil {
				cur["bad"] = append(cur["bad"].([]any), rec)
			} else {
				out = append(out, map[string]any{"bad": rec})
			}
			continue
		}
		switch b := m.Body.(type) {
		case *mrt.PeerIndexTable:
			peers := []any{}
			for _, p := range b.Peers {
				peers = append(peers, map[string]any{"peer": w.addrName(p.IpAddress.String()), "rid": w.ridName(p.BgpId.String()), "as": int(p.AS)})
			}
			cur = map[string]any{"collector": w.ridName(b.CollectorBgpId.String()), "peers": peers, "ribs": []any{}, "bad": []any{}, "piterr": "",
				"hlenok": rec["declen"] == rec["toklen"]}
			out = append(out, cur)
		case *mrt.Rib:
			ents := []any{}
			for _, e := range b.Entries {
				ents = append(ents, map[string]any{"pi": int(e.PeerIndex), "pathid": int(e.PathIdentifier), "r": w.project(e.PathAttributes)})
			}
			r := map[string]any{"sub": int(h.SubType), "seq": int(b.SequenceNumber), "x": mnPrefixName(b.Prefix.String()), "entries": ents,
				"hlenok": rec["declen"] == rec["toklen"]}
			if cur == nil {
				out = append(out, map[string]any{"orphan": r})
			} else {
				cur["ribs"] = append(cur["ribs"].([]any), r)
			}
		default:
			rec["perr"] = fmt.Sprintf("unexpected body %T", b)
			out = append(out, map[string]any{"bad": rec})
		}
	}
	if rest != 0 {
		out = append(out, map[string]any{"partial": rest})
	}
	return out
}

// takeUpdates: BGP4MP records written since the last call
func (w *mnWorld) takeUpdates() []any {
	out := []any{}
	recs, rest := mnSplitMrt(w.readNew(w.updFile, &w.updOff))
	for _, tok := range recs {
		rec := map[string]any{"toklen": len(tok), "perr": "", "peer": "none", "pas": 0, "las": 0, "laddr": "none", "sub": -1,
			"ann": []any{}, "wd": []any{}, "eor": false, "isupd": false}
		out = append(out, rec)
		h, err := mrt.ParseHeader(tok)
		if err != nil {
			rec["perr"] = "header: " + err.Error()
			continue
		}
		rec["declen"] = int(h.Len) + mrt.MRT_COMMON_HEADER_LEN
		rec["type"] = int(h.Type)
		rec["sub"] = int(h.SubType)
		m, err := mrt.ParseBody(tok[mrt.MRT_COMMON_HEADER_LEN:], h)
		if err != nil {
			rec["perr"] = err.Error()
			continue
		}
		b, ok := m.Body.(*mrt.BGP4MPMessage)
		if !ok {
			rec["perr"] = fmt.Sprintf("unexpected body %T", m.Body)
			continue
		}
		rec["peer"] = w.addrName(b.PeerIpAddress.String())
		rec["laddr"] = w.addrName(b.LocalIpAddress.String())
		rec["pas"] = int(b.PeerAS)
		rec["las"] = int(b.LocalAS)
		rec["ann"], rec["wd"], rec["eor"], rec["isupd"] = w.projectUpdate(b.BGPMessage)
	}
	if rest != 0 {
		out = append(out, map[string]any{"partial": rest, "perr": "partial", "peer": "none", "ann": []any{}, "wd": []any{}, "eor": false, "isupd": false})
	}
	return out
}

// ---------------------------------------------------------------------------------------

func (w *mnWorld) addPeer(name string) {
	pi := w.pinfo[name]
	p := &api.Peer{
		Conf:      &api.PeerConf{NeighborAddress: mnAddr(pi.Idx), PeerAsn: pi.AS},
		Transport: &api.Transport{PassiveMode: true},
		Timers:    &api.Timers{Config: &api.TimersConfig{HoldTime: 90, KeepaliveInterval: 30}},
	}
	if pi.Kind == "rrc" {
		p.RouteReflector = &api.RouteReflector{RouteReflectorClient: true, RouteReflectorClusterId: "10.0.0.100"}
	}
	vpMust(w.ss.s.AddPeer(context.Background(), &api.AddPeerRequest{Peer: p}))
	vpMust(w.ss.s.mgmtOperation(func() error {
		w.mu.Lock()
		w.srvPeers[name] = w.ss.s.neighborMap[netip.MustParseAddr(mnAddr(pi.Idx))]
		w.mu.Unlock()
		return nil
	}, false))
	w.peers[name] = newSimPeer(w.ss, name, mnAddr(pi.Idx), pi.AS, mnRid(pi.Idx))
}

func (w *mnWorld) sessionUp(name string) {
	sp := w.peers[name]
	for i := 0; i < 40; i++ {
		st, _, _ := w.ss.peerState(sp.addr.String())
		if st == api.PeerState_SESSION_STATE_ACTIVE {
			break
		}
		time.Sleep(time.Second)
		synctest.Wait()
	}
	sp.take()
	sp.connect()
	synctest.Wait()
	caps := []bgp.ParameterCapabilityInterface{bgp.NewCapRouteRefresh(), bgp.NewCapFourOctetASNumber(sp.as), bgp.NewCapMultiProtocol(bgp.RF_IPv4_UC)}
	vpMust(sp.send(sp.openWith(0, caps)))
	synctest.Wait()
	sp.setOptions(&bgp.MarshallingOption{}, &bgp.MarshallingOption{})
	vpMust(sp.send(bgp.NewBGPKeepAliveMessage()))
	synctest.Wait()
}

func mnBmpPolicy(pol string) api.AddBmpRequest_MonitoringPolicy {
	switch pol {
	case "pre":
		return api.AddBmpRequest_MONITORING_POLICY_PRE
	case "post":
		return api.AddBmpRequest_MONITORING_POLICY_POST
	case "local":
		return api.AddBmpRequest_MONITORING_POLICY_LOCAL
	case "all":
		return api.AddBmpRequest_MONITORING_POLICY_ALL
	}
	panic("harness: unknown BMP policy " + pol)
}

func (w *mnWorld) bmpOff() {
	if !w.bmpOn {
		return
	}
	w.bmpOn = false
	_ = w.ss.s.DeleteBmp(context.Background(), &api.DeleteBmpRequest{Address: mnStation, Port: mnStationPort})
}

func (w *mnWorld) step(st mnStep) {
	switch st.Ev {
	case "Up":
		w.sessionUp(st.P)
	case "Down":
		w.peers[st.P].closeConn()
	case "Ann":
		sp := w.peers[st.P]
		_ = sp.send(bgp.NewBGPUpdateMessage(nil, w.attrs(st.R, sp.addr.String()), []bgp.PathNLRI{{NLRI: mnNLRI(st.X)}}))
	case "Wd":
		sp := w.peers[st.P]
		_ = sp.send(bgp.NewBGPUpdateMessage([]bgp.PathNLRI{{NLRI: mnNLRI(st.X)}}, nil, nil))
	case "ApiAdd":
		_, err := w.ss.s.AddPath(apiutil.AddPathRequest{Paths: []*apiutil.Path{{
			Family: bgp.RF_IPv4_UC, Nlri: mnNLRI(st.X), Attrs: w.attrs(st.R, "0.0.0.0"),
		}}})
		vpMust(err)
	case "ApiDel":
		_ = w.ss.s.DeletePath(apiutil.DeletePathRequest{Paths: []*apiutil.Path{{
			Family: bgp.RF_IPv4_UC, Nlri: mnNLRI(st.X), Attrs: w.attrs(mnRoute{Src: "local", V: 1, Med: -1, Lp: -1}, "0.0.0.0"),
		}}})
	case "DelPeer":
		_ = w.ss.s.DeletePeer(context.Background(), &api.DeletePeerRequest{Address: w.peers[st.P].addr.String()})
		w.mu.Lock()
		delete(w.srvPeers, st.P)
		w.mu.Unlock()
	case "AddPeer":
		old := w.peers[st.P]
		w.addPeer(st.P)
		old.closeConn()
	case "BmpOn":
		vpMust(w.ss.s.AddBmp(context.Background(), &api.AddBmpRequest{Address: mnStation, Port: mnStationPort, Policy: mnBmpPolicy(st.Pol)}))
		w.bmpOn = true
	case "BmpOff":
		w.bmpOff()
	case "BmpDrop":
		// the station closes the connection; the daemon notices at its next write and dials again
		w.bmpMu.Lock()
		c := w.bmpCur
		w.bmpCur = nil
		w.bmpMu.Unlock()
		if c != nil {
			c.Close()
		}
		synctest.Wait()
		w.bmpMu.Lock()
		w.bmpBuf = nil // nothing of the old session is kept
		w.bmpMu.Unlock()
	case "Dump":
		// the table dumper ticks every 60 virtual seconds: exactly one tick falls into this sleep
		time.Sleep(60 * time.Second)
	default:
		w.t.Fatalf("unknown step %q", st.Ev)
	}
	synctest.Wait()
}

func (w *mnWorld) observe() map[string]any {
	obs := map[string]any{}
	sess := map[string]string{}
	adjin := map[string]any{}
	for name, sp := range w.peers {
		st, _, _ := w.ss.peerState(sp.addr.String())
		if st == api.PeerState_SESSION_STATE_ESTABLISHED {
			sess[name] = "up"
		} else {
			sess[name] = "down"
		}
		ai := map[string]any{}
		for x := range mnPrefixes {
			ai[x] = map[string]any{"src": "none"}
		}
		w.mu.Lock()
		sp2 := w.srvPeers[name]
		w.mu.Unlock()
		if sp2 != nil {
			for _, path := range sp2.adjRibIn.PathList([]bgp.Family{bgp.RF_IPv4_UC}, false) {
				pr := w.project(path.GetPathAttrs())
				ai[mnPrefixName(path.GetNlri().String())] = map[string]any{"src": pr["src"], "v": pr["v"]}
			}
		}
		adjin[name] = ai
	}
	obs["sess"] = sess
	obs["adjin"] = adjin
	w.bmpMu.Lock()
	obs["bmpconns"] = w.bmpConns
	obs["bmpeof"] = w.bmpEOF
	w.bmpMu.Unlock()
	return obs
}

// mnLetters: a directory name made of letters that no time layout verb contains
func mnLetters(n int) string {
	const abc = "abcdefghi"
	s := "d"
	for {
		s += string(abc[n%len(abc)])
		n /= len(abc)
		if n == 0 {
			return s
		}
	}
}

func mnRun(t *testing.T, tr *vpTrace, tid int, b *mnBehaviour, base string) {
	synctest.Test(t, func(t *testing.T) {
		w := &mnWorld{t: t, b: b, peers: map[string]*simPeer{}, pinfo: b.Peers, byAddr: map[string]string{}, byRid: map[string]string{},
			srvPeers: map[string]*peer{}, bmpCaps: map[string]bool{}}
		VerifDialHook = w.dialHook
		defer func() { VerifDialHook = nil }()
		w.ss = newSimServer(t, &api.Global{Asn: b.LocalAS})
		names := make([]string, 0, len(b.Peers))
		for n, pi := range b.Peers {
			names = append(names, n)
			w.byAddr[mnAddr(pi.Idx)] = n
			w.byRid[mnRid(pi.Idx)] = n
		}
		sort.Strings(names)
		for _, n := range names {
			w.addPeer(n)
		}
		// MRT dumpers: relative file names without any character that time.Format would rewrite
		// (the updates dumper always formats its file name as a time layout)
		w.dir = filepath.Join(base, mnLetters(tid))
		vpMust(os.MkdirAll(w.dir, 0o755))
		w.tblFile = filepath.Join(w.dir, "tbl.rib")
		w.updFile = filepath.Join(w.dir, "upd.rib")
		vpMust(w.ss.s.mgmtOperation(func() error {
			if err := w.ss.s.mrtManager.enable(&oc.MrtConfig{DumpType: oc.MRT_TYPE_TABLE, FileName: w.tblFile, DumpInterval: 60}); err != nil {
				return err
			}
			return w.ss.s.mrtManager.enable(&oc.MrtConfig{DumpType: oc.MRT_TYPE_UPDATES, FileName: w.updFile, RotationInterval: 3600})
		}, false))
		synctest.Wait()
		tr.Emit(map[string]any{"ev": "Reset", "tid": tid, "peers": b.Peers})
		for _, st := range b.Steps {
			if os.Getenv("VERIF_DEBUG") != "" {
				fmt.Fprintf(os.Stderr, "DBG tid=%d step %+v\n", tid, st)
			}
			w.step(st)
			row := map[string]any{"ev": st.Ev, "obs": w.observe(), "bmp": w.takeBmp(), "upd": w.takeUpdates()}
			if st.Ev == "Dump" {
				row["dumps"] = w.takeTableDumps()
			} else {
				// a dump tick that falls into the waiting of another step (session set-up) is not judged
				w.takeTableDumps()
			}
			if st.P != "" {
				row["p"] = st.P
			}
			if st.X != "" {
				row["x"] = st.X
			}
			if st.Ev == "Ann" || st.Ev == "ApiAdd" {
				row["r"] = st.R
			}
			if st.Pol != "" {
				row["pol"] = st.Pol
			}
			tr.Emit(row)
		}
		w.bmpOff()
		synctest.Wait()
		tr.Emit(map[string]any{"ev": "Settle", "obs": w.observe(), "bmp": w.takeBmp(), "upd": w.takeUpdates()})
		_ = w.ss.s.mgmtOperation(func() error {
			_ = w.ss.s.mrtManager.disable(&oc.MrtConfig{FileName: w.tblFile})
			_ = w.ss.s.mrtManager.disable(&oc.MrtConfig{FileName: w.updFile})
			return nil
		}, false)
		w.ss.stop()
		for _, n := range names {
			w.peers[n].closeConn()
		}
		synctest.Wait()
	})
}

func TestVerifC19Mon(t *testing.T) {
	tr := vpOpenTrace(t)
	defer tr.Close()
	base, err := os.MkdirTemp(filepath.Dir(os.Getenv("VERIF_OUT")), "cnnmrt")
	if err != nil {
		t.Fatal(err)
	}
	defer os.RemoveAll(base)
	// relative paths from here on: the updates dumper passes its file name through time.Format
	rel := "."
	t.Chdir(base)
	tid := 0
	vpReadLines(t, "VERIF_IN", func(line []byte) {
		var b mnBehaviour
		if err := json.Unmarshal(line, &b); err != nil {
			t.Fatalf("bad behaviour: %v", err)
		}
		tid++
		mnRun(t, tr, tid, &b, rel)
	})
}
