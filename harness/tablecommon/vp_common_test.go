// Harness code compiled INTO package table of /repo through `go test -overlay`.
// Common helpers: schedule input, trace output, abstract route <-> *Path projection.
package table

import (
	"bufio"
	"encoding/json"
	"fmt"
	"log/slog"
	"net/netip"
	"os"
	"sort"
	"testing"
	"time"

	"github.com/osrg/gobgp/v4/pkg/packet/bgp"
)

var vpLogger = slog.New(slog.NewTextHandler(os.Stderr, &slog.HandlerOptions{Level: slog.LevelError + 8}))

const vpLocalAS = 65000

// vpReadLines reads the ndjson file named by env var `name` and calls f for every line.
func vpReadLines(t *testing.T, name string, f func(line []byte)) {
	p := os.Getenv(name)
	if p == "" {
		t.Skipf("%s not set", name)
	}
	fh, err := os.Open(p)
	if err != nil {
		t.Fatal(err)
	}
	defer fh.Close()
	sc := bufio.NewScanner(fh)
	sc.Buffer(make([]byte, 1<<20), 1<<28)
	for sc.Scan() {
		b := sc.Bytes()
		if len(b) == 0 {
			continue
		}
		c := make([]byte, len(b))
		copy(c, b)
		f(c)
	}
	if err := sc.Err(); err != nil {
		t.Fatal(err)
	}
}

type vpTrace struct {
	w *bufio.Writer
	f *os.File
	n int
}

func vpOpenTrace(t *testing.T) *vpTrace {
	p := os.Getenv("VERIF_OUT")
	if p == "" {
		t.Skip("VERIF_OUT not set")
	}
	f, err := os.Create(p)
	if err != nil {
		t.Fatal(err)
	}
	return &vpTrace{w: bufio.NewWriterSize(f, 1<<20), f: f}
}

func (tr *vpTrace) Emit(v any) {
	b, err := json.Marshal(v)
	if err != nil {
		panic(err)
	}
	tr.w.Write(b)
	tr.w.WriteByte('\n')
	tr.n++
}

func (tr *vpTrace) Close() {
	tr.w.Flush()
	tr.f.Close()
}

// ---- abstract vocabulary (mirrors spec/BestPathDom.tla) ----

type vpSeg struct {
	T  string   `json:"t"`
	AS []uint32 `json:"as"`
}

type vpRoute struct {
	Src    string  `json:"src"`
	Stale  bool    `json:"stale"`
	NhInv  bool    `json:"nhinv"`
	Lp     int64   `json:"lp"`
	Path   []vpSeg `json:"path"`
	Origin int     `json:"origin"`
	Med    int64   `json:"med"`
	Ts     int64   `json:"ts"`
}

type vpSrcInfo struct {
	Kind string `json:"kind"`
	AS   uint32 `json:"as"`
	Rid  int    `json:"rid"`
	Addr int    `json:"addr"`
}

func vpPeerInfo(si vpSrcInfo) *PeerInfo {
	rid := netip.AddrFrom4([4]byte{0, 0, 0, byte(si.Rid)})
	switch si.Kind {
	case "local":
		return &PeerInfo{AS: vpLocalAS, LocalID: rid}
	case "ebgp":
		return &PeerInfo{AS: si.AS, LocalAS: vpLocalAS, ID: rid, Address: netip.AddrFrom4([4]byte{10, 0, 0, byte(si.Addr)})}
	case "ibgp":
		return &PeerInfo{AS: vpLocalAS, LocalAS: vpLocalAS, ID: rid, Address: netip.AddrFrom4([4]byte{10, 0, 0, byte(si.Addr)})}
	case "confed":
		return &PeerInfo{AS: si.AS, LocalAS: vpLocalAS, ID: rid, Address: netip.AddrFrom4([4]byte{10, 0, 0, byte(si.Addr)}), Confederation: true}
	}
	panic("unknown kind " + si.Kind)
}

func vpSegType(t string) uint8 {
	switch t {
	case "SEQ":
		return bgp.BGP_ASPATH_ATTR_TYPE_SEQ
	case "SET":
		return bgp.BGP_ASPATH_ATTR_TYPE_SET
	case "CSEQ":
		return bgp.BGP_ASPATH_ATTR_TYPE_CONFED_SEQ
	case "CSET":
		return bgp.BGP_ASPATH_ATTR_TYPE_CONFED_SET
	}
	panic("seg type " + t)
}

func vpSegName(t uint8) string {
	switch t {
	case bgp.BGP_ASPATH_ATTR_TYPE_SEQ:
		return "SEQ"
	case bgp.BGP_ASPATH_ATTR_TYPE_SET:
		return "SET"
	case bgp.BGP_ASPATH_ATTR_TYPE_CONFED_SEQ:
		return "CSEQ"
	case bgp.BGP_ASPATH_ATTR_TYPE_CONFED_SET:
		return "CSET"
	}
	return fmt.Sprintf("T%d", t)
}

func vpAsPathAttr(segs []vpSeg) *bgp.PathAttributeAsPath {
	params := make([]bgp.AsPathParamInterface, 0, len(segs))
	for _, s := range segs {
		as := append([]uint32{}, s.AS...)
		params = append(params, bgp.NewAs4PathParam(vpSegType(s.T), as))
	}
	return bgp.NewPathAttributeAsPath(params)
}

func vpPrefix(s string) bgp.NLRI {
	n, err := bgp.NewIPAddrPrefix(netip.MustParsePrefix(s))
	if err != nil {
		panic(err)
	}
	return n
}

// vpBuildPath makes the concrete *Path of an abstract route for prefix pfx.
func vpBuildPath(r vpRoute, src *PeerInfo, pfx string) *Path {
	attrs := []bgp.PathAttributeInterface{
		bgp.NewPathAttributeOrigin(uint8(r.Origin)),
		vpAsPathAttr(r.Path),
	}
	nh, _ := bgp.NewPathAttributeNextHop(netip.MustParseAddr("192.0.2.1"))
	attrs = append(attrs, nh)
	if r.Med >= 0 {
		attrs = append(attrs, bgp.NewPathAttributeMultiExitDisc(uint32(r.Med)))
	}
	if r.Lp >= 0 {
		attrs = append(attrs, bgp.NewPathAttributeLocalPref(uint32(r.Lp)))
	}
	if r.Stale {
		attrs = append(attrs, bgp.NewPathAttributeCommunities([]uint32{uint32(bgp.COMMUNITY_LLGR_STALE)}))
	}
	p := NewPath(bgp.RF_IPv4_UC, src, bgp.PathNLRI{NLRI: vpPrefix(pfx)}, false, attrs, time.Unix(1000+r.Ts, 0), false)
	p.IsNexthopInvalid = r.NhInv
	return p
}

func vpWithdrawPath(src *PeerInfo, pfx string) *Path {
	return NewPath(bgp.RF_IPv4_UC, src, bgp.PathNLRI{NLRI: vpPrefix(pfx)}, true, nil, time.Unix(2000, 0), false)
}

func vpSortedKeys[V any](m map[string]V) []string {
	ks := make([]string, 0, len(m))
	for k := range m {
		ks = append(ks, k)
	}
	sort.Strings(ks)
	return ks
}

type bgp_Family = bgp.Family

var bgpRFv4 = bgp.RF_IPv4_UC
