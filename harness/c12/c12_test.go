package server

// C12 replayer: executes schedules of spec/GrLlgrGen.tla on the REAL BgpServer inside a synctest
// bubble (virtual time) and records, after every step at exact quiescence, the global table
// (presence, stale flag, LLGR_STALE / NO_LLGR communities, order), the restarting neighbour's
// Adj-RIB-In (white box), what every neighbour holds (decoded from the bytes written to its
// connection) and the reported graceful-restart state.  Nothing is asserted here: the traces are
// judged by TLC (spec/trace/GrLlgrTrace.tla).
//
// Neighbours (all eBGP, IPv4 transport, IPv4+IPv6 unicast):
//   R  10.0.0.1 AS 65001  the neighbour that restarts; its OPEN carries the capabilities of the step
//   O1 10.0.0.2 AS 65002  observer, GR + LLGR capability for both families
//   O2 10.0.0.3 AS 65003  observer, no GR / LLGR capability at all
//   S  10.0.0.4 AS 65004  second source (longer AS_PATH), GR capability, no LLGR

import (
	"context"
	"encoding/json"
	"fmt"
	"net/netip"
	"os"
	"sort"
	"testing"
	"testing/synctest"
	"time"

	api "github.com/osrg/gobgp/v4/api"
	"github.com/osrg/gobgp/v4/pkg/apiutil"
	"github.com/osrg/gobgp/v4/pkg/packet/bgp"
)

type grCaps struct {
	GR   bool            `json:"gr"`
	Fams map[string]bool `json:"fams"`
	RT   int             `json:"rt"`
	N    bool            `json:"n"`
	R    bool            `json:"r"`
	Llgr map[string]int  `json:"llgr"` // long-lived stale time per family, 0 = family not listed
	Hold int             `json:"hold"`
}

type grStep struct {
	Ev   string  `json:"ev"`
	P    string  `json:"p,omitempty"`
	X    string  `json:"x,omitempty"`
	F    string  `json:"f,omitempty"`
	Kind string  `json:"kind,omitempty"`
	To   string  `json:"to,omitempty"`
	C    int     `json:"c"`
	D    int     `json:"d"`
	Off  int     `json:"off"`
	Caps *grCaps `json:"caps,omitempty"`
}

type grCfg struct {
	GR       bool `json:"gr"`       // local: graceful restart enabled towards R
	Notif    bool `json:"notif"`    // local: notification support (N bit) enabled towards R
	Llgr     bool `json:"llgr"`     // local: long-lived GR enabled towards R
	RtLocal  int  `json:"rtlocal"`  // local restart time (advertised; must NOT drive the helper timer)
	Deferral int  `json:"deferral"` // deferral time, used when Restarting
	Restart  bool `json:"restart"`  // the speaker under test is the restarting speaker
}

type grBehaviour struct {
	Cfg   grCfg    `json:"cfg"`
	Steps []grStep `json:"steps"`
}

var grPrefixes = map[string]string{"x1": "10.1.0.0/24", "x2": "10.2.0.0/24", "y1": "2001:db8:1::/48", "y2": "2001:db8:2::/48"}
var grOverflow = []string{"10.9.1.0/24", "10.9.2.0/24", "10.9.3.0/24"}
var grFamOf = map[string]string{"x1": "v4", "x2": "v4", "y1": "v6", "y2": "v6"}
var grFam = map[string]bgp.Family{"v4": bgp.RF_IPv4_UC, "v6": bgp.RF_IPv6_UC}
var grNames = []string{"O1", "O2", "R", "S"}
var grIdx = map[string]int{"R": 0, "O1": 1, "O2": 2, "S": 3}

const grPfxMax = 2 // per family; the pool has two prefixes per family, the overflow UPDATE carries three more

func grAddr(n string) string { return fmt.Sprintf("10.0.0.%d", grIdx[n]+1) }
func grAS(n string) uint32   { return uint32(65001 + grIdx[n]) }

type grWorld struct {
	t        *testing.T
	ss       *simServer
	b        *grBehaviour
	peers    map[string]*simPeer
	srvPeers map[string]*peer
	views    map[string]map[string]map[string]any
	hold     map[string]int     // negotiated hold time of the current session (0 = none)
	lastKA   map[string]float64 // virtual second of the last keepalive sent by the neighbour
	silent   map[string]bool
	disabled map[string]bool
	caps     map[string]*grCaps
	upAt     map[string]float64
	lossAt   float64 // R: instant of the last loss
	lossRT   int     // R: restart time in force at the last loss
	lossLlgr map[string]int
	isUp     map[string]bool   // the harness drove the session to Established and has not ended it
	lastNotif map[string]string // code/subcode of the last NOTIFICATION the neighbour received
}

func (w *grWorld) nowMs() int64 { return int64(w.ss.now()*1000 + 0.5) }

func grPrefixName(s string) string {
	for k, v := range grPrefixes {
		if v == s {
			return k
		}
	}
	return "other:" + s
}

func grNLRI(x string) bgp.NLRI {
	s, ok := grPrefixes[x]
	if !ok {
		s = x
	}
	pfx := netip.MustParsePrefix(s)
	n, err := bgp.NewIPAddrPrefix(pfx)
	vpMust(err)
	return n
}

func grIsV6(x string) bool { return grFamOf[x] == "v6" }

// announcement of prefix x by neighbour name, variant c:
//   0 plain, 1 carries NO_LLGR, 2 plain with MED 10 (a distinguishable re-announcement),
//   3 already carries LLGR_STALE (marked by somebody upstream)
func (w *grWorld) annMsg(name string, xs []string, c int) *bgp.BGPMessage {
	aspath := []uint32{grAS(name)}
	if name == "S" {
		aspath = append(aspath, 64900)
	}
	comms := []uint32{uint32(65000<<16 | (100*(grIdx[name]+1) + c))}
	if c == 1 {
		comms = append(comms, uint32(bgp.COMMUNITY_NO_LLGR))
	}
	if c == 3 {
		comms = append(comms, uint32(bgp.COMMUNITY_LLGR_STALE))
	}
	attrs := []bgp.PathAttributeInterface{
		bgp.NewPathAttributeOrigin(0),
		bgp.NewPathAttributeAsPath([]bgp.AsPathParamInterface{bgp.NewAs4PathParam(bgp.BGP_ASPATH_ATTR_TYPE_SEQ, aspath)}),
	}
	if c == 2 {
		attrs = append(attrs, bgp.NewPathAttributeMultiExitDisc(10))
	}
	attrs = append(attrs, bgp.NewPathAttributeCommunities(comms))
	nl := []bgp.PathNLRI{}
	for _, x := range xs {
		nl = append(nl, bgp.PathNLRI{NLRI: grNLRI(x)})
	}
	if grIsV6(xs[0]) {
		nh := netip.MustParseAddr(fmt.Sprintf("2001:db8:ffff::%d", grIdx[name]+1))
		mp, err := bgp.NewPathAttributeMpReachNLRI(bgp.RF_IPv6_UC, nl, nh)
		vpMust(err)
		attrs = append(attrs, mp)
		return bgp.NewBGPUpdateMessage(nil, attrs, nil)
	}
	nh, _ := bgp.NewPathAttributeNextHop(netip.MustParseAddr(grAddr(name)))
	attrs = append(attrs, nh)
	return bgp.NewBGPUpdateMessage(nil, attrs, nl)
}

func (w *grWorld) wdMsg(x string) *bgp.BGPMessage {
	nl := []bgp.PathNLRI{{NLRI: grNLRI(x)}}
	if grIsV6(x) {
		mp, err := bgp.NewPathAttributeMpUnreachNLRI(bgp.RF_IPv6_UC, nl)
		vpMust(err)
		return bgp.NewBGPUpdateMessage(nil, []bgp.PathAttributeInterface{mp}, nil)
	}
	return bgp.NewBGPUpdateMessage(nl, nil, nil)
}

// project: communities -> (source, variant, LLGR_STALE present, NO_LLGR present)
func grProject(attrs []bgp.PathAttributeInterface) map[string]any {
	o := map[string]any{"src": "unknown", "c": -1, "llgr": false, "nollgr": false}
	for _, a := range attrs {
		if t, ok := a.(*bgp.PathAttributeCommunities); ok {
			for _, c := range t.Value {
				switch {
				case c == uint32(bgp.COMMUNITY_LLGR_STALE):
					o["llgr"] = true
				case c == uint32(bgp.COMMUNITY_NO_LLGR):
					o["nollgr"] = true
				case c>>16 == 65000:
					v := int(c & 0xffff)
					o["c"] = v % 100
					o["src"] = "unknown"
					for n, i := range grIdx {
						if i+1 == v/100 {
							o["src"] = n
						}
					}
				}
			}
		}
	}
	return o
}

func (w *grWorld) fold(name string) {
	p := w.peers[name]
	view := w.views[name]
	cur := p.curSession()
	for _, m := range p.take() {
		if m.Msg != nil && m.Msg.Header.Type == bgp.BGP_MSG_NOTIFICATION && m.Sess == cur {
			n := m.Msg.Body.(*bgp.BGPNotification)
			w.lastNotif[name] = fmt.Sprintf("%d/%d", n.ErrorCode, n.ErrorSubcode)
		}
		if m.Msg == nil || m.Msg.Header.Type != bgp.BGP_MSG_UPDATE || m.Sess != cur {
			continue
		}
		u := m.Msg.Body.(*bgp.BGPUpdate)
		for _, wd := range u.WithdrawnRoutes {
			delete(view, grPrefixName(wd.NLRI.String()))
		}
		pr := grProject(u.PathAttributes)
		for _, a := range u.PathAttributes {
			switch t := a.(type) {
			case *bgp.PathAttributeMpUnreachNLRI:
				for _, n := range t.Value {
					delete(view, grPrefixName(n.NLRI.String()))
				}
			case *bgp.PathAttributeMpReachNLRI:
				for _, n := range t.Value {
					view[grPrefixName(n.NLRI.String())] = map[string]any{"src": pr["src"], "c": pr["c"], "llgr": pr["llgr"]}
				}
			}
		}
		for _, n := range u.NLRI {
			view[grPrefixName(n.NLRI.String())] = map[string]any{"src": pr["src"], "c": pr["c"], "llgr": pr["llgr"]}
		}
	}
}

func (w *grWorld) observe() map[string]any {
	extra := map[string]bool{}
	sess := map[string]string{}
	views := map[string]any{}
	for _, name := range grNames {
		sp := w.peers[name]
		st, _, _ := w.ss.peerState(sp.addr.String())
		if st == api.PeerState_SESSION_STATE_ESTABLISHED {
			sess[name] = "up"
		} else {
			sess[name] = "down"
		}
		w.fold(name)
		v := map[string]any{}
		for x := range grPrefixes {
			v[x] = map[string]any{"src": "none"}
		}
		for k, r := range w.views[name] {
			if _, ok := grPrefixes[k]; !ok {
				extra[name+":"+k] = true
				continue
			}
			v[k] = r
		}
		views[name] = v
	}
	// R's Adj-RIB-In, white box
	adjin := map[string]any{}
	for x := range grPrefixes {
		adjin[x] = map[string]any{"src": "none"}
	}
	if sp := w.srvPeers["R"]; sp != nil {
		for _, path := range sp.adjRibIn.PathList([]bgp.Family{bgp.RF_IPv4_UC, bgp.RF_IPv6_UC}, false) {
			pr := grProject(path.GetPathAttrs())
			k := grPrefixName(path.GetNlri().String())
			if _, ok := grPrefixes[k]; !ok {
				extra["adjin:"+k] = true
				continue
			}
			adjin[k] = map[string]any{"src": pr["src"], "c": pr["c"], "llgr": pr["llgr"], "stale": path.IsStale()}
		}
	}
	rib := map[string]any{}
	for x := range grPrefixes {
		rib[x] = []any{}
	}
	for _, f := range []bgp.Family{bgp.RF_IPv4_UC, bgp.RF_IPv6_UC} {
		_ = w.ss.s.ListPath(apiutil.ListPathRequest{TableType: api.TableType_TABLE_TYPE_GLOBAL, Family: f}, func(prefix bgp.NLRI, paths []*apiutil.Path) {
			l := []any{}
			for _, p := range paths {
				pr := grProject(p.Attrs)
				l = append(l, map[string]any{"src": pr["src"], "c": pr["c"], "llgr": pr["llgr"], "stale": p.Stale, "best": p.Best})
			}
			k := grPrefixName(prefix.String())
			if _, ok := grPrefixes[k]; !ok {
				extra["rib:"+k] = true
				return
			}
			rib[k] = l
		})
	}
	gr := map[string]any{}
	if _, _, pr := w.ss.peerState(grAddr("R")); pr != nil && pr.GracefulRestart != nil {
		gr["restarting"] = pr.GracefulRestart.PeerRestarting
		gr["prt"] = int(pr.GracefulRestart.PeerRestartTime)
		gr["local"] = pr.GracefulRestart.LocalRestarting
	}
	ex := []string{}
	for k := range extra {
		ex = append(ex, k)
	}
	sort.Strings(ex)
	return map[string]any{"sess": sess, "views": views, "adjin": adjin, "rib": rib, "gr": gr, "extra": ex}
}

func grApiFamily(f bgp.Family) *api.Family {
	return apiutil.ToApiFamily(f.Afi(), f.Safi())
}

func (w *grWorld) addPeer(name string) {
	c := w.b.Cfg
	gr := &api.GracefulRestart{}
	afs := []*api.AfiSafi{}
	for _, f := range []bgp.Family{bgp.RF_IPv4_UC, bgp.RF_IPv6_UC} {
		af := &api.AfiSafi{Config: &api.AfiSafiConfig{Family: grApiFamily(f), Enabled: true}}
		switch name {
		case "R":
			if c.GR {
				af.MpGracefulRestart = &api.MpGracefulRestart{Config: &api.MpGracefulRestartConfig{Enabled: true}}
			}
			if c.GR && c.Llgr {
				af.LongLivedGracefulRestart = &api.LongLivedGracefulRestart{Config: &api.LongLivedGracefulRestartConfig{Enabled: true, RestartTime: 4000}}
			}
			af.PrefixLimits = &api.PrefixLimit{Family: grApiFamily(f), MaxPrefixes: grPfxMax}
		case "O1":
			af.MpGracefulRestart = &api.MpGracefulRestart{Config: &api.MpGracefulRestartConfig{Enabled: true}}
			af.LongLivedGracefulRestart = &api.LongLivedGracefulRestart{Config: &api.LongLivedGracefulRestartConfig{Enabled: true, RestartTime: 4000}}
		case "S":
			af.MpGracefulRestart = &api.MpGracefulRestart{Config: &api.MpGracefulRestartConfig{Enabled: true}}
		}
		afs = append(afs, af)
	}
	switch name {
	case "R":
		gr = &api.GracefulRestart{Enabled: c.GR, RestartTime: uint32(c.RtLocal), NotificationEnabled: c.GR && c.Notif, LonglivedEnabled: c.GR && c.Llgr}
	case "O1":
		gr = &api.GracefulRestart{Enabled: true, RestartTime: 150, LonglivedEnabled: true}
	case "S":
		gr = &api.GracefulRestart{Enabled: true, RestartTime: 150}
	}
	if c.Restart {
		// the speaker under test is restarting: every neighbour is flagged (the API knob is per neighbour)
		gr.LocalRestarting = true
		gr.DeferralTime = uint32(c.Deferral)
	}
	p := &api.Peer{
		Conf:            &api.PeerConf{NeighborAddress: grAddr(name), PeerAsn: grAS(name)},
		Transport:       &api.Transport{PassiveMode: true},
		Timers:          &api.Timers{Config: &api.TimersConfig{HoldTime: 9, KeepaliveInterval: 3, IdleHoldTimeAfterReset: 5}},
		GracefulRestart: gr,
		AfiSafis:        afs,
	}
	vpMust(w.ss.s.AddPeer(context.Background(), &api.AddPeerRequest{Peer: p}))
	vpMust(w.ss.s.mgmtOperation(func() error {
		w.srvPeers[name] = w.ss.s.neighborMap[netip.MustParseAddr(grAddr(name))]
		return nil
	}, false))
	idx := grIdx[name] + 1
	w.peers[name] = newSimPeer(w.ss, name, grAddr(name), grAS(name), fmt.Sprintf("%d.%d.%d.%d", idx, idx, idx, idx))
	w.views[name] = map[string]map[string]any{}
}

func grFixedCaps(name string) *grCaps {
	switch name {
	case "O1":
		return &grCaps{GR: true, Fams: map[string]bool{"v4": true, "v6": true}, RT: 90, Llgr: map[string]int{"v4": 1000, "v6": 1000}}
	case "S":
		return &grCaps{GR: true, Fams: map[string]bool{"v4": true, "v6": true}, RT: 90, Llgr: map[string]int{}}
	}
	return &grCaps{Fams: map[string]bool{}, Llgr: map[string]int{}}
}

func (w *grWorld) openFor(name string, c *grCaps) *bgp.BGPMessage {
	sp := w.peers[name]
	caps := []bgp.ParameterCapabilityInterface{bgp.NewCapRouteRefresh(), bgp.NewCapFourOctetASNumber(sp.as),
		bgp.NewCapMultiProtocol(bgp.RF_IPv4_UC), bgp.NewCapMultiProtocol(bgp.RF_IPv6_UC)}
	if c.GR {
		tuples := []*bgp.CapGracefulRestartTuple{}
		for _, f := range []string{"v4", "v6"} {
			if c.Fams[f] {
				tuples = append(tuples, bgp.NewCapGracefulRestartTuple(grFam[f], true)) // forwarding state preserved
			}
		}
		caps = append(caps, bgp.NewCapGracefulRestart(c.R, c.N, uint16(c.RT), tuples))
	}
	lt := []*bgp.CapLongLivedGracefulRestartTuple{}
	for _, f := range []string{"v4", "v6"} {
		if c.Llgr[f] > 0 {
			lt = append(lt, bgp.NewCapLongLivedGracefulRestartTuple(grFam[f], true, uint32(c.Llgr[f])))
		}
	}
	if len(lt) > 0 {
		caps = append(caps, bgp.NewCapLongLivedGracefulRestart(lt))
	}
	return sp.openWith(uint16(c.Hold), caps)
}

// advance moves virtual time by d seconds in steps of one second; neighbours with a negotiated
// hold time keep their session alive with a KEEPALIVE every 3 s unless they are silent.
func (w *grWorld) advance(d int) {
	for i := 0; i < d; i++ {
		time.Sleep(time.Second)
		synctest.Wait()
		now := w.ss.now()
		for _, n := range grNames {
			if w.hold[n] > 0 && !w.silent[n] && now-w.lastKA[n] >= 2.999 && !w.peers[n].isEOF() {
				_ = w.peers[n].send(bgp.NewBGPKeepAliveMessage())
				w.lastKA[n] = now
			}
		}
		synctest.Wait()
	}
}

func (w *grWorld) waitActive(name string) bool {
	sp := w.peers[name]
	if _, ad, _ := w.ss.peerState(sp.addr.String()); w.disabled[name] || ad != api.PeerState_ADMIN_STATE_UP {
		_ = w.ss.s.EnablePeer(context.Background(), &api.EnablePeerRequest{Address: sp.addr.String()})
		w.disabled[name] = false
		synctest.Wait()
	}
	for i := 0; i < 60; i++ {
		st, ad, _ := w.ss.peerState(sp.addr.String())
		if os.Getenv("VERIF_DEBUG") != "" {
			fmt.Fprintf(os.Stderr, "DBG   waitActive %s t=%.3f state=%v admin=%v\n", name, w.ss.now(), st, ad)
		}
		if st == api.PeerState_SESSION_STATE_ACTIVE {
			return true
		}
		w.advance(1)
	}
	return false
}

func (w *grWorld) sessionUp(name string, c *grCaps) bool {
	sp := w.peers[name]
	w.waitActive(name)
	w.views[name] = map[string]map[string]any{}
	sp.take()
	w.lastNotif[name] = ""
	sp.connect()
	synctest.Wait()
	if err := sp.send(w.openFor(name, c)); err != nil {
		return false
	}
	synctest.Wait()
	sp.setOptions(&bgp.MarshallingOption{}, &bgp.MarshallingOption{})
	if err := sp.send(bgp.NewBGPKeepAliveMessage()); err != nil {
		return false
	}
	synctest.Wait()
	w.isUp[name] = true
	w.caps[name] = c
	w.hold[name] = c.Hold
	if c.Hold > 9 {
		w.hold[name] = 9
	}
	w.lastKA[name] = w.ss.now()
	w.silent[name] = false
	w.upAt[name] = w.ss.now()
	return true
}

// noteLoss records the instant and the capabilities in force when R's session ended.
func (w *grWorld) noteLoss(name string, at float64) {
	w.isUp[name] = false
	w.hold[name] = 0
	if name == "R" {
		c := w.caps["R"]
		w.lossAt = at
		w.lossRT = c.RT
		w.lossLlgr = map[string]int{"v4": c.Llgr["v4"], "v6": c.Llgr["v6"]}
	}
}

// spontaneous reports a session of R that the SPEAKER ended although the schedule did not ask for it
// (the kind is read off the NOTIFICATION R was sent); "" if R's session is as the harness left it.
func (w *grWorld) spontaneous() string {
	sp := w.peers["R"]
	if !w.isUp["R"] || !sp.isEOF() {
		return ""
	}
	w.fold("R")
	kind := "unexpected:" + w.lastNotif["R"]
	switch w.lastNotif["R"] {
	case "6/1":
		kind = "pfxlimit"
		w.disabled["R"] = true
	case "4/0":
		kind = "hold"
	}
	sp.mu.Lock()
	at := sp.eofAt
	sp.mu.Unlock()
	w.noteLoss("R", at)
	return kind
}

// deadline (virtual seconds) named by a TickTo step; -1 if it does not exist
func (w *grWorld) deadline(to string) float64 {
	switch to {
	case "restart":
		if w.lossAt < 0 {
			return -1
		}
		return w.lossAt + float64(w.lossRT)
	case "llgr4", "llgr6":
		f := "v4"
		if to == "llgr6" {
			f = "v6"
		}
		if w.lossAt < 0 || w.lossLlgr[f] <= 0 {
			return -1
		}
		return w.lossAt + float64(w.lossRT) + float64(w.lossLlgr[f])
	case "deferO1", "deferO2", "deferR", "deferS":
		n := to[5:]
		if t, ok := w.upAt[n]; ok {
			return t + float64(w.b.Cfg.Deferral)
		}
		return -1
	}
	return -1
}

// step executes one schedule step and returns the trace row (without observation) or nil if the
// step is not applicable in the current state of the world (it is then left out of the trace).
func (w *grWorld) step(st grStep) map[string]any {
	row := map[string]any{"ev": st.Ev}
	if st.P != "" {
		row["p"] = st.P
	}
	switch st.Ev {
	case "Up":
		c := st.Caps
		if c == nil {
			c = grFixedCaps(st.P)
		}
		if c.Fams == nil {
			c.Fams = map[string]bool{}
		}
		if c.Llgr == nil {
			c.Llgr = map[string]int{}
		}
		for _, f := range []string{"v4", "v6"} {
			if _, ok := c.Fams[f]; !ok {
				c.Fams[f] = false
			}
			if _, ok := c.Llgr[f]; !ok {
				c.Llgr[f] = 0
			}
		}
		if !w.peers[st.P].isEOF() && w.peers[st.P].curSession() > 0 {
			if s, _, _ := w.ss.peerState(grAddr(st.P)); s == api.PeerState_SESSION_STATE_ESTABLISHED {
				return nil
			}
		}
		if !w.sessionUp(st.P, c) {
			row["ev"] = "UpFailed"
			return row
		}
		row["caps"] = c
	case "FailConn":
		// a connection attempt that does not reach Established: TCP up, OPEN sent, then dropped
		sp := w.peers[st.P]
		if s, _, _ := w.ss.peerState(grAddr(st.P)); s == api.PeerState_SESSION_STATE_ESTABLISHED {
			return nil
		}
		w.waitActive(st.P)
		sp.take()
		sp.connect()
		synctest.Wait()
		if st.Kind == "open" {
			c := w.caps[st.P]
			if c == nil {
				c = grFixedCaps(st.P)
			}
			_ = sp.send(w.openFor(st.P, c))
			synctest.Wait()
		}
		sp.closeConn()
		row["kind"] = st.Kind
	case "Ann":
		if !w.isUp[st.P] {
			return nil
		}
		sp := w.peers[st.P]
		_ = sp.send(w.annMsg(st.P, []string{st.X}, st.C))
		row["x"] = st.X
		row["c"] = st.C
		row["f"] = grFamOf[st.X]
	case "Wd":
		if !w.isUp[st.P] {
			return nil
		}
		_ = w.peers[st.P].send(w.wdMsg(st.X))
		row["x"] = st.X
		row["f"] = grFamOf[st.X]
	case "Eor":
		if !w.isUp[st.P] {
			return nil
		}
		_ = w.peers[st.P].send(bgp.NewEndOfRib(grFam[st.F]))
		row["f"] = st.F
	case "Loss":
		sp := w.peers[st.P]
		addr := sp.addr.String()
		row["kind"] = st.Kind
		if s, _, _ := w.ss.peerState(addr); s != api.PeerState_SESSION_STATE_ESTABLISHED {
			return nil
		}
		switch st.Kind {
		case "close":
			sp.closeConn()
		case "hold":
			if w.hold[st.P] == 0 {
				return nil
			}
			w.silent[st.P] = true
			for i := 0; i < 12 && !sp.isEOF(); i++ {
				w.advance(1)
			}
			sp.closeConn()
		case "notif":
			_ = sp.send(bgp.NewBGPNotificationMessage(bgp.BGP_ERROR_CEASE, bgp.BGP_ERROR_SUB_OTHER_CONFIGURATION_CHANGE, nil))
			synctest.Wait()
			sp.closeConn()
		case "hardreset":
			_ = sp.send(bgp.NewBGPNotificationMessage(bgp.BGP_ERROR_CEASE, bgp.BGP_ERROR_SUB_HARD_RESET, nil))
			synctest.Wait()
			sp.closeConn()
		case "shutdown":
			_ = w.ss.s.ShutdownPeer(context.Background(), &api.ShutdownPeerRequest{Address: addr})
			synctest.Wait()
			sp.closeConn()
		case "reset":
			_ = w.ss.s.ResetPeer(context.Background(), &api.ResetPeerRequest{Address: addr})
			synctest.Wait()
			sp.closeConn()
		case "disable":
			_ = w.ss.s.DisablePeer(context.Background(), &api.DisablePeerRequest{Address: addr})
			w.disabled[st.P] = true
			synctest.Wait()
			sp.closeConn()
		case "pfxlimit":
			_ = sp.send(w.annMsg(st.P, grOverflow, 0))
			synctest.Wait()
			sp.closeConn()
			w.disabled[st.P] = true // the peer is left in admin state PFX_CT; Up re-enables it
		default:
			w.t.Fatalf("unknown loss kind %q", st.Kind)
		}
		at := w.ss.now()
		if st.Kind == "hold" {
			sp.mu.Lock()
			at = sp.eofAt
			sp.mu.Unlock()
		}
		w.noteLoss(st.P, at)
	case "Tick":
		w.advance(st.D)
		row["d"] = st.D
	case "TickTo":
		dl := w.deadline(st.To)
		if dl < 0 {
			return nil
		}
		target := dl + float64(st.Off)
		d := int(target - w.ss.now() + 0.0005)
		if d <= 0 {
			return nil
		}
		w.advance(d)
		row["ev"] = "Tick"
		row["d"] = d
	default:
		w.t.Fatalf("unknown step %q", st.Ev)
	}
	synctest.Wait()
	return row
}

func grRun(t *testing.T, tr *vpTrace, tid int, b *grBehaviour) {
	synctest.Test(t, func(t *testing.T) {
		w := &grWorld{t: t, b: b, peers: map[string]*simPeer{}, srvPeers: map[string]*peer{}, views: map[string]map[string]map[string]any{},
			hold: map[string]int{}, lastKA: map[string]float64{}, silent: map[string]bool{}, disabled: map[string]bool{},
			caps: map[string]*grCaps{}, upAt: map[string]float64{}, lossAt: -1, lossLlgr: map[string]int{},
			isUp: map[string]bool{}, lastNotif: map[string]string{}}
		w.ss = newSimServer(t, &api.Global{Asn: simLocalAS})
		for _, n := range grNames {
			w.addPeer(n)
		}
		synctest.Wait()
		tr.Emit(map[string]any{"ev": "Reset", "tid": tid, "cfg": b.Cfg, "t": w.nowMs()})
		for _, st := range b.Steps {
			if os.Getenv("VERIF_DEBUG") != "" {
				fmt.Fprintf(os.Stderr, "DBG tid=%d t=%.3f step %+v\n", tid, w.ss.now(), st)
			}
			row := w.step(st)
			if row == nil {
				continue
			}
			if st.Ev == "Up" {
				row["t"] = int64(w.upAt[st.P]*1000 + 0.5)
			} else if st.Ev == "Loss" && st.P == "R" {
				row["t"] = int64(w.lossAt*1000 + 0.5)
			} else {
				row["t"] = w.nowMs()
			}
			if st.Ev != "Loss" || st.P != "R" {
				if kind := w.spontaneous(); kind != "" {
					// the step made the speaker end R's session: the step is logged without observation,
					// followed by the loss the speaker decided
					tr.Emit(row)
					row = map[string]any{"ev": "Loss", "p": "R", "kind": kind, "auto": true, "t": int64(w.lossAt*1000 + 0.5)}
				}
			}
			row["obs"] = w.observe()
			tr.Emit(row)
		}
		w.ss.stop()
		for _, n := range grNames {
			w.peers[n].closeConn()
		}
		synctest.Wait()
	})
}

func TestVerifC12(t *testing.T) {
	tr := vpOpenTrace(t)
	defer tr.Close()
	tid := 0
	vpReadLines(t, "VERIF_IN", func(line []byte) {
		var b grBehaviour
		if err := json.Unmarshal(line, &b); err != nil {
			t.Fatalf("bad behaviour: %v", err)
		}
		tid++
		grRun(t, tr, tid, &b)
	})
}
