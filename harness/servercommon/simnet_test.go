// Harness code compiled INTO package server of /repo through `go test -overlay`.
// simnet: in-memory "TCP" (net.Pipe wrapped to look like TCP) + scripted BGP neighbours, meant
// to run inside a testing/synctest bubble so that the real BgpServer runs in virtual time.
package server

import (
	"bufio"
	"context"
	"encoding/binary"
	"encoding/json"
	"errors"
	"fmt"
	"io"
	"net"
	"net/netip"
	"os"
	"sort"
	"sync"
	"syscall"
	"testing"
	"time"

	api "github.com/osrg/gobgp/v4/api"
	"github.com/osrg/gobgp/v4/pkg/packet/bgp"
)

// ---------------------------------------------------------------------------------------
// schedule input / trace output

func vpReadLines(t *testing.T, name string, f func(line []byte)) {
	p := os.Getenv(name)
	if p == "" {
		t.Skipf("%s not set", name)
	}
	fh, err := os.Open(p)
	if err != nil {
		t.Fatal(err)
	}
	defer fh.Close()
	sc := bufio.NewScanner(fh)
	sc.Buffer(make([]byte, 1<<20), 1<<28)
	for sc.Scan() {
		b := sc.Bytes()
		if len(b) == 0 {
			continue
		}
		c := make([]byte, len(b))
		copy(c, b)
		f(c)
	}
	if err := sc.Err(); err != nil {
		t.Fatal(err)
	}
}

type vpTrace struct {
	mu sync.Mutex
	w  *bufio.Writer
	f  *os.File
}

func vpOpenTrace(t *testing.T) *vpTrace {
	p := os.Getenv("VERIF_OUT")
	if p == "" {
		t.Skip("VERIF_OUT not set")
	}
	f, err := os.Create(p)
	if err != nil {
		t.Fatal(err)
	}
	return &vpTrace{w: bufio.NewWriterSize(f, 1<<20), f: f}
}

func (tr *vpTrace) Emit(v any) {
	b, err := json.Marshal(v)
	if err != nil {
		panic(err)
	}
	tr.mu.Lock()
	tr.w.Write(b)
	tr.w.WriteByte('\n')
	tr.mu.Unlock()
}

func (tr *vpTrace) Flush() {
	tr.mu.Lock()
	tr.w.Flush()
	tr.mu.Unlock()
}

func (tr *vpTrace) Close() {
	tr.w.Flush()
	tr.f.Close()
}

// ---------------------------------------------------------------------------------------
// fake TCP

type fakeConn struct {
	net.Conn
	local, remote *net.TCPAddr
	closeOnce     sync.Once
	closed        chan struct{}
	// net.Pipe serialises writers with a sync.Mutex held for the whole (possibly blocked) Write; a
	// mutex wait is not "durably blocked" for synctest, so a second writer (e.g. a NOTIFICATION
	// while the UPDATE sender is blocked on a neighbour that does not read) would freeze virtual
	// time. Writers are serialised here with a channel instead, honouring the write deadline.
	wsem chan struct{}
	dmu  sync.Mutex
	wdl  time.Time
}

func (c *fakeConn) SetWriteDeadline(t time.Time) error {
	c.dmu.Lock()
	c.wdl = t
	c.dmu.Unlock()
	return c.Conn.SetWriteDeadline(t)
}

func (c *fakeConn) SetDeadline(t time.Time) error {
	c.dmu.Lock()
	c.wdl = t
	c.dmu.Unlock()
	return c.Conn.SetDeadline(t)
}

func (c *fakeConn) Write(b []byte) (int, error) {
	c.dmu.Lock()
	d := c.wdl
	c.dmu.Unlock()
	var expired <-chan time.Time
	if !d.IsZero() {
		t := time.NewTimer(time.Until(d))
		defer t.Stop()
		expired = t.C
	}
	select {
	case c.wsem <- struct{}{}:
	case <-expired:
		return 0, os.ErrDeadlineExceeded
	case <-c.closed:
		return 0, io.ErrClosedPipe
	}
	defer func() { <-c.wsem }()
	return c.Conn.Write(b)
}

func (c *fakeConn) LocalAddr() net.Addr  { return c.local }
func (c *fakeConn) RemoteAddr() net.Addr { return c.remote }
func (c *fakeConn) SyscallConn() (syscall.RawConn, error) {
	return nil, errors.New("simnet: no raw conn")
}
func (c *fakeConn) Close() error {
	c.closeOnce.Do(func() { close(c.closed) })
	return c.Conn.Close()
}

var _ syscall.Conn = (*fakeConn)(nil)

// vpPipe returns the two ends of an in-memory connection between the speaker under test
// (address srvAddr) and a neighbour (address peerAddr). srvPort/peerPort only decorate addresses.
func vpPipe(srvAddr, peerAddr netip.Addr, srvPort, peerPort int) (srv *fakeConn, peer *fakeConn) {
	a, b := net.Pipe()
	sa := &net.TCPAddr{IP: srvAddr.AsSlice(), Port: srvPort}
	pa := &net.TCPAddr{IP: peerAddr.AsSlice(), Port: peerPort}
	return &fakeConn{Conn: a, local: sa, remote: pa, closed: make(chan struct{}), wsem: make(chan struct{}, 1)},
		&fakeConn{Conn: b, local: pa, remote: sa, closed: make(chan struct{}), wsem: make(chan struct{}, 1)}
}

// ---------------------------------------------------------------------------------------
// the speaker under test

type simServer struct {
	t      *testing.T
	s      *BgpServer
	addr   netip.Addr
	accept chan net.Conn
	t0     time.Time
}

const simLocalAS = 65000

func newSimServer(t *testing.T, g *api.Global) *simServer {
	s := NewBgpServer()
	go s.Serve()
	if g == nil {
		g = &api.Global{}
	}
	if g.Asn == 0 {
		g.Asn = simLocalAS
	}
	if g.RouterId == "" {
		g.RouterId = "10.0.0.100"
	}
	g.ListenPort = -1
	if err := s.StartBgp(context.Background(), &api.StartBgpRequest{Global: g}); err != nil {
		t.Fatalf("StartBgp: %v", err)
	}
	ss := &simServer{t: t, s: s, addr: netip.MustParseAddr("10.0.0.100"), accept: make(chan net.Conn, 32), t0: time.Now()}
	// install the accept channel from inside the management loop (no harness-made race)
	if err := s.mgmtOperation(func() error { s.acceptCh = ss.accept; return nil }, false); err != nil {
		t.Fatalf("install acceptCh: %v", err)
	}
	return ss
}

// now returns virtual seconds since the server was created.
func (ss *simServer) now() float64 {
	return float64(time.Since(ss.t0)) / float64(time.Second)
}

func (ss *simServer) stop() {
	ss.s.Stop()
}

func (ss *simServer) peerState(addr string) (api.PeerState_SessionState, api.PeerState_AdminState, *api.Peer) {
	var st api.PeerState_SessionState = api.PeerState_SESSION_STATE_UNSPECIFIED
	var ad api.PeerState_AdminState
	var peer *api.Peer
	_ = ss.s.ListPeer(context.Background(), &api.ListPeerRequest{Address: addr, EnableAdvertised: true}, func(p *api.Peer) {
		if p.State != nil {
			st = p.State.SessionState
			ad = p.State.AdminState
		}
		peer = p
	})
	return st, ad, peer
}

// ---------------------------------------------------------------------------------------
// scripted neighbour

type simMsg struct {
	T    float64         // virtual seconds
	Msg  *bgp.BGPMessage // nil if undecodable
	Raw  []byte
	Err  string
	Type uint8
	Sess int // transport session (connection) number of the neighbour this message arrived on
}

type simPeer struct {
	ss         *simServer
	name       string
	addr       netip.Addr
	as         uint32
	rid        netip.Addr
	mu         sync.Mutex
	conn       *fakeConn
	opts       []*bgp.MarshallingOption // how to parse what we are sent
	sopts      []*bgp.MarshallingOption // how to serialise what we send
	log        []simMsg
	gate       chan struct{} // reader takes one token per message while stalled
	stalled    bool
	eof        bool
	eofAt      float64
	readerDone chan struct{}
	session    int
}

func newSimPeer(ss *simServer, name string, addr string, as uint32, rid string) *simPeer {
	return &simPeer{ss: ss, name: name, addr: netip.MustParseAddr(addr), as: as, rid: netip.MustParseAddr(rid)}
}

// connect creates a new transport connection to the speaker (passive side of the speaker) and
// starts the reader goroutine. Returns immediately; the caller decides when to synctest.Wait().
func (p *simPeer) connect() {
	srv, peer := vpPipe(p.ss.addr, p.addr, 179, 40000+p.session)
	p.attach(peer)
	p.ss.accept <- srv
}

func (p *simPeer) attach(c *fakeConn) {
	p.mu.Lock()
	p.conn = c
	p.eof = false
	p.stalled = false
	p.session++
	p.gate = make(chan struct{}, 1024)
	p.readerDone = make(chan struct{})
	p.opts = nil
	p.sopts = nil
	p.mu.Unlock()
	go p.reader(c, p.gate, p.readerDone, p.session)
}

func (p *simPeer) setOptions(recv, send *bgp.MarshallingOption) {
	p.mu.Lock()
	if recv != nil {
		p.opts = []*bgp.MarshallingOption{recv}
	}
	if send != nil {
		p.sopts = []*bgp.MarshallingOption{send}
	}
	p.mu.Unlock()
}

func (p *simPeer) reader(c *fakeConn, gate chan struct{}, done chan struct{}, sess int) {
	defer close(done)
	for {
		p.mu.Lock()
		st := p.stalled
		p.mu.Unlock()
		if st {
			// ask for permission BEFORE posting a read: the speaker's sender stays blocked in Write
			select {
			case <-gate:
			case <-c.closed:
				return
			}
		}
		hdr := make([]byte, bgp.BGP_HEADER_LENGTH)
		if n, err := io.ReadFull(c, hdr); err != nil {
			var ne net.Error
			if n == 0 && errors.As(err, &ne) && ne.Timeout() {
				// stall() interrupted a posted read: nothing was consumed
				c.SetReadDeadline(time.Time{})
				continue
			}
			p.mu.Lock()
			if p.conn == c {
				p.eof = true
				p.eofAt = p.ss.now()
			}
			p.mu.Unlock()
			return
		}
		l := int(binary.BigEndian.Uint16(hdr[16:18]))
		body := make([]byte, 0)
		if l > bgp.BGP_HEADER_LENGTH {
			body = make([]byte, l-bgp.BGP_HEADER_LENGTH)
			got := 0
			failed := false
			for got < len(body) {
				n, err := c.Read(body[got:])
				got += n
				if err != nil {
					var ne net.Error
					if errors.As(err, &ne) && ne.Timeout() {
						// stall() hit in the middle of a message: finish this message first
						c.SetReadDeadline(time.Time{})
						continue
					}
					failed = true
					break
				}
			}
			if failed {
				p.mu.Lock()
				if p.conn == c {
					p.eof = true
					p.eofAt = p.ss.now()
				}
				p.mu.Unlock()
				return
			}
		}
		raw := append(hdr, body...)
		p.mu.Lock()
		opts := p.opts
		p.mu.Unlock()
		m := simMsg{T: p.ss.now(), Raw: raw, Type: hdr[18], Sess: sess}
		msg, err := bgp.ParseBGPMessage(raw, opts...)
		if err != nil {
			m.Err = err.Error()
		}
		m.Msg = msg
		p.mu.Lock()
		p.log = append(p.log, m)
		p.mu.Unlock()
	}
}

// stall makes the neighbour stop reading at once: a read that is already posted is interrupted
// (nothing consumed), so the very next message the speaker writes blocks its sender.
func (p *simPeer) stall() {
	p.mu.Lock()
	p.stalled = true
	c := p.conn
	p.mu.Unlock()
	if c != nil {
		c.SetReadDeadline(time.Now())
	}
}

func (p *simPeer) resume() {
	p.mu.Lock()
	p.stalled = false
	g := p.gate
	p.mu.Unlock()
	// wake a reader that is waiting for a token
	select {
	case g <- struct{}{}:
	default:
	}
}

// allowOne lets a stalled reader consume exactly one more message.
func (p *simPeer) allowOne() {
	p.mu.Lock()
	g := p.gate
	p.mu.Unlock()
	g <- struct{}{}
}

func (p *simPeer) sendRaw(b []byte) error {
	p.mu.Lock()
	c := p.conn
	p.mu.Unlock()
	if c == nil {
		return errors.New("no connection")
	}
	// a write nobody reads must not wedge the schedule: give up after 10 (virtual) seconds
	c.SetWriteDeadline(time.Now().Add(10 * time.Second))
	_, err := c.Write(b)
	c.SetWriteDeadline(time.Time{})
	return err
}

func (p *simPeer) send(m *bgp.BGPMessage) error {
	p.mu.Lock()
	so := p.sopts
	p.mu.Unlock()
	b, err := m.Serialize(so...)
	if err != nil {
		return err
	}
	return p.sendRaw(b)
}

func (p *simPeer) closeConn() {
	p.mu.Lock()
	c := p.conn
	p.mu.Unlock()
	if c != nil {
		c.Close()
	}
}

// taken returns and clears the received-message log.
func (p *simPeer) take() []simMsg {
	p.mu.Lock()
	l := p.log
	p.log = nil
	p.mu.Unlock()
	return l
}

func (p *simPeer) curSession() int {
	p.mu.Lock()
	defer p.mu.Unlock()
	return p.session
}

func (p *simPeer) isEOF() bool {
	p.mu.Lock()
	defer p.mu.Unlock()
	return p.eof
}

// ---------------------------------------------------------------------------------------
// OPEN helpers

type simOpen struct {
	AS        uint32
	HoldTime  uint16
	RouterID  netip.Addr
	Caps      []bgp.ParameterCapabilityInterface
	NoCaps    bool // send no optional parameter at all
	Version   uint8
	FourOctet bool
}

func (p *simPeer) defaultOpen(hold uint16, families []bgp.Family) *bgp.BGPMessage {
	caps := []bgp.ParameterCapabilityInterface{bgp.NewCapRouteRefresh(), bgp.NewCapFourOctetASNumber(p.as)}
	for _, f := range families {
		caps = append(caps, bgp.NewCapMultiProtocol(f))
	}
	return p.openWith(hold, caps)
}

func (p *simPeer) openWith(hold uint16, caps []bgp.ParameterCapabilityInterface) *bgp.BGPMessage {
	as := uint16(bgp.AS_TRANS)
	if p.as <= 65535 {
		as = uint16(p.as)
	}
	var params []bgp.OptionParameterInterface
	if len(caps) > 0 {
		params = []bgp.OptionParameterInterface{bgp.NewOptionParameterCapability(caps)}
	}
	m, err := bgp.NewBGPOpenMessage(as, hold, p.rid, params)
	if err != nil {
		panic(err)
	}
	return m
}

// ---------------------------------------------------------------------------------------
// misc

func vpSortedKeys[V any](m map[string]V) []string {
	ks := make([]string, 0, len(m))
	for k := range m {
		ks = append(ks, k)
	}
	sort.Strings(ks)
	return ks
}

func vpMust(err error) {
	if err != nil {
		panic(fmt.Sprintf("harness: %v", err))
	}
}
