package table

// C10 replayer (white box): executes TLC-generated schedules of spec/PolicyGen.tla / spec/MCPolicy.tla
// on a real table.RoutingPolicy, through the same methods pkg/server/server.go calls for the public
// API, and evaluates routes with RoutingPolicy.ApplyPolicy the way the server does for import
// (options.Info = source peer) and export (options.Info = target peer, OldNextHop = next hop before
// the policy).  No property is asserted here: the trace is judged by TLC (spec/trace/PolicyTrace.tla).
//
// Every Evaluate builds ONE stored path whose attribute slices have spare capacity, applies the
// policy for two different (direction, peer) pairs from that same stored path and records the
// projection of the stored path before/after and of the first result before/after the second run.

import (
	"encoding/json"
	"fmt"
	"net/netip"
	"regexp"
	"sort"
	"strconv"
	"strings"
	"testing"
	"time"

	"github.com/osrg/gobgp/v4/pkg/config/oc"
	"github.com/osrg/gobgp/v4/pkg/packet/bgp"
)

// ---- schedule vocabulary (mirrors spec/PolicyDom.tla, spec/Policy.tla) ----

type c10Peer struct {
	Kind  string `json:"kind"`
	AS    uint32 `json:"as"`
	Fam   string `json:"fam"`
	Laddr string `json:"laddr"`
	Addr  string `json:"addr"`
}

type c10Pfx struct {
	S   string `json:"s"`
	Fam string `json:"fam"`
	G   []int  `json:"g"`
	Len int    `json:"len"`
}

type c10Entry struct {
	S   string `json:"s"`
	Fam string `json:"fam"`
	G   []int  `json:"g"`
	Len int    `json:"len"`
	Min int    `json:"min"`
	Max int    `json:"max"`
}

type c10AsMember struct {
	Shape string `json:"shape"`
	Asn   uint32 `json:"asn"`
}

type c10Cond struct {
	K    string   `json:"k"`
	Set  string   `json:"set"`
	Opt  string   `json:"opt"`
	Op   string   `json:"op"`
	N    int64    `json:"n"`
	List []string `json:"list"`
}

type c10Act struct {
	K    string   `json:"k"`
	Mode string   `json:"mode"`
	N    int64    `json:"n"`
	Rep  int      `json:"rep"`
	Vals []string `json:"vals"`
	S    string   `json:"s"`
}

type c10Stmt struct {
	Name  string    `json:"name"`
	Conds []c10Cond `json:"conds"`
	Acts  []c10Act  `json:"acts"`
	Disp  string    `json:"disp"`
}

type c10Route struct {
	Pfx    c10Pfx   `json:"pfx"`
	Src    string   `json:"src"`
	Nh     string   `json:"nh"`
	AsPath []uint32 `json:"aspath"`
	Origin int      `json:"origin"`
	Med    int64    `json:"med"`
	Lp     int64    `json:"lp"`
	Comm   []string `json:"comm"`
	Ext    []string `json:"ext"`
	Large  []string `json:"large"`
	Rpki   string   `json:"rpki"`
	Chain  bool     `json:"chain"`
}

type c10Op struct {
	Op       string            `json:"op"`
	Kind     string            `json:"kind"`
	Name     string            `json:"name"`
	Members  []json.RawMessage `json:"members"`
	Replace  bool              `json:"replace"`
	All      bool              `json:"all"`
	Stmt     *c10Stmt          `json:"stmt"`
	Stmts    []c10Stmt         `json:"stmts"`
	Refer    bool              `json:"refer"`
	Preserve bool              `json:"preserve"`
	Dir      string            `json:"dir"`
	Pols     []string          `json:"pols"`
	Def      string            `json:"def"`
	Route    *c10Route         `json:"route"`
	D1       string            `json:"d1"`
	P1       string            `json:"p1"`
	D2       string            `json:"d2"`
	P2       string            `json:"p2"`
}

type c10Behaviour struct {
	Peers   map[string]c10Peer  `json:"peers"`
	Nbr     map[string][]string `json:"nbr"`
	RbEvery bool                `json:"rbevery"`
	Kind    string              `json:"kind"`
	Steps   []json.RawMessage   `json:"steps"`
}

// ---- projected observations ----

type c10Attrs struct {
	Nh     string   `json:"nh"`
	AsPath []int64  `json:"aspath"`
	Origin int      `json:"origin"`
	Med    int64    `json:"med"`
	Lp     int64    `json:"lp"`
	Comm   []string `json:"comm"`
	Ext    []string `json:"ext"`
	Large  []string `json:"large"`
	Unk    []string `json:"unk"`
}

type c10Res struct {
	V     string   `json:"v"`
	Attrs c10Attrs `json:"attrs"`
}

type c10Obs struct {
	Stored0 c10Attrs `json:"stored0"`
	Stored1 c10Attrs `json:"stored1"`
	R1      c10Res   `json:"r1"`
	R2      c10Res   `json:"r2"`
	R1Again c10Attrs `json:"r1again"`
}

type c10RbSet struct {
	Kind    string `json:"kind"`
	Name    string `json:"name"`
	Members []any  `json:"members"`
}

type c10RbPol struct {
	Name  string    `json:"name"`
	Stmts []c10Stmt `json:"stmts"`
}

type c10RbAsg struct {
	Dir  string   `json:"dir"`
	Pols []string `json:"pols"`
	Def  string   `json:"def"`
}

type c10Rb struct {
	Sets  []c10RbSet `json:"sets"`
	Stmts []c10Stmt  `json:"stmts"`
	Pols  []c10RbPol `json:"pols"`
	Asg   []c10RbAsg `json:"asg"`
}

// ---- cross-checks of the vocabulary against net/netip (DESIGN 2.7 rule 4) ----

func c10CheckPfx(t *testing.T, s, fam string, g []int, l int) {
	p, err := netip.ParsePrefix(s)
	if err != nil {
		t.Fatalf("vocabulary: bad prefix %q: %v", s, err)
	}
	gs, gl, gf := c10Groups(p)
	if gf != fam || gl != l || fmt.Sprint(gs) != fmt.Sprint(g) {
		t.Fatalf("vocabulary: prefix %q is (%s %v /%d) for netip but (%s %v /%d) in the spec", s, gf, gs, gl, fam, g, l)
	}
}

func c10Groups(p netip.Prefix) ([]int, int, string) {
	a := p.Addr()
	if a.Is4() {
		b := a.As4()
		return []int{int(b[0]), int(b[1]), int(b[2]), int(b[3])}, p.Bits(), "v4"
	}
	b := a.As16()
	g := make([]int, 8)
	for i := range 8 {
		g[i] = int(b[2*i])<<8 | int(b[2*i+1])
	}
	return g, p.Bits(), "v6"
}

func c10CheckVocabulary(t *testing.T, b *c10Behaviour) {
	for m, covered := range b.Nbr {
		p, err := netip.ParsePrefix(m)
		if err != nil {
			t.Fatalf("vocabulary: bad neighbor member %q", m)
		}
		for name, pi := range b.Peers {
			in := false
			for _, c := range covered {
				if c == name {
					in = true
				}
			}
			if p.Contains(netip.MustParseAddr(pi.Addr)) != in {
				t.Fatalf("vocabulary: NbrCovers[%s] disagrees with netip for peer %s", m, name)
			}
		}
	}
}

// ---- abstract -> oc config -> table objects ----

func c10Range(e c10Entry) string { return fmt.Sprintf("%d..%d", e.Min, e.Max) }

func c10AsString(m c10AsMember) string {
	switch m.Shape {
	case "left":
		return fmt.Sprintf("^%d_", m.Asn)
	case "origin":
		return fmt.Sprintf("_%d$", m.Asn)
	case "include":
		return fmt.Sprintf("_%d_", m.Asn)
	case "only":
		return fmt.Sprintf("^%d$", m.Asn)
	}
	panic("as shape " + m.Shape)
}

func c10MemberStrings(t *testing.T, kind string, ms []json.RawMessage) []string {
	out := make([]string, 0, len(ms))
	for _, raw := range ms {
		switch kind {
		case "aspath":
			var m c10AsMember
			if err := json.Unmarshal(raw, &m); err != nil {
				t.Fatal(err)
			}
			out = append(out, c10AsString(m))
		default:
			var s string
			if err := json.Unmarshal(raw, &s); err != nil {
				t.Fatal(err)
			}
			out = append(out, s)
		}
	}
	return out
}

func c10DefinedSet(t *testing.T, o *c10Op) (DefinedSet, error) {
	switch o.Kind {
	case "prefix":
		l := make([]oc.Prefix, 0, len(o.Members))
		for _, raw := range o.Members {
			var e c10Entry
			if err := json.Unmarshal(raw, &e); err != nil {
				t.Fatal(err)
			}
			c10CheckPfx(t, e.S, e.Fam, e.G, e.Len)
			l = append(l, oc.Prefix{IpPrefix: netip.MustParsePrefix(e.S), MasklengthRange: c10Range(e)})
		}
		return NewPrefixSet(oc.PrefixSet{PrefixSetName: o.Name, PrefixList: l})
	case "neighbor":
		return NewNeighborSet(oc.NeighborSet{NeighborSetName: o.Name, NeighborInfoList: c10MemberStrings(t, o.Kind, o.Members)})
	case "aspath":
		return NewAsPathSet(oc.AsPathSet{AsPathSetName: o.Name, AsPathList: c10MemberStrings(t, o.Kind, o.Members)})
	case "comm":
		return NewCommunitySet(oc.CommunitySet{CommunitySetName: o.Name, CommunityList: c10MemberStrings(t, o.Kind, o.Members)})
	case "ext":
		return NewExtCommunitySet(oc.ExtCommunitySet{ExtCommunitySetName: o.Name, ExtCommunityList: c10MemberStrings(t, o.Kind, o.Members)})
	case "large":
		return NewLargeCommunitySet(oc.LargeCommunitySet{LargeCommunitySetName: o.Name, LargeCommunityList: c10MemberStrings(t, o.Kind, o.Members)})
	}
	return nil, fmt.Errorf("unknown set kind %q", o.Kind)
}

var c10Origins = []oc.BgpOriginAttrType{oc.BGP_ORIGIN_ATTR_TYPE_IGP, oc.BGP_ORIGIN_ATTR_TYPE_EGP, oc.BGP_ORIGIN_ATTR_TYPE_INCOMPLETE}

func c10OcStatement(s c10Stmt) oc.Statement {
	st := oc.Statement{Name: s.Name}
	for _, c := range s.Conds {
		switch c.K {
		case "prefix":
			st.Conditions.MatchPrefixSet = oc.MatchPrefixSet{PrefixSet: c.Set, MatchSetOptions: oc.MatchSetOptionsRestrictedType(c.Opt)}
		case "neighbor":
			st.Conditions.MatchNeighborSet = oc.MatchNeighborSet{NeighborSet: c.Set, MatchSetOptions: oc.MatchSetOptionsRestrictedType(c.Opt)}
		case "aspath":
			st.Conditions.BgpConditions.MatchAsPathSet = oc.MatchAsPathSet{AsPathSet: c.Set, MatchSetOptions: oc.MatchSetOptionsType(c.Opt)}
		case "comm":
			st.Conditions.BgpConditions.MatchCommunitySet = oc.MatchCommunitySet{CommunitySet: c.Set, MatchSetOptions: oc.MatchSetOptionsType(c.Opt)}
		case "ext":
			st.Conditions.BgpConditions.MatchExtCommunitySet = oc.MatchExtCommunitySet{ExtCommunitySet: c.Set, MatchSetOptions: oc.MatchSetOptionsType(c.Opt)}
		case "large":
			st.Conditions.BgpConditions.MatchLargeCommunitySet = oc.MatchLargeCommunitySet{LargeCommunitySet: c.Set, MatchSetOptions: oc.MatchSetOptionsType(c.Opt)}
		case "aslen":
			st.Conditions.BgpConditions.AsPathLength = oc.AsPathLength{Operator: oc.AttributeComparison(c.Op), Value: uint32(c.N)}
		case "commcount":
			st.Conditions.BgpConditions.CommunityCount = oc.CommunityCount{Operator: oc.AttributeComparison(c.Op), Value: uint32(c.N)}
		case "origin":
			st.Conditions.BgpConditions.OriginEq = c10Origins[c.N]
		case "rtype":
			st.Conditions.BgpConditions.RouteType = oc.RouteType(c.Opt)
		case "rpki":
			st.Conditions.BgpConditions.RpkiValidationResult = oc.RpkiValidationResultType(c.Opt)
		case "afisafi":
			l := make([]oc.AfiSafiType, 0, len(c.List))
			for _, f := range c.List {
				l = append(l, oc.AfiSafiType(f))
			}
			st.Conditions.BgpConditions.AfiSafiInList = l
		case "nh":
			l := make([]netip.Addr, 0, len(c.List))
			for _, a := range c.List {
				l = append(l, netip.MustParseAddr(a))
			}
			st.Conditions.BgpConditions.NextHopInList = l
		default:
			panic("cond kind " + c.K)
		}
	}
	for _, a := range s.Acts {
		switch a.K {
		case "med":
			switch a.Mode {
			case "set":
				st.Actions.BgpActions.SetMed = oc.BgpSetMedType(fmt.Sprintf("%d", a.N))
			case "add":
				st.Actions.BgpActions.SetMed = oc.BgpSetMedType(fmt.Sprintf("+%d", a.N))
			case "sub":
				st.Actions.BgpActions.SetMed = oc.BgpSetMedType(fmt.Sprintf("-%d", a.N))
			}
		case "lp":
			st.Actions.BgpActions.SetLocalPref = uint32(a.N)
		case "prepend":
			as := "last-as"
			if a.Mode == "as" {
				as = fmt.Sprintf("%d", a.N)
			}
			st.Actions.BgpActions.SetAsPathPrepend = oc.SetAsPathPrepend{As: as, RepeatN: uint8(a.Rep)}
		case "comm":
			st.Actions.BgpActions.SetCommunity = oc.SetCommunity{Options: a.Mode, SetCommunityMethod: oc.SetCommunityMethod{CommunitiesList: a.Vals}}
		case "ext":
			st.Actions.BgpActions.SetExtCommunity = oc.SetExtCommunity{Options: a.Mode, SetExtCommunityMethod: oc.SetExtCommunityMethod{CommunitiesList: a.Vals}}
		case "large":
			st.Actions.BgpActions.SetLargeCommunity = oc.SetLargeCommunity{Options: oc.BgpSetCommunityOptionType(a.Mode), SetLargeCommunityMethod: oc.SetLargeCommunityMethod{CommunitiesList: a.Vals}}
		case "nh":
			switch a.Mode {
			case "addr":
				st.Actions.BgpActions.SetNextHop = oc.BgpNextHopType(a.S)
			default:
				st.Actions.BgpActions.SetNextHop = oc.BgpNextHopType(a.Mode)
			}
		case "origin":
			st.Actions.BgpActions.SetRouteOrigin = c10Origins[a.N]
		default:
			panic("action kind " + a.K)
		}
	}
	switch s.Disp {
	case "accept":
		st.Actions.RouteDisposition = oc.ROUTE_DISPOSITION_ACCEPT_ROUTE
	case "reject":
		st.Actions.RouteDisposition = oc.ROUTE_DISPOSITION_REJECT_ROUTE
	default:
		st.Actions.RouteDisposition = oc.ROUTE_DISPOSITION_NONE
	}
	return st
}

// ---- table objects / oc config -> abstract (read-back projection) ----

var (
	c10ReAnch  = regexp.MustCompile(`^\^(.*)\$$`)
	c10ReComm  = regexp.MustCompile(`^\d+:\d+$`)
	c10ReLarge = regexp.MustCompile(`^\d+:\d+:\d+$`)
	c10ReRange = regexp.MustCompile(`^(\d+)\.\.(\d+)$`)
	c10ReAs    = []struct {
		shape string
		re    *regexp.Regexp
	}{
		{"left", regexp.MustCompile(`^\^(\d+)_$`)}, {"origin", regexp.MustCompile(`^_(\d+)\$$`)},
		{"include", regexp.MustCompile(`^_(\d+)_$`)}, {"only", regexp.MustCompile(`^\^(\d+)\$$`)},
	}
)

// an exact value is stored as the anchored regular expression ^value$: same denotation
func c10Unanchor(s string, shape *regexp.Regexp) string {
	v := s
	if m := c10ReAnch.FindStringSubmatch(s); m != nil {
		v = m[1]
	}
	if shape.MatchString(v) {
		return v
	}
	return "other:" + s
}

func c10ProjSets(ds *oc.DefinedSets) []c10RbSet {
	out := []c10RbSet{}
	for _, s := range ds.PrefixSets {
		ms := []any{}
		for _, p := range s.PrefixList {
			g, l, fam := c10Groups(p.IpPrefix)
			e := c10Entry{S: p.IpPrefix.String(), Fam: fam, G: g, Len: l, Min: l, Max: l}
			if p.MasklengthRange != "" { // policy.md: no range = exact length
				if m := c10ReRange.FindStringSubmatch(p.MasklengthRange); m != nil {
					e.Min, _ = strconv.Atoi(m[1])
					e.Max, _ = strconv.Atoi(m[2])
				} else {
					e.S = "other:" + p.MasklengthRange
				}
			}
			ms = append(ms, e)
		}
		out = append(out, c10RbSet{"prefix", s.PrefixSetName, ms})
	}
	for _, s := range ds.NeighborSets {
		ms := []any{}
		for _, n := range s.NeighborInfoList {
			if !strings.Contains(n, "/") { // policy.md: an address stands for the host prefix
				if a, err := netip.ParseAddr(n); err == nil {
					n = netip.PrefixFrom(a, a.BitLen()).String()
				}
			}
			ms = append(ms, n)
		}
		out = append(out, c10RbSet{"neighbor", s.NeighborSetName, ms})
	}
	for _, s := range ds.BgpDefinedSets.AsPathSets {
		ms := []any{}
		for _, x := range s.AsPathList {
			m := c10AsMember{Shape: "other:" + x}
			for _, sh := range c10ReAs {
				if mm := sh.re.FindStringSubmatch(x); mm != nil {
					n, _ := strconv.ParseUint(mm[1], 10, 32)
					m = c10AsMember{Shape: sh.shape, Asn: uint32(n)}
					break
				}
			}
			ms = append(ms, m)
		}
		out = append(out, c10RbSet{"aspath", s.AsPathSetName, ms})
	}
	for _, s := range ds.BgpDefinedSets.CommunitySets {
		ms := []any{}
		for _, x := range s.CommunityList {
			ms = append(ms, c10Unanchor(x, c10ReComm))
		}
		out = append(out, c10RbSet{"comm", s.CommunitySetName, ms})
	}
	for _, s := range ds.BgpDefinedSets.ExtCommunitySets {
		ms := []any{}
		for _, x := range s.ExtCommunityList {
			i := strings.Index(x, ":")
			if i < 0 {
				ms = append(ms, "other:"+x)
				continue
			}
			v := c10Unanchor(x[i+1:], c10ReComm)
			if strings.HasPrefix(v, "other:") {
				ms = append(ms, "other:"+x)
			} else {
				ms = append(ms, strings.ToLower(x[:i])+":"+v)
			}
		}
		out = append(out, c10RbSet{"ext", s.ExtCommunitySetName, ms})
	}
	for _, s := range ds.BgpDefinedSets.LargeCommunitySets {
		ms := []any{}
		for _, x := range s.LargeCommunityList {
			ms = append(ms, c10Unanchor(x, c10ReLarge))
		}
		out = append(out, c10RbSet{"large", s.LargeCommunitySetName, ms})
	}
	return out
}

func c10OriginIndex(o oc.BgpOriginAttrType) int64 {
	for i, x := range c10Origins {
		if x == o {
			return int64(i)
		}
	}
	return -1
}

func c10StripList(l []string, shape *regexp.Regexp, ext bool) []string {
	out := []string{}
	for _, x := range l {
		if ext {
			i := strings.Index(x, ":")
			if i < 0 {
				out = append(out, "other:"+x)
				continue
			}
			v := c10Unanchor(x[i+1:], c10ReComm)
			if strings.HasPrefix(v, "other:") {
				out = append(out, "other:"+x)
			} else {
				out = append(out, strings.ToLower(x[:i])+":"+v)
			}
		} else {
			out = append(out, c10Unanchor(x, shape))
		}
	}
	sort.Strings(out)
	return out
}

var c10ReMed = regexp.MustCompile(`^([+-]?)(\d+)$`)

func c10ProjStatement(s *oc.Statement) c10Stmt {
	out := c10Stmt{Name: s.Name, Conds: []c10Cond{}, Acts: []c10Act{}, Disp: "none"}
	cond := func(k, set, opt, op string, n int64, list []string) {
		if list == nil {
			list = []string{}
		}
		out.Conds = append(out.Conds, c10Cond{K: k, Set: set, Opt: opt, Op: op, N: n, List: list})
	}
	act := func(k, mode string, n int64, rep int, vals []string, str string) {
		if vals == nil {
			vals = []string{}
		}
		out.Acts = append(out.Acts, c10Act{K: k, Mode: mode, N: n, Rep: rep, Vals: vals, S: str})
	}
	c := s.Conditions
	if c.MatchPrefixSet.PrefixSet != "" {
		cond("prefix", c.MatchPrefixSet.PrefixSet, string(c.MatchPrefixSet.MatchSetOptions.DefaultAsNeeded()), "", 0, nil)
	}
	if c.MatchNeighborSet.NeighborSet != "" {
		cond("neighbor", c.MatchNeighborSet.NeighborSet, string(c.MatchNeighborSet.MatchSetOptions.DefaultAsNeeded()), "", 0, nil)
	}
	b := c.BgpConditions
	if b.MatchAsPathSet.AsPathSet != "" {
		cond("aspath", b.MatchAsPathSet.AsPathSet, string(b.MatchAsPathSet.MatchSetOptions.DefaultAsNeeded()), "", 0, nil)
	}
	if b.MatchCommunitySet.CommunitySet != "" {
		cond("comm", b.MatchCommunitySet.CommunitySet, string(b.MatchCommunitySet.MatchSetOptions.DefaultAsNeeded()), "", 0, nil)
	}
	if b.MatchExtCommunitySet.ExtCommunitySet != "" {
		cond("ext", b.MatchExtCommunitySet.ExtCommunitySet, string(b.MatchExtCommunitySet.MatchSetOptions.DefaultAsNeeded()), "", 0, nil)
	}
	if b.MatchLargeCommunitySet.LargeCommunitySet != "" {
		cond("large", b.MatchLargeCommunitySet.LargeCommunitySet, string(b.MatchLargeCommunitySet.MatchSetOptions.DefaultAsNeeded()), "", 0, nil)
	}
	cmpName := func(o oc.AttributeComparison) string {
		switch o {
		case oc.ATTRIBUTE_COMPARISON_EQ, oc.ATTRIBUTE_COMPARISON_ATTRIBUTE_EQ:
			return "eq"
		case oc.ATTRIBUTE_COMPARISON_GE, oc.ATTRIBUTE_COMPARISON_ATTRIBUTE_GE:
			return "ge"
		case oc.ATTRIBUTE_COMPARISON_LE, oc.ATTRIBUTE_COMPARISON_ATTRIBUTE_LE:
			return "le"
		}
		return "other:" + string(o)
	}
	if b.AsPathLength.Operator != "" {
		cond("aslen", "", "", cmpName(b.AsPathLength.Operator), int64(b.AsPathLength.Value), nil)
	}
	if b.CommunityCount.Operator != "" {
		cond("commcount", "", "", cmpName(b.CommunityCount.Operator), int64(b.CommunityCount.Value), nil)
	}
	if b.OriginEq != "" {
		cond("origin", "", "", "", c10OriginIndex(b.OriginEq), nil)
	}
	if b.RouteType != "" && b.RouteType != oc.ROUTE_TYPE_NONE {
		cond("rtype", "", string(b.RouteType), "", 0, nil)
	}
	if b.RpkiValidationResult != "" && b.RpkiValidationResult != oc.RPKI_VALIDATION_RESULT_TYPE_NONE {
		cond("rpki", "", string(b.RpkiValidationResult), "", 0, nil)
	}
	if b.AfiSafiInList != nil {
		l := []string{}
		for _, f := range b.AfiSafiInList {
			l = append(l, string(f))
		}
		sort.Strings(l)
		cond("afisafi", "", "", "", 0, l)
	}
	if len(b.NextHopInList) > 0 {
		l := []string{}
		for _, a := range b.NextHopInList {
			l = append(l, a.String())
		}
		sort.Strings(l)
		cond("nh", "", "", "", 0, l)
	}
	if b.LocalPrefEq != 0 {
		cond("other:local-pref-eq", "", "", "", int64(b.LocalPrefEq), nil)
	}
	if b.MedEq != 0 {
		cond("other:med-eq", "", "", "", int64(b.MedEq), nil)
	}
	a := s.Actions.BgpActions
	if a.SetMed != "" {
		if m := c10ReMed.FindStringSubmatch(string(a.SetMed)); m != nil {
			n, _ := strconv.ParseInt(m[2], 10, 64)
			mode := "set"
			if m[1] == "+" {
				mode = "add"
			} else if m[1] == "-" {
				mode = "sub"
			}
			act("med", mode, n, 0, nil, "")
		} else {
			act("med", "other:"+string(a.SetMed), 0, 0, nil, "")
		}
	}
	if a.SetLocalPref != 0 {
		act("lp", "", int64(a.SetLocalPref), 0, nil, "")
	}
	if a.SetAsPathPrepend.As != "" {
		if a.SetAsPathPrepend.As == "last-as" {
			act("prepend", "last-as", 0, int(a.SetAsPathPrepend.RepeatN), nil, "")
		} else if n, err := strconv.ParseUint(a.SetAsPathPrepend.As, 10, 32); err == nil {
			act("prepend", "as", int64(n), int(a.SetAsPathPrepend.RepeatN), nil, "")
		} else {
			act("prepend", "other:"+a.SetAsPathPrepend.As, 0, 0, nil, "")
		}
	}
	if a.SetCommunity.Options != "" {
		act("comm", strings.ToLower(a.SetCommunity.Options), 0, 0, c10StripList(a.SetCommunity.SetCommunityMethod.CommunitiesList, c10ReComm, false), "")
	}
	if a.SetExtCommunity.Options != "" {
		act("ext", strings.ToLower(a.SetExtCommunity.Options), 0, 0, c10StripList(a.SetExtCommunity.SetExtCommunityMethod.CommunitiesList, c10ReComm, true), "")
	}
	if a.SetLargeCommunity.Options != "" {
		act("large", strings.ToLower(string(a.SetLargeCommunity.Options)), 0, 0, c10StripList(a.SetLargeCommunity.SetLargeCommunityMethod.CommunitiesList, c10ReLarge, false), "")
	}
	if a.SetNextHop != "" {
		switch string(a.SetNextHop) {
		case "self", "unchanged":
			act("nh", string(a.SetNextHop), 0, 0, nil, "")
		default:
			if _, err := netip.ParseAddr(string(a.SetNextHop)); err == nil {
				act("nh", "addr", 0, 0, nil, string(a.SetNextHop))
			} else {
				act("nh", "other:"+string(a.SetNextHop), 0, 0, nil, "")
			}
		}
	}
	if a.SetRouteOrigin != "" {
		act("origin", "", c10OriginIndex(a.SetRouteOrigin), 0, nil, "")
	}
	switch s.Actions.RouteDisposition {
	case oc.ROUTE_DISPOSITION_ACCEPT_ROUTE:
		out.Disp = "accept"
	case oc.ROUTE_DISPOSITION_REJECT_ROUTE:
		out.Disp = "reject"
	case oc.ROUTE_DISPOSITION_NONE, "":
	default:
		out.Disp = "other:" + string(s.Actions.RouteDisposition)
	}
	return out
}

func c10RouteTypeName(r RouteType) string {
	switch r {
	case ROUTE_TYPE_ACCEPT:
		return "accept"
	case ROUTE_TYPE_REJECT:
		return "reject"
	}
	return "none"
}

var c10DefTypes = []DefinedType{DEFINED_TYPE_PREFIX, DEFINED_TYPE_NEIGHBOR, DEFINED_TYPE_AS_PATH, DEFINED_TYPE_COMMUNITY, DEFINED_TYPE_EXT_COMMUNITY, DEFINED_TYPE_LARGE_COMMUNITY}

func c10ReadBack(t *testing.T, rp *RoutingPolicy) c10Rb {
	rb := c10Rb{Sets: []c10RbSet{}, Stmts: []c10Stmt{}, Pols: []c10RbPol{}, Asg: []c10RbAsg{}}
	for _, typ := range c10DefTypes {
		ds, err := rp.GetDefinedSet(typ, "")
		if err != nil {
			t.Fatalf("GetDefinedSet: %v", err)
		}
		rb.Sets = append(rb.Sets, c10ProjSets(ds)...)
	}
	for _, s := range rp.GetStatement("") {
		rb.Stmts = append(rb.Stmts, c10ProjStatement(s))
	}
	sort.Slice(rb.Stmts, func(i, j int) bool { return rb.Stmts[i].Name < rb.Stmts[j].Name })
	for _, p := range rp.GetPolicy("") {
		pol := c10RbPol{Name: p.Name, Stmts: []c10Stmt{}}
		for i := range p.Statements {
			pol.Stmts = append(pol.Stmts, c10ProjStatement(&p.Statements[i]))
		}
		rb.Pols = append(rb.Pols, pol)
	}
	for _, d := range []struct {
		n string
		d PolicyDirection
	}{{"import", POLICY_DIRECTION_IMPORT}, {"export", POLICY_DIRECTION_EXPORT}} {
		def, ps, err := rp.GetPolicyAssignment(GLOBAL_RIB_NAME, d.d)
		if err != nil {
			t.Fatalf("GetPolicyAssignment: %v", err)
		}
		a := c10RbAsg{Dir: d.n, Pols: []string{}, Def: c10RouteTypeName(def)}
		for _, p := range ps {
			a.Pols = append(a.Pols, p.Name)
		}
		rb.Asg = append(rb.Asg, a)
	}
	return rb
}

// ---- config operations, as pkg/server/server.go performs them ----

func c10Dir(d string) PolicyDirection {
	if d == "import" {
		return POLICY_DIRECTION_IMPORT
	}
	return POLICY_DIRECTION_EXPORT
}

func c10Def(d string) RouteType {
	switch d {
	case "accept":
		return ROUTE_TYPE_ACCEPT
	case "reject":
		return ROUTE_TYPE_REJECT
	}
	return ROUTE_TYPE_NONE
}

func c10PolDefs(names []string) []*oc.PolicyDefinition {
	l := make([]*oc.PolicyDefinition, 0, len(names))
	for _, n := range names {
		l = append(l, &oc.PolicyDefinition{Name: n})
	}
	return l
}

// res: "ok", "panic" (the call crashed; detail says how) or "err: ..." (the call refused)
func c10Config(t *testing.T, rp *RoutingPolicy, o *c10Op) (res, detail string) {
	defer func() {
		if r := recover(); r != nil {
			res, detail = "panic", fmt.Sprint(r)
		}
	}()
	var err error
	switch o.Op {
	case "AddSet":
		var s DefinedSet
		if s, err = c10DefinedSet(t, o); err == nil {
			err = rp.AddDefinedSet(s, o.Replace)
		}
	case "DelSet":
		var s DefinedSet
		if s, err = c10DefinedSet(t, o); err == nil {
			err = rp.DeleteDefinedSet(s, o.All)
		}
	case "AddStmt":
		var s *Statement
		if s, err = NewStatement(c10OcStatement(*o.Stmt)); err == nil {
			err = rp.AddStatement(s)
		}
	case "DelStmt":
		var s *Statement
		if s, err = NewStatement(c10OcStatement(*o.Stmt)); err == nil {
			err = rp.DeleteStatement(s, o.All)
		}
	case "AddPol", "DelPol":
		pd := oc.PolicyDefinition{Name: o.Name}
		for _, s := range o.Stmts {
			pd.Statements = append(pd.Statements, c10OcStatement(s))
		}
		var p *Policy
		if p, err = NewPolicy(pd); err == nil {
			if o.Op == "AddPol" {
				err = rp.AddPolicy(p, o.Refer)
			} else {
				err = rp.DeletePolicy(p, o.All, o.Preserve, []string{GLOBAL_RIB_NAME})
			}
		}
	case "SetAsg":
		err = rp.SetPolicyAssignment(GLOBAL_RIB_NAME, c10Dir(o.Dir), c10PolDefs(o.Pols), c10Def(o.Def))
	case "AddAsg":
		err = rp.AddPolicyAssignment(GLOBAL_RIB_NAME, c10Dir(o.Dir), c10PolDefs(o.Pols), c10Def(o.Def))
	case "DelAsg":
		err = rp.DeletePolicyAssignment(GLOBAL_RIB_NAME, c10Dir(o.Dir), c10PolDefs(o.Pols), o.All)
	default:
		t.Fatalf("unknown op %q", o.Op)
	}
	if err != nil {
		return "err: " + err.Error(), ""
	}
	return "ok", ""
}

// ---- routes ----

const c10Spare = 4 // spare capacity of every attribute slice of a stored path

func c10PeerInfo(p c10Peer) *PeerInfo {
	a := netip.MustParseAddr(p.Addr)
	id := netip.AddrFrom4([4]byte{10, 255, 0, byte(p.AS % 250)})
	return &PeerInfo{AS: p.AS, LocalAS: 65000, ID: id, Address: a, LocalAddress: netip.MustParseAddr(p.Laddr),
		LocalID: netip.AddrFrom4([4]byte{10, 255, 255, 1})}
}

func c10ParseComm(s string) uint32 {
	v, err := ParseCommunity(s)
	if err != nil {
		panic(err)
	}
	return v
}

func c10BuildPath(t *testing.T, r *c10Route, peers map[string]*PeerInfo) *Path {
	c10CheckPfx(t, r.Pfx.S, r.Pfx.Fam, r.Pfx.G, r.Pfx.Len)
	pfx := netip.MustParsePrefix(r.Pfx.S)
	fam := bgp.RF_IPv4_UC
	if pfx.Addr().Is6() {
		fam = bgp.RF_IPv6_UC
	}
	nlri, err := bgp.NewIPAddrPrefix(pfx)
	if err != nil {
		t.Fatal(err)
	}
	base := make([]bgp.PathAttributeInterface, 0, 8+c10Spare)
	base = append(base, bgp.NewPathAttributeOrigin(uint8(r.Origin)))
	params := make([]bgp.AsPathParamInterface, 0, 1+c10Spare)
	if len(r.AsPath) > 0 {
		as := make([]uint32, len(r.AsPath), len(r.AsPath)+c10Spare)
		copy(as, r.AsPath)
		params = append(params, bgp.NewAs4PathParam(bgp.BGP_ASPATH_ATTR_TYPE_SEQ, as))
	}
	base = append(base, bgp.NewPathAttributeAsPath(params))
	nh := netip.MustParseAddr(r.Nh)
	if fam == bgp.RF_IPv4_UC {
		a, _ := bgp.NewPathAttributeNextHop(nh)
		base = append(base, a)
	} else {
		a, err := bgp.NewPathAttributeMpReachNLRI(fam, []bgp.PathNLRI{{NLRI: nlri}}, nh)
		if err != nil {
			t.Fatal(err)
		}
		base = append(base, a)
	}
	if r.Med >= 0 {
		base = append(base, bgp.NewPathAttributeMultiExitDisc(uint32(r.Med)))
	}
	if r.Lp >= 0 {
		base = append(base, bgp.NewPathAttributeLocalPref(uint32(r.Lp)))
	}
	var cattrs []bgp.PathAttributeInterface
	if len(r.Comm) > 0 {
		cs := make([]uint32, 0, len(r.Comm)+c10Spare)
		for _, c := range r.Comm {
			cs = append(cs, c10ParseComm(c))
		}
		cattrs = append(cattrs, bgp.NewPathAttributeCommunities(cs))
	}
	if len(r.Ext) > 0 {
		es := make([]bgp.ExtendedCommunityInterface, 0, len(r.Ext)+c10Spare)
		for _, e := range r.Ext {
			x, err := ParseExtCommunity(e)
			if err != nil {
				t.Fatalf("ext community %q: %v", e, err)
			}
			es = append(es, x)
		}
		cattrs = append(cattrs, bgp.NewPathAttributeExtendedCommunities(es))
	}
	if len(r.Large) > 0 {
		ls := make([]*bgp.LargeCommunity, 0, len(r.Large)+c10Spare)
		for _, l := range r.Large {
			x, err := bgp.ParseLargeCommunity(l)
			if err != nil {
				t.Fatal(err)
			}
			ls = append(ls, x)
		}
		cattrs = append(cattrs, bgp.NewPathAttributeLargeCommunities(ls))
	}
	var src *PeerInfo
	if r.Src != "local" {
		src = peers[r.Src]
	}
	if !r.Chain {
		base = append(base, cattrs...)
		return NewPath(fam, src, bgp.PathNLRI{NLRI: nlri}, false, base, time.Unix(1000, 0), false)
	}
	// clone chain: the community attributes live in a child of the original path, as they do
	// after an earlier policy stage modified them
	root := NewPath(fam, src, bgp.PathNLRI{NLRI: nlri}, false, base, time.Unix(1000, 0), false)
	p := root.Clone(false)
	p.pathAttrs = make([]bgp.PathAttributeInterface, 0, len(cattrs)+c10Spare)
	for _, a := range cattrs {
		p.setPathAttr(a)
	}
	return p
}

func c10ExtString(e bgp.ExtendedCommunityInterface) string {
	switch v := e.(type) {
	case *bgp.TwoOctetAsSpecificExtended:
		switch v.SubType {
		case bgp.EC_SUBTYPE_ROUTE_TARGET:
			if v.IsTransitive {
				return fmt.Sprintf("rt:%d:%d", v.AS, v.LocalAdmin)
			}
		case bgp.EC_SUBTYPE_ROUTE_ORIGIN:
			if v.IsTransitive {
				return fmt.Sprintf("soo:%d:%d", v.AS, v.LocalAdmin)
			}
		}
	case *bgp.LinkBandwidthExtended:
		return fmt.Sprintf("lb:%d:%d", v.AS, int64(v.Bandwidth))
	}
	return "other:" + e.String()
}

func c10Project(p *Path) c10Attrs {
	a := c10Attrs{Nh: "", AsPath: []int64{}, Origin: -1, Med: -1, Lp: -1, Comm: []string{}, Ext: []string{}, Large: []string{}, Unk: []string{}}
	if p == nil {
		return a
	}
	if nh := p.GetNexthop(); nh.IsValid() {
		a.Nh = nh.String()
	}
	for _, attr := range p.GetPathAttrs() {
		switch v := attr.(type) {
		case *bgp.PathAttributeOrigin:
			a.Origin = int(v.Value)
		case *bgp.PathAttributeAsPath:
			for _, seg := range v.Value {
				if seg.GetType() != bgp.BGP_ASPATH_ATTR_TYPE_SEQ {
					a.AsPath = append(a.AsPath, -int64(seg.GetType()))
					continue
				}
				for _, as := range seg.GetAS() {
					a.AsPath = append(a.AsPath, int64(as))
				}
			}
		case *bgp.PathAttributeNextHop, *bgp.PathAttributeMpReachNLRI:
		case *bgp.PathAttributeMultiExitDisc:
			a.Med = int64(v.Value)
		case *bgp.PathAttributeLocalPref:
			a.Lp = int64(v.Value)
		case *bgp.PathAttributeCommunities:
			for _, c := range v.Value {
				a.Comm = append(a.Comm, fmt.Sprintf("%d:%d", c>>16, c&0xffff))
			}
		case *bgp.PathAttributeExtendedCommunities:
			for _, e := range v.Value {
				a.Ext = append(a.Ext, c10ExtString(e))
			}
		case *bgp.PathAttributeLargeCommunities:
			for _, l := range v.Values {
				a.Large = append(a.Large, l.String())
			}
		default:
			a.Unk = append(a.Unk, fmt.Sprintf("type%d", attr.GetType()))
		}
	}
	return a
}

func c10Options(r *c10Route, dir, peer string, peers map[string]*PeerInfo, stored *Path) *PolicyOptions {
	o := &PolicyOptions{
		Info: peers[peer],
		Validate: func(*Path) *Validation {
			return &Validation{Status: oc.RpkiValidationResultType(r.Rpki)}
		},
	}
	if dir == "export" {
		// pkg/server/server.go prePolicyFilterpath: options.OldNextHop = path.GetNexthop()
		o.OldNextHop = stored.GetNexthop()
	}
	return o
}

func c10Result(p *Path) c10Res {
	if p == nil {
		return c10Res{V: "reject", Attrs: c10Project(nil)}
	}
	return c10Res{V: "accept", Attrs: c10Project(p)}
}

func c10Evaluate(t *testing.T, rp *RoutingPolicy, o *c10Op, peers map[string]*PeerInfo) c10Obs {
	stored := c10BuildPath(t, o.Route, peers)
	var obs c10Obs
	obs.Stored0 = c10Project(stored)
	r1 := rp.ApplyPolicy(GLOBAL_RIB_NAME, c10Dir(o.D1), stored, c10Options(o.Route, o.D1, o.P1, peers, stored))
	obs.R1 = c10Result(r1)
	r2 := rp.ApplyPolicy(GLOBAL_RIB_NAME, c10Dir(o.D2), stored, c10Options(o.Route, o.D2, o.P2, peers, stored))
	obs.R2 = c10Result(r2)
	obs.Stored1 = c10Project(stored)
	obs.R1Again = c10Project(r1)
	return obs
}

func TestVerifC10(t *testing.T) {
	tr := vpOpenTrace(t)
	defer tr.Close()
	tid := 0
	vpReadLines(t, "VERIF_IN", func(line []byte) {
		var b c10Behaviour
		if err := json.Unmarshal(line, &b); err != nil {
			t.Fatalf("bad behaviour: %v", err)
		}
		tid++
		c10CheckVocabulary(t, &b)
		peers := map[string]*PeerInfo{}
		for n, p := range b.Peers {
			peers[n] = c10PeerInfo(p)
		}
		rp := NewRoutingPolicy(vpLogger)
		if err := rp.Initialize(); err != nil {
			t.Fatal(err)
		}
		tr.Emit(map[string]any{"ev": "Reset", "tid": tid, "kind": b.Kind})
		for _, raw := range b.Steps {
			var o c10Op
			if err := json.Unmarshal(raw, &o); err != nil {
				t.Fatalf("bad step: %v", err)
			}
			if o.Op == "Eval" {
				obs := c10Evaluate(t, rp, &o, peers)
				tr.Emit(map[string]any{"ev": "Eval", "op": raw, "obs": obs})
				continue
			}
			res, detail := c10Config(t, rp, &o)
			if b.RbEvery {
				tr.Emit(map[string]any{"ev": "Cfg", "op": raw, "res": res, "detail": detail, "rb": c10ReadBack(t, rp)})
			} else {
				tr.Emit(map[string]any{"ev": "Cfg", "op": raw, "res": res, "detail": detail})
			}
		}
		tr.Emit(map[string]any{"ev": "Dump", "rb": c10ReadBack(t, rp)})
	})
}
