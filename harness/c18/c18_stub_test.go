package server

import (
	"fmt"
	"testing"
)

func c18Example(name string) (*c18Native, error) { return nil, fmt.Errorf("no example %q", name) }
func c18RunPath(t *testing.T, b *c18Behaviour) []any { return nil }
func c18RunConfig(b *c18Behaviour) any { return nil }
