// C18: example catalogue - native values of the types that have no parametrised vocabulary
// (BGP-LS, SR policy sub-TLVs without constructor) and values "as received": serialised and parsed
// back by the codec, which is how every route of a peer reaches the converters.
package server

import (
	"fmt"
	"net/netip"

	"github.com/osrg/gobgp/v4/pkg/packet/bgp"
)

// ---- BGP-LS octets (the package's own test vectors, as used by harness/c04) -----------------

var c18LsNode = []byte{
	0x00, 0x01, 0x00, 0x2f, 0x02, 0x00, 0x00, 0x00, 0x00, 0x00, 0x00, 0x00, 0x00,
	0x01, 0x00, 0x00, 0x22,
	0x02, 0x00, 0x00, 0x04, 0x07, 0x07, 0x07, 0x07,
	0x02, 0x01, 0x00, 0x04, 0x07, 0x07, 0x07, 0x07,
	0x02, 0x02, 0x00, 0x04, 0x07, 0x07, 0x07, 0x07,
	0x02, 0x03, 0x00, 0x06, 0x01, 0x02, 0x03, 0x04, 0x05, 0x06,
}

var c18LsLink = []byte{
	0x00, 0x02, 0x00, 0x65, 0x02, 0x00, 0x00, 0x00, 0x00, 0x00, 0x00, 0x00, 0x00,
	0x01, 0x00, 0x00, 0x22,
	0x02, 0x00, 0x00, 0x04, 0x07, 0x07, 0x07, 0x07,
	0x02, 0x01, 0x00, 0x04, 0x07, 0x07, 0x07, 0x07,
	0x02, 0x02, 0x00, 0x04, 0x07, 0x07, 0x07, 0x07,
	0x02, 0x03, 0x00, 0x06, 0x01, 0x02, 0x03, 0x04, 0x05, 0x06,
	0x01, 0x01, 0x00, 0x22,
	0x02, 0x00, 0x00, 0x04, 0x07, 0x07, 0x07, 0x07,
	0x02, 0x01, 0x00, 0x04, 0x07, 0x07, 0x07, 0x07,
	0x02, 0x02, 0x00, 0x04, 0x07, 0x07, 0x07, 0x07,
	0x02, 0x03, 0x00, 0x06, 0x06, 0x05, 0x04, 0x03, 0x02, 0x01,
	0x01, 0x03, 0x00, 0x04, 0x01, 0x01, 0x01, 0x01,
	0x01, 0x04, 0x00, 0x04, 0x02, 0x02, 0x02, 0x02,
}

func c18LsPrefix(t byte) []byte {
	return []byte{
		0x00, t, 0x00, 0x35, 0x02, 0x00, 0x00, 0x00, 0x00, 0x00, 0x00, 0x00, 0x00,
		0x01, 0x00, 0x00, 0x22,
		0x02, 0x00, 0x00, 0x04, 0x07, 0x07, 0x07, 0x07,
		0x02, 0x01, 0x00, 0x04, 0x07, 0x07, 0x07, 0x07,
		0x02, 0x02, 0x00, 0x04, 0x07, 0x07, 0x07, 0x07,
		0x02, 0x03, 0x00, 0x06, 0x01, 0x02, 0x03, 0x04, 0x05, 0x06,
		0x01, 0x09, 0x00, 0x02, 0x08, 0x0a,
	}
}

var c18LsSrv6Sid = []byte{
	0x00, 0x06, 0x00, 0x31,
	0x02, 0x00, 0x00, 0x00, 0x00, 0x00, 0x00, 0x00, 0x00,
	0x01, 0x00, 0x00, 0x10,
	0x02, 0x00, 0x00, 0x04, 0x00, 0x00, 0xfd, 0xe8,
	0x02, 0x03, 0x00, 0x04, 0x0a, 0x00, 0x00, 0x01,
	0x02, 0x06, 0x00, 0x10,
	0xfd, 0x00, 0x00, 0x00, 0x00, 0x00, 0x00, 0x00, 0x00, 0x00, 0x00, 0x00, 0x00, 0x00, 0x00, 0x01,
}

var c18LsAttrNode = []byte{
	0x80, 0x1d, 0x5d, // BGP-LS attribute, type 29 (RFC 7752 3.3)
	0x04, 0x00, 0x00, 0x01, 0xFF,
	0x04, 0x01, 0x00, 0x03, 0x01, 0x02, 0x03,
	0x04, 0x02, 0x00, 0x03, 0x72, 0x74, 0x72,
	0x04, 0x03, 0x00, 0x03, 0x72, 0x74, 0x72,
	0x04, 0x04, 0x00, 0x04, 0x01, 0x01, 0x01, 0x01,
	0x04, 0x05, 0x00, 0x10, 0x20, 0x01, 0x0d, 0xb8, 0x00, 0x00, 0x00, 0x00, 0x00, 0x00, 0x00, 0x00, 0x00, 0x00, 0xBE, 0xEF,
	0x04, 0x0a, 0x00, 0x0c, 0x00, 0x00, 0x00, 0x88, 0xb8, 0x04, 0x89, 0x00, 0x03, 0x01, 0x88, 0x94,
	0x04, 0x0b, 0x00, 0x03, 0x01, 0x02, 0x03,
	0x04, 0x0c, 0x00, 0x0c, 0x00, 0x00, 0x00, 0x88, 0xb8, 0x04, 0x89, 0x00, 0x03, 0x01, 0x88, 0x94,
}

// link attributes: IPv4 router-id of local / remote node, admin group 0, TE default metric max,
// IGP metric (3 octets), link name
var c18LsAttrLink = []byte{
	0x80, 0x1d, 0x30,
	0x04, 0x04, 0x00, 0x04, 0x0a, 0x00, 0x00, 0x01,
	0x04, 0x06, 0x00, 0x04, 0x0a, 0x00, 0x00, 0x02,
	0x04, 0x40, 0x00, 0x04, 0x00, 0x00, 0x00, 0x00,
	0x04, 0x44, 0x00, 0x04, 0xff, 0xff, 0xff, 0xff,
	0x04, 0x47, 0x00, 0x03, 0x00, 0x00, 0x0a,
	0x04, 0x4a, 0x00, 0x05, 'l', 'i', 'n', 'k', '1',
}

// prefix attributes: IGP flags (down, local address), opaque, prefix SID (algorithm 0, 4-octet index)
var c18LsAttrPrefix = []byte{
	0x80, 0x1d, 0x16,
	0x04, 0x80, 0x00, 0x01, 0xa0,
	0x04, 0x85, 0x00, 0x01, 0x09,
	0x04, 0x86, 0x00, 0x08, 0x00, 0x00, 0x00, 0x00, 0x00, 0x00, 0x3e, 0x81,
}

// ---- helpers ------------------------------------------------------------------------------

func c18AttrN(a bgp.PathAttributeInterface, err error) (*c18Native, error) {
	if err != nil {
		return nil, err
	}
	return &c18Native{kind: "attr", attr: a}, nil
}

func c18NlriN(rf bgp.Family, n bgp.NLRI, err error) (*c18Native, error) {
	if err != nil {
		return nil, err
	}
	return &c18Native{kind: "nlri", nlri: n, family: rf}, nil
}

func c18CapN(c bgp.ParameterCapabilityInterface, err error) (*c18Native, error) {
	if err != nil {
		return nil, err
	}
	return &c18Native{kind: "cap", cap: c}, nil
}

// c18Reparse: the attribute as the codec delivers it when it is received from a peer.
func c18Reparse(a bgp.PathAttributeInterface, err error) (bgp.PathAttributeInterface, error) {
	if err != nil {
		return nil, err
	}
	b, err := a.Serialize()
	if err != nil {
		return nil, err
	}
	return c18ParseAttr(b)
}

func c18ParseAttr(raw []byte) (bgp.PathAttributeInterface, error) {
	b := append([]byte(nil), raw...)
	p, err := bgp.GetPathAttribute(b)
	if err != nil {
		return nil, err
	}
	if err := p.DecodeFromBytes(b); err != nil {
		return nil, err
	}
	return p, nil
}

func c18ReparseNlri(rf bgp.Family, n bgp.NLRI, err error) (bgp.NLRI, error) {
	if err != nil {
		return nil, err
	}
	b, err := n.Serialize()
	if err != nil {
		return nil, err
	}
	return bgp.NLRIFromSlice(rf, b)
}

func c18ReparseCap(c bgp.ParameterCapabilityInterface) (bgp.ParameterCapabilityInterface, error) {
	b, err := c.Serialize()
	if err != nil {
		return nil, err
	}
	p, err := bgp.DecodeCapability(b)
	if err != nil {
		return nil, err
	}
	return p, nil
}

func c18LsAttr(l *bgp.LsAttribute) (bgp.PathAttributeInterface, error) {
	tlvs := bgp.NewLsAttributeTLVs(l)
	var length uint16
	for _, t := range tlvs {
		length += uint16(t.Len())
	}
	t := bgp.BGP_ATTR_TYPE_LS
	return &bgp.PathAttributeLs{PathAttribute: bgp.PathAttribute{Flags: bgp.PathAttrFlags[t], Type: t, Length: length}, TLVs: tlvs}, nil
}

func c18P[T any](v T) *T { return &v }

func c18SegList(weight *bgp.SegmentListWeight, segs ...bgp.TunnelEncapSubTLVInterface) *bgp.TunnelEncapSubTLVSRSegmentList {
	l := uint16(1)
	if weight != nil {
		l += 6
	}
	for _, s := range segs {
		l += uint16(s.Len())
	}
	return &bgp.TunnelEncapSubTLVSRSegmentList{
		TunnelEncapSubTLV: bgp.TunnelEncapSubTLV{Type: bgp.ENCAP_SUBTLV_TYPE_SRSEGMENT_LIST, Length: l},
		Weight:            weight,
		Segments:          segs,
	}
}

func c18Weight(w uint32) *bgp.SegmentListWeight {
	return &bgp.SegmentListWeight{TunnelEncapSubTLV: bgp.TunnelEncapSubTLV{Type: bgp.SegmentListSubTLVWeight, Length: 6}, Flags: 0, Weight: w}
}

func c18SegA(label uint32, flags uint8) *bgp.SegmentTypeA {
	return &bgp.SegmentTypeA{TunnelEncapSubTLV: bgp.TunnelEncapSubTLV{Type: bgp.EncapSubTLVType(bgp.TypeA), Length: 6}, Flags: flags, Label: label}
}

func c18SegB(sid netip.Addr, flags uint8, ebs *bgp.SRv6EndpointBehaviorStructure) *bgp.SegmentTypeB {
	l := uint16(18)
	if ebs != nil {
		l += 6
	}
	return &bgp.SegmentTypeB{TunnelEncapSubTLV: bgp.TunnelEncapSubTLV{Type: bgp.EncapSubTLVType(bgp.TypeB), Length: l}, Flags: flags, SID: sid.AsSlice(), SRv6EBS: ebs}
}

// c18Bsid4: NewBSID takes the 20-bit label value and stores the MPLS label field (label << 12)
func c18Bsid4(label uint32, flags uint8) *bgp.TunnelEncapSubTLVSRBSID {
	b, _ := bgp.NewBSID([]byte{byte(label >> 24), byte(label >> 16), byte(label >> 8), byte(label)})
	return &bgp.TunnelEncapSubTLVSRBSID{
		TunnelEncapSubTLV: bgp.TunnelEncapSubTLV{Type: bgp.ENCAP_SUBTLV_TYPE_SRBINDING_SID, Length: uint16(2 + b.Len())},
		BSID:              b, Flags: flags,
	}
}

func c18SrPolicy(subs ...bgp.TunnelEncapSubTLVInterface) (bgp.PathAttributeInterface, error) {
	return bgp.NewPathAttributeTunnelEncap([]*bgp.TunnelEncapTLV{bgp.NewTunnelEncapTLV(bgp.TUNNEL_TYPE_SR_POLICY, subs)}), nil
}

// ---- the catalogue --------------------------------------------------------------------------

func c18Example(name string) (*c18Native, error) {
	rd := bgp.NewRouteDistinguisherTwoOctetAS(65000, 100)
	v4 := netip.MustParseAddr
	switch name {
	// BGP-LS attribute
	case "attr:ls-node":
		return c18AttrN(c18ParseAttr(c18LsAttrNode))
	case "attr:ls-link":
		return c18AttrN(c18ParseAttr(c18LsAttrLink))
	case "attr:ls-prefix":
		return c18AttrN(c18ParseAttr(c18LsAttrPrefix))
	case "attr:ls-srv6sid":
		return c18AttrN(c18LsAttr(&bgp.LsAttribute{Srv6SID: bgp.LsAttributeSrv6SID{
			Srv6SIDStructure:     &bgp.LsSrv6SIDStructure{LocalBlock: 40, LocalNode: 24, LocalFunc: 16, LocalArg: 0},
			Srv6EndpointBehavior: &bgp.LsSrv6EndpointBehavior{EndpointBehavior: 48, Flags: 0, Algorithm: 128},
		}}))
	case "attr:ls-bgp-peer":
		return c18AttrN(c18LsAttr(&bgp.LsAttribute{BgpPeerSegment: bgp.LsAttributeBgpPeerSegment{
			BgpPeerNodeSid:      &bgp.LsBgpPeerSegmentSID{Flags: bgp.LsAttributeBgpPeerSegmentSIDFlags{Value: true, Local: true}, Weight: 10, SID: 24001},
			BgpPeerAdjacencySid: &bgp.LsBgpPeerSegmentSID{Flags: bgp.LsAttributeBgpPeerSegmentSIDFlags{Value: true, Local: true, Backup: true}, Weight: 0, SID: 24002},
		}}))
	// SR policy (tunnel encapsulation type 15) sub-TLVs without constructor
	case "attr:srpolicy-full":
		return c18AttrN(c18SrPolicy(bgp.NewTunnelEncapSubTLVSRPreference(0, 100), c18Bsid4(24000, 0x80),
			bgp.NewTunnelEncapSubTLVSRPriority(5), bgp.NewTunnelEncapSubTLVSRCandidatePathName("cp1"),
			bgp.NewTunnelEncapSubTLVSRENLP(0, bgp.ENLPType1),
			c18SegList(c18Weight(12), c18SegA(16001<<12, 0), c18SegA(16002<<12, 0x80)),
			c18SegList(c18Weight(34), c18SegA(16003<<12, 0))))
	case "attr:srpolicy-parsed":
		return c18AttrN(c18Reparse(c18SrPolicy(bgp.NewTunnelEncapSubTLVSRPreference(0, 100), c18Bsid4(24000, 0x80),
			c18SegList(c18Weight(12), c18SegA(16001<<12, 0), c18SegA(16002<<12, 0x80)))))
	case "attr:srpolicy-noweight":
		// RFC 9830 2.4.4.1: the Weight sub-TLV of a segment list is optional
		return c18AttrN(c18Reparse(c18SrPolicy(bgp.NewTunnelEncapSubTLVSRPreference(0, 100),
			c18SegList(nil, c18SegA(16001<<12, 0)))))
	case "attr:srpolicy-srv6bsid":
		b, _ := bgp.NewBSID(v4("2001:db8::100").AsSlice())
		return c18AttrN(c18SrPolicy(bgp.NewTunnelEncapSubTLVSRPreference(0, 100), &bgp.TunnelEncapSubTLVSRv6BSID{
			TunnelEncapSubTLV: bgp.TunnelEncapSubTLV{Type: bgp.EncapSubTLVType(20), Length: uint16(2 + b.Len())},
			Flags:             0, BSID: b,
		}))
	case "attr:srpolicy-segtypeb":
		return c18AttrN(c18SrPolicy(c18SegList(c18Weight(1),
			c18SegB(v4("2001:db8::1"), 0, nil),
			c18SegB(v4("2001:db8::2"), 0x40, &bgp.SRv6EndpointBehaviorStructure{Behavior: bgp.END_DT4, BlockLen: 40, NodeLen: 24, FuncLen: 16, ArgLen: 0}))))
	// values as received
	case "attr:prefixsid-parsed":
		return c18AttrN(c18Reparse(bgp.NewPathAttributePrefixSID(bgp.NewSRv6ServiceTLV(bgp.TLVTypeSRv6L3Service,
			bgp.NewSRv6InformationSubTLV(v4("2001:db8::1"), bgp.END_DT4, bgp.NewSRv6SIDStructureSubSubTLV(40, 24, 16, 0, 16, 64)))), nil))
	case "attr:prefixsid-l2-parsed":
		return c18AttrN(c18Reparse(bgp.NewPathAttributePrefixSID(bgp.NewSRv6ServiceTLV(bgp.TLVTypeSRv6L2Service,
			bgp.NewSRv6InformationSubTLV(v4("2001:db8::1"), bgp.END_DX2, bgp.NewSRv6SIDStructureSubSubTLV(40, 24, 16, 0, 16, 64)))), nil))
	case "attr:pmsi-parsed":
		id, err := bgp.NewIngressReplTunnelID(v4("10.0.0.1"))
		if err != nil {
			return nil, err
		}
		return c18AttrN(c18Reparse(bgp.NewPathAttributePmsiTunnel(bgp.PMSI_TUNNEL_TYPE_INGRESS_REPL, true, 1000, id), nil))
	case "attr:tunnelencap-parsed":
		ep, err := bgp.NewTunnelEncapSubTLVEgressEndpoint(v4("10.0.0.1"))
		if err != nil {
			return nil, err
		}
		return c18AttrN(c18Reparse(bgp.NewPathAttributeTunnelEncap([]*bgp.TunnelEncapTLV{bgp.NewTunnelEncapTLV(bgp.TUNNEL_TYPE_VXLAN,
			[]bgp.TunnelEncapSubTLVInterface{bgp.NewTunnelEncapSubTLVColor(100), ep, bgp.NewTunnelEncapSubTLVUDPDestPort(4789),
				bgp.NewTunnelEncapSubTLVEncapsulation(100, []byte{1, 2, 3}), bgp.NewTunnelEncapSubTLVProtocol(0x0800),
				bgp.NewTunnelEncapSubTLVUnknown(99, []byte{7})})}), nil))
	case "attr:mpreach-ll-only":
		// next hop length 32 with an unspecified global address (RFC 2545 3): link-local only
		n, _ := bgp.NewIPAddrPrefix(netip.MustParsePrefix("2001:db8:1::/64"))
		return c18AttrN(bgp.NewPathAttributeMpReachNLRI(bgp.RF_IPv6_UC, []bgp.PathNLRI{{NLRI: n}}, v4("::"), v4("fe80::1")))
	case "attr:mpreach-vpn-parsed":
		n, _ := bgp.NewLabeledVPNIPAddrPrefix(netip.MustParsePrefix("10.1.2.0/24"), *bgp.NewMPLSLabelStack(16, 17), rd)
		return c18AttrN(c18Reparse(bgp.NewPathAttributeMpReachNLRI(bgp.RF_IPv4_VPN, []bgp.PathNLRI{{NLRI: n}}, v4("10.0.0.1"))))
	case "attr:mpunreach-eor":
		// End-of-RIB marker of a multiprotocol family: MP_UNREACH_NLRI without NLRI (RFC 4724 2)
		return c18AttrN(bgp.NewPathAttributeMpUnreachNLRI(bgp.RF_IPv6_UC, nil))
	case "attr:aspath-parsed":
		return c18AttrN(c18Reparse(bgp.NewPathAttributeAsPath([]bgp.AsPathParamInterface{bgp.NewAs4PathParam(2, []uint32{65000, 65001})}), nil))
	case "attr:extcomm-parsed-all":
		ip, err := bgp.NewIPv4AddressSpecificExtended(bgp.EC_SUBTYPE_ROUTE_TARGET, v4("192.0.2.1"), 3000, true)
		if err != nil {
			return nil, err
		}
		rip, err := bgp.NewRedirectIPv4AddressSpecificExtended(v4("192.0.2.9"), 7)
		if err != nil {
			return nil, err
		}
		return c18AttrN(c18Reparse(bgp.NewPathAttributeExtendedCommunities([]bgp.ExtendedCommunityInterface{
			bgp.NewTwoOctetAsSpecificExtended(bgp.EC_SUBTYPE_ROUTE_TARGET, 65000, 100, true),
			bgp.NewTwoOctetAsSpecificExtended(bgp.EC_SUBTYPE_ROUTE_ORIGIN, 65000, 100, false), ip,
			bgp.NewFourOctetAsSpecificExtended(bgp.EC_SUBTYPE_ROUTE_TARGET, 4200000001, 100, true),
			bgp.NewValidationExtended(bgp.VALIDATION_STATE_INVALID), bgp.NewLinkBandwidthExtended(65000, 125000), bgp.NewColorExtended(100),
			bgp.NewEncapExtended(bgp.TUNNEL_TYPE_VXLAN), bgp.NewDefaultGatewayExtended(), bgp.NewOpaqueExtended(true, []byte{1, 2, 3, 4, 5, 6, 7}),
			bgp.NewESILabelExtended(1000, true), bgp.NewESImportRouteTarget("00:11:22:33:44:55"), bgp.NewMacMobilityExtended(7, true),
			bgp.NewRoutersMacExtended("00:11:22:33:44:55"), bgp.NewTrafficRateExtended(65000, 1.5), bgp.NewTrafficActionExtended(true, true),
			bgp.NewRedirectTwoOctetAsSpecificExtended(65000, 9), rip, bgp.NewRedirectFourOctetAsSpecificExtended(4200000001, 9),
			bgp.NewTrafficRemarkExtended(46), bgp.NewVPLSExtended(3, 1500), bgp.NewETreeExtended(100, true),
			bgp.NewMulticastFlagsExtended(true, false), bgp.NewMUPExtended(bgp.EC_SUBTYPE_MUP_DIRECT_SEG, 10, 10),
			bgp.NewUnknownExtended(99, []byte{1, 2, 3, 4, 5, 6, 7}),
		}), nil))
	// NLRI
	case "nlri:ls-node":
		return c18NlriOf(bgp.RF_LS)(bgp.NLRIFromSlice(bgp.RF_LS, append([]byte(nil), c18LsNode...)))
	case "nlri:ls-link":
		return c18NlriOf(bgp.RF_LS)(bgp.NLRIFromSlice(bgp.RF_LS, append([]byte(nil), c18LsLink...)))
	case "nlri:ls-prefix4":
		return c18NlriOf(bgp.RF_LS)(bgp.NLRIFromSlice(bgp.RF_LS, c18LsPrefix(3)))
	case "nlri:ls-prefix6":
		return c18NlriOf(bgp.RF_LS)(bgp.NLRIFromSlice(bgp.RF_LS, c18LsPrefix(4)))
	case "nlri:ls-srv6sid":
		return c18NlriOf(bgp.RF_LS)(bgp.NLRIFromSlice(bgp.RF_LS, append([]byte(nil), c18LsSrv6Sid...)))
	case "nlri:evpn-macadv-parsed":
		n, err := bgp.NewEVPNMacIPAdvertisementRoute(rd, bgp.EthernetSegmentIdentifier{Type: bgp.ESI_ARBITRARY, Value: make([]byte, 9)}, 10,
			"00:11:22:33:44:55", v4("10.0.0.1"), []uint32{100, 200})
		return c18NlriOf(bgp.RF_EVPN)(c18ReparseNlri(bgp.RF_EVPN, n, err))
	case "nlri:evpn-ipmsi-parsed":
		return c18NlriOf(bgp.RF_EVPN)(c18ReparseNlri(bgp.RF_EVPN,
			bgp.NewEVPNIPMSIRoute(rd, 10, bgp.NewTwoOctetAsSpecificExtended(bgp.EC_SUBTYPE_ROUTE_TARGET, 65000, 100, true)), nil))
	case "nlri:vpls-parsed":
		return c18NlriOf(bgp.RF_VPLS)(c18ReparseNlri(bgp.RF_VPLS, bgp.NewVPLSNLRI(rd, 1, 2, 8, 1000), nil))
	case "nlri:rtc-default-parsed":
		return c18NlriOf(bgp.RF_RTC_UC)(c18ReparseNlri(bgp.RF_RTC_UC, bgp.NewRouteTargetMembershipNLRI(0, nil), nil))
	case "nlri:flowspec-parsed":
		p, _ := bgp.NewIPAddrPrefix(netip.MustParsePrefix("10.1.2.0/24"))
		n, err := bgp.NewFlowSpecUnicast(bgp.RF_FS_IPv4_UC, []bgp.FlowSpecComponentInterface{bgp.NewFlowSpecDestinationPrefix(p),
			bgp.NewFlowSpecComponent(bgp.FLOW_SPEC_TYPE_IP_PROTO, []*bgp.FlowSpecComponentItem{bgp.NewFlowSpecComponentItem(bgp.DEC_NUM_OP_EQ, 6)}),
			bgp.NewFlowSpecComponent(bgp.FLOW_SPEC_TYPE_TCP_FLAG, []*bgp.FlowSpecComponentItem{bgp.NewFlowSpecComponentItem(bgp.BITMASK_FLAG_OP_MATCH, 0x12)})})
		return c18NlriOf(bgp.RF_FS_IPv4_UC)(c18ReparseNlri(bgp.RF_FS_IPv4_UC, n, err))
	case "nlri:flowspec-wide-parsed":
		// dst-port = 80 with a two-octet operand (operator 0x91): valid, not minimal
		return c18NlriOf(bgp.RF_FS_IPv4_UC)(bgp.NLRIFromSlice(bgp.RF_FS_IPv4_UC, []byte{0x04, 0x05, 0x91, 0x00, 0x50}))
	case "nlri:flowspec6-wide-parsed":
		// flow label = 0xfffff with an eight-octet operand (operator 0xb1)
		return c18NlriOf(bgp.RF_FS_IPv6_UC)(bgp.NLRIFromSlice(bgp.RF_FS_IPv6_UC, []byte{0x0a, 0x0d, 0xb1, 0, 0, 0, 0, 0, 0x0f, 0xff, 0xff}))
	case "nlri:prefix-hostbits-parsed":
		// 10.1.255.0/20 as received with the bits behind the prefix length set in the last octet
		return c18NlriOf(bgp.RF_IPv4_UC)(bgp.NLRIFromSlice(bgp.RF_IPv4_UC, []byte{0x14, 0x0a, 0x01, 0xff}))
	case "nlri:vpn-hostbits-parsed":
		n, err := bgp.NewLabeledVPNIPAddrPrefix(netip.MustParsePrefix("10.1.255.3/20"), *bgp.NewMPLSLabelStack(16), rd)
		return c18NlriOf(bgp.RF_IPv4_VPN)(c18ReparseNlri(bgp.RF_IPv4_VPN, n, err))
	case "nlri:labeled-two-labels-parsed":
		n, err := bgp.NewLabeledIPAddrPrefix(netip.MustParsePrefix("10.1.2.0/24"), *bgp.NewMPLSLabelStack(16, 17))
		return c18NlriOf(bgp.RF_IPv4_MPLS)(c18ReparseNlri(bgp.RF_IPv4_MPLS, n, err))
	case "nlri:mup-t1st-parsed":
		sa := v4("10.0.0.3")
		return c18NlriOf(bgp.RF_MUP_IPv4)(c18ReparseNlri(bgp.RF_MUP_IPv4,
			bgp.NewMUPType1SessionTransformedRoute(rd, netip.MustParsePrefix("10.1.2.3/32"), v4("0.0.0.100"), 9, v4("10.0.0.2"), &sa), nil))
	case "nlri:srpolicy-parsed":
		n, err := bgp.NewSRPolicy(bgp.RF_SR_POLICY_IPv4, bgp.SRPolicyIPv4NLRILen, 1, 100, []byte{10, 0, 0, 1})
		return c18NlriOf(bgp.RF_SR_POLICY_IPv4)(c18ReparseNlri(bgp.RF_SR_POLICY_IPv4, n, err))
	case "nlri:labeled-withdraw":
		// a withdrawn labelled prefix carries the withdraw label 0x800000 (RFC 8277 2.4)
		n, err := bgp.NewLabeledIPAddrPrefix(netip.MustParsePrefix("10.1.2.0/24"), *bgp.NewMPLSLabelStack(bgp.WITHDRAW_LABEL))
		return c18NlriOf(bgp.RF_IPv4_MPLS)(n, err)
	// capabilities as received
	case "cap:gr-parsed":
		return c18CapN(c18ReparseCap(bgp.NewCapGracefulRestart(true, true, 120, []*bgp.CapGracefulRestartTuple{
			bgp.NewCapGracefulRestartTuple(bgp.RF_IPv4_UC, true), bgp.NewCapGracefulRestartTuple(bgp.RF_EVPN, false)})))
	case "cap:llgr-parsed":
		return c18CapN(c18ReparseCap(bgp.NewCapLongLivedGracefulRestart([]*bgp.CapLongLivedGracefulRestartTuple{
			bgp.NewCapLongLivedGracefulRestartTuple(bgp.RF_IPv4_UC, true, 3600)})))
	case "cap:extnh-parsed":
		return c18CapN(c18ReparseCap(bgp.NewCapExtendedNexthop([]*bgp.CapExtendedNexthopTuple{
			bgp.NewCapExtendedNexthopTuple(bgp.RF_IPv4_UC, bgp.AFI_IP6), bgp.NewCapExtendedNexthopTuple(bgp.RF_IPv4_VPN, bgp.AFI_IP6)})))
	case "cap:softver-parsed":
		return c18CapN(c18ReparseCap(bgp.NewCapSoftwareVersion("GoBGP/4.0.0")))
	case "cap:fqdn-parsed":
		return c18CapN(c18ReparseCap(bgp.NewCapFQDN("r1", "example.net")))
	}
	return nil, fmt.Errorf("no example %q", name)
}

// c18NlriOf lets the catalogue write  c18NlriOf(rf)(constructor(...))
func c18NlriOf(rf bgp.Family) func(bgp.NLRI, error) (*c18Native, error) {
	return func(x bgp.NLRI, err error) (*c18Native, error) { return c18NlriN(rf, x, err) }
}
