// C18: abstract (API-shaped) record -> NATIVE value, built with the library's constructors only.
// This is the harness's independent concretisation of a value of the vocabulary of
// spec/ApiConvDom.tla; it never calls a converter of pkg/apiutil.
package server

import (
	"fmt"
	"net"
	"net/netip"

	api "github.com/osrg/gobgp/v4/api"
	"github.com/osrg/gobgp/v4/pkg/packet/bgp"
)

func c18Build(kind string, val any, hint c18M) (n *c18Native, err error) {
	defer func() {
		if r := recover(); r != nil {
			n, err = nil, fmt.Errorf("builder panic: %v", r)
		}
	}()
	switch kind {
	case "attr":
		a, err := c18BuildAttr(c18Map(val), hint)
		if err != nil {
			return nil, err
		}
		return &c18Native{kind: kind, attr: a}, nil
	case "nlri":
		m := c18Map(val)
		rf := c18Family(c18Map(m["family"]))
		x, err := c18BuildNLRI(rf, c18Map(m["nlri"]))
		if err != nil {
			return nil, err
		}
		return &c18Native{kind: kind, nlri: x, family: rf}, nil
	case "cap":
		c, err := c18BuildCap(c18Map(val))
		if err != nil {
			return nil, err
		}
		return &c18Native{kind: kind, cap: c}, nil
	}
	return nil, fmt.Errorf("unknown kind %q", kind)
}

func c18Family(m c18M) bgp.Family {
	afi, ok := api.Family_Afi_value[c18S(m, "afi")]
	if !ok {
		panic("unknown afi " + c18S(m, "afi"))
	}
	safi, ok := api.Family_Safi_value[c18S(m, "safi")]
	if !ok {
		panic("unknown safi " + c18S(m, "safi"))
	}
	return bgp.NewFamily(uint16(afi), uint8(safi))
}

func c18SegType(s string) uint8 {
	v, ok := api.AsSegment_Type_value[s]
	if !ok {
		panic("unknown segment type " + s)
	}
	return uint8(v)
}

// ---------------------------------------------------------------------------------------
// path attributes

func c18BuildAttr(val c18M, hint c18M) (bgp.PathAttributeInterface, error) {
	t, m := c18One(val)
	as2 := c18S(hint, "askind") == "2"
	switch t {
	case "origin":
		return bgp.NewPathAttributeOrigin(uint8(c18U(m, "origin"))), nil
	case "as_path":
		params := []bgp.AsPathParamInterface{}
		for _, s := range c18L(m, "segments") {
			sm := c18Map(s)
			nums := c18UL(sm, "numbers")
			if as2 {
				n16 := make([]uint16, len(nums))
				for i, x := range nums {
					n16[i] = uint16(x)
				}
				params = append(params, bgp.NewAsPathParam(c18SegType(c18S(sm, "type")), n16))
			} else {
				params = append(params, bgp.NewAs4PathParam(c18SegType(c18S(sm, "type")), nums))
			}
		}
		return bgp.NewPathAttributeAsPath(params), nil
	case "next_hop":
		return bgp.NewPathAttributeNextHop(c18Addr(c18S(m, "next_hop")))
	case "multi_exit_disc":
		return bgp.NewPathAttributeMultiExitDisc(uint32(c18U(m, "med"))), nil
	case "local_pref":
		return bgp.NewPathAttributeLocalPref(uint32(c18U(m, "local_pref"))), nil
	case "atomic_aggregate":
		return bgp.NewPathAttributeAtomicAggregate(), nil
	case "aggregator":
		if as2 {
			return bgp.NewPathAttributeAggregator(uint16(c18U(m, "asn")), c18Addr(c18S(m, "address")))
		}
		return bgp.NewPathAttributeAggregator(uint32(c18U(m, "asn")), c18Addr(c18S(m, "address")))
	case "communities":
		return bgp.NewPathAttributeCommunities(c18UL(m, "communities")), nil
	case "originator_id":
		return bgp.NewPathAttributeOriginatorId(c18Addr(c18S(m, "id")))
	case "cluster_list":
		l := []netip.Addr{}
		for _, s := range c18L(m, "ids") {
			l = append(l, c18Addr(s.(string)))
		}
		return bgp.NewPathAttributeClusterList(l)
	case "mp_reach":
		rf := c18Family(c18Map(m["family"]))
		nl, err := c18PathNLRIs(rf, c18L(m, "nlris"))
		if err != nil {
			return nil, err
		}
		nhs := []netip.Addr{}
		for _, s := range c18L(m, "next_hops") {
			nhs = append(nhs, c18Addr(s.(string)))
		}
		if c18S(hint, "nhform") == "mapped" && len(nhs) > 0 && nhs[0].Is4() {
			// the same IPv4 next hop held in IPv4-mapped IPv6 form
			nhs[0] = netip.AddrFrom16(nhs[0].As16())
		}
		a, err := bgp.NewPathAttributeMpReachNLRI(rf, nl, nhs...)
		if err != nil {
			return nil, err
		}
		return a, nil
	case "mp_unreach":
		rf := c18Family(c18Map(m["family"]))
		nl, err := c18PathNLRIs(rf, c18L(m, "nlris"))
		if err != nil {
			return nil, err
		}
		return bgp.NewPathAttributeMpUnreachNLRI(rf, nl)
	case "extended_communities":
		l := []bgp.ExtendedCommunityInterface{}
		for _, c := range c18L(m, "communities") {
			e, err := c18BuildExtCom(c18Map(c))
			if err != nil {
				return nil, err
			}
			l = append(l, e)
		}
		return bgp.NewPathAttributeExtendedCommunities(l), nil
	case "as4_path":
		params := []*bgp.As4PathParam{}
		for _, s := range c18L(m, "segments") {
			sm := c18Map(s)
			params = append(params, bgp.NewAs4PathParam(c18SegType(c18S(sm, "type")), c18UL(sm, "numbers")))
		}
		return bgp.NewPathAttributeAs4Path(params), nil
	case "as4_aggregator":
		return bgp.NewPathAttributeAs4Aggregator(uint32(c18U(m, "asn")), c18Addr(c18S(m, "address")))
	case "pmsi_tunnel":
		typ := bgp.PmsiTunnelType(c18U(m, "type"))
		idb := c18Bytes(m, "id")
		var id bgp.PmsiTunnelIDInterface
		if typ == bgp.PMSI_TUNNEL_TYPE_INGRESS_REPL {
			a, ok := netip.AddrFromSlice(idb)
			if !ok {
				return nil, fmt.Errorf("bad ingress replication id")
			}
			x, err := bgp.NewIngressReplTunnelID(a)
			if err != nil {
				return nil, err
			}
			id = x
		} else {
			id = bgp.NewDefaultPmsiTunnelID(idb)
		}
		fl := c18U(m, "flags")
		if fl > 1 {
			return nil, fmt.Errorf("pmsi flags %d have no native form", fl)
		}
		return bgp.NewPathAttributePmsiTunnel(typ, fl == 1, uint32(c18U(m, "label")), id), nil
	case "tunnel_encap":
		tlvs := []*bgp.TunnelEncapTLV{}
		for _, t := range c18L(m, "tlvs") {
			tm := c18Map(t)
			subs := []bgp.TunnelEncapSubTLVInterface{}
			for _, s := range c18L(tm, "tlvs") {
				x, err := c18BuildEncapSub(c18Map(s))
				if err != nil {
					return nil, err
				}
				subs = append(subs, x)
			}
			tlvs = append(tlvs, bgp.NewTunnelEncapTLV(bgp.TunnelType(c18U(tm, "type")), subs))
		}
		return bgp.NewPathAttributeTunnelEncap(tlvs), nil
	case "ip6_extended_communities":
		l := []bgp.ExtendedCommunityInterface{}
		for _, c := range c18L(m, "communities") {
			k, cm := c18One(c18Map(c))
			switch k {
			case "ipv6_address_specific":
				e, err := bgp.NewIPv6AddressSpecificExtended(bgp.ExtendedCommunityAttrSubType(c18U(cm, "sub_type")),
					c18Addr(c18S(cm, "address")), uint16(c18U(cm, "local_admin")), c18B(cm, "is_transitive"))
				if err != nil {
					return nil, err
				}
				l = append(l, e)
			case "redirect_ipv6_address_specific":
				e, err := bgp.NewRedirectIPv6AddressSpecificExtended(c18Addr(c18S(cm, "address")), uint16(c18U(cm, "local_admin")))
				if err != nil {
					return nil, err
				}
				l = append(l, e)
			default:
				return nil, fmt.Errorf("unknown ipv6 extended community %q", k)
			}
		}
		return bgp.NewPathAttributeIP6ExtendedCommunities(l), nil
	case "aigp":
		l := []bgp.AigpTLVInterface{}
		for _, t := range c18L(m, "tlvs") {
			k, tm := c18One(c18Map(t))
			switch k {
			case "igp_metric":
				l = append(l, bgp.NewAigpTLVIgpMetric(c18U(tm, "metric")))
			case "unknown":
				l = append(l, bgp.NewAigpTLVDefault(bgp.AigpTLVType(c18U(tm, "type")), c18Bytes(tm, "value")))
			default:
				return nil, fmt.Errorf("unknown aigp tlv %q", k)
			}
		}
		return bgp.NewPathAttributeAigp(l), nil
	case "large_communities":
		l := []*bgp.LargeCommunity{}
		for _, c := range c18L(m, "communities") {
			cm := c18Map(c)
			l = append(l, bgp.NewLargeCommunity(uint32(c18U(cm, "global_admin")), uint32(c18U(cm, "local_data1")), uint32(c18U(cm, "local_data2"))))
		}
		return bgp.NewPathAttributeLargeCommunities(l), nil
	case "prefix_sid":
		tl := []bgp.PrefixSIDTLVInterface{}
		for _, t := range c18L(m, "tlvs") {
			k, tm := c18One(c18Map(t))
			var typ bgp.TLVType
			switch k {
			case "l3_service":
				typ = bgp.TLVTypeSRv6L3Service
			case "l2_service":
				typ = bgp.TLVTypeSRv6L2Service
			default:
				return nil, fmt.Errorf("unknown prefix sid tlv %q", k)
			}
			subs := []bgp.PrefixSIDTLVInterface{}
			// the API keys sub TLVs by type; the vocabulary only uses type 1 (SRv6 Information)
			for key, grp := range c18Map(tm["sub_tlvs"]) {
				if key != "1" {
					return nil, fmt.Errorf("sub tlv key %s not in the vocabulary", key)
				}
				for _, s := range c18L(c18Map(grp), "tlvs") {
					_, im := c18One(c18Map(s))
					sid, ok := netip.AddrFromSlice(c18Bytes(im, "sid"))
					if !ok {
						return nil, fmt.Errorf("bad sid")
					}
					subsub := []bgp.PrefixSIDTLVInterface{}
					for key2, grp2 := range c18Map(im["sub_sub_tlvs"]) {
						if key2 != "1" {
							return nil, fmt.Errorf("sub sub tlv key %s not in the vocabulary", key2)
						}
						for _, ss := range c18L(c18Map(grp2), "tlvs") {
							_, sm := c18One(c18Map(ss))
							subsub = append(subsub, bgp.NewSRv6SIDStructureSubSubTLV(
								uint8(c18U(sm, "locator_block_length")), uint8(c18U(sm, "locator_node_length")),
								uint8(c18U(sm, "function_length")), uint8(c18U(sm, "argument_length")),
								uint8(c18U(sm, "transposition_length")), uint8(c18U(sm, "transposition_offset"))))
						}
					}
					subs = append(subs, bgp.NewSRv6InformationSubTLV(sid, bgp.SRBehavior(c18U(im, "endpoint_behavior")), subsub...))
				}
			}
			tl = append(tl, bgp.NewSRv6ServiceTLV(typ, subs...))
		}
		return bgp.NewPathAttributePrefixSID(tl...), nil
	case "unknown":
		return bgp.NewPathAttributeUnknown(bgp.BGPAttrFlag(c18U(m, "flags")), bgp.BGPAttrType(c18U(m, "type")), c18Bytes(m, "value")), nil
	}
	return nil, fmt.Errorf("no builder for attribute %q", t)
}

func c18PathNLRIs(rf bgp.Family, l []any) ([]bgp.PathNLRI, error) {
	out := []bgp.PathNLRI{}
	for _, e := range l {
		n, err := c18BuildNLRI(rf, c18Map(e))
		if err != nil {
			return nil, err
		}
		out = append(out, bgp.PathNLRI{NLRI: n})
	}
	return out, nil
}

func c18BuildExtCom(c c18M) (bgp.ExtendedCommunityInterface, error) {
	k, m := c18One(c)
	st := bgp.ExtendedCommunityAttrSubType(c18U(m, "sub_type"))
	switch k {
	case "two_octet_as_specific":
		return bgp.NewTwoOctetAsSpecificExtended(st, uint16(c18U(m, "asn")), uint32(c18U(m, "local_admin")), c18B(m, "is_transitive")), nil
	case "ipv4_address_specific":
		return bgp.NewIPv4AddressSpecificExtended(st, c18Addr(c18S(m, "address")), uint16(c18U(m, "local_admin")), c18B(m, "is_transitive"))
	case "four_octet_as_specific":
		return bgp.NewFourOctetAsSpecificExtended(st, uint32(c18U(m, "asn")), uint16(c18U(m, "local_admin")), c18B(m, "is_transitive")), nil
	case "validation":
		return bgp.NewValidationExtended(bgp.ValidationState(c18U(m, "state"))), nil
	case "link_bandwidth":
		return bgp.NewLinkBandwidthExtended(uint16(c18U(m, "asn")), c18F(m, "bandwidth")), nil
	case "color":
		return bgp.NewColorExtended(uint32(c18U(m, "color"))), nil
	case "encap":
		return bgp.NewEncapExtended(bgp.TunnelType(c18U(m, "tunnel_type"))), nil
	case "default_gateway":
		return bgp.NewDefaultGatewayExtended(), nil
	case "opaque":
		return bgp.NewOpaqueExtended(c18B(m, "is_transitive"), c18Bytes(m, "value")), nil
	case "esi_label":
		return bgp.NewESILabelExtended(uint32(c18U(m, "label")), c18B(m, "is_single_active")), nil
	case "es_import":
		e := bgp.NewESImportRouteTarget(c18S(m, "es_import"))
		if e == nil {
			return nil, fmt.Errorf("bad es-import mac")
		}
		return e, nil
	case "mac_mobility":
		return bgp.NewMacMobilityExtended(uint32(c18U(m, "sequence_num")), c18B(m, "is_sticky")), nil
	case "router_mac":
		e := bgp.NewRoutersMacExtended(c18S(m, "mac"))
		if e == nil {
			return nil, fmt.Errorf("bad router mac")
		}
		return e, nil
	case "traffic_rate":
		return bgp.NewTrafficRateExtended(uint16(c18U(m, "asn")), c18F(m, "rate")), nil
	case "traffic_action":
		return bgp.NewTrafficActionExtended(c18B(m, "terminal"), c18B(m, "sample")), nil
	case "redirect_two_octet_as_specific":
		return bgp.NewRedirectTwoOctetAsSpecificExtended(uint16(c18U(m, "asn")), uint32(c18U(m, "local_admin"))), nil
	case "redirect_ipv4_address_specific":
		return bgp.NewRedirectIPv4AddressSpecificExtended(c18Addr(c18S(m, "address")), uint16(c18U(m, "local_admin")))
	case "redirect_four_octet_as_specific":
		return bgp.NewRedirectFourOctetAsSpecificExtended(uint32(c18U(m, "asn")), uint16(c18U(m, "local_admin"))), nil
	case "traffic_remark":
		return bgp.NewTrafficRemarkExtended(uint8(c18U(m, "dscp"))), nil
	case "mup_two_octet_as_specific":
		return bgp.NewMUPExtended(st, uint16(c18U(m, "asn")), uint32(c18U(m, "local_admin"))), nil
	case "mup_ipv4_address_specific":
		return bgp.NewMUPIPv4AddressSpecificExtended(st, c18Addr(c18S(m, "address")), uint16(c18U(m, "local_admin")))
	case "mup_four_octet_as_specific":
		return bgp.NewMUPFourOctetAsSpecificExtended(st, uint32(c18U(m, "asn")), uint16(c18U(m, "local_admin"))), nil
	case "vpls":
		return bgp.NewVPLSExtended(uint8(c18U(m, "control_flags")), uint16(c18U(m, "mtu"))), nil
	case "etree":
		return bgp.NewETreeExtended(uint32(c18U(m, "label")), c18B(m, "is_leaf")), nil
	case "multicast_flags":
		return bgp.NewMulticastFlagsExtended(c18B(m, "is_igmp_proxy"), c18B(m, "is_mld_proxy")), nil
	case "unknown":
		return bgp.NewUnknownExtended(bgp.ExtendedCommunityAttrType(c18U(m, "type")), c18Bytes(m, "value")), nil
	}
	return nil, fmt.Errorf("no builder for extended community %q", k)
}

func c18BuildRT(c c18M) (bgp.ExtendedCommunityInterface, error) {
	k, _ := c18One(c)
	switch k {
	case "two_octet_as_specific", "ipv4_address_specific", "four_octet_as_specific":
		return c18BuildExtCom(c)
	}
	return nil, fmt.Errorf("no builder for route target %q", k)
}

func c18BuildEncapSub(s c18M) (bgp.TunnelEncapSubTLVInterface, error) {
	k, m := c18One(s)
	switch k {
	case "encapsulation":
		return bgp.NewTunnelEncapSubTLVEncapsulation(uint32(c18U(m, "key")), c18Bytes(m, "cookie")), nil
	case "protocol":
		return bgp.NewTunnelEncapSubTLVProtocol(uint16(c18U(m, "protocol"))), nil
	case "color":
		return bgp.NewTunnelEncapSubTLVColor(uint32(c18U(m, "color"))), nil
	case "egress_endpoint":
		return bgp.NewTunnelEncapSubTLVEgressEndpoint(c18Addr(c18S(m, "address")))
	case "udp_dest_port":
		return bgp.NewTunnelEncapSubTLVUDPDestPort(uint16(c18U(m, "port"))), nil
	case "sr_preference":
		return bgp.NewTunnelEncapSubTLVSRPreference(uint32(c18U(m, "flags")), uint32(c18U(m, "preference"))), nil
	case "sr_priority":
		return bgp.NewTunnelEncapSubTLVSRPriority(uint8(c18U(m, "priority"))), nil
	case "sr_candidate_path_name":
		return bgp.NewTunnelEncapSubTLVSRCandidatePathName(c18S(m, "candidate_path_name")), nil
	case "sr_enlp":
		v, ok := api.ENLPType_value[c18S(m, "enlp")]
		if !ok {
			return nil, fmt.Errorf("unknown enlp %q", c18S(m, "enlp"))
		}
		return bgp.NewTunnelEncapSubTLVSRENLP(uint32(c18U(m, "flags")), bgp.SRENLPValue(v)), nil
	case "unknown":
		return bgp.NewTunnelEncapSubTLVUnknown(bgp.EncapSubTLVType(c18U(m, "type")), c18Bytes(m, "value")), nil
	}
	return nil, fmt.Errorf("no builder for tunnel encapsulation sub-TLV %q", k)
}

// ---------------------------------------------------------------------------------------
// NLRI

func c18BuildRD(c c18M) (bgp.RouteDistinguisherInterface, error) {
	k, m := c18One(c)
	switch k {
	case "two_octet_asn":
		return bgp.NewRouteDistinguisherTwoOctetAS(uint16(c18U(m, "admin")), uint32(c18U(m, "assigned"))), nil
	case "ip_address":
		return bgp.NewRouteDistinguisherIPAddressAS(c18Addr(c18S(m, "admin")), uint16(c18U(m, "assigned")))
	case "four_octet_asn":
		return bgp.NewRouteDistinguisherFourOctetAS(uint32(c18U(m, "admin")), uint16(c18U(m, "assigned"))), nil
	}
	return nil, fmt.Errorf("no builder for route distinguisher %q", k)
}

func c18ESI(m c18M) bgp.EthernetSegmentIdentifier {
	return bgp.EthernetSegmentIdentifier{Type: bgp.ESIType(c18U(m, "type")), Value: c18Bytes(m, "value")}
}

func c18Prefix(m c18M) netip.Prefix {
	return netip.PrefixFrom(c18Addr(c18S(m, "prefix")), int(c18U(m, "prefix_len")))
}

func c18Teid(v uint64) netip.Addr {
	return netip.AddrFrom4([4]byte{byte(v >> 24), byte(v >> 16), byte(v >> 8), byte(v)})
}

func c18BuildMupTLVs(l []any) ([]bgp.MUPTLVInterface, error) {
	out := []bgp.MUPTLVInterface{}
	for _, e := range l {
		k, m := c18One(c18Map(e))
		switch k {
		case "session_parameters":
			out = append(out, bgp.NewMUPSessionParametersTLV(c18Teid(c18U(m, "teid")), uint8(c18U(m, "qfi"))))
		case "interwork_endpoint":
			out = append(out, bgp.NewMUPInterworkEndpointTLV(c18Addr(c18S(m, "address"))))
		case "source_address":
			out = append(out, bgp.NewMUPSourceAddressTLV(c18Addr(c18S(m, "address"))))
		case "unknown":
			out = append(out, bgp.NewMUPUnknownTLV(uint8(c18U(m, "type")), c18Bytes(m, "value")))
		default:
			return nil, fmt.Errorf("no builder for mup tlv %q", k)
		}
	}
	return out, nil
}

func c18BuildFlowRules(l []any) ([]bgp.FlowSpecComponentInterface, error) {
	out := []bgp.FlowSpecComponentInterface{}
	for _, e := range l {
		k, m := c18One(c18Map(e))
		switch k {
		case "ip_prefix":
			typ := bgp.BGPFlowSpecType(c18U(m, "type"))
			p, err := bgp.NewIPAddrPrefix(netip.PrefixFrom(c18Addr(c18S(m, "prefix")), int(c18U(m, "prefix_len"))))
			if err != nil {
				return nil, err
			}
			v4 := c18Addr(c18S(m, "prefix")).Is4()
			switch {
			case typ == bgp.FLOW_SPEC_TYPE_DST_PREFIX && v4:
				out = append(out, bgp.NewFlowSpecDestinationPrefix(p))
			case typ == bgp.FLOW_SPEC_TYPE_SRC_PREFIX && v4:
				out = append(out, bgp.NewFlowSpecSourcePrefix(p))
			case typ == bgp.FLOW_SPEC_TYPE_DST_PREFIX:
				out = append(out, bgp.NewFlowSpecDestinationPrefix6(p, uint8(c18U(m, "offset"))))
			case typ == bgp.FLOW_SPEC_TYPE_SRC_PREFIX:
				out = append(out, bgp.NewFlowSpecSourcePrefix6(p, uint8(c18U(m, "offset"))))
			default:
				return nil, fmt.Errorf("bad flowspec prefix type %d", typ)
			}
		case "mac":
			mac, err := net.ParseMAC(c18S(m, "address"))
			if err != nil {
				return nil, err
			}
			if bgp.BGPFlowSpecType(c18U(m, "type")) == bgp.FLOW_SPEC_TYPE_SRC_MAC {
				out = append(out, bgp.NewFlowSpecSourceMac(mac))
			} else {
				out = append(out, bgp.NewFlowSpecDestinationMac(mac))
			}
		case "component":
			items := []*bgp.FlowSpecComponentItem{}
			for _, it := range c18L(m, "items") {
				im := c18Map(it)
				items = append(items, bgp.NewFlowSpecComponentItem(uint8(c18U(im, "op")), c18U(im, "value")))
			}
			out = append(out, bgp.NewFlowSpecComponent(bgp.BGPFlowSpecType(c18U(m, "type")), items))
		default:
			return nil, fmt.Errorf("no builder for flowspec rule %q", k)
		}
	}
	return out, nil
}

func c18BuildNLRI(rf bgp.Family, val c18M) (bgp.NLRI, error) {
	k, m := c18One(val)
	rd := func() bgp.RouteDistinguisherInterface {
		r, err := c18BuildRD(c18Map(m["rd"]))
		if err != nil {
			panic(err)
		}
		return r
	}
	switch k {
	case "prefix":
		return bgp.NewIPAddrPrefix(c18Prefix(m))
	case "labeled_prefix":
		return bgp.NewLabeledIPAddrPrefix(c18Prefix(m), *bgp.NewMPLSLabelStack(c18UL(m, "labels")...))
	case "encapsulation":
		return bgp.NewEncapNLRI(c18Addr(c18S(m, "address")))
	case "vpls":
		return bgp.NewVPLSNLRI(rd(), uint16(c18U(m, "ve_id")), uint16(c18U(m, "ve_block_offset")), uint16(c18U(m, "ve_block_size")), uint32(c18U(m, "label_block_base"))), nil
	case "evpn_ethernet_ad":
		return bgp.NewEVPNEthernetAutoDiscoveryRoute(rd(), c18ESI(c18Map(m["esi"])), uint32(c18U(m, "ethernet_tag")), uint32(c18U(m, "label"))), nil
	case "evpn_macadv":
		var ip netip.Addr
		if s := c18S(m, "ip_address"); s != "" {
			ip = c18Addr(s)
		}
		return bgp.NewEVPNMacIPAdvertisementRoute(rd(), c18ESI(c18Map(m["esi"])), uint32(c18U(m, "ethernet_tag")), c18S(m, "mac_address"), ip, c18UL(m, "labels"))
	case "evpn_multicast":
		return bgp.NewEVPNMulticastEthernetTagRoute(rd(), uint32(c18U(m, "ethernet_tag")), c18Addr(c18S(m, "ip_address")))
	case "evpn_ethernet_segment":
		return bgp.NewEVPNEthernetSegmentRoute(rd(), c18ESI(c18Map(m["esi"])), c18Addr(c18S(m, "ip_address")))
	case "evpn_ip_prefix":
		return bgp.NewEVPNIPPrefixRoute(rd(), c18ESI(c18Map(m["esi"])), uint32(c18U(m, "ethernet_tag")), uint8(c18U(m, "ip_prefix_len")),
			c18Addr(c18S(m, "ip_prefix")), c18Addr(c18S(m, "gw_address")), uint32(c18U(m, "label")))
	case "evpn_i_pmsi":
		rt, err := c18BuildRT(c18Map(m["rt"]))
		if err != nil {
			return nil, err
		}
		return bgp.NewEVPNIPMSIRoute(rd(), uint32(c18U(m, "ethernet_tag")), rt), nil
	case "labeled_vpn_ip_prefix":
		return bgp.NewLabeledVPNIPAddrPrefix(c18Prefix(m), *bgp.NewMPLSLabelStack(c18UL(m, "labels")...), rd())
	case "route_target_membership":
		var rt bgp.ExtendedCommunityInterface
		if c18Has(m, "rt") {
			x, err := c18BuildRT(c18Map(m["rt"]))
			if err != nil {
				return nil, err
			}
			rt = x
		}
		return bgp.NewRouteTargetMembershipNLRI(uint32(c18U(m, "asn")), rt), nil
	case "flow_spec":
		rules, err := c18BuildFlowRules(c18L(m, "rules"))
		if err != nil {
			return nil, err
		}
		return bgp.NewFlowSpecUnicast(rf, rules)
	case "vpn_flow_spec":
		rules, err := c18BuildFlowRules(c18L(m, "rules"))
		if err != nil {
			return nil, err
		}
		return bgp.NewFlowSpecVPN(rf, rd(), rules)
	case "opaque":
		return bgp.NewOpaqueNLRI(c18Bytes(m, "key"), c18Bytes(m, "value")), nil
	case "sr_policy":
		return bgp.NewSRPolicy(rf, uint32(c18U(m, "length")), uint32(c18U(m, "distinguisher")), uint32(c18U(m, "color")), c18Bytes(m, "endpoint"))
	case "mup_interwork_segment_discovery":
		return bgp.NewMUPInterworkSegmentDiscoveryRoute(rd(), netip.MustParsePrefix(c18S(m, "prefix"))), nil
	case "mup_direct_segment_discovery":
		return bgp.NewMUPDirectSegmentDiscoveryRoute(rd(), c18Addr(c18S(m, "address"))), nil
	case "mup_type_1_session_transformed":
		tlvs, err := c18BuildMupTLVs(c18L(m, "tlvs"))
		if err != nil {
			return nil, err
		}
		var sa *netip.Addr
		if s := c18S(m, "source_address"); s != "" {
			a := c18Addr(s)
			sa = &a
		}
		return bgp.NewMUPType1SessionTransformedRoute(rd(), netip.MustParsePrefix(c18S(m, "prefix")), c18Teid(c18U(m, "teid")),
			uint8(c18U(m, "qfi")), c18Addr(c18S(m, "endpoint_address")), sa, tlvs...), nil
	case "mup_type_2_session_transformed":
		tlvs, err := c18BuildMupTLVs(c18L(m, "tlvs"))
		if err != nil {
			return nil, err
		}
		return bgp.NewMUPType2SessionTransformedRoute(rd(), uint8(c18U(m, "endpoint_address_length")), c18Addr(c18S(m, "endpoint_address")),
			c18Teid(c18U(m, "teid")), tlvs...), nil
	}
	return nil, fmt.Errorf("no builder for nlri %q", k)
}

// ---------------------------------------------------------------------------------------
// capabilities

func c18BuildCap(val c18M) (bgp.ParameterCapabilityInterface, error) {
	k, m := c18One(val)
	switch k {
	case "multi_protocol":
		return bgp.NewCapMultiProtocol(c18Family(c18Map(m["family"]))), nil
	case "route_refresh":
		return bgp.NewCapRouteRefresh(), nil
	case "carrying_label_info":
		return bgp.NewCapCarryingLabelInfo(), nil
	case "extended_nexthop":
		tl := []*bgp.CapExtendedNexthopTuple{}
		for _, t := range c18L(m, "tuples") {
			tm := c18Map(t)
			nh := c18Family(c18Map(tm["nexthop_family"]))
			tl = append(tl, bgp.NewCapExtendedNexthopTuple(c18Family(c18Map(tm["nlri_family"])), nh.Afi()))
		}
		return bgp.NewCapExtendedNexthop(tl), nil
	case "graceful_restart":
		tl := []*bgp.CapGracefulRestartTuple{}
		for _, t := range c18L(m, "tuples") {
			tm := c18Map(t)
			fl := c18U(tm, "flags")
			if fl != 0 && fl != 0x80 {
				return nil, fmt.Errorf("gr tuple flags %d have no constructor form", fl)
			}
			tl = append(tl, bgp.NewCapGracefulRestartTuple(c18Family(c18Map(tm["family"])), fl == 0x80))
		}
		fl := c18U(m, "flags")
		if fl&^0x0c != 0 {
			return nil, fmt.Errorf("gr flags %d have no constructor form", fl)
		}
		return bgp.NewCapGracefulRestart(fl&0x08 != 0, fl&0x04 != 0, uint16(c18U(m, "time")), tl), nil
	case "four_octet_asn":
		return bgp.NewCapFourOctetASNumber(uint32(c18U(m, "asn"))), nil
	case "add_path":
		tl := []*bgp.CapAddPathTuple{}
		for _, t := range c18L(m, "tuples") {
			tm := c18Map(t)
			mode, ok := api.AddPathCapabilityTuple_Mode_value[c18S(tm, "mode")]
			if !ok {
				return nil, fmt.Errorf("unknown add-path mode %q", c18S(tm, "mode"))
			}
			tl = append(tl, bgp.NewCapAddPathTuple(c18Family(c18Map(tm["family"])), bgp.BGPAddPathMode(mode)))
		}
		return bgp.NewCapAddPath(tl), nil
	case "enhanced_route_refresh":
		return bgp.NewCapEnhancedRouteRefresh(), nil
	case "long_lived_graceful_restart":
		tl := []*bgp.CapLongLivedGracefulRestartTuple{}
		for _, t := range c18L(m, "tuples") {
			tm := c18Map(t)
			fl := c18U(tm, "flags")
			if fl != 0 && fl != 0x80 {
				return nil, fmt.Errorf("llgr tuple flags %d have no constructor form", fl)
			}
			tl = append(tl, bgp.NewCapLongLivedGracefulRestartTuple(c18Family(c18Map(tm["family"])), fl == 0x80, uint32(c18U(tm, "time"))))
		}
		return bgp.NewCapLongLivedGracefulRestart(tl), nil
	case "route_refresh_cisco":
		return bgp.NewCapRouteRefreshCisco(), nil
	case "fqdn":
		return bgp.NewCapFQDN(c18S(m, "host_name"), c18S(m, "domain_name")), nil
	case "software_version":
		return bgp.NewCapSoftwareVersion(c18S(m, "software_version")), nil
	case "extended_message":
		return bgp.NewCapExtendedMessage(), nil
	case "unknown":
		return bgp.NewCapUnknown(bgp.BGPCapabilityCode(c18U(m, "code")), c18Bytes(m, "value")), nil
	}
	return nil, fmt.Errorf("no builder for capability %q", k)
}
