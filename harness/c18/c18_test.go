// Harness code compiled INTO package server of /repo through `go test -overlay` (property C18).
//
// C18 replayer.  Every behaviour is ONE abstract value enumerated by TLC (spec/ApiConvGen.tla): an
// API-shaped record (the protojson form of api.Attribute / api.NLRI / api.Capability / api.Path /
// api.DefinedSet / api.Statement / api.Peer, every number rendered as a decimal string), or the
// name of an entry of the example catalogue.  The harness
//   - builds the NATIVE value independently of the converters, with the library's constructors
//     (c18_build_test.go, c18_examples_test.go),
//   - runs the REAL converters in both directions and the serialisers under recover(), and
//   - records canonical renderings: native before / after (reflective dump), API value (the
//     API-shaped record again and the deterministic protobuf octets), wire octets, errors, panics.
//
// Nothing is asserted here: the trace is judged by TLC (spec/trace/ApiConvTrace.tla).
package server

import (
	"bytes"
	"encoding/hex"
	"encoding/json"
	"fmt"
	"net"
	"net/netip"
	"reflect"
	"sort"
	"strconv"
	"strings"
	"testing"
	"unsafe"

	api "github.com/osrg/gobgp/v4/api"
	"github.com/osrg/gobgp/v4/pkg/apiutil"
	"github.com/osrg/gobgp/v4/pkg/packet/bgp"
	"google.golang.org/protobuf/encoding/protojson"
	"google.golang.org/protobuf/proto"
)

// ---------------------------------------------------------------------------------------
// API value <-> API-shaped record

// c18Stringify turns every JSON number into its decimal string (TLC integers are 32-bit) and
// every empty object into the record {"empty": true} (TLA+ has no empty record; every API
// rendering stays a record so that TLC never has to compare a record with a string).
func c18Stringify(v any) any {
	switch x := v.(type) {
	case json.Number:
		return x.String()
	case map[string]any:
		if len(x) == 0 {
			return map[string]any{"empty": true}
		}
		o := make(map[string]any, len(x))
		for k, e := range x {
			o[k] = c18Stringify(e)
		}
		return o
	case []any:
		o := make([]any, len(x))
		for i, e := range x {
			o[i] = c18Stringify(e)
		}
		return o
	case nil:
		return map[string]any{"null": true}
	}
	return v
}

// c18Unstringify is the inverse on the way in ({"empty": true} -> {}); decimal strings are accepted by
// protojson for every numeric field.
func c18Unstringify(v any) any {
	switch x := v.(type) {
	case map[string]any:
		if e, ok := x["empty"]; ok && len(x) == 1 && e == true {
			return map[string]any{}
		}
		o := make(map[string]any, len(x))
		for k, e := range x {
			o[k] = c18Unstringify(e)
		}
		return o
	case []any:
		o := make([]any, len(x))
		for i, e := range x {
			o[i] = c18Unstringify(e)
		}
		return o
	}
	return v
}

// c18None: "no value" as a record
var c18None = map[string]any{"none": true}

var c18PJ = protojson.MarshalOptions{UseProtoNames: true, EmitDefaultValues: true}

// c18Rec renders an API message as the API-shaped record of the spec.
func c18Rec(m proto.Message) any {
	if m == nil || !m.ProtoReflect().IsValid() {
		return c18None
	}
	b, err := c18PJ.Marshal(m)
	if err != nil {
		return map[string]any{"renderr": "protojson:" + err.Error()}
	}
	d := json.NewDecoder(bytes.NewReader(b))
	d.UseNumber()
	var v any
	if err := d.Decode(&v); err != nil {
		return map[string]any{"renderr": "json:" + err.Error()}
	}
	return c18Stringify(v)
}

// c18Hex: deterministic protobuf octets of an API message (value identity of the API form).
func c18Hex(m proto.Message) string {
	if m == nil || !m.ProtoReflect().IsValid() {
		return "nil"
	}
	b, err := proto.MarshalOptions{Deterministic: true}.Marshal(m)
	if err != nil {
		return "proto:" + err.Error()
	}
	return hex.EncodeToString(b)
}

// c18FromRec builds an API message from an API-shaped record with the protobuf library only.
func c18FromRec(val any, m proto.Message) error {
	b, err := json.Marshal(c18Unstringify(val))
	if err != nil {
		return err
	}
	return protojson.Unmarshal(b, m)
}

// ---------------------------------------------------------------------------------------
// canonical rendering of a native value

var (
	c18TAddr   = reflect.TypeOf(netip.Addr{})
	c18TPrefix = reflect.TypeOf(netip.Prefix{})
	c18TIP     = reflect.TypeOf(net.IP{})
	c18TMac    = reflect.TypeOf(net.HardwareAddr{})
	c18TAttr   = reflect.TypeOf(bgp.PathAttribute{})
)

// c18Dump: deterministic deep rendering of a native value.  nil and empty slices are the same
// thing; pure wire-length caches (integer fields named Length / Len, the extended-length flag of
// PathAttribute.Flags) are left out - their agreement with the octets is the subject of the wire
// comparison, not of the value comparison.
func c18Dump(v any) string {
	var sb strings.Builder
	c18dump(&sb, reflect.ValueOf(v), 0)
	return sb.String()
}

// the value of an unknown capability IS its CapValue; for every other capability CapValue is a cache
var c18InUnknownCap bool

func c18dump(sb *strings.Builder, v reflect.Value, depth int) {
	if depth > 40 {
		sb.WriteString("<deep>")
		return
	}
	if !v.IsValid() {
		sb.WriteString("nil")
		return
	}
	t := v.Type()
	switch t {
	case c18TAddr:
		a := c18Unexport(v).Interface().(netip.Addr)
		if !a.IsValid() {
			sb.WriteString("addr()")
		} else {
			sb.WriteString("addr(" + a.String() + ")")
		}
		return
	case c18TPrefix:
		p := c18Unexport(v).Interface().(netip.Prefix)
		if !p.IsValid() {
			sb.WriteString("prefix()")
		} else {
			sb.WriteString("prefix(" + p.String() + ")")
		}
		return
	case c18TIP, c18TMac:
		sb.WriteString("x" + hex.EncodeToString(v.Bytes()))
		return
	}
	switch v.Kind() {
	case reflect.Bool:
		sb.WriteString(strconv.FormatBool(v.Bool()))
	case reflect.Int, reflect.Int8, reflect.Int16, reflect.Int32, reflect.Int64:
		sb.WriteString(strconv.FormatInt(v.Int(), 10))
	case reflect.Uint, reflect.Uint8, reflect.Uint16, reflect.Uint32, reflect.Uint64, reflect.Uintptr:
		sb.WriteString(strconv.FormatUint(v.Uint(), 10))
	case reflect.Float32, reflect.Float64:
		sb.WriteString(strconv.FormatFloat(v.Float(), 'g', -1, 32))
	case reflect.String:
		sb.WriteString(strconv.Quote(v.String()))
	case reflect.Pointer:
		if v.IsNil() {
			sb.WriteString("nil")
			return
		}
		sb.WriteString("&")
		c18dump(sb, v.Elem(), depth+1)
	case reflect.Interface:
		if v.IsNil() {
			sb.WriteString("nil")
			return
		}
		c18dump(sb, v.Elem(), depth+1)
	case reflect.Slice, reflect.Array:
		if t.Elem().Kind() == reflect.Uint8 {
			sb.WriteString("x")
			for i := 0; i < v.Len(); i++ {
				fmt.Fprintf(sb, "%02x", v.Index(i).Uint())
			}
			return
		}
		sb.WriteString("[")
		for i := 0; i < v.Len(); i++ {
			if i > 0 {
				sb.WriteString(",")
			}
			c18dump(sb, v.Index(i), depth+1)
		}
		sb.WriteString("]")
	case reflect.Map:
		keys := make([]string, 0, v.Len())
		vals := map[string]reflect.Value{}
		it := v.MapRange()
		for it.Next() {
			var kb strings.Builder
			c18dump(&kb, it.Key(), depth+1)
			keys = append(keys, kb.String())
			vals[kb.String()] = it.Value()
		}
		sort.Strings(keys)
		sb.WriteString("map{")
		for i, k := range keys {
			if i > 0 {
				sb.WriteString(",")
			}
			sb.WriteString(k + ":")
			c18dump(sb, vals[k], depth+1)
		}
		sb.WriteString("}")
	case reflect.Struct:
		name := t.Name()
		if name == "CapUnknown" {
			c18InUnknownCap = true
			defer func() { c18InUnknownCap = false }()
		}
		if name == "SRv6L3ServiceAttribute" {
			// two Go holders of the same SRv6 service TLV (type + sub-TLVs): not a value difference
			name = "SRv6ServiceTLV"
		}
		sb.WriteString(name + "{")
		first := true
		for i := 0; i < t.NumField(); i++ {
			f := t.Field(i)
			fv := v.Field(i)
			if (f.Name == "Length" || f.Name == "Len" || f.Name == "CapLen") && fv.CanUint() {
				continue
			}
			if name == "DefaultParameterCapability" && f.Name == "CapValue" && !c18InUnknownCap {
				// raw copy of the received octets kept beside the decoded fields
				continue
			}
			if !first {
				sb.WriteString(",")
			}
			first = false
			sb.WriteString(f.Name + ":")
			if t == c18TAttr && f.Name == "Flags" {
				sb.WriteString(strconv.FormatUint(fv.Uint()&^uint64(bgp.BGP_ATTR_FLAG_EXTENDED_LENGTH), 10))
				continue
			}
			c18dump(sb, fv, depth+1)
		}
		sb.WriteString("}")
	case reflect.Func, reflect.Chan, reflect.UnsafePointer:
		sb.WriteString("<" + v.Kind().String() + ">")
	default:
		sb.WriteString("<?" + v.Kind().String() + ">")
	}
}

// c18Unexport makes a value reached through an unexported field readable.
func c18Unexport(v reflect.Value) reflect.Value {
	if v.CanInterface() {
		return v
	}
	if v.CanAddr() {
		return reflect.NewAt(v.Type(), unsafe.Pointer(v.UnsafeAddr())).Elem()
	}
	panic("c18Dump: unexported, unaddressable " + v.Type().String())
}

// ---------------------------------------------------------------------------------------
// record accessors used by the builders (a malformed schedule panics -> builderr, machinery)

type c18M = map[string]any

func c18Get(m any, path ...string) any {
	cur := m
	for _, k := range path {
		mm, ok := cur.(map[string]any)
		if !ok {
			return nil
		}
		cur = mm[k]
	}
	return cur
}
func c18Map(v any) c18M {
	if v == nil {
		return c18M{}
	}
	m := v.(map[string]any)
	if e, ok := m["empty"]; ok && len(m) == 1 && e == true {
		return c18M{}
	}
	return m
}
func c18Has(m c18M, k string) bool { _, ok := m[k]; return ok }
func c18S(m c18M, k string) string {
	if v, ok := m[k]; ok {
		return v.(string)
	}
	return ""
}
func c18U(m c18M, k string) uint64 {
	v, ok := m[k]
	if !ok {
		return 0
	}
	n, err := strconv.ParseUint(v.(string), 10, 64)
	if err != nil {
		panic(fmt.Sprintf("field %s: %v", k, err))
	}
	return n
}
func c18F(m c18M, k string) float32 {
	v, ok := m[k]
	if !ok {
		return 0
	}
	n, err := strconv.ParseFloat(v.(string), 32)
	if err != nil {
		panic(fmt.Sprintf("field %s: %v", k, err))
	}
	return float32(n)
}
func c18B(m c18M, k string) bool {
	if v, ok := m[k]; ok {
		return v.(bool)
	}
	return false
}
func c18L(m c18M, k string) []any {
	if v, ok := m[k]; ok && v != nil {
		return v.([]any)
	}
	return nil
}
func c18UL(m c18M, k string) []uint32 {
	l := c18L(m, k)
	r := make([]uint32, 0, len(l))
	for _, e := range l {
		n, err := strconv.ParseUint(e.(string), 10, 32)
		if err != nil {
			panic(err)
		}
		r = append(r, uint32(n))
	}
	return r
}
func c18Bytes(m c18M, k string) []byte {
	s := c18S(m, k)
	var out []byte
	if err := json.Unmarshal([]byte(strconv.Quote(s)), &out); err != nil {
		panic(fmt.Sprintf("field %s: %v", k, err))
	}
	return out
}
func c18Addr(s string) netip.Addr { return netip.MustParseAddr(s) }

// c18One returns the single key of a oneof-shaped record and its content.
func c18One(m c18M) (string, c18M) {
	if len(m) != 1 {
		panic(fmt.Sprintf("oneof record with %d members", len(m)))
	}
	for k, v := range m {
		return k, c18Map(v)
	}
	return "", nil
}

// ---------------------------------------------------------------------------------------
// the schedule and the trace line

type c18Behaviour struct {
	K    string `json:"k"`    // attr | nlri | cap | ex | path | dset | stmt | pol | peer
	Name string `json:"name"` // catalogue entry (k = ex)
	Val  any    `json:"val"`  // API-shaped record
	Hint c18M   `json:"hint"` // native-only distinctions the API cannot carry (askind, ...)
	Sw   string `json:"sw"`   // sweep that produced the behaviour (informational)
}

// one conversion chain: native n0 -> API a1 -> native n2 -> API a3
type c18Chain struct {
	Nat1  string `json:"nat1"`  // rendering of the native value built with the constructors
	Wire1 string `json:"wire1"` // its octets
	Ser1  string `json:"ser1"`  // its serialisation error ("" = none)
	MErr  string `json:"merr"`  // native -> API error
	Api1  any    `json:"api1"`  // API-shaped record of the API value
	Hex1  string `json:"hex1"`
	UErr  string `json:"uerr"` // API -> native error
	Nat2  string `json:"nat2"`
	Wire2 string `json:"wire2"`
	Ser2  string `json:"ser2"`
	MErr2 string `json:"merr2"`
	Api3  any    `json:"api3"`
	Hex3  string `json:"hex3"`
}

// the API-side chain: API value built from the record by protojson -> native -> API
type c18ApiChain struct {
	PErr string `json:"perr"` // protojson could not build the record (machinery)
	Hex0 string `json:"hex0"`
	Rej  string `json:"rej"` // API -> native error: the API layer rejects the value ("" = accepted)
	Nat  string `json:"nat"`
	Wire string `json:"wire"`
	MErr string `json:"merr"`
	Api  any    `json:"api"`
	Hex  string `json:"hex"`
}

type c18Obs struct {
	Ev       string      `json:"ev"`
	K        string      `json:"k"`
	Name     string      `json:"name"`
	Val      any         `json:"val"`
	Hint     c18M        `json:"hint"`
	BuildErr string      `json:"builderr"`
	A        c18Chain    `json:"a"`
	B        c18ApiChain `json:"b"`
	Twin     string      `json:"twin"` // rendering of the native value built WITHOUT the native-only hint
	TwinWire string      `json:"twinwire"`
	Panic    string      `json:"panic"`
	PanicAt  string      `json:"panicat"`
}

func c18EmptyChain() c18Chain {
	return c18Chain{Api1: c18None, Api3: c18None}
}

type c18Native struct {
	kind   string // attr | nlri | cap
	attr   bgp.PathAttributeInterface
	nlri   bgp.NLRI
	family bgp.Family
	cap    bgp.ParameterCapabilityInterface
}

func (n *c18Native) value() any {
	switch n.kind {
	case "attr":
		return n.attr
	case "nlri":
		return n.nlri
	}
	return n.cap
}

func (n *c18Native) serialize() (string, string) {
	var b []byte
	var err error
	switch n.kind {
	case "attr":
		b, err = n.attr.Serialize()
	case "nlri":
		b, err = n.nlri.Serialize()
	default:
		b, err = n.cap.Serialize()
	}
	if err != nil {
		return "", "error: " + err.Error()
	}
	return hex.EncodeToString(b), ""
}

func (n *c18Native) isNil() bool {
	v := n.value()
	if v == nil {
		return true
	}
	rv := reflect.ValueOf(v)
	return rv.Kind() == reflect.Pointer && rv.IsNil()
}

// toAPI / fromAPI: the REAL converters
func (n *c18Native) toAPI() (proto.Message, error) {
	switch n.kind {
	case "attr":
		l, err := apiutil.MarshalPathAttributes([]bgp.PathAttributeInterface{n.attr})
		if err != nil {
			return nil, err
		}
		if len(l) != 1 {
			return nil, fmt.Errorf("MarshalPathAttributes returned %d values", len(l))
		}
		return l[0], nil
	case "nlri":
		return apiutil.MarshalNLRI(n.nlri)
	}
	return apiutil.MarshalCapability(n.cap)
}

func c18FromAPI(kind string, family bgp.Family, m proto.Message) (*c18Native, error) {
	switch kind {
	case "attr":
		l, err := apiutil.UnmarshalPathAttributes([]*api.Attribute{m.(*api.Attribute)})
		if err != nil {
			return nil, err
		}
		if len(l) != 1 {
			return nil, fmt.Errorf("UnmarshalPathAttributes returned %d values", len(l))
		}
		return &c18Native{kind: kind, attr: l[0]}, nil
	case "nlri":
		n, err := apiutil.UnmarshalNLRI(family, m.(*api.NLRI))
		if err != nil {
			return nil, err
		}
		return &c18Native{kind: kind, nlri: n, family: family}, nil
	}
	l, err := apiutil.UnmarshalCapabilities([]*api.Capability{m.(*api.Capability)})
	if err != nil {
		return nil, err
	}
	if len(l) != 1 {
		return nil, fmt.Errorf("UnmarshalCapabilities returned %d values", len(l))
	}
	return &c18Native{kind: kind, cap: l[0]}, nil
}

func c18NewAPI(kind string) proto.Message {
	switch kind {
	case "attr":
		return &api.Attribute{}
	case "nlri":
		return &api.NLRI{}
	}
	return &api.Capability{}
}

func c18Err(err error) string {
	if err == nil {
		return ""
	}
	if err.Error() == "" {
		return "error"
	}
	return err.Error()
}

// c18RunConv: one attr / nlri / cap value through both chains.
func c18RunConv(b *c18Behaviour) (obs c18Obs) {
	obs = c18Obs{Ev: "Conv", K: b.K, Name: b.Name, Val: b.Val, Hint: b.Hint, A: c18EmptyChain(),
		B: c18ApiChain{Api: c18None}}
	if obs.Val == nil {
		obs.Val = c18None
	}
	delete(b.Hint, "none")
	if len(b.Hint) == 0 {
		obs.Hint = c18M{"none": true}
	}
	at := "build"
	defer func() {
		if r := recover(); r != nil {
			if at == "build" {
				obs.BuildErr = fmt.Sprintf("panic: %v", r)
			} else {
				obs.Panic = fmt.Sprintf("%v", r)
				obs.PanicAt = at
			}
		}
	}()
	var n0, twin *c18Native
	var err error
	if b.K == "ex" {
		n0, err = c18Example(b.Name)
	} else {
		n0, err = c18Build(b.K, b.Val, b.Hint)
		delete(b.Hint, "none")
		if err == nil && len(b.Hint) > 0 {
			twin, err = c18Build(b.K, b.Val, nil)
		}
	}
	if err != nil {
		obs.BuildErr = err.Error()
		return
	}
	kind := n0.kind
	if twin != nil {
		obs.Twin = c18Dump(twin.value())
		var serr string
		if obs.TwinWire, serr = twin.serialize(); serr != "" {
			obs.TwinWire = serr
		}
	}
	// ---- chain A: native -> API -> native -> API
	at = "render native"
	obs.A.Nat1 = c18Dump(n0.value())
	at = "serialize native"
	obs.A.Wire1, obs.A.Ser1 = n0.serialize()
	at = "native->api"
	a1, err := n0.toAPI()
	obs.A.MErr = c18Err(err)
	if err == nil {
		at = "render api"
		obs.A.Api1, obs.A.Hex1 = c18Rec(a1), c18Hex(a1)
		at = "api->native"
		n2, err := c18FromAPI(kind, n0.family, a1)
		obs.A.UErr = c18Err(err)
		if err == nil && n2.isNil() {
			obs.A.UErr = "nil value without error"
		} else if err == nil {
			at = "render native 2"
			obs.A.Nat2 = c18Dump(n2.value())
			at = "serialize native 2"
			obs.A.Wire2, obs.A.Ser2 = n2.serialize()
			at = "native->api 2"
			a3, err := n2.toAPI()
			obs.A.MErr2 = c18Err(err)
			if err == nil {
				obs.A.Api3, obs.A.Hex3 = c18Rec(a3), c18Hex(a3)
			}
		}
	}
	// ---- chain B: the API value built from the record by the protobuf library
	if b.K == "ex" {
		return
	}
	at = "protojson"
	a0 := c18NewAPI(kind)
	val := b.Val
	if kind == "nlri" {
		val = c18Get(b.Val, "nlri")
	}
	if err := c18FromRec(val, a0); err != nil {
		obs.B.PErr = err.Error()
		return
	}
	obs.B.Hex0 = c18Hex(a0)
	at = "api->native (B)"
	nb, err := c18FromAPI(kind, n0.family, a0)
	obs.B.Rej = c18Err(err)
	if err == nil && nb.isNil() {
		obs.B.Rej = "nil value without error"
		return
	}
	if err != nil {
		return
	}
	at = "render native (B)"
	obs.B.Nat = c18Dump(nb.value())
	at = "serialize native (B)"
	var serr string
	obs.B.Wire, serr = nb.serialize()
	if serr != "" {
		obs.B.Wire = serr
	}
	at = "native->api (B)"
	ab, err := nb.toAPI()
	obs.B.MErr = c18Err(err)
	if err == nil {
		obs.B.Api, obs.B.Hex = c18Rec(ab), c18Hex(ab)
	}
	return
}

func TestVerifC18(t *testing.T) {
	tr := vpOpenTrace(t)
	defer tr.Close()
	tid := 0
	vpReadLines(t, "VERIF_IN", func(line []byte) {
		var b c18Behaviour
		d := json.NewDecoder(bytes.NewReader(line))
		if err := d.Decode(&b); err != nil {
			t.Fatalf("bad behaviour: %v", err)
		}
		tid++
		tr.Emit(map[string]any{"ev": "Reset", "tid": tid, "kind": "c18", "k": b.K})
		switch b.K {
		case "attr", "nlri", "cap", "ex":
			tr.Emit(c18RunConv(&b))
		case "path":
			for _, o := range c18RunPath(t, &b) {
				tr.Emit(o)
			}
		case "dset", "stmt", "pol", "peer":
			tr.Emit(c18RunConfig(&b))
		default:
			t.Fatalf("unknown behaviour kind %q", b.K)
		}
	})
}
