// C18 (L4 and policy / neighbour objects): values go through the API of a REAL BgpServer running
// in a synctest bubble (harness/servercommon): the gRPC service methods of pkg/server/grpc_server.go
// are called directly on a `server` value (no socket), i.e. exactly the conversion code a client
// reaches.  Nothing is asserted here.
package server

import (
	"context"
	"fmt"
	"net/netip"
	"testing"
	"testing/synctest"

	api "github.com/osrg/gobgp/v4/api"
	"github.com/osrg/gobgp/v4/pkg/config/oc"
	"google.golang.org/protobuf/proto"
)

// c18Restrict projects a rendered API value onto the field structure of the schedule's value:
// keys the schedule does not mention are dropped (state, counters, defaulted sub-messages), lists
// are compared element-wise.  A pure projection: it knows nothing of the conversion.
func c18Restrict(got, want any) any {
	switch w := want.(type) {
	case map[string]any:
		g, ok := got.(map[string]any)
		if !ok {
			return got
		}
		if e, ok := w["empty"]; ok && len(w) == 1 && e == true {
			// the schedule says "message present, no field set": keep presence only
			return map[string]any{"empty": true}
		}
		o := map[string]any{}
		for k, wv := range w {
			if gv, ok := g[k]; ok {
				o[k] = c18Restrict(gv, wv)
			}
		}
		if len(o) == 0 {
			return map[string]any{"empty": true}
		}
		return o
	case []any:
		g, ok := got.([]any)
		if !ok || len(g) != len(w) {
			return got
		}
		o := make([]any, len(g))
		for i := range g {
			o[i] = c18Restrict(g[i], w[i])
		}
		return o
	}
	return got
}

// ---- L4: AddPath / ListPath / DeletePath ---------------------------------------------------------

type c18PathObs struct {
	Ev       string `json:"ev"`
	K        string `json:"k"`
	Val      any    `json:"val"`
	Hint     c18M   `json:"hint"`
	PErr     string `json:"perr"`    // protojson could not build the path (machinery)
	AddErr   string `json:"adderr"`  // the API rejects the path ("" = accepted)
	UUIDLen  int    `json:"uuidlen"` // length of the returned uuid
	Prefixes []any  `json:"prefixes"`
	Listed   []any  `json:"listed"` // paths listed after AddPath, restricted to {family, nlri, pattrs, identifier, flags}
	ListErr  string `json:"listerr"`
	Del      string `json:"del"` // uuid | path | none
	DelErr   string `json:"delerr"`
	After    []any  `json:"after"` // paths listed after DeletePath
	Panic    string `json:"panic"`
	PanicAt  string `json:"panicat"`
}

func c18PathRec(p *api.Path) any {
	r, ok := c18Rec(p).(map[string]any)
	if !ok {
		return c18Rec(p)
	}
	o := map[string]any{"flags": map[string]any{}}
	for _, k := range []string{"family", "nlri", "pattrs", "identifier"} {
		if v, ok := r[k]; ok {
			o[k] = v
		} else {
			o[k] = c18None
		}
	}
	fl := o["flags"].(map[string]any)
	for _, k := range []string{"is_withdraw", "is_nexthop_invalid", "stale", "filtered", "is_from_external", "source_asn"} {
		if v, ok := r[k]; ok {
			fl[k] = v
		}
	}
	return o
}

func c18RunPath(t *testing.T, b *c18Behaviour) []any {
	delete(b.Hint, "none")
	obs := c18PathObs{Ev: "Path", K: b.K, Val: b.Val, Hint: b.Hint, Prefixes: []any{}, Listed: []any{}, After: []any{}, Del: c18S(b.Hint, "del")}
	if len(b.Hint) == 0 {
		obs.Hint = c18M{"none": true}
	}
	if obs.Del == "" {
		obs.Del = "none"
	}
	p := &api.Path{}
	if err := c18FromRec(b.Val, p); err != nil {
		obs.PErr = err.Error()
		return []any{obs}
	}
	synctest.Test(t, func(t *testing.T) {
		ss := newSimServer(t, nil)
		at := "start"
		defer func() {
			if r := recover(); r != nil {
				obs.Panic, obs.PanicAt = fmt.Sprintf("%v", r), at
			}
			ss.stop()
			synctest.Wait()
		}()
		srv := &server{bgpServer: ss.s}
		ctx := context.Background()
		list := func() ([]any, []any, string) {
			out, pfx := []any{}, []any{}
			err := srv.listPath(ctx, &api.ListPathRequest{TableType: api.TableType_TABLE_TYPE_GLOBAL, Family: p.Family}, func(d *api.Destination) {
				pfx = append(pfx, d.Prefix)
				for _, lp := range d.Paths {
					out = append(out, c18PathRec(lp))
				}
			})
			return out, pfx, c18Err(err)
		}
		at = "AddPath"
		resp, err := srv.AddPath(ctx, &api.AddPathRequest{TableType: api.TableType_TABLE_TYPE_GLOBAL, Path: proto.Clone(p).(*api.Path)})
		obs.AddErr = c18Err(err)
		synctest.Wait()
		if err != nil {
			return
		}
		obs.UUIDLen = len(resp.GetUuid())
		at = "ListPath"
		obs.Listed, obs.Prefixes, obs.ListErr = list()
		at = "DeletePath"
		switch obs.Del {
		case "uuid":
			_, err = srv.DeletePath(ctx, &api.DeletePathRequest{TableType: api.TableType_TABLE_TYPE_GLOBAL, Uuid: resp.GetUuid()})
		case "path":
			_, err = srv.DeletePath(ctx, &api.DeletePathRequest{TableType: api.TableType_TABLE_TYPE_GLOBAL, Path: proto.Clone(p).(*api.Path)})
		default:
			return
		}
		obs.DelErr = c18Err(err)
		synctest.Wait()
		at = "ListPath after delete"
		obs.After, _, _ = list()
	})
	return []any{obs}
}

// ---- policy objects and neighbour configuration ---------------------------------------------------

type c18CfgObs struct {
	Ev      string `json:"ev"`
	K       string `json:"k"`
	Val     any    `json:"val"`
	Hint    c18M   `json:"hint"`
	PErr    string `json:"perr"`   // protojson could not build the value (machinery)
	PreErr  string `json:"preerr"` // a prerequisite object could not be added (machinery)
	Rej     string `json:"rej"`    // the API rejects the value ("" = accepted)
	Native  string `json:"native"` // rendering of the native object (informational)
	N       int    `json:"n"`      // number of objects listed back under the name
	Api1    any    `json:"api1"`   // listed / converted-back API value, restricted to the schedule's fields
	Full1   any    `json:"full1"`  // the same, unrestricted
	Hex1    string `json:"hex1"`
	Rej2    string `json:"rej2"` // second round: the listed value fed back
	Hex3    string `json:"hex3"`
	Full3   any    `json:"full3"`
	Api3    any    `json:"api3"` // second-round value, restricted like api1
	Panic   string `json:"panic"`
	PanicAt string `json:"panicat"`
}

func c18RunConfig(b *c18Behaviour) any {
	delete(b.Hint, "none")
	obs := c18CfgObs{Ev: "Cfg", K: b.K, Val: b.Val, Hint: b.Hint, Api1: c18None, Full1: c18None, Full3: c18None, Api3: c18None}
	if len(b.Hint) == 0 {
		obs.Hint = c18M{"none": true}
	}
	at := "start"
	defer func() {
		if r := recover(); r != nil {
			obs.Panic, obs.PanicAt = fmt.Sprintf("%v", r), at
		}
	}()
	val := c18Map(b.Val)
	ctx := context.Background()
	switch b.K {
	case "peer":
		a0 := &api.Peer{}
		if err := c18FromRec(val, a0); err != nil {
			obs.PErr = err.Error()
			return obs
		}
		at = "newNeighborFromAPIStruct"
		n1, err := newNeighborFromAPIStruct(a0)
		obs.Rej = c18Err(err)
		if err != nil {
			return obs
		}
		// what AddPeer does between the two conversions (pkg/server/server.go addNeighbor)
		at = "SetDefaultNeighborConfigValues"
		g := &oc.Global{Config: oc.GlobalConfig{As: 65000, RouterId: netip.MustParseAddr("10.0.0.100")}}
		if err := oc.SetDefaultNeighborConfigValues(n1, nil, g); err != nil {
			obs.Rej = "defaults: " + err.Error()
			return obs
		}
		obs.Native = c18Dump(n1)
		at = "NewPeerFromConfigStruct"
		a1 := oc.NewPeerFromConfigStruct(n1)
		obs.N = 1
		obs.Full1, obs.Hex1 = c18Rec(a1), c18Hex(a1)
		obs.Api1 = c18Restrict(obs.Full1, b.Val)
		at = "second round"
		n2, err := newNeighborFromAPIStruct(a1)
		obs.Rej2 = c18Err(err)
		if err == nil {
			if err := oc.SetDefaultNeighborConfigValues(n2, nil, g); err != nil {
				obs.Rej2 = "defaults: " + err.Error()
				return obs
			}
			a3 := oc.NewPeerFromConfigStruct(n2)
			obs.Hex3 = c18Hex(a3)
			obs.Full3 = c18Rec(a3)
			obs.Api3 = c18Restrict(obs.Full3, b.Val)
		}
		return obs
	}
	// defined sets and statements go through a real server's policy store
	var out c18CfgObs
	synctestRun := func(f func(s *BgpServer)) {
		s := NewBgpServer()
		go s.Serve()
		defer s.Stop()
		if err := s.StartBgp(ctx, &api.StartBgpRequest{Global: &api.Global{Asn: 65000, RouterId: "10.0.0.100", ListenPort: -1}}); err != nil {
			obs.PreErr = "StartBgp: " + err.Error()
			return
		}
		f(s)
	}
	_ = out
	switch b.K {
	case "dset":
		a0 := &api.DefinedSet{}
		if err := c18FromRec(val, a0); err != nil {
			obs.PErr = err.Error()
			return obs
		}
		synctestRun(func(s *BgpServer) {
			at = "AddDefinedSet"
			err := s.AddDefinedSet(ctx, &api.AddDefinedSetRequest{DefinedSet: proto.Clone(a0).(*api.DefinedSet)})
			obs.Rej = c18Err(err)
			if err != nil {
				return
			}
			at = "ListDefinedSet"
			var got []*api.DefinedSet
			_ = s.ListDefinedSet(ctx, &api.ListDefinedSetRequest{DefinedType: a0.DefinedType, Name: a0.Name}, func(d *api.DefinedSet) { got = append(got, d) })
			obs.N = len(got)
			if len(got) != 1 {
				return
			}
			obs.Full1, obs.Hex1 = c18Rec(got[0]), c18Hex(got[0])
			obs.Api1 = obs.Full1
			at = "second round"
			if err := s.DeleteDefinedSet(ctx, &api.DeleteDefinedSetRequest{DefinedSet: proto.Clone(got[0]).(*api.DefinedSet), All: true}); err != nil {
				obs.Rej2 = "delete: " + err.Error()
				return
			}
			err = s.AddDefinedSet(ctx, &api.AddDefinedSetRequest{DefinedSet: proto.Clone(got[0]).(*api.DefinedSet)})
			obs.Rej2 = c18Err(err)
			if err != nil {
				return
			}
			var got2 []*api.DefinedSet
			_ = s.ListDefinedSet(ctx, &api.ListDefinedSetRequest{DefinedType: a0.DefinedType, Name: a0.Name}, func(d *api.DefinedSet) { got2 = append(got2, d) })
			if len(got2) == 1 {
				obs.Hex3 = c18Hex(got2[0])
				obs.Full3 = c18Rec(got2[0])
				obs.Api3 = obs.Full3
			}
		})
	case "stmt":
		a0 := &api.Statement{}
		if err := c18FromRec(val["statement"], a0); err != nil {
			obs.PErr = err.Error()
			return obs
		}
		var sets []*api.DefinedSet
		for _, x := range c18L(val, "sets") {
			d := &api.DefinedSet{}
			if err := c18FromRec(x, d); err != nil {
				obs.PErr = err.Error()
				return obs
			}
			sets = append(sets, d)
		}
		synctestRun(func(s *BgpServer) {
			at = "prerequisites"
			for _, d := range sets {
				if err := s.AddDefinedSet(ctx, &api.AddDefinedSetRequest{DefinedSet: d}); err != nil {
					obs.PreErr = err.Error()
					return
				}
			}
			at = "AddStatement"
			err := s.AddStatement(ctx, &api.AddStatementRequest{Statement: proto.Clone(a0).(*api.Statement)})
			obs.Rej = c18Err(err)
			if err != nil {
				return
			}
			at = "ListStatement"
			var got []*api.Statement
			_ = s.ListStatement(ctx, &api.ListStatementRequest{Name: a0.Name}, func(x *api.Statement) { got = append(got, x) })
			obs.N = len(got)
			if len(got) != 1 {
				return
			}
			obs.Full1, obs.Hex1 = c18Rec(got[0]), c18Hex(got[0])
			obs.Api1 = c18Restrict(obs.Full1, val["statement"])
			at = "second round"
			if err := s.DeleteStatement(ctx, &api.DeleteStatementRequest{Statement: proto.Clone(got[0]).(*api.Statement), All: true}); err != nil {
				obs.Rej2 = "delete: " + err.Error()
				return
			}
			err = s.AddStatement(ctx, &api.AddStatementRequest{Statement: proto.Clone(got[0]).(*api.Statement)})
			obs.Rej2 = c18Err(err)
			if err != nil {
				return
			}
			var got2 []*api.Statement
			_ = s.ListStatement(ctx, &api.ListStatementRequest{Name: a0.Name}, func(x *api.Statement) { got2 = append(got2, x) })
			if len(got2) == 1 {
				obs.Hex3 = c18Hex(got2[0])
				obs.Full3 = c18Rec(got2[0])
				obs.Api3 = c18Restrict(obs.Full3, val["statement"])
			}
		})
	default:
		obs.PErr = "unknown kind " + b.K
	}
	return obs
}
