package table

// C16, white-box replayer: TLC-enumerated ROA sets / TLC-generated sequences of table operations
// (spec/RpkiTblGen.tla) are applied to the REAL ROATable (Add / Delete / DeleteAll); after every
// operation the harness records ROATable.List and, when asked, ROATable.Validate for every route of
// the behaviour's pool and the verdict a real policy with rpki-validation-result conditions reaches.
// Nothing is asserted here: the trace is judged by TLC (spec/trace/RpkiTblTrace.tla).

import (
	"encoding/json"
	"fmt"
	"net/netip"
	"testing"
	"time"

	"github.com/osrg/gobgp/v4/pkg/config/oc"
	"github.com/osrg/gobgp/v4/pkg/packet/bgp"
)

type c16Rec struct {
	C string `json:"c"`
	P string `json:"p"`
	M uint8  `json:"m"`
	A uint32 `json:"a"`
}

type c16Route struct {
	Pfx  string  `json:"pfx"`
	Path []vpSeg `json:"path"`
	Las  uint32  `json:"las"`
}

type c16Op struct {
	Op string `json:"op"` // Add | Del | DelAll
	R  c16Rec `json:"r"`
	C  string `json:"c"`
	V  bool   `json:"v"` // record validations after this operation
}

type c16Beh struct {
	Kind   string     `json:"kind"`
	Rk     string     `json:"rk"`
	Routes []c16Route `json:"routes"`
	Ops    []c16Op    `json:"ops"`
}

var c16Srcs = map[string]string{"c1": "192.0.2.1:323", "c2": "192.0.2.2:8282"}

func c16SrcName(src string) string {
	for n, s := range c16Srcs {
		if s == src {
			return n
		}
	}
	return "other:" + src
}

func c16ROA(r c16Rec) *ROA {
	pfx := netip.MustParsePrefix(r.P)
	fam := bgp.AFI_IP
	if pfx.Addr().Is6() {
		fam = bgp.AFI_IP6
	}
	return NewROA(fam, pfx.Addr().AsSlice(), uint8(pfx.Bits()), r.M, r.A, c16Srcs[r.C])
}

// verdict codes (spec/RpkiDom.tla VerdictCode): 0 not-found, 1 valid, 2 invalid, 9 anything else
func c16Status(s oc.RpkiValidationResultType) int {
	switch s {
	case oc.RPKI_VALIDATION_RESULT_TYPE_VALID:
		return 1
	case oc.RPKI_VALIDATION_RESULT_TYPE_INVALID:
		return 2
	case oc.RPKI_VALIDATION_RESULT_TYPE_NOT_FOUND:
		return 0
	}
	return 9
}

func c16Path(rt c16Route) *Path {
	pfx := netip.MustParsePrefix(rt.Pfx)
	fam := bgp.RF_IPv4_UC
	if pfx.Addr().Is6() {
		fam = bgp.RF_IPv6_UC
	}
	nlri, err := bgp.NewIPAddrPrefix(pfx)
	if err != nil {
		panic(err)
	}
	attrs := []bgp.PathAttributeInterface{bgp.NewPathAttributeOrigin(0), vpAsPathAttr(rt.Path)}
	src := &PeerInfo{AS: 65009, LocalAS: rt.Las, ID: netip.MustParseAddr("10.0.0.9"), Address: netip.MustParseAddr("10.0.0.9")}
	return NewPath(fam, src, bgp.PathNLRI{NLRI: nlri}, false, attrs, time.Unix(1000, 0), false)
}

func c16Policy() *RoutingPolicy {
	st := func(name string, res oc.RpkiValidationResultType, comm string) oc.Statement {
		return oc.Statement{
			Name:       name,
			Conditions: oc.Conditions{BgpConditions: oc.BgpConditions{RpkiValidationResult: res}},
			Actions: oc.Actions{BgpActions: oc.BgpActions{SetCommunity: oc.SetCommunity{
				SetCommunityMethod: oc.SetCommunityMethod{CommunitiesList: []string{comm}},
				Options:            "add",
			}}},
		}
	}
	r := NewRoutingPolicy(vpLogger)
	err := r.reload(oc.RoutingPolicy{PolicyDefinitions: []oc.PolicyDefinition{{
		Name: "c16pol",
		Statements: []oc.Statement{
			st("c16-valid", oc.RPKI_VALIDATION_RESULT_TYPE_VALID, "65000:1"),
			st("c16-invalid", oc.RPKI_VALIDATION_RESULT_TYPE_INVALID, "65000:2"),
			st("c16-notfound", oc.RPKI_VALIDATION_RESULT_TYPE_NOT_FOUND, "65000:3"),
		},
	}}})
	if err != nil {
		panic(err)
	}
	return r
}

// c16Mark: which statement of the policy matched, as a verdict code; 9 if none or several did
func c16Mark(p *Path) int {
	if p == nil {
		return 9
	}
	marks := []int{}
	for _, v := range p.GetCommunities() {
		switch v {
		case 65000<<16 | 1:
			marks = append(marks, 1)
		case 65000<<16 | 2:
			marks = append(marks, 2)
		case 65000<<16 | 3:
			marks = append(marks, 0)
		default:
			marks = append(marks, 9)
		}
	}
	if len(marks) != 1 {
		return 9
	}
	return marks[0]
}

func TestVerifC16(t *testing.T) {
	tr := vpOpenTrace(t)
	defer tr.Close()
	pol := c16Policy()
	tid := 0
	vpReadLines(t, "VERIF_IN", func(line []byte) {
		var b c16Beh
		if err := json.Unmarshal(line, &b); err != nil {
			t.Fatalf("bad behaviour: %v", err)
		}
		tid++
		rt := NewROATable(vpLogger)
		paths := make([]*Path, len(b.Routes))
		// spec-vs-reference cross-check of prefix containment (DESIGN 2.7 rule 4): the harness logs
		// netip's answer for every (record prefix, route prefix) pair met; the trace spec compares
		covers := [][]any{}
		seen := map[string]bool{}
		for i, r := range b.Routes {
			paths[i] = c16Path(r)
		}
		for _, op := range b.Ops {
			if op.Op == "DelAll" {
				continue
			}
			rp := netip.MustParsePrefix(op.R.P)
			for _, r := range b.Routes {
				k := op.R.P + ">" + r.Pfx
				if seen[k] {
					continue
				}
				seen[k] = true
				qp := netip.MustParsePrefix(r.Pfx)
				c := rp.Bits() <= qp.Bits() && rp.Contains(qp.Addr()) && rp.Addr().Is4() == qp.Addr().Is4()
				covers = append(covers, []any{op.R.P, r.Pfx, c})
			}
		}
		tr.Emit(map[string]any{"ev": "Reset", "tid": tid, "kind": b.Kind, "rk": b.Rk, "nroutes": len(b.Routes), "covers": covers})
		for _, op := range b.Ops {
			row := map[string]any{"ev": op.Op, "v": op.V}
			switch op.Op {
			case "Add":
				rt.Add(c16ROA(op.R))
				row["r"] = op.R
			case "Del":
				rt.Delete(c16ROA(op.R))
				row["r"] = op.R
			case "DelAll":
				rt.DeleteAll(c16Srcs[op.C])
				row["c"] = op.C
			default:
				t.Fatalf("unknown op %q", op.Op)
			}
			table := []c16Rec{}
			l, err := rt.List(bgp.Family(0))
			if err != nil {
				t.Fatal(err)
			}
			for _, x := range l {
				ones, _ := x.Network.Mask.Size()
				table = append(table, c16Rec{C: c16SrcName(x.Src), P: fmt.Sprintf("%s/%d", x.Network.IP.String(), ones), M: x.MaxLen, A: x.AS})
			}
			val := []int{}
			marks := []int{}
			if op.V {
				for _, p := range paths {
					v := rt.Validate(p)
					if v == nil {
						val = append(val, 9)
					} else {
						val = append(val, c16Status(v.Status))
					}
					_, after := pol.policyMap["c16pol"].Apply(vpLogger, p, &PolicyOptions{Validate: rt.Validate})
					marks = append(marks, c16Mark(after))
				}
			}
			row["obs"] = map[string]any{"table": table, "val": val, "pol": marks}
			tr.Emit(row)
		}
	})
}
