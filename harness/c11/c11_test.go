package table

import (
	"crypto/sha1"
	"encoding/binary"
	"encoding/hex"
	"encoding/json"
	"fmt"
	"net/netip"
	"sort"
	"testing"
	"time"

	"github.com/osrg/gobgp/v4/pkg/packet/bgp"
)

// C11 replayer.  Reads behaviours produced by spec/PackingGen.tla (or a replay file): a session
// configuration and an abstract list of route changes.  Builds the concrete []*Path, calls the
// real table.CreateUpdateMsgFromPaths, serialises every message with the session's marshalling
// options exactly as fsm.go sendMessageloop/send() does (an error from Serialize = the message is
// dropped and reported), then RE-PARSES the bytes with bgp.ParseBGPMessage as an independent
// receiver and records what a receiver would see.  No property is asserted here: the trace is
// judged by TLC (spec/trace/PackingTrace.tla).

type c11Change struct {
	Fam   string `json:"fam"`   // "v4" | "v6" | "vpn4"
	Pfx   int    `json:"pfx"`   // index into the prefix pool
	Plen  int    `json:"plen"`  // prefix length in bits
	Lid   uint32 `json:"lid"`   // LOCAL path id (destination-local id of the table)
	Kind  string `json:"kind"`  // "ann" | "wd" | "eor"
	Attrs int    `json:"attrs"` // attribute-set id (MED value)
	Ab    int    `json:"ab"`    // requested encoded size of the attribute block (without MP_REACH)
	Nh    string `json:"nh"`    // next-hop token: n4a n4b n6a n6b n6al (global a + link-local)
}

type c11Cfg struct {
	Ap      map[string]bool `json:"ap"`      // ADD-PATH (send) negotiated per family
	Ext     bool            `json:"ext"`     // Extended Message negotiated
	Collide bool            `json:"collide"` // force one attribute hash for all paths (hash collision)
	As2     bool            `json:"as2"`     // peer without 4-octet AS capability (fsm.twoByteAsTrans)
}

type c11Behaviour struct {
	Sc      string      `json:"sc"`
	Cfg     c11Cfg      `json:"cfg"`
	Changes []c11Change `json:"changes"`
}

// what the harness adds to every change after building the concrete path (measured on real bytes)
type c11ChangeOut struct {
	c11Change
	AttrBytes int    `json:"attrBytes"` // sum of the serialised attributes except MP_REACH_NLRI
	NlriBytes int    `json:"nlriBytes"` // serialised NLRI incl. the path id when ADD-PATH is on
	NhBytes   int    `json:"nhBytes"`   // next-hop octets inside MP_REACH_NLRI (0 for classic v4)
	Single    int    `json:"single"`    // length of an UPDATE that carries only this route
	Dig       string `json:"dig"`       // digest of the attribute set (without NEXT_HOP/MP_REACH)
	Nhs       string `json:"nhs"`       // next hop(s) as a receiver prints them
}

type c11Grp struct {
	Nhs  string  `json:"nhs"`
	Keys [][]any `json:"keys"` // [fam,pfx,plen,wire-id]
}

type c11Msg struct {
	Ev   string  `json:"ev"`
	I    int     `json:"i"`
	Sent bool    `json:"sent"` // Serialize succeeded => written to the session
	Len  int     `json:"len"`  // 19 + len(serialised body): REAL octets
	Plen int     `json:"packed"` // the same before send() rewrote the attributes for a 2-octet-AS peer
	Wd   [][]any `json:"wd"`   // withdrawn keys  [fam,pfx,plen,wire-id]
	Ann  []c11Grp `json:"ann"` // announced keys, grouped by the next hop(s) they are announced with
	Dig  string  `json:"dig"`  // digest of the message's attribute set
	Eor  string  `json:"eor"`  // family of an End-of-RIB marker or ""
	Err  string  `json:"err"`  // error reported by Serialize ("" if sent)
	Perr string  `json:"perr"` // error of the independent receiver's parser
}

var c11Families = map[string]bgp.Family{"v4": bgp.RF_IPv4_UC, "v6": bgp.RF_IPv6_UC, "vpn4": bgp.RF_IPv4_VPN}

func c11FamName(f bgp.Family) string {
	for n, x := range c11Families {
		if x == f {
			return n
		}
	}
	return "other:" + f.String()
}

var c11NextHops = map[string][]netip.Addr{
	"n4a":  {netip.MustParseAddr("192.0.2.1")},
	"n4b":  {netip.MustParseAddr("192.0.2.2")},
	"n6a":  {netip.MustParseAddr("2001:db8:ffff::1")},
	"n6b":  {netip.MustParseAddr("2001:db8:ffff::2")},
	"n6al": {netip.MustParseAddr("2001:db8:ffff::1"), netip.MustParseAddr("fe80::1")},
	// IPv4 unicast learned in MP_REACH_NLRI form (AFI 1 / SAFI 1) with an IPv4 next hop: the path
	// has NO NEXT_HOP attribute, its next hop lives only in its MP_REACH_NLRI
	"m4a": {netip.MustParseAddr("192.0.2.1")},
	"m4b": {netip.MustParseAddr("192.0.2.2")},
}

func c11ViaMP(tok string) bool { return tok == "m4a" || tok == "m4b" }

func c11NhString(nhs []netip.Addr) string {
	s := ""
	for i, a := range nhs {
		if i > 0 {
			s += "|"
		}
		s += a.String()
	}
	return s
}

var c11RD = bgp.NewRouteDistinguisherTwoOctetAS(65000, 1)

// prefix pool: (fam, idx, plen) -> NLRI.  The value idx+1 occupies the top plen bits of the
// variable part, so different idx give different prefixes and the mapping can be inverted.
func c11Nlri(fam string, idx, plen int) bgp.NLRI {
	switch fam {
	case "v4", "vpn4":
		if plen < 1 || plen > 32 || (plen < 32 && idx+1 >= 1<<plen) {
			panic(fmt.Sprintf("c11: bad v4 prefix idx=%d plen=%d", idx, plen))
		}
		var b [4]byte
		binary.BigEndian.PutUint32(b[:], uint32(idx+1)<<(32-plen))
		p := netip.PrefixFrom(netip.AddrFrom4(b), plen)
		if fam == "v4" {
			n, err := bgp.NewIPAddrPrefix(p)
			if err != nil {
				panic(err)
			}
			return n
		}
		n, err := bgp.NewLabeledVPNIPAddrPrefix(p, *bgp.NewMPLSLabelStack(100), c11RD)
		if err != nil {
			panic(err)
		}
		return n
	case "v6":
		if plen < 40 || plen > 128 || idx+1 >= 1<<24 {
			panic(fmt.Sprintf("c11: bad v6 prefix idx=%d plen=%d", idx, plen))
		}
		// 2001:db8::/32 fixed, idx+1 in the top (plen-32) bits of the remaining 96
		var b [16]byte
		b[0], b[1], b[2], b[3] = 0x20, 0x01, 0x0d, 0xb8
		v := uint64(idx + 1)
		sh := plen - 32 // number of variable bits that are part of the prefix
		// place v so that its lowest bit is bit number `plen` (1-based from the top)
		for bit := 0; bit < 24; bit++ {
			if v&(1<<bit) != 0 {
				pos := 32 + sh - 1 - bit // bit index from the top, 0-based
				b[pos/8] |= 0x80 >> (pos % 8)
			}
		}
		n, err := bgp.NewIPAddrPrefix(netip.PrefixFrom(netip.AddrFrom16(b), plen))
		if err != nil {
			panic(err)
		}
		return n
	}
	panic("c11: family " + fam)
}

// inverse of c11Nlri on what the receiver parsed; anything unexpected becomes an "other:" family
// so that it can never silently compare equal with an input key.
func c11KeyOf(f bgp.Family, n bgp.NLRI, id uint32) []any {
	fam := c11FamName(f)
	other := func() []any { return []any{"other:" + fam + ":" + n.String(), 0, 0, int(id)} }
	var p netip.Prefix
	switch x := n.(type) {
	case *bgp.IPAddrPrefix:
		p = x.Prefix
	case *bgp.LabeledVPNIPAddrPrefix:
		if x.RD.String() != c11RD.String() || len(x.Labels.Labels) != 1 || x.Labels.Labels[0] != 100 {
			return other()
		}
		p = x.Prefix
	default:
		return other()
	}
	plen := p.Bits()
	idx := -1
	switch fam {
	case "v4", "vpn4":
		if !p.Addr().Is4() || plen < 1 {
			return other()
		}
		b := p.Addr().As4()
		idx = int(binary.BigEndian.Uint32(b[:])>>(32-plen)) - 1
	case "v6":
		if !p.Addr().Is6() || plen < 40 {
			return other()
		}
		b := p.Addr().As16()
		v := 0
		for pos := 32; pos < plen; pos++ {
			v <<= 1
			if b[pos/8]&(0x80>>(pos%8)) != 0 {
				v |= 1
			}
		}
		idx = v - 1
	default:
		return other()
	}
	if idx < 0 {
		return other()
	}
	// must round-trip exactly
	back := c11Nlri(fam, idx, plen)
	bb, _ := back.Serialize()
	nb, _ := n.Serialize()
	if string(bb) != string(nb) {
		return other()
	}
	return []any{fam, idx, plen, int(id)}
}

// digest of an attribute set: every attribute except NEXT_HOP / MP_REACH / MP_UNREACH, serialised,
// ordered by type code.
func c11Digest(attrs []bgp.PathAttributeInterface) string {
	type kv struct {
		t uint8
		b []byte
	}
	l := make([]kv, 0, len(attrs))
	for _, a := range attrs {
		switch a.GetType() {
		case bgp.BGP_ATTR_TYPE_NEXT_HOP, bgp.BGP_ATTR_TYPE_MP_REACH_NLRI, bgp.BGP_ATTR_TYPE_MP_UNREACH_NLRI:
			continue
		}
		b, err := a.Serialize()
		if err != nil {
			b = []byte("ERR:" + err.Error())
		}
		l = append(l, kv{uint8(a.GetType()), b})
	}
	sort.SliceStable(l, func(i, j int) bool { return l[i].t < l[j].t })
	h := sha1.New()
	for _, e := range l {
		h.Write(e.b)
	}
	return hex.EncodeToString(h.Sum(nil))[:16]
}

// attribute block of an abstract change: ORIGIN, AS_PATH, [NEXT_HOP], MED=attrs, then unknown
// optional-transitive padding attributes so that the serialised size (without MP_REACH) is `ab`.
func c11Attrs(c c11Change) []bgp.PathAttributeInterface {
	attrs := []bgp.PathAttributeInterface{
		bgp.NewPathAttributeOrigin(0),
		bgp.NewPathAttributeAsPath([]bgp.AsPathParamInterface{bgp.NewAs4PathParam(bgp.BGP_ASPATH_ATTR_TYPE_SEQ, []uint32{c11FirstAS(c.Attrs)})}),
	}
	nhs := c11NextHops[c.Nh]
	if nhs == nil {
		panic("c11: next hop token " + c.Nh)
	}
	classic := c.Fam == "v4" && nhs[0].Is4() && !c11ViaMP(c.Nh)
	if classic {
		nh, _ := bgp.NewPathAttributeNextHop(nhs[0])
		attrs = append(attrs, nh)
	}
	attrs = append(attrs, bgp.NewPathAttributeMultiExitDisc(uint32(c.Attrs)))
	size := 0
	for _, a := range attrs {
		b, _ := a.Serialize()
		size += len(b)
	}
	rest := c.Ab - size
	if rest < 0 || rest == 1 || rest == 2 {
		panic(fmt.Sprintf("c11: attribute block of %d octets cannot be built (base %d)", c.Ab, size))
	}
	typ := uint8(240)
	for rest > 0 {
		// one unknown attribute: 3+n octets (n<=255) or 4+n (n>=256); 259 is not reachable
		take := rest
		if take > 60000 {
			take = 50000
		}
		if take == 259 {
			take = 200
		}
		n := take - 3
		if take > 258 {
			n = take - 4
		}
		val := make([]byte, n)
		for i := range val {
			val[i] = byte(c.Attrs + i)
		}
		attrs = append(attrs, bgp.NewPathAttributeUnknown(bgp.BGP_ATTR_FLAG_OPTIONAL|bgp.BGP_ATTR_FLAG_TRANSITIVE, bgp.BGPAttrType(typ), val))
		typ++
		rest -= take
	}
	return attrs
}

// odd attribute-set ids have a 4-octet AS in front (needs AS4_PATH towards a 2-octet-AS peer)
func c11FirstAS(attrs int) uint32 {
	if attrs%2 == 1 {
		return 4200000001
	}
	return 65001
}

// what send() of fsm.go does to an UPDATE for a peer without the 4-octet AS capability
func c11ForSession(u *bgp.BGPUpdate, as2 bool) {
	if as2 {
		UpdatePathAttrs2ByteAs(u)
		UpdatePathAggregator2ByteAs(u)
	}
}

func c11AttrBytes(attrs []bgp.PathAttributeInterface) int {
	n := 0
	for _, a := range attrs {
		if a.GetType() == bgp.BGP_ATTR_TYPE_MP_REACH_NLRI {
			continue
		}
		b, _ := a.Serialize()
		n += len(b)
	}
	return n
}

func TestVerifC11(t *testing.T) {
	tr := vpOpenTrace(t)
	defer tr.Close()
	src := &PeerInfo{AS: 65001, LocalAS: vpLocalAS, ID: netip.MustParseAddr("10.0.0.1"), Address: netip.MustParseAddr("10.0.0.1")}
	ts := time.Unix(1000, 0)
	tid := 0
	vpReadLines(t, "VERIF_IN", func(line []byte) {
		var b c11Behaviour
		if err := json.Unmarshal(line, &b); err != nil {
			t.Fatalf("bad behaviour: %v", err)
		}
		tid++
		// the options of fsm.go sendMessageloop; Use2ByteAS is what a packer that budgets for the
		// 2-octet-AS rewriting needs to know (ignored by the serialisers)
		tx := &bgp.MarshallingOption{AddPath: map[bgp.Family]bgp.BGPAddPathMode{}, ExtendedMessage: b.Cfg.Ext, Use2ByteAS: b.Cfg.As2}
		rx := &bgp.MarshallingOption{AddPath: map[bgp.Family]bgp.BGPAddPathMode{}, ExtendedMessage: b.Cfg.Ext, Use2ByteAS: b.Cfg.As2}
		for fam, on := range b.Cfg.Ap {
			f, ok := c11Families[fam]
			if !ok {
				t.Fatalf("family %q", fam)
			}
			if on {
				tx.AddPath[f] = bgp.BGP_ADD_PATH_SEND
				rx.AddPath[f] = bgp.BGP_ADD_PATH_RECEIVE
			}
		}
		limit := bgp.BGP_MAX_MESSAGE_LENGTH
		if b.Cfg.Ext {
			limit = bgp.BGP_MAX_EXTENDED_MESSAGE_LENGTH
		}
		tr.Emit(map[string]any{"ev": "Reset", "tid": tid, "sc": b.Sc, "cfg": b.Cfg, "limit": limit})

		// ---- build the concrete paths ---------------------------------------------------
		paths := make([]*Path, 0, len(b.Changes))
		outs := make([]c11ChangeOut, 0, len(b.Changes))
		type akey struct {
			fam, nh   string
			attrs, ab int
		}
		shared := map[akey][]bgp.PathAttributeInterface{}
		type lkey struct {
			fam       string
			pfx, plen int
			lid       uint32
		}
		lastAnn := map[lkey]*Path{}
		for _, c := range b.Changes {
			o := c11ChangeOut{c11Change: c}
			f, ok := c11Families[c.Fam]
			if !ok {
				t.Fatalf("family %q", c.Fam)
			}
			if c.Kind == "eor" {
				paths = append(paths, NewEOR(f))
				outs = append(outs, o)
				continue
			}
			nlri := c11Nlri(c.Fam, c.Pfx, c.Plen)
			nb, _ := nlri.Serialize()
			o.NlriBytes = len(nb)
			if b.Cfg.Ap[c.Fam] {
				o.NlriBytes += 4
			}
			lk := lkey{c.Fam, c.Pfx, c.Plen, c.Lid}
			switch c.Kind {
			case "wd":
				var p *Path
				if a := lastAnn[lk]; a != nil && c.Pfx%2 == 0 {
					p = a.Clone(true) // the usual shape in the server: withdraw cloned from the route
				} else {
					p = NewPath(f, src, bgp.PathNLRI{NLRI: nlri}, true, nil, ts, false)
				}
				p.localID = c.Lid
				paths = append(paths, p)
			case "ann":
				// odd prefixes get their own attribute objects, even ones share them (as paths
				// of one received UPDATE do)
				k := akey{c.Fam, c.Nh, c.Attrs, c.Ab}
				attrs := shared[k]
				if attrs == nil || c.Pfx%2 == 1 {
					attrs = c11Attrs(c)
					if c.Pfx%2 == 0 {
						shared[k] = attrs
					}
				}
				nhs := c11NextHops[c.Nh]
				classic := c.Fam == "v4" && nhs[0].Is4() && !c11ViaMP(c.Nh)
				pattrs := attrs
				wattrs := attrs // the attribute block (without MP_REACH_NLRI) as it goes on the wire
				var single *bgp.BGPMessage
				if classic {
					single = bgp.NewBGPUpdateMessage(nil, attrs, []bgp.PathNLRI{{NLRI: nlri, ID: c.Lid}})
				} else if c11ViaMP(c.Nh) {
					// table side: attributes + MP_REACH_NLRI(IPv4 unicast, IPv4 next hop), no NEXT_HOP;
					// wire side (what this route alone must look like): classic UPDATE with NEXT_HOP
					mp, err := bgp.NewPathAttributeMpReachNLRI(f, []bgp.PathNLRI{{NLRI: nlri, ID: c.Lid}}, nhs...)
					if err != nil {
						t.Fatalf("mp_reach: %v", err)
					}
					pattrs = append(append(make([]bgp.PathAttributeInterface, 0, len(attrs)+1), attrs...), mp)
					nha, _ := bgp.NewPathAttributeNextHop(nhs[0])
					wattrs = append(append(make([]bgp.PathAttributeInterface, 0, len(attrs)+1), attrs...), nha)
					single = bgp.NewBGPUpdateMessage(nil, wattrs, []bgp.PathNLRI{{NLRI: nlri, ID: c.Lid}})
				} else {
					mp, err := bgp.NewPathAttributeMpReachNLRI(f, []bgp.PathNLRI{{NLRI: nlri, ID: c.Lid}}, nhs...)
					if err != nil {
						t.Fatalf("mp_reach: %v", err)
					}
					pattrs = append(append(make([]bgp.PathAttributeInterface, 0, len(attrs)+1), attrs...), mp)
					single = bgp.NewBGPUpdateMessage(nil, pattrs, nil)
					mb, _ := mp.Serialize(tx)
					// value = afi(2) safi(1) nhlen(1) nh reserved(1) nlri
					hdr := 3
					if len(mb) > 3 && mb[0]&uint8(bgp.BGP_ATTR_FLAG_EXTENDED_LENGTH) != 0 {
						hdr = 4
					}
					o.NhBytes = len(mb) - hdr - 5 - o.NlriBytes
				}
				p := NewPath(f, src, bgp.PathNLRI{NLRI: nlri}, false, pattrs, ts, false)
				p.localID = c.Lid
				if b.Cfg.Collide {
					p.SetHash(0x5eed5eed5eed5eed)
				}
				if built := c11AttrBytes(pattrs); built != c.Ab {
					t.Fatalf("attribute block: requested %d octets, built %d", c.Ab, built)
				}
				o.AttrBytes = c11AttrBytes(wattrs)
				su := single.Body.(*bgp.BGPUpdate)
				c11ForSession(su, b.Cfg.As2)
				body, err := single.Body.Serialize(tx)
				if err != nil {
					t.Fatalf("single-route serialise: %v", err)
				}
				o.Single = bgp.BGP_HEADER_LENGTH + len(body)
				o.Dig = c11Digest(su.PathAttributes)
				o.Nhs = c11NhString(nhs)
				lastAnn[lk] = p
				paths = append(paths, p)
			default:
				t.Fatalf("kind %q", c.Kind)
			}
			outs = append(outs, o)
		}
		tr.Emit(map[string]any{"ev": "Pack", "changes": outs})

		// ---- the real packer, then send() of fsm.go --------------------------------------
		var msgs []*bgp.BGPMessage
		panicked := ""
		func() {
			defer func() {
				if r := recover(); r != nil {
					panicked = fmt.Sprint(r)
				}
			}()
			msgs = CreateUpdateMsgFromPaths(paths, tx)
		}()
		for i, m := range msgs {
			rec := c11Msg{Ev: "Msg", I: i + 1, Wd: [][]any{}, Ann: []c11Grp{}}
			if pb, err := m.Body.Serialize(tx); err == nil {
				rec.Plen = bgp.BGP_HEADER_LENGTH + len(pb)
			}
			if u, ok := m.Body.(*bgp.BGPUpdate); ok {
				c11ForSession(u, b.Cfg.As2)
			}
			body, err := m.Body.Serialize(tx)
			if err != nil {
				rec.Err = "body: " + err.Error()
				tr.Emit(rec)
				continue
			}
			rec.Len = bgp.BGP_HEADER_LENGTH + len(body)
			wire, err := m.Serialize(tx)
			if err != nil {
				// send() of fsm.go: "failed to serialize" is logged and the message is dropped.
				// Nothing reaches the receiver; which routes were inside is read from the
				// message object (its body may not even be parsable: 16-bit length fields wrap).
				rec.Err = err.Error()
				if u, ok := m.Body.(*bgp.BGPUpdate); ok {
					// in memory the NLRI carry the local id; on this session's wire it would be
					// there only under ADD-PATH
					c11Receive(&rec, u, func(f bgp.Family, id uint32) uint32 {
						if tx.AddPath[f]&bgp.BGP_ADD_PATH_SEND != 0 {
							return id
						}
						return 0
					})
				}
			} else {
				rec.Sent = true
				rec.Len = len(wire)
				parsed, perr := bgp.ParseBGPMessage(wire, rx)
				if perr != nil {
					rec.Perr = perr.Error()
				} else if u, ok := parsed.Body.(*bgp.BGPUpdate); !ok {
					rec.Perr = fmt.Sprintf("not an UPDATE: type %d", parsed.Header.Type)
				} else {
					c11Receive(&rec, u, func(_ bgp.Family, id uint32) uint32 { return id })
				}
			}
			tr.Emit(rec)
		}
		tr.Emit(map[string]any{"ev": "Done", "panic": panicked, "nmsg": len(msgs)})
	})
}

// the independent receiver: what one parsed UPDATE withdraws and announces
func c11Receive(rec *c11Msg, u *bgp.BGPUpdate, wid func(bgp.Family, uint32) uint32) {
	if ok, f := u.IsEndOfRib(); ok {
		rec.Eor = c11FamName(f)
		return
	}
	rec.Dig = c11Digest(u.PathAttributes)
	for _, w := range u.WithdrawnRoutes {
		rec.Wd = append(rec.Wd, c11KeyOf(bgp.RF_IPv4_UC, w.NLRI, wid(bgp.RF_IPv4_UC, w.ID)))
	}
	classicNh := ""
	for _, a := range u.PathAttributes {
		switch x := a.(type) {
		case *bgp.PathAttributeNextHop:
			classicNh = x.Value.String()
		case *bgp.PathAttributeMpUnreachNLRI:
			f := bgp.NewFamily(x.AFI, x.SAFI)
			for _, w := range x.Value {
				rec.Wd = append(rec.Wd, c11KeyOf(f, w.NLRI, wid(f, w.ID)))
			}
		case *bgp.PathAttributeMpReachNLRI:
			f := bgp.NewFamily(x.AFI, x.SAFI)
			nhs := []netip.Addr{}
			if x.Nexthop.IsValid() {
				nhs = append(nhs, x.Nexthop)
			}
			if x.LinkLocalNexthop.IsValid() {
				nhs = append(nhs, x.LinkLocalNexthop)
			}
			g := c11Grp{Nhs: c11NhString(nhs), Keys: [][]any{}}
			for _, n := range x.Value {
				g.Keys = append(g.Keys, c11KeyOf(f, n.NLRI, wid(f, n.ID)))
			}
			rec.Ann = append(rec.Ann, g)
		}
	}
	if len(u.NLRI) > 0 {
		g := c11Grp{Nhs: classicNh, Keys: [][]any{}}
		for _, n := range u.NLRI {
			g.Keys = append(g.Keys, c11KeyOf(bgp.RF_IPv4_UC, n.NLRI, wid(bgp.RF_IPv4_UC, n.ID)))
		}
		rec.Ann = append(rec.Ann, g)
	}
}
