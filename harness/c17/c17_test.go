package server

// C17 replayer: executes TLC-generated schedules of spec/VrfRtcGen.tla on the REAL BgpServer inside
// a synctest bubble (virtual time) and records, after every step at exact quiescence,
//   - ListVrf, ListPath(TABLE_TYPE_VRF) per VRF, the global VPNv4 table,
//   - what every scripted neighbour has been told (decoded from the bytes written to its
//     connection; MP_REACH / MP_UNREACH folded into a per-neighbour view).
// Neighbours: N1 = iBGP, l3vpn-ipv4-unicast + rtc (sends RT memberships); N2 = eBGP,
// l3vpn-ipv4-unicast only (source of VPN routes); N3 = iBGP PE, l3vpn-ipv4-unicast only (announces,
// with a LOCAL_PREF, the VPN NLRI a local VRF originates); CE = eBGP attached to VRF v1, ipv4-unicast.
// No property is asserted here: traces are judged by TLC (spec/trace/VrfRtcTrace.tla).

import (
	"context"
	"encoding/json"
	"fmt"
	"net/netip"
	"os"
	"sort"
	"strings"
	"testing"
	"testing/synctest"
	"time"

	api "github.com/osrg/gobgp/v4/api"
	"github.com/osrg/gobgp/v4/pkg/apiutil"
	"github.com/osrg/gobgp/v4/pkg/packet/bgp"
)

type vrVrf struct {
	Name  string   `json:"name"`
	Rd    string   `json:"rd"`
	Label uint32   `json:"label"`
	Imp   []string `json:"imp"`
	Exp   []string `json:"exp"`
}

type vrRoute struct {
	Src   string   `json:"src"` // announcing PE neighbour: N2 (eBGP) or N3 (iBGP)
	Lp    uint32   `json:"lp"`  // LOCAL_PREF sent by the iBGP neighbour (0 = none)
	Rd    string   `json:"rd"`
	X     string   `json:"x"`
	Label uint32   `json:"label"`
	Rts   []string `json:"rts"`
	V     int      `json:"v"`
}

type vrMem struct {
	As uint32 `json:"as"`
	Rt string `json:"rt"`
	Id uint32 `json:"id"`
}

type vrStep struct {
	Ev   string   `json:"ev"`
	P    string   `json:"p,omitempty"`
	R    *vrRoute `json:"r,omitempty"`
	M    *vrMem   `json:"m,omitempty"`
	Vrf  *vrVrf   `json:"vrf,omitempty"`
	Name string   `json:"name,omitempty"`
	X    string   `json:"x,omitempty"`
	V    int      `json:"v,omitempty"`
	D    int      `json:"d,omitempty"`
}

type vrCfg struct {
	Defer   int  `json:"defer"`   // RouteTargetMembership deferral time of N1's rtc family (s); 0 = off
	AddPath bool `json:"addpath"` // ADD-PATH (receive) for the rtc family of N1
}

type vrBehaviour struct {
	Cfg   vrCfg    `json:"cfg"`
	Steps []vrStep `json:"steps"`
}

var vrPrefixes = map[string]string{"x1": "10.1.1.0/24", "x2": "10.1.2.0/24", "x3": "10.1.3.0/24", "x4": "10.1.4.0/24", "x5": "10.1.5.0/24"}

type vrPeerDef struct {
	addr string
	as   uint32
	rid  string
}

var vrPeerDefs = map[string]vrPeerDef{
	"N1": {"10.0.0.1", 65000, "1.1.1.1"},
	"N2": {"10.0.0.2", 65002, "2.2.2.2"},
	"N3": {"10.0.0.4", 65000, "4.4.4.4"},
	"CE": {"10.0.0.3", 65010, "3.3.3.3"},
}

const vrCeVrf = "v1"

// route targets of the vocabulary; nt1 has the value of rt1 but the NON-transitive type
func vrRT(name string) bgp.ExtendedCommunityInterface {
	switch name {
	case "rt1":
		return bgp.NewTwoOctetAsSpecificExtended(bgp.EC_SUBTYPE_ROUTE_TARGET, 65000, 1, true)
	case "rt2":
		return bgp.NewTwoOctetAsSpecificExtended(bgp.EC_SUBTYPE_ROUTE_TARGET, 65000, 2, true)
	case "rt3":
		return bgp.NewTwoOctetAsSpecificExtended(bgp.EC_SUBTYPE_ROUTE_TARGET, 65000, 3, true)
	case "nt1":
		return bgp.NewTwoOctetAsSpecificExtended(bgp.EC_SUBTYPE_ROUTE_TARGET, 65000, 1, false)
	}
	panic("harness: unknown route target " + name)
}

func vrRTName(ec bgp.ExtendedCommunityInterface) string {
	if t, ok := ec.(*bgp.TwoOctetAsSpecificExtended); ok && t.SubType == bgp.EC_SUBTYPE_ROUTE_TARGET && t.AS == 65000 {
		if t.IsTransitive && t.LocalAdmin >= 1 && t.LocalAdmin <= 3 {
			return fmt.Sprintf("rt%d", t.LocalAdmin)
		}
		if !t.IsTransitive && t.LocalAdmin == 1 {
			return "nt1"
		}
	}
	return "other:" + ec.String()
}

func vrPrefixName(p netip.Prefix) string {
	for k, v := range vrPrefixes {
		if v == p.String() {
			return k
		}
	}
	return "other:" + p.String()
}

func vrRTs(names []string) []bgp.ExtendedCommunityInterface {
	l := make([]bgp.ExtendedCommunityInterface, 0, len(names))
	for _, n := range names {
		l = append(l, vrRT(n))
	}
	return l
}

type vrWorld struct {
	t      *testing.T
	ss     *simServer
	b      *vrBehaviour
	peers  map[string]*simPeer
	vpn    map[string]map[string]map[string]any // neighbour -> "rd:prefix" -> entry (VPNv4 view)
	uni    map[string]map[string]map[string]any // neighbour -> prefix -> entry (IPv4 unicast view)
	rtc    map[string]map[string]bool           // neighbour -> membership NLRI string (what the speaker told it)
	rtcOwn map[string]map[string]string         // ... those with the speaker's own AS as origin -> target name
	junk   map[string]int                       // neighbour -> UPDATE content of a family it did not negotiate
	tr     *vpTrace
}

func (w *vrWorld) addPeer(name string) {
	d := vrPeerDefs[name]
	p := &api.Peer{
		Conf:      &api.PeerConf{NeighborAddress: d.addr, PeerAsn: d.as},
		Transport: &api.Transport{PassiveMode: true},
		Timers:    &api.Timers{Config: &api.TimersConfig{HoldTime: 90, KeepaliveInterval: 30}},
	}
	vpnFam := &api.Family{Afi: api.Family_AFI_IP, Safi: api.Family_SAFI_MPLS_VPN}
	rtcFam := &api.Family{Afi: api.Family_AFI_IP, Safi: api.Family_SAFI_ROUTE_TARGET_CONSTRAINTS}
	switch name {
	case "N1":
		rtcAf := &api.AfiSafi{
			Config:                &api.AfiSafiConfig{Family: rtcFam, Enabled: true},
			RouteTargetMembership: &api.RouteTargetMembership{Config: &api.RouteTargetMembershipConfig{DeferralTime: uint32(w.b.Cfg.Defer)}},
		}
		if w.b.Cfg.AddPath {
			rtcAf.AddPaths = &api.AddPaths{Config: &api.AddPathsConfig{Receive: true}}
		}
		p.AfiSafis = []*api.AfiSafi{{Config: &api.AfiSafiConfig{Family: vpnFam, Enabled: true}}, rtcAf}
	case "N2", "N3":
		p.AfiSafis = []*api.AfiSafi{{Config: &api.AfiSafiConfig{Family: vpnFam, Enabled: true}}}
	case "CE":
		p.Conf.Vrf = vrCeVrf
	}
	vpMust(w.ss.s.AddPeer(context.Background(), &api.AddPeerRequest{Peer: p}))
	w.peers[name] = newSimPeer(w.ss, name, d.addr, d.as, d.rid)
	w.resetViews(name)
}

func (w *vrWorld) resetViews(name string) {
	w.vpn[name] = map[string]map[string]any{}
	w.uni[name] = map[string]map[string]any{}
	w.rtc[name] = map[string]bool{}
	w.rtcOwn[name] = map[string]string{}
	w.junk[name] = 0
}

func (w *vrWorld) openFor(name string) *bgp.BGPMessage {
	sp := w.peers[name]
	caps := []bgp.ParameterCapabilityInterface{bgp.NewCapRouteRefresh(), bgp.NewCapFourOctetASNumber(sp.as)}
	switch name {
	case "N1":
		caps = append(caps, bgp.NewCapMultiProtocol(bgp.RF_IPv4_VPN), bgp.NewCapMultiProtocol(bgp.RF_RTC_UC))
		if w.b.Cfg.AddPath {
			caps = append(caps, bgp.NewCapAddPath([]*bgp.CapAddPathTuple{bgp.NewCapAddPathTuple(bgp.RF_RTC_UC, bgp.BGP_ADD_PATH_SEND)}))
		}
	case "N2", "N3":
		caps = append(caps, bgp.NewCapMultiProtocol(bgp.RF_IPv4_VPN))
	case "CE":
		caps = append(caps, bgp.NewCapMultiProtocol(bgp.RF_IPv4_UC))
	}
	return sp.openWith(0, caps)
}

// waitActive advances virtual time until the speaker accepts connections from the neighbour
// (a peer in Idle closes inbound connections); returns the number of seconds that passed.
func (w *vrWorld) waitActive(name string) int {
	sp := w.peers[name]
	n := 0
	for i := 0; i < 60; i++ {
		st, _, _ := w.ss.peerState(sp.addr.String())
		if st == api.PeerState_SESSION_STATE_ACTIVE {
			break
		}
		time.Sleep(time.Second)
		synctest.Wait()
		n++
	}
	return n
}

// sessionUp brings a configured neighbour to Established (hold time 0: no keepalive traffic).
// It takes no virtual time.
func (w *vrWorld) sessionUp(name string) {
	sp := w.peers[name]
	w.resetViews(name)
	sp.take()
	sp.connect()
	synctest.Wait()
	vpMust(sp.send(w.openFor(name)))
	synctest.Wait()
	send := &bgp.MarshallingOption{}
	if name == "N1" && w.b.Cfg.AddPath {
		// N1 SENDS path identifiers in the rtc family (the mode names the local capability)
		send = &bgp.MarshallingOption{AddPath: map[bgp.Family]bgp.BGPAddPathMode{bgp.RF_RTC_UC: bgp.BGP_ADD_PATH_SEND}}
	}
	sp.setOptions(&bgp.MarshallingOption{}, send)
	vpMust(sp.send(bgp.NewBGPKeepAliveMessage()))
	synctest.Wait()
}

func vrPE(r *vrRoute) string {
	if r.Src == "" {
		return "N2"
	}
	return r.Src
}

func vrTag(v int) bgp.PathAttributeInterface {
	return bgp.NewPathAttributeCommunities([]uint32{uint32(65000<<16 | (v & 0xffff))})
}

func vrVpnNLRI(r *vrRoute) bgp.NLRI {
	rd, err := bgp.ParseRouteDistinguisher(r.Rd)
	vpMust(err)
	n, err := bgp.NewLabeledVPNIPAddrPrefix(netip.MustParsePrefix(vrPrefixes[r.X]), *bgp.NewMPLSLabelStack(r.Label), rd)
	vpMust(err)
	return n
}

func vrMemNLRI(m *vrMem) bgp.NLRI {
	if m.Rt == "def" {
		return bgp.NewRouteTargetMembershipNLRI(0, nil) // 0:0:0/0, the default membership
	}
	return bgp.NewRouteTargetMembershipNLRI(m.As, vrRT(m.Rt))
}

func vrUniNLRI(x string) bgp.NLRI {
	n, err := bgp.NewIPAddrPrefix(netip.MustParsePrefix(vrPrefixes[x]))
	vpMust(err)
	return n
}

func (w *vrWorld) step(st vrStep) map[string]any {
	extra := map[string]any{}
	ctx := context.Background()
	switch st.Ev {
	case "Up":
		w.tickUntilActive(st.P)
		w.sessionUp(st.P)
	case "Down":
		w.peers[st.P].closeConn()
	case "CeUp":
		w.addPeer("CE")
		synctest.Wait()
		if n := w.waitActive("CE"); n > 0 {
			w.t.Fatalf("harness: a newly configured CE needed %d s to accept connections", n)
		}
		w.sessionUp("CE")
	case "CeDown":
		_ = w.ss.s.DeletePeer(ctx, &api.DeletePeerRequest{Address: vrPeerDefs["CE"].addr})
		synctest.Wait()
		w.peers["CE"].closeConn()
		delete(w.peers, "CE")
	case "VAnn":
		sp := w.peers[vrPE(st.R)]
		mp, err := bgp.NewPathAttributeMpReachNLRI(bgp.RF_IPv4_VPN, []bgp.PathNLRI{{NLRI: vrVpnNLRI(st.R)}}, sp.addr)
		vpMust(err)
		attrs := []bgp.PathAttributeInterface{bgp.NewPathAttributeOrigin(0)}
		if sp.as == simLocalAS {
			// iBGP PE: empty AS_PATH, LOCAL_PREF
			attrs = append(attrs, bgp.NewPathAttributeAsPath(nil), bgp.NewPathAttributeLocalPref(st.R.Lp))
		} else {
			attrs = append(attrs, bgp.NewPathAttributeAsPath([]bgp.AsPathParamInterface{bgp.NewAs4PathParam(bgp.BGP_ASPATH_ATTR_TYPE_SEQ, []uint32{sp.as})}))
		}
		attrs = append(attrs, vrTag(st.R.V))
		if len(st.R.Rts) > 0 {
			attrs = append(attrs, bgp.NewPathAttributeExtendedCommunities(vrRTs(st.R.Rts)))
		}
		attrs = append(attrs, mp)
		_ = sp.send(bgp.NewBGPUpdateMessage(nil, attrs, nil))
	case "VWd":
		sp := w.peers[vrPE(st.R)]
		mp, err := bgp.NewPathAttributeMpUnreachNLRI(bgp.RF_IPv4_VPN, []bgp.PathNLRI{{NLRI: vrVpnNLRI(st.R)}})
		vpMust(err)
		_ = sp.send(bgp.NewBGPUpdateMessage(nil, []bgp.PathAttributeInterface{mp}, nil))
	case "MAnn":
		sp := w.peers["N1"]
		mp, err := bgp.NewPathAttributeMpReachNLRI(bgp.RF_RTC_UC, []bgp.PathNLRI{{NLRI: vrMemNLRI(st.M), ID: st.M.Id}}, sp.addr)
		vpMust(err)
		attrs := []bgp.PathAttributeInterface{
			bgp.NewPathAttributeOrigin(0),
			bgp.NewPathAttributeAsPath(nil),
			bgp.NewPathAttributeLocalPref(100),
			mp,
		}
		_ = sp.send(bgp.NewBGPUpdateMessage(nil, attrs, nil))
	case "MWd":
		sp := w.peers["N1"]
		mp, err := bgp.NewPathAttributeMpUnreachNLRI(bgp.RF_RTC_UC, []bgp.PathNLRI{{NLRI: vrMemNLRI(st.M), ID: st.M.Id}})
		vpMust(err)
		_ = sp.send(bgp.NewBGPUpdateMessage(nil, []bgp.PathAttributeInterface{mp}, nil))
	case "MEor":
		_ = w.peers["N1"].send(bgp.NewEndOfRib(bgp.RF_RTC_UC))
	case "AddVrf":
		rd, err := bgp.ParseRouteDistinguisher(st.Vrf.Rd)
		vpMust(err)
		ard, err := apiutil.MarshalRD(rd)
		vpMust(err)
		imp, err := apiutil.MarshalRTs(vrRTs(st.Vrf.Imp))
		vpMust(err)
		exp, err := apiutil.MarshalRTs(vrRTs(st.Vrf.Exp))
		vpMust(err)
		err = w.ss.s.AddVrf(ctx, &api.AddVrfRequest{Vrf: &api.Vrf{Name: st.Vrf.Name, Rd: ard, ImportRt: imp, ExportRt: exp}})
		extra["ok"] = err == nil
		if err == nil {
			// the MPLS label of a VRF is normally allocated through zebra; without zebra it is set
			// white box (the VRF is empty at this point)
			w.setLabel(st.Vrf.Name, st.Vrf.Label)
		}
	case "DelVrf":
		// DeleteVrf releases a non-zero label through the (absent) zebra client: clear it first
		lbl := w.setLabel(st.Name, 0)
		err := w.ss.s.DeleteVrf(ctx, &api.DeleteVrfRequest{Name: st.Name})
		extra["ok"] = err == nil
		if err != nil {
			w.setLabel(st.Name, lbl)
		}
	case "CeAnn":
		sp := w.peers["CE"]
		nh, _ := bgp.NewPathAttributeNextHop(sp.addr)
		attrs := []bgp.PathAttributeInterface{
			bgp.NewPathAttributeOrigin(0),
			bgp.NewPathAttributeAsPath([]bgp.AsPathParamInterface{bgp.NewAs4PathParam(bgp.BGP_ASPATH_ATTR_TYPE_SEQ, []uint32{sp.as})}),
			nh,
			vrTag(st.V),
		}
		_ = sp.send(bgp.NewBGPUpdateMessage(nil, attrs, []bgp.PathNLRI{{NLRI: vrUniNLRI(st.X)}}))
	case "CeWd":
		_ = w.peers["CE"].send(bgp.NewBGPUpdateMessage([]bgp.PathNLRI{{NLRI: vrUniNLRI(st.X)}}, nil, nil))
	case "ApiAdd":
		nh, _ := bgp.NewPathAttributeNextHop(netip.MustParseAddr("0.0.0.0"))
		_, err := w.ss.s.AddPath(apiutil.AddPathRequest{VRFID: st.Name, Paths: []*apiutil.Path{{
			Family: bgp.RF_IPv4_UC, Nlri: vrUniNLRI(st.X),
			Attrs: []bgp.PathAttributeInterface{bgp.NewPathAttributeOrigin(0), bgp.NewPathAttributeAsPath(nil), nh, vrTag(st.V)},
		}}})
		extra["ok"] = err == nil
	case "ApiDel":
		nh, _ := bgp.NewPathAttributeNextHop(netip.MustParseAddr("0.0.0.0"))
		err := w.ss.s.DeletePath(apiutil.DeletePathRequest{VRFID: st.Name, Paths: []*apiutil.Path{{
			Family: bgp.RF_IPv4_UC, Nlri: vrUniNLRI(st.X),
			Attrs: []bgp.PathAttributeInterface{bgp.NewPathAttributeOrigin(0), bgp.NewPathAttributeAsPath(nil), nh},
		}}})
		extra["ok"] = err == nil
	case "Tick":
		time.Sleep(time.Duration(st.D) * time.Second)
	default:
		w.t.Fatalf("unknown step %q", st.Ev)
	}
	synctest.Wait()
	return extra
}

// tickUntilActive: time that has to pass before the neighbour can connect is made an explicit
// Tick row of the trace (with its own observation), so that the model's clock follows.
func (w *vrWorld) tickUntilActive(name string) {
	if n := w.waitActive(name); n > 0 {
		w.tr.Emit(map[string]any{"ev": "Tick", "d": n, "t": int64(w.ss.now()*1000 + 0.5), "obs": w.observe(), "auto": true})
	}
}

// setLabel sets the MPLS label of a configured VRF (white box) and returns the previous one.
func (w *vrWorld) setLabel(name string, label uint32) uint32 {
	var old uint32
	vpMust(w.ss.s.mgmtOperation(func() error {
		if v, ok := w.ss.s.globalRib.GetVrf(name); ok {
			old = v.MplsLabel
			v.MplsLabel = label
		}
		return nil
	}, false))
	return old
}

func vrTagOf(attrs []bgp.PathAttributeInterface) int {
	for _, a := range attrs {
		if c, ok := a.(*bgp.PathAttributeCommunities); ok {
			for _, v := range c.Value {
				if v>>16 == 65000 {
					return int(v & 0xffff)
				}
			}
		}
	}
	return -1
}

func vrRtsOf(attrs []bgp.PathAttributeInterface) []string {
	l := []string{}
	for _, a := range attrs {
		if e, ok := a.(*bgp.PathAttributeExtendedCommunities); ok {
			for _, ec := range e.Value {
				l = append(l, vrRTName(ec))
			}
		}
	}
	sort.Strings(l)
	return l
}

func vrVpnEntry(n *bgp.LabeledVPNIPAddrPrefix, attrs []bgp.PathAttributeInterface) map[string]any {
	label := int64(-1)
	if len(n.Labels.Labels) == 1 {
		label = int64(n.Labels.Labels[0])
	} else if len(n.Labels.Labels) > 1 {
		label = -2
	}
	return map[string]any{"rd": n.RD.String(), "x": vrPrefixName(n.Prefix), "label": label, "rts": vrRtsOf(attrs), "v": vrTagOf(attrs)}
}

// fold applies the UPDATEs a neighbour received, in order, to its views.
func (w *vrWorld) fold(name string) {
	p := w.peers[name]
	cur := p.curSession()
	for _, m := range p.take() {
		if m.Msg == nil || m.Msg.Header.Type != bgp.BGP_MSG_UPDATE || m.Sess != cur {
			if m.Msg == nil && m.Type == bgp.BGP_MSG_UPDATE && m.Sess == cur {
				w.junk[name]++ // an UPDATE the neighbour cannot decode
			}
			continue
		}
		u := m.Msg.Body.(*bgp.BGPUpdate)
		for _, wd := range u.WithdrawnRoutes {
			if name != "CE" {
				w.junk[name]++
				continue
			}
			if n, ok := wd.NLRI.(*bgp.IPAddrPrefix); ok {
				delete(w.uni[name], vrPrefixName(n.Prefix))
			}
		}
		for _, a := range u.PathAttributes {
			switch t := a.(type) {
			case *bgp.PathAttributeMpUnreachNLRI:
				fam := bgp.NewFamily(t.AFI, t.SAFI)
				for _, pn := range t.Value {
					switch n := pn.NLRI.(type) {
					case *bgp.LabeledVPNIPAddrPrefix:
						if fam != bgp.RF_IPv4_VPN || name == "CE" {
							w.junk[name]++
							continue
						}
						delete(w.vpn[name], n.RD.String()+":"+n.Prefix.String())
					case *bgp.RouteTargetMembershipNLRI:
						if name != "N1" {
							w.junk[name]++
							continue
						}
						delete(w.rtc[name], n.String())
						delete(w.rtcOwn[name], n.String())
					default:
						w.junk[name]++
					}
				}
			case *bgp.PathAttributeMpReachNLRI:
				fam := bgp.NewFamily(t.AFI, t.SAFI)
				for _, pn := range t.Value {
					switch n := pn.NLRI.(type) {
					case *bgp.LabeledVPNIPAddrPrefix:
						if fam != bgp.RF_IPv4_VPN || name == "CE" {
							w.junk[name]++
							continue
						}
						w.vpn[name][n.RD.String()+":"+n.Prefix.String()] = vrVpnEntry(n, u.PathAttributes)
					case *bgp.RouteTargetMembershipNLRI:
						if name != "N1" {
							w.junk[name]++
							continue
						}
						w.rtc[name][n.String()] = true
						if n.AS == 65000 && n.RouteTarget != nil {
							w.rtcOwn[name][n.String()] = vrRTName(n.RouteTarget)
						}
					default:
						w.junk[name]++
					}
				}
			}
		}
		for _, pn := range u.NLRI {
			if name != "CE" {
				w.junk[name]++
				continue
			}
			if n, ok := pn.NLRI.(*bgp.IPAddrPrefix); ok {
				x := vrPrefixName(n.Prefix)
				w.uni[name][x] = map[string]any{"x": x, "v": vrTagOf(u.PathAttributes), "ecs": vrRtsOf(u.PathAttributes)}
			}
		}
	}
}

func vrSrcName(a netip.Addr) string {
	if a.IsValid() {
		for n, d := range vrPeerDefs {
			if d.addr == a.String() {
				return n
			}
		}
	}
	return "local"
}

func vrSorted(m map[string]map[string]any) []any {
	l := []any{}
	for _, k := range vpSortedKeys(m) {
		l = append(l, m[k])
	}
	return l
}

func (w *vrWorld) observe() map[string]any {
	ctx := context.Background()
	obs := map[string]any{}
	sess := map[string]string{}
	vpnv := map[string]any{}
	junk := map[string]int{}
	for _, name := range []string{"N1", "N2", "N3", "CE"} {
		sp, ok := w.peers[name]
		if !ok {
			sess[name] = "absent"
			vpnv[name] = []any{}
			junk[name] = 0
			continue
		}
		st, _, _ := w.ss.peerState(sp.addr.String())
		if st == api.PeerState_SESSION_STATE_ESTABLISHED {
			sess[name] = "up"
		} else {
			sess[name] = "down"
		}
		w.fold(name)
		vpnv[name] = vrSorted(w.vpn[name])
		junk[name] = w.junk[name]
	}
	obs["sess"] = sess
	obs["vpn"] = vpnv
	obs["junk"] = junk
	if _, ok := w.peers["CE"]; ok {
		obs["ce"] = vrSorted(w.uni["CE"])
	} else {
		obs["ce"] = []any{}
	}
	if _, ok := w.peers["N1"]; ok {
		l := []string{}
		for k := range w.rtc["N1"] {
			l = append(l, k)
		}
		sort.Strings(l)
		obs["rtcout"] = l // memberships the speaker advertised to N1 (informational)
		// the speaker's own memberships (origin AS = its AS) by target name
		own := []string{}
		for _, n := range w.rtcOwn["N1"] {
			own = append(own, n)
		}
		sort.Strings(own)
		obs["rtcown"] = own
	}
	// ListVrf
	vrfs := map[string]map[string]any{}
	names := []string{}
	_ = w.ss.s.ListVrf(ctx, &api.ListVrfRequest{}, func(v *api.Vrf) {
		rd, _ := apiutil.UnmarshalRD(v.Rd)
		imp, _ := apiutil.UnmarshalRTs(v.ImportRt)
		exp, _ := apiutil.UnmarshalRTs(v.ExportRt)
		e := map[string]any{"name": v.Name, "rd": "?", "imp": []string{}, "exp": []string{}}
		if rd != nil {
			e["rd"] = rd.String()
		}
		il := []string{}
		for _, r := range imp {
			il = append(il, vrRTName(r))
		}
		sort.Strings(il)
		el := []string{}
		for _, r := range exp {
			el = append(el, vrRTName(r))
		}
		sort.Strings(el)
		e["imp"], e["exp"] = il, el
		vrfs[v.Name+fmt.Sprintf("#%d", len(names))] = e
		names = append(names, v.Name)
	})
	obs["vrfs"] = vrSorted(vrfs)
	// ListPath(TABLE_TYPE_VRF) for both VRF names of the vocabulary
	vv := map[string]any{}
	for _, vn := range []string{"v1", "v2"} {
		ents := map[string]map[string]any{}
		i := 0
		err := w.ss.s.ListPath(apiutil.ListPathRequest{TableType: api.TableType_TABLE_TYPE_VRF, Name: vn, Family: bgp.RF_IPv4_UC}, func(prefix bgp.NLRI, paths []*apiutil.Path) {
			rd := "?"
			if n, ok := prefix.(*bgp.LabeledVPNIPAddrPrefix); ok {
				rd = n.RD.String()
			}
			for _, p := range paths {
				e := map[string]any{"rd": rd, "x": "other:" + p.Nlri.String(), "v": vrTagOf(p.Attrs), "src": vrSrcName(p.PeerAddress), "plain": false}
				if n, ok := p.Nlri.(*bgp.IPAddrPrefix); ok && p.Family == bgp.RF_IPv4_UC {
					e["x"] = vrPrefixName(n.Prefix)
					e["plain"] = true
				}
				ents[fmt.Sprintf("%s:%v#%03d", rd, e["x"], i)] = e
				i++
			}
		})
		vv[vn] = map[string]any{"exists": err == nil, "routes": vrSorted(ents)}
	}
	obs["vrfview"] = vv
	// global VPNv4 table
	g := map[string]map[string]any{}
	i := 0
	_ = w.ss.s.ListPath(apiutil.ListPathRequest{TableType: api.TableType_TABLE_TYPE_GLOBAL, Family: bgp.RF_IPv4_VPN}, func(prefix bgp.NLRI, paths []*apiutil.Path) {
		for _, p := range paths {
			n, ok := p.Nlri.(*bgp.LabeledVPNIPAddrPrefix)
			if !ok {
				continue
			}
			e := vrVpnEntry(n, p.Attrs)
			e["src"] = vrSrcName(p.PeerAddress)
			g[fmt.Sprintf("%s:%s#%03d", e["rd"], e["x"], i)] = e
			i++
		}
	})
	obs["gvpn"] = vrSorted(g)
	return obs
}

func vrRun(t *testing.T, tr *vpTrace, tid int, b *vrBehaviour) {
	synctest.Test(t, func(t *testing.T) {
		w := &vrWorld{t: t, b: b, peers: map[string]*simPeer{}, vpn: map[string]map[string]map[string]any{},
			uni: map[string]map[string]map[string]any{}, rtc: map[string]map[string]bool{}, rtcOwn: map[string]map[string]string{}, junk: map[string]int{}, tr: tr}
		w.ss = newSimServer(t, &api.Global{Asn: simLocalAS})
		w.addPeer("N1")
		w.addPeer("N2")
		for _, st := range b.Steps { // the iBGP PE is configured only in schedules that use it
			if st.P == "N3" {
				w.addPeer("N3")
				break
			}
		}
		synctest.Wait()
		tr.Emit(map[string]any{"ev": "Reset", "tid": tid, "cfg": b.Cfg})
		for _, st := range b.Steps {
			if os.Getenv("VERIF_DEBUG") != "" {
				js, _ := json.Marshal(st)
				fmt.Fprintf(os.Stderr, "DBG tid=%d step %s\n", tid, js)
			}
			extra := w.step(st)
			row := map[string]any{"ev": st.Ev, "t": int64(w.ss.now()*1000 + 0.5), "obs": w.observe()}
			for k, v := range extra {
				row[k] = v
			}
			if st.P != "" {
				row["p"] = st.P
			}
			if st.R != nil {
				row["r"] = st.R
			}
			if st.M != nil {
				row["m"] = st.M
			}
			if st.Vrf != nil {
				row["vrf"] = st.Vrf
			}
			if st.Name != "" {
				row["name"] = st.Name
			}
			if st.X != "" {
				row["x"] = st.X
			}
			switch st.Ev {
			case "CeAnn", "ApiAdd":
				row["v"] = st.V
			case "Tick":
				row["d"] = st.D
			}
			tr.Emit(row)
		}
		w.ss.stop()
		for _, sp := range w.peers {
			sp.closeConn()
		}
		synctest.Wait()
	})
}

func TestVerifC17(t *testing.T) {
	tr := vpOpenTrace(t)
	defer tr.Close()
	tid := 0
	vpReadLines(t, "VERIF_IN", func(line []byte) {
		var b vrBehaviour
		if err := json.Unmarshal(line, &b); err != nil {
			t.Fatalf("bad behaviour: %v", err)
		}
		tid++
		vrRun(t, tr, tid, &b)
	})
}

var _ = strings.TrimSpace
