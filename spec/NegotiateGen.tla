---------------------------- MODULE NegotiateGen ----------------------------
(* Behaviour generator of C08: one behaviour = one step (configuration, received OPEN).
   TLC expands every pick of NegotiatePicks!Picks into the concrete configuration and OPEN
   (NegotiateDom) and prints it as JSON; the Go harness executes it on the real speaker. *)
EXTENDS Negotiate, NegotiateDom, NegotiatePicks, Json

VARIABLE pick
GenInit == pick \in Picks
GenNext == UNCHANGED pick
GenSpec == GenInit /\ [][GenNext]_pick

PickTag(p) == LET RECURSIVE J(_) J(i) == IF i > Len(p) THEN "" ELSE ToString(p[i]) \o (IF i < Len(p) THEN "." ELSE "") \o J(i + 1) IN J(1)

Emit == PrintT("VPOUT " \o ToJson([tag |-> PickTag(pick), cfg |-> CfgOf(pick), open |-> OpenOf(pick)]))
=============================================================================
