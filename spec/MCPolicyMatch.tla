---------------------------- MODULE MCPolicyMatch ----------------------------
(* Exhaustive small-scope pools for PolicyMatch (design level: mechanism => property layer):
   every edit sequence (Define / Append / Remove / Replace with 1..2 arguments) over a pool of
   shape patterns, lists up to MaxLen entries; in every reachable state the compiled matcher is
   compared with the denotation on every probe route (all sets of <= 2 probe values) under
   any / all / invert.  The pools put every promotion of the compiler next to its boundary:
   16-bit overflow of either half, local-admin above 65535 (highLA), 4294967295 / 4294967296,
   duplicate alternatives, classes that run across 65535, both sub-types, dotted administrators. *)
EXTENDS PolicyMatch

CONSTANTS Pool,      \* "std" | "ext" | "large"
          MaxLen

N(x)   == Mk(x)
Max32  == <<65535, 65535>>      \* 4294967295
Ovf32  == <<65536, 0>>          \* 4294967296 (fits no field)
Ovf16  == <<1, 0>>              \* 65536

StdPool == {
  Shape("std", "anch",  <<Lit(N(100)), Lit(N(5))>>),                  \* exact
  Shape("std", "plain", <<Lit(N(100)), Lit(N(6))>>),                  \* exact, configured bare
  Shape("std", "anch",  <<Lit(N(100)), AnyNum("dot*")>>),                \* fixed-AS wildcard
  Shape("std", "anch",  <<Lit(N(200)), AnyNum("d*")>>),                  \* every local, but scanned
  Shape("std", "anch",  <<Lit(N(100)), Alt(<<N(5), N(7)>>)>>),        \* fixed-AS bitmap
  Shape("std", "anch",  <<Lit(N(200)), Cls(6553, 0, 9)>>),            \* 65530..65539 -> bitmap up to 65535
  Shape("std", "anch",  <<AnyNum("d+"), Lit(N(5))>>),                    \* AS-independent bitmap
  Shape("std", "anch",  <<AnyNum("09*"), Alt(<<N(6), N(65535)>>)>>),     \* AS-independent bitmap
  Shape("std", "anch",  <<AnyNum("d+"), Alt(<<N(7), N(7)>>)>>),          \* duplicate -> regexp fallback
  Shape("std", "anch",  <<AnyNum("d+"), AnyNum("d+")>>),                    \* regexp fallback, matches all
  Shape("std", "anch",  <<Lit(Ovf16), Lit(N(5))>>),                   \* AS overflow: regexp, never
  Shape("std", "anch",  <<Lit(N(100)), Lit(Ovf16)>>)                  \* local overflow: empty bitmap
}
StdProbeValues ==
  {[k |-> "std", st |-> "std", n |-> <<N(a), N(l)>>] : a \in {100, 200, 65535}, l \in {5, 6, 7, 65530, 65535}}

ExtPool == {
  Shape("rt",  "anch",  <<Lit(N(100)), Lit(N(5))>>),                  \* exact
  Shape("soo", "plain", <<Lit(N(100)), Lit(N(5))>>),                  \* same text, other sub-type
  Shape("rt",  "anch",  <<Lit(N(100)), Lit(Ovf16)>>),                 \* exact, local-admin 65536 (highLA)
  Shape("rt",  "anch",  <<Lit(N(200)), Lit(Max32)>>),                 \* exact 4294967295
  Shape("rt",  "anch",  <<Lit(N(200)), Lit(Ovf32)>>),                 \* 4294967296: regexp, never
  Shape("rt",  "anch",  <<Lit(N(100)), AnyNum("d+")>>),                  \* AS only
  Shape("soo", "anch",  <<Lit(N(200)), Alt(<<N(5), N(7)>>)>>),        \* AS bitmap
  Shape("rt",  "anch",  <<AnyNum("d+"), Lit(N(7))>>),                    \* wildcard-AS bitmap
  Shape("soo", "anch",  <<AnyNum("09+"), Alt(<<N(5), Ovf16>>)>>),        \* 65536 in the set: regexp fallback
  Shape("rt",  "anch",  <<Lit(N(200)), Cls(1, 0, 9)>>),               \* class: regexp fallback
  Shape("rt",  "anch",  <<Lit(Ovf16), Lit(N(5))>>)                    \* AS overflow: regexp, never
}
ExtProbeValues ==
  {[k |-> "two", st |-> s, n |-> <<N(a), l>>] : s \in SubTypes, a \in {100, 200}, l \in {N(5), N(7), N(15), Ovf16, Max32}}
  \cup {[k |-> "four", st |-> "rt", n |-> <<N(100), N(5)>>],       \* text 0.100:5
        [k |-> "four", st |-> "rt", n |-> <<<<100, 200>>, N(7)>>], \* text 100.200:7
        [k |-> "ip4",  st |-> "rt", n |-> <<N(100), N(5)>>]}       \* text 0.0.0.100:5

LargePool == {
  Shape("large", "plain", <<Lit(N(1)), Lit(N(2)), Lit(N(3))>>),
  Shape("large", "anch",  <<Lit(Max32), AnyNum("d+"), Lit(Max32)>>),
  Shape("large", "anch",  <<AnyNum("d+"), Alt(<<N(2), Ovf16>>), AnyNum("dot*")>>),
  Shape("large", "anch",  <<Lit(N(1)), Cls(6553, 0, 9), Lit(Ovf32)>>),
  Shape("large", "anch",  <<Alt(<<N(1), Max32>>), Lit(N(2)), Cls(1, 3, 4)>>)
}
LargeProbeValues ==
  {[k |-> "large", st |-> "large", n |-> <<a, b, c>>] :
     a \in {N(1), Max32}, b \in {N(2), Ovf16, N(65531)}, c \in {N(3), N(13), Max32}}

ThePool   == CASE Pool = "std" -> StdPool [] Pool = "ext" -> ExtPool [] Pool = "large" -> LargePool
TheValues == CASE Pool = "std" -> StdProbeValues [] Pool = "ext" -> ExtProbeValues
               [] Pool = "large" -> LargeProbeValues
Probes    == {{}} \cup {{a, b} : a \in TheValues, b \in TheValues}      \* all sets of <= 2 values

ArgSeqs == {<<p>> : p \in ThePool} \cup {<<p, q>> : p \in ThePool, q \in ThePool}

Next == \E args \in ArgSeqs :
          \/ plist = <<>> /\ DoDefine(args)
          \/ Len(plist) + Len(args) <= MaxLen /\ DoAppend(args)
          \/ DoRemove(args)
          \/ DoReplace(args)

Spec == Init /\ [][Next]_vars

ASSUME \A v \in TheValues : v \in StdValues \cup TwoValues \cup FourValues \cup Ip4Values \cup LargeValues

D_C13_Equiv == D_C13_Equivalent(Pool, Probes)
=============================================================================
