------------------------------- MODULE MCFsm -------------------------------
(* Exhaustive small-scope checking of Fsm.tla (design level: mechanism => property layer modulo
   the named deviations).  TLC cfg files cannot hold records, so the configurations live here. *)
EXTENDS Fsm

Cfg(passive, hold, peer) == [passive |-> passive, hold |-> hold, peer |-> peer, maxpfx |-> 1, nbit |-> FALSE, retry |-> 3]
CfgsPassive == {Cfg(TRUE, 9, "lo"), Cfg(TRUE, 3, "lo")}
CfgsActiveLo == {Cfg(FALSE, 9, "lo")}
CfgsActiveHi == {Cfg(FALSE, 9, "hi")}
CfgsActiveEq == {Cfg(FALSE, 9, "eqlo"), Cfg(FALSE, 9, "eqhi")}
CfgsAll == CfgsPassive \cup CfgsActiveLo \cup CfgsActiveHi \cup CfgsActiveEq
=============================================================================
