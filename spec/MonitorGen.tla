---------------------------- MODULE MonitorGen ----------------------------
(* Behaviour generator for C19 (A): random schedules over the input alphabet of Speaker (sessions,
   announcements, withdrawals, API routes, peer removal / re-addition) plus the monitoring controls
     BmpOn(pol)  - a BMP station is configured with route-monitoring policy pol (pre / post / local / all)
     BmpOff      - the station is de-configured
     BmpDrop     - the station closes the connection; the daemon notices at its next write (a session coming
                   up or going down always makes it write) and opens a new monitoring session
     Dump        - virtual time advances over the next tick of the MRT table dumper; the dump is read back.
   (The MRT updates dumper runs from the start.)  One JSON schedule per behaviour. *)
EXTENDS Speaker, SpeakerDom, Json

CONSTANTS MaxSteps, StartPol, Warm     \* Warm: every neighbour is brought up first

VARIABLES gone, bmp, dropped, hist, done
gvars == <<up, inr, loc, impPol, expPol, inrPol, expEff, gone, bmp, dropped, hist, done>>

SetToSeq(S) == LET RECURSIVE F(_)
                   F(T) == IF T = {} THEN <<>> ELSE LET m == CHOOSE a \in T : TRUE IN <<m>> \o F(T \ {m})
               IN F(S)
UpSteps == IF Warm THEN LET q == SetToSeq(Peers) IN [i \in 1..Len(q) |-> [ev |-> "Up", p |-> q[i]]] ELSE <<>>
GInit == /\ gone = {} /\ done = FALSE /\ dropped = FALSE
         /\ up = [p \in Peers |-> Warm]
         /\ inr = [p \in Peers |-> [x \in Prefixes |-> NoRoute]]
         /\ loc = [x \in Prefixes |-> NoRoute]
         /\ impPol = "acc" /\ expPol = "acc"
         /\ inrPol = [p \in Peers |-> [x \in Prefixes |-> "acc"]]
         /\ expEff = [p \in Peers |-> "acc"]
         /\ IF StartPol = "none" THEN bmp = "off" /\ hist = UpSteps
            ELSE bmp = StartPol /\ hist = <<[ev |-> "BmpOn", pol |-> StartPol]>> \o UpSteps

Log(e) == hist' = Append(hist, e)
Coin(n) == RandomElement(1..n) = 1

GUp(p)   == PUp(p) /\ p \notin gone /\ Log([ev |-> "Up", p |-> p]) /\ UNCHANGED <<gone, bmp>> /\ dropped' = FALSE
GDown(p) == Coin(3) /\ PDown(p) /\ Log([ev |-> "Down", p |-> p]) /\ UNCHANGED <<gone, bmp>> /\ dropped' = FALSE
GAnn(p)  == /\ up[p]
            /\ \E x \in {RandomElement(Prefixes)} : \E c \in {RandomElement(VarCodes)} :
                 LET r == MkRoute(PInfo, p, c) IN PAnn(p, x, r) /\ Log([ev |-> "Ann", p |-> p, x |-> x, r |-> r])
            /\ UNCHANGED <<gone, bmp, dropped>>
GWd(p)   == /\ up[p]
            /\ \E x \in {RandomElement(Prefixes)} : PWd(p, x) /\ Log([ev |-> "Wd", p |-> p, x |-> x])
            /\ UNCHANGED <<gone, bmp, dropped>>
GApiAdd  == \E x \in {RandomElement(Prefixes)} : \E c \in {RandomElement({0, 1})} :
              LET r == MkLocal(c) IN PApiAdd(x, r) /\ Log([ev |-> "ApiAdd", x |-> x, r |-> r]) /\ UNCHANGED <<gone, bmp, dropped>>
GApiDel  == \E x \in {RandomElement(Prefixes)} : PApiDel(x) /\ Log([ev |-> "ApiDel", x |-> x]) /\ UNCHANGED <<gone, bmp, dropped>>
GDelPeer(p) == /\ p \notin gone /\ Coin(4)
               /\ (IF up[p] THEN PDown(p) ELSE UNCHANGED pvars)
               /\ gone' = gone \cup {p} /\ Log([ev |-> "DelPeer", p |-> p]) /\ UNCHANGED bmp
               /\ dropped' = (dropped /\ ~up[p])
GAddPeer(p) == /\ p \in gone /\ gone' = gone \ {p}
               /\ Log([ev |-> "AddPeer", p |-> p]) /\ UNCHANGED <<up, inr, loc, polvars, bmp, dropped>>

BmpPols == <<"pre", "pre", "all", "all", "local", "post">>
GBmpOn  == /\ bmp = "off"
           /\ \E pol \in {BmpPols[RandomElement(1..Len(BmpPols))]} : bmp' = pol /\ Log([ev |-> "BmpOn", pol |-> pol])
           /\ dropped' = FALSE /\ UNCHANGED <<up, inr, loc, polvars, gone>>
GBmpOff == /\ bmp # "off" /\ Coin(3) /\ bmp' = "off" /\ Log([ev |-> "BmpOff"])
           /\ dropped' = FALSE /\ UNCHANGED <<up, inr, loc, polvars, gone>>
(* the connection is lost while some neighbour is established (otherwise nothing is there to be re-sent) *)
GBmpDrop == /\ bmp # "off" /\ ~dropped /\ (\E p \in Peers : up[p]) /\ dropped' = TRUE /\ Log([ev |-> "BmpDrop"])
            /\ UNCHANGED <<up, inr, loc, polvars, gone, bmp>>
(* after the connection was lost, a session that ends soon makes the daemon notice while most routes are
   still the ones it reported before *)
GKick(p) == /\ dropped /\ PDown(p) /\ Log([ev |-> "Down", p |-> p]) /\ UNCHANGED <<gone, bmp>> /\ dropped' = FALSE
GDump   == Log([ev |-> "Dump"]) /\ UNCHANGED <<up, inr, loc, polvars, gone, bmp, dropped>>

(* a single Finish step ends the behaviour: exactly the behaviour the simulator followed is printed *)
GFinish == /\ Len(hist) >= MaxSteps /\ ~done /\ done' = TRUE
           /\ UNCHANGED <<up, inr, loc, polvars, gone, bmp, dropped, hist>>
GStep == /\ Len(hist) < MaxSteps /\ UNCHANGED done
         /\ \/ \E p \in Peers : GUp(p) \/ GDown(p) \/ GAnn(p) \/ GAnn(p) \/ GWd(p) \/ GDelPeer(p) \/ GAddPeer(p) \/ GKick(p)
            \/ GApiAdd \/ GApiDel
            \/ GBmpOn \/ GBmpOn \/ GBmpOn \/ GBmpOff \/ GBmpDrop \/ GBmpDrop
            \/ GDump \/ GDump

GNext == GStep \/ GFinish
GSpec == GInit /\ [][GNext]_gvars

Emit == done =>
          PrintT("VPOUT " \o ToJson([peers |-> PInfo, localas |-> LocalAS, steps |-> hist]))
=============================================================================
