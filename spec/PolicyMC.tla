---------------------------- MODULE PolicyMC ----------------------------
(* Exhaustive small scope for Policy: ALL tiny programs of one pool (<= 2 statements, <= 2
   conditions each, <= 1 modification each, either default) over a fixed set of defined sets.
   One TLC run does two things for every program (= initial state):
     * design level: for every route of TinyRoutes, both directions and every target peer the
       code-shaped evaluation MEval is one of the documented readings (MechWithinDoc);
     * prints the schedule that builds the program through the API and evaluates every route,
       which the harness then executes on the real code (validated by PolicyTrace). *)
EXTENDS Policy, Json

CONSTANTS Pool          \* "c2" | "a1" | "seq" | "alias" | "c2x"

VARIABLES prog
mvars == <<prog>>

---------------------------------------------------------------------------
E4(s, a, b, c, d, len, mn, mx) == Entry(P4(s, a, b, c, d, len), mn, mx)

BaseOps == <<
  [op |-> "AddSet", kind |-> "prefix",   name |-> "ps1", replace |-> FALSE,
   members |-> {E4("10.1.0.0/16", 10, 1, 0, 0, 16, 16, 24)}],
  [op |-> "AddSet", kind |-> "prefix",   name |-> "ps2", replace |-> FALSE,
   members |-> {E4("10.1.1.0/24", 10, 1, 1, 0, 24, 25, 32), E4("10.0.0.0/8", 10, 0, 0, 0, 8, 8, 16)}],
  \* nested entries with different mask-length ranges: the LONGEST covering entry (/16 exact, /24 25..32)
  \* does not admit 10.1.1.0/24, a shorter one (/8 8..32) does - "any" quantifies over ALL members
  [op |-> "AddSet", kind |-> "prefix",   name |-> "ps3", replace |-> FALSE,
   members |-> {E4("10.1.1.0/24", 10, 1, 1, 0, 24, 25, 32), E4("10.1.0.0/16", 10, 1, 0, 0, 16, 16, 16),
                E4("10.0.0.0/8", 10, 0, 0, 0, 8, 8, 32)}],
  [op |-> "AddSet", kind |-> "neighbor", name |-> "ns1", replace |-> FALSE, members |-> {"10.0.0.1/32"}],
  [op |-> "AddSet", kind |-> "neighbor", name |-> "ns2", replace |-> FALSE, members |-> {"10.0.0.0/24", "10.9.9.9/32"}],
  [op |-> "AddSet", kind |-> "aspath",   name |-> "as1", replace |-> FALSE,
   members |-> {[shape |-> "left", asn |-> 65001], [shape |-> "origin", asn |-> 65100]}],
  [op |-> "AddSet", kind |-> "aspath",   name |-> "as2", replace |-> FALSE,
   members |-> {[shape |-> "include", asn |-> 65001], [shape |-> "only", asn |-> 65003]}],
  [op |-> "AddSet", kind |-> "comm",     name |-> "cs1", replace |-> FALSE, members |-> {"65001:100", "65002:100"}],
  [op |-> "AddSet", kind |-> "ext",      name |-> "es1", replace |-> FALSE, members |-> {"rt:65001:100", "soo:65001:100"}],
  [op |-> "AddSet", kind |-> "large",    name |-> "ls1", replace |-> FALSE, members |-> {"65001:1:1", "65001:1:2"}] >>

RECURSIVE ApplyAll(_, _, _)
ApplyAll(P, ops, i) == IF i > Len(ops) THEN P ELSE ApplyAll(Apply(P, ops[i]), ops, i + 1)
BaseProgram == ApplyAll(EmptyProgram, BaseOps, 1)

SC(k, s, o) == Cond(k, s, o, "", 0, {})
SetConds == {SC("prefix", "ps1", "any"), SC("prefix", "ps1", "invert"), SC("prefix", "ps2", "any"),
             SC("prefix", "ps3", "any"), SC("prefix", "ps3", "invert"),
             SC("neighbor", "ns1", "any"), SC("neighbor", "ns1", "invert"), SC("neighbor", "ns2", "invert"),
             SC("aspath", "as1", "any"), SC("aspath", "as1", "all"), SC("aspath", "as2", "invert"),
             SC("comm", "cs1", "any"), SC("comm", "cs1", "all"), SC("comm", "cs1", "invert"),
             SC("ext", "es1", "any"), SC("ext", "es1", "all"), SC("large", "ls1", "invert"), SC("large", "ls1", "all")}
AttrConds == {Cond("aslen", "", "", "ge", 2, {}), Cond("aslen", "", "", "eq", 0, {}),
              Cond("commcount", "", "", "le", 1, {}), Cond("commcount", "", "", "eq", 2, {}),
              Cond("origin", "", "", "", 0, {}), Cond("rtype", "", "external", "", 0, {}),
              Cond("rtype", "", "local", "", 0, {}), Cond("rtype", "", "internal", "", 0, {}),
              Cond("rpki", "", "invalid", "", 0, {}), Cond("rpki", "", "valid", "", 0, {}),
              Cond("afisafi", "", "", "", 0, {"ipv4-unicast"}), Cond("afisafi", "", "", "", 0, {"ipv6-unicast", "l3vpn-ipv4-unicast"}),
              Cond("nh", "", "", "", 0, {"192.0.2.1"})}
ModActs == {Act("med", "set", 7, 0, {}, ""), Act("med", "add", 10, 0, {}, ""), Act("med", "sub", 10, 0, {}, ""),
            Act("lp", "", 300, 0, {}, ""), Act("prepend", "as", 65001, 2, {}, ""), Act("prepend", "last-as", 0, 1, {}, ""),
            Act("comm", "add", 0, 0, {"65002:100"}, ""), Act("comm", "remove", 0, 0, {"65001:100"}, ""),
            Act("comm", "replace", 0, 0, {"65100:10"}, ""), Act("ext", "add", 0, 0, {"soo:65001:100"}, ""),
            Act("ext", "remove", 0, 0, {"rt:65001:100"}, ""), Act("large", "add", 0, 0, {"65001:1:2"}, ""),
            Act("large", "replace", 0, 0, {"65002:2:2"}, ""), Act("nh", "addr", 0, 0, {}, "192.0.2.2"),
            Act("nh", "self", 0, 0, {}, ""), Act("nh", "unchanged", 0, 0, {}, ""), Act("origin", "", 2, 0, {}, "")}
(* conditions that look at what a previous statement may have modified *)
SeesConds == {Cond("commcount", "", "", "ge", 2, {}), Cond("aslen", "", "", "ge", 3, {}), SC("comm", "cs1", "all"),
              SC("aspath", "as1", "any"), Cond("nh", "", "", "", 0, {"192.0.2.2"}), Cond("origin", "", "", "", 2, {}),
              SC("large", "ls1", "all")}

AliasActs == ModActs \cup {Act("comm", "add", 0, 0, {"65100:10", "65001:200"}, ""), Act("ext", "add", 0, 0, {"rt:65002:200"}, ""),
                          Act("prepend", "as", 65010, 1, {}, ""), Act("med", "set", 9, 0, {}, ""), Act("lp", "", 50, 0, {}, "")}
AliasPairs == {pr \in AliasActs \X AliasActs : pr[1].k = pr[2].k /\ pr[1] # pr[2] /\ ~(pr[1].k = "large" /\ "add" \in {pr[1].mode, pr[2].mode})}

CondSets(CP, maxc) == {{}} \cup {{c} : c \in CP}
                      \cup (IF maxc >= 2 THEN UNION {{{c, d} : d \in {x \in CP : x.k # c.k}} : c \in CP} ELSE {})
Stmts(name, CP, maxc, AP, DP) ==
  {Stmt(name, cs, as, d) : cs \in CondSets(CP, maxc), as \in {{}} \cup {{a} : a \in AP}, d \in DP}

NoStmt == Stmt("", {}, {}, "none")
Progs ==
  CASE Pool = "c2" ->     \* one statement, <= 2 conditions of every kind, no modification
         [s1 : Stmts("st1", SetConds \cup AttrConds, 2, {}, {"accept", "reject"}), s2 : {NoStmt}, def : {"accept", "reject"}]
    [] Pool = "a1" ->     \* one statement, <= 1 condition, every modification
         [s1 : Stmts("st1", {SC("prefix", "ps1", "any"), SC("neighbor", "ns1", "any"), SC("comm", "cs1", "any")}, 1,
                     ModActs, {"none", "accept"}), s2 : {NoStmt}, def : {"accept"}]
    [] Pool = "seq" ->    \* two statements: modify and go on; then test what was modified
         [s1 : Stmts("st1", {SC("neighbor", "ns1", "any"), SC("prefix", "ps1", "invert")}, 1, ModActs, {"none"}),
          s2 : Stmts("st2", SeesConds, 1, {}, {"accept", "reject"}), def : {"accept", "reject"}]
    [] Pool = "alias" ->  \* the same kind of modification with DIFFERENT values for two target peers, applied
                          \* from one stored path: an in-place modification of a shared list shows up in the
                          \* result already handed out for the other peer ("large add": recorded finding, seeds)
         [s1 : {Stmt("st1", {SC("neighbor", "ns1", "any")}, {pr[1]}, "accept") : pr \in AliasPairs},
          s2 : {Stmt("st2", {}, {pr[2]}, "accept") : pr \in AliasPairs}, def : {"accept"}]
    [] Pool = "c2x" ->    \* thorough: two statements, <= 2 conditions each, one modification
         [s1 : Stmts("st1", {SC("neighbor", "ns1", "any"), SC("prefix", "ps1", "any"), SC("comm", "cs1", "invert"),
                             Cond("rtype", "", "external", "", 0, {}), Cond("aslen", "", "", "ge", 2, {})}, 2,
                     {Act("med", "sub", 10, 0, {}, ""), Act("comm", "add", 0, 0, {"65002:100"}, ""),
                      Act("prepend", "last-as", 0, 1, {}, ""), Act("nh", "addr", 0, 0, {}, "192.0.2.2"),
                      Act("large", "add", 0, 0, {"65001:1:2"}, "")}, {"none", "reject"}),
          s2 : Stmts("st2", SeesConds \cup {SC("neighbor", "ns2", "invert")}, 2, {}, {"accept", "reject"}),
          def : {"accept", "reject"}]

---------------------------------------------------------------------------
R(pfx, src, nh, ap, o, med, lp, cm, ex, lg, rpki, chain) == Route(pfx, src, nh, ap, o, med, lp, cm, ex, lg, rpki, chain)
TinyRoutes == <<
  R(P4("10.1.1.0/24", 10, 1, 1, 0, 24), "A", "192.0.2.1", <<65001, 65100>>, 0, 10, -1,
    <<"65001:100">>, <<"rt:65001:100">>, <<"65001:1:1">>, "valid", FALSE),
  R(P4("10.1.0.0/16", 10, 1, 0, 0, 16), "B", "192.0.2.2", <<>>, 2, -1, 200, <<>>, <<>>, <<>>, "not-found", TRUE),
  R(P4("10.2.0.0/16", 10, 2, 0, 0, 16), "C", "192.0.2.1", <<65002, 65001>>, 1, 5, -1,
    <<"65001:100", "65002:100">>, <<ExtLB, "rt:65002:200">>, <<>>, "invalid", FALSE),
  R(P6("2001:db8:1::/48", 8193, 3512, 1, 0, 48), "D", "2001:db8:ee::1", <<65003>>, 0, -1, -1,
    <<"65100:10">>, <<>>, <<"65001:1:1", "65001:1:2">>, "valid", FALSE),
  R(P4("10.1.1.128/25", 10, 1, 1, 128, 25), "local", "192.0.2.1", <<>>, 0, -1, -1, <<>>, <<"soo:65001:100">>, <<>>, "not-found", TRUE),
  R(P4("10.1.128.0/17", 10, 1, 128, 0, 17), "A", "192.0.2.2", <<65001, 65001, 65100>>, 2, 50, 100,
    <<"65001:200", "65002:100", "65100:10">>, <<"rt:65001:100", "soo:65001:100">>, <<"65002:2:2", "65001:1:1">>, "invalid", TRUE) >>

EvalOps ==
  [i \in 1..Len(TinyRoutes) |->
     LET r == TinyRoutes[i] IN
       IF r.src = "local"
       THEN [op |-> "Eval", route |-> r, d1 |-> "export", p1 |-> "A", d2 |-> "export", p2 |-> "C"]
       ELSE [op |-> "Eval", route |-> r, d1 |-> "import", p1 |-> r.src,
             d2 |-> "export", p2 |-> (IF r.src = "A" THEN "B" ELSE "A")]]

(* alias pool: both orders of two export targets, and import followed by export *)
AliasEvalOps ==
  LET one(r) == IF r.src = "local"
                THEN <<[op |-> "Eval", route |-> r, d1 |-> "export", p1 |-> "A", d2 |-> "export", p2 |-> "C"],
                       [op |-> "Eval", route |-> r, d1 |-> "export", p1 |-> "C", d2 |-> "export", p2 |-> "A"]>>
                ELSE <<[op |-> "Eval", route |-> r, d1 |-> "export", p1 |-> "A", d2 |-> "export", p2 |-> "C"],
                       [op |-> "Eval", route |-> r, d1 |-> "export", p1 |-> "C", d2 |-> "export", p2 |-> "A"],
                       [op |-> "Eval", route |-> r, d1 |-> "import", p1 |-> r.src, d2 |-> "export", p2 |-> "A"]>>
  IN one(TinyRoutes[1]) \o one(TinyRoutes[3]) \o one(TinyRoutes[5]) \o one(TinyRoutes[6])

ProgOps(pr) ==
  <<[op |-> "AddPol", name |-> "p1", refer |-> FALSE,
     stmts |-> IF pr.s2 = NoStmt THEN <<pr.s1>> ELSE <<pr.s1, pr.s2>>],
    [op |-> "SetAsg", dir |-> "import", pols |-> <<"p1">>, def |-> pr.def],
    [op |-> "SetAsg", dir |-> "export", pols |-> <<"p1">>, def |-> pr.def]>>

(* only the defined sets the program refers to are created *)
NeededBase(pr) ==
  LET used == SetsUsedBy(pr.s1) \cup SetsUsedBy(pr.s2)
  IN SelectSeq(BaseOps, LAMBDA o : o.name \in used)

ProgramOf(pr) == ApplyAll(BaseProgram, ProgOps(pr), 1)

MCInit == prog \in Progs
MCNext == UNCHANGED prog
MCSpec == MCInit /\ [][MCNext]_mvars

(* design level *)
D_C10_MechWithinDoc ==
  LET P == ProgramOf(prog) IN
    \A i \in 1..Len(TinyRoutes) :
      LET r == TinyRoutes[i] IN
        /\ r.src # "local" => MechWithinDoc(P, r, "import", r.src)
        /\ \A p \in {"A", "B", "D"} : MechWithinDoc(P, r, "export", p)

EmitTiny ==
  PrintT("VPOUT " \o ToJson([peers |-> PeerTable, nbr |-> NbrCovers, rbevery |-> FALSE, kind |-> "tiny:" \o Pool,
                             steps |-> NeededBase(prog) \o ProgOps(prog) \o (IF Pool = "alias" THEN AliasEvalOps ELSE EvalOps)]))
=============================================================================
