---------------------------- MODULE BfdRegGen ----------------------------
(* Schedules for the BFD helper lifecycle (C20): histories of management operations of BfdReg.tla.
   Run in check mode (small scope: EVERY history of MaxSteps operations is printed once, `hist` makes
   each history its own state) or with -simulate (longer random histories over more neighbours). *)
EXTENDS BfdReg, Json

CONSTANTS MaxSteps

VARIABLES hist, done
gvars == <<phase, cfg, reg, hist, done>>

GenInit == Init /\ hist = <<>> /\ done = FALSE

Op(e, n, c) == [ev |-> e, n |-> n, bfd |-> c.bfd, mult |-> c.mult, asn |-> c.asn]

Over == Len(hist) = MaxSteps \/ phase = "stopped"
GenOps ==
  /\ ~Over /\ UNCHANGED done
  /\ \/ StartBgp /\ hist' = Append(hist, Op("Start", "", Absent))
     \/ StopBgp /\ hist' = Append(hist, Op("Stop", "", Absent))
     \/ \E n \in Nbrs, c \in Confs :
          \/ AddPeer(n, c) /\ UNCHANGED phase /\ hist' = Append(hist, Op("Add", n, c))
          \/ UpdatePeer(n, c) /\ UNCHANGED phase /\ hist' = Append(hist, Op("Upd", n, c))
     \/ \E n \in Nbrs : DeletePeer(n) /\ hist' = Append(hist, Op("Del", n, Absent))

(* one closing step per history, so that a simulation prints the history it followed exactly once *)
GenFinish == Over /\ ~done /\ done' = TRUE /\ UNCHANGED <<phase, cfg, reg, hist>>
GenNext == GenOps \/ GenFinish

GenSpec == GenInit /\ [][GenNext]_gvars

Emit == done => PrintT("VPOUT " \o ToJson([steps |-> hist]))
=============================================================================
