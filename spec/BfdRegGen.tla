---------------------------- MODULE BfdRegGen ----------------------------
(* Schedules for the BFD helper lifecycle (C20): histories of management operations of BfdReg.tla.
   Run in check mode (small scope: EVERY history of MaxSteps operations is printed once, `hist` makes
   each history its own state) or with -simulate (longer random histories over more neighbours). *)
EXTENDS BfdReg, Json

CONSTANTS MaxSteps,
          Mode       \* "plain": neighbours configured one by one; "group": only through the peer group; "all"

VARIABLES hist, done
gvars == <<grp, phase, cfg, reg, hist, done>>

GenInit == Init /\ hist = <<>> /\ done = FALSE

Op(e, n, c) == [ev |-> e, n |-> n, bfd |-> c.bfd, mult |-> c.mult, asn |-> c.asn]

Over == Len(hist) = MaxSteps \/ phase = "stopped"
GenOps ==
  /\ ~Over /\ UNCHANGED done
  /\ \/ StartBgp /\ hist' = Append(hist, Op("Start", "", Absent))
     \/ StopBgp /\ hist' = Append(hist, Op("Stop", "", Absent))
     \/ Mode # "group" /\ \E n \in Nbrs, c \in Confs :
          \/ AddPeer(n, c) /\ UNCHANGED phase /\ hist' = Append(hist, Op("Add", n, c))
          \/ UpdatePeer(n, c) /\ UNCHANGED phase /\ hist' = Append(hist, Op("Upd", n, c))
     \/ Mode # "plain" /\ \E c \in Confs :
          \/ AddGroup(c) /\ hist' = Append(hist, Op("AddGroup", "", c))
          \/ UpdateGroup(c) /\ hist' = Append(hist, Op("UpdGroup", "", c))
     \/ Mode # "plain" /\ \E n \in Nbrs : AddMember(n) /\ hist' = Append(hist, Op("AddMember", n, grp))
     \/ \E n \in Nbrs : DeletePeer(n) /\ hist' = Append(hist, Op("Del", n, Absent))

(* one closing step per history, so that a simulation prints the history it followed exactly once *)
GenFinish == Over /\ ~done /\ done' = TRUE /\ UNCHANGED <<grp, phase, cfg, reg, hist>>
GenNext == GenOps \/ GenFinish

GenSpec == GenInit /\ [][GenNext]_gvars

Emit == done => PrintT("VPOUT " \o ToJson([steps |-> hist]))
=============================================================================
