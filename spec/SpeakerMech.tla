---------------------------- MODULE SpeakerMech ----------------------------
(* Mechanism layer of the speaker (design level): per-neighbour outgoing queue of batches, a
   sender that takes ALL queued batches at once and keeps the last action per wire key
   (sendMessageloop + CreateUpdateMsgFromPaths), message-by-message delivery, neighbours that
   stop reading, session up (publish + initial table transfer under the refresh lock, atomically
   w.r.t. propagation) and session down.  Each input action updates the property-layer variables
   of Speaker (up, inr, loc) and fans the best-path change out to every established neighbour
   exactly like propagateUpdateToNeighbors/filterpath:
        new best advertisable      -> announce its exported form
        else old best advertisable -> withdraw
   TLC checks: whenever a reading neighbour has nothing queued, it holds exactly ExportView. *)
EXTENDS Speaker, SpeakerDom

CONSTANTS MaxEvents, Codes, LocalCodes

VARIABLES outq, sending, wire, stalled, nev
mvars == <<up, inr, loc, impPol, expPol, inrPol, expEff, outq, sending, wire, stalled, nev>>

EmptyView == [x \in Prefixes |-> NoRoute]

MInit == /\ PInit
         /\ outq = [p \in Peers |-> <<>>]
         /\ sending = [p \in Peers |-> <<>>]
         /\ wire = [p \in Peers |-> EmptyView]
         /\ stalled = {}
         /\ nev = 0

BestOrNone(S) == IF S = {} THEN NoRoute ELSE BestOf(S)

(* the change sent to neighbour q when the best of prefix x goes from old to new *)
OpFor(q, x, old, new) ==
  IF new # NoRoute /\ MayAdvertise(new, q) THEN <<[x |-> x, r |-> Exp(new, q)]>>
  ELSE IF old # NoRoute /\ old # new /\ MayAdvertise(old, q) THEN <<[x |-> x, r |-> NoRoute]>>
  ELSE <<>>

(* fan-out after the property-layer variables changed: compare best before/after per prefix *)
FanOut(oldRib, newRib, ups) ==
  outq' = [q \in Peers |->
             IF q \notin ups THEN outq[q]
             ELSE LET RECURSIVE Ops(_)
                      Ops(X) == IF X = {} THEN <<>>
                                ELSE LET x == CHOOSE y \in X : TRUE
                                         o == BestOrNone(oldRib[x])
                                         n == BestOrNone(newRib[x])
                                     IN (IF o = n THEN <<>> ELSE OpFor(q, x, o, n)) \o Ops(X \ {x})
                      b == Ops(Prefixes)
                  IN IF b = <<>> THEN outq[q] ELSE Append(outq[q], b)]

RibNow == [x \in Prefixes |-> LocRibExpected(x)]
RibAfter(inr2, loc2) ==      \* the mechanism model runs with the "acc" policies only
  [x \in Prefixes |-> {inr2[p][x] : p \in {q \in Peers : Usable(inr2[q][x])}}
                      \cup (IF loc2[x] # NoRoute THEN {loc2[x]} ELSE {})]
Ups == {p \in Peers : up[p]}

Event == nev < MaxEvents /\ nev' = nev + 1

MAnn(p, x, r) == /\ Event /\ PAnn(p, x, r)
                 /\ FanOut(RibNow, RibAfter(inr', loc), Ups)
                 /\ UNCHANGED <<sending, wire, stalled>>
MWd(p, x)     == /\ Event /\ inr[p][x] # NoRoute /\ PWd(p, x)
                 /\ FanOut(RibNow, RibAfter(inr', loc), Ups)
                 /\ UNCHANGED <<sending, wire, stalled>>
MApiAdd(x, r) == /\ Event /\ PApiAdd(x, r)
                 /\ FanOut(RibNow, RibAfter(inr, loc'), Ups)
                 /\ UNCHANGED <<sending, wire, stalled>>
MApiDel(x)    == /\ Event /\ loc[x] # NoRoute /\ PApiDel(x)
                 /\ FanOut(RibNow, RibAfter(inr, loc'), Ups)
                 /\ UNCHANGED <<sending, wire, stalled>>

(* session up: state published, queue drained, full table transferred - one step w.r.t.
   propagation (routeRefreshInProgress write lock) *)
DumpFor(p) ==
  LET RECURSIVE Ops(_)
      Ops(X) == IF X = {} THEN <<>>
                ELSE LET x == CHOOSE y \in X : TRUE
                     IN OpFor(p, x, NoRoute, BestOrNone(LocRibExpected(x))) \o Ops(X \ {x})
  IN Ops(Prefixes)
MUp(p) == /\ Event /\ PUp(p)
          /\ wire' = [wire EXCEPT ![p] = EmptyView]
          /\ sending' = [sending EXCEPT ![p] = <<>>]
          /\ outq' = [outq EXCEPT ![p] = IF DumpFor(p) = <<>> THEN <<>> ELSE <<DumpFor(p)>>]
          /\ UNCHANGED stalled

MDown(p) == /\ Event /\ PDown(p)
            /\ stalled' = stalled \ {p}
            /\ sending' = [sending EXCEPT ![p] = <<>>]
            /\ LET others == Ups \ {p}
                   nr == RibAfter(inr', loc)
                   RECURSIVE Ops(_, _)
                   Ops(q, X) == IF X = {} THEN <<>>
                                ELSE LET x == CHOOSE y \in X : TRUE
                                         o == BestOrNone(RibNow[x])
                                         n == BestOrNone(nr[x])
                                     IN (IF o = n THEN <<>> ELSE OpFor(q, x, o, n)) \o Ops(q, X \ {x})
               IN outq' = [q \in Peers |->
                             IF q = p THEN <<>>
                             ELSE IF q \notin others \/ Ops(q, Prefixes) = <<>> THEN outq[q]
                             ELSE Append(outq[q], Ops(q, Prefixes))]
            /\ UNCHANGED wire

(* the sender takes everything that is queued and keeps the last action per prefix *)
Flatten(q) == LET RECURSIVE F(_)
                  F(s) == IF s = <<>> THEN <<>> ELSE Head(s) \o F(Tail(s))
              IN F(q)
LastWins(ops) == LET idx(x) == {i \in 1..Len(ops) : ops[i].x = x}
                     last(x) == CHOOSE i \in idx(x) : \A j \in idx(x) : j <= i
                     keep == {i \in 1..Len(ops) : i = last(ops[i].x)}
                     RECURSIVE Sel(_)
                     Sel(i) == IF i > Len(ops) THEN <<>>
                               ELSE (IF i \in keep THEN <<ops[i]>> ELSE <<>>) \o Sel(i + 1)
                 IN Sel(1)
MTake(p) == /\ up[p] /\ sending[p] = <<>> /\ outq[p] # <<>>
            /\ sending' = [sending EXCEPT ![p] = LastWins(Flatten(outq[p]))]
            /\ outq' = [outq EXCEPT ![p] = <<>>]
            /\ UNCHANGED <<up, inr, loc, polvars, wire, stalled, nev>>

MDeliver(p) == /\ up[p] /\ p \notin stalled /\ sending[p] # <<>>
               /\ wire' = [wire EXCEPT ![p][Head(sending[p]).x] = Head(sending[p]).r]
               /\ sending' = [sending EXCEPT ![p] = Tail(sending[p])]
               /\ UNCHANGED <<up, inr, loc, polvars, outq, stalled, nev>>

MStall(p)  == /\ Event /\ up[p] /\ stalled = {} /\ stalled' = {p}
              /\ UNCHANGED <<up, inr, loc, polvars, outq, sending, wire>>
MResume(p) == /\ p \in stalled /\ stalled' = stalled \ {p}
              /\ UNCHANGED <<up, inr, loc, polvars, outq, sending, wire, nev>>

MNext == \/ \E p \in Peers : \/ MUp(p) \/ MDown(p) \/ MTake(p) \/ MDeliver(p) \/ MStall(p) \/ MResume(p)
                             \/ \E x \in Prefixes : MWd(p, x)
                             \/ \E x \in Prefixes : \E c \in Codes : up[p] /\ MAnn(p, x, MkRoute(PInfo, p, c))
         \/ \E x \in Prefixes : MApiDel(x) \/ \E c \in LocalCodes : MApiAdd(x, MkLocal(c))

MSpec == MInit /\ [][MNext]_mvars

---------------------------------------------------------------------------
Idle(p) == outq[p] = <<>> /\ sending[p] = <<>>

(* C01 at design level *)
D_C01_ExportExact == \A p \in Peers : (up[p] /\ Idle(p)) => wire[p] = ExportView(p)

(* nothing stale: a prefix in the view of an idle established neighbour is in the Loc-RIB *)
D_C01_NothingStale == \A p \in Peers : (up[p] /\ Idle(p)) =>
                         \A x \in Prefixes : wire[p][x] # NoRoute => LocRibExpected(x) # {}

(* liveness shape: a reading neighbour's queue can always be drained (no stuck sender) *)
D_TypeOK == /\ \A p \in Peers : ~up[p] => (outq[p] = <<>> /\ sending[p] = <<>>)
=============================================================================
