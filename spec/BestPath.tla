---------------------------- MODULE BestPath ----------------------------
(* C03 - best path selection of one destination.

   Mechanism layer (shaped like internal/pkg/table/destination.go):
     - `list`   : knownPathList, best first, maintained by implicit/explicit withdraw and a
                  binary-search insertion (sort.Search) that uses the pairwise comparator;
     - Calculate(newPath) = Add / Withdraw.
   Property layer (independent of the mechanism, a function of the PRESENT SET only):
     - Cmp(a,b)  : the documented decision process as a pairwise preference;
     - Best(S)   : the unique candidate preferred to every other one, when the set is Decisive;
     - TopTie(S) : the candidates tied on the criteria before MED (what is required otherwise);
     - MultiLower/MultiUpper : sandwich for the equal-cost multipath set.

   Routes are records
     [src, stale, nhinv, lp, path, origin, med, ts]
   lp = -1 / med = -1 mean "attribute absent". `path` is a sequence of segments
   [t |-> "SEQ"|"SET"|"CSEQ"|"CSET", as |-> <<asn,...>>].
*)
EXTENDS Integers, Sequences, FiniteSets, TLC

CONSTANTS
  Sources,      \* set of source ids (strings)
  SrcInfo,      \* [Sources -> [kind: {"local","ebgp","ibgp","confed"}, as, rid, addr]]
  Opt           \* [acm: BOOLEAN, ignlen: BOOLEAN, extcmp: BOOLEAN]

NONE == "none"

VARIABLES
  list,         \* mechanism: sequence of routes, best first
  tainted       \* history: TRUE once the list held a set that was not Decisive since it was last empty

vars == <<list, tainted>>

---------------------------------------------------------------------------
(* vocabulary *)

Kind(r)     == SrcInfo[r.src].kind
IsLocal(r)  == Kind(r) = "local"
IsIBGP(r)   == Kind(r) = "ibgp"
Internal(r) == Kind(r) \in {"ibgp", "confed"}      \* treated as learned via IBGP
Rid(r)      == SrcInfo[r.src].rid
Addr(r)     == SrcInfo[r.src].addr
EffLp(r)    == IF r.lp = -1 THEN 100 ELSE r.lp
EffMed(r)   == IF r.med = -1 THEN 0 ELSE r.med

RECURSIVE SegSum(_)
SegSum(p) == IF p = <<>> THEN 0
             ELSE (CASE Head(p).t = "SEQ" -> Len(Head(p).as)
                     [] Head(p).t = "SET" -> 1
                     [] OTHER -> 0) + SegSum(Tail(p))
AsLen(r) == SegSum(r.path)

RECURSIVE FirstOf(_)
FirstOf(p) == IF p = <<>> THEN 0
              ELSE IF Head(p).t \in {"CSEQ", "CSET"} \/ Head(p).as = <<>> THEN FirstOf(Tail(p))
              ELSE Head(p).as[1]
FirstAS(r) == FirstOf(r.path)

(* MED of two routes is comparable: same neighbouring AS, both internal, or always-compare *)
MedCmp(a, b) == \/ Opt.acm
                \/ (AsLen(a) = 0 /\ AsLen(b) = 0)
                \/ (FirstAS(a) # 0 /\ FirstAS(a) = FirstAS(b))

---------------------------------------------------------------------------
(* Property layer: the documented decision process, as a pairwise preference.
   Step k returns 1 (a preferred), -1 (b preferred) or 0 (undecided, go on). *)

Lt(x, y) == IF x < y THEN 1 ELSE IF y < x THEN -1 ELSE 0

S1(a, b)  == IF a.stale = b.stale THEN 0 ELSE IF b.stale THEN 1 ELSE -1
S2(a, b)  == IF a.nhinv = b.nhinv THEN 0 ELSE IF b.nhinv THEN 1 ELSE -1
S3(a, b)  == Lt(EffLp(b), EffLp(a))
S4(a, b)  == IF a.src = b.src THEN 0 ELSE IF IsLocal(a) THEN 1 ELSE IF IsLocal(b) THEN -1 ELSE 0
S5(a, b)  == IF Opt.ignlen THEN 0 ELSE Lt(AsLen(a), AsLen(b))
S6(a, b)  == Lt(a.origin, b.origin)
S7(a, b)  == IF MedCmp(a, b) THEN Lt(EffMed(a), EffMed(b)) ELSE 0
S8(a, b)  == IF Internal(a) = Internal(b) THEN 0 ELSE IF Internal(b) THEN 1 ELSE -1
S9(a, b)  == IF ~IsIBGP(a) /\ ~IsIBGP(b) /\ ~Opt.extcmp THEN Lt(a.ts, b.ts) ELSE 0
S10(a, b) == IF IsLocal(a) /\ IsLocal(b) THEN 0
             ELSE IF ~Opt.extcmp /\ ~(IsIBGP(a) /\ IsIBGP(b)) THEN 0
             ELSE Lt(Rid(a), Rid(b))
S11(a, b) == IF IsLocal(a) THEN 1 ELSE IF IsLocal(b) THEN -1 ELSE Lt(Addr(a), Addr(b))

Steps(a, b) == <<S1(a,b), S2(a,b), S3(a,b), S4(a,b), S5(a,b), S6(a,b), S7(a,b), S8(a,b),
                 S9(a,b), S10(a,b), S11(a,b)>>

RECURSIVE FirstNZ(_, _, _)
FirstNZ(s, i, n) == IF i > n THEN 0 ELSE IF s[i] # 0 THEN s[i] ELSE FirstNZ(s, i + 1, n)

Cmp(a, b)    == FirstNZ(Steps(a, b), 1, 11)   \* full documented preference
CmpUpTo(a, b, n) == FirstNZ(Steps(a, b), 1, n)
PreMed(a, b) == CmpUpTo(a, b, 6)               \* steps before MED
Upto8(a, b)  == CmpUpTo(a, b, 8)

MedComparableAll(S) == \A a, b \in S : MedCmp(a, b)

(* After step 8 the tie-breakers are age (pairs of routes not learned via IBGP), router-id
   (pairs of IBGP routes) and neighbour address.  A set mixing confederation-member and IBGP
   routes has no documented common tie-breaker; the decision is only required to be
   order-independent when the set is homogeneous (or external-compare-router-id is on). *)
Homogeneous(S) == Opt.extcmp \/ (\A a \in S : IsIBGP(a)) \/ (\A a \in S : ~IsIBGP(a))
                  \/ (\A a, b \in S : a # b => Upto8(a, b) # 0)

(* The documented pairwise preference names ONE route whenever it orders the candidate set totally.
   That is guaranteed when MED is comparable across all candidates (the property's own clause); it also
   holds for many sets with incomparable MEDs (any two candidates; a set in which no comparable pair
   differs in MED; ...).  What cannot be demanded is a winner when the preference is cyclic. *)
Transitive(S) == \A a, b, c \in S : (Cmp(a, b) = 1 /\ Cmp(b, c) = 1) => Cmp(a, c) = 1
Decisive(S) == Homogeneous(S) /\ (MedComparableAll(S) \/ Transitive(S))

Winners(S) == {a \in S : \A b \in S \ {a} : Cmp(a, b) = 1}
HasBest(S) == Cardinality(Winners(S)) = 1
Best(S)    == CHOOSE a \in Winners(S) : TRUE          \* only meaningful when HasBest(S)

(* candidates not beaten on the criteria before MED by anybody *)
TopTie(S) == {a \in S : \A b \in S : PreMed(b, a) # 1}

(* Multipath sandwich relative to a best route b:
   must contain every reachable candidate that agrees with b on every attribute any reading of
   "equal cost" looks at; may contain only reachable candidates that tie with b through step 8. *)
FullyEqual(a, b) == /\ a.stale = b.stale /\ EffLp(a) = EffLp(b) /\ IsLocal(a) = IsLocal(b)
                    /\ IsIBGP(a) = IsIBGP(b) /\ Internal(a) = Internal(b)
                    /\ AsLen(a) = AsLen(b) /\ a.origin = b.origin /\ EffMed(a) = EffMed(b)
MultiLower(S, b) == {a \in S : ~a.nhinv /\ FullyEqual(a, b)}
MultiUpper(S, b) == {a \in S : ~a.nhinv /\ Upto8(a, b) = 0 /\ Upto8(b, a) = 0}

---------------------------------------------------------------------------
(* Mechanism layer *)

SetOf(l) == {l[i] : i \in 1..Len(l)}

(* the comparator closure of insertSort: TRUE = newPath goes before list[i] *)
Before(new, old) == LET c == Cmp(new, old) IN IF c = 0 THEN TRUE ELSE c = 1

(* sort.Search(n, f): smallest index (0-based) in [0,n) for which f holds, by bisection *)
RECURSIVE Bisect(_, _, _, _)
Bisect(l, new, lo, hi) ==
  IF lo >= hi THEN lo
  ELSE LET mid == (lo + hi) \div 2
       IN IF ~Before(new, l[mid + 1]) THEN Bisect(l, new, mid + 1, hi)
          ELSE Bisect(l, new, lo, mid)

InsertAt(l, i, x) == SubSeq(l, 1, i) \o <<x>> \o SubSeq(l, i + 1, Len(l))   \* i = 0-based position
RemoveSrc(l, s)   == SelectSeq(l, LAMBDA r : r.src # s)

InsertSort(l, new) == InsertAt(l, Bisect(l, new, 0, Len(l)), new)

Taint(l, t) == IF l = <<>> THEN FALSE ELSE t \/ ~Decisive(SetOf(l))

Init == list = <<>> /\ tainted = FALSE

Add(r) ==                                   \* announce or implicit replace
  /\ list' = InsertSort(RemoveSrc(list, r.src), r)
  /\ tainted' = Taint(list', Taint(RemoveSrc(list, r.src), tainted))

Withdraw(s) ==                              \* explicit withdraw (also of an absent route)
  /\ list' = RemoveSrc(list, s)
  /\ tainted' = Taint(list', tainted)

(* Next is defined by the extending modules (exhaustive pools, generator, trace) over
   their own route domains:  \E r \in Domain : Add(r)  \/  \E s \in Sources : Withdraw(s) *)

---------------------------------------------------------------------------
(* Design-level properties: mechanism => property layer *)

Present == SetOf(list)
MechBestSrc == IF list = <<>> \/ list[1].nhinv THEN NONE ELSE list[1].src

OneRoutePerSource == \A i, j \in 1..Len(list) : i # j => list[i].src # list[j].src

(* what the API reports as best: nothing if the preferred route has an unreachable next hop *)
ExpectedBestSrc(S) == IF Best(S).nhinv THEN NONE ELSE Best(S).src

(* C03 at design level: if no non-decisive set was ever held since the list was empty, the head
   is the documented best (order independence is then immediate: Best depends on the set only) *)
D_C03_BestUntainted ==
  (~tainted /\ list # <<>>) => (HasBest(Present) /\ MechBestSrc = ExpectedBestSrc(Present))

(* the stronger statement of the property text (whenever MED is comparable across all present
   candidates).  Kept as a named property so that a design-level counterexample can be
   replayed on the code. *)
D_C03_BestWheneverDecisive ==
  (list # <<>> /\ Decisive(Present)) => (HasBest(Present) /\ MechBestSrc = ExpectedBestSrc(Present))

D_C03_TopTie == list # <<>> => list[1] \in TopTie(Present)

=============================================================================
