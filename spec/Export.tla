---------------------------- MODULE Export ----------------------------
(* C09 - per-peer-type export rewriting and loop prevention.

   Pure operators over abstract routes, peer descriptors and the local speaker.

   PROPERTY layer (transcribed from the property text, RFC 4271 5, RFC 4456, RFC 5065, RFC 7947,
   the OpenConfig descriptions of remove-private-as that gobgp's configuration is generated
   from, and /repo/docs - NOT from the code):
     AttrsConform(o, r, t, loc)  what a copy `o` of route r sent to peer t must look like
     ExportAttrs(r, t, loc)      the canonical conformant copy
     MayAdvertise(r, t, loc)     r may be sent to t at all
     MustAdvertise / MustWithdraw  r has to be sent / the previous best has to be withdrawn
     MustReject(r, p, loc)       a route received from p must not be used
   Where the sources leave freedom the predicates accept every conformant outcome (listed at
   each rule).

   MECHANISM layer (shaped like the code: server.go filterpath / prePolicyFilterpath /
   postFilterpath, table.UpdatePathAttrs, peer.handleUpdate):
     MechAdvertiseW, MechAttrs, MechUsed

   A route is a record
     [src, fam, nha, nhm, nhl, asattr, aspath, origin, lp, med, origid, clist, unk, comm]
   src     peer descriptor of the router the route was learned from (kind "local" = originated here)
   fam     "v4" | "v6"        address family of the prefix
   nha     value of the NEXT_HOP attribute, or "none";  nhm  (global) next hop inside MP_REACH_NLRI,
           or "none";  nhl  link-local address that follows it there (32-octet next hop), or "none"
   aspath  sequence of [t |-> "SEQ"|"SET"|"CSEQ"|"CSET", as |-> <<asn,...>>]; asattr: attribute present
   lp, med -1 = attribute absent;   origid "none" = absent;   clist <<>> = absent
   unk     sorted sequence over {"N","T"}: unknown optional non-transitive / transitive attribute
   comm    COMMUNITIES values (never to be touched by the export rules)

   A peer descriptor is
     [id, kind, as, rid, addr, laddr, l6, rpa, rpeer, allow, localas]
   kind    "ebgp" | "ibgp" (non-client) | "rrclient" | "rsclient" | "confed" (member of our
           confederation, other member-AS) | "local"
   laddr   local address of the session, l6 = it is an IPv6 address
   rpa     remove-private-as "none"|"all"|"replace";  rpeer replace-peer-as;  allow  allow-own-as
   localas neighbour-level local-as override (0 = not set)

   The local speaker is  [as, confed, cid, members, rid, cluster]  (as = member-AS when confed).

   AS numbers: TLC integers are 32-bit signed, so the 4-octet private range is encoded with an
   offset: an abstract number a >= 1800000000 stands for a + 2300000000 (harness: c09AbsToAS). *)
EXTENDS Integers, Sequences, FiniteSets, SequencesExt, TLC

NONE == "none"

---------------------------------------------------------------------------
(* vocabulary *)

(* Range(s) = {s[i] : i \in DOMAIN s} comes from the community module Functions *)

(* RFC 6996: 64512..65534 and 4200000000..4294967294 (offset-encoded, see above) *)
Private(a) == (a >= 64512 /\ a <= 65534) \/ (a >= 1900000000 /\ a <= 1994967294)

IsInternal(k) == k \in {"ibgp", "rrclient"}
IsLocalRoute(r) == r.src.kind = "local"

Seg(t, as) == [t |-> t, as |-> as]

MapAS(p, F(_)) == [i \in DOMAIN p |-> Seg(p[i].t, [j \in DOMAIN p[i].as |-> F(p[i].as[j])])]
KeepAS(p, K(_)) == SelectSeq([i \in DOMAIN p |-> Seg(p[i].t, SelectSeq(p[i].as, K))],
                             LAMBDA s : s.as # <<>>)
ASSetOf(p, types) == UNION {Range(p[i].as) : i \in {j \in DOMAIN p : p[j].t \in types}}
ASSet(p) == ASSetOf(p, {"SEQ", "SET", "CSEQ", "CSET"})
StripConfed(p) == SelectSeq(p, LAMBDA s : s.t \in {"SEQ", "SET"})

RECURSIVE Count(_, _)
Count(p, a) == IF p = <<>> THEN 0
               ELSE Cardinality({j \in DOMAIN Head(p).as : Head(p).as[j] = a}) + Count(Tail(p), a)

(* RFC 4271 5.1.2 / RFC 5065 4.1: prepend into a leading segment of the right type, else open one *)
Prepend(p, a, type) ==
  IF p # <<>> /\ p[1].t = type THEN <<Seg(type, <<a>> \o p[1].as)>> \o Tail(p)
  ELSE <<Seg(type, <<a>>)>> \o p

(* Two AS_PATHs denote the same path iff they are equal after dropping empty segments, merging
   adjacent sequence segments of the same type and ordering the members of sets. *)
RECURSIVE Norm(_)
Norm(p) ==
  IF p = <<>> THEN <<>>
  ELSE LET h == Head(p)
           r == Norm(Tail(p))
           hh == IF h.t \in {"SET", "CSET"} THEN Seg(h.t, SetToSortSeq(Range(h.as), LAMBDA a, b : a < b)) ELSE h
       IN IF h.as = <<>> THEN r
          ELSE IF r # <<>> /\ h.t \in {"SEQ", "CSEQ"} /\ r[1].t = h.t
               THEN <<Seg(h.t, h.as \o r[1].as)>> \o Tail(r)
               ELSE <<hh>> \o r

NhOf(x) == IF x.nha # NONE THEN x.nha ELSE x.nhm
Unspecified(a) == a \in {"0.0.0.0", "::"}

(* the AS this speaker presents on the session with t: the neighbour's local-as when configured
   (docs/sources/configuration.md: "override global.config.as value"), the member-AS towards
   peers inside the confederation, the confederation identifier towards everybody else
   (RFC 5065 4.1, docs/sources/bgp-confederation.md) *)
SessionAS(t, loc) ==
  IF t.localas # 0 THEN t.localas
  ELSE IF loc.confed /\ ~IsInternal(t.kind) /\ t.kind # "confed" THEN loc.cid
  ELSE loc.as

Attrs(r) == [origin |-> r.origin, asattr |-> r.asattr, aspath |-> r.aspath, nha |-> r.nha,
             nhm |-> r.nhm, nhl |-> r.nhl, lp |-> r.lp, med |-> r.med, origid |-> r.origid, clist |-> r.clist,
             unk |-> r.unk, comm |-> r.comm, other |-> <<>>]

---------------------------------------------------------------------------
(* PROPERTY layer: AS_PATH towards external peers *)

(* replace-peer-as (as-override): every occurrence of the peer's AS becomes our AS *)
RepPeer(p, t, las) == IF t.rpeer THEN MapAS(p, LAMBDA a : IF a = t.as THEN las ELSE a) ELSE p

(* remove-private-as (openconfig-bgp-types): PRIVATE_AS_REMOVE_ALL "strip all private AS numbers
   from the AS path ... regardless of the other content"; PRIVATE_AS_REPLACE_ALL "replace all
   instances of private AS numbers in the AS path with the local speaker's AS number".  A segment
   left without members disappears (a zero-length segment is malformed, RFC 7606 7.2). *)
RemPriv(p, t, las) ==
  CASE t.rpa = "all"     -> KeepAS(p, LAMBDA a : ~Private(a))
    [] t.rpa = "replace" -> MapAS(p, LAMBDA a : IF Private(a) THEN las ELSE a)
    [] OTHER             -> p

(* RFC 4271 5.1.2 b: to an external peer prepend own AS once (new AS_SEQUENCE in front of a
   leading AS_SET); RFC 5065 4.1 c: towards a peer outside the confederation first remove the
   confederation segments and prepend the confederation identifier; RFC 5065 4.1 b: towards a
   member of another member-AS prepend the member-AS in a (leading) AS_CONFED_SEQUENCE. *)
Final(p, t, las) == IF t.kind = "confed" THEN Prepend(p, las, "CSEQ")
                    ELSE Prepend(StripConfed(p), las, "SEQ")

(* the order of the two configured rewrites is not documented: both orders conform *)
EbgpPaths(r, t, loc) ==
  LET las == SessionAS(t, loc) IN
  {Final(RemPriv(RepPeer(r.aspath, t, las), t, las), t, las),
   Final(RepPeer(RemPriv(r.aspath, t, las), t, las), t, las)}

(* MED is "foreign" when the route came from another AS (RFC 4271 5.1.4: a MED received over
   EBGP MUST NOT be propagated to other neighbouring ASes).  For routes originated by this
   speaker or inside the own AS / confederation sending the own MED is allowed (both accepted). *)
Foreign(r) == /\ ~IsLocalRoute(r)
              /\ (r.src.kind = "ebgp" \/ ASSetOf(r.aspath, {"SEQ", "SET"}) # {})

---------------------------------------------------------------------------
(* PROPERTY layer: conformance of a sent copy o, field by field *)

PathOK(o, r, t, loc) ==
  CASE t.kind \in {"ebgp", "confed"} -> o.asattr /\ Norm(o.aspath) \in {Norm(p) : p \in EbgpPaths(r, t, loc)}
    [] IsInternal(t.kind)            -> Norm(o.aspath) = Norm(r.aspath)      \* "AS_PATH unchanged"
    [] OTHER                         -> o.aspath = r.aspath /\ o.asattr = r.asattr

NhIs(o, a) == NhOf(o) = a /\ o.nha \in {NONE, a} /\ o.nhm \in {NONE, a}

(* The WHOLE next-hop field.  RFC 2545 3: the link-local address is included in MP_REACH_NLRI "if
   and only if the BGP speaker shares a common subnet with the entity identified by the global
   IPv6 address ... and the peer the route is being advertised to"; "in all other cases" only the
   global address is advertised.  nhl = the link-local address that came with a received route: it
   belongs to the link of the neighbour the route was learned from.  Towards an external peer (a
   different link, and the next hop is rewritten to the session's local address) it is never sent;
   towards IBGP peers / route-server clients it may be dropped (gobgp drops it on receipt) or, on a
   shared link, kept: both accepted; never invented. *)
LlOK(o, r, t) ==
  CASE t.kind = "ebgp"   -> o.nhl = NONE
    [] t.kind = "confed" -> IF NhOf(o) = t.laddr THEN o.nhl = NONE ELSE o.nhl \in {NONE, r.nhl}
    [] OTHER             -> o.nhl \in {NONE, r.nhl}

(* what is stored for a received route r: r itself; the link-local half of the next hop may have
   been dropped on receipt *)
StoredIs(a, r) == a.nhl \in {NONE, r.nhl} /\ [a EXCEPT !.nhl = r.nhl] = Attrs(r)

NhOK(o, r, t, loc) ==
  CASE t.kind = "ebgp" ->
         (* next hop = local address of the session; a route originated here with an explicit next
            hop may keep it (third-party next hop, RFC 4271 5.1.3; `gobgp global rib add .. nexthop`) *)
         IF IsLocalRoute(r) /\ ~Unspecified(NhOf(r)) THEN NhOf(o) \in {NhOf(r), t.laddr}
         ELSE NhIs(o, t.laddr)
    [] t.kind = "confed" ->
         (* RFC 5065 5: NEXT_HOP may also be left unchanged across member-AS boundaries *)
         IF Unspecified(NhOf(r)) THEN NhIs(o, t.laddr) ELSE NhOf(o) \in {NhOf(r), t.laddr}
    [] IsInternal(t.kind) ->
         (* unchanged; an unspecified next hop of an own route cannot be sent (RFC 4271 5.1.3) *)
         IF IsLocalRoute(r) /\ Unspecified(NhOf(r)) THEN NhIs(o, t.laddr)
         ELSE o.nha = r.nha /\ o.nhm = r.nhm
    [] OTHER -> o.nha = r.nha /\ o.nhm = r.nhm

LpOK(o, r, t) ==
  CASE t.kind = "ebgp"     -> o.lp = -1
    [] t.kind = "confed"   -> o.lp \in {-1, r.lp}         \* RFC 5065 keeps it, the property text removes it
    [] IsInternal(t.kind)  -> o.lp = (IF r.lp = -1 THEN 100 ELSE r.lp)   \* present; default 100
    [] OTHER               -> o.lp = r.lp

MedOK(o, r, t) ==
  CASE t.kind = "ebgp"     -> IF Foreign(r) THEN o.med = -1 ELSE o.med \in {-1, r.med}
    [] t.kind = "rsclient" -> o.med = r.med
    [] OTHER               -> o.med \in {-1, r.med}       \* MAY be propagated over IBGP / inside a confederation

(* RFC 4456 8: ORIGINATOR_ID is created by the reflector when absent ("SHOULD NOT create ... if one
   already exists") and carries the BGP identifier of the originator in the local AS *)
OrigidSet(r, loc) ==
  IF r.origid # NONE THEN {r.origid}
  ELSE IF IsInternal(r.src.kind) THEN {r.src.rid}
  ELSE IF IsLocalRoute(r) THEN {loc.rid}
  ELSE {r.src.rid, loc.rid}

RrOK(o, r, t, loc) ==
  CASE t.kind \in {"ebgp", "confed"} -> o.origid = NONE /\ o.clist = <<>>
    [] t.kind = "rrclient" -> o.origid \in OrigidSet(r, loc) /\ o.clist = <<loc.cluster>> \o r.clist
    [] t.kind = "ibgp"     ->
         (* RFC 4456 adds both when reflecting to a non-client; docs/sources/route-reflector.md
            documents that gobgp does not; both accepted *)
         /\ o.origid \in OrigidSet(r, loc) \cup {NONE}
         /\ o.clist \in {<<>>, r.clist, <<loc.cluster>> \o r.clist}
    [] OTHER -> o.origid = r.origid /\ o.clist = r.clist

(* RFC 4271 5: unrecognised transitive optional attributes are passed on, non-transitive ones are
   not (required by the property text towards external peers) *)
UnkOK(o, r, t) ==
  CASE t.kind = "rsclient" -> o.unk = r.unk
    [] OTHER -> /\ ("T" \in Range(o.unk)) = ("T" \in Range(r.unk))
                /\ ("N" \in Range(o.unk)) => ("N" \in Range(r.unk) /\ IsInternal(t.kind))

SameOK(o, r) == o.origin = r.origin /\ o.comm = r.comm /\ o.other = <<>>

AttrsConform(o, r, t, loc) ==
  IF t.kind = "rsclient" THEN StoredIs(o, r)               \* RFC 7947 2: transparent
  ELSE /\ PathOK(o, r, t, loc) /\ NhOK(o, r, t, loc) /\ LlOK(o, r, t) /\ LpOK(o, r, t) /\ MedOK(o, r, t)
       /\ RrOK(o, r, t, loc) /\ UnkOK(o, r, t) /\ SameOK(o, r)

(* name of the first clause that fails (for the trace spec's diagnostics) *)
AttrsVerdict(o, r, t, loc) ==
  IF t.kind = "rsclient" THEN (IF StoredIs(o, r) THEN "ok" ELSE "rsclient-changed")
  ELSE IF ~PathOK(o, r, t, loc) THEN "aspath"
  ELSE IF ~NhOK(o, r, t, loc) THEN "nexthop"
  ELSE IF ~LlOK(o, r, t) THEN "nexthop-link-local"
  ELSE IF ~LpOK(o, r, t) THEN "localpref"
  ELSE IF ~MedOK(o, r, t) THEN "med"
  ELSE IF ~RrOK(o, r, t, loc) THEN "originator/clusterlist"
  ELSE IF ~UnkOK(o, r, t) THEN "unknown-attrs"
  ELSE IF ~SameOK(o, r) THEN "other-attrs"
  ELSE "ok"

SetNh(x, fam, a, is6) ==
  IF fam = "v4" /\ is6 THEN [x EXCEPT !.nha = NONE, !.nhm = a, !.nhl = NONE]
  ELSE [x EXCEPT !.nha = IF x.nha # NONE THEN a ELSE NONE, !.nhm = IF x.nhm # NONE THEN a ELSE NONE,
                 !.nhl = IF x.nhm # NONE THEN NONE ELSE @]      \* MP_REACH_NLRI rebuilt with one address

(* the canonical conformant copy *)
ExportAttrs(r, t, loc) ==
  LET las == SessionAS(t, loc)
      a0  == [Attrs(r) EXCEPT !.nhl = NONE]      \* table.ProcessMessage keeps the global address only
      setnh == SetNh(a0, r.fam, t.laddr, t.l6)
      unkT == SelectSeq(r.unk, LAMBDA u : u = "T")
  IN CASE t.kind = "rsclient" -> a0
       [] t.kind \in {"ebgp", "confed"} ->
            [(IF IsLocalRoute(r) /\ ~Unspecified(NhOf(r)) THEN a0 ELSE setnh) EXCEPT
               !.asattr = TRUE,
               !.aspath = Final(RemPriv(RepPeer(r.aspath, t, las), t, las), t, las),
               !.lp = -1, !.med = IF Foreign(r) THEN -1 ELSE r.med,
               !.origid = NONE, !.clist = <<>>, !.unk = unkT]
       [] OTHER ->
            [(IF IsLocalRoute(r) /\ Unspecified(NhOf(r)) THEN setnh ELSE a0) EXCEPT
               !.lp = IF r.lp = -1 THEN 100 ELSE r.lp,
               !.origid = IF t.kind = "rrclient" THEN CHOOSE x \in OrigidSet(r, loc) : TRUE ELSE NONE,
               !.clist = IF t.kind = "rrclient" THEN <<loc.cluster>> \o r.clist ELSE <<>>,
               !.unk = unkT]

---------------------------------------------------------------------------
(* PROPERTY layer: loop prevention on the way out *)

(* "never advertised back to the router it came from, to an eBGP peer whose AS is already in its
   AS_PATH, or from a non-client iBGP peer to another non-client iBGP peer".
   - the AS_PATH the peer would be shown is the one after replace-peer-as (that option exists to
     defeat exactly this check);
   - for route-server clients (RFC 7947: the route server is transparent, the client checks) and
     for AS numbers that occur only in confederation segments (which never leave the
     confederation) the property text determines nothing: not required here. *)
MayAdvertise(r, t, loc) ==
  /\ r.src.id # t.id
  /\ (t.kind \in {"ebgp", "confed"} =>
        t.as \notin ASSetOf(RepPeer(r.aspath, t, SessionAS(t, loc)), {"SEQ", "SET"}))
  /\ ~(r.src.kind = "ibgp" /\ t.kind = "ibgp")

(* The other direction, where the sources determine it.  RFC 4271 9.1.3 / 9.2: the routes selected
   into the Loc-RIB are disseminated to every external peer unless policy (none here) or one of the
   rules above excludes them.  The per-neighbour AS_PATH options do not exclude anything:
   replace-peer-as (openconfig bgp:replace-peer-as, pkg/config/oc: "Replace occurrences of the
   peer's AS in the AS_PATH with the local autonomous system number") rewrites the path that is
   shown to the peer, so the peer's AS is no longer in it and the route IS sent (AS override);
   remove-private-as only edits the path; allow-own-as concerns received routes only.
   Required for external (eBGP / confederation) targets; towards IBGP peers and route-server
   clients further reasons to keep a route back exist that the sources do not fix (one-sided). *)
MustAdvertise(r, t, loc) == t.kind \in {"ebgp", "confed"} /\ MayAdvertise(r, t, loc)

(* Implicit replacement: `olds` = <<>> or <<o>>, o the previous best route of the prefix.  When the
   new best must not be sent to an external peer that was told o, o has to be withdrawn explicitly
   (RFC 4271 3.1 / 9.1.3: a route that is no longer the advertised one is withdrawn or replaced). *)
MustWithdraw(r, olds, t, loc) ==
  /\ olds # <<>> /\ t.kind \in {"ebgp", "confed"}
  /\ ~MayAdvertise(r, t, loc) /\ MayAdvertise(olds[1], t, loc)

(* The best route r went away altogether: an external peer that was told r is sent its withdrawal. *)
MustWithdrawGone(r, t, loc) == MustAdvertise(r, t, loc)

WhyNot(r, t, loc) ==
  IF r.src.id = t.id THEN "back-to-source"
  ELSE IF r.src.kind = "ibgp" /\ t.kind = "ibgp" THEN "nonclient-to-nonclient"
  ELSE IF ~MayAdvertise(r, t, loc) THEN "peer-as-in-path"
  ELSE "ok"

---------------------------------------------------------------------------
(* PROPERTY layer: loop prevention on the way in *)

(* "received routes containing the local AS beyond allow-own-as, the local router-id as
   ORIGINATOR_ID or the local cluster-id are not used".
   RFC 4271 9.1.2 (AS loop), RFC 5065 4 (the confederation identifier counts as the own AS),
   RFC 4456 8 (both RR checks; they concern routes learned over IBGP). *)
OwnAsLoop(r, p, loc) == \/ Count(r.aspath, SessionAS(p, loc)) > p.allow
                        \/ (loc.confed /\ Count(r.aspath, loc.cid) > p.allow)
OrigLoop(r, p, loc)    == IsInternal(p.kind) /\ r.origid = loc.rid
ClusterLoop(r, p, loc) == IsInternal(p.kind) /\ loc.cluster \in Range(r.clist)

MustReject(r, p, loc) == OwnAsLoop(r, p, loc) \/ OrigLoop(r, p, loc) \/ ClusterLoop(r, p, loc)

WhyReject(r, p, loc) ==
  IF OwnAsLoop(r, p, loc) THEN "own-as" ELSE IF OrigLoop(r, p, loc) THEN "originator-id"
  ELSE IF ClusterLoop(r, p, loc) THEN "cluster-id" ELSE "ok"

---------------------------------------------------------------------------
(* MECHANISM layer (code-shaped) *)

(* server.go prePolicyFilterpath + filterpath + peer.filterPathFromSourcePeer, old = nil,
   families enabled, no RTC/VRF, allow-as-path-loop-local off *)
(* wd = the path handed over is the withdrawal of r.  Since repo commit 2a1885d path.ReplaceAS is
   applied to withdrawals and to the previous best as well (before: announcements only, finding
   FX-C09-override-withdraw-dropped). *)
MechAdvertiseW(r, olds, wd, t, loc) ==
  LET p1 == RepPeer(r.aspath, t, SessionAS(t, loc))     \* path.ReplaceAS BEFORE filterpath, withdrawals too (2a1885d)
      hasOld == olds # <<>> /\ ~wd                                          \* "!path.IsWithdraw && old != nil"
      loops(p) == t.kind # "rsclient" /\ t.as \in ASSetOf(p, {"SEQ", "SET"})  \* isASLoop
      ibgpIgnore ==
        IF IsInternal(t.kind) /\ ~IsLocalRoute(r)
        THEN /\ ~(r.src.as # t.as)                                           \* not from an eBGP peer
             /\ r.src.kind # "rrclient"                                      \* not from a client
             /\ t.kind # "rrclient"                                          \* not to a client
        ELSE FALSE
      clusterStop == /\ IsInternal(t.kind) /\ ~IsLocalRoute(r) /\ t.kind = "rrclient"
                     /\ loc.cluster \in Range(r.clist)
  IN IF clusterStop THEN "no"
     ELSE IF ibgpIgnore THEN
       (IF hasOld /\ (IsLocalRoute(olds[1]) \/ (olds[1].src.addr # t.addr /\
                                                (olds[1].src.as # t.as \/ olds[1].src.kind = "rrclient")))
        THEN "withdraw" ELSE "no")
     ELSE IF ~IsLocalRoute(r) /\ r.src.rid = t.rid THEN                     \* filterPathFromSourcePeer
       (IF t.kind # "rsclient" /\ hasOld /\ olds[1].src.addr # t.addr /\ ~loops(RepPeer(olds[1].aspath, t, SessionAS(t, loc)))
        THEN "withdraw" ELSE "no")
     ELSE IF loops(p1) THEN (IF hasOld THEN "withdraw" ELSE "no")
     ELSE IF wd THEN "withdraw" ELSE "yes"

MechAdvertiseH(r, olds, t, loc) == MechAdvertiseW(r, olds, FALSE, t, loc)

MechAdvertise(r, t, loc) == MechAdvertiseH(r, <<>>, t, loc)

(* table.UpdatePathAttrs after path.ReplaceAS, followed by postFilterpath (RemoveLocalPref) *)
MechAttrs(r, t, loc) ==
  LET las == SessionAS(t, loc)
      a0  == [Attrs(r) EXCEPT !.nhl = NONE]      \* table.ProcessMessage keeps the global address only
      p1  == RepPeer(r.aspath, t, las)
      unk1 == SelectSeq(r.unk, LAMBDA u : u = "T")
      nhset == SetNh(a0, r.fam, t.laddr, t.l6)
  IN CASE t.kind = "rsclient" -> a0
       [] t.kind \in {"ebgp", "confed"} ->
            LET p2 == RemPriv(p1, t, las)                                     \* RemovePrivateAS
                p3 == Prepend(p2, las, IF t.kind = "confed" THEN "CSEQ" ELSE "SEQ")   \* PrependAsn
                p4 == IF t.kind = "confed" THEN p3 ELSE StripConfed(p3)       \* removeConfedAs
            IN [(IF ~IsLocalRoute(r) \/ Unspecified(NhOf(r)) THEN nhset ELSE a0) EXCEPT
                  !.asattr = TRUE, !.aspath = p4,
                  !.med = IF ~IsLocalRoute(r) THEN -1 ELSE r.med,
                  !.lp = -1, !.origid = NONE, !.clist = <<>>, !.unk = unk1]
       [] OTHER ->
            [(IF IsLocalRoute(r) /\ Unspecified(NhOf(r)) THEN nhset ELSE a0) EXCEPT
               !.asattr = TRUE, !.aspath = p1,
               !.lp = IF r.lp = -1 THEN 100 ELSE r.lp,
               !.origid = IF t.kind # "rrclient" THEN NONE
                          ELSE IF r.origid # NONE THEN r.origid
                          ELSE IF IsLocalRoute(r) THEN loc.rid ELSE r.src.rid,
               !.clist = IF t.kind # "rrclient" THEN <<>> ELSE <<loc.cluster>> \o r.clist,
               !.unk = unk1]

(* peer.handleUpdate: hasOwnASLoop counts the session AS and the confederation identifier
   together; ORIGINATOR_ID and (since repo commit ddcea20) CLUSTER_LIST are checked for IBGP peers *)
MechUsed(r, p, loc) ==
  LET own == SessionAS(p, loc)
      n   == Count(r.aspath, own) + (IF loc.confed /\ loc.cid # own THEN Count(r.aspath, loc.cid) ELSE 0)
  IN /\ ~(n > p.allow) /\ ~(IsInternal(p.kind) /\ r.origid = loc.rid)
     /\ ~(IsInternal(p.kind) /\ loc.cluster \in Range(r.clist))

=============================================================================
