SPECIFICATION Spec
CONSTANTS
  Nbrs = {"n1", "n2", "n3"}
  Mults = {3, 5}
  Asns = {65001, 65002}
INVARIANTS
  RegExact
  StoppedIsEmpty
