------------------------------ MODULE MCAs4 ------------------------------
(* Exhaustive small-scope check of As4.tla (design level).
   Mode "rt"  : every valid AS_PATH p of <= MaxSegs2 segments, segment lengths in Lens, every
                wide/narrow pattern: the RFC-level Down/Up satisfy what C14 demands.
   Mode "pair": every valid 2-octet AS_PATH a2 (<= MaxSegs2 segments) x every AS4_PATH a4
                (<= MaxSegs4 segments, confederation segments anywhere, or absent):
                RFC-level Up satisfies the C14 statements; the gobgp-shaped mechanism equals it
                outside the known-finding predicates, which are tight.
   MaxSeg is small (3) so that the merge/split boundary is inside the scope. *)
EXTENDS As4

CONSTANTS Mode, MaxSegs2, MaxSegs4, Lens

VARIABLES c
vars == <<c>>

N(i, j) == 10 * i + j              \* narrow member j of segment i
W(i, j) == 70000 + 10 * i + j      \* wide member

SegsMixed(i) == UNION {{Seg(t, [j \in 1..n |-> IF w[j] THEN W(i, j) ELSE N(i, j)]) :
                          t \in Types, w \in [1..n -> BOOLEAN]} : n \in Lens}
SegsNarrow(i) == UNION {{Seg(t, [j \in 1..n |-> N(i, j)]) : t \in Types} : n \in Lens}
SegsWide(i)   == UNION {{Seg(t, [j \in 1..n |-> W(i, j)]) : t \in Types} : n \in Lens}

AggPool == {NoAgg, [p |-> TRUE, as |-> 64512, ad |-> 1], [p |-> TRUE, as |-> 65536, ad |-> 2],
            [p |-> TRUE, as |-> 70000, ad |-> 1], [p |-> TRUE, as |-> -94967296, ad |-> 3],
            [p |-> TRUE, as |-> AS_TRANS, ad |-> 1]}
ASSUME \A g \in AggPool : D_AggRoundTrip(g)

(* Cases are grown one segment at a time, so every path of every length up to the bound is a state
   (reached along exactly one behaviour) and the work spreads over TLC's workers. *)
Init == IF Mode = "rt" THEN c = [kind |-> "rt", p |-> <<>>]
        ELSE c = [kind |-> "a2", a2 |-> <<>>, a4 |-> NoAs4]

GrowRt == /\ c.kind = "rt" /\ Len(c.p) < MaxSegs2
          /\ \E s \in SegsMixed(Len(c.p) + 1) :
                /\ ValidPath(Append(c.p, s))
                /\ c' = [c EXCEPT !.p = Append(c.p, s)]
GrowA2 == /\ c.kind = "a2" /\ Len(c.a2) < MaxSegs2
          /\ \E s \in SegsNarrow(Len(c.a2) + 1) :
                /\ ValidPath(Append(c.a2, s))
                /\ c' = [c EXCEPT !.a2 = Append(c.a2, s)]
StartA4 == /\ c.kind = "a2"
           /\ c' = [c EXCEPT !.kind = "pair", !.a4 = As4(<<>>)]
GrowA4 == /\ c.kind = "pair" /\ Len(c.a4.segs) < MaxSegs4
          /\ \E s \in SegsWide(Len(c.a4.segs) + 4) :
                c' = [c EXCEPT !.a4 = As4(Append(c.a4.segs, s))]

Next == GrowRt \/ GrowA2 \/ StartA4 \/ GrowA4

Spec == Init /\ [][Next]_vars

IsRt   == c.kind = "rt"
IsPair == c.kind \in {"a2", "pair"}

T_DownWellFormed == IsRt => D_DownWellFormed(c.p)
T_RoundTrip      == IsRt => D_RoundTrip(c.p)
T_RtMech         == IsRt => LET d == MechDown(c.p) IN
                              ~(KF_A(d.aspath, d.as4) \/ KF_B(d.aspath, d.as4)) =>
                                 (RoundTripOK(c.p, MechUp(d.aspath, d.as4)) /\ SegsOK(MechUp(d.aspath, d.as4)))
T_UpSegsOK        == IsPair => D_UpSegsOK(c.a2, c.a4)
T_UpSameCount     == IsPair => D_UpSameCount(c.a2, c.a4)
T_UpIgnoreLonger  == IsPair => D_UpIgnoreLonger(c.a2, c.a4)
T_UpKeepsConfed   == IsPair => D_UpKeepsConfedRun(c.a2, c.a4)
T_MechTotal       == IsPair => D_MechTotal(c.a2, c.a4)
T_MechOK          == IsPair => D_MechOK(c.a2, c.a4)
T_KF_A_Tight      == IsPair => D_KF_A_Tight(c.a2, c.a4)
T_KF_B_Tight      == IsPair => D_KF_B_Tight(c.a2, c.a4)
T_KF_Disjoint     == IsPair => D_KF_Disjoint(c.a2, c.a4)
T_MechFixedOK     == IsPair => D_MechFixedOK(c.a2, c.a4)
=============================================================================
