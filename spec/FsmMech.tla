------------------------------- MODULE FsmMech ---------------------------------
(* C07 MECHANISM LAYER: ONE peering session of the speaker under test, shaped like
   pkg/server/fsm.go (one operator per handler branch) and pkg/server/server.go (admin operations):

     idle()         M_IdleHoldExpired, M_Idle* admin branches
     active()       M_ActiveInConn, M_ConsumeOut (outgoingConnCh), admin down
     outgoingConnManager.run + connectLoop   ocm: off -> wait -> dial -> opensent -> (hands over | wait)
     opensent()     M_HandleOpen branches, hold timer 240 s, collision branches
     openconfirm()  KEEPALIVE -> Established, anything else -> close, timers of the PREVIOUS session
     established()  hold / keepalive timers, fsm.notification slot, admin down, prefix limit
     loop()/stateChange()/handleFSMMessage()  GoIdle, EnterActive, EnterEstablished

   The state is one record m; MReact(m, e) is the state after environment event e including the
   outputs m.o (messages per connection with timestamps, closed flags, ListPeer state, WatchEvent
   stream, RIB digest) in exactly the shape the harness records.  Deliberate deviations of the
   code from the RFCs are separate, named branches (comment "DEVIATION").  The property layer is
   FsmRfc.tla; the design-level result is "mechanism => property layer modulo the named
   deviations" (D_* invariants below, checked exhaustively by MCFsm). *)
EXTENDS FsmRfc

CONSTANTS PeerHolds,     \* hold times the neighbour may put in its OPEN
          Ticks          \* Tick durations

IdleHoldDefault == 5       \* holdtimeIdle
IdleHoldAfterReset == 30   \* DEFAULT_IDLE_HOLDTIME_AFTER_RESET
FirstDial == 2             \* minConnectRetryInterval; the code waits 0.75..1.0 x this (interval)

Msg(ty, t, code, sub, data, hold) == [t |-> t, ms |-> 0, ty |-> ty, code |-> code, sub |-> sub, data |-> data, hold |-> hold]
NoCO == [known |-> FALSE, closed |-> FALSE, pend |-> 0, msgs |-> <<>>]
NoC == [live |-> FALSE, rd |-> FALSE, hold |-> 0, unread |-> FALSE]

MInit(cfg) ==
  [cfg |-> cfg, now |-> 0, st |-> "Active", admin |-> "Up", deleted |-> FALSE, cur |-> "none",
   ci |-> NoC, co |-> NoC,
   idleT |-> -1, idleHold |-> IdleHoldDefault, osT |-> -1, ocKa |-> -1, ocHold |-> -1, ocK |-> 0,
   estKa |-> -1, estHold |-> -1, neg |-> 0, prevNeg |-> 0,
   ocm |-> IF cfg.passive THEN "off" ELSE "wait", ocmT |-> IF cfg.passive THEN -1 ELSE FirstDial, ocmHold |-> -1,
   parkedConn |-> FALSE, parkedNotif |-> <<>>, stuck |-> FALSE, rib |-> 0,
   holdBy |-> "none",        \* what restarted the Established hold timer last (only for the transition cover)
   o |-> [t |-> 0, ms |-> 0, st |-> "Active", admin |-> "Up", wev |-> <<>>, dial |-> FALSE,
          ci |-> NoCO, co |-> NoCO, cx |-> NoCO, ribg |-> <<>>, riba |-> <<>>, admflag |-> FALSE, done |-> TRUE]]

Pfx(n) == SubSeq(<<"10.1.0.0/24", "10.2.0.0/24", "10.3.0.0/24">>, 1, n)

(* start of a step: forget the outputs of the previous one, keep what persists *)
Fresh(s) == [s EXCEPT !.o.wev = <<>>, !.o.cx = NoCO,
                      !.o.ci = [s.o.ci EXCEPT !.msgs = <<>>], !.o.co = [s.o.co EXCEPT !.msgs = <<>>]]
(* end of a step: the API view *)
Finish(s) == [s EXCEPT !.o.t = s.now, !.o.st = IF s.deleted THEN "None" ELSE s.st,
                       !.o.admin = IF s.deleted THEN "None" ELSE s.admin,
                       !.o.dial = s.ocm = "dial",
                       !.o.ribg = Pfx(s.rib), !.o.riba = IF s.deleted THEN <<>> ELSE Pfx(s.rib)]

Emit(s, c, msg) == [s EXCEPT !.o[c].msgs = Append(@, msg)]
CloseC(s, c) == [s EXCEPT ![c] = NoC, !.o[c].closed = TRUE]
SendNotif(s, c, code, sub, data) ==       \* fsm.sendNotification: write, close; admin reset sets the idle hold time
  LET s1 == CloseC(Emit(s, c, Msg("NOTIFICATION", s.now, code, sub, data, 0)), c)
  IN IF code = 6 /\ sub = 4 THEN [s1 EXCEPT !.idleHold = IdleHoldAfterReset] ELSE s1
SendKa(s, c) == Emit(s, c, Msg("KEEPALIVE", s.now, 0, 0, "", 0))
Wev(s, st) == [s EXCEPT !.st = st, !.o.wev = Append(@, [st |-> st, admin |-> s.admin, why |-> ""])]

StopOcm(s) ==        \* outgoingConnManager.stop(): cancel, close its connection, drain the channel
  LET s1 == IF s.ocm = "opensent" \/ s.parkedConn THEN CloseC(s, CO) ELSE s
  IN [s1 EXCEPT !.ocm = "off", !.ocmT = -1, !.ocmHold = -1, !.parkedConn = FALSE]

ClearTimers(s) == [s EXCEPT !.osT = -1, !.ocKa = -1, !.ocHold = -1, !.estKa = -1, !.estHold = -1]

(* loop(): the handler returned Idle.  why = "admin": reason fsmAdminDown stops the ocm. *)
GoIdle(s, why) ==
  LET s1 == IF why = "admin" THEN StopOcm(s) ELSE s
      s2 == ClearTimers([s1 EXCEPT !.cur = "none", !.idleT = s.now + s1.idleHold])
      s3 == IF s.st = "Established" THEN [s2 EXCEPT !.rib = 0] ELSE s2
      \* handleFSMMessage clears the neighbour's Timers.State when the admin state is Down
      s4 == IF s3.admin = "Down" THEN [s3 EXCEPT !.prevNeg = 0] ELSE s3
  IN Wev(s4, "Idle")

StartOcm(s) == IF s.cfg.passive THEN s
               ELSE [s EXCEPT !.ocm = "wait", !.ocmT = s.now + FirstDial]

EnterOpenConfirm(s, c) ==     \* openconfirm(): timers from conf.Timers.State = those of the PREVIOUS session (DEVIATION)
  LET k == KaInt(s.prevNeg) IN
  Wev([ClearTimers(s) EXCEPT !.cur = c, !.ocK = k,
         !.ocKa = IF s.prevNeg > 0 THEN s.now + (IF k = 0 THEN 1 ELSE k) ELSE -1,
         !.ocHold = IF s.prevNeg > 0 THEN s.now + s.prevNeg ELSE -1], "OpenConfirm")

(* active(): a connection handed over by the ocm is waiting in outgoingConnCh *)
ConsumeOut(s) ==
  IF ~s.co.live       \* the neighbour closed it meanwhile: the KEEPALIVE write fails, ocm restarted
  THEN StartOcm([CloseC(s, CO) EXCEPT !.parkedConn = FALSE])
  ELSE EnterOpenConfirm(SendKa([s EXCEPT !.parkedConn = FALSE, !.co.rd = TRUE], CO), CO)

EnterActive(s) ==
  LET s1 == Wev([s EXCEPT !.idleT = -1, !.idleHold = IdleHoldDefault], "Active")
      \* "outgoingConnMgr == nil || ctx.Err() != nil": a manager that has handed its connection over
      \* is finished, a new one is started even while that connection is still waiting in the channel
      s2 == IF s1.ocm = "off" THEN StartOcm(s1) ELSE s1
  IN IF s2.parkedConn THEN ConsumeOut(s2) ELSE s2

EnterEstablished(s) ==
  LET c == s.cur
      n == NegHold(s.cfg.hold, s[c].hold)
      k == KaInt(n)
      s1 == Wev([ClearTimers(s) EXCEPT !.neg = n, !.prevNeg = n, !.holdBy = "est",
                   !.estHold = IF n > 0 THEN s.now + n ELSE -1,
                   !.estKa = IF n > 0 THEN s.now + (IF k = 0 THEN 1 ELSE k) ELSE -1], "Established")
  IN IF s1.parkedNotif # <<>>
     \* (no longer reachable: parkedNotif is never set since the repair b63010c)
     THEN GoIdle(SendNotif([s1 EXCEPT !.parkedNotif = <<>>], c, 6, s1.parkedNotif[1], s1.parkedNotif[2]), "notif")
     ELSE s1

(* ---------------------------------------------------------------------------------------- *)
(* handleOpen(): verdict on one message received in (the FSM's or the ocm's) OpenSent.
   Result <<>> = valid OPEN, else the NOTIFICATION <<code, sub>> *)
HandleOpen(e) ==
  CASE e.ev = "Open" ->
         CASE e.kind = "ok" -> <<>>
           [] e.kind = "unsupopt" -> <<2, 4>>              \* ValidateOpenMsg: unrecognised optional parameter
           [] e.kind = "badver" -> <<2, 1>>
           [] e.kind = "badas" -> <<2, 2>>
           [] e.kind = "badid" -> <<2, 3>>
           [] e.kind \in {"hold1", "hold2"} -> <<2, 6>>
           [] e.kind = "malopt" -> <<2, 7>>
           [] OTHER -> <<1, 2>>                            \* short
    [] e.ev = "Garbage" ->
         CASE e.kind = "marker" -> <<1, 1>>
           [] e.kind \in {"lenshort", "lenlong"} -> <<1, 2>>
           [] e.kind = "type" -> <<1, 3>>
           [] OTHER -> <<1, 2>>                            \* kalen: BGPKeepAlive.DecodeFromBytes, Length # 19
    [] OTHER -> <<5, 1>>                                   \* KEEPALIVE, UPDATE, ROUTE-REFRESH, NOTIFICATION

HeaderErr(e) == e.ev = "Garbage"
IsKeepalive(e) == e.ev = "Keepalive"

(* ---------------------------------------------------------------------------------------- *)
(* a message (or the neighbour's close) arrives on connection c *)
OcmRecv(s, e) ==             \* outgoingConnManager.run, state OPENSENT
  LET v == HandleOpen(e)
      back == [s EXCEPT !.ocm = "wait", !.ocmT = s.now + FirstDial, !.ocmHold = -1]
  IN
  IF e.ev = "Close" THEN CloseC(back, CO)
  ELSE IF v # <<>> THEN SendNotif(back, CO, v[1], v[2], "")
  ELSE LET s1 == [s EXCEPT !.ocm = "off", !.ocmT = -1, !.ocmHold = -1, !.co.hold = e.hold, !.co.rd = FALSE] IN
       IF s.st = "Active" THEN ConsumeOut([s1 EXCEPT !.parkedConn = TRUE])
       ELSE IF s.st = "OpenSent" /\ ~s.stuck
       \* opensent() "case result := <-fsm.outgoingConnCh": adopts the outgoing connection, sends the
       \* KEEPALIVE, then blocks in the deferred wg.Wait() on the reader of the incoming one (DEVIATION)
       THEN SendKa([s1 EXCEPT !.cur = CO, !.stuck = TRUE, !.osT = -1], CO)
       \* nobody reads outgoingConnCh in Idle / OpenConfirm / Established: it stays parked (DEVIATION)
       ELSE [s1 EXCEPT !.parkedConn = TRUE]

Unstick(s, e) ==             \* the blocked reader of the incoming connection returned
  LET s1 == [s EXCEPT !.stuck = FALSE, !.ci.rd = FALSE, !.co.rd = TRUE]
      s2 == IF e.ev = "Close" THEN [s1 EXCEPT !.ci = NoC] ELSE [s1 EXCEPT !.ci.unread = TRUE]
      s3 == EnterOpenConfirm(s2, CO)
  IN IF s2.co.live THEN s3 ELSE GoIdle([s3 EXCEPT !.co = NoC], "read")   \* adopted connection already gone

OpenSentRecv(s, e) ==        \* opensent(), fsm.conn = ci
  LET v == HandleOpen(e) IN
  IF e.ev = "Close" THEN GoIdle([s EXCEPT !.ci = NoC], "read")
  ELSE IF v # <<>> THEN GoIdle(SendNotif(s, CI, v[1], v[2], ""), "invalid")
  ELSE LET s1 == SendKa([s EXCEPT !.ci.hold = e.hold], CI)
           \* "stop to try to connect": only an ocm that has no connection yet is stopped
           s2 == IF s1.ocm \in {"wait", "dial"} THEN StopOcm(s1) ELSE s1
       IN EnterOpenConfirm(s2, CI)

OpenConfirmRecv(s, e) ==     \* openconfirm()
  LET c == s.cur IN
  IF e.ev = "Close" THEN GoIdle([s EXCEPT ![c] = NoC], "read")
  ELSE IF IsKeepalive(e) THEN EnterEstablished(s)
  ELSE IF HeaderErr(e) THEN LET v == HandleOpen(e) IN GoIdle(SendNotif(s, c, v[1], v[2], ""), "invalid")
  ELSE IF e.ev = "Notif" THEN GoIdle(CloseC(s, c), "invalid")
  ELSE GoIdle(SendNotif(s, c, 5, 2, ""), "invalid")       \* RFC 6608: unexpected message in OpenConfirm

EstablishedRecv(s, e) ==     \* recvMessageloop() + established()
  LET c == s.cur
      rearm == [s EXCEPT !.estHold = IF s.neg > 0 THEN s.now + s.neg ELSE -1]
  IN
  IF e.ev = "Close" THEN GoIdle([s EXCEPT ![c] = NoC], "read")
  ELSE IF IsKeepalive(e) THEN [rearm EXCEPT !.holdBy = "ka"]
  ELSE IF e.ev = "Update" THEN
       IF s.cfg.maxpfx > 0 /\ e.n > s.cfg.maxpfx
       THEN GoIdle(SendNotif([rearm EXCEPT !.admin = "PfxCt"], c, 6, 1, ""), "read")
       ELSE [rearm EXCEPT !.rib = Max(s.rib, e.n), !.holdBy = "upd"]
  ELSE IF e.ev = "Refresh" THEN s
  ELSE IF e.ev = "Open" THEN GoIdle(SendNotif(s, c, 5, 3, ""), "notif")   \* RFC 6608: unexpected message in Established
  ELSE IF e.ev = "Notif" THEN GoIdle(CloseC(s, c), "notifrecv")
  ELSE LET v == HandleOpen(e) IN GoIdle(SendNotif(s, c, v[1], v[2], ""), "notif")

Recv(s, e) ==
  LET c == CId(e) IN
  IF ~s[c].live THEN s
  ELSE IF s.stuck THEN (IF c = CI THEN Unstick(s, e)
                        ELSE IF e.ev = "Close" THEN [s EXCEPT !.co.live = FALSE] ELSE [s EXCEPT !.co.unread = TRUE])
  ELSE IF c = CO /\ s.ocm = "opensent" THEN OcmRecv(s, e)
  ELSE IF c # s.cur THEN                          \* parked / leaked connection: nobody reads it
       IF e.ev = "Close" THEN [s EXCEPT ![c].live = FALSE] ELSE [s EXCEPT ![c].unread = TRUE]
  ELSE CASE s.st = "OpenSent" -> OpenSentRecv(s, e)
         [] s.st = "OpenConfirm" -> OpenConfirmRecv(s, e)
         [] s.st = "Established" -> EstablishedRecv(s, e)
         [] OTHER -> s

(* ---------------------------------------------------------------------------------------- *)
InConnect(s) ==
  IF s.ci.live \/ s.deleted \/ s.st # "Active" \/ s.admin # "Up" \/ s.stuck
  THEN [s EXCEPT !.o[IF s.ci.live THEN "cx" ELSE CI] = [NoCO EXCEPT !.known = TRUE, !.closed = TRUE]]
  ELSE \* active() "case conn := <-fsm.connCh": send OPEN, OpenSent, hold timer 240 s
       Wev([s EXCEPT !.ci = [NoC EXCEPT !.live = TRUE, !.rd = TRUE], !.cur = CI, !.osT = s.now + LargeHold,
              !.o.ci = [NoCO EXCEPT !.known = TRUE, !.msgs = <<Msg("OPEN", s.now, 0, 0, "", s.cfg.hold)>>]],
           "OpenSent")

OutConnect(s) ==     \* connectLoop returned a connection: the ocm sends its OPEN, hold timer 240 s
  [s EXCEPT !.co = [NoC EXCEPT !.live = TRUE, !.rd = TRUE], !.ocm = "opensent", !.ocmT = -1,
            !.ocmHold = s.now + LargeHold,
            !.o.co = [NoCO EXCEPT !.known = TRUE, !.msgs = <<Msg("OPEN", s.now, 0, 0, "", s.cfg.hold)>>]]
OutFail(s) == [s EXCEPT !.ocm = "wait", !.ocmT = s.now + s.cfg.retry]

(* ---------------------------------------------------------------------------------------- *)
(* administrative operations (server.go) *)
Disable(s, comm) ==
  LET s1 == [s EXCEPT !.admin = "Down"] IN
  CASE s.st = "Idle" -> [s1 EXCEPT !.idleT = -1]
    [] s.st = "Active" -> GoIdle(s1, "admin")
    \* DEVIATION: OpenSent / OpenConfirm close without the Cease (also the ocm's connection)
    [] s.st \in {"OpenSent", "OpenConfirm"} -> GoIdle(CloseC(s1, s.cur), "admin")
    [] OTHER -> GoIdle(SendNotif(s1, s.cur, 6, 2, CommHex(comm)), "admin")

Enable(s) ==
  IF s.st = "Idle" THEN [s EXCEPT !.admin = "Up", !.idleT = s.now + s.idleHold]
  ELSE s

OneShot(s, sub, comm) ==      \* ShutdownPeer / ResetPeer: fsm.notification, one slot
  IF s.st = "Established" THEN GoIdle(SendNotif(s, s.cur, 6, sub, CommHex(comm)), "notif")
  ELSE s      \* queued in fsm.notification, but loop() empties that channel when Established is entered: dropped

Delete(s) ==
  LET s1 == IF s.st = "Established" THEN SendNotif(s, s.cur, 6, 3, "")
            ELSE IF s.cur # "none" /\ s[s.cur].live THEN CloseC(s, s.cur) ELSE s     \* DEVIATION (no Cease)
      \* cancelling the context ends a running ocm (its connection is closed); a connection already
      \* waiting in outgoingConnCh is never closed (DEVIATION, leaked); loop() exit closes fsm.conn only
      s2 == IF s1.parkedConn THEN [s1 EXCEPT !.ocm = "off", !.ocmT = -1, !.ocmHold = -1] ELSE StopOcm(s1)
  IN Wev([ClearTimers(s2) EXCEPT !.deleted = TRUE, !.cur = "none", !.idleT = -1, !.rib = 0, !.stuck = FALSE], "Idle")

(* ---------------------------------------------------------------------------------------- *)
(* timers *)
Deadlines(s) == {d \in {s.idleT, s.osT, s.ocKa, s.ocHold, s.estKa, s.estHold, s.ocmT, s.ocmHold} : d >= 0}
NextDl(s) == IF Deadlines(s) = {} THEN -1
             ELSE CHOOSE d \in Deadlines(s) : \A x \in Deadlines(s) : d <= x

Fire(s0) ==          \* exactly one timer whose deadline is s.now fires (KEEPALIVE tickers first)
  LET s == s0 IN
  IF s.estKa = s.now THEN SendKa([s EXCEPT !.estKa = s.now + (IF KaInt(s.neg) = 0 THEN 1 ELSE KaInt(s.neg))], s.cur)
  ELSE IF s.ocKa = s.now THEN SendKa([s EXCEPT !.ocKa = s.now + (IF s.ocK = 0 THEN 1 ELSE s.ocK)], s.cur)
  ELSE IF s.estHold = s.now THEN GoIdle(SendNotif(s, s.cur, 4, 0, ""), "hold")
  ELSE IF s.ocHold = s.now THEN GoIdle(SendNotif(s, s.cur, 4, 0, ""), "hold")
  ELSE IF s.osT = s.now THEN GoIdle(SendNotif(s, s.cur, 4, 0, ""), "hold")
  ELSE IF s.ocmHold = s.now THEN SendNotif([s EXCEPT !.ocm = "wait", !.ocmT = s.now + FirstDial, !.ocmHold = -1], CO, 4, 0, "")
  ELSE IF s.ocmT = s.now THEN [s EXCEPT !.ocm = "dial", !.ocmT = -1]
  ELSE IF s.idleT = s.now THEN (IF s.admin = "Up" THEN EnterActive(s) ELSE [s EXCEPT !.idleT = -1])
  ELSE s

RECURSIVE Advance(_, _)
Advance(s, target) ==
  LET d == NextDl(s) IN
  IF s.stuck \/ s.deleted THEN [s EXCEPT !.now = target]      \* the FSM goroutine is blocked / gone
  ELSE IF d >= 0 /\ d <= target THEN Advance(Fire([s EXCEPT !.now = d]), target)
  ELSE [s EXCEPT !.now = target]

(* ---------------------------------------------------------------------------------------- *)
MStep(s0, e) ==
  LET s == Fresh(s0) IN
  Finish(
   CASE e.ev = "Tick" -> Advance(s, s.now + e.d)
     [] e.ev = "InConnect" -> InConnect(s)
     [] e.ev = "OutConnect" -> OutConnect(s)
     [] e.ev = "OutFail" -> OutFail(s)
     [] e.ev = "Close" -> LET r == Recv(s, e) IN        \* the neighbour's own close also ends its reader (EOF)
                          IF s.o[CId(e)].known THEN [r EXCEPT !.o[CId(e)].closed = TRUE] ELSE r
     [] e.ev \in MsgEvents -> Recv(s, e)
     [] e.ev = "Disable" -> Disable(s, e.comm)
     [] e.ev = "Enable" -> Enable(s)
     [] e.ev = "Shutdown" -> OneShot(s, 2, e.comm)
     [] e.ev = "ResetPeer" -> OneShot(s, 4, e.comm)
     [] e.ev = "Delete" -> Delete(s)
     [] OTHER -> s)

(* zero-delay timers (idle hold 0 of the very first Idle) are already folded into MInit *)

(* ---------------------------------------------------------------------------------------- *)
(* environment: the events that can be carried out in state s (used by Next and by FsmGen) *)
Ev(ev, c, kind, hold, d, n, code, sub, comm) ==
  [ev |-> ev, c |-> c, kind |-> kind, hold |-> hold, d |-> d, n |-> n, code |-> code, sub |-> sub, comm |-> comm]
CName(c) == IF c = CO THEN "out" ELSE "in"
NoEv == Ev("Reset", "", "", 0, 0, 0, 0, 0, "")

OpenKinds == {"ok", "badver", "badas", "badid", "hold1", "hold2", "unsupopt", "malopt", "short"}
GarbageKinds == {"marker", "lenshort", "lenlong", "type", "kalen"}

Readable(s, c) == s[c].live /\ s[c].rd /\ ~s[c].unread
   /\ (s.stuck => c = CI)
   /\ (c = CO => (s.ocm = "opensent" \/ s.cur = CO))

MsgsOn(s, c) ==
  LET opens == IF (c = s.cur /\ s.st \in {"OpenConfirm", "Established"} /\ ~s.stuck)
               THEN {Ev("Open", CName(c), "ok", h, 0, 0, 0, 0, "") : h \in PeerHolds}
               ELSE {Ev("Open", CName(c), k, h, 0, 0, 0, 0, "") : k \in OpenKinds, h \in PeerHolds}
  IN opens
     \cup {Ev("Keepalive", CName(c), "", 0, 0, 0, 0, 0, ""), Ev("Refresh", CName(c), "", 0, 0, 0, 0, 0, ""),
           Ev("Notif", CName(c), "", 0, 0, 0, 6, 2, "")}
     \cup {Ev("Update", CName(c), "", 0, 0, n, 0, 0, "") : n \in {1, 2}}
     \cup {Ev("Garbage", CName(c), k, 0, 0, 0, 0, 0, "") : k \in GarbageKinds}

Enabled(s) ==
  {Ev("Tick", "", "", 0, d, 0, 0, 0, "") : d \in Ticks}
  \cup (IF s.deleted THEN {} ELSE
     (IF s.stuck THEN {} ELSE
        {Ev("Enable", "", "", 0, 0, 0, 0, 0, ""), Ev("Delete", "", "", 0, 0, 0, 0, 0, "")}
        \cup {Ev(a, "", "", 0, 0, 0, 0, 0, cm) : a \in {"Disable", "Shutdown", "ResetPeer"}, cm \in {"", "hi"}})
     \cup (IF s.ocm = "dial" THEN {Ev("OutFail", "", "", 0, 0, 0, 0, 0, "")}
             \cup (IF s.co.live THEN {} ELSE {Ev("OutConnect", "", "", 0, 0, 0, 0, 0, "")}) ELSE {})
     \cup UNION {IF Readable(s, c) THEN MsgsOn(s, c) ELSE {} : c \in ConnIds}
     \cup {Ev("Close", CName(c), "", 0, 0, 0, 0, 0, "") : c \in {x \in ConnIds : s[x].live}})
  \cup (IF s.ci.live /\ (s.st = "Active" \/ s.stuck) THEN {} ELSE {Ev("InConnect", "", "", 0, 0, 0, 0, 0, "")})

=============================================================================
