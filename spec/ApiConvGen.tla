----------------------------- MODULE ApiConvGen -----------------------------
(* Behaviour generator for C18: TLC ENUMERATES abstract values of the vocabulary of ApiConvDom.
   Deterministic sweeps ("attr", "nlri", "cap", "ex", "path", ...) are enumerated exhaustively
   (one initial state per behaviour, printed by the invariant Emit): one field at a time around
   absent / zero / max of the base value of every type.  The "random" sweep draws combinations
   of several fields / several list elements with RandomElement under -simulate.
   One JSON object {k, name, val, hint, sw} per behaviour. *)
EXTENDS ApiConvDom, ApiConvCfgDom, Json

CONSTANTS Sweep,      \* which sweep to enumerate
          Tier        \* "quick" | "thorough"

Thorough == Tier = "thorough"

A(v)     == Beh("attr", v, NoHint, Sweep)
AH(v, h) == Beh("attr", v, h, Sweep)
As2Hint  == [askind |-> "2"]
MappedHint == [nhform |-> "mapped"]
NonCanonHint == [noncanon |-> "1"]

(* ------------------------------- sweep "attr" ---------------------------------------------- *)
SegNumbers == {<<>>, <<"1">>, <<"65535">>, <<"65000", "65001", "65002">>}
SegNumbers4 == {<<"65536">>, <<"4294967295">>, <<"65000", "4200000001", "23456">>}
SegLists2 ==      \* every AS fits two octets: both native kinds exist
  {<<>>}
  \cup {<<Seg(t, ns)>> : t \in SegTypes, ns \in SegNumbers}
  \cup {<<Seg("TYPE_AS_SEQUENCE", <<"65000", "65001">>), Seg("TYPE_AS_SET", <<"65002", "65003">>)>>,
        <<Seg("TYPE_AS_CONFED_SEQUENCE", <<"64512">>), Seg("TYPE_AS_SEQUENCE", <<"65000">>),
          Seg("TYPE_AS_SEQUENCE", <<"65001">>)>>,
        (* the same path split differently / with an empty segment in the middle: other octets, other value *)
        <<Seg("TYPE_AS_SEQUENCE", <<"65000">>), Seg("TYPE_AS_SEQUENCE", <<"65001", "65002">>)>>,
        <<Seg("TYPE_AS_SEQUENCE", <<"65000", "65001">>), Seg("TYPE_AS_SEQUENCE", <<"65002">>)>>,
        <<Seg("TYPE_AS_SEQUENCE", <<"65000">>), Seg("TYPE_AS_SET", <<>>), Seg("TYPE_AS_SEQUENCE", <<"65001">>)>>}
SegLists4 ==
  {<<Seg(t, ns)>> : t \in (IF Thorough THEN SegTypes ELSE {"TYPE_AS_SEQUENCE", "TYPE_AS_SET"}), ns \in SegNumbers4}
  \cup {<<Seg("TYPE_AS_SEQUENCE", <<"65000", "65536">>), Seg("TYPE_AS_SET", <<"4294967295">>)>>}

CommLists == {<<>>, <<"0">>, <<"4294967295">>, <<"4259840100", "4294967041", "4294967042", "4294967043">>,
              <<"4259840100", "4259840100">>, <<"4294967043", "4259840100", "0">>}

MpFamilies == {F_V4UC, F_V6UC, F_V4MC, F_V6MC, F_V4LB, F_V6LB, F_V4VPN, F_V6VPN, F_V4ENC, F_V6ENC, F_EVPN, F_VPLS,
               F_RTC, F_V4FS, F_V6FS, F_V4FSVPN, F_V6FSVPN, F_OPAQUE, F_V4SR, F_V6SR, F_V4MUP, F_V6MUP}
IsFlow(f) == f.safi \in {"SAFI_FLOW_SPEC_UNICAST", "SAFI_FLOW_SPEC_VPN"}
(* next hops in the canonical form of the API (IPv4 next hops print as IPv4) *)
NextHopsOf(f) ==
  IF IsFlow(f) THEN {<<>>}
  ELSE IF f.afi = "AFI_IP6"
       THEN {<<"2001:db8::1">>, <<"2001:db8::1", "fe80::1">>, <<"::">>, <<"10.0.0.1">>}
       ELSE {<<"10.0.0.1">>, <<"0.0.0.0">>, <<"2001:db8::1">>, <<"2001:db8::1", "fe80::1">>}
MpReachVals ==
  UNION {{A(A_MpReach(f, nh, <<NlriOf(f)>>)) : nh \in NextHopsOf(f)} : f \in MpFamilies}
  \cup {A(A_MpReach(F_V6UC, <<"2001:db8::1">>, <<N_Prefix("2001:db8:1::", "64"), N_Prefix("::", "0"),
                                                  N_Prefix("2001:db8::1", "128")>>)),
        A(A_MpReach(F_V4VPN, <<"10.0.0.1">>, <<N_Vpn(<<"16">>, RD2("65000", "1"), "10.1.2.0", "24"),
                                                N_Vpn(<<"17">>, RDIP("10.0.0.1", "2"), "10.1.2.0", "24")>>))}
  \cup {AH(A_MpReach(f, <<"10.0.0.1">>, <<NlriOf(f)>>), MappedHint) : f \in {F_V4UC, F_V6UC, F_V4VPN, F_V6VPN, F_EVPN}}
MpUnreachVals ==
  {A(A_MpUnreach(f, <<NlriOf(f)>>)) : f \in MpFamilies}
  \cup {A(A_MpUnreach(F_V4UC, <<N_Prefix("10.1.2.0", "24"), N_Prefix("0.0.0.0", "0")>>))}

ExtCommVals ==
  {A(A_ExtComm(<<c>>)) : c \in ExtCommPool}
  \cup {A(A_ExtComm(<<>>)),
        A(A_ExtComm(<<RTBase, EC_Color("100"), EC_Encap("8")>>)),
        A(A_ExtComm(<<EC_Encap("8"), EC_Color("100"), RTBase>>)),                   \* order is kept
        A(A_ExtComm(<<RTBase, RTBase>>))}                                           \* duplicates are kept
Ip6ExtCommVals ==
  {A(A_Ip6ExtComm(<<c>>)) : c \in Ip6ExtCommPool}
  \cup {A(A_Ip6ExtComm(<<EC6(TRUE, "2", "2001:db8::1", "1"), EC6Redirect("2001:db8::1", "2")>>))}

PmsiVals ==
  {A(A_Pmsi(fl, "6", lb, id)) : fl \in {"0", "1"}, lb \in {"0", "16777215"}, id \in {B4, B16}}
  \cup {A(A_Pmsi(fl, t, "100", id)) : fl \in {"0", "1"}, t \in {"0", "1", "7", "255"}, id \in {B0, B3, B4}}

EncapVals ==
  {A(A_TunnelEncap(<<TE_Tlv("8", <<s>>)>>)) : s \in EncapSubPool}
  \cup {A(A_TunnelEncap(<<>>)), A(A_TunnelEncap(<<TE_Tlv("8", <<>>)>>))}
  \cup {A(A_TunnelEncap(<<TE_Tlv(t, <<TS_Color("100")>>)>>)) : t \in {"0", "1", "13", "15", "65535"}}
  (* sub-TLV order inside one TLV, TLV order inside the attribute *)
  \cup {A(A_TunnelEncap(<<TE_Tlv("8", <<a, b>>)>>)) :
          a \in {TS_Color("100"), TS_Egress("10.0.0.1")}, b \in {TS_UdpPort("4789"), TS_Encap("100", B3), TS_Color("100")}}
  \cup {A(A_TunnelEncap(<<TE_Tlv("8", <<TS_UdpPort("4789"), TS_Color("100"), TS_Egress("10.0.0.1")>>)>>)),
        A(A_TunnelEncap(<<TE_Tlv("8", <<TS_Color("1")>>), TE_Tlv("7", <<TS_Color("2")>>)>>)),
        A(A_TunnelEncap(<<TE_Tlv("7", <<TS_Color("2")>>), TE_Tlv("8", <<TS_Color("1")>>)>>)),
        A(A_TunnelEncap(<<TE_Tlv("15", <<TS_SrPref("0", "100"), TS_SrPrio("1"), TS_SrName("cp1"),
                                          TS_SrEnlp("0", "ENLP_TYPE_TYPE1")>>)>>))}

AigpVals ==
  {A(A_Aigp(<<AG_Metric(m)>>)) : m \in U64}
  \cup {A(A_Aigp(<<AG_Unknown(t, v)>>)) : t \in {"0", "2", "255"}, v \in {B0, B3}}
  \cup {A(A_Aigp(<<>>)), A(A_Aigp(<<AG_Metric("1"), AG_Unknown("2", B3)>>)),
        A(A_Aigp(<<AG_Unknown("2", B3), AG_Metric("1")>>))}

LargeVals ==
  {A(A_Large(<<LC(g, a, b)>>)) : g \in {"0", "4294967295"}, a \in {"0", "4294967295"}, b \in {"0", "4294967295"}}
  \cup {A(A_Large(<<>>)), A(A_Large(<<LC("1", "2", "3"), LC("3", "2", "1")>>)), A(A_Large(<<LC("1", "2", "3"), LC("1", "2", "3")>>))}

StructBase == PS_Struct("40", "24", "16", "0", "16", "64")
PrefixSidVals ==
  {A(A_PrefixSid(<<PS_L3(PS_Sub(<<PS_Info(B16, beh, PS_NoSubSub)>>))>>)) : beh \in {"0", "17", "65535"}}
  \cup {A(A_PrefixSid(<<PS_L3(PS_Sub(<<PS_Info(B16, "17", PS_SubSub(<<s>>))>>))>>)) :
          s \in {StructBase, PS_Struct("0", "0", "0", "0", "0", "0"), PS_Struct("255", "255", "255", "255", "255", "255")}}
  \cup {A(A_PrefixSid(<<PS_L2(PS_Sub(<<PS_Info(B16, "21", PS_SubSub(<<StructBase>>))>>))>>)),
        A(A_PrefixSid(<<PS_L3(PS_Sub(<<PS_Info(B16, "17", PS_NoSubSub), PS_Info(B16, "18", PS_NoSubSub)>>))>>)),
        A(A_PrefixSid(<<PS_L3(PS_Sub(<<PS_Info(B16, "17", PS_NoSubSub)>>)), PS_L2(PS_Sub(<<PS_Info(B16, "21", PS_NoSubSub)>>))>>)),
        A(A_PrefixSid(<<>>))}

(* flags: optional 128, transitive 64, partial 32 (extended length 16 is a wire-length artefact) *)
UnknownVals ==
  {A(A_Unknown(fl, t, v)) : fl \in {"192", "224", "128", "64", "0"}, t \in {"99", "255", "41"}, v \in BytesPool}

SweepAttr ==
  {A(A_Origin(o)) : o \in {"0", "1", "2", "255"}}
  \cup {A(A_AsPath(s)) : s \in SegLists2 \cup SegLists4}
  \cup {AH(A_AsPath(s), As2Hint) : s \in SegLists2}
  \cup {A(A_NextHop(a)) : a \in V4 \cup {"2001:db8::1", "::ffff:10.0.0.1"}}
  \cup {A(A_Med(m)) : m \in U32}
  \cup {A(A_LocalPref(m)) : m \in U32}
  \cup {A(A_Atomic)}
  \cup {A(A_Aggregator(as, a)) : as \in AS4 \cup {"0"}, a \in {"10.0.0.1", "0.0.0.0"}}
  \cup {AH(A_Aggregator(as, a), As2Hint) : as \in AS2 \cup {"0"}, a \in {"10.0.0.1", "255.255.255.255"}}
  \cup {A(A_Communities(c)) : c \in CommLists}
  \cup {A(A_Originator(a)) : a \in V4}
  \cup {A(A_ClusterList(l)) : l \in {<<>>, <<"10.0.0.1">>, <<"10.0.0.1", "0.0.0.0", "255.255.255.255">>, <<"10.0.0.1", "10.0.0.1">>}}
  \cup MpReachVals \cup MpUnreachVals
  \cup ExtCommVals
  \cup {A(A_As4Path(s)) : s \in SegLists4 \cup {<<>>, <<Seg("TYPE_AS_SEQUENCE", <<"1">>)>>}}
  \cup {A(A_As4Aggregator(as, a)) : as \in {"0", "65535", "65536", "4294967295"}, a \in {"10.0.0.1", "0.0.0.0"}}
  \cup PmsiVals \cup EncapVals \cup Ip6ExtCommVals \cup AigpVals \cup LargeVals \cup PrefixSidVals \cup UnknownVals

(* ------------------------------- sweep "nlri" ---------------------------------------------- *)
N(f, n) == Beh("nlri", NlriVal(f, n), NoHint, Sweep)
FlowComps ==
  {<<FS_Prefix("1", "10.1.2.0", "24", "0")>>,
   <<FS_Prefix("2", "10.1.2.3", "32", "0")>>,
   <<FS_Prefix("1", "0.0.0.0", "0", "0"), FS_Prefix("2", "10.0.0.0", "8", "0")>>,
   <<FS_Comp("3", <<FS_Item("129", "6")>>)>>,                                       \* protocol == 6 (end bit)
   <<FS_Comp("5", <<FS_Item("3", "80"), FS_Item("213", "8080")>>)>>,                 \* port >=80 & <=8080
   <<FS_Prefix("1", "10.1.2.0", "24", "0"), FS_Comp("3", <<FS_Item("129", "17")>>),
     FS_Comp("4", <<FS_Item("145", "65535")>>), FS_Comp("9", <<FS_Item("128", "2")>>),
     FS_Comp("10", <<FS_Item("161", "4294967295")>>), FS_Comp("11", <<FS_Item("129", "46")>>),
     FS_Comp("12", <<FS_Item("128", "1")>>)>>}
FlowComps6 ==
  {<<FS_Prefix("1", "2001:db8:1::", "64", "0")>>,
   <<FS_Prefix("1", "2001:db8:1::", "64", "32")>>,
   <<FS_Prefix("2", "2001:db8::1", "128", "0"), FS_Comp("3", <<FS_Item("129", "58")>>)>>,
   <<FS_Comp("13", <<FS_Item("161", "1048575")>>)>>}                               \* flow label
FlowCompsL2 ==
  {<<FS_Mac("15", "00:11:22:33:44:55")>>, <<FS_Mac("16", "ff:ff:ff:ff:ff:ff")>>,
   <<FS_Comp("14", <<FS_Item("145", "2048")>>)>>}                                   \* ether type
(* operand length / and / end / comparison bits of component items, one dimension at a time around
   "dst-port = 80" *)
NumTypes == {"3", "4", "5", "6", "7", "8", "10", "11"}          \* protocol, ports, icmp type/code, packet length, dscp
BitTypes == {"9", "12"}                                         \* tcp flags, fragment
One(t, items) == <<FS_Comp(t, items)>>
FlowOps ==
  {One("5", <<FS_ItemL(TRUE, FALSE, l, 1, <<"80", 0>>)>>) : l \in 0..3}
  \cup UNION {{One("5", <<FS_ItemL(TRUE, FALSE, l, 1, v)>>) : l \in FsLens(v)} : v \in FsVals}
  \cup {One("5", <<FS_ItemL(TRUE, FALSE, l, c, <<"80", 0>>)>>) : l \in {0, 1}, c \in 0..7}
  \cup {One(t, <<FS_ItemL(TRUE, FALSE, l, 1, <<"6", 0>>)>>) : t \in NumTypes, l \in (IF Thorough THEN 0..3 ELSE {0, 1})}
  \cup {One("4", <<FS_ItemL(FALSE, FALSE, l1, 3, <<"80", 0>>), FS_ItemL(TRUE, TRUE, l2, 5, <<"8080", 1>>)>>) : l1 \in {0, 1, 3}, l2 \in {1, 2}}
  \cup {One("10", <<FS_ItemL(FALSE, FALSE, 1, 1, <<"40", 0>>), FS_ItemL(FALSE, FALSE, 0, 1, <<"41", 0>>), FS_ItemL(TRUE, FALSE, 2, 1, <<"1500", 1>>)>>)}
  \cup {One(t, <<FS_ItemL(TRUE, FALSE, l, c, <<"2", 0>>)>>) : t \in BitTypes, l \in 0..3, c \in 0..3}
  \cup {One("9", <<FS_ItemL(FALSE, FALSE, 1, 1, <<"2", 0>>), FS_ItemL(TRUE, TRUE, 0, 2, <<"16", 0>>)>>)}
  \cup {<<FS_Prefix("1", "10.1.2.0", "24", "0"), FS_Comp("3", <<FS_ItemL(TRUE, FALSE, 1, 1, <<"6", 0>>)>>),
           FS_Comp("5", <<FS_ItemL(TRUE, FALSE, 2, 1, <<"443", 1>>)>>), FS_Comp("9", <<FS_ItemL(TRUE, FALSE, 1, 1, <<"18", 0>>)>>)>>}
FlowOps6 ==
  {One("13", <<FS_ItemL(TRUE, FALSE, l, 1, <<"1048575", 2>>)>>) : l \in {2, 3}}
  \cup {One("5", <<FS_ItemL(TRUE, FALSE, l, 1, <<"80", 0>>)>>) : l \in 0..3}
  \cup {<<FS_Prefix("1", "2001:db8:1::", "64", "0"), FS_Comp("3", <<FS_ItemL(TRUE, FALSE, 1, 1, <<"58", 0>>)>>)>>}
FlowOpsL2 ==
  {One("14", <<FS_ItemL(TRUE, FALSE, l, 1, <<"2048", 1>>)>>) : l \in {1, 2, 3}}
  \cup {<<FS_Comp("14", <<FS_ItemL(TRUE, FALSE, 2, 1, <<"2048", 1>>)>>), FS_Mac("15", "00:11:22:33:44:55")>>}    \* rules in type order
MupTlvSeqs == {<<>>, <<MT_Session("1", "9")>>, <<MT_Interwork("10.0.0.9")>>, <<MT_Source("2001:db8::9")>>,
               <<MT_Unknown("200", B3)>>, <<MT_Source("10.0.0.9"), MT_Session("4294967295", "63")>>}

SweepNlri ==
  {N(f, N_Prefix(p[1], p[2])) : f \in {F_V4UC, F_V4MC}, p \in V4Prefixes}
  \cup {N(f, N_Prefix(p[1], p[2])) : f \in {F_V6UC, F_V6MC}, p \in V6Prefixes}
  \cup {N(F_V4LB, N_Labeled(ls, p[1], p[2])) : ls \in LabelStacks, p \in {<<"10.1.2.0", "24">>, <<"0.0.0.0", "0">>, <<"10.1.2.3", "32">>}}
  \cup {N(F_V6LB, N_Labeled(ls, p[1], p[2])) : ls \in LabelStacks, p \in {<<"2001:db8:1::", "64">>, <<"::", "0">>}}
  \cup {N(F_V4VPN, N_Vpn(<<"16">>, rd, "10.1.2.0", "24")) : rd \in RDPool}
  \cup {N(F_V4VPN, N_Vpn(ls, RDBase, p[1], p[2])) : ls \in LabelStacks, p \in {<<"0.0.0.0", "0">>, <<"10.1.2.3", "32">>}}
  \cup {N(F_V6VPN, N_Vpn(ls, RDBase, p[1], p[2])) : ls \in {<<"16">>, <<"16", "17">>}, p \in V6Prefixes}
  \cup {N(F_V4ENC, N_Encap(a)) : a \in V4} \cup {N(F_V6ENC, N_Encap(a)) : a \in V6}
  \cup {N(F_VPLS, N_Vpls(rd, "1", "2", "8", "1000")) : rd \in RDPool}
  \cup {N(F_VPLS, N_Vpls(RDBase, id, off, sz, base)) : id \in {"0", "65535"}, off \in {"0", "65535"}, sz \in {"0", "65535"},
                                                         base \in {"0", "1048575"}}
  (* EVPN: every route type, one field at a time *)
  \cup {N(F_EVPN, N_EvpnAD(rd, ESIBase, "10", "100")) : rd \in RDPool}
  \cup {N(F_EVPN, N_EvpnAD(RDBase, esi, tag, lb)) : esi \in ESIPool, tag \in {"0", "4294967295"}, lb \in {"0", "16", "16777215"}}
  \cup {N(F_EVPN, N_EvpnMac(RDBase, esi, tag, mac, ip, ls)) :
          esi \in {ESIBase, ESI("1", B9)}, tag \in {"0", "4294967295"}, mac \in Macs,
          ip \in {"", "10.0.0.1", "2001:db8::1"}, ls \in {<<"16">>, <<"16", "17">>, <<>>}}
  \cup {N(F_EVPN, N_EvpnMcast(RDBase, tag, ip)) : tag \in {"0", "4294967295"}, ip \in {"10.0.0.1", "2001:db8::1", "0.0.0.0"}}
  \cup {N(F_EVPN, N_EvpnES(RDBase, esi, ip)) : esi \in ESIPool, ip \in {"10.0.0.1", "2001:db8::1"}}
  \cup {N(F_EVPN, N_EvpnPfx(RDBase, esi, tag, p[1], p[2], p[3], lb)) :
          esi \in {ESIBase, ESI("1", B9)}, tag \in {"0", "4294967295"},
          p \in {<<"10.1.2.0", "24", "10.0.0.1">>, <<"0.0.0.0", "0", "0.0.0.0">>, <<"2001:db8:1::", "64", "2001:db8::1">>,
                 <<"2001:db8:1::", "64", "::">>},
          lb \in {"0", "16777215"}}
  \cup {N(F_EVPN, N_EvpnIPmsi(RDBase, tag, rt)) : tag \in {"0", "4294967295"}, rt \in {RTBase, EC4(TRUE, "2", "65536", "1")}}
  (* route target constraint: default route (no target), every target kind *)
  \cup {N(F_RTC, N_Rtc(as, rt)) : as \in {"0", "65000", "4294967295"}, rt \in RTPool}
  \cup {N(F_RTC, N_RtcDefault(as)) : as \in {"0", "65000"}}
  \cup {N(F_V4FS, N_Flow(r)) : r \in FlowComps} \cup {N(F_V6FS, N_Flow(r)) : r \in FlowComps6}
  \cup {N(F_V4FS, N_Flow(r)) : r \in FlowOps} \cup {N(F_V6FS, N_Flow(r)) : r \in FlowOps6}
  \cup {N(F_V4FSVPN, N_FlowVpn(RDBase, r)) : r \in FlowOps}
  \cup {N(F_V6FSVPN, N_FlowVpn(RDBase, r)) : r \in FlowOps6}
  \cup {N(F_L2FSVPN, N_FlowVpn(RDBase, r)) : r \in FlowOpsL2}
  (* prefixes whose host bits are set (kept by the VPN / labelled / EVPN prefix types) *)
  \cup {N(F_V4VPN, N_Vpn(<<"16">>, RDBase, p[1], p[2])) : p \in {<<"10.1.255.3", "20">>, <<"10.1.2.3", "24">>, <<"255.255.255.255", "1">>}}
  \cup {N(F_V6VPN, N_Vpn(<<"16">>, RDBase, "2001:db8:1::ffff", "60"))}
  \cup {N(F_V4LB, N_Labeled(<<"16">>, "10.1.255.3", "20"))}
  \cup {N(F_EVPN, N_EvpnPfx(RDBase, ESIBase, "0", "10.1.255.3", "20", "10.0.0.1", "0"))}
  \cup {N(F_V4FSVPN, N_FlowVpn(rd, r)) : rd \in {RDBase, RDIP("10.0.0.1", "2")}, r \in FlowComps}
  \cup {N(F_V6FSVPN, N_FlowVpn(RDBase, r)) : r \in FlowComps6}
  \cup {N(F_L2FSVPN, N_FlowVpn(RDBase, r)) : r \in FlowCompsL2}
  \cup {N(F_OPAQUE, N_Opaque(k, v)) : k \in {B1, B7}, v \in BytesPool}
  \cup {N(F_V4SR, N_SrPolicy("96", d, c, B4)) : d \in {"0", "4294967295"}, c \in {"0", "4294967295"}}
  \cup {N(F_V6SR, N_SrPolicy("192", d, c, B16)) : d \in {"0", "1"}, c \in {"0", "100"}}
  \cup {N(f, N_MupISD(rd, p)) : f \in {F_V4MUP}, rd \in {RDBase, RD4("65536", "1")}, p \in {"10.1.2.0/24", "0.0.0.0/0", "10.1.2.3/32"}}
  \cup {N(F_V6MUP, N_MupISD(RDBase, p)) : p \in {"2001:db8:1::/64", "::/0"}}
  \cup {N(F_V4MUP, N_MupDSD(RDBase, a)) : a \in {"10.0.0.1", "0.0.0.0"}}
  \cup {N(F_V6MUP, N_MupDSD(RDBase, a)) : a \in {"2001:db8::1"}}
  \cup {N(F_V4MUP, N_MupT1(RDBase, "10.1.2.3/32", teid, qfi, "32", "10.0.0.2", sa[1], sa[2], tl)) :
          teid \in {"0", "1", "4294967295"}, qfi \in {"0", "9", "63"}, sa \in {<<"0", "">>, <<"32", "10.0.0.3">>}, tl \in {<<>>}}
  \cup {N(F_V4MUP, N_MupT1(RDBase, "10.1.2.3/32", "100", "9", "32", "10.0.0.2", "0", "", tl)) : tl \in MupTlvSeqs}
  \cup {N(F_V6MUP, N_MupT1(RDBase, "2001:db8:1::/64", "100", "9", "128", "2001:db8::2", sa[1], sa[2], <<>>)) :
          sa \in {<<"0", "">>, <<"128", "2001:db8::3">>}}
  \cup {N(F_V4MUP, N_MupT2(RDBase, eal, "10.0.0.2", teid, tl)) :
          eal \in {"32", "64"}, teid \in {"0", "100", "4294967295"}, tl \in {<<>>, <<MT_Session("1", "9")>>}}
  \cup {N(F_V6MUP, N_MupT2(RDBase, eal, "2001:db8::2", "100", <<>>)) : eal \in {"128", "160"}}

(* ------------------------------- sweep "cap" ----------------------------------------------- *)
C(v) == Beh("cap", v, NoHint, Sweep)
SweepCap ==
  {C(C_MultiProtocol(f)) : f \in MpFamilies \cup {F_LS, F_L2FSVPN}}
  \cup {C(C_RouteRefresh), C(C_CarryingLabel), C(C_ERR), C(C_RRCisco), C(C_ExtMsg)}
  \cup {C(C_ExtNexthop(ts)) : ts \in {<<>>, <<ENH(F_V4UC, F_V6UC)>>, <<ENH(F_V4UC, F_V6UC), ENH(F_V4VPN, F_V6UC), ENH(F_V4LB, F_V6UC)>>,
                                      <<ENH(F_V4MC, F_V6UC)>>, <<ENH(F_V6UC, F_V4UC)>>}}
  \cup {C(C_GR(fl, t, ts)) : fl \in {"0", "4", "8", "12"}, t \in {"0", "120", "4095"},
                            ts \in {<<>>, <<GRT(F_V4UC, "128")>>, <<GRT(F_V4UC, "0"), GRT(F_V6UC, "128"), GRT(F_EVPN, "0")>>}}
  \cup {C(C_As4(as)) : as \in AS4 \cup {"0"}}
  \cup {C(C_AddPath(ts)) : ts \in {<<>>} \cup {<<APT(f, m)>> : f \in {F_V4UC, F_V6VPN, F_EVPN},
                                                 m \in {"MODE_RECEIVE", "MODE_SEND", "MODE_BOTH", "MODE_UNSPECIFIED"}}
                                  \cup {<<APT(F_V4UC, "MODE_BOTH"), APT(F_V6UC, "MODE_SEND"), APT(F_V4VPN, "MODE_RECEIVE")>>}}
  \cup {C(C_LLGR(ts)) : ts \in {<<>>} \cup {<<LLT(f, fl, t)>> : f \in {F_V4UC, F_EVPN}, fl \in {"0", "128"}, t \in {"0", "1", "16777215"}}
                               \cup {<<LLT(F_V4UC, "128", "3600"), LLT(F_V6UC, "0", "60")>>}}
  \cup {C(C_Fqdn(h, d)) : h \in {"", "r1", "router-with-a-long-host-name.example"}, d \in {"", "example.net"}}
  \cup {C(C_SoftVer(v)) : v \in {"", "GoBGP/4.0.0", "x"}}
  \cup {C(C_Unknown(c, v)) : c \in {"0", "66", "128", "255"}, v \in BytesPool}

(* ------------------------------- sweep "ex": example catalogue of the harness --------------- *)
ExampleNames ==
  {"attr:ls-node", "attr:ls-link", "attr:ls-prefix", "attr:ls-srv6sid", "attr:ls-bgp-peer",
   "attr:srpolicy-full", "attr:srpolicy-parsed", "attr:srpolicy-noweight", "attr:srpolicy-srv6bsid",
   "attr:srpolicy-segtypeb", "attr:prefixsid-parsed", "attr:prefixsid-l2-parsed", "attr:pmsi-parsed",
   "attr:tunnelencap-parsed", "attr:mpreach-ll-only", "attr:mpreach-vpn-parsed", "attr:mpunreach-eor",
   "attr:aspath-parsed", "attr:extcomm-parsed-all",
   "nlri:ls-node", "nlri:ls-link", "nlri:ls-prefix4", "nlri:ls-prefix6", "nlri:ls-srv6sid",
   "nlri:evpn-macadv-parsed", "nlri:evpn-ipmsi-parsed", "nlri:vpls-parsed", "nlri:rtc-default-parsed",
   "nlri:flowspec-parsed", "nlri:flowspec-wide-parsed", "nlri:flowspec6-wide-parsed", "nlri:prefix-hostbits-parsed",
   "nlri:vpn-hostbits-parsed", "nlri:labeled-two-labels-parsed", "nlri:mup-t1st-parsed", "nlri:srpolicy-parsed", "nlri:labeled-withdraw",
   "cap:gr-parsed", "cap:llgr-parsed", "cap:extnh-parsed", "cap:softver-parsed", "cap:fqdn-parsed"}
SweepEx == {Ex(n) : n \in ExampleNames}

Behaviours ==
  CASE Sweep = "attr" -> SweepAttr
    [] Sweep = "nlri" -> SweepNlri
    [] Sweep = "cap"  -> SweepCap
    [] Sweep = "ex"   -> SweepEx
    [] Sweep = "path" -> {Beh("path", v, [del |-> d], Sweep) : v \in PathVals(Thorough), d \in (IF Thorough THEN {"uuid", "path"} ELSE {"uuid"})}
                         \cup {Beh("path", v, [del |-> "path"], Sweep) : v \in PathVals(FALSE)}
    [] Sweep = "dset" -> {Beh("dset", v, NoHint, Sweep) : v \in DsetVals} \cup {Beh("dset", v, NonCanonHint, Sweep) : v \in DsetNonCanon}
    [] Sweep = "stmt" -> {Beh("stmt", v, NoHint, Sweep) : v \in StmtVals} \cup {Beh("stmt", v, NonCanonHint, Sweep) : v \in StmtNonCanon}
    [] Sweep = "peer" -> {Beh("peer", v, NoHint, Sweep) : v \in PeerVals(Thorough)}
    [] OTHER          -> {}

(* ------------------------------- sweep "random" (TLC -simulate) ----------------------------- *)
(* every operator takes a parameter: TLC evaluates zero-arity definitions once and caches them *)
RECURSIVE RandSeq(_, _)
RandSeq(S, k) == IF k = 0 THEN <<>> ELSE <<RandomElement(S)>> \o RandSeq(S, k - 1)
RandSegs(x) ==
  LET big == RandomElement(BOOLEAN)
      nums == IF big THEN AS4 ELSE AS2
      k == RandomElement(0..3)
  IN [i \in 1..k |-> Seg(RandomElement(SegTypes), RandSeq(nums, RandomElement(0..3)))]
AllAs2(segs) == \A i \in DOMAIN segs : \A j \in DOMAIN segs[i].numbers : segs[i].numbers[j] \in AS2
RandAttr(x) ==
  LET t == RandomElement({"as_path", "aggregator", "communities", "cluster_list", "extcomm", "ip6extcomm", "encap",
                          "aigp", "large", "mp_reach", "mp_unreach", "pmsi", "unknown", "as4_path"}) IN
  CASE t = "as_path" -> LET s == RandSegs(x) IN
                        IF AllAs2(s) /\ RandomElement(BOOLEAN) THEN AH(A_AsPath(s), As2Hint) ELSE A(A_AsPath(s))
    [] t = "as4_path" -> A(A_As4Path(RandSegs(x)))
    [] t = "aggregator" -> LET as == RandomElement(AS4) IN
                           IF as \in AS2 /\ RandomElement(BOOLEAN)
                           THEN AH(A_Aggregator(as, RandomElement(V4)), As2Hint) ELSE A(A_Aggregator(as, RandomElement(V4)))
    [] t = "communities" -> A(A_Communities(RandSeq(U32 \cup {"4259840100"}, RandomElement(0..5))))
    [] t = "cluster_list" -> A(A_ClusterList(RandSeq(V4, RandomElement(0..4))))
    [] t = "extcomm" -> A(A_ExtComm(RandSeq(ExtCommPool, RandomElement(0..5))))
    [] t = "ip6extcomm" -> A(A_Ip6ExtComm(RandSeq(Ip6ExtCommPool, RandomElement(0..3))))
    [] t = "encap" -> LET k == RandomElement(0..3) IN
                      A(A_TunnelEncap([i \in 1..k |-> TE_Tlv(RandomElement({"1", "7", "8", "13", "15"}),
                                                             RandSeq(EncapSubPool, RandomElement(0..4)))]))
    [] t = "aigp" -> A(A_Aigp(RandSeq({AG_Metric(m) : m \in U64} \cup {AG_Unknown("2", B3), AG_Unknown("255", B0)}, RandomElement(0..3))))
    [] t = "large" -> A(A_Large(RandSeq({LC(g, a, b) : g \in U32, a \in {"0", "7"}, b \in U32}, RandomElement(0..4))))
    [] t = "mp_reach" -> LET f == RandomElement(MpFamilies) IN
                         A(A_MpReach(f, RandomElement(NextHopsOf(f)), <<NlriOf(f)>>))
    [] t = "mp_unreach" -> LET f == RandomElement(MpFamilies) IN A(A_MpUnreach(f, <<NlriOf(f)>>))
    [] t = "pmsi" -> LET ty == RandomElement({"0", "1", "6", "7"}) IN
                     A(A_Pmsi(RandomElement({"0", "1"}), ty, RandomElement(U24 \cup {"16777215"}),
                              IF ty = "6" THEN RandomElement({B4, B16}) ELSE RandomElement(BytesPool)))
    [] OTHER -> A(A_Unknown(RandomElement({"192", "224", "64"}), RandomElement({"99", "200", "255"}), RandomElement(BytesPool)))
RandNlri(x) ==
  LET t == RandomElement({"evpn_mac", "evpn_pfx", "vpn", "labeled", "rtc", "flow", "mup"}) IN
  CASE t = "evpn_mac" -> N(F_EVPN, N_EvpnMac(RandomElement(RDPool), RandomElement(ESIPool), RandomElement(U32), RandomElement(Macs),
                                              RandomElement({"", "10.0.0.1", "2001:db8::1"}), RandomElement({<<"16">>, <<"16", "17">>, <<"0">>})))
    [] t = "evpn_pfx" -> LET p == RandomElement({<<"10.1.2.0", "24", "10.0.0.1">>, <<"2001:db8:1::", "64", "2001:db8::1">>}) IN
                         N(F_EVPN, N_EvpnPfx(RandomElement(RDPool), RandomElement(ESIPool), RandomElement(U32), p[1], p[2], p[3],
                                             RandomElement({"0", "16", "16777215"})))
    [] t = "vpn" -> LET p == RandomElement(V4Prefixes) IN N(F_V4VPN, N_Vpn(RandomElement(LabelStacks), RandomElement(RDPool), p[1], p[2]))
    [] t = "labeled" -> LET p == RandomElement(V6Prefixes) IN N(F_V6LB, N_Labeled(RandomElement(LabelStacks), p[1], p[2]))
    [] t = "rtc" -> N(F_RTC, N_Rtc(RandomElement(AS4), RandomElement(RTPool)))
    [] t = "flow" -> LET v == RandomElement(FsVals)
                         w == RandomElement(FsVals)
                         ty == RandomElement(NumTypes \cup BitTypes)
                         items == IF RandomElement(BOOLEAN)
                                  THEN <<FS_ItemL(TRUE, FALSE, RandomElement(FsLens(v)), RandomElement(0..7), v)>>
                                  ELSE <<FS_ItemL(FALSE, RandomElement(BOOLEAN), RandomElement(FsLens(v)), RandomElement(0..7), v),
                                         FS_ItemL(TRUE, RandomElement(BOOLEAN), RandomElement(FsLens(w)), RandomElement(0..7), w)>>
                     IN IF RandomElement(BOOLEAN)
                        THEN N(F_V4FSVPN, N_FlowVpn(RandomElement(RDPool), <<FS_Comp(ty, items)>>))
                        ELSE N(RandomElement({F_V4FS, F_V6FS}), N_Flow(<<FS_Comp(ty, items)>>))
    [] OTHER -> N(F_V4MUP, N_MupT1(RandomElement(RDPool), "10.1.2.3/32", RandomElement(U32), RandomElement({"0", "9", "63"}), "32", "10.0.0.2",
                                   "0", "", RandomElement(MupTlvSeqs)))
RandBeh(step) ==
  LET w == RandomElement(1..10) IN
  IF w <= 6 THEN RandAttr(step) ELSE IF w <= 8 THEN RandNlri(step) ELSE Beh("path", RandPathVal(step), [del |-> RandomElement({"uuid", "path"})], Sweep)

VARIABLES beh, step
gv == <<beh, step>>
Init == step = 0 /\ (IF Sweep = "random" THEN beh = RandBeh(0) ELSE beh \in Behaviours)
Next == IF Sweep = "random" THEN step' = step + 1 /\ beh' = RandBeh(step') ELSE UNCHANGED gv
GenSpec == Init /\ [][Next]_gv

Emit == PrintT("VPOUT " \o ToJson(beh))
=============================================================================
