---------------------------- MODULE VrfRtcDom ----------------------------
(* Concrete vocabulary of C17 shared by the generator, the design-level pools and the harness
   (harness/c17 maps the names: rt1..rt3 = RT 65000:1..3 (transitive two-octet-AS), nt1 = the
   value of rt1 with the NON-transitive type, x1..x5 = 10.1.<i>.0/24; N1 = iBGP AS 65000 with
   l3vpn-ipv4-unicast + rtc, N2 = eBGP AS 65002 with l3vpn-ipv4-unicast, CE = eBGP AS 65010 in
   VRF v1 with ipv4-unicast). *)
EXTENDS Integers, Sequences, FiniteSets

RTs == {"rt1", "rt2", "rt3"}

(* two VRFs with overlapping import / export target sets, two configurations each *)
Vrf(n, rd, l, i, e) == [name |-> n, rd |-> rd, label |-> l, imp |-> i, exp |-> e]
V1a == Vrf("v1", "65000:101", 101, {"rt1", "rt2"}, {"rt1", "rt3"})
V1b == Vrf("v1", "65000:101", 111, {"rt3"}, {"rt2"})
V2a == Vrf("v2", "65000:102", 102, {"rt2", "rt3"}, {"rt3"})      \* its routes are imported by v2 and V1b, not by V1a
V2b == Vrf("v2", "65000:102", 112, {"rt1"}, {"rt1", "rt2", "rt3"})
V2c == Vrf("v2", "65000:202", 122, {"rt2"}, {"rt1"})             \* v2 re-created under another RD
(* v2 configured with the RD of v1 (nothing forbids it) and an import set overlapping v1's: the two VRFs are
   different VRFs whatever their RDs say (alphabet "twin" only; no routes are injected into twins: which VRF
   a locally originated VPN route belongs to is then undefined) *)
V2d == Vrf("v2", "65000:101", 132, {"rt1", "rt3"}, {"rt2"})
VrfPoolAll == {V1a, V1b, V2a, V2b, V2c}

(* VPN routes of N2: k1, k2 have distinct RD and prefix; k3 has the RD of k2 and the IP prefix of
   k1 (the same destination reached through another PE) *)
Slot(k) == CASE k = "k1" -> [rd |-> "65002:1", x |-> "x1", label |-> 201]
             [] k = "k2" -> [rd |-> "65002:2", x |-> "x2", label |-> 202]
             [] k = "k3" -> [rd |-> "65002:2", x |-> "x1", label |-> 203]
             [] k = "k4" -> [rd |-> "65000:102", x |-> "x5", label |-> 204]   \* the VPN NLRI VRF v2 (V2a/V2b) originates
Slots == {"k1", "k2", "k3", "k4"}
VRoute(k, rts, v) == [src |-> "N2", rd |-> Slot(k).rd, x |-> Slot(k).x, label |-> Slot(k).label, rts |-> rts, v |-> v, lp |-> 0]
(* the iBGP PE N3 announces the same VPN NLRI as k4 / VRF v2's injected route, with a LOCAL_PREF
   above (200) or below (50) the default 100 of the locally originated and the eBGP route *)
PRoute(rts, v, lp) == [src |-> "N3", rd |-> "65000:102", x |-> "x5", label |-> 305, rts |-> rts, v |-> v, lp |-> lp]

RtSetsAll == (SUBSET RTs) \cup {S \cup {"nt1"} : S \in SUBSET RTs}

CeX == "x3"
LocX(n) == IF n = "v1" THEN "x4" ELSE "x5"

Mem(as, rt, id) == [as |-> IF rt = "def" THEN 0 ELSE as, rt |-> rt, id |-> id]
=============================================================================
