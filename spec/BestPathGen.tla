---------------------------- MODULE BestPathGen ----------------------------
(* Behaviour generator for C03: random histories of Add / Withdraw over the full route domain.
   `pin` (chosen in Init) pins the first criteria of the decision process to one value so that
   ties down to every step of the process are frequent.  One JSON object per behaviour is
   printed when MaxSteps steps have been taken (run with -simulate, -depth MaxSteps+1). *)
EXTENDS BestPath, BestPathDom, Json

CONSTANTS MaxSteps

VARIABLES pin, hist
gvars == <<list, tainted, pin, hist>>

Pins == 0..8

(* one random route of source s; attributes are drawn independently (RandomElement) so that a
   simulation step has |Sources| successors instead of |domain| *)
GenRoute(s, k) ==
  Route(s,
        RandomElement(IF k > 0 THEN {FALSE} ELSE BOOLEAN),
        RandomElement(IF k > 1 THEN {FALSE} ELSE BOOLEAN),
        RandomElement(IF k > 2 THEN {-1, 100} ELSE {-1, 50, 100, 200}),
        (* with ignore-as-path-length the length is no criterion: paths of every length (also the empty
           and the confederation-only one) must meet at the later steps, whatever the pin *)
        RandomElement(IF Opt.ignlen /\ k > 3 THEN {Shape(n, 65001) : n \in {1, 5, 7, 8}} \cup {Shape(1, 65002)}
                      ELSE IF k > 6 THEN {Shape(1, 65001), Shape(1, 65002)}
                      ELSE IF k > 5 THEN {Shape(1, 65001), Shape(4, 65001)}
                      ELSE IF k > 3 THEN {Shape(n, f) : n \in {1, 4, 6}, f \in FirstASes}
                      ELSE AllShapes),
        RandomElement(IF k > 4 THEN {1} ELSE {0, 1, 2}),
        RandomElement(IF k > 6 THEN {5, 10} ELSE IF k > 5 THEN {-1, 0} ELSE {-1, 0, 5, 10}),
        RandomElement(1..3))

GenInit == Init /\ pin \in Pins /\ hist = <<>>

GenAdd == \E s \in Sources : LET r == GenRoute(s, pin) IN
            /\ Add(r)
            /\ hist' = Append(hist, [ev |-> "Add", r |-> r])
(* re-advertisement: a present route comes again, identical except for its age (a refresh, a
   next-hop-only change of an MP family, ...) - the list position must follow the new age *)
GenReadv == \E i \in 1..Len(list) : LET r == [list[i] EXCEPT !.ts = RandomElement(1..3)] IN
            /\ Add(r)
            /\ hist' = Append(hist, [ev |-> "Add", r |-> r])
GenReadvHead == list # <<>> /\ LET r == [list[1] EXCEPT !.ts = RandomElement(1..3)] IN
            /\ Add(r)
            /\ hist' = Append(hist, [ev |-> "Add", r |-> r])
GenWithdraw == \E s \in Sources :
            /\ Withdraw(s)
            /\ hist' = Append(hist, [ev |-> "Withdraw", src |-> s])

GenNext == /\ Len(hist) < MaxSteps
           /\ (GenAdd \/ GenWithdraw \/ GenReadv \/ GenReadvHead \/ GenReadvHead)
           /\ UNCHANGED pin

GenSpec == GenInit /\ [][GenNext]_gvars

Emit == Len(hist) = MaxSteps =>
          PrintT("VPOUT " \o ToJson([opt |-> Opt, src |-> SrcTable, pin |-> pin, steps |-> hist]))
=============================================================================
