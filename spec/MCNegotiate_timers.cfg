SPECIFICATION Spec
CONSTANTS
  Pool = "timers"
  Small = FALSE
CHECK_DEADLOCK FALSE
INVARIANTS
  D_WellFormed
  D_Outcome
  D_Hold
  D_Keepalive
  D_Families
  D_AddPath
  D_FourOctet
  D_ExtMsg
  D_PeerType
  D_OpenSent
  D_Sane
