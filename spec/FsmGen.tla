------------------------------ MODULE FsmGen ------------------------------
(* Behaviour generator for C07: random walks of the environment over Fsm.tla (TLC -simulate).
   One step = one environment event that can be carried out in the current mechanism state, drawn
   by category (handshake progress / Tick / any message / administrative operation) so that walks
   reach Established and beyond often.  One JSON object per walk is printed after MaxSteps steps:
     cfg   - the configuration of the speaker and the neighbour,
     steps - the schedule (events with arguments),
     keys  - the abstract transitions taken (pre-state, event, post-state), used by checks/c07.py to
             select a transition-cover suite,
     dev   - the named deviations of the mechanism model the walk runs into (used only to route the
             walk to the validation batch that exercises the known-findings configuration). *)
EXTENDS Fsm, Json

VARIABLES hist, keys, devs
gvars == <<m, hh, last, steps, hist, keys, devs>>

Cat(s, e) ==
  CASE e.ev = "InConnect" -> IF s.st = "Active" /\ s.admin = "Up" /\ ~s.ci.live /\ ~s.deleted THEN "prog" ELSE "msg"
    [] e.ev = "OutConnect" -> "prog"
    [] e.ev = "Open" /\ e.kind = "ok" -> "prog"
    [] e.ev = "Keepalive" -> "prog"
    [] e.ev = "Update" /\ e.n = 1 -> IF s.st = "Established" /\ CId(e) = s.cur THEN "prog" ELSE "msg"
    [] e.ev = "Enable" -> IF s.admin # "Up" THEN "prog" ELSE "admin"
    [] e.ev = "Tick" -> IF e.d \in {1, 2, 3, 5} THEN "tick"
                        ELSE IF s.st = "Established" /\ e.d = 240 THEN "never" ELSE "longtick"
    [] e.ev \in AdminEvents -> "admin"
    [] OTHER -> "msg"

Wheel == <<"prog", "prog", "prog", "prog", "prog", "tick", "tick", "tick", "longtick", "msg", "msg", "admin">>

(* once established: mostly time passing, interleaved with the messages that restart the hold timer *)
WheelEst == <<"prog", "prog", "prog", "tick", "tick", "tick", "tick", "longtick", "longtick", "msg", "admin">>

Pick(s) ==
  LET en == Enabled(s)
      w == IF s.st = "Established" THEN WheelEst ELSE Wheel
      cat == CHOOSE c \in {w[i] : i \in {RandomElement(1..Len(w))}} : TRUE
      S == {e \in en : Cat(s, e) = cat}
  IN IF S = {} THEN RandomElement(en) ELSE RandomElement(S)

Pairs(o) == UNION {NotifPairs(o[c].msgs) : c \in ConnIds}
Key(s, e, s2) == <<s.st, s.admin, s.cur, s.ocm, s.parkedConn, s.stuck, s.parkedNotif # <<>>,
                   IF s.st = "Established" THEN s.holdBy ELSE "", IF s.st = "Established" THEN s.now > s.estHold - s.neg ELSE FALSE,
                   e.ev, e.c, e.kind, e.n, s2.st, s2.admin, s2.deleted, Len(s2.o.wev), Pairs(s2.o)>>

DevOf(h, e, o, h2) ==
     (IF StepClass(h, e, o) \notin {"General", "NA"} /\ ~NotifOK(h, e, o) THEN {StepClass(h, e, o)} ELSE {})
  \cup (IF ~P_Timer_OpenConfirm(h, e, o, LargeHold) THEN {"TimerOC"} ELSE {})
  \cup (IF h2.susp THEN {"Susp"} ELSE {})
  \cup (IF ~P_ReportedMatchesReal(h, e, o, h2) THEN {"Reported"} ELSE {})
  \cup (IF ~P_EstablishedOnlyAfterOpenKeepalive(h, e, o, h2) THEN {"Tainted"} ELSE {})

GenInit == Init /\ hist = <<>> /\ keys = {} /\ devs = {}

GenNext == /\ steps < MaxSteps
           \* \E over a singleton: RandomElement must be evaluated exactly once per step
           /\ \E e \in {Pick(m)} :
                \E m2 \in {MStep(m, e)} :
                 /\ Step(e)
                 /\ hist' = Append(hist, e)
                 /\ keys' = keys \cup {Key(m, e, m2)}
                 /\ devs' = devs \cup DevOf(hh, e, m2.o, HNext(hh, e, m2.o))

GenSpec == GenInit /\ [][GenNext]_gvars

EmitWalk == steps = MaxSteps =>
          PrintT("VPOUT " \o ToJson([cfg |-> m.cfg, steps |-> hist, keys |-> keys, dev |-> devs]))
=============================================================================
