---------------------------- MODULE GrLlgrScen ----------------------------
(* Exhaustive scenario enumeration for C12: TLC enumerates the INITIAL states of this module, one per
   parameter combination, and prints one schedule for each:

     local configuration  x  capabilities of R's first OPEN  x  loss kind  x  continuation

   where the continuation is one of
     expire     ticks to 1 s before / exactly at / 1 s after the restart deadline and each long-lived deadline
     reup       R comes back (early / 1 s before the restart deadline / after it, i.e. inside the long-lived
                period) with capabilities (same / none / only v4), re-announces a subset of its routes
                (none / x1 / x1+y1 / all), sends End-of-RIB in an order (v4 v6 / v6 v4 / v4 only / none), then
                time runs past the long-lived deadlines
     second     R comes back, re-announces x1, and is lost a second time (before / after one End-of-RIB) by a
                transport failure or a hard reset; then the deadlines of the new restart are visited
     failconn   a connection attempt that fails (TCP only / after OPEN), then the restart deadline is visited
   R announces x1 (plain), x2 (NO_LLGR), y1 (plain), y2 (plain, MED); S announces competing x1 and y1.
   The harness leaves out steps that do not apply (e.g. a tick to a deadline that does not exist).        *)
EXTENDS GrLlgrDom, Json, TLC

VARIABLE sc

Warm(c) == <<SUp("O1"), SUp("O2"), SUp("S"), SUpR(c),
             SAnn("R", "x1", 0), SAnn("R", "x2", 1), SAnn("R", "y1", 0), SAnn("R", "y2", 2),
             SAnn("S", "x1", 0), SAnn("S", "y1", 0), STick(5)>>

Around(to) == <<STickTo(to, -1), STickTo(to, 0), STickTo(to, 1)>>
Expire == Around("restart") \o Around("llgr4") \o Around("llgr6") \o <<STick(5)>>
After  == <<STick(5), STickTo("llgr4", -1), STickTo("llgr4", 1), STickTo("llgr6", -1), STickTo("llgr6", 1), STick(5)>>

Caps1Set == {MkCaps("none", 0, FALSE, "none", 0, FALSE), MkCaps("empty", 60, FALSE, "none", 0, FALSE),
             MkCaps("v4", 60, FALSE, "none", 0, FALSE),  MkCaps("both", 60, FALSE, "none", 0, FALSE),
             MkCaps("both", 60, TRUE, "none", 0, FALSE), MkCaps("both", 60, FALSE, "both", 0, FALSE),
             MkCaps("both", 60, TRUE, "v4", 0, FALSE),   MkCaps("v4", 60, TRUE, "both", 0, FALSE),
             MkCaps("both", 60, TRUE, "both", 0, FALSE)}
MainCaps == {MkCaps("both", 60, TRUE, "both", 0, FALSE), MkCaps("both", 60, FALSE, "none", 0, FALSE)}
MainCfg  == {MkCfg(TRUE, TRUE, TRUE), MkCfg(TRUE, FALSE, FALSE)}
Caps2(c1, v) == CASE v = "same" -> [c1 EXCEPT !.r = c1.gr]
                  [] v = "none" -> MkCaps("none", 0, FALSE, "none", 0, FALSE)
                  [] v = "v4"   -> MkCaps("v4", 30, c1.n, IF c1.llgr["v4"] > 0 THEN "v4" ELSE "none", 0, TRUE)

When(w) == CASE w = "early" -> <<STick(10)>>
             [] w = "late"  -> <<STickTo("restart", -1)>>
             [] w = "llgr"  -> <<STickTo("restart", 20)>>
Reann(a) == CASE a = "none" -> <<>>
              [] a = "x1"   -> <<SAnn("R", "x1", 0)>>
              [] a = "x1y1" -> <<SAnn("R", "x1", 2), SAnn("R", "y1", 0)>>
              [] a = "all"  -> <<SAnn("R", "x1", 0), SAnn("R", "x2", 1), SAnn("R", "y1", 0), SAnn("R", "y2", 2)>>
Eors(e) == CASE e = "46" -> <<SEor("R", "v4"), SEor("R", "v6")>>
             [] e = "64" -> <<SEor("R", "v6"), SEor("R", "v4")>>
             [] e = "4"  -> <<SEor("R", "v4")>>
             [] e = "none" -> <<>>

Cont(c1, p) ==
  CASE p.k = "expire"   -> Expire
    [] p.k = "reup"     -> When(p.w) \o <<SUpR(Caps2(c1, p.v))>> \o Reann(p.a) \o Eors(p.e) \o After
    [] p.k = "second"   -> <<STick(10), SUpR(Caps2(c1, "same")), SAnn("R", "x1", 0)>>
                           \o (IF p.st = "aftereor" THEN <<SEor("R", "v6")>> ELSE <<>>)
                           \o <<SLoss(p.k2)>> \o Expire
    [] p.k = "failconn" -> <<STick(10), SFail(p.fk), STick(5)>> \o Around("restart") \o <<STickTo("llgr4", 1)>>

(* level 2: the full product of reconnection time x new capabilities x re-announced subset x End-of-RIB order
   (for the main heads); level 1: all reconnection times x new capabilities with two End-of-RIB orders (for
   every head whose loss is graceful); level 0: one reconnection (for the losses that remove everything) *)
ContSet(level) ==
  {[k |-> "expire"]}
  \cup {[k |-> "failconn", fk |-> fk] : fk \in {"tcp", "open"}}
  \cup {[k |-> "second", st |-> st, k2 |-> k2] : st \in {"before", "aftereor"}, k2 \in {"close", "hardreset"}}
  \cup (CASE level = 2 -> {[k |-> "reup", w |-> w, v |-> v, a |-> a, e |-> e] :
                             w \in {"early", "late", "llgr"}, v \in {"same", "none", "v4"},
                             a \in {"none", "x1", "x1y1", "all"}, e \in {"46", "64", "4", "none"}}
           [] level = 1 -> {[k |-> "reup", w |-> w, v |-> v, a |-> "x1y1", e |-> e] :
                             w \in {"early", "late", "llgr"}, v \in {"same", "none", "v4"}, e \in {"46", "4"}}
           [] OTHER     -> {[k |-> "reup", w |-> "early", v |-> "same", a |-> "x1y1", e |-> "46"]})

(* a loss that removes everything needs no elaborate continuation *)
Graceful(cfg, c, kind) == cfg.gr /\ c.gr /\ (kind \in {"close", "hold", "pfxlimit"} \/ (kind = "notif" /\ cfg.notif /\ c.n))

Level(cfg, c1, kind) == IF ~Graceful(cfg, c1, kind) THEN 0
                        ELSE IF cfg \in MainCfg /\ c1 \in MainCaps /\ kind \in {"close", "notif"} THEN 2 ELSE 1
Scenarios ==
  UNION {{[cfg |-> cfg, c1 |-> c1, kind |-> kind, p |-> p] : p \in ContSet(Level(cfg, c1, kind))} :
            cfg \in CfgPool, c1 \in Caps1Set, kind \in LossKinds}
Keep(s) == TRUE

Schedule(s) ==
  LET c1 == IF s.kind = "hold" THEN [s.c1 EXCEPT !.hold = 9] ELSE s.c1 IN
    [cfg |-> s.cfg, steps |-> Warm(c1) \o <<SLoss(s.kind)>> \o Cont(c1, s.p)]

Init == sc \in {s \in Scenarios : Keep(s)}
Next == UNCHANGED sc
Emit == PrintT("VPOUT " \o ToJson(Schedule(sc)))
=============================================================================
