------------------------------ MODULE As4Gen ------------------------------
(* Schedule generator for C14: TLC enumerates SHAPE DESCRIPTORS, the Go harness
   (harness/c14/c14_test.go) concretises them with real member counts and AS numbers.
     descriptor of a segment  [t |-> type, n |-> members, w |-> which members are wide]
       w: "none" | "first" | "last" | "all"   (for n <= 2 these are all the wide/narrow patterns)
     Mode "rt"  : an AS_PATH p (valid: confederation segments lead) + an AGGREGATOR choice; the
                  harness sends it to a 2-octet peer and reconstructs from what was sent.
     Mode "pair": independent (AS_PATH a2, AS4_PATH a4) as a chain of OLD speakers could deliver
                  them: a2 valid, 2-octet ("wide" members are AS_TRANS); a4 absent, or any segment
                  list (confederation segments anywhere), shorter / equal / longer than a2, segment
                  boundaries and SET/SEQ kinds unrelated to a2's.
   The family is enumerated exhaustively by growing paths one segment per step.  A case is printed
   when its hash falls into residue class Residue mod Modulus (Modulus = 1: everything), so
   different seeds run different slices of one fixed family; NeedLong keeps only cases with a
   254/255-member segment (the rest is covered exhaustively by the small families).  Types2/Types4
   restrict the segment kinds (the "merge" family: AS_SEQUENCE only, member counts around 255, so
   that every way of gluing kept AS_PATH members to the first AS4_PATH segment at the 255 limit
   is run whatever the seed). *)
EXTENDS Integers, Sequences, FiniteSets, TLC, Json

CONSTANTS Mode, MaxSegs2, MaxSegs4, Types2, Types4, Lens2, Lens4, Pats2, Pats4, NeedLong, Modulus, Residue

VARIABLES c
vars == <<c>>

PatsFor(n, pats) == IF n = 1 THEN {IF w \in {"first", "last"} THEN "all" ELSE w : w \in pats} ELSE pats
Descs(types, lens, pats) == UNION {{[t |-> t, n |-> n, w |-> w] : t \in types, w \in PatsFor(n, pats)} : n \in lens}

IsConfedD(d) == d.t \in {"CSEQ", "CSET"}
ValidD(p)    == \A i, j \in 1..Len(p) : (i < j /\ IsConfedD(p[j])) => IsConfedD(p[i])
Long(p)      == \E i \in 1..Len(p) : p[i].n >= 254

TI(t) == CASE t = "SEQ" -> 0 [] t = "SET" -> 1 [] t = "CSEQ" -> 2 [] OTHER -> 3
WI(w) == CASE w = "none" -> 0 [] w = "first" -> 1 [] w = "last" -> 2 [] OTHER -> 3
Code(d) == 1 + TI(d.t) + 4 * (d.n % 5) + 20 * WI(d.w)
RECURSIVE Hash(_, _)
Hash(p, h) == IF p = <<>> THEN h ELSE Hash(Tail(p), (h * 131 + Code(Head(p))) % 1000003)

(* Mode "grp": k = 2..3 UPDATE messages cut from ONE attribute group share one attribute list
   (packerV4.pack hands the same slice to every message); the path shapes are crossed with every
   AGGREGATOR choice.  via "slice": messages built on one shared slice; via "packer": the messages
   come out of table.CreateUpdateMsgFromPaths for more NLRIs than one UPDATE holds. *)
Aggs == {"none", "narrow", "wide", "w65536", "whigh"}
AggI(a) == CASE a = "none" -> 0 [] a = "narrow" -> 1 [] a = "wide" -> 2 [] a = "w65536" -> 3 [] OTHER -> 4

Init == IF Mode = "rt" THEN c = [kind |-> "rt", p |-> <<>>]
        ELSE IF Mode = "grp" THEN c \in {[kind |-> "grp", p |-> <<>>, agg |-> a, k |-> k] : a \in Aggs, k \in {2, 3}}
        ELSE c = [kind |-> "pair", a2 |-> <<>>, has4 |-> FALSE, a4 |-> <<>>]

GrowRt == /\ c.kind \in {"rt", "grp"} /\ Len(c.p) < MaxSegs2
          /\ \E d \in Descs(Types2, Lens2, Pats2) :
               /\ ValidD(Append(c.p, d))
               /\ c' = [c EXCEPT !.p = Append(c.p, d)]
GrowA2 == /\ c.kind = "pair" /\ ~c.has4 /\ Len(c.a2) < MaxSegs2
          /\ \E d \in Descs(Types2, Lens2, Pats2) :
               /\ ValidD(Append(c.a2, d))
               /\ c' = [c EXCEPT !.a2 = Append(c.a2, d)]
StartA4 == c.kind = "pair" /\ ~c.has4 /\ c' = [c EXCEPT !.has4 = TRUE]
GrowA4 == /\ c.kind = "pair" /\ c.has4 /\ Len(c.a4) < MaxSegs4
          /\ \E d \in Descs(Types4, Lens4, Pats4) : c' = [c EXCEPT !.a4 = Append(c.a4, d)]

Next == GrowRt \/ GrowA2 \/ StartA4 \/ GrowA4
Spec == Init /\ [][Next]_vars

H == IF c.kind = "rt" THEN Hash(c.p, 7)
     ELSE IF c.kind = "grp" THEN Hash(c.p, 17 + 5 * AggI(c.agg) + c.k)
     ELSE Hash(c.a4, Hash(c.a2, IF c.has4 THEN 11 ELSE 13))

Selected == /\ H % Modulus = Residue
            /\ NeedLong => (IF c.kind \in {"rt", "grp"} THEN Long(c.p) ELSE Long(c.a2) \/ Long(c.a4))

RtAgg == LET k == H % 5 IN
         CASE k = 0 -> "none" [] k = 1 -> "narrow" [] k = 2 -> "wide" [] k = 3 -> "w65536" [] OTHER -> "whigh"
PairG == LET k == (H \div 7) % 8 IN
         CASE k = 4 -> <<"trans", "wide">> [] k = 5 -> <<"narrow", "wide">>
           [] k = 6 -> <<"narrow", "none">> [] k = 7 -> <<"trans", "none">> [] OTHER -> <<"none", "none">>

Schedule == IF c.kind = "rt" THEN [kind |-> "rt", p |-> c.p, agg |-> RtAgg]
            ELSE IF c.kind = "grp" THEN [kind |-> "grp", p |-> c.p, agg |-> c.agg, k |-> c.k,
                                         via |-> IF (H \div 3) % 8 = 0 THEN "packer" ELSE "slice"]
            ELSE [kind |-> "pair", a2 |-> c.a2, has4 |-> c.has4, a4 |-> c.a4,
                  g2 |-> PairG[1], g4 |-> PairG[2]]

Emit == Selected => PrintT("VPOUT " \o ToJson(Schedule))
=============================================================================
