------------------------------- MODULE FsmRfc -------------------------------
(* C07 PROPERTY LAYER: what RFC 4271 (sections 4.2, 4.4, 6, 6.8, 8, 10), RFC 6608 (FSM error subcodes),
   RFC 4486 / 8203 / 9003 (Cease subcodes, shutdown communication), RFC 6286 (collision by
   identifier then AS) and RFC 8538 (Hard Reset only with the N bit) demand of ONE peering
   session, written over
     h  - a history record computed from the INPUTS (events sent to the speaker) and from which
          connections the speaker has closed (nothing of the mechanism model), and
     e  - the event of the step,  o - the observation made after the step
          (messages sent by the speaker per connection with virtual timestamps, closed or not,
           ListPeer session/admin state, WatchEvent(peer) stream, RIB digest).
   Each connection has its own RFC state `cs` (RFC 4271 section 8: one FSM per connection).  Every
   predicate P(h, e, o) is used twice: on the outputs of the mechanism model (Fsm.tla, design
   level) and on the outputs recorded from the real code (trace/FsmTrace.tla, the verdict). *)
EXTENDS Integers, Sequences, FiniteSets, TLC

CONSTANT LargeHold        \* RFC 4271 8.2.2 "a HoldTimer value of 4 minutes is suggested": 240

Min(a, b) == IF a < b THEN a ELSE b
Max(a, b) == IF a > b THEN a ELSE b

CI == "ci"
CO == "co"
ConnIds == {CI, CO}
Other(c) == IF c = CI THEN CO ELSE CI
CId(e) == IF e.c = "out" THEN CO ELSE CI

MsgEvents == {"Open", "Keepalive", "Update", "Refresh", "Notif", "Garbage", "Close"}
AdminEvents == {"Enable", "Disable", "Shutdown", "ResetPeer", "Delete"}

(* RFC 4271 4.2: the Hold Timer is the smaller of the configured and the received Hold Time
   (zero: no timers); 4.4 / 10: KEEPALIVE interval one third of the Hold Time.  The harness
   configures keepalive-interval = hold-time / 3, so both readings coincide. *)
NegHold(cfgHold, rcvd) == Min(cfgHold, rcvd)
KaInt(neg) == neg \div 3

(* RFC 4271 6.8 + RFC 6286 2.3: the connection initiated by the speaker with the higher BGP
   Identifier survives; identical identifiers: the one initiated by the larger AS.
   peer kinds: lo (remote id lower), hi (higher), eqlo (same id, remote AS lower), eqhi. *)
Survivor(peer) == IF peer \in {"lo", "eqlo"} THEN CO ELSE CI

(* RFC 8203 / 9003: Data = one length octet + UTF-8 communication (fixed vocabulary of the harness).
   Sending the communication is a MAY: an empty Data field is accepted, any other content is not. *)
CommHex(comm) == CASE comm = "" -> ""
                   [] comm = "hi" -> "026869"
                   [] comm = "bye" -> "03627965"
                   [] OTHER -> "??"

NoConn == [live |-> FALSE, cs |-> "None", osT |-> 0, ocT |-> 0, neg |-> 0, lastRx |-> 0, estT |-> 0,
           due |-> {}, taint |-> FALSE]

(* ---------------------------------------------------------------------------------------- *)
(* observation helpers *)
Idx(ms, ty) == {i \in 1..Len(ms) : ms[i].ty = ty}
Count(ms, ty) == Cardinality(Idx(ms, ty))
NotifPairs(ms) == {<<ms[i].code, ms[i].sub>> : i \in Idx(ms, "NOTIFICATION")}
IsKa(m) == m.ty = "KEEPALIVE"
KaTimes(ms) == LET ks == SelectSeq(ms, IsKa) IN [i \in 1..Len(ks) |-> ks[i].t]
(* UPDATEs the speaker sends once established (End-of-RIB, routes) are not the subject of C07 *)
NotUpd(m) == m.ty # "UPDATE"
Ctl(ms) == SelectSeq(ms, NotUpd)
AllAt(ms, t) == \A i \in 1..Len(ms) : ms[i].t = t /\ ms[i].ms = 0
Quiet(oc) == Len(Ctl(oc.msgs)) = 0

Top(h) == IF \E c \in ConnIds : h[c].live /\ h[c].cs = "Established" THEN "Established"
          ELSE IF \E c \in ConnIds : h[c].live /\ h[c].cs = "OpenConfirm" THEN "OpenConfirm"
          ELSE IF \E c \in ConnIds : h[c].live /\ h[c].cs = "OpenSent" THEN "OpenSent"
          ELSE "None"
LiveConns(h) == {c \in ConnIds : h[c].live}
EstConns(h) == {c \in ConnIds : h[c].live /\ h[c].cs = "Established"}

(* ---------------------------------------------------------------------------------------- *)
(* what ONE message event on a live connection in RFC state cs must be answered with:
   cls   - the clause family (General, or a family that has its own named invariant)
   allow - the NOTIFICATION code/subcode pairs the RFCs prescribe, req - one is required,
   close - the speaker must close the connection, ka - one KEEPALIVE is due in answer *)
Rx(cls, allow, req, close, ka) == [cls |-> cls, allow |-> allow, req |-> req, close |-> close, ka |-> ka]
Nothing == Rx("General", {}, FALSE, FALSE, 0)
Err(cls, allow) == Rx(cls, allow, TRUE, TRUE, 0)

OpenErr(kind) ==            \* RFC 4271 6.2 (OPEN message error handling), 6.1 for the length
  CASE kind = "badver" -> {<<2, 1>>}
    [] kind = "badas" -> {<<2, 2>>}
    [] kind = "badid" -> {<<2, 3>>}
    [] kind \in {"hold1", "hold2"} -> {<<2, 6>>}
    [] kind = "unsupopt" -> {<<2, 4>>}
    \* recognised but malformed optional parameter: 6.2 says Unspecific (0); a malformed capability
    \* is reported by some implementations as 2/4 or 2/7 - any OPEN Message Error is accepted
    [] kind = "malopt" -> {<<2, 0>>, <<2, 4>>, <<2, 7>>}
    [] kind = "short" -> {<<1, 2>>}
    [] OTHER -> {}

GarbageErr(kind) ==         \* RFC 4271 6.1 (message header error handling)
  CASE kind = "marker" -> {<<1, 1>>}
    [] kind \in {"lenshort", "lenlong", "kalen"} -> {<<1, 2>>}
    [] kind = "type" -> {<<1, 3>>}
    [] OTHER -> {}

CeaseOr9(h, cs, sub) ==     \* RFC 8538: Hard Reset (6/9) only after the N bit was exchanged
  IF h.cfg.nbit /\ cs = "Established" THEN {<<6, sub>>, <<6, 9>>} ELSE {<<6, sub>>}

React(h, e) ==
  LET c == CId(e)
      cs == h[c].cs
      d == Other(c)
  IN
  CASE e.ev = "Open" ->
         IF cs = "OpenSent" THEN
           IF e.kind = "ok" THEN
             IF h[d].live /\ h[d].cs \in {"OpenConfirm", "Established"}
             THEN Rx("Collision", {}, FALSE, FALSE, 0)
             \* 8.2.2 OpenSent, Event 19: sends KEEPALIVE.  Own name for the case that the session FSM is
             \* reported Idle while the connection manager's outgoing connection receives the OPEN.
             ELSE Rx(IF h.st = "Idle" THEN "IdleOpen" ELSE "General", {}, FALSE, FALSE, 1)
           ELSE IF e.kind = "unsupopt" THEN Err("UnsupOpt", OpenErr(e.kind))
           ELSE Err("General", OpenErr(e.kind))
         ELSE IF cs = "OpenConfirm" THEN Err("OCUnexpected", {<<5, 2>>})   \* RFC 6608
         ELSE Err("EstOpen", {<<5, 3>>})                                   \* RFC 6608
    [] e.ev = "Keepalive" ->
         IF cs = "OpenSent" THEN Err("General", {<<5, 1>>}) ELSE Nothing
    [] e.ev = "Update" ->
         IF cs = "OpenSent" THEN Err("General", {<<5, 1>>})
         ELSE IF cs = "OpenConfirm" THEN Err("OCUnexpected", {<<5, 2>>})
         ELSE IF h.cfg.maxpfx > 0 /\ e.n > h.cfg.maxpfx
              THEN Err("General", CeaseOr9(h, cs, 1))        \* RFC 4271 6.7 / RFC 4486: Cease, max prefixes
              ELSE Nothing
    [] e.ev = "Refresh" ->
         IF cs = "OpenSent" THEN Err("General", {<<5, 1>>})
         ELSE IF cs = "OpenConfirm" THEN Err("OCUnexpected", {<<5, 2>>})
         ELSE Nothing
    [] e.ev = "Notif" ->     \* 8.2.2: OpenSent Event 24 (version error) silent, Event 25 FSM error;
                             \* OpenConfirm / Established: drop the connection, nothing sent
         IF cs = "OpenSent" /\ ~(e.code = 2 /\ e.sub = 1) THEN Err("General", {<<5, 1>>})
         ELSE Rx("General", {}, FALSE, TRUE, 0)
    [] e.ev = "Garbage" ->
         IF e.kind = "kalen" THEN Err("KaLen", GarbageErr(e.kind)) ELSE Err("General", GarbageErr(e.kind))
    [] OTHER -> Nothing

(* does the observation of connection oc match a reaction r at instant now ? *)
ConnOK(oc, r, now, datas) ==
  /\ Count(oc.msgs, "NOTIFICATION") = (IF r.req THEN 1 ELSE 0)
  /\ NotifPairs(oc.msgs) \subseteq r.allow
  /\ Count(oc.msgs, "KEEPALIVE") = r.ka
  /\ Len(Ctl(oc.msgs)) = (IF r.req THEN 1 ELSE 0) + r.ka
  /\ AllAt(oc.msgs, now)
  /\ oc.closed = r.close
  /\ \A i \in Idx(oc.msgs, "NOTIFICATION") :
       (oc.msgs[i].code = 6 /\ oc.msgs[i].sub \in {2, 4}) => oc.msgs[i].data \in datas

Untouched(h, o, c) == Quiet(o[c]) /\ (h[c].live => ~o[c].closed)

(* RFC 4271 6.8: "MAY also examine connections in an OpenSent state if it knows the BGP Identifier
   of the peer": a valid OPEN on c while the other connection d is still in OpenSent may be answered
   by resolving the collision at once (the connection not initiated by the higher identifier is closed
   with a Cease; if c survives it gets its KEEPALIVE) *)
EarlyResolution(h, e, o) ==
  LET c == CId(e)
      d == Other(c)
      keep == Survivor(h.cfg.peer)
      lose == Other(keep)
      cease == [cls |-> "General", allow |-> {<<6, 7>>, <<6, 0>>}, req |-> TRUE, close |-> TRUE, ka |-> 0]
  IN /\ e.ev = "Open" /\ e.kind = "ok" /\ h[c].cs = "OpenSent" /\ h[d].live /\ h[d].cs = "OpenSent"
     /\ ConnOK(o[lose], cease, h.now, {""})
     /\ ConnOK(o[keep], Rx("General", {}, FALSE, FALSE, IF keep = c THEN 1 ELSE 0), h.now, {""})

MsgStepOK(h, e, o) ==
  LET c == CId(e) IN
  \/ /\ ConnOK(o[c], React(h, e), h.now, {""})
     /\ Untouched(h, o, Other(c))
  \/ EarlyResolution(h, e, o)

(* a NOTIFICATION in a step in which the RFCs prescribe none (e.g. a Cease left over from an
   administrative operation issued while the session was not established) *)
Spurious(h, e, o) ==
  /\ e.ev \in MsgEvents \ {"Close"}
  /\ h[CId(e)].live
  /\ ~React(h, e).req
  /\ React(h, e).cls = "General"
  /\ Count(o[CId(e)].msgs, "NOTIFICATION") > 0

MsgJudged(h, e) == e.ev \in MsgEvents \ {"Close"} /\ h[CId(e)].live
ClassOf(h, e, o) == IF ~MsgJudged(h, e) THEN "NA"
                    ELSE IF Spurious(h, e, o) THEN "Spurious" ELSE React(h, e).cls

(* ---------------------------------------------------------------------------------------- *)
(* administrative events.  RFC 4271 8.2.2 ManualStop (Event 2) in OpenSent, OpenConfirm and
   Established: "sends the NOTIFICATION with a Cease ... drops the TCP connection ... Idle";
   RFC 4486 subcodes: 2 Administrative Shutdown, 3 Peer De-configured, 4 Administrative Reset. *)
Early(h) == {c \in ConnIds : h[c].live /\ h[c].cs \in {"OpenSent", "OpenConfirm"}}

StopOK(h, o, sub, data) ==      \* every connection past Active gets the Cease and is closed
  \A c \in ConnIds :
    IF h[c].live /\ h[c].cs # "None"
    THEN ConnOK(o[c], Err("General", CeaseOr9(h, h[c].cs, sub)), h.now, {data, ""})
    ELSE Quiet(o[c])

(* ShutdownPeer / ResetPeer are one-shot session operations: an established session must be
   ended with Cease 2 / 4 (+ communication); for a session that is not established the RFCs
   prescribe nothing beyond ManualStop, so "nothing happens" and "Cease + close" are both accepted *)
OneShotOK(h, o, sub, data) ==
  \A c \in ConnIds :
    IF h[c].live /\ h[c].cs = "Established"
    THEN ConnOK(o[c], Err("General", CeaseOr9(h, h[c].cs, sub)), h.now, {data, ""})
    ELSE IF h[c].live /\ h[c].cs # "None"
    THEN \/ Untouched(h, o, c)
         \/ ConnOK(o[c], Err("General", {<<6, sub>>}), h.now, {data, ""})
    ELSE Quiet(o[c])

AdminStepOK(h, e, o) ==
  CASE e.ev = "Disable" -> StopOK(h, o, 2, CommHex(e.comm))
    [] e.ev = "Delete" -> StopOK(h, o, 3, "")
    [] e.ev = "Shutdown" -> OneShotOK(h, o, 2, CommHex(e.comm))
    [] e.ev = "ResetPeer" -> OneShotOK(h, o, 4, CommHex(e.comm))
    [] OTHER -> \A c \in ConnIds : Untouched(h, o, c)          \* Enable

AdminClass(h, e) == IF e.ev \in {"Disable", "Delete"} /\ Early(h) # {} THEN "ManualStopEarly" ELSE "General"

(* ---------------------------------------------------------------------------------------- *)
(* timers (Tick steps).  For a live connection c the hold timer expires at
     OpenSent:    osT + LargeHold           (8.2.2 "sets the HoldTimer to a large value")
     OpenConfirm: ocT + neg   (neg > 0)     (8.2.2 "sets a HoldTimer according to the negotiated value")
     Established: lastRx + neg (neg > 0)    (restarted by every KEEPALIVE / UPDATE received)
   and then NOTIFICATION 4/0 is sent at exactly that instant and the connection is closed (6.5).
   KEEPALIVEs are due every KaInt(neg) seconds (none if neg = 0, RFC 4271 4.4); the next due
   instant is one of h[c].due: the RFC keeps the KeepaliveTimer running across the
   OpenConfirm -> Established transition, restarting it there is accepted too. *)
HoldDeadline(hc, large) ==
  CASE hc.cs = "OpenSent" -> hc.osT + large
    [] hc.cs = "OpenConfirm" -> IF hc.neg > 0 THEN hc.ocT + hc.neg ELSE -1
    [] hc.cs = "Established" -> IF hc.neg > 0 THEN hc.lastRx + hc.neg ELSE -1
    [] OTHER -> -1

Sched(first, k, upto) == IF k = 0 \/ first > upto THEN <<>>
                         ELSE [i \in 1..((upto - first) \div k + 1) |-> first + (i - 1) * k]

(* observed KEEPALIVE instants kt match the schedule starting at `first` up to `upto`; a KEEPALIVE
   due exactly at the expiry instant may or may not precede the NOTIFICATION *)
KaMatch(kt, first, k, upto, expiring) ==
  \/ kt = Sched(first, k, upto)
  \/ expiring /\ kt = Sched(first, k, upto - 1)

TimerConnOK(hc, oc, to, k, cands, dl) ==
  LET exp == dl >= 0 /\ dl <= to
      upto == IF exp THEN dl ELSE to
      kt == KaTimes(oc.msgs)
      ms == Ctl(oc.msgs)
      kaOn == hc.cs \in {"OpenConfirm", "Established"} /\ k > 0
  IN
  /\ oc.closed = exp
  /\ Count(ms, "NOTIFICATION") = (IF exp THEN 1 ELSE 0)
  /\ NotifPairs(ms) \subseteq {<<4, 0>>}
  \* (the KEEPALIVE due at the expiry instant is written by another goroutine: it may come before the
  \*  NOTIFICATION, between it and the close, or not at all - see KaMatch)
  /\ \A i \in Idx(ms, "NOTIFICATION") : ms[i].t = dl /\ ms[i].ms = 0
  /\ \A i \in Idx(ms, "NOTIFICATION") : \A j \in (i + 1)..Len(ms) : ms[j].ty = "KEEPALIVE" /\ ms[j].t = dl
  /\ Len(ms) = Len(kt) + (IF exp THEN 1 ELSE 0)
  /\ \A i \in 1..Len(ms) : ms[i].ms = 0
  /\ IF kaOn THEN \E f \in cands : KaMatch(kt, f, k, upto, exp) ELSE kt = <<>>

TimerStepConn(h, o, c, large) ==
  IF h[c].live /\ h[c].cs # "None"
  THEN LET k == KaInt(h[c].neg) IN
       TimerConnOK(h[c], o[c], o.t, k, IF h[c].due = {} THEN {h.now + k} ELSE h[c].due, HoldDeadline(h[c], large))
  ELSE Quiet(o[c])

(* ---------------------------------------------------------------------------------------- *)
(* history: per-connection RFC state after the step.  The state follows the INPUTS only. *)
Apparent(hc, e, now, cfgHold) ==
  CASE e.ev = "Open" /\ hc.cs = "OpenSent" /\ e.kind = "ok" ->
         LET n == NegHold(cfgHold, e.hold) IN
         [hc EXCEPT !.cs = "OpenConfirm", !.ocT = now, !.neg = n,
                    !.due = IF KaInt(n) > 0 THEN {now + KaInt(n)} ELSE {},
                    !.taint = hc.taint]
    [] e.ev = "Keepalive" /\ hc.cs = "OpenConfirm" ->
         [hc EXCEPT !.cs = "Established", !.estT = now, !.lastRx = now,
                    !.due = IF KaInt(hc.neg) > 0 THEN hc.due \cup {now + KaInt(hc.neg)} ELSE {},
                    !.taint = hc.taint]
    [] e.ev \in {"Keepalive", "Update"} /\ hc.cs = "Established" -> [hc EXCEPT !.lastRx = now]
    [] OTHER -> hc

SentOpen(oc) == Count(oc.msgs, "OPEN") > 0

DueAfterTick(hc, oc, from, to) ==
  LET k == KaInt(hc.neg)
      kt == KaTimes(oc.msgs)
      cands == IF hc.due = {} THEN {from + k} ELSE hc.due
      ok == {f \in cands : kt = Sched(f, k, to)}
  IN IF k = 0 \/ hc.cs \notin {"OpenConfirm", "Established"} THEN hc.due
     ELSE IF ok = {} THEN {} ELSE {f + Len(kt) * k : f \in ok}

ConnNext(h, e, o, c) ==
  LET hc == h[c]
      oc == o[c]
      mine == e.ev \in MsgEvents /\ CId(e) = c
  IN
  IF e.ev = "InConnect" /\ c = CI /\ ~hc.live THEN
       IF oc.known /\ ~oc.closed /\ SentOpen(oc)
       THEN [NoConn EXCEPT !.live = TRUE, !.cs = "OpenSent", !.osT = o.t] ELSE NoConn
  ELSE IF e.ev = "OutConnect" /\ c = CO THEN
       IF oc.known /\ ~oc.closed /\ SentOpen(oc)
       THEN [NoConn EXCEPT !.live = TRUE, !.cs = "OpenSent", !.osT = o.t] ELSE NoConn
  ELSE IF ~hc.live THEN hc
  ELSE IF oc.closed \/ (mine /\ e.ev = "Close") THEN NoConn
  ELSE IF e.ev = "Tick" THEN [hc EXCEPT !.due = DueAfterTick(hc, oc, h.now, o.t)]
  ELSE IF mine THEN Apparent(hc, e, h.now, h.cfg.hold)
  ELSE hc

ExpAdmin(h, e) ==
  CASE e.ev = "Disable" -> "Down"
    [] e.ev = "Enable" -> "Up"
    [] e.ev = "Delete" -> "None"
    [] e.ev = "Update" /\ h[CId(e)].live /\ h[CId(e)].cs = "Established"
         /\ h.cfg.maxpfx > 0 /\ e.n > h.cfg.maxpfx -> "PfxCt"
    [] OTHER -> h.admin

(* two live connections both past OpenSent, or the speaker visibly using the outgoing
   connection (KEEPALIVE sent on it) while still reporting OpenSent on the incoming one *)
TwoHigh(h) == \A c \in ConnIds : h[c].live /\ h[c].cs \in {"OpenConfirm", "Established"}
ParkedShape(h, st) == st = "Idle" /\ h[CO].live /\ h[CO].cs = "OpenConfirm"
StuckShape(h, st) == /\ st = "OpenSent" /\ h[CI].live /\ h[CI].cs = "OpenSent"
                     /\ h[CO].live /\ h[CO].cs = "OpenConfirm"

HNext(h, e, o) ==
  LET ci2 == ConnNext(h, e, o, CI)
      co2 == ConnNext(h, e, o, CO)
      h1 == [h EXCEPT !.ci = ci2, !.co = co2]
      estNow == {c \in ConnIds : h1[c].live /\ h1[c].cs = "Established" /\ h[c].cs # "Established"}
      susp2 == (h.susp /\ LiveConns(h1) # {}) \/ TwoHigh(h1) \/ StuckShape(h1, o.st) \/ ParkedShape(h1, o.st)
      oneshot == e.ev \in {"Shutdown", "ResetPeer"} /\ EstConns(h) = {}
      stale == \E c \in ConnIds : \E p \in NotifPairs(o[c].msgs) : p \in {<<6, 2>>, <<6, 4>>}
  IN [h1 EXCEPT
        !.now = o.t,
        !.st = o.st,
        !.admin = IF susp2 THEN o.admin ELSE ExpAdmin(h, e),
        !.rib = <<o.ribg, o.riba>>,
        !.susp = susp2,
        \* hold time negotiated by the last session that was reported Established (even for an instant)
        !.prevNeg = IF e.ev = "Disable" THEN 0
                    ELSE IF estNow # {} THEN h1[CHOOSE c \in estNow : TRUE].neg
                    ELSE IF (\E i \in 1..Len(o.wev) : o.wev[i].st = "Established") /\ e.ev \in MsgEvents
                            /\ h[CId(e)].cs = "OpenConfirm" THEN h[CId(e)].neg
                    ELSE h.prevNeg,
        \* an administrative Cease requested while no session is established (one slot, first wins)
        !.parked = IF oneshot /\ h.parked = <<>> /\ h.st # "None"
                   THEN <<IF e.ev = "Shutdown" THEN 2 ELSE 4, CommHex(e.comm)>>
                   ELSE IF stale /\ ~oneshot THEN <<>> ELSE h.parked,
        !.deleted = h.deleted \/ e.ev = "Delete"]

HInit(cfg, o) == [cfg |-> cfg, now |-> o.t, st |-> o.st, admin |-> "Up", ci |-> NoConn, co |-> NoConn,
                  rib |-> <<o.ribg, o.riba>>, susp |-> FALSE, prevNeg |-> 0, parked |-> <<>>,
                  deleted |-> FALSE]

(* ======================================================================================== *)
(* THE PROPERTIES (h = history BEFORE the step, e = event, o = observation AFTER it,
                   h2 = HNext(h, e, o))                                                     *)

(* -- C07_Notification: every cause yields the prescribed NOTIFICATION code/subcode (and the
      connection is closed), nothing else is sent.  Clause families with their own name:
      OCUnexpected, EstOpen, UnsupOpt, KaLen (message events), ManualStopEarly, Spurious. *)
NotifOK(h, e, o) ==
  IF e.ev \in MsgEvents \ {"Close"} THEN (h[CId(e)].live => MsgStepOK(h, e, o))
  ELSE IF e.ev = "Close" THEN \A c \in ConnIds : Quiet(o[c])
  ELSE IF e.ev \in AdminEvents THEN AdminStepOK(h, e, o)
  ELSE IF e.ev = "Noop" THEN Len(o.wev) = 0 /\ \A c \in ConnIds : Untouched(h, o, c)
  ELSE TRUE

StepClass(h, e, o) == IF e.ev \in AdminEvents THEN AdminClass(h, e) ELSE ClassOf(h, e, o)

P_Notification(h, e, o) ==
  (e.ev \in MsgEvents \cup AdminEvents \cup {"Noop"} /\ StepClass(h, e, o) \in {"General", "NA"}) => NotifOK(h, e, o)
P_NotifClass(cls, h, e, o) == StepClass(h, e, o) = cls => NotifOK(h, e, o)

(* RFC 8538: no Hard Reset unless the N bit was exchanged; 8203/9003 data only with Cease 2/4 *)
P_NoHardResetWithoutN(h, e, o) ==
  ~h.cfg.nbit => \A c \in ConnIds : <<6, 9>> \notin NotifPairs(o[c].msgs)

(* known deviations, each tolerated by exactly one _KF invariant (the five repaired ones - OpenConfirm
   unexpected message, OPEN in Established, unsupported optional parameter, KEEPALIVE length, stale
   administrative Cease - are no longer tolerated) *)
Dev_IdleOpen(h, e, o) ==            \* the completed outgoing connection is parked: no KEEPALIVE until the next Active
  \A c \in ConnIds : Untouched(h, o, c)
Dev_ManualStopEarly(h, e, o) ==    \* connections in OpenSent / OpenConfirm closed without the Cease
  \A c \in ConnIds :
    IF c \in Early(h)
    THEN /\ Quiet(o[c])
         \* ... or, when the session itself is Idle, the connection manager's attempt is not even closed
         /\ (o[c].closed \/ (h.st = "Idle" /\ c = CO /\ e.ev = "Disable"))
    ELSE IF h[c].live /\ h[c].cs = "Established"
    THEN ConnOK(o[c], Err("General", CeaseOr9(h, "Established", IF e.ev = "Disable" THEN 2 ELSE 3)), h.now,
                {IF e.ev = "Disable" THEN CommHex(e.comm) ELSE ""})
    ELSE Quiet(o[c])
(* -- C07_Collision (RFC 4271 6.8, RFC 6286): when a valid OPEN arrives on a connection while the
      other one is in OpenConfirm, the connection NOT initiated by the higher identifier is closed
      with a Cease; against an Established connection the new one is closed.  Never two live
      connections past OpenSent. *)
CollisionStep(h, e) == e.ev = "Open" /\ h[CId(e)].live /\ React(h, e).cls = "Collision"
P_Collision(h, e, o, h2) ==
  /\ ~TwoHigh(h2)
  /\ CollisionStep(h, e) =>
       LET c == CId(e)
           d == Other(c)
           keep == IF h[d].cs = "Established" THEN d ELSE Survivor(h.cfg.peer)
           lose == Other(keep)
       IN /\ o[lose].closed
          /\ Count(o[lose].msgs, "NOTIFICATION") = 1
          /\ \A p \in NotifPairs(o[lose].msgs) : p[1] = 6         \* Cease (subcode 7 is a SHOULD)
          /\ ~o[keep].closed
          /\ Count(o[keep].msgs, "NOTIFICATION") = 0
          /\ (keep = c => Count(o[c].msgs, "KEEPALIVE") = 1)

(* -- C07_Transitions: the reported state only moves along the permitted edges.  Active ->
      OpenConfirm is the active open (the OpenSent phase of the outgoing connection is run by the
      connection's own FSM and not reported); OpenSent -> Active is RFC 4271's TcpConnectionFails. *)
Edges == {<<"Idle", "Active">>, <<"Active", "OpenSent">>, <<"OpenSent", "OpenConfirm">>,
          <<"OpenConfirm", "Established">>, <<"Active", "Idle">>, <<"OpenSent", "Idle">>,
          <<"OpenConfirm", "Idle">>, <<"Established", "Idle">>, <<"OpenSent", "Active">>,
          <<"Active", "OpenConfirm">>}
Chain(h, o) == <<h.st>> \o [i \in 1..Len(o.wev) |-> o.wev[i].st]
P_Transitions(h, e, o) ==
  LET ch == Chain(h, o) IN
  /\ \A i \in 1..(Len(ch) - 1) : <<ch[i], ch[i + 1]>> \in Edges \/ (e.ev = "Delete" /\ ch[i + 1] = "Idle")
  /\ \A i \in 1..(Len(ch) - 1) :
       (ch[i] = "Active" /\ ch[i + 1] = "OpenConfirm") => (h[CO].live /\ h[CO].cs \in {"OpenSent", "OpenConfirm"})

(* -- C07_EstablishedOnlyAfterOpenKeepalive: Established is entered only by a KEEPALIVE received
      on a connection in OpenConfirm, i.e. after a valid OPEN (RFC 4271 8.2.2), and the session
      then runs on that connection. *)
P_EstablishedOnlyAfterOpenKeepalive(h, e, o, h2) ==
  LET entered == \E i \in 1..Len(o.wev) : o.wev[i].st = "Established" IN
  /\ entered => /\ e.ev = "Keepalive"
                /\ h[CId(e)].live /\ h[CId(e)].cs = "OpenConfirm" /\ ~h[CId(e)].taint
  /\ o.st = "Established" => \E c \in ConnIds : h2[c].live /\ h2[c].cs = "Established" /\ ~h2[c].taint
(* -- C07_ReportedMatchesReal: ListPeer and the WatchEvent(peer) stream agree with each other and
      with the state the connections are really in. *)
ReportedOK(h, e, o, h2, lenient) ==
  LET top == Top(h2) IN
  /\ (Len(o.wev) > 0 /\ o.st # "None") => o.wev[Len(o.wev)].st = o.st
  /\ (Len(o.wev) = 0) => o.st = h.st
  /\ o.st = "None" <=> h2.deleted
  /\ o.admin = h2.admin
  /\ \A i \in 1..Len(o.wev) : o.wev[i].admin \in {h.admin, h2.admin} \/ h2.deleted
  /\ ~h2.deleted =>
       /\ (top = "Established") <=> (o.st = "Established")
       /\ (top = "OpenConfirm") <=> (o.st = "OpenConfirm")
       /\ (o.st = "OpenSent") => top = "OpenSent"
       /\ (h2[CI].live /\ h2[CI].cs = "OpenSent" /\ top = "OpenSent") => o.st = "OpenSent"
       \* Idle: nothing is open, except the outgoing connection attempt that the connection manager
       \* runs on its own (its OpenSent phase is never reported); administratively down: nothing at all
       /\ (o.st = "Idle") => \A c \in LiveConns(h2) : h2[c].cs = "None" \/ (c = CO /\ h2[c].cs = "OpenSent")
       /\ (o.admin # "Up") => o.st = "Idle"
       /\ lenient \/ ((o.admin # "Up") => \A c \in LiveConns(h2) : h2[c].cs = "None")
       /\ lenient => ((o.admin # "Up") => \A c \in LiveConns(h2) : h2[c].cs = "None" \/ c = CO)
  /\ h2.deleted => \A c \in ConnIds : ~h2[c].live \/ h2[c].cs = "None"
P_ReportedMatchesReal(h, e, o, h2) == ReportedOK(h, e, o, h2, FALSE)
(* known deviation (KF-C07-manualstop): DisablePeer in Idle leaves the connection manager's outgoing
   connection open, so a connection exists while the peer is administratively down *)
Dev_DownButOutgoing(h, e, o, h2) == ReportedOK(h, e, o, h2, TRUE)

(* -- C07_NoRibEffectBeforeEstablished: routing messages received on a connection that is not
      Established never change a RIB, and (without graceful restart) no route of the peer is in a
      RIB unless the session is Established. *)
P_NoRibEffectBeforeEstablished(h, e, o) ==
  /\ (e.ev \in {"Update", "Refresh", "Open", "Keepalive", "Garbage", "Notif"} /\ h[CId(e)].live
        /\ h[CId(e)].cs # "Established") => <<o.ribg, o.riba>> = h.rib
  /\ (~h.cfg.nbit /\ o.st # "Established") => (o.ribg = <<>> /\ o.riba = <<>>)

(* -- C07_TimerInstant: hold-timer NOTIFICATION 4/0 and KEEPALIVEs at exactly the prescribed
      instants; outside Tick steps every message carries the instant of its cause.  The
      OpenConfirm clause has its own name (C07_Timer_OpenConfirm). *)
P_TimerInstant(h, e, o, large) ==
  /\ o.ms = 0
  /\ e.ev = "Tick" => \A c \in ConnIds : h[c].cs # "OpenConfirm" => TimerStepConn(h, o, c, large)
  /\ e.ev # "Tick" => \A c \in ConnIds : AllAt(o[c].msgs, h.now)
P_Timer_OpenConfirm(h, e, o, large) ==
  e.ev = "Tick" => \A c \in ConnIds : h[c].cs = "OpenConfirm" => TimerStepConn(h, o, c, large)
(* known deviation: OpenConfirm runs on the timers of the PREVIOUS established session (none at
   all on the first one) instead of those negotiated by the OPEN just received *)
Dev_Timer_OpenConfirm(h, e, o, large) ==
  e.ev = "Tick" => \A c \in ConnIds : (h[c].live /\ h[c].cs = "OpenConfirm") =>
     LET k == KaInt(h.prevNeg)
         first == IF k = 0 THEN 0 ELSE h[c].ocT + ((h.now - h[c].ocT) \div k + 1) * k
     IN TimerConnOK(h[c], o[c], o.t, k, {first}, IF h.prevNeg > 0 THEN h[c].ocT + h.prevNeg ELSE -1)
=============================================================================
