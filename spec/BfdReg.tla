---------------------------- MODULE BfdReg ----------------------------
(* C20, helper goroutines owned by a neighbour: the BFD session helpers.

   Every neighbour whose configuration enables BFD owns one helper of the BFD server
   (bfdPeer.loop: a goroutine, a UDP socket and three tickers).  "Stopping the server or deleting
   a peer terminates all of its goroutines" therefore reads, for this part of the speaker:

       after every management operation, the helpers that run are exactly those of the neighbours
       that are configured now with BFD enabled, each with the parameters of the CURRENT
       configuration; after Stop nothing is left.

   Two layers, as in the other families:
     property layer   cfg      what the operator configured (the API calls alone decide it)
     mechanism layer  reg      what the code does with the BFD server's registry at the call sites
                               addNeighbor / stopNeighbor / updateNeighbor / updateBfdPeer / StopBgp
   RegExact ties them; TLC checks it over every history of the small scope (MCBfdReg), the trace
   spec (trace/BfdRegTrace.tla) judges recorded executions of the real BgpServer by the property
   layer alone.  *)
EXTENDS Naturals, FiniteSets, Sequences, TLC

CONSTANTS Nbrs,      \* neighbour names
          Mults,     \* detection multipliers an operator may configure (non-zero)
          Asns       \* peer AS numbers; a change of the peer AS needs a new OPEN (delete + add inside UpdatePeer)

VARIABLES phase,     \* "new" | "running" | "stopped": StopBgp is final (StartBgp answers "server stopped" afterwards)
          cfg,       \* [Nbrs -> configuration or Absent]
          reg        \* [Nbrs -> 0 | multiplier of the running helper]     (mechanism layer)

vars == <<phase, cfg, reg>>
started == phase = "running"

Absent == [present |-> FALSE, bfd |-> FALSE, mult |-> 0, asn |-> 0]
Conf(b, m, a) == [present |-> TRUE, bfd |-> b, mult |-> m, asn |-> a]
Confs == {Conf(b, m, a) : b \in BOOLEAN, m \in Mults, a \in Asns}

(* ---- what the BFD server does with its registry (bfd_server.go) ---- *)
RegAdd(r, n, c) == IF ~c.bfd THEN r                       \* AddPeer: a disabled configuration is ignored
                   ELSE IF r[n] # 0 THEN r                \* addBfdPeer: "BFD peer already exist" keeps the old helper
                   ELSE [r EXCEPT ![n] = c.mult]
RegDel(r, n) == [r EXCEPT ![n] = 0]                       \* deleteBfdPeer: unknown peer is a no-op

Init == /\ phase = "new"
        /\ cfg = [n \in Nbrs |-> Absent]
        /\ reg = [n \in Nbrs |-> 0]

StartBgp == /\ phase = "new"
            /\ phase' = "running"
            /\ UNCHANGED <<cfg, reg>>

(* StopBgp: deleteNeighbor for every neighbour (stopNeighbor deregisters each) *)
StopBgp == /\ started
           /\ phase' = "stopped"
           /\ cfg' = [n \in Nbrs |-> Absent]
           /\ reg' = [n \in Nbrs |-> 0]

AddPeer(n, c) == /\ started /\ ~cfg[n].present
                 /\ cfg' = [cfg EXCEPT ![n] = c]
                 /\ reg' = RegAdd(reg, n, c)               \* addNeighbor

DeletePeer(n) == /\ started /\ cfg[n].present
                 /\ cfg' = [cfg EXCEPT ![n] = Absent]
                 /\ reg' = RegDel(reg, n)                  \* stopNeighbor, whatever the configuration says
                 /\ UNCHANGED phase

NeedsOpen(old, new) == old.asn # new.asn

(* updateNeighbor: a change that needs a new OPEN deletes and re-adds the neighbour (the new configuration
   is already published when stopNeighbor runs); any other change goes through updateBfdPeer *)
UpdatePeer(n, c) ==
  /\ started /\ cfg[n].present /\ c # cfg[n]
  /\ cfg' = [cfg EXCEPT ![n] = c]
  /\ reg' = IF NeedsOpen(cfg[n], c)
            THEN RegAdd(RegDel(reg, n), n, c)
            ELSE LET r1 == IF cfg[n].bfd THEN RegDel(reg, n) ELSE reg
                 IN  RegAdd(r1, n, c)

Next == \/ StartBgp /\ TRUE
        \/ StopBgp
        \/ \E n \in Nbrs, c \in Confs : (AddPeer(n, c) \/ UpdatePeer(n, c)) /\ UNCHANGED phase
        \/ \E n \in Nbrs : DeletePeer(n)

Spec == Init /\ [][Next]_vars

(* ---- property layer ---- *)
Expected(c) == [n \in Nbrs |-> IF c[n].present /\ c[n].bfd THEN c[n].mult ELSE 0]

RegExact == reg = Expected(cfg)
StoppedIsEmpty == ~started => \A n \in Nbrs : reg[n] = 0 /\ ~cfg[n].present
=============================================================================
