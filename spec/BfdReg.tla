---------------------------- MODULE BfdReg ----------------------------
(* C20, helper goroutines owned by a neighbour: the BFD session helpers.

   Every neighbour whose configuration enables BFD owns one helper of the BFD server
   (bfdPeer.loop: a goroutine, a UDP socket and three tickers).  "Stopping the server or deleting
   a peer terminates all of its goroutines" therefore reads, for this part of the speaker:

       after every management operation, the helpers that run are exactly those of the neighbours
       that are configured now with BFD enabled, each with the parameters of the CURRENT
       configuration; after Stop nothing is left.

   Two layers, as in the other families:
     property layer   cfg      what the operator configured (the API calls alone decide it)
     mechanism layer  reg      what the code does with the BFD server's registry at the call sites
                               addNeighbor / stopNeighbor / updateNeighbor / updateBfdPeer / StopBgp
   RegExact ties them; TLC checks it over every history of the small scope (MCBfdReg), the trace
   spec (trace/BfdRegTrace.tla) judges recorded executions of the real BgpServer by the property
   layer alone.  *)
EXTENDS Naturals, FiniteSets, Sequences, TLC

CONSTANTS Nbrs,      \* neighbour names
          Mults,     \* detection multipliers an operator may configure (non-zero)
          Asns       \* peer AS numbers; a change of the peer AS needs a new OPEN (delete + add inside UpdatePeer)

VARIABLES grp,       \* the peer group "g": its configuration or Absent (members take ALL of it: through the API nothing
                     \* is "configured on the neighbour", so OverwriteNeighborConfigWithPeerGroup overwrites every field)
          phase,     \* "new" | "running" | "stopped": StopBgp is final (StartBgp answers "server stopped" afterwards)
          cfg,       \* [Nbrs -> configuration or Absent]
          reg        \* [Nbrs -> 0 | multiplier of the running helper]     (mechanism layer)

vars == <<grp, phase, cfg, reg>>
started == phase = "running"

Absent == [present |-> FALSE, bfd |-> FALSE, mult |-> 0, asn |-> 0, member |-> FALSE]
Conf(b, m, a) == [present |-> TRUE, bfd |-> b, mult |-> m, asn |-> a, member |-> FALSE]
AsMember(c) == [c EXCEPT !.member = TRUE]
Confs == {Conf(b, m, a) : b \in BOOLEAN, m \in Mults, a \in Asns}

(* ---- what the BFD server does with its registry (bfd_server.go) ---- *)
RegAdd(r, n, c) == IF ~c.bfd THEN r                       \* AddPeer: a disabled configuration is ignored
                   ELSE IF r[n] # 0 THEN r                \* addBfdPeer: "BFD peer already exist" keeps the old helper
                   ELSE [r EXCEPT ![n] = c.mult]
RegDel(r, n) == [r EXCEPT ![n] = 0]                       \* deleteBfdPeer: unknown peer is a no-op

Init == /\ grp = Absent
        /\ phase = "new"
        /\ cfg = [n \in Nbrs |-> Absent]
        /\ reg = [n \in Nbrs |-> 0]

StartBgp == /\ phase = "new"
            /\ phase' = "running"
            /\ UNCHANGED <<cfg, reg, grp>>

(* StopBgp: deleteNeighbor for every neighbour (stopNeighbor deregisters each) *)
StopBgp == /\ started
           /\ phase' = "stopped"
           /\ cfg' = [n \in Nbrs |-> Absent]
           /\ reg' = [n \in Nbrs |-> 0]
           /\ UNCHANGED grp

AddPeer(n, c) == /\ started /\ ~cfg[n].present
                 /\ cfg' = [cfg EXCEPT ![n] = c]
                 /\ reg' = RegAdd(reg, n, c)               \* addNeighbor
                 /\ UNCHANGED grp

(* ---- the peer group ---- *)
AddGroup(c) == /\ started /\ ~grp.present
               /\ grp' = c
               /\ UNCHANGED <<phase, cfg, reg>>
(* AddPeer naming the group: the neighbour is configured as the group says *)
AddMember(n) == /\ started /\ grp.present /\ ~cfg[n].present
                /\ cfg' = [cfg EXCEPT ![n] = AsMember(grp)]
                /\ reg' = RegAdd(reg, n, grp)
                /\ UNCHANGED <<phase, grp>>

DeletePeer(n) == /\ started /\ cfg[n].present
                 /\ cfg' = [cfg EXCEPT ![n] = Absent]
                 /\ reg' = RegDel(reg, n)                  \* stopNeighbor, whatever the configuration says
                 /\ UNCHANGED <<phase, grp>>

NeedsOpen(old, new) == old.asn # new.asn

(* updateNeighbor: a change that needs a new OPEN deletes and re-adds the neighbour (the new configuration
   is already published when stopNeighbor runs); any other change goes through updateBfdPeer *)
UpdReg(r, n, old, c) == IF NeedsOpen(old, c)
                       THEN RegAdd(RegDel(r, n), n, c)
                       ELSE LET r1 == IF old.bfd THEN RegDel(r, n) ELSE r
                            IN  RegAdd(r1, n, c)
UpdatePeer(n, c) ==
  /\ started /\ cfg[n].present /\ ~cfg[n].member /\ c # cfg[n]
  /\ cfg' = [cfg EXCEPT ![n] = c]
  /\ reg' = UpdReg(reg, n, cfg[n], c)
  /\ UNCHANGED grp

(* UpdatePeerGroup replaces the group's configuration.  AS OBSERVED it does not reach the members that exist
   (updatePeerGroup calls updateNeighbor with the member's stored configuration, and
   oc.SetDefaultNeighborConfigValues returns at once for a configuration that has been through it before -
   State.LocalAs # 0 - so the group's new values are never written over it): members keep the configuration
   they were added with, only neighbours added LATER take the new one.  The model follows the code (the
   divergence from what an operator would expect is recorded in DESIGN.md section 6; none of the twenty
   properties speaks about peer-group propagation, and the helper lifecycle is judged against the
   configuration each neighbour really has). *)
Members == {n \in Nbrs : cfg[n].present /\ cfg[n].member}
UpdateGroup(c) ==
  /\ started /\ grp.present /\ c # grp
  /\ grp' = c
  /\ UNCHANGED <<phase, cfg, reg>>

Next == \/ StartBgp /\ TRUE
        \/ StopBgp
        \/ \E n \in Nbrs, c \in Confs : (AddPeer(n, c) \/ UpdatePeer(n, c)) /\ UNCHANGED phase
        \/ \E n \in Nbrs : DeletePeer(n) \/ AddMember(n)
        \/ \E c \in Confs : AddGroup(c) \/ UpdateGroup(c)

Spec == Init /\ [][Next]_vars

(* ---- property layer ---- *)
Expected(c) == [n \in Nbrs |-> IF c[n].present /\ c[n].bfd THEN c[n].mult ELSE 0]

RegExact == reg = Expected(cfg)
StoppedIsEmpty == ~started => \A n \in Nbrs : reg[n] = 0 /\ ~cfg[n].present
=============================================================================
