---------------------------- MODULE GrLlgrDom ----------------------------
(* Concrete vocabulary shared by the C12 generators, the design-level model and the Go harness
   (harness/c12): capability variants of the restarting neighbour R, local configurations, loss kinds,
   and the JSON shape of schedule steps. *)
EXTENDS Integers, Sequences

DFams == {"v4", "v6"}

(* capabilities of R's OPEN.  g: families in the GR capability ("none" = no GR capability at all, "empty" =
   capability without any family), l: families in the LLGR capability with stale times 100 s (v4) / 200 s (v6) *)
MkCaps(g, rt, n, l, hold, r) ==
  [gr |-> g # "none",
   fams |-> [f \in DFams |-> (g = "both") \/ (g = f)],
   rt |-> IF g = "none" THEN 0 ELSE rt, n |-> (g # "none") /\ n, r |-> (g # "none") /\ r,
   llgr |-> [f \in DFams |-> IF g = "none" THEN 0 ELSE IF (l = "both" \/ l = f) THEN (IF f = "v4" THEN 100 ELSE 200) ELSE 0],
   hold |-> hold]

GrKinds == {"none", "empty", "v4", "both"}
LlKinds == {"none", "v4", "both"}

(* local configuration towards R *)
MkCfg(gr, notif, llgr) == [gr |-> gr, notif |-> gr /\ notif, llgr |-> gr /\ llgr, rtlocal |-> 120, deferral |-> 30, restart |-> FALSE]
CfgPool == {MkCfg(TRUE, TRUE, TRUE), MkCfg(TRUE, FALSE, TRUE), MkCfg(TRUE, TRUE, FALSE), MkCfg(TRUE, FALSE, FALSE), MkCfg(FALSE, FALSE, FALSE)}

LossKinds == {"close", "hold", "notif", "hardreset", "shutdown", "reset", "disable", "pfxlimit"}

(* schedule steps *)
SUp(p)          == [ev |-> "Up", p |-> p]
SUpR(c)         == [ev |-> "Up", p |-> "R", caps |-> c]
SAnn(p, x, c)   == [ev |-> "Ann", p |-> p, x |-> x, c |-> c]
SWd(p, x)       == [ev |-> "Wd", p |-> p, x |-> x]
SEor(p, f)      == [ev |-> "Eor", p |-> p, f |-> f]
SLoss(kind)     == [ev |-> "Loss", p |-> "R", kind |-> kind]
SFail(kind)     == [ev |-> "FailConn", p |-> "R", kind |-> kind]
STick(d)        == [ev |-> "Tick", d |-> d]
STickTo(to, o)  == [ev |-> "TickTo", to |-> to, off |-> o]
=============================================================================
