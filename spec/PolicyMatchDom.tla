---------------------------- MODULE PolicyMatchDom ----------------------------
(* Concrete vocabulary of the C13 behaviour generators, shared with the trace spec and the Go
   harness (harness/c13/c13_test.go renders the records to configuration strings).

   Two families of patterns:
   * SHAPE patterns (PolicyMatch!Shape): the shapes the compiler recognises.  They have a
     denotation (PolicyMatch!Den); the harness renders them to canonical text.
   * NEAR-MISS patterns: regular-expression TEXT composed here from a grammar
         L  ASPART ":" LOCPART [":" L2PART]  R  TAIL
     (anchoring, leading zeros, blanks, overflow values, multiple colons, nested / top-level
     alternation, classes, repetition, dotted administrators, upper-case sub-type prefixes).
     They have NO denotation in the spec: their only reference semantics is Go's regexp on
     the canonical community text (C13_RegexpAgrees).  The spec contributes the grammar, the
     edit sequences, and - for the known finding KF-C13-lenient-parse - the LenientReading:
     the shape pattern the compiler's number parsing silently turns a non-canonical
     spelling into.

   All randomness of a behaviour is a tuple of integers drawn once (RandomElement) and handed
   down; everything below is a deterministic function of it. *)
EXTENDS PolicyMatch

N(x)   == Mk(x)
Max32  == <<65535, 65535>>      \* 4294967295
Ovf32  == <<65536, 0>>          \* 4294967296 (fits no field)
Ovf16  == <<1, 0>>              \* 65536 (fits no 2-octet field)

PickSeq(q, x) == q[(x % Len(q)) + 1]

(* decimal text of a number *)
NumText(n) == IF n = Max32 THEN "4294967295"
              ELSE IF n = Ovf32 THEN "4294967296"
              ELSE ToString(n[1] * 65536 + n[2])          \* generator numbers stay below 2^31

Small(n)   == n[1] < 16000
Val32(n)   == n[1] * 65536 + n[2]

(* numbers around n that separate the readings of a pattern: neighbours, and the numbers whose
   decimal text has n's text as a prefix / suffix (unanchored patterns, digit classes) *)
Near(n) ==
  IF Small(n)
  THEN LET x == Val32(n) IN
       <<n, n, n, n, n, n, N(x + 1), N(IF x > 0 THEN x - 1 ELSE 0), N(10 * x), N(10 * x + 3),
         N(x + 1000), N(x + 60000), N(x \div 10)>>
  ELSE <<n, n, n, <<n[1], IF n[2] > 0 THEN n[2] - 1 ELSE 0>>, N(n[1])>>

FitSeq(q, bits) == LET r == SelectSeq(q, LAMBDA n : IF bits = 16 THEN Fits16(n) ELSE Fits32(n))
                   IN IF r = <<>> THEN <<N(0)>> ELSE r

---------------------------------------------------------------------------
(* SHAPE generator *)

FocusAS    == <<N(100), N(100), N(65000), N(65535), N(0), N(200)>>
FocusLoc   == <<N(5), N(5), N(0), N(10), N(15), N(19), N(100), N(65530), N(65535)>>
FocusLocX  == FocusLoc \o <<Ovf16, Max32, N(70000)>>                  \* 4-octet local parts
ASStyles   == <<"d+", "09+", "d*", "09*">>
LocStyles  == <<"dot*", "d+", "09+", "d*", "dot*">>
Classes    == <<Cls(1, 0, 9), Cls(1, 0, 5), Cls(6553, 0, 5), Cls(6553, 0, 9), Cls(10, 0, 9), Cls(1, 5, 5)>>

LocFocus(kind) == IF kind = "std" THEN FocusLoc ELSE FocusLocX
LocOverflow(kind) == IF kind = "std" THEN Ovf16 ELSE Ovf32

ShapeAS(kind, r) ==           \* r: 3 random integers
  LET c == r[1] % 10 IN
  IF c < 6 THEN Lit(PickSeq(IF kind = "large" THEN FocusAS \o <<Max32, N(70000)>> ELSE FocusAS, r[2]))
  ELSE IF c < 9 THEN AnyNum(PickSeq(ASStyles, r[2]))
  ELSE Lit(IF kind = "large" THEN Ovf32 ELSE Ovf16)

ShapeLoc(kind, r) ==          \* r: 5 random integers
  LET c == r[1] % 12  F == LocFocus(kind) IN
  IF c < 4 THEN Lit(PickSeq(F, r[2]))
  ELSE IF c < 6 THEN AnyNum(PickSeq(LocStyles, r[2]))
  ELSE IF c < 8 THEN Alt(<<PickSeq(FocusLoc, r[2]), PickSeq(IF r[5] % 3 = 0 THEN F ELSE FocusLoc, r[3])>>)
  ELSE IF c < 10 THEN Alt(<<PickSeq(FocusLoc, r[2]), PickSeq(FocusLoc, r[3]), PickSeq(IF r[5] % 3 = 0 THEN F ELSE FocusLoc, r[4])>>)
  ELSE IF c < 11 THEN PickSeq(Classes, r[2])
  ELSE Lit(LocOverflow(kind))

AllLit(f) == \A i \in DOMAIN f : f[i].t = "lit"

ShapePattern(kind, r) ==      \* r: 16 random integers
  LET st == IF kind = "std" THEN "std" ELSE IF kind = "large" THEN "large"
            ELSE PickSeq(<<"rt", "rt", "soo">>, r[1])
      f  == IF kind = "large"
            THEN <<ShapeAS(kind, SubSeq(r, 2, 4)), ShapeLoc(kind, SubSeq(r, 5, 9)), ShapeLoc(kind, SubSeq(r, 10, 14))>>
            ELSE <<ShapeAS(kind, SubSeq(r, 2, 4)), ShapeLoc(kind, SubSeq(r, 5, 9))>>
  IN Shape(st, IF AllLit(f) /\ r[15] % 3 = 0 THEN "plain" ELSE "anch", f)

NearTerm(t) ==
  CASE t.t = "lit" -> Near(t.v)
    [] t.t = "alt" -> t.s \o Near(t.s[1])
    [] t.t = "cls" -> <<Mk(10 * t.pre + t.lo), Mk(10 * t.pre + t.hi), Mk(10 * t.pre + t.hi + 1),
                        Mk(IF 10 * t.pre + t.lo > 0 THEN 10 * t.pre + t.lo - 1 ELSE 0), Mk(t.pre)>>
    [] t.t = "any" -> <<N(0), N(7), N(65535), N(100), N(5)>>

---------------------------------------------------------------------------
(* NEAR-MISS grammar.  A part is [k, q, n, canon, s]:
     k = "num"   one decimal number n[1]; q = "" canonical | "lead0" | "space" spelling
         "set"   parenthesised alternation of the numbers n (canon = every token canonical)
         "anyd"  a digit run standing for every number  - \d+ , [0-9]+ , \d* , [0-9]* -
         "any3"  a local-part wildcard  (.*  \d+  [0-9]+)
         "mcw"   a local part with a further colon that ENDS in such a wildcard
         "x"     anything else (text only)
     s = the text. *)

Part(k, q, n, canon, s) == [k |-> k, q |-> q, n |-> n, canon |-> canon, s |-> s]
T(n) == NumText(n)

NearASPart(a, a2, x, y) ==
  LET c == x % 20 IN
  IF c < 8 THEN Part("num", "", <<a>>, TRUE, T(a))
  ELSE IF c < 11 THEN Part("num", "lead0", <<a>>, FALSE, (IF y % 2 = 0 THEN "0" ELSE "00") \o T(a))
  ELSE IF c < 14 THEN Part("anyd", "", <<>>, TRUE, PickSeq(<<"\\d+", "[0-9]+", "\\d*", "[0-9]*">>, y))
  ELSE IF c < 15 THEN Part("num", "", <<Ovf16>>, TRUE, "65536")
  ELSE Part("x", "", <<a, a2>>, TRUE,
            PickSeq(<<"(" \o T(a) \o "|" \o T(a2) \o ")", ".*", ".+", "[0-9]{3}", "\\d{5}", "6[0-9]+",
                      "1.0", "(" \o T(a) \o ")", T(a) \o "?", "\\d+\\.\\d+", ".*\\." \o T(a), "">>, y))

Tok(n, q) == IF q = 1 THEN "0" \o T(n) ELSE IF q = 2 THEN " " \o T(n) ELSE IF q = 3 THEN T(n) \o " " ELSE T(n)

NearLocPart(l, l2, l3, x, y, z) ==
  LET c == x % 40 IN
  IF c < 5 THEN Part("num", "", <<l>>, TRUE, T(l))
  ELSE IF c < 8 THEN Part("num", "lead0", <<l>>, FALSE, (IF y % 2 = 0 THEN "0" ELSE "000") \o T(l))
  ELSE IF c < 10 THEN Part("num", "space", <<l>>, FALSE, " " \o T(l))
  ELSE IF c < 13 THEN Part("set", "", <<l, l2>>, TRUE, "(" \o T(l) \o "|" \o T(l2) \o ")")
  ELSE IF c < 14 THEN Part("set", "", <<l, l2, l3>>, TRUE, "(" \o T(l) \o "|" \o T(l2) \o "|" \o T(l3) \o ")")
  ELSE IF c < 18 THEN Part("set", "", <<l, l2>>, (y % 4 = 0 /\ z % 4 = 0),
                           "(" \o Tok(l, y % 4) \o "|" \o Tok(l2, z % 4) \o ")")
  ELSE IF c < 21 THEN Part("any3", "", <<>>, TRUE, PickSeq(<<".*", "\\d+", "[0-9]+">>, y))
  ELSE IF c < 25 THEN Part("mcw", "", <<l>>, FALSE,
                           PickSeq(<<T(l) \o ":.*", "\\d+:\\d+", ":.*", T(l) \o ":\\d+", ".*:.*", T(l) \o ":[0-9]+">>, y))
  ELSE IF c < 26 THEN Part("num", "", <<Ovf16>>, TRUE, "65536")
  ELSE IF c < 27 THEN Part("num", "", <<Ovf32>>, TRUE, "4294967296")
  ELSE IF c < 28 THEN Part("num", "", <<Max32>>, TRUE, "4294967295")
  ELSE IF c < 29 THEN Part("set", "", <<Ovf16, l>>, TRUE, "(65536|" \o T(l) \o ")")
  ELSE IF c < 30 THEN Part("set", "", <<l, l>>, TRUE, "(" \o T(l) \o "|" \o T(l) \o ")")
  ELSE IF c < 31 THEN Part("set", "", <<l>>, TRUE, "(" \o T(l) \o ")")
  ELSE Part("x", "", <<l, l2, l3>>, TRUE,
            PickSeq(<<"(" \o T(l) \o "|(" \o T(l2) \o "|" \o T(l3) \o "))",
                      "((" \o T(l) \o "|" \o T(l2) \o ")|" \o T(l3) \o ")",
                      "(?:" \o T(l) \o "|" \o T(l2) \o ")", "(" \o T(l) \o "|" \o T(l2) \o ")?",
                      "1[0-9]", "[0-9]", "[^5]", ".", ".+", "\\d*", "[0-9]*", "\\d{2}", "\\d{1,3}",
                      T(l) \o "?", T(l) \o "+", T(l) \o ".*", ".*" \o T(l), "", T(l) \o ":" \o T(l2),
                      "(.*)">>, y))

(* the compiler's number parsing (strconv.ParseUint, strings.TrimSpace) and its suffix test
   for the wildcard accept more spellings than the canonical one; LenientReading is the shape
   pattern such a spelling is compiled to (transcribes parseExactASColonLocal,
   extractLiteralASN + isWildcardLocal, parseLocalAdminSet, tryWildcardASNBitmap) *)
NoReading == [st |-> "none"]

LenientReading(p) ==
  IF ~("asp" \in DOMAIN p) \/ p.st = "large" \/ p.L # "^" \/ p.tail # "" THEN NoReading
  ELSE
  LET A == p.asp   B == p.locp   ext == p.st # "std"
      asNum  == A.k = "num" /\ A.q # "space" /\ Fits16(A.n[1])
      locFit == IF ext THEN Fits32(B.n[1]) ELSE Fits16(B.n[1])
      setOK  == B.k \in {"num", "set"} /\ NoDup(B.n) /\ \A i \in DOMAIN B.n : Fits16(B.n[i])
      asSet  == IF Len(B.n) = 1 THEN Lit(B.n[1]) ELSE Alt(B.n)
  IN
  IF asNum /\ p.R = "$" /\ B.k = "num" /\ B.q # "space" /\ locFit
  THEN IF A.q = "lead0" \/ B.q = "lead0"
       THEN Shape(p.st, "anch", <<Lit(A.n[1]), Lit(B.n[1])>>) ELSE NoReading            \* exact
  ELSE IF asNum /\ B.k \in {"any3", "mcw"}
  THEN IF A.q = "lead0" \/ B.k = "mcw"
       THEN Shape(p.st, "anch", <<Lit(A.n[1]), AnyNum("dot*")>>) ELSE NoReading          \* fixed-AS wildcard
  ELSE IF ext /\ asNum /\ p.R = "$" /\ setOK
  THEN IF A.q = "lead0" \/ ~B.canon
       THEN Shape(p.st, "anch", <<Lit(A.n[1]), asSet>>) ELSE NoReading                   \* AS bitmap (ext)
  ELSE IF A.k = "anyd" /\ p.R = "$" /\ setOK
  THEN IF ~B.canon
       THEN Shape(p.st, "anch", <<AnyNum("d+"), asSet>>) ELSE NoReading                  \* AS-independent bitmap
  ELSE NoReading

IsLenient(p) == LenientReading(p).st # "none"

NearPattern(kind, r) ==       \* r: 16 random integers
  LET st    == IF kind = "std" THEN "std" ELSE IF kind = "large" THEN "large"
               ELSE PickSeq(<<"rt", "rt", "soo">>, r[1])
      stcfg == IF kind # "ext" THEN "" ELSE IF r[2] % 4 # 0 THEN st ELSE IF st = "rt" THEN "RT" ELSE "SoO"
      a     == PickSeq(<<N(100), N(100), N(65000), N(0), N(65535)>>, r[3])
      a2    == PickSeq(<<N(200), N(100), N(65535)>>, r[4])
      l     == PickSeq(<<N(5), N(5), N(10), N(100), N(65535), N(0)>>, r[5])
      l2    == PickSeq(<<N(6), N(15), N(5), N(65535), N(19)>>, r[6])
      l3    == PickSeq(<<N(7), N(100)>>, r[7])
      A     == NearASPart(a, a2, r[8], r[9])
      B     == NearLocPart(l, l2, l3, r[10], r[11], r[12])
      C     == NearLocPart(l2, l, l3, r[13], r[11], r[12])
      tail  == IF r[16] % 10 < 8 THEN ""
               ELSE PickSeq(<<"|^" \o T(a2) \o ":" \o T(l2) \o "$", "|" \o T(l3) \o "$", "|^" \o T(a2) \o ":.*$", "|x">>, r[16] \div 10)
      body  == A.s \o ":" \o B.s \o (IF kind = "large" THEN ":" \o C.s ELSE "")
      (* a bare digits:digits string is what the documentation calls a community VALUE: the
         configuration front end anchors it ("plain"); no other text may be left without any
         anchor unless it cannot be mistaken for one (its local part ends in a wildcard) *)
      digits == /\ tail = "" /\ A.k = "num" /\ B.k = "num" /\ B.q # "space"
                /\ (kind = "large" => C.k = "num" /\ C.q # "space")
      L     == IF r[14] % 8 < 2 THEN "" ELSE "^"
      R0    == IF r[14] % 8 = 1 \/ r[15] % 8 = 0 THEN "" ELSE "$"
      plain == L = "" /\ R0 = "" /\ digits
      R     == IF L = "" /\ R0 = "" /\ tail = "" /\ ~digits /\ ~(kind # "large" /\ B.k = "any3") THEN "$" ELSE R0
      text  == IF plain THEN "^" \o body \o "$" ELSE L \o body \o R \o tail
  IN [st |-> st, stcfg |-> stcfg, cfg |-> IF plain THEN body ELSE text, text |-> text,
      L |-> IF plain THEN "^" ELSE L, R |-> IF plain THEN "$" ELSE R, tail |-> tail,
      asp |-> A, locp |-> B, foc |-> <<a, l, l2>>]

NearNums(p, i) ==             \* interesting numbers for field i of a near-miss pattern
  IF i = 1 THEN Near(p.foc[1]) \o <<N(0), N(200)>>
  ELSE Near(p.foc[2]) \o Near(p.foc[3]) \o <<N(0), N(7)>>

---------------------------------------------------------------------------
(* values and routes, both generators *)

FieldNums(gen, p, i) == IF gen = "shape" THEN NearTerm(p.f[i]) ELSE NearNums(p, i)

MakeValue(kind, gen, pats, r) ==     \* r: 8 random integers
  LET p == PickSeq(pats, r[1]) IN
  IF kind = "std"
  THEN [k |-> "std", st |-> "std",
        n |-> <<PickSeq(FitSeq(FieldNums(gen, p, 1), 16), r[2]), PickSeq(FitSeq(FieldNums(gen, p, 2), 16), r[3])>>]
  ELSE IF kind = "large"
  THEN [k |-> "large", st |-> "large",
        n |-> <<PickSeq(FitSeq(FieldNums(gen, p, 1), 32), r[2]), PickSeq(FitSeq(FieldNums(gen, p, 2), 32), r[3]),
                PickSeq(FitSeq(IF gen = "shape" THEN NearTerm(p.f[3]) ELSE NearNums(p, 2), 32), r[4])>>]
  ELSE LET st == IF r[5] % 10 < 7 THEN p.st ELSE IF p.st = "rt" THEN "soo" ELSE "rt"
           c  == r[6] % 10 IN
       IF c < 8
       THEN [k |-> "two", st |-> st,
             n |-> <<PickSeq(FitSeq(FieldNums(gen, p, 1), 16), r[2]), PickSeq(FitSeq(FieldNums(gen, p, 2), 32), r[3])>>]
       ELSE [k |-> IF c = 8 THEN "four" ELSE "ip4", st |-> st,
             n |-> <<PickSeq(FitSeq(FieldNums(gen, p, 1) \o <<<<100, 200>>>>, 32), r[2]),
                     PickSeq(FitSeq(FieldNums(gen, p, 2), 16), r[3])>>]

MakeRoute(nvals, r) ==        \* r: 4 random integers; a route carries 0..3 of the values
  LET c == r[1] % 20
      k == IF c < 1 THEN 0 ELSE IF c < 9 THEN 1 ELSE IF c < 16 THEN 2 ELSE 3
  IN [i \in 1..k |-> (r[i + 1] % nvals) + 1]
=============================================================================
