SPECIFICATION SSpec
CONSTANTS
  Streams <- MC_Streams
  Hdr = 6
INVARIANTS
  D_Bounded
  D_TokensArePrefix
  D_TokensAreRecords
  D_Progress
PROPERTIES
  D_Done
CHECK_DEADLOCK FALSE
