---------------------------- MODULE StreamFramingGen ----------------------------
(* C19 (B): TLC enumerates the abstract cases (one initial state = one case, printed as JSON):
     dec    catalogue message x mutation, for the five decoders
              none                    the pristine octets (round trip)
              trunc at <position>     the octets end after k octets (the header still declares the full length):
                                      every absolute offset 0..MaxAbs(format) and the classes 0, 1, around the header,
                                      quartiles, the last two
              cut at <position>       the same cut WITH the header's length field set to k: the outer framing is
                                      consistent and a nested element is what is cut short
              len <class>             the header's length field set to: zero, one, header-1, header, n-1, n+1,
                                      n+100, max-1, max, and (formats whose field does not count the header)
                                      the values for which field+header wraps to 0 / to the header size
              type <which>            an unknown type / subtype / version / marker code
     split  (MRT, BMP) declared-length class x available-octets class x atEOF, for the stream splitters
     scan   (MRT, BMP) a stream of three records through bufio.Scanner with the real splitter, delivered in
            chunks cut at two offsets (every single cut; a grid of pairs)
   The harness (harness/c19codec) concretises each case with the packages' own constructors. *)
EXTENDS StreamFramingDom, TLC, Json

CONSTANTS Tier, Part      \* Part: "dec" | "split" | "scan" (one TLC run each)

Thorough == Tier = "thorough"
TruncAt == {"0", "1", "h-1", "h", "h+1", "h+2", "q1", "mid", "q3", "n-2", "n-1"}
(* upper bounds of the catalogue record lengths per format (Gap_Bound of the trace spec checks them) *)
MaxAbs(p) == CASE p = "mrt" -> 130 [] p = "bmp" -> 170 [] p = "rtr" -> 36 [] p = "bfd" -> 28 [] OTHER -> 80
LenAt == {"zero", "one", "h-1", "h", "n-1", "n+1", "n+100", "max-1", "max", "wrap0", "wrap-h"}
TypeAt(p) == CASE p = "mrt" -> {"type", "subtype"} [] p = "bmp" -> {"type", "version"}
               [] p = "zapi" -> {"command", "version", "marker"} [] OTHER -> {"type"}

(* the records of the MRT, BMP, RTR and BFD catalogues are short (at most MaxAbs(format) octets): they are cut at
   EVERY octet offset in both tiers, which includes every offset inside their nested elements (RIB entries,
   the carried BGP message, the BMP per-peer header, TLVs); ZAPI messages at the position classes (quick)
   and at every offset (thorough) *)
(* plain truncation (the header still declares the full length) is rejected by the outer length check of
   every format: quick samples it at every offset of the first 48 octets plus the position classes *)
TruncAbs(p) == IF Thorough \/ MaxAbs(p) < 48 THEN MaxAbs(p) ELSE 48
EveryOffset(p) == Thorough \/ p # "zapi"
Muts(p) == {[m |-> "none", at |-> "-", n |-> 0]}
           \cup {[m |-> mm, at |-> a, n |-> 0] : mm \in {"trunc", "cut"}, a \in TruncAt}
           \cup (IF EveryOffset(p) THEN {[m |-> "cut", at |-> "abs", n |-> k] : k \in 0..MaxAbs(p)} ELSE {})
           \cup (IF EveryOffset(p) THEN {[m |-> "trunc", at |-> "abs", n |-> k] : k \in 0..TruncAbs(p)} ELSE {})
           \cup {[m |-> "len", at |-> a, n |-> 0] : a \in LenAt}
           \cup {[m |-> "type", at |-> a, n |-> 0] : a \in TypeAt(p)}

(* quick tier: the ZAPI bodies are mutated for one flavour per version; every flavour is round-tripped *)
ZapiMain == {<<2, "quagga">>, <<3, "quagga">>, <<4, "frr3">>, <<5, "frr5">>, <<6, "frr7.5">>, <<6, "frr8.1">>}
Case(k, p, msg, v, sw, mu) == [k |-> k, proto |-> p, msg |-> msg, ver |-> v, sw |-> sw, m |-> mu.m, at |-> mu.at, n |-> mu.n]
DecSet ==
  UNION {{Case("dec", p, msg, 0, "-", mu) : msg \in MsgsOf(p), mu \in Muts(p)} : p \in Protos \ {"zapi"}}
  \cup UNION {{Case("dec", "zapi", msg, fl[1], fl[2], mu) : msg \in ZapiMsgs,
                  mu \in IF Thorough \/ fl \in ZapiMain THEN Muts("zapi") ELSE {[m |-> "none", at |-> "-", n |-> 0]}}
              : fl \in ZapiFlavours}

SplitDecl == {"asis", "zero", "one", "h-1", "h", "n-1", "n", "n+1", "n+100", "max-1", "max", "wrap0", "wrap-h"}
SplitAvail == {"0", "1", "h-1", "h", "h+1", "rec-1", "rec", "rec+1", "rec+rec"}
SplitBase(p) == IF p = "mrt" THEN {"pit_empty", "rib_v4uc", "bgp4mp_msg_as4_et"} ELSE {"init_empty", "up_v4"}
SplitSet ==
  UNION {{[k |-> "split", proto |-> p, msg |-> b, ver |-> 0, sw |-> "-", m |-> d, at |-> a, n |-> e]
            : b \in SplitBase(p), d \in SplitDecl, a \in SplitAvail, e \in {0, 1}} : p \in {"mrt", "bmp"}}

(* cut offsets: every single cut (second cut = 0 = none); a grid of pairs *)
MaxCut == 400
Grid == IF Thorough THEN {k \in 1..MaxCut : k % 5 = 0} ELSE {k \in 1..MaxCut : k % 23 = 0}
ScanSet ==
  UNION {{[k |-> "scan", proto |-> p, msg |-> "-", ver |-> 0, sw |-> "-", m |-> "cut", at |-> "-", n |-> c1 * 1000 + c2]
            : c1 \in 0..MaxCut, c2 \in {0}} \cup
         {[k |-> "scan", proto |-> p, msg |-> "-", ver |-> 0, sw |-> "-", m |-> "cut", at |-> "-", n |-> c1 * 1000 + c2]
            : c1 \in Grid, c2 \in Grid} : p \in {"mrt", "bmp"}}

Cases == CASE Part = "dec" -> DecSet [] Part = "split" -> SplitSet [] Part = "scan" -> ScanSet

VARIABLE c
GenSpec == c \in Cases /\ [][UNCHANGED c]_c
Emit == PrintT("VPOUT " \o ToJson(c))
=============================================================================
