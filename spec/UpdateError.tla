---------------------------- MODULE UpdateError ----------------------------
(* C06 - malformed UPDATEs are contained: never installed, answered per RFC 7606 / RFC 4271.

   PROPERTY LAYER (first half): a fault catalogue - my transcription of RFC 7606 sections 3-7,
   RFC 4271 section 6.3 (NOTIFICATION subcodes), RFC 6793 section 6, RFC 8092 section 5 and
   RFC 5065 section 5 - and Reaction = the strongest class any fault of a message calls for.
   It is NOT a copy of the implementation's table (that one is the MECHANISM LAYER, second half,
   transcribed from pkg/packet/bgp/bgp.go, validate.go and pkg/server/fsm.go).

   Every catalogue row carries a SANDWICH:
     lo    = the weakest reaction the RFCs allow for this fault (the containment obligation);
     hi    = ResetC iff the RFCs let (or make) the speaker reset the session for it;
     codes = the (code, subcode) pairs RFC 4271/4760 give for the fault when a NOTIFICATION is sent.
   Where two RFCs disagree or are silent (RFC 5065 errors, a syntactically invalid NEXT_HOP, an
   MP_REACH_NLRI with wrong flags whose NLRI an implementation may decline to parse) lo and hi
   differ, so that a defensible choice of the implementation is never reported. *)
EXTENDS Naturals, Sequences, FiniteSets, TLC

None     == 0   \* no error
Discard  == 1   \* RFC 7606 2: attribute discard
Withdraw == 2   \* RFC 7606 2: treat-as-withdraw
ResetC   == 3   \* RFC 7606 2 / RFC 4271 6: session reset with NOTIFICATION

PeerTypes == {"ebgp", "ibgp", "confed"}
Bases     == {"v4", "v6", "wd", "mix"}

(* prefixes a base message names: announced (NLRI field, MP_REACH_NLRI) and withdrawn (Withdrawn
   Routes field, MP_UNREACH_NLRI).  Before the message, the same peer has installed routes for ALL
   of AllPfx, so "removed" is observable; K4 is never named. *)
Ann(base) == CASE base = "v4"  -> {"P1", "P2"}
               [] base = "v6"  -> {"Q1", "Q2"}
               [] base = "wd"  -> {}
               [] base = "mix" -> {"P1", "Q1"}
Wd(base)  == IF base \in {"wd", "mix"} THEN {"P3", "Q3"} ELSE {}
AllPfx    == {"P1", "P2", "P3", "K4", "Q1", "Q2", "Q3"}
IsV4(p)   == p \in {"P1", "P2", "P3", "K4"}

(* attribute type codes as the harness keys them *)
TypeKey(a, k) ==
  CASE a = "ORIGIN" -> "t1" [] a = "AS_PATH" -> "t2" [] a = "NEXT_HOP" -> "t3" [] a = "MED" -> "t4"
    [] a = "LOCAL_PREF" -> "t5" [] a = "ATOMIC_AGGREGATE" -> "t6" [] a = "AGGREGATOR" -> "t7"
    [] a = "COMMUNITIES" -> "t8" [] a = "ORIGINATOR_ID" -> "t9" [] a = "CLUSTER_LIST" -> "t10"
    [] a = "MP_REACH" -> "t14" [] a = "MP_UNREACH" -> "t15" [] a = "EXT_COMMUNITIES" -> "t16"
    [] a = "AS4_PATH" -> "t17" [] a = "AS4_AGGREGATOR" -> "t18" [] a = "LARGE_COMMUNITIES" -> "t32"
    [] a = "UNKNOWN" -> (IF k \in {"wk", "wk0"} THEN "t98" ELSE "t99")
    [] a = "ATTR" -> "t97"
    [] OTHER -> "none"

---------------------------------------------------------------------------
(* PROPERTY LAYER: the catalogue *)

Row(a, k, lo, hi, codes) == [a |-> a, k |-> k, lo |-> lo, hi |-> hi, codes |-> codes]

W == Withdraw
D == Discard
R == ResetC

(* subcodes of UPDATE Message Error (code 3), RFC 4271 6.3 *)
AttrList == <<3, 1>>   \* Malformed Attribute List
UnrecWK  == <<3, 2>>   \* Unrecognized Well-known Attribute
MissWK   == <<3, 3>>   \* Missing Well-known Attribute
FlagsErr == <<3, 4>>   \* Attribute Flags Error
LenErr   == <<3, 5>>   \* Attribute Length Error
BadOrig  == <<3, 6>>   \* Invalid ORIGIN Attribute
BadNH    == <<3, 8>>   \* Invalid NEXT_HOP Attribute
OptErr   == <<3, 9>>   \* Optional Attribute Error
BadNet   == <<3, 10>>  \* Invalid Network Field
BadPath  == <<3, 11>>  \* Malformed AS_PATH

(* "internal-only" attributes received from an external neighbour are discarded whatever their
   content (RFC 7606 7.5 LOCAL_PREF, 7.9 ORIGINATOR_ID, 7.10 CLUSTER_LIST).  The RFCs do not say
   whether a confederation-member peer counts as external here: weakest obligation. *)
IntOnly(pt, c) == IF pt = "ibgp" THEN c ELSE D

Catalogue(pt) == {
  \* ORIGIN - RFC 7606 7.1: length other than 1 or undefined value => treat-as-withdraw
  Row("ORIGIN", "len",   W, W, {LenErr}),
  Row("ORIGIN", "val",   W, W, {BadOrig}),
  \* RFC 7606 3.c: Optional/Transitive bits in conflict with the specified values => treat-as-withdraw
  Row("ORIGIN", "flags", W, W, {FlagsErr}),
  \* RFC 7606 3.g: an attribute (other than MP_REACH/MP_UNREACH) appearing twice: all occurrences
  \* but the first are discarded
  Row("ORIGIN", "dup",   D, D, {AttrList}),
  \* RFC 7606 3.d: well-known mandatory attribute not present => treat-as-withdraw
  Row("ORIGIN", "miss",  W, W, {MissWK}),

  \* AS_PATH - RFC 7606 7.2: unrecognised segment type, segment overrun/underrun, zero segment
  \* length => treat-as-withdraw
  Row("AS_PATH", "segtype", W, W, {BadPath}),
  Row("AS_PATH", "segzero", W, W, {BadPath}),
  Row("AS_PATH", "segover", W, W, {BadPath, LenErr}),
  Row("AS_PATH", "flags",   W, W, {FlagsErr}),
  Row("AS_PATH", "dup",     D, D, {AttrList}),
  Row("AS_PATH", "miss",    W, W, {MissWK}),
  \* RFC 5065 5: confederation segments from a peer outside the confederation / a member peer's
  \* path not starting with AS_CONFED_SEQUENCE are a Malformed AS_PATH "per RFC 4271" (reset);
  \* RFC 7606 7.2 makes a malformed AS_PATH treat-as-withdraw.  Either is accepted.
  Row("AS_PATH", "val",     W, R, {BadPath}),
  \* the same error with the confederation segment (AS_CONFED_SEQUENCE / AS_CONFED_SET) BEHIND an
  \* ordinary segment, as it looks after the sender prepended its own AS (plain eBGP peer only)
  Row("AS_PATH", "valb",    W, R, {BadPath}),
  Row("AS_PATH", "valbs",   W, R, {BadPath}),

  \* NEXT_HOP - RFC 7606 7.3: length other than 4 => treat-as-withdraw
  Row("NEXT_HOP", "len",   W, W, {LenErr}),
  Row("NEXT_HOP", "flags", W, W, {FlagsErr}),
  \* syntactically invalid host address (0.0.0.0, multicast): RFC 4271 6.3 Invalid NEXT_HOP
  \* (NOTIFICATION); not revised by 7606 7.3, which most implementations read as withdraw.
  Row("NEXT_HOP", "val",   W, R, {BadNH}),
  Row("NEXT_HOP", "valm",  W, R, {BadNH}),
  Row("NEXT_HOP", "dup",   D, D, {AttrList}),
  Row("NEXT_HOP", "miss",  W, W, {MissWK}),          \* only with an NLRI field (RFC 4760 / 7606 3.d)

  \* MULTI_EXIT_DISC - RFC 7606 7.4: length other than 4 => treat-as-withdraw
  Row("MED", "len",   W, W, {LenErr}),
  Row("MED", "flags", W, W, {FlagsErr}),
  Row("MED", "dup",   D, D, {AttrList}),

  \* LOCAL_PREF - RFC 7606 7.5: from an external neighbour: discard; from an internal one:
  \* length other than 4 => treat-as-withdraw.  RFC 4271 5.1.5: SHALL be included in all UPDATEs
  \* to internal peers => mandatory on iBGP (RFC 7606 3.d).
  Row("LOCAL_PREF", "len",   IntOnly(pt, W), W, {LenErr}),
  Row("LOCAL_PREF", "flags", IntOnly(pt, W), W, {FlagsErr}),
  Row("LOCAL_PREF", "dup",   D, D, {AttrList}),
  Row("LOCAL_PREF", "miss",  W, W, {MissWK}),         \* iBGP only

  \* ATOMIC_AGGREGATE - RFC 7606 7.6: length other than 0 => attribute discard
  Row("ATOMIC_AGGREGATE", "len",   D, D, {LenErr}),
  Row("ATOMIC_AGGREGATE", "flags", W, W, {FlagsErr}),
  Row("ATOMIC_AGGREGATE", "dup",   D, D, {AttrList}),

  \* AGGREGATOR - RFC 7606 7.7: length other than 6 / 8 => attribute discard
  Row("AGGREGATOR", "len",   D, D, {LenErr}),
  Row("AGGREGATOR", "flags", W, W, {FlagsErr}),
  Row("AGGREGATOR", "dup",   D, D, {AttrList}),

  \* COMMUNITIES - RFC 7606 7.8: length not a NON-ZERO multiple of 4 => treat-as-withdraw
  Row("COMMUNITIES", "len",   W, W, {LenErr, OptErr}),
  Row("COMMUNITIES", "zlen",  W, W, {LenErr, OptErr}),
  Row("COMMUNITIES", "flags", W, W, {FlagsErr}),
  Row("COMMUNITIES", "dup",   D, D, {AttrList}),

  \* ORIGINATOR_ID - RFC 7606 7.9: external: discard; internal: length other than 4 => withdraw
  Row("ORIGINATOR_ID", "len",   IntOnly(pt, W), W, {LenErr, OptErr}),
  Row("ORIGINATOR_ID", "flags", IntOnly(pt, W), W, {FlagsErr}),
  Row("ORIGINATOR_ID", "dup",   D, D, {AttrList}),

  \* CLUSTER_LIST - RFC 7606 7.10: external: discard; internal: not a non-zero multiple of 4
  Row("CLUSTER_LIST", "len",   IntOnly(pt, W), W, {LenErr, OptErr}),
  Row("CLUSTER_LIST", "zlen",  IntOnly(pt, W), W, {LenErr, OptErr}),
  Row("CLUSTER_LIST", "flags", IntOnly(pt, W), W, {FlagsErr}),
  Row("CLUSTER_LIST", "dup",   D, D, {AttrList}),

  \* MP_REACH_NLRI - RFC 7606 7.11 + 3.j + 5.3: inconsistent next-hop length, unparsable NLRI,
  \* attribute too short: the NLRI cannot be located => session reset (or AFI/SAFI disable)
  Row("MP_REACH", "len",    R, R, {OptErr, LenErr, AttrList}),
  Row("MP_REACH", "nh",     R, R, {OptErr, LenErr, AttrList}),
  Row("MP_REACH", "pfxlen", R, R, {OptErr, BadNet, LenErr}),
  Row("MP_REACH", "ptrunc", R, R, {OptErr, BadNet, LenErr}),
  \* 3.c says treat-as-withdraw for wrong flags; 3.j lets an implementation that did not parse the
  \* NLRI of such an attribute reset instead
  Row("MP_REACH", "flags",  W, R, {FlagsErr}),
  \* RFC 7606 3.g: MP_REACH_NLRI / MP_UNREACH_NLRI more than once => session reset, subcode 1
  Row("MP_REACH", "dup",    R, R, {AttrList}),

  \* MP_UNREACH_NLRI - RFC 7606 7.12 / 5.3
  Row("MP_UNREACH", "len",    R, R, {OptErr, LenErr, AttrList}),
  Row("MP_UNREACH", "pfxlen", R, R, {OptErr, BadNet, LenErr}),
  Row("MP_UNREACH", "ptrunc", R, R, {OptErr, BadNet, LenErr}),
  Row("MP_UNREACH", "flags",  W, R, {FlagsErr}),
  Row("MP_UNREACH", "dup",    R, R, {AttrList}),

  \* EXTENDED COMMUNITIES - RFC 7606 7.14: length not a non-zero multiple of 8 => withdraw
  Row("EXT_COMMUNITIES", "len",   W, W, {LenErr, OptErr}),
  Row("EXT_COMMUNITIES", "zlen",  W, W, {LenErr, OptErr}),
  Row("EXT_COMMUNITIES", "flags", W, W, {FlagsErr}),
  Row("EXT_COMMUNITIES", "dup",   D, D, {AttrList}),

  \* AS4_PATH / AS4_AGGREGATOR - RFC 6793 6: malformed => the attribute is discarded and
  \* processing continues; wrong flags fall under RFC 7606 3.c
  Row("AS4_PATH", "segtype", D, W, {BadPath, OptErr, AttrList, LenErr}),
  Row("AS4_PATH", "segover", D, W, {BadPath, OptErr, AttrList, LenErr}),
  Row("AS4_PATH", "flags",   W, W, {FlagsErr}),
  Row("AS4_PATH", "dup",     D, D, {AttrList}),
  Row("AS4_AGGREGATOR", "len",   D, W, {LenErr, OptErr, AttrList}),
  Row("AS4_AGGREGATOR", "flags", W, W, {FlagsErr}),
  Row("AS4_AGGREGATOR", "dup",   D, D, {AttrList}),
  \* an AS4_AGGREGATOR that arrives WITHOUT an AGGREGATOR (all other AS4_AGGREGATOR cases carry
  \* both): RFC 6793 3 / 4.2.3 - between NEW speakers the attribute is simply discarded; no error
  Row("AS4_AGGREGATOR", "alone", None, None, {}),

  \* LARGE COMMUNITIES - RFC 8092 5: length not a non-zero multiple of 12 => treat-as-withdraw
  Row("LARGE_COMMUNITIES", "len",   W, W, {LenErr, OptErr}),
  Row("LARGE_COMMUNITIES", "zlen",  W, W, {LenErr, OptErr}),
  Row("LARGE_COMMUNITIES", "flags", W, W, {FlagsErr}),
  Row("LARGE_COMMUNITIES", "dup",   D, D, {AttrList}),

  \* unrecognised attributes - RFC 4271 6.3: optional transitive is accepted and passed on (no
  \* error); sent as well-known => Unrecognized Well-known Attribute (reset; not revised by 7606);
  \* with Optional and Transitive both clear the flags contradict themselves (3.c) as well
  Row("UNKNOWN", "ok",  None, None, {}),
  Row("UNKNOWN", "dup", D, D, {AttrList}),
  Row("UNKNOWN", "wk",  R, R, {UnrecWK}),
  Row("UNKNOWN", "wk0", W, R, {UnrecWK, FlagsErr}),

  \* RFC 7606 4: an attribute whose length runs over the Total Attribute Length, or fewer than 3
  \* octets left in the attribute area => treat-as-withdraw; the Total Attribute Length is relied
  \* upon to locate the NLRI
  Row("ATTR", "overrun", W, W, {LenErr, AttrList}),
  Row("ATTR", "short",   W, W, {LenErr, AttrList}),
  \* RFC 4271 6.3 / RFC 7606 3.a,b: Withdrawn Routes Length or Total Attribute Length too large for
  \* the message => Malformed Attribute List, session reset
  Row("TOTLEN", "over",  R, R, {AttrList}),
  \* Total Attribute Length one short: the last attribute overruns it (section 4: withdraw) and the
  \* octets taken for NLRI are very likely unparsable (3.j: reset)
  Row("TOTLEN", "short", W, R, {AttrList, LenErr, BadNet}),
  Row("WDLEN", "over",   R, R, {AttrList}),
  Row("WDLEN", "cut",    R, R, {AttrList, BadNet}),
  \* RFC 7606 5.3: prefix longer than 32 bits / running over the field => the NLRI cannot be
  \* parsed => session reset (RFC 4271: Invalid Network Field)
  Row("WDPFX", "pfxlen", R, R, {AttrList, BadNet}),
  Row("NLRI", "pfxlen",  R, R, {BadNet}),
  Row("NLRI", "trunc",   R, R, {BadNet, AttrList})
}

CatOf == [p \in PeerTypes |-> Catalogue(p)]     \* constant: evaluated once
Kinds == {<<r.a, r.k>> : r \in CatOf["ebgp"]}

EntryTab == [p \in PeerTypes |-> [kd \in Kinds |-> CHOOSE r \in CatOf[p] : r.a = kd[1] /\ r.k = kd[2]]]
(* kept in TLC register 8: TLC re-evaluates the constant table on every use otherwise (measured) *)
ASSUME TLCSet(8, EntryTab)
Entry(f, pt) == TLCGet(8)[pt][<<f.a, f.k>>]

(* which faults can be injected into which base message for which peer *)
Applies(a, k, base, pt) ==
  CASE a = "LOCAL_PREF" /\ k = "miss" -> pt = "ibgp" /\ base \in {"v4", "v6", "mix"}
    [] a = "AS_PATH" /\ k = "val"     -> pt # "ibgp" /\ base \in {"v4", "v6", "mix"}
    [] a = "AS_PATH" /\ k \in {"valb", "valbs"} -> pt = "ebgp" /\ base \in {"v4", "v6", "mix"}
    [] a = "NEXT_HOP"                 -> base \in {"v4", "mix"}
    [] a = "MP_REACH"                 -> base \in {"v6", "mix"}
    [] a = "MP_UNREACH"               -> base \in {"wd", "mix"}
    [] a \in {"UNKNOWN", "ATTR"}      -> TRUE
    [] a = "TOTLEN"                   -> TRUE
    [] a \in {"WDLEN", "WDPFX"}       -> base \in {"wd", "mix"}
    [] a = "NLRI"                     -> base \in {"v4", "mix"}
    [] OTHER                          -> base \in {"v4", "v6", "mix"}

(* a fault that owns an attribute TLV which can be moved to the front / the end *)
Positional(a, k) == a \notin {"ATTR", "TOTLEN", "WDLEN", "WDPFX", "NLRI"} /\ k # "miss"

MaxOf(S) == CHOOSE x \in S : \A y \in S : y <= x

Has(fs, a, k) == [a |-> a, k |-> k] \in fs

(* SHIFTED FRAMING.  With the Total Attribute Length one short (TOTLEN/short) the last attribute runs
   over the attribute area (RFC 7606 4: treat-as-withdraw) and the NLRI field, which section 4 says
   MUST be located by the Total Attribute Length, starts one octet early: the prefixes the message
   names AS RECEIVED are not the ones the sender meant (e.g. `05 | 18 0a 01 00 | 18 0a 02 00` reads
   as 24/5, 1.0/10, 10.2.0.0/24), and the overrunning attribute (possibly MP_REACH / MP_UNREACH)
   is not parsed at all.  No receiver can know the sender's intent, so for such a message the
   property layer (a) counts as "named" only what lies BEFORE the Total Attribute Length field -
   the Withdrawn Routes field - and (b) does not count a fault that was injected into the NLRI field
   as sent (its octets are framed differently as received).  Whether the shifted NLRI parses or not,
   both treat-as-withdraw and a reset are allowed (row TOTLEN/short: lo = W, hi = R). *)
Shifted(fs) == Has(fs, "TOTLEN", "short")
AsReceived(fs) == IF Shifted(fs) THEN {f \in fs : f.a # "NLRI"} ELSE fs
NamedAsReceived(fs, base) ==
  IF Shifted(fs) THEN {p \in Wd(base) : IsV4(p)} ELSE Ann(base) \cup Wd(base)

(* the faults of a message that make it malformed *)
Real(fs, pt) == {f \in fs : Entry(f, pt).lo # None}

(* Reaction: the strongest class any fault calls for; without revised error handling every
   malformed UPDATE resets the session (RFC 4271 6.3) *)
Lo(fs, pt, taw) ==
  IF Real(fs, pt) = {} THEN None
  ELSE IF ~taw THEN ResetC
  ELSE MaxOf({Entry(f, pt).lo : f \in AsReceived(fs)})

ResetJustified(fs, pt, taw) ==
  \/ ~taw /\ Real(fs, pt) # {}
  \/ \E f \in fs : Entry(f, pt).hi = ResetC

OkCodes(fs, pt, taw) ==
  UNION {Entry(f, pt).codes : f \in {g \in Real(fs, pt) : ~taw \/ Entry(g, pt).hi = ResetC}}

---------------------------------------------------------------------------
(* MECHANISM LAYER: how pkg/packet/bgp and pkg/server/fsm.go classify the same faults (tree with the
   repairs 52d5a94 558dfcd d38116e ed031b5 61def0e 7f4dc27).
   stage "frame": BGPUpdate.DecodeFromBytes returns a plain MessageError (session reset) at once;
   stage "dec"  : per-attribute decode error inside DecodeFromBytes, class from
                  getErrorHandlingFromPathAttribute (flags errors: treat-as-withdraw, except on
                  MP_REACH_NLRI / MP_UNREACH_NLRI), the strongest is kept (MessageError.Stronger);
   stage "val"  : found by ValidateUpdateMsg / ValidateAttribute, which recvMessageloop calls when
                  decoding reported no error or an attribute-discard one;
   stage "none" : not detected at all. *)
Impl(f, pt) ==
  LET a == f.a
      k == f.k
      M(s, c) == [stage |-> s, cls |-> c]
  IN
  CASE a \in {"TOTLEN"} /\ k = "over"                          -> M("frame", ResetC)
    [] a = "TOTLEN" /\ k = "short"                            -> M("dec", Withdraw)
    [] a \in {"WDLEN", "WDPFX", "NLRI"}                       -> M("frame", ResetC)
    [] a = "ATTR"                                             -> M("dec", Withdraw)
    [] k = "dup" /\ a \in {"MP_REACH", "MP_UNREACH"}          -> M("val", ResetC)
    [] k = "dup"                                              -> M("val", Discard)
    [] k = "miss" /\ a = "LOCAL_PREF"                         -> M("none", None)
    [] k = "miss"                                             -> M("val", Withdraw)
    [] a = "UNKNOWN" /\ k = "ok"                              -> M("none", None)
    [] a = "UNKNOWN" /\ k = "wk"                              -> M("val", ResetC)
    [] k = "val" /\ a = "AS_PATH" /\ pt = "confed"            -> M("val", ResetC)
    [] k \in {"val", "valm", "valb", "valbs"}                 -> M("val", Withdraw)
    [] k = "alone"                                            -> M("none", None)   \* dropped silently
    [] a \in {"MP_REACH", "MP_UNREACH"}                       -> M("dec", ResetC)  \* flags included
    [] k = "flags" \/ (a = "UNKNOWN" /\ k = "wk0")            -> M("dec", Withdraw)
    [] a \in {"ATOMIC_AGGREGATE", "AGGREGATOR"}               -> M("dec", Discard)
    [] OTHER                                                  -> M("dec", Withdraw) \* zlen included

StageOf(fs, pt, s) == {f \in fs : Impl(f, pt).stage = s}
ClsMax(S, pt) == MaxOf({Impl(f, pt).cls : f \in S} \cup {None})

(* with the framing shifted the NLRI-field fault is not where it was put (see Shifted) *)
FrameSeen(fs, pt) == StageOf(AsReceived(fs), pt, "frame")
(* PathAttribute.DecodeFromBytes checks the flags before the attribute's own decoder runs: a second
   decode-stage fault inside an attribute with wrong flags is never looked at *)
DecSeen(fs, pt) == {f \in StageOf(fs, pt, "dec") : f.k = "flags" \/ ~Has(fs, f.a, "flags")}
(* all = FALSE: recvMessageloop as it is (validation when decoding was clean or discard-class);
   all = TRUE : validation also after a treat-as-withdraw decode error, stronger kept *)
MechClass(fs, pt, taw, all) ==
  LET dc  == ClsMax(DecSeen(fs, pt), pt)
      vc  == ClsMax(StageOf(fs, pt, "val"), pt)
      raw == IF FrameSeen(fs, pt) # {} \/ dc = ResetC THEN ResetC
             ELSE IF dc \in {None, Discard} \/ all THEN MaxOf({dc, vc})
             ELSE dc
  IN IF raw # None /\ ~taw THEN ResetC ELSE raw

---------------------------------------------------------------------------
(* KNOWN FINDING predicates: each identifies, FROM THE INPUTS ONLY, the messages on which the
   pinned speaker is known to deviate (known_findings.jsonl), and what the weakened invariants of
   the trace spec then stop demanding.  (Four further findings of this check are repaired and have
   no predicate any more: zero-length list attributes, treat-as-withdraw without parsed NLRI,
   AS4_AGGREGATOR alone, ORIGIN length subcode.) *)

(* KF-C06-discard-masks-validation, treat-as-withdraw half (the attribute-discard half is repaired
   by 7f4dc27): a decode-stage error of class treat-as-withdraw makes recvMessageloop skip
   ValidateUpdateMsg, so what only the validator finds goes unnoticed - which matters for its
   RESET-class findings (unrecognised well-known attribute, duplicate MP_REACH/MP_UNREACH,
   confederation AS_PATH of a member peer).  Only with revised error handling on. *)
Masked(fs, pt, taw) ==
  /\ taw
  /\ FrameSeen(fs, pt) = {}
  /\ ClsMax(DecSeen(fs, pt), pt) = Withdraw
  /\ StageOf(fs, pt, "val") # {}
(* KF-C06-ibgp-local-pref-not-mandatory: ValidateUpdateMsg never asks for LOCAL_PREF *)
KF_LocalPref(fs) == Has(fs, "LOCAL_PREF", "miss")

(* the faults the pinned speaker is known not to act upon *)
Ignored(fs, pt, taw) ==
  (IF Masked(fs, pt, taw) THEN StageOf(fs, pt, "val") ELSE {})
  \cup {f \in fs : f.a = "LOCAL_PREF" /\ f.k = "miss"}
Unmasked(fs, pt, taw) == fs \ Ignored(fs, pt, taw)

KFTags(fs, pt, taw) ==
  (IF Masked(fs, pt, taw) THEN {"KF-C06-discard-masks-validation"} ELSE {})
  \cup (IF KF_LocalPref(fs) THEN {"KF-C06-ibgp-local-pref-not-mandatory"} ELSE {})
=============================================================================
